/* c10_trace.c - recording driver for C10 (validate direction): runs MatrixPreprocess / TensorPreprocess and the column
 * statistic routines on generated matrices inside the property's quantifier and logs, per column, the integer data and
 * the integer projection of what the library returned; TLC recomputes the exact statistics (spec/TracePreprocess.tla).
 *
 * usage: c10_trace <out.ndjson> <seed> <nmatrices> [main|deg]
 * Data: cell(i,j) = (piv_j + d_ij) * 2^-e / q;  |d| <= 400; r in 2..60, c in 1..20; option -1..5;
 *   q = 1 with e in {-20,-10,0,4,10} (dyadic grid: cells and column sums exact in double) or
 *   q in {10,3,1000,7,49,100} with e = 0 (class K5: cells not representable, sum/n one ulp off the value);
 *   up to 20 % MISSING cells (every column keeps >= 2 present cells); pivots up to 1e6 in real units (|piv| <= 4000
 *   units for RMS scaling so that TLC can square the raw values in 32 bits; |piv| <= 1e6 units for non-constant columns
 *   on a non-dyadic grid so that the input rounding stays far below the integer grid of the projection); column spread
 *   (sample sdev) >= 0.02 or exactly 0; column mean exactly 0 or >= 1e-3 in magnitude; for level scaling at e = 10 about
 *   a third of the columns get a mean in [1e-3, 1e-2) (between the implementation's two former zero-scale thresholds).
 * The matrices follow a fixed schedule of 12 slots (id % 12) so that every input class of INPUT-CLASSES.md that lies
 * inside the quantifier is emitted in every run: legacy random, K5 (non-representable constants, rows 3/7/10/49/60, with
 * MISSING cells, with large offsets, zero-mean, tied values), K1/K2 (shape relations and boundaries), K9 (MISSING in the
 * first / last row), K8 (duplicate rows / columns, ties, constant among informative), K4 (units 2^10, 2^20), K7 (outputs
 * already sized and holding other data, refit after a fit of another shape).  Reset and Col carry the class tags.
 * Events: Reset{id,type,r,c,exp,den,tags} then per column Col, Avg, Scale, Cells, Same, New [, Stat x6]; Copy for
 *   option -1; Again (K7); Tensor.  Mode deg (outside the quantifier, reported as EXTRA only): one column per matrix has
 *   fewer than two present cells: DegCol, Deg.
 */
#include "scientific.h"
#include "verif_rt.h"

#define MISS 99999999L
typedef long double LD;
static long clampq(LD x){ if(!(x == x)) return VQ_MAX; if(x > 2e9L) return VQ_MAX; if(x < -2e9L) return -VQ_MAX; return (long)llroundl(x); }
/* spread >= 0.02 in real units:  ssd/(N(N-1)) * (2^-e/q)^2 >= 4e-4  <=>  2500 ssd >= N(N-1) q^2 4^e  (the runner re-checks the same rule) */
static int spread_ok(long long ssd, long N, int e, long q){
  if(ssd == 0) return 1;
  LD lhs = 2500.0L * (LD)ssd, rhs = (LD)N * (LD)(N - 1) * (LD)q * (LD)q;
  if(e >= 0) rhs *= ldexpl(1.0L, 2 * e); else lhs *= ldexpl(1.0L, -2 * e);
  return lhs >= rhs;
}
/* mean exactly 0 or |mean| >= 1e-3:  1000 |p N + S1| >= N q 2^e */
static int mean_ok(long long tot, long N, int e, long q){
  if(tot == 0) return 1;
  LD lhs = 1000.0L * (LD)llabs(tot), rhs = (LD)N * (LD)q;
  if(e >= 0) rhs *= ldexpl(1.0L, e); else lhs *= ldexpl(1.0L, -e);
  return lhs >= rhs;
}

typedef struct { matrix *m, *t; dvector *a, *s; } kept;
#define KEEP 4
#define MAXC 20
#define MAXTAG 512

static void tag(char *buf, const char *t){ size_t n = strlen(buf); snprintf(buf + n, MAXTAG - n, "%s\"%s\"", n ? "," : "", t); }
static const char *SLOTS[12] = {"legacy", "K5", "legacy", "K1K2", "K5", "K9", "legacy", "K8", "K5", "K4", "legacy", "K7"};
static const int K5ROWS[5] = {3, 7, 10, 49, 60};
static const long K5DEN[6] = {10, 3, 1000, 7, 49, 100};
static const int SHAPES[][2] = { {2,1},{2,2},{2,3},{2,20},{3,4},{4,3},{4,4},{5,4},{4,5},{7,8},{8,8},{9,8},{8,7},{15,16},{16,16},{17,16},{19,20},{20,20},
                                 {21,20},{31,5},{32,3},{33,2},{59,4},{60,1},{60,20},{3,20},{12,13},{16,4},{32,16},{60,7} };
#define NSHAPES (int)(sizeof SHAPES / sizeof SHAPES[0])

int main(int argc, char **argv){
  if(argc < 4){ fprintf(stderr, "usage: c10_trace out.ndjson seed nmat [main|deg]\n"); return 2; }
  vrt_open(argv[1]);
  long seed = atol(argv[2]);
  vrng R = { (uint64_t)atoll(argv[2]) * 0x9E3779B97F4A7C15ULL + 12345 };
  long nmat = atol(argv[3]);
  int degmode = argc > 4 && strcmp(argv[4], "deg") == 0;
  static const int ES[3] = {0, 4, 10};
  kept keep[KEEP]; int nkeep = 0, keeptype = -9;
  static char buf[1 << 16];
  long k5count = seed % 6, shapecount = (seed % 5) * 6;
  for(long id = 0; id < nmat; id++){
    const char *slot = degmode ? "deg" : SLOTS[id % 12];
    int isK5 = !strcmp(slot, "K5"), isK1 = !strcmp(slot, "K1K2"), isK9 = !strcmp(slot, "K9"), isK8 = !strcmp(slot, "K8"),
        isK4 = !strcmp(slot, "K4"), isK7 = !strcmp(slot, "K7");
    int type = (int)((id / 12 + seed) % 7) - 1;
    int e = ES[vr_int(&R, 0, 2)];
    long q = 1;
    int r = (int)(vr_unif(&R) < 0.3 ? vr_int(&R, 2, 6) : vr_int(&R, 2, 60));
    int c = (int)vr_int(&R, 1, 20);
    int reuse = isK7 || vr_unif(&R) < 0.15, duprows = 0, missmode = 1, withstat = isK5 || (id % 3 == 0);
    if(isK5){ type = (int)(k5count % 6); q = K5DEN[(k5count / 6 + k5count) % 6]; e = 0; r = K5ROWS[(k5count / 2 + k5count / 12) % 5]; c = (int)vr_int(&R, 4, 10); k5count++; }
    if(isK1){ r = SHAPES[shapecount % NSHAPES][0]; c = SHAPES[shapecount % NSHAPES][1]; shapecount++; }
    if(isK9){ r = (int)vr_int(&R, 5, 60); missmode = r >= 10 ? (int)vr_int(&R, 2, 4) : (int)vr_int(&R, 2, 3); if(type < 0) type = 4; }
    if(isK8){ duprows = (id / 12) % 2 == 0; if(r < 4) r = 4 + (int)vr_int(&R, 0, 20); if(c < 3) c = 3 + (int)vr_int(&R, 0, 6); }
    if(isK4){ e = (id / 12) % 2 ? -10 : -20; }
    if(isK7 && type < 0) type = (int)vr_int(&R, 0, 5);
    if(degmode){ type = (int)(id % 6); e = (id / 6) % 2 ? 4 : 0; r = (int)vr_int(&R, 2, 10); c = (int)vr_int(&R, 5, 8); missmode = 0; reuse = 0; withstat = 0; }
    int degcol = degmode ? (int)vr_int(&R, 0, c - 1) : -1, degN = (int)((id / 2) % 2);   /* that column keeps degN (0 or 1) present cells */
    LD unitfac = (LD)q * ldexpl(1.0L, e);          /* value in units = value * unitfac */
    long *d = malloc(sizeof(long) * r * c), *piv = malloc(sizeof(long) * c);
    char ctags[MAXC][MAXTAG]; char mtags[MAXTAG]; mtags[0] = 0;
    int ckind[MAXC];
#define D(i,j) d[(size_t)(i) * c + (j)]
    double pmiss = (missmode == 0 || vr_unif(&R) < 0.4) ? 0.0 : 0.2 * vr_unif(&R);
    long budget = (long)(0.2 * r * c);            /* at most 20 % missing cells */
    if(degmode) budget -= r;                       /* reserved for the degenerate column */
    LD minsd = 0.02L * unitfac;                    /* smallest admissible non-zero sdev in units */
    for(int j = 0; j < c; j++){
      ctags[j][0] = 0;
      long lo = (long)ceill(2.0L * minsd); if(lo < 1) lo = 1; if(lo > 300) lo = 300;
      long Dmax = vr_int(&R, e == 10 && q == 1 ? 64 : (e == 4 && lo < 4 ? 4 : lo), 400);
      /* column kind: G general, C constant, Z zero mean (p N + S1 = 0), T ties (2..3 distinct values), D duplicate of column j-1, X degenerate */
      int kind = vr_unif(&R) < 0.12 ? 'C' : 'G';
      double w0 = vr_unif(&R);
      if(isK5) kind = w0 < 0.55 ? 'C' : (w0 < 0.7 ? 'Z' : (w0 < 0.85 ? 'T' : 'G'));
      else if(isK8) kind = j > 0 && w0 < 0.25 ? 'D' : (w0 < 0.5 ? 'T' : (w0 < 0.65 ? 'C' : 'G'));
      else if(w0 < 0.06 && !duprows) kind = 'Z';
      else if(w0 < 0.10) kind = 'T';
      int forcerow = -1, forcebig = 0;
      if(isK5 && (j == 0 || j == 2 || j == 3)) kind = 'C';           /* every K5 matrix has constant columns: plain, ... */
      if(isK5 && j == 1) kind = 'G';                                 /* ... among informative ones, ... */
      if(isK5 && j == 2 && r > 3) forcerow = 1;                      /* ... constant except for a MISSING cell, ... */
      if(isK5 && j == 3) forcebig = 1;                               /* ... and with a large offset */
      if(kind == 'Z' && duprows) kind = 'G';
      if(j == degcol) kind = 'X';
      int firstmiss = (missmode == 2 || missmode == 4), lastmiss = (missmode == 3 || missmode == 4);
      if(isK9 && vr_unif(&R) < 0.3){ firstmiss = lastmiss = 0; }      /* some columns of a K9 matrix stay complete */
      long N = 0, used = 0; long long S1 = 0, S2 = 0;
      if(kind == 'D'){
        used = 0; for(int i = 0; i < r; i++) if(D(i, j - 1) == MISS) used++;
        if(used > budget || ckind[j - 1] == 'X') kind = 'G';
        else{ for(int i = 0; i < r; i++) D(i, j) = D(i, j - 1); piv[j] = piv[j - 1]; budget -= used; ckind[j] = 'D';
              snprintf(ctags[j], MAXTAG, "%s", ctags[j - 1]); tag(ctags[j], "K8:dup-col"); continue; }
      }
      if(kind == 'X'){
        int keepi = (int)vr_int(&R, 0, r - 1);
        for(int i = 0; i < r; i++) D(i, j) = (degN == 1 && i == keepi) ? vr_int(&R, -Dmax, Dmax) : MISS;
        piv[j] = vr_int(&R, -1000, 1000); ckind[j] = 'X';
        tag(ctags[j], degN ? "KX:single-present-cell" : "KX:whole-column-missing");
        continue;
      }
      long tv[3]; int ntv = (int)vr_int(&R, 2, 3);
      for(int attempt = 0; ; attempt++){
        long cv = vr_int(&R, -Dmax, Dmax);
        for(int a = 0; a < 3; a++) tv[a] = vr_int(&R, -Dmax, Dmax);
        used = 0;
        for(int i = 0; i < r; i++){
          int forced = (i == 0 && firstmiss) || (i == r - 1 && lastmiss) || i == forcerow;
          if((forced || vr_unif(&R) < pmiss) && used < budget && (r - used) > 2){ D(i, j) = MISS; used++; continue; }
          D(i, j) = kind == 'C' ? cv : (kind == 'T' ? tv[vr_int(&R, 0, ntv - 1)] : vr_int(&R, -Dmax, Dmax));
        }
        if(duprows){ D(r - 1, j) = D(0, j); if(r >= 6) D(r - 2, j) = D(1, j); }
        N = 0; used = 0; S1 = 0; S2 = 0;
        for(int i = 0; i < r; i++){ if(D(i, j) == MISS){ used++; continue; } N++; S1 += D(i, j); S2 += (long long)D(i, j) * D(i, j); }
        if(kind == 'Z' && N >= 2){
          long rem = (long)(((S1 % N) + N) % N);
          for(int i = 0; i < r && rem; i++) if(D(i, j) != MISS && D(i, j) - rem >= -400){ S2 += (long long)(D(i, j) - rem) * (D(i, j) - rem) - (long long)D(i, j) * D(i, j); D(i, j) -= rem; S1 -= rem; rem = 0; }
          if(rem){ if(attempt > 40) kind = 'C'; continue; }
        }
        long long ssd = N * S2 - S1 * S1;
        if(used > budget){ pmiss = 0; firstmiss = lastmiss = 0; continue; }
        if(N >= 2 && spread_ok(ssd, N, e, q) && (kind == 'C' || ssd > 0 || attempt > 40)){ budget -= used; break; }
        if(attempt > 40){ kind = 'C'; pmiss = 0; }
      }
      ckind[j] = kind;
      long long ssd = N * S2 - S1 * S1;
      int isconst = ssd == 0;
      /* pivot (offset) */
      long p; double w = vr_unif(&R);
      LD bigl = 1000000.0L * unitfac; long big = bigl > 1000000000.0L ? 1000000000L : (long)bigl; if(big < 1) big = 1;
      if(q != 1 && !isconst && big > 1000000L) big = 1000000L;       /* non-dyadic, informative: keep the input rounding of the spread far below the integer grid */
      if(kind == 'Z' && ((long long)(-S1 / N)) * N + S1 == 0) p = (long)(-S1 / N);
      else if(type == 2){ long lim = big < 4000 ? big : 4000; p = w < 0.3 ? 0 : vr_int(&R, -lim, lim); }
      else if(isK5 && isconst && (forcebig || w < 0.4)) p = (vr_unif(&R) < 0.5 ? -1 : 1) * vr_int(&R, big / 10, big);   /* K5 with a large offset: 1e5..1e6 real */
      else if(w < 0.2) p = 0;
      else if(w < 0.45) p = vr_int(&R, -100, 100);
      else if(w < 0.7) p = vr_int(&R, -100000 < -big ? -big : -100000, 100000 > big ? big : 100000);
      else p = (vr_unif(&R) < 0.5 ? -1 : 1) * vr_int(&R, big / 10, big);
      if(type == 5 && e == 10 && q == 1 && kind != 'Z' && vr_unif(&R) < 0.35){
        /* mean = p + S1/N in [k, k+1), k in 2..9 units of 2^-10: 0.002 .. 0.0098 */
        long fl = (long)floor((double)S1 / (double)N);
        long k = vr_int(&R, 2, 9);
        p = k - fl;
        if(!duprows && vr_unif(&R) < 0.5){ for(int i = 0; i < r; i++) if(D(i, j) != MISS) D(i, j) = -D(i, j); S1 = -S1; p = -p; }
      }
      /* mean exactly 0 or |mean| >= 1e-3 */
      for(;;){ long long tot = (long long)p * N + S1; if(mean_ok(tot, N, e, q)) break; p += (tot > 0 ? 1 : -1) * (1 + (long)(unitfac / 1000.0L)); }
      piv[j] = p;
      /* class tags of the column */
      {
        long long tot = (long long)p * N + S1; LD offreal = fabsl((LD)p) / unitfac;
        if(q != 1){
          if(isconst){ tag(ctags[j], "K5:const-nonrep"); if(used) tag(ctags[j], "K5:const-nonrep-missing"); if(offreal >= 1e4L) tag(ctags[j], "K5:const-nonrep-bigoffset"); }
          else if(tot == 0) tag(ctags[j], "K5:zero-mean-nonrep");
          else tag(ctags[j], kind == 'T' ? "K5:tied-nonrep" : "K5:informative-nonrep");
        }
        if(isconst && c > 1) tag(ctags[j], "K8:const-among-informative");
        if(kind == 'T' && !isconst) tag(ctags[j], "K8:ties");
        if(q == 1 && tot == 0) tag(ctags[j], "K8:zero-mean");
        if(offreal >= 1e5L) tag(ctags[j], "K3:offset>=1e5");
        if(!isconst){ LD sd = sqrtl((LD)ssd / ((LD)N * (LD)(N - 1))), mn = fabsl((LD)tot / (LD)N); if(mn / sd >= 1e6L) tag(ctags[j], "K3:mean/sdev>=1e6"); else if(mn / sd >= 1e3L) tag(ctags[j], "K3:mean/sdev>=1e3"); }
        if(D(0, j) == MISS) tag(ctags[j], "K9:first-row-missing");
        if(D(r - 1, j) == MISS) tag(ctags[j], "K9:last-row-missing");
        if(used && D(0, j) != MISS && D(r - 1, j) != MISS) tag(ctags[j], "K9:inner-missing");
      }
    }
    /* matrix-level class tags */
    {
      char s[64]; snprintf(s, sizeof s, "slot:%s", slot); tag(mtags, s);
      tag(mtags, r > c ? "K1:tall" : (r == c ? "K1:square" : "K1:wide"));
      if(r == c + 1 || r + 1 == c) tag(mtags, "K1:n=p+-1");
      if(c == 1) tag(mtags, "K1:single-column");
      if(r == 2) tag(mtags, "K1:two-rows");
      if(r % 4 == 0) tag(mtags, "K2:rows-mult4"); else if(r % 4 == 1 || r % 4 == 3) tag(mtags, "K2:rows-mult4+-1");
      if(r >= 31 && r <= 33) tag(mtags, "K2:rows-32+-1");
      if(r == 60) tag(mtags, "K2:rows-60"); if(c == 20) tag(mtags, "K2:cols-20");
      if(c % 4 == 0) tag(mtags, "K2:cols-mult4"); else if(c % 4 == 1 || c % 4 == 3) tag(mtags, "K2:cols-mult4+-1");
      if(e == -10) tag(mtags, "K4:unit-2^10"); if(e == -20) tag(mtags, "K4:unit-2^20"); if(e == 10 && q == 1) tag(mtags, "K4:unit-2^-10");
      if(q != 1){ snprintf(s, sizeof s, "K5:unit-1/%ld", q); tag(mtags, s); snprintf(s, sizeof s, "K5:option%d", type); tag(mtags, s); snprintf(s, sizeof s, "K5:rows-%d", r); tag(mtags, s); }
      if(reuse) tag(mtags, "K7:outputs-presized-holding-other-data");
      if(duprows) tag(mtags, "K8:dup-rows");
    }
    matrix *m, *t; dvector *avg, *sc; NewMatrix(&m, r, c); NewMatrix(&t, r, c); initDVector(&avg); initDVector(&sc);
    const double PRE1 = 7.25, PRE2 = -3.5;
    for(int i = 0; i < r; i++) for(int j = 0; j < c; j++){
      m->data[i][j] = D(i, j) == MISS ? (double)MISS : (q == 1 ? ldexp((double)(piv[j] + D(i, j)), -e) : (double)(piv[j] + D(i, j)) / (double)q);
      if(reuse) t->data[i][j] = PRE1;
    }
    VRT_EMIT("{\"e\":\"Reset\",\"id\":%ld,\"type\":%d,\"r\":%d,\"c\":%d,\"exp\":%d,\"den\":%ld,\"reuse\":%d,\"tags\":[%s]}", id, type, r, c, e, q, reuse, mtags);
    MatrixPreprocess(m, type, avg, sc, t);
    matrix *t2; NewMatrix(&t2, r, c);
    if(reuse) for(int i = 0; i < r; i++) for(int j = 0; j < c; j++) t2->data[i][j] = PRE2;
    MatrixPreprocess(m, type, avg, sc, t2);
    /* three new rows; in K9 matrices the last one carries MISSING in every other column */
    long ny[3][MAXC]; matrix *y, *t3; NewMatrix(&y, 3, c);
    if(reuse){ NewMatrix(&t3, 3, c); for(int a = 0; a < 3; a++) for(int j = 0; j < c; j++) t3->data[a][j] = PRE1; } else initMatrix(&t3);
    for(int a = 0; a < 3; a++) for(int j = 0; j < c; j++){
      ny[a][j] = vr_int(&R, -800, 800);
      if(isK9 && a == 2 && j % 2 == 0) ny[a][j] = MISS;
      y->data[a][j] = ny[a][j] == MISS ? (double)MISS : (q == 1 ? ldexp((double)(piv[j] + ny[a][j]), -e) : (double)(piv[j] + ny[a][j]) / (double)q);
    }
    if(type >= 0) MatrixPreprocess(y, type, avg, sc, t3);
    /* the column-statistic routines called directly (outside the statement: EXTRA) */
    dvector *da = NULL, *ds = NULL, *dv = NULL, *dr = NULL;
    if(withstat && type >= 0){ initDVector(&da); initDVector(&ds); initDVector(&dv); initDVector(&dr); MatrixColAverage(m, da); MatrixColSDEV(m, ds); MatrixColVar(m, dv); MatrixColRMS(m, dr); }
    if(type < 0){
      int eq = 1; for(int i = 0; i < r; i++) for(int j = 0; j < c; j++) if(t->data[i][j] != m->data[i][j] || t2->data[i][j] != m->data[i][j]) eq = 0;
      VRT_EMIT("{\"e\":\"Copy\",\"id\":%ld,\"type\":-1,\"equal\":%d}", id, eq);
    }
    else for(int j = 0; j < c; j++){
      int ok_sizes = avg->size == (size_t)c && sc->size == (size_t)c && t3->row == 3 && t3->col == (size_t)c;
      double A = ok_sizes ? avg->data[j] : NAN, S = ok_sizes ? sc->data[j] : NAN;
      long N = 0; int hm = 0; for(int i = 0; i < r; i++){ if(D(i, j) != MISS) N++; else hm = 1; }
      int p = 0;
      p += snprintf(buf + p, sizeof buf - p, "{\"e\":\"%s\",\"id\":%ld,\"j\":%d,\"type\":%d,\"exp\":%d,\"den\":%ld,\"piv\":%ld,\"hm\":%d,\"tags\":[%s],\"d\":[", ckind[j] == 'X' ? "DegCol" : "Col", id, j, type, e, q, piv[j], hm, ctags[j]);
      for(int i = 0; i < r; i++) p += snprintf(buf + p, sizeof buf - p, "%s%ld", i ? "," : "", D(i, j));
      snprintf(buf + p, sizeof buf - p, "]}");
      VRT_EMIT("%s", buf);
      if(ckind[j] == 'X'){
        int fin = 1, zero = 1; for(int i = 0; i < r; i++) if(D(i, j) != MISS){ if(!vfinite(t->data[i][j])) fin = 0; if(t->data[i][j] != 0.0) zero = 0; }
        for(int i = 0; i < r; i++) if(!vfinite(t->data[i][j])) fin = 0;     /* nothing in the column may be NaN/Inf */
        long s1 = N == 1 ? clampq((LD)A * unitfac - (LD)piv[j]) : 0;
        VRT_EMIT("{\"e\":\"Deg\",\"id\":%ld,\"j\":%d,\"type\":%d,\"n\":%ld,\"sfin\":%d,\"fin\":%d,\"zero\":%d,\"s1\":%ld}", id, j, type, N, vfinite(A) && vfinite(S), fin, zero, s1);
        continue;
      }
      /* stored average */
      LD va = ((LD)A * unitfac - (LD)piv[j]) * (LD)N; long s1 = clampq(va);
      VRT_EMIT("{\"e\":\"Avg\",\"id\":%ld,\"j\":%d,\"type\":%d,\"hm\":%d,\"s1\":%ld,\"s1r\":%ld}", id, j, type, hm, s1, vq9((double)(va - (LD)s1)));
      /* stored scaling through its rational power */
      LD su = (LD)S * unitfac, vs;
      switch(type){
        case 1: vs = su * su * (LD)N * (LD)(N - 1); break;
        case 2: vs = su * su * (LD)N; break;
        case 3: { LD s2u = (LD)S * (LD)S * unitfac; vs = s2u * s2u * (LD)N * (LD)(N - 1); } break;
        case 4: vs = su; break;
        case 5: vs = (su - (LD)piv[j]) * (LD)N; break;
        default: vs = S; break;
      }
      long scq = clampq(vs); LD den = fabsl((LD)scq) > 1 ? fabsl((LD)scq) : 1;
      VRT_EMIT("{\"e\":\"Scale\",\"id\":%ld,\"j\":%d,\"type\":%d,\"hm\":%d,\"sc\":%ld,\"ra\":%ld,\"rr\":%ld,\"pos\":%d}", id, j, type, hm, scq, vq9((double)(vs - (LD)scq)), vq12((double)((vs - (LD)scq) / den)), S > 0 ? 1 : 0);
      /* transformed training cells */
      int fin = 1, zero = 1, mz = 1; long nz = 0; double worst = 0, tmax = 0;
      int colzero = 1; for(int i = 0; i < r; i++) if(t->data[i][j] != 0.0) colzero = 0;
      p = snprintf(buf, sizeof buf, "{\"e\":\"Cells\",\"id\":%ld,\"j\":%d,\"type\":%d,\"hm\":%d,\"cn\":[", id, j, type, hm);
      for(int i = 0; i < r; i++){
        long qv = 0;
        if(D(i, j) == MISS){ double pre = reuse ? PRE1 : 0.0, tvv = t->data[i][j]; if(!(colzero || tvv == pre / S || tvv == pre)) mz = 0; }
        else{
          double tvv = t->data[i][j];
          if(!vfinite(tvv)) fin = 0;
          if(tvv != 0.0){ zero = 0; nz++; }
          if(!(fabs(tvv) <= tmax)) tmax = fabs(tvv);
          LD val = (LD)tvv * (LD)S * unitfac * (LD)N; qv = clampq(val);
          double rs = (double)fabsl(val - (LD)qv); if(!(rs <= worst)) worst = rs;
        }
        p += snprintf(buf + p, sizeof buf - p, "%s%ld", i ? "," : "", qv);
      }
      snprintf(buf + p, sizeof buf - p, "],\"cnr\":%ld,\"fin\":%d,\"zero\":%d,\"nz\":%ld,\"tmax\":%ld,\"mz\":%d}", vq9(worst), fin, zero, nz, vq12(tmax), mz);
      VRT_EMIT("%s", buf);
      /* apply on the same matrix */
      double wsame = 0;
      for(int i = 0; i < r; i++) if(D(i, j) != MISS){
        double a = t->data[i][j], b = t2->data[i][j]; double dd = fabs(a - b), sden = fabs(a) > 1e-300 ? fabs(a) : (b == 0.0 ? 1.0 : 1e-300);
        if(!vfinite(b)) dd = INFINITY;
        if(!(dd / sden <= wsame)) wsame = dd / sden;
      }
      VRT_EMIT("{\"e\":\"Same\",\"id\":%ld,\"j\":%d,\"type\":%d,\"hm\":%d,\"q\":%ld}", id, j, type, hm, vq12(wsame));
      /* new rows */
      fin = 1; zero = 1; worst = 0;
      p = snprintf(buf, sizeof buf, "{\"e\":\"New\",\"id\":%ld,\"j\":%d,\"type\":%d,\"hm\":%d,\"ny\":[%ld,%ld,%ld],\"cn\":[", id, j, type, hm, ny[0][j], ny[1][j], ny[2][j]);
      for(int a = 0; a < 3; a++){
        long qv = 0;
        if(ny[a][j] != MISS){
          double tvv = ok_sizes ? t3->data[a][j] : NAN;
          if(!vfinite(tvv)) fin = 0;
          if(tvv != 0.0) zero = 0;
          LD val = (LD)tvv * (LD)S * unitfac * (LD)N; qv = clampq(val);
          double rs = (double)fabsl(val - (LD)qv); if(!(rs <= worst)) worst = rs;
        }
        p += snprintf(buf + p, sizeof buf - p, "%s%ld", a ? "," : "", qv);
      }
      snprintf(buf + p, sizeof buf - p, "],\"cnr\":%ld,\"fin\":%d,\"zero\":%d}", vq9(worst), fin, zero);
      VRT_EMIT("%s", buf);
      /* direct statistics */
      if(da){
        int szok = da->size == (size_t)c && ds->size == (size_t)c && dv->size == (size_t)c && dr->size == (size_t)c;
        double xa = szok ? da->data[j] : NAN, xs = szok ? ds->data[j] : NAN, xv = szok ? dv->data[j] : NAN, xr = szok ? dr->data[j] : NAN, mn, mx;
        MatrixColumnMinMax(m, (size_t)j, &mn, &mx);
        LD v1 = ((LD)xa * unitfac - (LD)piv[j]) * (LD)N; long q1 = clampq(v1);
        VRT_EMIT("{\"e\":\"Stat\",\"id\":%ld,\"j\":%d,\"type\":%d,\"fn\":\"avg\",\"q\":%ld,\"qr\":%ld,\"neg\":0,\"fin\":%d}", id, j, type, q1, vq9((double)(v1 - (LD)q1)), vfinite(xa));
        LD s2 = (LD)xs * unitfac; LD v2 = s2 * s2 * (LD)N * (LD)(N - 1); long q2 = clampq(v2); LD d2 = fabsl((LD)q2) > 1 ? fabsl((LD)q2) : 1;
        VRT_EMIT("{\"e\":\"Stat\",\"id\":%ld,\"j\":%d,\"type\":%d,\"fn\":\"sdev\",\"q\":%ld,\"qr\":%ld,\"neg\":%d,\"fin\":%d}", id, j, type, q2, vq12((double)((v2 - (LD)q2) / d2)), xs < 0, vfinite(xs));
        LD v3 = (LD)xv * unitfac * unitfac * (LD)N * (LD)(N - 1); long q3 = clampq(v3); LD d3 = fabsl((LD)q3) > 1 ? fabsl((LD)q3) : 1;
        VRT_EMIT("{\"e\":\"Stat\",\"id\":%ld,\"j\":%d,\"type\":%d,\"fn\":\"var\",\"q\":%ld,\"qr\":%ld,\"neg\":%d,\"fin\":%d}", id, j, type, q3, vq12((double)((v3 - (LD)q3) / d3)), xv < 0, vfinite(xv));
        if(piv[j] <= 4000 && piv[j] >= -4000){
          LD s4 = (LD)xr * unitfac; LD v4 = s4 * s4 * (LD)N; long q4 = clampq(v4); LD d4 = fabsl((LD)q4) > 1 ? fabsl((LD)q4) : 1;
          VRT_EMIT("{\"e\":\"Stat\",\"id\":%ld,\"j\":%d,\"type\":%d,\"fn\":\"rms\",\"q\":%ld,\"qr\":%ld,\"neg\":%d,\"fin\":%d}", id, j, type, q4, vq12((double)((v4 - (LD)q4) / d4)), xr < 0, vfinite(xr));
        }
        LD v5 = (LD)mn * unitfac - (LD)piv[j]; long q5 = clampq(v5);
        VRT_EMIT("{\"e\":\"Stat\",\"id\":%ld,\"j\":%d,\"type\":%d,\"fn\":\"min\",\"q\":%ld,\"qr\":%ld,\"neg\":0,\"fin\":%d}", id, j, type, q5, vq9((double)(v5 - (LD)q5)), vfinite(mn));
        LD v6 = (LD)mx * unitfac - (LD)piv[j]; long q6 = clampq(v6);
        VRT_EMIT("{\"e\":\"Stat\",\"id\":%ld,\"j\":%d,\"type\":%d,\"fn\":\"max\",\"q\":%ld,\"qr\":%ld,\"neg\":0,\"fin\":%d}", id, j, type, q6, vq9((double)(v6 - (LD)q6)), vfinite(mx));
      }
    }
    if(da){ DelDVector(&da); DelDVector(&ds); DelDVector(&dv); DelDVector(&dr); }
    /* K7: a fit of another shape, a fit of the same shape with other data, then the first matrix again into outputs that hold other data */
    if(isK7 && type >= 0){
      int r2 = r > 2 ? r - 1 : r + 1; matrix *mb, *tb; dvector *ab, *sb; NewMatrix(&mb, r2, c); NewMatrix(&tb, r2, c); initDVector(&ab); initDVector(&sb);
      for(int i = 0; i < r2; i++) for(int j = 0; j < c; j++){ double x = m->data[i % r][j]; mb->data[i][j] = x == (double)MISS ? x : 1.5 * x + (double)(i * j % 7); }
      MatrixPreprocess(mb, type, ab, sb, tb);
      DelMatrix(&mb); DelMatrix(&tb); DelDVector(&ab); DelDVector(&sb);
      /* ... then the same shape with other data ... */
      NewMatrix(&mb, r, c); NewMatrix(&tb, r, c); initDVector(&ab); initDVector(&sb);
      for(int i = 0; i < r; i++) for(int j = 0; j < c; j++){ double x = m->data[(i + 1) % r][j]; mb->data[i][j] = x == (double)MISS ? x : 0.75 * x - (double)((i + 2 * j) % 5); }
      MatrixPreprocess(mb, type, ab, sb, tb);
      DelMatrix(&mb); DelMatrix(&tb); DelDVector(&ab); DelDVector(&sb);
      dvector *a2, *s2; initDVector(&a2); initDVector(&s2);
      MatrixPreprocess(m, type, a2, s2, t2);                      /* t2 holds the re-applied transform of the first fit */
      int eq = a2->size == avg->size && s2->size == sc->size; double wq = eq ? 0 : INFINITY;
      for(size_t j = 0; eq && j < avg->size; j++){
        double pa[2][2] = { {avg->data[j], a2->data[j]}, {sc->data[j], s2->data[j]} };
        for(int k = 0; k < 2; k++){ double a = pa[k][0], b = pa[k][1]; if(memcmp(&a, &b, 8) && !(a == b)) eq = 0;
          double dd = fabs(a - b), sden = fabs(a) > 1e-300 ? fabs(a) : (b == 0.0 ? 1.0 : 1e-300); if(!vfinite(b)) dd = INFINITY; if(!(dd / sden <= wq)) wq = dd / sden; }
      }
      if(a2->size == avg->size && s2->size == sc->size) for(int i = 0; i < r; i++) for(int j = 0; j < c; j++) if(D(i, j) != MISS){
        double a = t->data[i][j], b = t2->data[i][j]; if(memcmp(&a, &b, 8) && !(a == b)) eq = 0;
        double dd = fabs(a - b), sden = fabs(a) > 1e-300 ? fabs(a) : (b == 0.0 ? 1.0 : 1e-300); if(!vfinite(b)) dd = INFINITY; if(!(dd / sden <= wq)) wq = dd / sden;
      }
      VRT_EMIT("{\"e\":\"Again\",\"id\":%ld,\"type\":%d,\"q\":%ld,\"equal\":%d}", id, type, vq12(wq), eq);
      DelDVector(&a2); DelDVector(&s2);
    }
    DelMatrix(&t2); DelMatrix(&y); DelMatrix(&t3);
    /* tensor: this matrix and up to three earlier ones of the same option */
    if(keeptype != type){ for(int k = 0; k < nkeep; k++){ DelMatrix(&keep[k].m); DelMatrix(&keep[k].t); DelDVector(&keep[k].a); DelDVector(&keep[k].s); } nkeep = 0; keeptype = type; }
    if(nkeep == KEEP){ DelMatrix(&keep[0].m); DelMatrix(&keep[0].t); DelDVector(&keep[0].a); DelDVector(&keep[0].s); for(int k = 1; k < KEEP; k++) keep[k-1] = keep[k]; nkeep--; }
    keep[nkeep].m = m; keep[nkeep].t = t; keep[nkeep].a = avg; keep[nkeep].s = sc; nkeep++;
    if(!degmode){
      int nb = 1 + (int)(id % KEEP); if(nb > nkeep) nb = nkeep;
      tensor *T, *Tt; dvectorlist *la, *ls; NewTensor(&T, nb); NewTensor(&Tt, nb); initDVectorList(&la); initDVectorList(&ls);
      for(int b = 0; b < nb; b++){
        matrix *src = keep[nkeep - nb + b].m;
        NewTensorMatrix(T, b, src->row, src->col); NewTensorMatrix(Tt, b, src->row, src->col);
        for(size_t i = 0; i < src->row; i++) for(size_t j = 0; j < src->col; j++) T->m[b]->data[i][j] = src->data[i][j];
      }
      TensorPreprocess(T, type, la, ls, Tt);
      int ok = la->size == (size_t)nb && ls->size == (size_t)nb;
      for(int b = 0; ok && b < nb; b++){
        kept *kb = &keep[nkeep - nb + b];
        if(la->d[b]->size != kb->a->size || ls->d[b]->size != kb->s->size){ ok = 0; break; }
        for(size_t j = 0; j < kb->a->size; j++) if(la->d[b]->data[j] != kb->a->data[j] || ls->d[b]->data[j] != kb->s->data[j]) ok = 0;
        /* cells the fit writes: every cell of a zero-scale column, the non-MISSING cells otherwise (a kept output may hold the K7 prefill at MISSING cells) */
        for(size_t i = 0; i < kb->t->row; i++) for(size_t j = 0; j < kb->t->col; j++){
          if(kb->m->data[i][j] == (double)MISS && kb->t->data[i][j] != 0.0) continue;
          if(Tt->m[b]->data[i][j] != kb->t->data[i][j]) ok = 0;
        }
      }
      VRT_EMIT("{\"e\":\"Tensor\",\"id\":%ld,\"type\":%d,\"nb\":%d,\"equal\":%d}", id, type, nb, ok);
      DelTensor(&T); DelTensor(&Tt); DelDVectorList(&la); DelDVectorList(&ls);
    }
    free(d); free(piv);
  }
  for(int k = 0; k < nkeep; k++){ DelMatrix(&keep[k].m); DelMatrix(&keep[k].t); DelDVector(&keep[k].a); DelDVector(&keep[k].s); }
  vrt_close();
  return 0;
}
