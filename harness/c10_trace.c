/* c10_trace.c - recording driver for C10 (validate direction): runs MatrixPreprocess / TensorPreprocess on generated
 * matrices inside the property's quantifier and logs, per column, the integer data and the integer projection of what
 * the library returned; TLC recomputes the exact statistics (spec/TracePreprocess.tla).
 *
 * usage: c10_trace <out.ndjson> <seed> <nmatrices>
 * Data: cell(i,j) = (piv_j + d_ij) * 2^-e, e in {0,4,10}; |d| <= 400; r in 2..60, c in 1..20; option -1..5;
 *   up to 20 % MISSING cells (every column keeps >= 2 present cells); pivots up to 1e6 in real units (|piv| <= 4000
 *   units for RMS scaling so that TLC can square the raw values in 32 bits); column spread (sample sdev) >= 0.02 or
 *   exactly 0; column mean exactly 0 or >= 1e-3 in magnitude; for level scaling at e = 10 about a third of the
 *   columns get a mean in [1e-3, 1e-2) (between the implementation's two zero-scale thresholds).
 * Events: Reset{id,type,r,c,e} then per column Col, Avg, Scale, Cells, Same, New; Copy for option -1; Tensor.
 */
#include "scientific.h"
#include "verif_rt.h"

#define MISS 99999999L
static long clampq(double x){ if(!(x == x)) return VQ_MAX; if(x > 2e9) return VQ_MAX; if(x < -2e9) return -VQ_MAX; return (long)llround(x); }
static long pw4(int e){ long r = 1; for(int i = 0; i < e; i++) r *= 4; return r; }
/* minimum N*SSD-numerator (N*S2 - S1^2) for a spread of >= 0.02 at unit 2^-e; same integer rule is re-checked by the runner */
static long long min_ssd(int e, long N){ if(e == 0) return 1; if(e == 4) return (N * (N - 1) + 8) / 9; return 420LL * N * (N - 1); }

typedef struct { matrix *m, *t; dvector *a, *s; } kept;
#define KEEP 4

int main(int argc, char **argv){
  if(argc < 4){ fprintf(stderr, "usage: c10_trace out.ndjson seed nmat\n"); return 2; }
  vrt_open(argv[1]);
  vrng R = { (uint64_t)atoll(argv[2]) * 0x9E3779B97F4A7C15ULL + 12345 };
  long nmat = atol(argv[3]);
  static const int ES[3] = {0, 4, 10};
  kept keep[KEEP]; int nkeep = 0, keeptype = -9;
  static char buf[1 << 16];
  for(long id = 0; id < nmat; id++){
    int type = (int)vr_int(&R, -1, 5);
    int e = ES[vr_int(&R, 0, 2)];
    int r = (int)(vr_unif(&R) < 0.3 ? vr_int(&R, 2, 6) : vr_int(&R, 2, 60));
    int c = (int)vr_int(&R, 1, 20);
    double u = ldexp(1.0, -e);
    long *d = malloc(sizeof(long) * r * c), *piv = malloc(sizeof(long) * c);
#define D(i,j) d[(size_t)(i) * c + (j)]
    double pmiss = vr_unif(&R) < 0.4 ? 0.0 : 0.2 * vr_unif(&R);
    long budget = (long)(0.2 * r * c);            /* at most 20 % missing cells */
    for(int j = 0; j < c; j++){
      long Dmax = e == 10 ? vr_int(&R, 64, 400) : (e == 4 ? vr_int(&R, 4, 400) : vr_int(&R, 1, 400));
      int constant = vr_unif(&R) < 0.12;
      for(int attempt = 0; ; attempt++){
        long N = 0; long long S1 = 0, S2 = 0; long used = 0;
        long cv = vr_int(&R, -Dmax, Dmax);
        for(int i = 0; i < r; i++){
          if(vr_unif(&R) < pmiss && used < budget && (r - used) > 2){ D(i, j) = MISS; used++; continue; }
          long x = constant ? cv : vr_int(&R, -Dmax, Dmax);
          D(i, j) = x; N++; S1 += x; S2 += (long long)x * x;
        }
        long long ssd = N * S2 - S1 * S1;
        if(N >= 2 && (ssd == 0 || ssd >= min_ssd(e, N))){ budget -= used; break; }
        if(attempt > 40){ constant = 1; pmiss = 0; }
      }
      /* pivot (offset) */
      long N = 0; long long S1 = 0; for(int i = 0; i < r; i++) if(D(i, j) != MISS){ N++; S1 += D(i, j); }
      long p; double w = vr_unif(&R);
      long big = (long)(1000000.0 * ldexp(1.0, e)); if(big > 1000000000L) big = 1000000000L;
      if(type == 2) p = w < 0.3 ? 0 : vr_int(&R, -4000, 4000);
      else if(w < 0.2) p = 0;
      else if(w < 0.45) p = vr_int(&R, -100, 100);
      else if(w < 0.7) p = vr_int(&R, -100000, 100000);
      else p = (vr_unif(&R) < 0.5 ? -1 : 1) * vr_int(&R, big / 10, big);
      if(type == 5 && e == 10 && vr_unif(&R) < 0.35){
        /* mean = p + S1/N in [k, k+1), k in 2..9 units of 2^-10: 0.002 .. 0.0098 */
        long fl = (long)floor((double)S1 / (double)N);
        long k = vr_int(&R, 2, 9);
        p = k - fl;
        if(vr_unif(&R) < 0.5){ for(int i = 0; i < r; i++) if(D(i, j) != MISS) D(i, j) = -D(i, j); S1 = -S1; p = -p; }
      }
      /* mean exactly 0 or |mean| >= 1e-3:  1000 * |p N + S1| >= N 2^e */
      for(;;){ long long tot = (long long)p * N + S1; if(tot == 0 || 1000 * llabs(tot) >= (long long)N * (1LL << e)) break; p += (tot > 0 ? 1 : -1) * (1 + (1L << e) / 1000); }
      piv[j] = p;
    }
    matrix *m, *t; dvector *avg, *sc; NewMatrix(&m, r, c); NewMatrix(&t, r, c); initDVector(&avg); initDVector(&sc);
    for(int i = 0; i < r; i++) for(int j = 0; j < c; j++) m->data[i][j] = D(i, j) == MISS ? (double)MISS : (double)(piv[j] + D(i, j)) * u;
    VRT_EMIT("{\"e\":\"Reset\",\"id\":%ld,\"type\":%d,\"r\":%d,\"c\":%d,\"exp\":%d}", id, type, r, c, e);
    MatrixPreprocess(m, type, avg, sc, t);
    matrix *t2; NewMatrix(&t2, r, c);
    MatrixPreprocess(m, type, avg, sc, t2);
    /* three new rows */
    long ny[3][20]; matrix *y, *t3; NewMatrix(&y, 3, c); initMatrix(&t3);
    for(int a = 0; a < 3; a++) for(int j = 0; j < c; j++){ ny[a][j] = vr_int(&R, -800, 800); y->data[a][j] = (double)(piv[j] + ny[a][j]) * u; }
    if(type >= 0) MatrixPreprocess(y, type, avg, sc, t3);
    if(type < 0){
      int eq = 1; for(int i = 0; i < r; i++) for(int j = 0; j < c; j++) if(t->data[i][j] != m->data[i][j] || t2->data[i][j] != m->data[i][j]) eq = 0;
      VRT_EMIT("{\"e\":\"Copy\",\"id\":%ld,\"type\":-1,\"equal\":%d}", id, eq);
    }
    else for(int j = 0; j < c; j++){
      int ok_sizes = avg->size == (size_t)c && sc->size == (size_t)c && t3->row == 3 && t3->col == (size_t)c;
      double A = ok_sizes ? avg->data[j] : NAN, S = ok_sizes ? sc->data[j] : NAN;
      long N = 0; int hm = 0; for(int i = 0; i < r; i++){ if(D(i, j) != MISS) N++; else hm = 1; }
      int p = 0;
      p += snprintf(buf + p, sizeof buf - p, "{\"e\":\"Col\",\"id\":%ld,\"j\":%d,\"type\":%d,\"exp\":%d,\"piv\":%ld,\"hm\":%d,\"d\":[", id, j, type, e, piv[j], hm);
      for(int i = 0; i < r; i++) p += snprintf(buf + p, sizeof buf - p, "%s%ld", i ? "," : "", D(i, j));
      snprintf(buf + p, sizeof buf - p, "]}");
      VRT_EMIT("%s", buf);
      /* stored average */
      double va = (A / u - (double)piv[j]) * (double)N; long s1 = clampq(va);
      VRT_EMIT("{\"e\":\"Avg\",\"id\":%ld,\"j\":%d,\"type\":%d,\"hm\":%d,\"s1\":%ld,\"s1r\":%ld}", id, j, type, hm, s1, vq9(va - (double)s1));
      /* stored scaling through its rational power */
      double su = S / u, vs;
      switch(type){
        case 1: vs = su * su * (double)N * (double)(N - 1); break;
        case 2: vs = su * su * (double)N; break;
        case 3: vs = (S * S / u) * (S * S / u) * (double)N * (double)(N - 1); break;
        case 4: vs = su; break;
        case 5: vs = (su - (double)piv[j]) * (double)N; break;
        default: vs = S; break;
      }
      long scq = clampq(vs); double den = fabs((double)scq) > 1 ? fabs((double)scq) : 1;
      VRT_EMIT("{\"e\":\"Scale\",\"id\":%ld,\"j\":%d,\"type\":%d,\"hm\":%d,\"sc\":%ld,\"ra\":%ld,\"rr\":%ld,\"pos\":%d}", id, j, type, hm, scq, vq9(vs - (double)scq), vq12((vs - (double)scq) / den), S > 0 ? 1 : 0);
      /* transformed training cells */
      int fin = 1, zero = 1, mz = 1; double worst = 0;
      p = snprintf(buf, sizeof buf, "{\"e\":\"Cells\",\"id\":%ld,\"j\":%d,\"type\":%d,\"hm\":%d,\"cn\":[", id, j, type, hm);
      for(int i = 0; i < r; i++){
        long q = 0;
        if(D(i, j) == MISS){ if(t->data[i][j] != 0.0) mz = 0; }
        else{
          double tv = t->data[i][j];
          if(!vfinite(tv)) fin = 0;
          if(tv != 0.0) zero = 0;
          double val = tv * S / u * (double)N; q = clampq(val);
          double rs = fabs(val - (double)q); if(!(rs <= worst)) worst = rs;
        }
        p += snprintf(buf + p, sizeof buf - p, "%s%ld", i ? "," : "", q);
      }
      snprintf(buf + p, sizeof buf - p, "],\"cnr\":%ld,\"fin\":%d,\"zero\":%d,\"mz\":%d}", vq9(worst), fin, zero, mz);
      VRT_EMIT("%s", buf);
      /* apply on the same matrix */
      double wsame = 0;
      for(int i = 0; i < r; i++) if(D(i, j) != MISS){
        double a = t->data[i][j], b = t2->data[i][j]; double dd = fabs(a - b), sden = fabs(a) > 1e-300 ? fabs(a) : (b == 0.0 ? 1.0 : 1e-300);
        if(!vfinite(b)) dd = INFINITY;
        if(!(dd / sden <= wsame)) wsame = dd / sden;
      }
      VRT_EMIT("{\"e\":\"Same\",\"id\":%ld,\"j\":%d,\"type\":%d,\"hm\":%d,\"q\":%ld}", id, j, type, hm, vq12(wsame));
      /* new rows */
      fin = 1; zero = 1; worst = 0;
      p = snprintf(buf, sizeof buf, "{\"e\":\"New\",\"id\":%ld,\"j\":%d,\"type\":%d,\"hm\":%d,\"ny\":[%ld,%ld,%ld],\"cn\":[", id, j, type, hm, ny[0][j], ny[1][j], ny[2][j]);
      for(int a = 0; a < 3; a++){
        double tv = ok_sizes ? t3->data[a][j] : NAN;
        if(!vfinite(tv)) fin = 0;
        if(tv != 0.0) zero = 0;
        double val = tv * S / u * (double)N; long q = clampq(val);
        double rs = fabs(val - (double)q); if(!(rs <= worst)) worst = rs;
        p += snprintf(buf + p, sizeof buf - p, "%s%ld", a ? "," : "", q);
      }
      snprintf(buf + p, sizeof buf - p, "],\"cnr\":%ld,\"fin\":%d,\"zero\":%d}", vq9(worst), fin, zero);
      VRT_EMIT("%s", buf);
    }
    DelMatrix(&t2); DelMatrix(&y); DelMatrix(&t3);
    /* tensor: this matrix and up to three earlier ones of the same option */
    if(keeptype != type){ for(int q = 0; q < nkeep; q++){ DelMatrix(&keep[q].m); DelMatrix(&keep[q].t); DelDVector(&keep[q].a); DelDVector(&keep[q].s); } nkeep = 0; keeptype = type; }
    if(nkeep == KEEP){ DelMatrix(&keep[0].m); DelMatrix(&keep[0].t); DelDVector(&keep[0].a); DelDVector(&keep[0].s); for(int q = 1; q < KEEP; q++) keep[q-1] = keep[q]; nkeep--; }
    keep[nkeep].m = m; keep[nkeep].t = t; keep[nkeep].a = avg; keep[nkeep].s = sc; nkeep++;
    {
      int nb = 1 + (int)(id % KEEP); if(nb > nkeep) nb = nkeep;
      tensor *T, *Tt; dvectorlist *la, *ls; NewTensor(&T, nb); NewTensor(&Tt, nb); initDVectorList(&la); initDVectorList(&ls);
      for(int b = 0; b < nb; b++){
        matrix *src = keep[nkeep - nb + b].m;
        NewTensorMatrix(T, b, src->row, src->col); NewTensorMatrix(Tt, b, src->row, src->col);
        for(size_t i = 0; i < src->row; i++) for(size_t j = 0; j < src->col; j++) T->m[b]->data[i][j] = src->data[i][j];
      }
      TensorPreprocess(T, type, la, ls, Tt);
      int ok = la->size == (size_t)nb && ls->size == (size_t)nb;
      for(int b = 0; ok && b < nb; b++){
        kept *kb = &keep[nkeep - nb + b];
        if(la->d[b]->size != kb->a->size || ls->d[b]->size != kb->s->size){ ok = 0; break; }
        for(size_t j = 0; j < kb->a->size; j++) if(la->d[b]->data[j] != kb->a->data[j] || ls->d[b]->data[j] != kb->s->data[j]) ok = 0;
        for(size_t i = 0; i < kb->t->row; i++) for(size_t j = 0; j < kb->t->col; j++) if(Tt->m[b]->data[i][j] != kb->t->data[i][j]) ok = 0;
      }
      VRT_EMIT("{\"e\":\"Tensor\",\"id\":%ld,\"type\":%d,\"nb\":%d,\"equal\":%d}", id, type, nb, ok);
      DelTensor(&T); DelTensor(&Tt); DelDVectorList(&la); DelDVectorList(&ls);
    }
    free(d); free(piv);
  }
  vrt_close();
  return 0;
}
