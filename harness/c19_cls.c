/* c19_cls.c - class-scheduled SESSIONS for the spline / trapezoid half of C19 (INPUT-CLASSES.md K2 K3 K4 K5 K7 K8).
 * usage: c19_cls <out.ndjson> <seed> <nsessions> <everycount 0|1>
 *
 * A session is ONE coefficient table S, ONE interpolate() output matrix and ONE prediction vector that live through several fits
 * (in-process history, K7): N1 knots, then fewer, then more, then the same number with other data ...  After EVERY fit all clauses of
 * the property are measured again.  The data of each fit follow a stratified class schedule:
 *   sp   spacing class  0 uniform, 1 irregular inside a decade, 2 across two decades, 3 EXTREME mix (1e-4 and 1e4 in one knot set),
 *                       4 wide (every spacing 10^U(-4,4)), 5 graded (geometric from 1e-4 to 1e4 or back)
 *   ym   ordinate magnitude 10^ym, ym in {-6,-3,0,3,6};   yo  ordinate offset: 0 none, 6 = 1e6 x magnitude (location class)
 *   xo   abscissa offset 1e6 x spacing (sp <= 1 only);     line  ordinates on a straight line
 * Queries of every fit: all knots, all midpoints, ONE ULP left and right of every knot (inside the range), the quarter points of the first
 * and of the last piece; one at a time and all in one call (into the session's already sized vector, descending and ends-inwards).
 *
 * Events (residuals: 1e-12 units, relative to max|y|, saturating):
 *   Reset{sid,hp}                                         new session (new process-level objects), hp = history pattern
 *   SFit{sid,k,nk,prev,rows,cols,sp,dec,ym,yo,xo,xe,line,hd[],interp,c1,c2,nat,ord,unit,unit2,lin,lookup,ulpw,ulpv,nq}
 *        prev = S->row before the call, rows/cols after it; hd[i] = floor(log10 h_i); xe = ceil(log10 max|x|)
 *        unit = x in another unit (factor 1000), unit2 = factor 1024 (exact rescaling); lookup/ulpw = number of returned values that no
 *        admissible piece of the table reproduces (knots+midpoints / ulp neighbours+quarter points); ulpv = |S(x_i +- ulp) - y_i|
 *   SInt{sid,k,nk,np,prow,pcol,rows,cols,mono,val,first,ends,lin}     interpolate() into the session's output (prow x pcol before)
 *   SArea{sid,k,nk,exact,add,addb}                        curve_area(xy,0): long double reference, additivity at every vertex (add) and at
 *                                                         points BETWEEN vertices (addb: the polyline point is inserted)
 *   XArea{sid,k,nk,np,one,two,samp,desc}                  OUTSIDE the statement: curve_area(xy,np>0) (1 point -> 0; 2 points -> chord
 *                                                         trapezoid; np points -> trapezoid sum of interpolate(xy,np)), descending abscissae
 *   Extrap{sid,k,nk,lok,rok,fin}                          OUTSIDE the statement: half a spacing left / right of the knot range
 *   Sent{sid,k,nk,piece,found,err}                        a query whose exact spline value is within 1e-2 of the library's MISSING code
 */
#include "scientific.h"
#include "verif_rt.h"

#define MAXK 64
#define MAXQ (8 * MAXK)

static double piece_val(matrix *S, int j, double x){
  double xi = S->data[j][0], h = x - xi;
  return S->data[j][1] + S->data[j][2] * h + S->data[j][3] * h * h + S->data[j][4] * h * h * h;
}
static int reproduces(matrix *S, int j, double x, double y){
  if(j < 0 || j >= (int)S->row || S->col < 5) return 0;
  double v = piece_val(S, j, x), m = 1.0;
  if(fabs(y) > m) m = fabs(y);
  if(fabs(v) > m) m = fabs(v);
  return vfinite(y) && fabs(v - y) <= 1e-9 * m;
}
/* scale-aware variant: the unit of the ordinates may be 1e-6 */
static int reproduces_s(matrix *S, int j, double x, double y, double ymax){
  if(j < 0 || j >= (int)S->row || S->col < 5) return 0;
  double v = piece_val(S, j, x), m = ymax;
  if(fabs(y) > m) m = fabs(y);
  if(fabs(v) > m) m = fabs(v);
  return vfinite(y) && fabs(v - y) <= 1e-9 * m;
}
static double predict1(matrix *S, double x){
  dvector *xq, *yp; NewDVector(&xq, 1); initDVector(&yp); xq->data[0] = x;
  cubic_spline_predict(xq, S, yp);
  double y = yp->data[0]; DelDVector(&xq); DelDVector(&yp); return y;
}
static double area_pts(int np, const double *px, const double *py){
  matrix *xy; NewMatrix(&xy, np, 2);
  for(int i = 0; i < np; i++){ xy->data[i][0] = px[i]; xy->data[i][1] = py[i]; }
  double a = curve_area(xy, 0); DelMatrix(&xy); return a;
}
static void upd(double *m, double e){ if(!(e <= *m)) *m = e; }

typedef struct { int sp, dec, ym, yo, xo, line; } dcls;
typedef struct {
  matrix *S, *out; dvector *yp;     /* the objects that live through the session */
} session;

/* ---- data of one fit ---- */
static void gen_knots(vrng *g, int nk, const dcls *c, double *x){
  double s = pow(10.0, c->dec);
  double x0 = (vr_unif(g) - 0.5) * 20 * s;
  if(c->sp >= 3) x0 = (vr_unif(g) - 0.5) * 2.0;
  if(c->xo) x0 = (vr_unif(g) < 0.5 ? -1.0 : 1.0) * 1e6 * s * (1.0 + vr_unif(g));
  x[0] = x0;
  int up = vr_unif(g) < 0.5;
  for(int i = 1; i < nk; i++){
    double h = s;
    switch(c->sp){
      case 1: h = s * (1.0 + 8.9 * vr_unif(g)); break;
      case 2: h = s * pow(10.0, 2.0 * vr_unif(g)); if(c->dec == 4) h = s * pow(10.0, -2.0 * vr_unif(g)); break;
      case 3: h = ((i + up) % 2) ? 1.001e-4 * (1.0 + vr_unif(g)) : 0.999e4 * (0.1 + 0.9 * vr_unif(g)); break;
      case 4: h = pow(10.0, -3.999 + 7.998 * vr_unif(g)); break;
      case 5: { double t = (nk > 2) ? (double)(i - 1) / (double)(nk - 2) : 0.0; if(!up) t = 1.0 - t; h = pow(10.0, -3.999 + 7.998 * t); } break;
      default: break;
    }
    if(c->sp >= 3){ if(h < 1.001e-4) h = 1.001e-4; if(h > 0.999e4) h = 0.999e4; }
    else{ if(h < 1e-4) h = 1e-4; if(h > 1e4) h = 1e4; }
    x[i] = x[i - 1] + h;
  }
}
static void gen_ords(vrng *g, int nk, const dcls *c, const double *x, double *y, double *q0, double *m){
  double mag = pow(10.0, c->ym), off = c->yo ? (vr_unif(g) < 0.5 ? -1.0 : 1.0) * mag * 1e6 * (1.0 + vr_unif(g)) : 0.0;
  if(c->line){
    *q0 = off + (vr_unif(g) - 0.5) * 10 * mag; *m = (vr_unif(g) - 0.5) * 4 * mag * (double)nk / (x[nk - 1] - x[0]);
    for(int i = 0; i < nk; i++) y[i] = (double)((long double)*q0 + (long double)*m * ((long double)x[i] - (long double)x[0]));
  }
  else{
    *q0 = *m = 0;
    for(int i = 0; i < nk; i++) y[i] = off + (vr_unif(g) - 0.5) * 2 * mag;
  }
}

typedef struct { double interp, c1, c2, nat, ord, lin, ulpv; long wrong, ulpw; int nq, prev, rows, cols; } fitres;

/* fit (x,y) into S (whatever it holds) and measure; pred_out[0..2nk-2] = values at knots and midpoints (one at a time) */
static void fit_and_measure(int nk, const double *x, const double *y, matrix *S, dvector *yp_reuse, int line, double q0, double m,
                            fitres *r, double *pred_out){
  matrix *xy; NewMatrix(&xy, nk, 2);
  for(int i = 0; i < nk; i++){ xy->data[i][0] = x[i]; xy->data[i][1] = y[i]; }
  r->prev = (int)S->row;
  cubic_spline_interpolation(xy, S);
  DelMatrix(&xy);
  r->rows = (int)S->row; r->cols = (int)S->col;
  int n = nk - 1;
  r->interp = r->c1 = r->c2 = r->nat = r->ord = r->lin = r->ulpv = 0; r->wrong = r->ulpw = 0; r->nq = 0;
  if(r->rows < 1 || r->cols != 5){ r->interp = r->c1 = r->c2 = r->nat = r->ord = 1e30; for(int i = 0; i < 2 * nk - 1; i++) pred_out[i] = 0; return; }
  int nt = r->rows < n ? r->rows : n;        /* rows of the table that belong to this fit */
  double ymax = 0, bmax = 0, cmax = 0;
  for(int i = 0; i < nk; i++) if(fabs(y[i]) > ymax) ymax = fabs(y[i]);
  if(ymax == 0) ymax = 1;
  for(int j = 0; j < nt; j++){ if(fabs(S->data[j][2]) > bmax) bmax = fabs(S->data[j][2]); if(fabs(S->data[j][3]) > cmax) cmax = fabs(S->data[j][3]); }
  if(nt < n) r->interp = 1e30;
  /* queries */
  static double qx[MAXQ], qv[MAXQ]; static int qlo[MAXQ], qhi[MAXQ], qkind[MAXQ], qknot[MAXQ]; int nq = 0;
  for(int i = 0; i < nk; i++){
    qx[nq] = x[i]; qlo[nq] = i > 0 ? i - 1 : 0; qhi[nq] = i < n ? i : n - 1; qkind[nq] = 0; qknot[nq] = i; nq++;
    if(i < n){ qx[nq] = 0.5 * (x[i] + x[i + 1]); qlo[nq] = qhi[nq] = i; qkind[nq] = 1; qknot[nq] = i; nq++; }
  }
  int nbase = nq;
  for(int i = 0; i < nk; i++){
    if(i < n){ qx[nq] = nextafter(x[i], INFINITY); qlo[nq] = qhi[nq] = i; qkind[nq] = 2; qknot[nq] = i; nq++; }
    if(i > 0){ qx[nq] = nextafter(x[i], -INFINITY); qlo[nq] = qhi[nq] = i - 1; qkind[nq] = 2; qknot[nq] = i; nq++; }
  }
  qx[nq] = x[0] + 0.25 * (x[1] - x[0]); qlo[nq] = qhi[nq] = 0; qkind[nq] = 3; qknot[nq] = 0; nq++;
  qx[nq] = x[n] - 0.25 * (x[n] - x[n - 1]); qlo[nq] = qhi[nq] = n - 1; qkind[nq] = 3; qknot[nq] = n; nq++;
  r->nq = nq;
  for(int q = 0; q < nq; q++){
    double v = predict1(S, qx[q]); qv[q] = v;
    if(q < nbase) pred_out[q] = v;
    int ok = reproduces_s(S, qlo[q], qx[q], v, ymax) || reproduces_s(S, qhi[q], qx[q], v, ymax);
    if(qlo[q] >= nt && qhi[q] >= nt) ok = 0;
    if(!ok){ if(qkind[q] <= 1) r->wrong++; else r->ulpw++; }
    if(qkind[q] == 0) upd(&r->interp, fabs(v - y[qknot[q]]) / ymax);
    if(qkind[q] == 2) upd(&r->ulpv, fabs(v - y[qknot[q]]) / ymax);
    if(line){ long double ex = (long double)q0 + (long double)m * ((long double)qx[q] - (long double)x[0]); upd(&r->lin, (double)(fabsl((long double)v - ex)) / ymax); }
  }
  /* all queries in ONE call into the session's vector (already sized by an earlier fit): descending, then ends-inwards */
  for(int pass = 0; pass < 2; pass++){
    dvector *xq; NewDVector(&xq, nq);
    int *src = malloc(sizeof(int) * nq);
    for(int q = 0; q < nq; q++) src[q] = pass == 0 ? nq - 1 - q : (q % 2 ? nq - 1 - q / 2 : q / 2);
    for(int q = 0; q < nq; q++) xq->data[q] = qx[src[q]];
    cubic_spline_predict(xq, S, yp_reuse);
    if((int)yp_reuse->size != nq) r->ord = 1.0;
    else for(int q = 0; q < nq; q++) upd(&r->ord, fabs(yp_reuse->data[q] - qv[src[q]]) / ymax);
    free(src); DelDVector(&xq);
  }
  /* smoothness / natural ends from the public table */
  for(int j = 0; j < nt; j++){
    double h = x[j + 1] - x[j];
    double d1 = S->data[j][2] + 2 * S->data[j][3] * h + 3 * S->data[j][4] * h * h;
    double d2 = 2 * S->data[j][3] + 6 * S->data[j][4] * h;
    if(j + 1 < n){
      if(j + 1 < nt){
        upd(&r->c1, fabs(d1 - S->data[j + 1][2]) / (bmax > 0 ? bmax : 1.0));
        upd(&r->c2, fabs(d2 - 2 * S->data[j + 1][3]) / (cmax > 0 ? 2 * cmax : 1.0));
      }
      upd(&r->interp, fabs(piece_val(S, j, x[j + 1]) - y[j + 1]) / ymax);
    }
    else upd(&r->nat, fabs(d2) / (cmax > 0 ? 2 * cmax : 1.0));
    upd(&r->interp, (S->data[j][0] == x[j]) ? 0.0 : 1.0);        /* the table's abscissa column holds the knots */
  }
  upd(&r->nat, fabs(2 * S->data[0][3]) / (cmax > 0 ? 2 * cmax : 1.0));
}

/* interpolate() into the session's output matrix, against a FRESH two-call spline */
typedef struct { int prow, pcol, rows, cols, mono; double val, first, ends, lin; } intres;
static void interp_and_measure(int nk, const double *x, const double *y, int np, matrix *out, int line, double q0, double m, intres *r){
  matrix *xy, *S; NewMatrix(&xy, nk, 2); initMatrix(&S);
  for(int i = 0; i < nk; i++){ xy->data[i][0] = x[i]; xy->data[i][1] = y[i]; }
  cubic_spline_interpolation(xy, S);
  r->prow = (int)out->row; r->pcol = (int)out->col;
  interpolate(xy, (size_t)np, out);
  r->rows = (int)out->row; r->cols = (int)out->col; r->mono = 1; r->val = r->first = r->ends = r->lin = 0;
  double ymax = 0, range = x[nk - 1] - x[0];
  for(int i = 0; i < nk; i++) if(fabs(y[i]) > ymax) ymax = fabs(y[i]);
  if(ymax == 0) ymax = 1;
  if(r->rows == np && r->cols == 2){
    for(int i = 0; i < np; i++){
      double xo = out->data[i][0], yo = out->data[i][1];
      upd(&r->val, fabs(yo - predict1(S, xo)) / ymax);
      if(i > 0 && !(xo > out->data[i - 1][0])) r->mono = 0;
      if(line){ long double ex = (long double)q0 + (long double)m * ((long double)xo - (long double)x[0]); upd(&r->lin, (double)fabsl((long double)yo - ex) / ymax); }
    }
    r->first = fabs(out->data[0][1] - y[0]) / ymax;
    r->ends = fmax(fabs(out->data[0][0] - x[0]), fabs(out->data[np - 1][0] - x[nk - 1])) / range;
  }
  DelMatrix(&xy); DelMatrix(&S);
}

static void emit_ints(char *buf, size_t cap, int *p, const char *key, const int *v, int nv){
  *p += snprintf(buf + *p, cap - *p, ",\"%s\":[", key);
  for(int i = 0; i < nv; i++) *p += snprintf(buf + *p, cap - *p, "%s%d", i ? "," : "", v[i]);
  *p += snprintf(buf + *p, cap - *p, "]");
}

static int clampi(int v, int lo, int hi){ return v < lo ? lo : v > hi ? hi : v; }

/* a query abscissa in piece `pc` (not the last one) at which the fresh spline takes the value `target` (bisection on the table) */
static int find_level(matrix *S, int pc, double xl, double xr, double target, double *xout){
  double fl = piece_val(S, pc, xl) - target, fr = piece_val(S, pc, xr) - target;
  if(!(fl * fr < 0)) return 0;
  for(int it = 0; it < 200; it++){
    double xm = 0.5 * (xl + xr), fm = piece_val(S, pc, xm) - target;
    if(fm == 0){ xl = xr = xm; break; }
    if(fl * fm < 0){ xr = xm; fr = fm; } else { xl = xm; fl = fm; }
  }
  *xout = 0.5 * (xl + xr);
  return 1;
}

int main(int argc, char **argv){
  if(argc < 5){ fprintf(stderr, "usage: c19_cls out seed nsessions everycount\n"); return 2; }
  vrt_open(argv[1]);
  vrng g = { strtoul(argv[2], 0, 10) * 0x9E3779B97F4A7C15ULL + 1919 };
  int nsess = atoi(argv[3]), every = atoi(argv[4]);
  static const int ymtab[5] = {0, -6, 6, -3, 3};
  long c = 0;                                   /* global fit counter: drives the stratified class schedule */
  for(int sid = 0; sid < nsess; sid++){
    int hp = sid % 8, seq[6], ns = 0;
    int N1 = every ? 3 + (sid / 8) % 38 : (int)vr_int(&g, 6, 38);
    switch(hp){
      case 0: { int N2 = (int)vr_int(&g, 3, N1 > 3 ? N1 - 1 : 3); seq[0] = N1; seq[1] = N2; seq[2] = N1; ns = 3; } break;
      case 1: { int N2 = (int)vr_int(&g, N1 < 40 ? N1 + 1 : 40, 40); seq[0] = N1; seq[1] = N2; ns = 2; } break;
      case 2: seq[0] = seq[1] = seq[2] = N1; ns = 3; break;
      case 3: seq[0] = 40; seq[1] = 3; seq[2] = 40; ns = 3; break;
      case 4: seq[0] = 3; seq[1] = 40; seq[2] = 3; ns = 3; break;
      case 5: seq[0] = 5; seq[1] = 4; seq[2] = 3; ns = 3; break;
      case 6: seq[0] = 39; seq[1] = 40; seq[2] = 39; seq[3] = 4; ns = 4; break;
      default: seq[0] = N1; seq[1] = N1 > 3 ? N1 - 1 : 3; seq[2] = N1 < 40 ? N1 + 1 : 40; ns = 3; break;
    }
    session se; initMatrix(&se.S); initMatrix(&se.out); initDVector(&se.yp);
    /* some sessions start with outputs that are already sized and hold other data */
    int pre = (sid / 8) % 3;
    if(pre == 1){ ResizeMatrix(se.out, (size_t)seq[0], 2); ResizeMatrix(se.S, (size_t)seq[0] + 5, 5); }
    if(pre == 2){ ResizeMatrix(se.out, 2, 5); ResizeMatrix(se.S, 2, 3); DVectorResize(se.yp, 500); }
    for(size_t i = 0; i < se.out->row; i++) for(size_t j = 0; j < se.out->col; j++) se.out->data[i][j] = 4321.0 + (double)i;
    for(size_t i = 0; i < se.S->row; i++) for(size_t j = 0; j < se.S->col; j++) se.S->data[i][j] = (j == 0) ? -1e9 + 7.0 * (double)i : 77.0 + (double)i;
    VRT_EMIT("{\"e\":\"Reset\",\"sid\":%d,\"hp\":%d,\"pre\":%d,\"srow\":%d,\"scol\":%d,\"orow\":%d,\"ocol\":%d}", sid, hp, pre,
             (int)se.S->row, (int)se.S->col, (int)se.out->row, (int)se.out->col);
    for(int k = 0; k < ns; k++, c++){
      int nk = seq[k];
      dcls cl; long u = c / 6;
      cl.sp = (int)(c % 6); cl.ym = ymtab[u % 5]; cl.line = (u % 2 == 1); cl.yo = (u % 3 == 1) ? 6 : 0; cl.xo = (cl.sp <= 1 && u % 7 == 3);
      cl.dec = (int)vr_int(&g, -4, 4);
      if(cl.xo && cl.dec > 2) cl.dec = 2;
      double x[MAXK], y[MAXK], x2[MAXK], x3[MAXK], pred[2 * MAXK], pred2[2 * MAXK], pred3[2 * MAXK], q0, m;
      gen_knots(&g, nk, &cl, x);
      gen_ords(&g, nk, &cl, x, y, &q0, &m);
      int hd[MAXK], n = nk - 1; double xmax = fmax(fabs(x[0]), fabs(x[n]));
      for(int i = 0; i < n; i++) hd[i] = clampi((int)floor(log10(x[i + 1] - x[i])), -4, 4);
      int xe = clampi((int)ceil(log10(xmax > 0 ? xmax : 1e-9)), -9, 12);
      fitres r, r2, r3;
      fit_and_measure(nk, x, y, se.S, se.yp, cl.line, q0, m, &r, pred);
      /* unit independence: the same points with x in another unit, into fresh tables */
      matrix *S2, *S3; dvector *yp2; initMatrix(&S2); initMatrix(&S3); initDVector(&yp2);
      for(int i = 0; i < nk; i++){ x2[i] = x[i] * 1000.0; x3[i] = x[i] * 1024.0; }
      fit_and_measure(nk, x2, y, S2, yp2, 0, 0, 0, &r2, pred2);
      fit_and_measure(nk, x3, y, S3, yp2, 0, 0, 0, &r3, pred3);
      double unit = 0, unit2 = 0, ymax = 0;
      for(int i = 0; i < nk; i++) if(fabs(y[i]) > ymax) ymax = fabs(y[i]);
      if(ymax == 0) ymax = 1;
      for(int i = 0; i < 2 * nk - 1; i++){ upd(&unit, fabs(pred[i] - pred2[i]) / ymax); upd(&unit2, fabs(pred[i] - pred3[i]) / ymax); }
      if(r.rows < 1 || r.cols != 5) unit = unit2 = 1e30;
      char buf[2048]; int p = 0;
      p += snprintf(buf + p, sizeof buf - p, "{\"e\":\"SFit\",\"sid\":%d,\"k\":%d,\"nk\":%d,\"prev\":%d,\"rows\":%d,\"cols\":%d,\"sp\":%d,\"dec\":%d,\"ym\":%d,\"yo\":%d,\"xo\":%d,\"xe\":%d,\"line\":%d",
                    sid, k, nk, r.prev, r.rows, r.cols, cl.sp, cl.dec, cl.ym, cl.yo, cl.xo, xe, cl.line);
      emit_ints(buf, sizeof buf, &p, "hd", hd, n);
      p += snprintf(buf + p, sizeof buf - p, ",\"interp\":%ld,\"c1\":%ld,\"c2\":%ld,\"nat\":%ld,\"ord\":%ld,\"unit\":%ld,\"unit2\":%ld,\"lin\":%ld,\"lookup\":%ld,\"ulpw\":%ld,\"ulpv\":%ld,\"nq\":%d}",
                    vq12(r.interp), vq12(r.c1), vq12(r.c2), vq12(r.nat), vq12(fmax(r.ord, fmax(r2.ord, r3.ord))), vq12(unit), vq12(unit2), vq12(r.lin),
                    r.wrong + r2.wrong + r3.wrong, r.ulpw + r2.ulpw + r3.ulpw, vq12(r.ulpv), r.nq);
      VRT_EMIT("%s", buf);
      DelMatrix(&S2); DelMatrix(&S3); DelDVector(&yp2);
      /* interpolate() into the session's output: 2 points, as many as knots, a dense grid (the order varies with the fit) */
      { int nps[3] = {2, nk, 3 * nk + 1};
        for(int t = 0; t < 3; t++){
          int np = nps[(t + 2 * k) % 3]; intres a;      /* the first output shape of fit k+1 is the last one of fit k: same shape, other data */
          interp_and_measure(nk, x, y, np, se.out, cl.line, q0, m, &a);
          VRT_EMIT("{\"e\":\"SInt\",\"sid\":%d,\"k\":%d,\"nk\":%d,\"np\":%d,\"prow\":%d,\"pcol\":%d,\"rows\":%d,\"cols\":%d,\"mono\":%d,\"val\":%ld,\"first\":%ld,\"ends\":%ld,\"lin\":%ld}",
                   sid, k, nk, np, a.prow, a.pcol, a.rows, a.cols, a.mono, vq12(a.val), vq12(a.first), vq12(a.ends), vq12(a.lin));
        } }
      /* trapezoid area of the polyline: exact (long double reference), additive at vertices and at inserted polyline points */
      { long double ex = 0, norm = 0;
        for(int i = 0; i < n; i++){ long double t = ((long double)x[i + 1] - x[i]) * (((long double)y[i] + y[i + 1]) / 2); ex += t; norm += fabsl(((long double)x[i + 1] - x[i]) * ((fabsl(y[i]) + fabsl(y[i + 1])) / 2)); }
        if(norm == 0) norm = 1;
        double A = area_pts(nk, x, y), add = 0, addb = 0;
        for(int s = 1; s < n; s++) upd(&add, fabs(A - area_pts(s + 1, x, y) - area_pts(nk - s, x + s, y + s)));
        for(int i = 0; i < n; i++){
          double t = (i % 3 == 0) ? 0.5 : vr_unif(&g), px = x[i] + t * (x[i + 1] - x[i]);
          if(!(px > x[i] && px < x[i + 1])) continue;
          long double tt = ((long double)px - x[i]) / ((long double)x[i + 1] - x[i]);
          double py = (double)((long double)y[i] + ((long double)y[i + 1] - y[i]) * tt);
          double lx[MAXK + 1], ly[MAXK + 1], rx[MAXK + 1], ry[MAXK + 1];
          for(int j = 0; j <= i; j++){ lx[j] = x[j]; ly[j] = y[j]; }
          lx[i + 1] = px; ly[i + 1] = py; rx[0] = px; ry[0] = py;
          for(int j = i + 1; j < nk; j++){ rx[j - i] = x[j]; ry[j - i] = y[j]; }
          upd(&addb, fabs(A - area_pts(i + 2, lx, ly) - area_pts(nk - i, rx, ry)));
        }
        VRT_EMIT("{\"e\":\"SArea\",\"sid\":%d,\"k\":%d,\"nk\":%d,\"exact\":%ld,\"add\":%ld,\"addb\":%ld}", sid, k, nk,
                 vq12((double)(fabsl(A - ex) / norm)), vq12((double)(add / norm)), vq12((double)(addb / norm)));
        /* outside the statement: the spline-sampled form and descending abscissae */
        matrix *xy, *o2; NewMatrix(&xy, nk, 2); initMatrix(&o2);
        for(int i = 0; i < nk; i++){ xy->data[i][0] = x[i]; xy->data[i][1] = y[i]; }
        double a1 = curve_area(xy, 1), a2 = curve_area(xy, 2);
        int np = (k % 2) ? nk : 3 * nk + 1; double an = curve_area(xy, (size_t)np);
        interpolate(xy, (size_t)np, o2);
        long double tr = 0, trn = 0;
        if((int)o2->row == np && o2->col == 2)
          for(int i = 0; i + 1 < np; i++){ long double b = (long double)o2->data[i + 1][0] - o2->data[i][0]; tr += b * (((long double)o2->data[i][1] + o2->data[i + 1][1]) / 2); trn += fabsl(b) * ((fabsl(o2->data[i][1]) + fabsl(o2->data[i + 1][1])) / 2); }
        if(trn == 0) trn = 1;
        double chord = (x[n] - x[0]) * 0.5 * (y[0] + y[n]), cn = fabs(x[n] - x[0]) * ymax;     /* relative to range x max|y| */
        for(int i = 0; i < nk; i++){ xy->data[i][0] = x[n - i]; xy->data[i][1] = y[n - i]; }
        double ad = curve_area(xy, 0);
        { char xb[1024]; int xp = 0;
          xp += snprintf(xb + xp, sizeof xb - xp, "{\"e\":\"XArea\",\"sid\":%d,\"k\":%d,\"nk\":%d,\"np\":%d,\"xe\":%d", sid, k, nk, np, xe);
          emit_ints(xb, sizeof xb, &xp, "hd", hd, n);
          snprintf(xb + xp, sizeof xb - xp, ",\"one\":%ld,\"two\":%ld,\"samp\":%ld,\"desc\":%ld}",
                   vq12(fabs(a1) / (double)norm), vq12(fabs(a2 - chord) / cn), vq12((double)(fabsl(an - tr) / trn)), vq12(fabs(ad + A) / (double)norm));
          VRT_EMIT("%s", xb); }
        DelMatrix(&xy); DelMatrix(&o2);
      }
      /* outside the statement: half a spacing outside the knot range */
      if(r.rows == n && r.cols == 5){
        double xl = x[0] - 0.5 * (x[1] - x[0]), xr = x[n] + 0.5 * (x[n] - x[n - 1]);
        double vl = predict1(se.S, xl), vr = predict1(se.S, xr);
        VRT_EMIT("{\"e\":\"Extrap\",\"sid\":%d,\"k\":%d,\"nk\":%d,\"lok\":%d,\"rok\":%d,\"fin\":%d}", sid, k, nk,
                 reproduces_s(se.S, 0, xl, vl, ymax), reproduces_s(se.S, n - 1, xr, vr, ymax), vfinite(vl) && vfinite(vr));
      }
      /* ordinates around the library's MISSING code (99999999): the spline VALUE at the query equals the code although no ordinate does */
      if(k == 0 && sid % 4 == 1 && nk >= 4){
        double ys[MAXK]; matrix *xy, *Sf; NewMatrix(&xy, nk, 2); initMatrix(&Sf);
        int pc = (int)vr_int(&g, 0, n - 2);
        for(int i = 0; i < nk; i++){ ys[i] = 99999999.0 + ((i <= pc) ? -1.0 : 1.0) * (3.0 + 10.0 * vr_unif(&g)) * (1.0 + (double)abs(i - pc)); xy->data[i][0] = x[i]; xy->data[i][1] = ys[i]; }
        cubic_spline_interpolation(xy, Sf);
        double xq; int found = ((int)Sf->row == n && Sf->col == 5) ? find_level(Sf, pc, x[pc], x[pc + 1], 99999999.0, &xq) : 0;
        double err = 0;
        if(found){ double v = predict1(Sf, xq); err = fabs(v - piece_val(Sf, pc, xq)) / 99999999.0; }
        VRT_EMIT("{\"e\":\"Sent\",\"sid\":%d,\"k\":%d,\"nk\":%d,\"piece\":%d,\"last\":%d,\"found\":%d,\"err\":%ld}", sid, k, nk, pc, n - 1, found, vq12(err));
        DelMatrix(&xy); DelMatrix(&Sf);
      }
    }
    DelMatrix(&se.S); DelMatrix(&se.out); DelDVector(&se.yp);
  }
  vrt_close();
  return 0;
}
