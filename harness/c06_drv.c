/* c06_drv.c - conformance driver for C06 (validation results are deterministic under every schedule / thread count).
 * usage: c06_drv <out.ndjson> sched  <seed> <schedule-file> <NW> <K>     forced schedules (hook H1 gate) on BootstrapRandomGroupsCV
 *        c06_drv <out.ndjson> yscr   <seed> <ncases>                      y-scrambling pipeline, all RNG events of all threads
 *        c06_drv <out.ndjson> counts <seed> <ncases>                      bit-identity across thread counts (boot: dividing counts; LOO; k-fold)
 *        c06_drv <out.ndjson> sched  <seed> <schedule-file> <NW> <K> 1    the same with the EPLS learner (bagging / fixed subspace / both) in the workers
 *        c06_drv <out.ndjson> direct <seed> <ncases> [first]              every other routine that draws: EPLS, KMeans (init 0/1), KMeans++, KMeansRandomGroupsCV,
 *                                                                          KMeansJumpMethod, PCARankValidation, UPLSRandomGroupsCV, UPLSYScrambling, StochasticUniversalSample,
 *                                                                          RouletteWheelselection, train_test_split, random_kfold_group_generator, MatrixInitRandomInt/Float
 *        c06_drv <out.ndjson> eplscv <seed> <ncases>                      EPLS as the learner of BootstrapRandomGroupsCV / LeaveOneOut / KFoldCV, thread counts 1..8
 *        c06_drv <out.ndjson> sched  <seed> <schedule-file> <NW> <K> 2    the CV with NW-1 workers next to a DISTURBER thread (another caller of the library seeding with the
 *                                                                          seed of the first worker and drawing): the disturber owns the NW-th letter of the word
 *        c06_drv <out.ndjson> dsched <seed> <schedule-file> <K> [first]    every directly called drawing routine on a fresh thread next to a disturber thread, the first
 *                                                                          2K+1 generator steps of both forced by the word
 *        c06_drv <out.ndjson> classes <seed> <ncases> [first]              stratified input/history classes (INPUT-CLASSES.md K1..K10) for the three schemes x three learners:
 *                                                                          thread counts 1..8 (incl. 5 and 7), inner processor counts 1/2/3, reused outputs, another fit in
 *                                                                          between, residual output, wide / single column / multi-response shapes, offsets, magnitudes,
 *                                                                          duplicates, label alphabets, concurrent disturber
 *        c06_drv <out.ndjson> hist   <seed> <ncases>                       in-process histories: fit A, free, fit B at the addresses A had, into the output A filled -
 *                                                                          must equal B computed alone in a fresh process
 *        c06_drv <out.ndjson> yscount <seed> <ncases> [first]              YScrambling (bootstrap / LOO validation inside, PLS / MLR / LDA) for every requested thread count 1..8
 *        c06_drv <out.ndjson> calls  <seed> <schedule-file> <K>            two application threads (srand_ + K draws each) interleaved at CALL boundaries by the harness - no parking
 *                                                                          inside the library, forceable on any implementation (also one that locks its generator)
 * sched / dsched start with a LOCK PROBE: the gate parks workers only at hook points at which a parked thread does not keep other threads out of the generator.
 * Trace per run:  Reset ; Run{..} ; Seq{h} ; (Seed|Wrote|Read|Clock|Clear)* ; Result{h} ; End
 *   Seed{w,s}   : thread w entered srand_(s)
 *   Wrote{w,v,a}: thread w stored v into the generator word at address class a (srand_ or write half of a draw)
 *   Read{w,v}   : thread w copied v out of the word (read half of a draw);  s, v are 32-bit words as two 16-bit limbs [hi,lo]
 *   Clock{w}    : thread w called time() inside the library (time() is interposed by this file: the clock is a controlled input)
 *   Clear       : a further recorded run of the same case starts
 * Thread 0 is the calling thread; workers are numbered in order of first arrival at srand_ (forced schedules) or at any generator point.
 */
#include "scientific.h"
#include "verif_rt.h"
#include <time.h>
#include <errno.h>
#include <fcntl.h>
#include <sched.h>

#define MAXT 64
#define MAXEV 400000
typedef struct { unsigned char kind; unsigned char w; unsigned char a; uint32_t v; } rev;   /* kind 1 Wrote 2 Read 3 Seed 4 Clock */
static rev *EV; static int nev = 0;
static pthread_mutex_t gmu = PTHREAD_MUTEX_INITIALIZER;
static pthread_cond_t gcv = PTHREAD_COND_INITIALIZER;
static pthread_t main_tid, wtid[MAXT]; static int nwt = 0;
static const volatile uint32_t *addr_seen[8]; static int naddr = 0;
static int gate_on = 0, NWK = 0, Q = 0, sched[512], slen = 0, pos = 0, steps[MAXT], inturn[MAXT];
static int stuck = 0, unforced = 0, rec_on = 0;
/* the wall clock is an input of the library (numeric.c draws from time(NULL) when the word is 0; matrix.c seeds with it): interpose it */
static int fake_clock_on = 0; static time_t fake_clock_val = 0; static int nclock = 0;

/* a worker that ends before it used up its letters must not block the others: a thread-specific destructor marks its letter dead */
static int dead[MAXT]; static pthread_key_t dkey; static pthread_once_t dkey_once = PTHREAD_ONCE_INIT;
static void dkey_dtor(void *v){ pthread_mutex_lock(&gmu); dead[(int)(intptr_t)v] = 1; pthread_cond_broadcast(&gcv); pthread_mutex_unlock(&gmu); }
static void dkey_make(void){ pthread_key_create(&dkey, dkey_dtor); }
static int addr_class(const volatile uint32_t *p){ for(int i = 0; i < naddr; i++) if(addr_seen[i] == p) return i; if(naddr < 8){ addr_seen[naddr] = p; return naddr++; } return 7; }
static int ident(int assign){
  pthread_t me = pthread_self();
  if(pthread_equal(me, main_tid)) return 0;
  for(int i = 0; i < nwt; i++) if(pthread_equal(wtid[i], me)) return i + 1;
  if(assign && nwt < MAXT - 1){ wtid[nwt++] = me; pthread_once(&dkey_once, dkey_make); pthread_setspecific(dkey, (void*)(intptr_t)nwt); return nwt; }
  return MAXT - 1;
}
static int ev_overflow = 0;
static void logev(int kind, int w, const volatile uint32_t *p, uint32_t v){ if(nev < MAXEV){ EV[nev].kind = kind; EV[nev].w = w; EV[nev].a = p ? addr_class(p) : 0; EV[nev].v = v; nev++; } else ev_overflow = 1; }
/* Points of the generator functions at which a worker may be parked: the lock probe (below) clears the points at which a parked thread keeps the
   other threads out of the generator (a library that serialises its generator calls with a lock).  All set: the fine-grained gate of the design.
   None set: no schedule can be forced on this library (gate off; the un-gated blocks and the call-level choreography decide). */
static int safe_pt[5] = {1, 1, 1, 1, 1}; static int gate_broken = 0;
/* wait until the next letter of the schedule word is mine (called with gmu held) */
static void wait_turn(int L){
  int waited = 0;
  while(gate_on && pos < slen && sched[pos] != L){
    if(sched[pos] >= 1 && sched[pos] < MAXT && dead[sched[pos]]){ pos++; unforced++; pthread_cond_broadcast(&gcv); continue; }   /* the letter's owner has ended: skip the letter */
    struct timespec ts; clock_gettime(CLOCK_REALTIME, &ts); ts.tv_nsec += 20000000; if(ts.tv_nsec >= 1000000000){ ts.tv_sec++; ts.tv_nsec -= 1000000000; }
    pthread_cond_timedwait(&gcv, &gmu, &ts);
    if(waited > 100 && pos < slen && sched[pos] > nwt){ pos++; unforced++; pthread_cond_broadcast(&gcv); continue; }  /* 2 s: the letter's owner never appeared (fewer worker threads than the word has letters): skip the letter */
    if(++waited > 300){ stuck = 1; gate_on = 0; pthread_cond_broadcast(&gcv); break; }   /* 6 s without my turn: open the gate for good; the run is still recorded and judged, the lost forcing is reported at the very end */
  }
  inturn[L] = (gate_on && pos < slen && sched[pos] == L);
}
static void step_done(int L){
  if(inturn[L]){ inturn[L] = 0; steps[L]++; pos++; pthread_cond_broadcast(&gcv); return; }
  if(gate_on && steps[L] < Q){
    /* a step taken out of turn (the worker could not be parked before it): pull its next letter forward so that the word keeps describing what happened */
    int j = pos; while(j < slen && sched[j] != L) j++;
    if(j < slen){ for(int i = j; i > pos; i--) sched[i] = sched[i - 1]; sched[pos] = L; pos++; }
    steps[L]++; unforced++; pthread_cond_broadcast(&gcv);
  }
}
static void rng_cb(int pt, const volatile uint32_t *word, uint32_t aux){
  pthread_mutex_lock(&gmu);
  int L = ident(pt == 0 || !gate_on);
  int gated = gate_on && L >= 1 && L <= NWK;
  /* a worker waits for its letter at the END of its previous step (parked inside the generator function, after the
     store / after the copy), so that everything the function still holds in flight is exposed to the other workers'
     steps; the first step waits at its start.  Points the lock probe found unsafe are passed without waiting. */
  switch(pt){
    case 0: logev(3, L, word, aux); if(gated && steps[L] < Q && !inturn[L] && safe_pt[0]) wait_turn(L); break;          /* before the seed store (aux = the seed) */
    case 1: logev(1, L, word, aux); if(gated){ step_done(L); if(steps[L] < Q && safe_pt[1]) wait_turn(L); } break;      /* after the seed store */
    case 2: if(gated && steps[L] < Q && !inturn[L] && safe_pt[2]) wait_turn(L); break;                                  /* before the read */
    case 3: logev(2, L, word, aux); if(gated){ step_done(L); if(steps[L] < Q && safe_pt[3]) wait_turn(L); } break;      /* after read, before write */
    case 4: logev(1, L, word, aux); if(gated){ step_done(L); if(steps[L] < Q && safe_pt[4]) wait_turn(L); } break;      /* after the write, before the value is computed */
  }
  pthread_mutex_unlock(&gmu);
}
/* ---- lock probe: can a thread be parked at point pt of a generator function while ANOTHER thread seeds and draws?  (once per process, before any forced run) */
static int probe_pt = -1, probe_parked = 0, probe_release = 0; static pthread_t probe_t1;
static void probe_cb(int pt, const volatile uint32_t *word, uint32_t aux){
  (void)word; (void)aux;
  pthread_mutex_lock(&gmu);
  if(pt == probe_pt && pthread_equal(pthread_self(), probe_t1) && !probe_parked){
    probe_parked = 1; pthread_cond_broadcast(&gcv);
    while(!probe_release) pthread_cond_wait(&gcv, &gmu);
  }
  pthread_mutex_unlock(&gmu);
}
static void *probe_t1_main(void *a){ (void)a; srand_(11); (void)randInt(0, 100); return NULL; }
static volatile int probe_t2_done = 0;
static void *probe_t2_main(void *a){ (void)a; srand_(22); (void)randInt(0, 100); (void)randDouble(0.0, 1.0); (void)rand_(); pthread_mutex_lock(&gmu); probe_t2_done = 1; pthread_cond_broadcast(&gcv); pthread_mutex_unlock(&gmu); return NULL; }
static int timed_wait_ms(int ms){ struct timespec ts; clock_gettime(CLOCK_REALTIME, &ts); ts.tv_nsec += (long)ms * 1000000L; while(ts.tv_nsec >= 1000000000){ ts.tv_sec++; ts.tv_nsec -= 1000000000; } return pthread_cond_timedwait(&gcv, &gmu, &ts); }
static int lock_probe(void){
  int mask = 0;
  for(int pt = 0; pt < 5; pt++){
    pthread_t t2; probe_pt = pt; probe_parked = 0; probe_release = 0; probe_t2_done = 0;
    libsci_verif_rng = probe_cb;
    pthread_mutex_lock(&gmu);
    pthread_create(&probe_t1, NULL, probe_t1_main, NULL);
    for(int i = 0; i < 100 && !probe_parked; i++) timed_wait_ms(20);
    int parked = probe_parked;
    pthread_mutex_unlock(&gmu);
    pthread_create(&t2, NULL, probe_t2_main, NULL);
    pthread_mutex_lock(&gmu);
    for(int i = 0; i < 50 && !probe_t2_done; i++) timed_wait_ms(20);       /* 1 s: seeding and three draws take microseconds unless the parked thread keeps a lock */
    int ok = parked && probe_t2_done;
    probe_release = 1; pthread_cond_broadcast(&gcv);
    pthread_mutex_unlock(&gmu);
    pthread_join(probe_t1, NULL); pthread_join(t2, NULL);
    libsci_verif_rng = NULL;
    safe_pt[pt] = ok; if(!ok) mask |= 1 << pt;
  }
  return mask;
}
static int LOCKMASK = 0;
time_t time(time_t *t){
  time_t v;
  if(fake_clock_on) v = fake_clock_val; else { struct timespec ts; clock_gettime(CLOCK_REALTIME, &ts); v = ts.tv_sec; }
  if(rec_on){ pthread_mutex_lock(&gmu); nclock++; logev(4, ident(!gate_on), NULL, 0); pthread_mutex_unlock(&gmu); }
  if(t) *t = v;
  return v;
}
/* libc's process-wide generators: state shared by all threads outside the seeded stream.  The library must not use them in
   the routines driven here; every call made while a library routine runs is counted and handed to TLC (Result.libc must be 0). */
static volatile int lib_running = 0; static int nlibc = 0; static uint32_t libc_state = 12345;
static pthread_mutex_t libc_mu = PTHREAD_MUTEX_INITIALIZER;
static int libc_step(void){ pthread_mutex_lock(&libc_mu); if(lib_running) nlibc++; libc_state = libc_state * 1103515245u + 12345u; int v = (int)((libc_state >> 1) & 0x3fffffff); pthread_mutex_unlock(&libc_mu); return v; }
int rand(void){ return libc_step(); }
void srand(unsigned int s){ pthread_mutex_lock(&libc_mu); if(lib_running) nlibc++; libc_state = s; pthread_mutex_unlock(&libc_mu); }
long random(void){ return libc_step(); }
void srandom(unsigned int s){ srand(s); }
double drand48(void){ return libc_step() / 1073741824.0; }
long lrand48(void){ return libc_step(); }
void srand48(long s){ srand((unsigned)s); }
#define LIB_BEGIN() do{ nlibc = 0; lib_running = 1; }while(0)
#define LIB_END() do{ lib_running = 0; }while(0)

/* the disturber: another thread of the application that uses the generator while a library call runs on other threads */
typedef struct { uint32_t seed; int k; int freerun; volatile int *stop; } darg;
static void dist_draw(int i){ if(i % 3 == 0) (void)randInt(0, 1000); else if(i % 3 == 1) (void)randDouble(0.0, 1.0); else (void)rand_(); }
static void *disturber_main(void *a_){
  darg *D = a_; srand_(D->seed);
  for(int i = 0; i < D->k; i++) dist_draw(i);
  for(int r = 0; r < D->freerun && !(D->stop && *D->stop); r++){ if(r % 8 == 7) srand_(D->seed + 1 + r); dist_draw(r); if(r % 4 == 0) sched_yield(); }
  return NULL;
}

static void recorder_reset(void){ memset(dead, 0, sizeof(dead)); nclock = 0; nev = 0; nwt = 0; naddr = 0; pos = 0; stuck = 0; unforced = 0; memset(steps, 0, sizeof(steps)); memset(inturn, 0, sizeof(inturn)); main_tid = pthread_self(); }
static void rec_start(int gated){ recorder_reset(); gate_on = gated && !gate_broken && LOCKMASK != 31; rec_on = 1; libsci_verif_rng = rng_cb; }
static void rec_stop(void){ libsci_verif_rng = NULL; gate_on = 0; rec_on = 0; }
static void emit_events(void){
  if(ev_overflow){ VRT_EMIT("{\"e\":\"Overflow\"}"); }
  for(int i = 0; i < nev; i++){
    unsigned hi = EV[i].v >> 16, lo = EV[i].v & 0xffff;
    if(EV[i].kind == 1) VRT_EMIT("{\"e\":\"Wrote\",\"w\":%d,\"v\":[%u,%u],\"a\":%d}", EV[i].w, hi, lo, EV[i].a);
    else if(EV[i].kind == 2) VRT_EMIT("{\"e\":\"Read\",\"w\":%d,\"v\":[%u,%u]}", EV[i].w, hi, lo);
    else if(EV[i].kind == 3) VRT_EMIT("{\"e\":\"Seed\",\"w\":%d,\"s\":[%u,%u]}", EV[i].w, hi, lo);
    else VRT_EMIT("{\"e\":\"Clock\",\"w\":%d}", EV[i].w);
  }
}

/* ---- problems ---- */
enum { A_PLS = 0, A_MLR = 1, A_LDA = 2, A_EBAG = 3, A_ERSM = 4, A_EBRSM = 5 };
static const char *ANAME[6] = {"PLS", "MLR", "LDA", "EPLS-bagging", "EPLS-subspace", "EPLS-bagging-subspace"};
static AlgorithmType ATYPE[6] = {_PLS_, _MLR_, _LDA_, _EPLS_, _EPLS_, _EPLS_};
typedef struct { int algo, n, p, ny, nlv; matrix *x, *y; ELearningParameters ep; } prob;
static int is_epls(int algo){ return algo >= A_EBAG; }
static void set_eparm(prob *P, size_t n_models, double trainsize, size_t r_fix){
  P->ep = initElearningParameters(); P->ep.n_models = n_models; P->ep.trainsize = trainsize; P->ep.r_fix = r_fix;
  P->ep.algorithm = P->algo == A_EBAG ? Bagging : P->algo == A_ERSM ? FixedRandomSubspaceMethod : BaggingRandomSubspaceMethod;
}
static void gen_problem(prob *P, vrng *R, int algo, int n, int p, int ny, int nlv){
  P->algo = algo; P->n = n; P->p = p; P->ny = ny; P->nlv = nlv; NewMatrix(&P->x, n, p); NewMatrix(&P->y, n, ny); P->ep = initElearningParameters();
  if(algo == A_LDA){ for(int i = 0; i < n; i++){ int c = i % 2; P->y->data[i][0] = c; for(int j = 0; j < p; j++) P->x->data[i][j] = vr_norm(R) + 5.0 * c; } return; }
  for(int i = 0; i < n; i++){ for(int j = 0; j < p; j++) P->x->data[i][j] = vr_norm(R) * (1 + j);
    for(int c = 0; c < ny; c++){ double s = 0; for(int j = 0; j < p; j++) s += P->x->data[i][j] * (j + 1 + c); P->y->data[i][c] = s + 0.5 * vr_norm(R); } }
}
static void free_problem(prob *P){ DelMatrix(&P->x); DelMatrix(&P->y); }
/* input classes (INPUT-CLASSES.md) laid over a generated problem; all of them keep the fits well posed for the learner they are used with */
enum { V_NONE = 0, V_OFFSET, V_BIG, V_SMALL, V_TIES, V_DUPROWS, V_CONSTCOL };
static void apply_variant(prob *P, int v){
  int n = P->n, p = P->p, ny = P->ny, reg = P->algo != A_LDA;
  for(int i = 0; i < n; i++){
    for(int j = 0; j < p; j++){ double *x = &P->x->data[i][j];
      if(v == V_OFFSET) *x += 1e6; else if(v == V_BIG) *x *= 1e6; else if(v == V_SMALL) *x *= 1e-6;
      else if(v == V_TIES && j == 0) *x = 0.1 * (i % 3) + (reg ? 0 : 5.0 * P->y->data[i][0]);      /* non-representable tied values */
      else if(v == V_CONSTCOL && j == p - 1) *x = 0.1; }
    if(reg) for(int c = 0; c < ny; c++){ double *y = &P->y->data[i][c];
      if(v == V_OFFSET) *y += 1e5; else if(v == V_BIG) *y *= 1e6; else if(v == V_SMALL) *y *= 1e-6; else if(v == V_TIES) *y = 1e-3 * floor(*y); }
  }
  if(v == V_DUPROWS && n >= 6) for(int j = 0; j < p; j++){ P->x->data[1][j] = P->x->data[0][j]; P->x->data[n - 1][j] = P->x->data[2][j]; }
  if(v == V_DUPROWS && n >= 6 && reg) for(int c = 0; c < ny; c++){ P->y->data[1][c] = P->y->data[0][c]; P->y->data[n - 1][c] = P->y->data[2][c]; }
}
/* LDA problems with k classes; style 0: labels 0..k-1 in the order i % k, 1: unsorted order, 2: 1-based labels */
static void gen_lda(prob *P, vrng *R, int n, int p, int k, int style){
  P->algo = A_LDA; P->n = n; P->p = p; P->ny = 1; P->nlv = 0; NewMatrix(&P->x, n, p); NewMatrix(&P->y, n, 1); P->ep = initElearningParameters();
  for(int i = 0; i < n; i++){ int c = style == 1 ? (i * 7 + 2) % k : i % k; P->y->data[i][0] = c + (style == 2 ? 1 : 0);
    for(int j = 0; j < p; j++) P->x->data[i][j] = vr_norm(R) + 5.0 * ((c + j) % k) + (j == 0 ? 3.0 * c : 0); }
}
static long HFIN = 0, HNUM = 0;   /* finite / all doubles that went into the result hashes of the current case (vacuity guard: a matrix of NaN is trivially reproducible) */
static uint64_t hash_matrix(matrix *m){ uint64_t h = 1469598103934665603ULL; h ^= m->row; h *= 1099511628211ULL; h ^= m->col; h *= 1099511628211ULL;
  for(size_t i = 0; i < m->row; i++) for(size_t j = 0; j < m->col; j++){ uint64_t u; memcpy(&u, &m->data[i][j], 8); HNUM++; if(vfinite(m->data[i][j])) HFIN++; for(int b = 0; b < 8; b++){ h ^= (u >> (8 * b)) & 0xff; h *= 1099511628211ULL; } } return h; }
#define H3(h) (long)((h) >> 43), (long)(((h) >> 22) & 0x1FFFFF), (long)((h) & 0x3FFFFF)
static void boot(prob *P, int groups, int iters, int nth, matrix *pred){
  MODELINPUT in = initModelInput(); in.mx = P->x; in.my = P->y; in.nlv = (P->algo == A_PLS || is_epls(P->algo)) ? P->nlv : 0; in.xautoscaling = 1; in.yautoscaling = 0;
  LIB_BEGIN();
  if(is_epls(P->algo)) BootstrapRandomGroupsCV(&in, groups, iters, ATYPE[P->algo], pred, NULL, nth, NULL, 2, P->ep, Averaging);
  else BootstrapRandomGroupsCV(&in, groups, iters, ATYPE[P->algo], pred, NULL, nth, NULL, 0);
  LIB_END();
}
/* largest element-wise difference of two results relative to the largest reference magnitude, in units of 1e-12 (saturating; shape mismatch or NaN saturate) */
static long rel_diff(matrix *ref, matrix *b){
  if(ref->row != b->row || ref->col != b->col) return VQ_MAX;
  double mx = 0, d = 0;
  for(size_t i = 0; i < ref->row; i++) for(size_t j = 0; j < ref->col; j++){ double a = ref->data[i][j], c = b->data[i][j];
    if(!vfinite(a) || !vfinite(c)){ uint64_t u, v; memcpy(&u, &a, 8); memcpy(&v, &c, 8); if(u != v) return VQ_MAX; continue; }
    if(fabs(a) > mx) mx = fabs(a); if(fabs(a - c) > d) d = fabs(a - c); }
  if(d == 0) return 0; if(mx == 0) return VQ_MAX;
  return vq_unit(d / mx, 1e-12);
}

typedef struct { prob *P; int groups; int nw; int *word; int wl; int k; int dist; } sarg;
static uint32_t first_seed_seen = 0; static int first_seed_has = 0;
static void seed_spy(int pt, const volatile uint32_t *word, uint32_t aux){ (void)word; if(pt == 0 && !first_seed_has){ first_seed_has = 1; first_seed_seen = aux; } }
static int child_sched(void *a_){
  sarg *A = (sarg*)a_; prob *P = A->P;
  vrt_force_nproc(1); vrt_install_iter_budget(200000, 0);
  matrix *seq, *par; initMatrix(&seq); initMatrix(&par);
  /* sequential reference: same iterations, one worker at a time (same seeds, same merge order); with a disturber the CV has NW-1 workers and the disturber owns a letter */
  int ncv = A->dist ? A->nw - 1 : A->nw;
  first_seed_has = 0; libsci_verif_rng = A->dist ? seed_spy : NULL; boot(P, A->groups, ncv, 1, seq); libsci_verif_rng = NULL;
  uint64_t hs = hash_matrix(seq);
  { static char buf[4096]; int p = 0; p += snprintf(buf, sizeof(buf), "{\"e\":\"Run\",\"mode\":\"sched\",\"algo\":\"%s\",\"n\":%d,\"p\":%d,\"ny\":%d,\"nlv\":%d,\"groups\":%d,\"nw\":%d,\"k\":%d,\"dist\":%d,\"lock\":%d,\"gate\":%d,\"cls\":[\"%s\"],\"word\":[", ANAME[P->algo], P->n, P->p, P->ny, P->nlv, A->groups, A->nw, A->k, A->dist, LOCKMASK, !gate_broken && LOCKMASK != 31,
      A->dist ? "K6:disturber-forced-cv" : A->nw >= 4 ? "K6:forced-4-workers" : A->nw == 3 && A->k >= 2 ? "K6:forced-3-workers-k2" : "K6:forced-schedule");
    for(int i = 0; i < A->wl; i++) p += snprintf(buf + p, sizeof(buf) - p, "%s%d", i ? "," : "", A->word[i]); snprintf(buf + p, sizeof(buf) - p, "]}"); VRT_EMIT("%s", buf); }
  VRT_EMIT("{\"e\":\"Seq\",\"h\":[%ld,%ld,%ld],\"fin\":%ld,\"num\":%ld}", H3(hs), HFIN, HNUM);
  rec_start(1); NWK = A->nw; Q = A->wl / A->nw; slen = A->wl; for(int i = 0; i < slen; i++) sched[i] = A->word[i];   /* Q letters per worker: 2K+1 (seedDraw), 2(2K+1) (reseed) */
  volatile int dstop = 0; darg D = {A->dist && first_seed_has ? first_seed_seen : 777u, A->k, 4000, &dstop}; pthread_t dth;
  if(A->dist) pthread_create(&dth, NULL, disturber_main, &D);      /* seeds with the seed the first CV worker uses (read off the sequential run) */
  boot(P, A->groups, ncv, ncv, par);
  int nl = nlibc;
  if(A->dist){ dstop = 1; pthread_join(dth, NULL); }
  rec_stop();
  if(stuck) VRT_EMIT("{\"e\":\"Stuck\",\"pos\":%d}", pos);       /* the gate gave up on this word: the run went on un-gated and is judged like any other recording */
  emit_events();
  uint64_t hp = hash_matrix(par);
  VRT_EMIT("{\"e\":\"Result\",\"h\":[%ld,%ld,%ld],\"forced\":%d,\"addrs\":%d,\"skipped\":%d,\"nth\":%d,\"rep\":0,\"dq\":%ld,\"libc\":%d}", H3(hp), pos, naddr, unforced, ncv, rel_diff(seq, par), nl);
  VRT_EMIT("{\"e\":\"End\"}");
  return stuck ? 3 : 0;
}

typedef struct { prob *P; int iters; } yarg;
static int child_yscr(void *a_){
  yarg *A = (yarg*)a_; prob *P = A->P;
  vrt_force_nproc(1); vrt_install_iter_budget(200000, 0);
  MODELINPUT in = initModelInput(); in.mx = P->x; in.my = P->y; in.nlv = P->algo == A_PLS ? P->nlv : 0; in.xautoscaling = 1; in.yautoscaling = 0;
  ValidationArg va = initValidationArg(); va.vtype = BootstrapRGCV;
  uint64_t h[3];
  VRT_EMIT("{\"e\":\"Run\",\"mode\":\"yscr\",\"algo\":\"%s\",\"n\":%d,\"p\":%d,\"ny\":%d,\"nlv\":%d,\"groups\":3,\"nw\":4,\"k\":0,\"word\":[]}", ANAME[P->algo], P->n, P->p, P->ny, P->nlv);
  for(int rep = 0; rep < 3; rep++){
    matrix *cc; initMatrix(&cc);
    if(rep == 0) rec_start(0); else { recorder_reset(); rec_stop(); }
    int so = dup(1); int dn = open("/dev/null", 1); dup2(dn, 1);      /* the routine prints a vector on stdout */
    YScrambling(&in, ATYPE[P->algo], va, A->iters, cc, 4, NULL);
    fflush(stdout); dup2(so, 1); close(so); close(dn);
    rec_stop();
    h[rep] = hash_matrix(cc); DelMatrix(&cc);
    if(rep == 0){ VRT_EMIT("{\"e\":\"Seq\",\"h\":[%ld,%ld,%ld],\"fin\":%ld,\"num\":%ld}", H3(h[0]), HFIN, HNUM); emit_events(); }
    else VRT_EMIT("{\"e\":\"Result\",\"h\":[%ld,%ld,%ld],\"forced\":0,\"addrs\":%d}", H3(h[rep]), naddr);
  }
  VRT_EMIT("{\"e\":\"End\"}");
  return 0;
}

typedef struct { prob *P; int scheme, groups, iters, reps; int lab[64]; int nproc, resid, reuse, between, conc, creates; const char *cls; prob *Q; int qlab[64]; const char *mode; } carg;
/* hook H5 on the calling thread: the seed every bootstrap worker is created with */
typedef struct { int th, it; long seed; } crec;
static crec CRE[256]; static int ncre = 0;
static void cv_spy(const char *ev, size_t a, size_t b, size_t c, const void *data){ (void)data; if(!strcmp(ev, "create") && ncre < 256){ CRE[ncre].th = (int)a; CRE[ncre].it = (int)b; CRE[ncre].seed = (long)c; ncre++; } }
static void cv_call(prob *P, int scheme, int groups, int iters, const int *lab, int nth, matrix *pred, matrix *res){
  MODELINPUT in = initModelInput(); in.mx = P->x; in.my = P->y; in.nlv = P->algo == A_PLS ? P->nlv : 0; in.xautoscaling = 1; in.yautoscaling = 0;
  LIB_BEGIN();
  if(scheme == 0 || scheme == 3) BootstrapRandomGroupsCV(&in, groups, iters, ATYPE[P->algo], pred, res, nth, NULL, 0);
  else if(scheme == 1) LeaveOneOut(&in, ATYPE[P->algo], pred, res, nth, NULL, 0);
  else { uivector *g; NewUIVector(&g, P->n); for(int i = 0; i < P->n; i++) g->data[i] = lab[i]; KFoldCV(&in, g, ATYPE[P->algo], pred, res, nth, NULL, 0); DelUIVector(&g); }
  LIB_END();
}
static int child_counts(void *a_){
  carg *A = (carg*)a_; prob *P = A->P;
  vrt_force_nproc(A->nproc > 0 ? A->nproc : 1); vrt_install_iter_budget(200000, 0);
  static const char *SN[4] = {"boot", "loo", "kfold", "stress"};
  int reps = A->scheme == 3 ? A->reps : 2;
  VRT_EMIT("{\"e\":\"Run\",\"mode\":\"%s:%s\",\"algo\":\"%s\",\"n\":%d,\"p\":%d,\"ny\":%d,\"nlv\":%d,\"groups\":%d,\"nw\":%d,\"k\":0,\"word\":[],\"nproc\":%d,\"resid\":%d,\"reuse\":%d,\"between\":%d,\"conc\":%d,\"cls\":[%s]}",
           A->mode ? A->mode : "counts", SN[A->scheme], ANAME[P->algo], P->n, P->p, P->ny, P->nlv, A->groups, A->iters, A->nproc > 0 ? A->nproc : 1, A->resid, A->reuse, A->between, A->conc, A->cls ? A->cls : "");
  uint64_t h1 = 0; int caller_same = 1; matrix *ref = NULL;
  volatile int dstop = 0; darg D = {4242u, 3, 2000000000, &dstop}; pthread_t dth;      /* the concurrent disturber seeds with the CALLER's seed and draws until told to stop */
  if(A->conc) pthread_create(&dth, NULL, disturber_main, &D);
  if(A->creates && A->scheme == 0) libsci_verif_cv = cv_spy;
  for(int nth = 1; nth <= 8; nth++){
    if((A->scheme == 0 || A->scheme == 3) && A->iters % nth) continue;           /* bootstrap claim: counts dividing the iteration count */
    if(A->scheme == 3 && nth != 1 && nth != 8) continue;
    for(int rep = 0; rep < (nth == 1 && !(A->reuse || A->between) ? 1 : reps); rep++){
      matrix *pred, *res = NULL; initMatrix(&pred); if(A->resid && P->algo != A_LDA) initMatrix(&res);
      if(rep >= 1 && A->Q && (A->reuse || A->between)){
        /* history: another fit (other data, other shape) runs first - into the very output matrices of the next call (reuse) or into its own */
        /* (KFoldCV frees an output of another shape behind its caller's back - child_kfold_reshape reports that once, as a finding outside C06;
           here its outputs are handed over already sized, holding the other fit's numbers) */
        int inplace = A->reuse && A->scheme != 2;
        matrix *o, *r2 = NULL; if(inplace){ o = pred; r2 = res; } else { initMatrix(&o); }
        cv_call(A->Q, A->scheme == 3 ? 0 : A->scheme, A->groups, A->iters, A->qlab, nth, o, r2);
        if(A->reuse && !inplace){ size_t sc = (size_t)P->ny * (P->algo == A_PLS ? (size_t)(P->nlv > P->p ? P->p : P->nlv) : 1);
          ResizeMatrix(pred, P->n, sc); for(size_t i = 0; i < pred->row; i++) for(size_t j = 0; j < pred->col; j++) pred->data[i][j] = o->data[i % o->row][j % o->col];
          if(res){ ResizeMatrix(res, P->n, sc); MatrixSet(res, 7.5); } }
        if(!inplace) DelMatrix(&o);
      }
      srand_(4242);
      ncre = 0;
      cv_call(P, A->scheme, A->groups, A->iters, A->lab, nth, pred, res);
      int nl = nlibc;
      /* did the call leave the caller's own seeded stream alone? (observation, implementation-shaped) */
      { int a[3], b[3]; for(int i = 0; i < 3; i++) a[i] = randInt(0, 1000000); srand_(4242); for(int i = 0; i < 3; i++) b[i] = randInt(0, 1000000); if(memcmp(a, b, sizeof(a))) caller_same = 0; }
      uint64_t h = hash_matrix(pred); if(res){ h ^= hash_matrix(res) * 0x9E3779B97F4A7C15ULL; }
      if(nth == 1 && rep == 0){ h1 = h; initMatrix(&ref); MatrixCopy(pred, &ref); VRT_EMIT("{\"e\":\"Seq\",\"h\":[%ld,%ld,%ld],\"fin\":%ld,\"num\":%ld,\"nth\":1}", H3(h1), HFIN, HNUM); }
      else if(A->scheme != 3 || h != h1 || rep == reps - 1) VRT_EMIT("{\"e\":\"Result\",\"h\":[%ld,%ld,%ld],\"forced\":0,\"addrs\":0,\"nth\":%d,\"rep\":%d,\"dq\":%ld,\"libc\":%d}", H3(h), nth, rep, rel_diff(ref, pred), nl);
      if(A->creates && A->scheme == 0){
        for(int i = 0; i < ncre; i++) VRT_EMIT("{\"e\":\"Create\",\"th\":%d,\"it\":%d,\"seed\":%ld}", CRE[i].th, CRE[i].it, CRE[i].seed);
        VRT_EMIT("{\"e\":\"Called\",\"iters\":%d,\"nth\":%d,\"ncreate\":%d}", A->iters, nth, ncre);
      }
      DelMatrix(&pred); if(res) DelMatrix(&res);
      if(A->scheme == 3 && h != h1) break;
    }
  }
  libsci_verif_cv = NULL;
  if(A->conc){ dstop = 1; pthread_join(dth, NULL); }
  VRT_EMIT("{\"e\":\"Caller\",\"same\":%d}", caller_same);
  VRT_EMIT("{\"e\":\"End\"}");
  return 0;
}

/* probe (finding outside C06): KFoldCV into an output matrix that has another shape */
static int child_kfold_reshape(void *a_){
  carg *A = a_; prob *P = A->P; vrt_force_nproc(1); vrt_install_iter_budget(200000, 0);
  matrix *fresh, *used; initMatrix(&fresh); NewMatrix(&used, P->n + 3, P->ny + 2);
  cv_call(P, 2, 0, 0, A->lab, 2, fresh, NULL);
  cv_call(P, 2, 0, 0, A->lab, 2, used, NULL);
  return hash_matrix(fresh) == hash_matrix(used) ? 0 : 5;
}
/* in-process history (K7): fit A, free its inputs, allocate B where A was, fit another shape C, fit B into the output A filled; the reference is B alone in a FRESH process */
typedef struct { prob *A, *B, *C; int scheme, groups, iters, nth, second; int lab[64]; } harg;
static int child_hist(void *a_){
  harg *H = a_;
  vrt_force_nproc(1); vrt_install_iter_budget(200000, 0);
  matrix *pred; initMatrix(&pred);
  if(!H->second){
    cv_call(H->B, H->scheme, H->groups, H->iters, H->lab, H->nth, pred, NULL);
    uint64_t h = hash_matrix(pred);
    VRT_EMIT("{\"e\":\"Seq\",\"h\":[%ld,%ld,%ld],\"fin\":%ld,\"num\":%ld,\"nth\":%d}", H3(h), HFIN, HNUM, H->nth);
    return 0;
  }
  prob *A = H->A, *B = H->B;
  srand_(99); (void)randInt(0, 10);                                   /* the caller's own stream is somewhere else */
  cv_call(A, H->scheme, H->groups, H->iters, H->lab, H->nth, pred, NULL);
  /* the SAME matrix objects refilled with B's numbers (same addresses, same shape, other data), another shape fitted in between, output reused */
  for(int i = 0; i < B->n; i++){ for(int j = 0; j < B->p; j++) A->x->data[i][j] = B->x->data[i][j]; for(int j = 0; j < B->ny; j++) A->y->data[i][j] = B->y->data[i][j]; }
  cv_call(A, H->scheme, H->groups, H->iters, H->lab, H->nth, pred, NULL);                                                   /* the very next call: same objects, same arguments, other numbers */
  { uint64_t h0 = hash_matrix(pred); VRT_EMIT("{\"e\":\"Result\",\"h\":[%ld,%ld,%ld],\"forced\":0,\"addrs\":0,\"nth\":%d,\"rep\":1,\"libc\":%d,\"addrsame\":6,\"inplace\":1}", H3(h0), H->nth, nlibc); }
  { matrix *o; initMatrix(&o); cv_call(H->C, H->scheme, H->groups, H->iters, H->lab, H->nth, o, NULL); DelMatrix(&o); }
  cv_call(A, H->scheme, H->groups, H->iters, H->lab, H->nth, pred, NULL);
  { uint64_t h0 = hash_matrix(pred); VRT_EMIT("{\"e\":\"Result\",\"h\":[%ld,%ld,%ld],\"forced\":0,\"addrs\":0,\"nth\":%d,\"rep\":1,\"libc\":%d,\"addrsame\":6,\"inplace\":2}", H3(h0), H->nth, nlibc); }
  uintptr_t old[6] = {(uintptr_t)A->x, (uintptr_t)A->y, (uintptr_t)A->x->data, (uintptr_t)A->y->data, (uintptr_t)A->x->data[0], (uintptr_t)A->y->data[0]};   /* saved BEFORE the free */
  prob B2 = *B; int n = B->n, p = B->p, ny = B->ny;
  free_problem(A);
  NewMatrix(&B2.x, n, p); NewMatrix(&B2.y, n, ny);                    /* same shape as A: the allocator hands out the blocks A had */
  uintptr_t nw_[6] = {(uintptr_t)B2.x, (uintptr_t)B2.y, (uintptr_t)B2.x->data, (uintptr_t)B2.y->data, (uintptr_t)B2.x->data[0], (uintptr_t)B2.y->data[0]};
  int same = 0; for(int a = 0; a < 6; a++) for(int b = 0; b < 6; b++) if(nw_[a] == old[b]) same++;      /* how many blocks of B sit where a block of A was (measured, never assumed) */
  for(int i = 0; i < n; i++){ for(int j = 0; j < p; j++) B2.x->data[i][j] = B->x->data[i][j]; for(int j = 0; j < ny; j++) B2.y->data[i][j] = B->y->data[i][j]; }
  { matrix *o; initMatrix(&o); cv_call(H->C, H->scheme, H->groups, H->iters, H->lab, H->nth, o, NULL); DelMatrix(&o); }      /* another shape in between */
  cv_call(&B2, H->scheme, H->groups, H->iters, H->lab, H->nth, pred, NULL);                                                 /* into the output A filled */
  uint64_t h = hash_matrix(pred);
  VRT_EMIT("{\"e\":\"Result\",\"h\":[%ld,%ld,%ld],\"forced\":0,\"addrs\":0,\"nth\":%d,\"rep\":2,\"libc\":%d,\"addrsame\":%d}", H3(h), H->nth, nlibc, same);
  cv_call(&B2, H->scheme, H->groups, H->iters, H->lab, H->nth, pred, NULL);                                                 /* and once more, into its own previous result */
  h = hash_matrix(pred);
  VRT_EMIT("{\"e\":\"Result\",\"h\":[%ld,%ld,%ld],\"forced\":0,\"addrs\":0,\"nth\":%d,\"rep\":3,\"libc\":%d,\"addrsame\":%d}", H3(h), H->nth, nlibc, same);
  return 0;
}

/* ================= every other routine that draws (mode direct) ================= */
static uint64_t HACC;
static void hb(const void *p, size_t n){ const unsigned char *c = p; for(size_t i = 0; i < n; i++){ HACC ^= c[i]; HACC *= 1099511628211ULL; } }
static void hz(size_t v){ uint64_t u = v; hb(&u, 8); }
static void h_matrix(matrix *m){ if(!m){ hz(0xdead); return; } hz(m->row); hz(m->col); for(size_t i = 0; i < m->row; i++){ hb(m->data[i], 8 * m->col); for(size_t j = 0; j < m->col; j++){ HNUM++; if(vfinite(m->data[i][j])) HFIN++; } } }
static void h_dvector(dvector *v){ if(!v){ hz(0xdead); return; } hz(v->size); hb(v->data, 8 * v->size); for(size_t j = 0; j < v->size; j++){ HNUM++; if(vfinite(v->data[j])) HFIN++; } }
static void h_uivector(uivector *v){ if(!v){ hz(0xdead); return; } hz(v->size); for(size_t i = 0; i < v->size; i++) hz(v->data[i]); }
static void h_tensor(tensor *t){ if(!t){ hz(0xdead); return; } hz(t->order); for(size_t i = 0; i < t->order; i++) h_matrix(t->m[i]); }
static void h_epls(EPLSMODEL *m, matrix *x){
  hz(m->n_models); hz(m->nlv); hz(m->ny);
  for(size_t i = 0; i < m->n_models; i++){
    PLSMODEL *q = m->models[i];
    if(m->model_feature_ids) h_uivector(m->model_feature_ids[i]);
    h_matrix(q->xscores); h_matrix(q->xloadings); h_matrix(q->xweights); h_matrix(q->yscores); h_matrix(q->yloadings); h_dvector(q->b);
    h_dvector(q->xvarexp); h_dvector(q->xcolaverage); h_dvector(q->xcolscaling); h_dvector(q->ycolaverage); h_dvector(q->ycolscaling);
    h_matrix(q->recalculated_y); h_matrix(q->recalc_residuals); h_matrix(q->sdep); h_matrix(q->bias);
  }
  for(int rule = 0; rule < 2; rule++){ matrix *py; initMatrix(&py); EPLSYPRedictorAllLV(x, m, rule == 0 ? Averaging : Median, NULL, &py); h_matrix(py); DelMatrix(&py); }
}

enum { R_EBAG = 0, R_ERSM, R_EBRSM, R_KM0, R_KM1, R_KMPP, R_KMCV0, R_KMCV1, R_KMJUMP, R_PCARANK, R_UPLSCV, R_UPLSYS, R_SUS, R_ROUL, R_TTS, R_KFG, R_MIRI, R_MIRF, NROUT };
static const char *RNAME[NROUT] = {"EPLS-bagging", "EPLS-subspace", "EPLS-bagging-subspace", "KMeans-random", "KMeans-pp", "KMeansppCenters", "KMeansRandomGroupsCV-random",
  "KMeansRandomGroupsCV-pp", "KMeansJumpMethod", "PCARankValidation", "UPLSRandomGroupsCV", "UPLSYScrambling", "StochasticUniversalSample", "RouletteWheelselection",
  "train_test_split", "random_kfold_group_generator", "MatrixInitRandomInt", "MatrixInitRandomFloat"};
/* does the routine seed the generator itself (from its inputs / an explicit seed argument)?  the others draw from the stream the CALLER seeded */
static const int SELFSEED[NROUT] = {1, 0, 0, 0, 0, 0, 1, 1, 0, 1, 1, 1, 1, 1, 1, 1, 1, 1};
static int BROKEN_PROBE = 0;
static int SELFSEED_OVERRIDE = 0;   /* mode unseeded: call the caller-seeded routines without seeding */
static const int HASNTH[NROUT]   = {0, 0, 0, 1, 1, 1, 1, 1, 1, 0, 0, 0, 0, 0, 0, 0, 0, 0};
static const int CLOCKSEED[NROUT] = {0, 0, 0, 0, 0, 0, 0, 0, 0, 0, 0, 0, 0, 0, 0, 0, 1, 1};
typedef struct { int r; uint32_t seed; int n, p, ny, k, groups, iters; prob P; tensor *tx, *ty; dvector *fit; } dcase;

static void gen_dcase(dcase *C, vrng *R, int r, int t){
  memset(C, 0, sizeof(*C)); C->r = r; C->seed = 1000 + (uint32_t)vr_int(R, 0, 1000000);
  if(r <= R_EBRSM){ gen_problem(&C->P, R, A_EBAG + r, 10 + t % 5, 4 + t % 2, 1 + t % 2, 2); set_eparm(&C->P, 3 + t % 2, 0.7, 2 + t % 2); C->n = C->P.n; C->p = C->P.p; C->ny = C->P.ny; return; }
  C->n = 12 + (int)vr_int(R, 0, 12); C->p = 2 + t % 2; C->ny = 1 + t % 2; C->k = 2 + t % 3; C->groups = 2 + t % 3; C->iters = 2 + t % 2;
  if(r == R_PCARANK){ C->p = 3; C->k = 2; }
  if(r == R_UPLSCV || r == R_UPLSYS){
    C->n = 8 + t % 3; C->p = 2; C->ny = 2; C->k = 1; C->groups = 2 + t % 2; C->iters = 2;   /* ny = order: UPLSYPredictor indexes the y columns by the order count (upls.c:737) */
    NewTensor(&C->tx, 2); NewTensor(&C->ty, 2);
    for(int o = 0; o < 2; o++){ NewTensorMatrix(C->tx, o, C->n, C->p); NewTensorMatrix(C->ty, o, C->n, C->ny);
      for(int i = 0; i < C->n; i++){ double sacc = 0; for(int j = 0; j < C->p; j++){ C->tx->m[o]->data[i][j] = vr_norm(R) * (1 + j) + o; sacc += C->tx->m[o]->data[i][j] * (j + 1); } C->ty->m[o]->data[i][0] = sacc + 0.3 * vr_norm(R); C->ty->m[o]->data[i][1] = 0.5 * sacc + 0.3 * vr_norm(R); } }
    return;
  }
  if(r == R_SUS || r == R_ROUL){ NewDVector(&C->fit, 6 + t % 5); for(size_t i = 0; i < C->fit->size; i++) C->fit->data[i] = 0.05 + vr_unif(R); C->k = 3 + t % 3; return; }
  /* matrix problems: clustered points for the clustering routines, regression style otherwise */
  gen_problem(&C->P, R, A_MLR, C->n, C->p, C->ny, 1);
  if(r >= R_KM0 && r <= R_KMJUMP) for(int i = 0; i < C->n; i++) for(int j = 0; j < C->p; j++) C->P.x->data[i][j] = vr_norm(R) + 6.0 * ((i + j) % C->k);
}
static void free_dcase(dcase *C){ if(C->P.x) free_problem(&C->P); if(C->tx){ DelTensor(&C->tx); DelTensor(&C->ty); } if(C->fit) DelDVector(&C->fit); }

static double LASTV[64]; static int NLASTV = 0;      /* the numeric output of the last PCARankValidation run (for "equal to rounding across processor counts") */
/* one execution; returns the hash of EVERY output.  Caller-seeded routines are preceded by srand_(seed), as the statement's "after seeding" requires. */
static uint64_t run_routine(dcase *C, int nth){
  HACC = 1469598103934665603ULL; hz(C->r);
  if(!SELFSEED[C->r] && !SELFSEED_OVERRIDE) srand_(C->seed);
  switch(C->r){
    case R_EBAG: case R_ERSM: case R_EBRSM: {
      EPLSMODEL *m; NewEPLSModel(&m); EPLS(C->P.x, C->P.y, C->P.nlv, 1, 0, m, C->P.ep, NULL); h_epls(m, C->P.x); DelEPLSModel(&m); break; }
    case R_KM0: case R_KM1: {
      uivector *lab; matrix *cen; initUIVector(&lab); initMatrix(&cen); KMeans(C->P.x, C->k, C->r == R_KM0 ? 0 : 1, lab, cen, nth); h_uivector(lab); h_matrix(cen); DelUIVector(&lab); DelMatrix(&cen); break; }
    case R_KMPP: { uivector *sel; initUIVector(&sel); KMeansppCenters(C->P.x, C->k, sel, nth); h_uivector(sel); DelUIVector(&sel); break; }
    case R_KMCV0: case R_KMCV1: { dvector *ss; initDVector(&ss); KMeansRandomGroupsCV(C->P.x, C->k, C->r == R_KMCV0 ? 0 : 1, C->groups, C->iters, ss, nth); h_dvector(ss); DelDVector(&ss); break; }
    case R_KMJUMP: { dvector *j; initDVector(&j); KMeansJumpMethod(C->P.x, C->k, 0, j, nth); h_dvector(j); DelDVector(&j); break; }
    case R_PCARANK: { dvector *r2; initDVector(&r2); PCARankValidation(C->P.x, C->k, 1, C->groups, C->iters, r2, NULL); h_dvector(r2);
      NLASTV = 0; for(size_t i = 0; i < r2->size && i < 64; i++) LASTV[NLASTV++] = r2->data[i]; DelDVector(&r2); break; }
    case R_UPLSCV: {
      dvector *r2x; tensor *q2y, *sdep, *py, *pr; initDVector(&r2x); initTensor(&q2y); initTensor(&sdep); initTensor(&py); initTensor(&pr);
      UPLSRandomGroupsCV(C->tx, C->ty, 1, 0, C->k, C->groups, C->iters, &r2x, &q2y, &sdep, &py, &pr, NULL);
      h_dvector(r2x); h_tensor(q2y); h_tensor(sdep); h_tensor(py); h_tensor(pr); DelDVector(&r2x); DelTensor(&q2y); DelTensor(&sdep); DelTensor(&py); DelTensor(&pr); break; }
    case R_UPLSYS: {
      tensor *q2y, *sdep; initTensor(&q2y); initTensor(&sdep);
      /* valtype 0 (leave-one-out inside): the only mode that can run - with valtype 1 the routine hands r2x = NULL to UPLSRandomGroupsCV, which dereferences it (upls.c:1448); see child_broken */
      UPLSYScrambling(C->tx, C->ty, 1, 0, C->k, 2, BROKEN_PROBE ? 1 : 0, C->groups, C->iters, &q2y, &sdep, NULL);
      h_tensor(q2y); h_tensor(sdep); DelTensor(&q2y); DelTensor(&sdep); break; }
    case R_SUS: { uivector *sel; initUIVector(&sel); StochasticUniversalSample(C->fit, C->k, C->seed, sel); h_uivector(sel); DelUIVector(&sel); break; }
    case R_ROUL: { uivector *sel; initUIVector(&sel); RouletteWheelselection(C->fit, C->k, C->seed, sel); h_uivector(sel); DelUIVector(&sel); break; }
    case R_TTS: {
      matrix *a, *b, *c, *d; uivector *ids; initMatrix(&a); initMatrix(&b); initMatrix(&c); initMatrix(&d); initUIVector(&ids); unsigned int sd = C->seed;
      train_test_split(C->P.x, C->P.y, 0.3, a, b, c, d, ids, &sd); h_matrix(a); h_matrix(b); h_matrix(c); h_matrix(d); h_uivector(ids); hz(sd);
      DelMatrix(&a); DelMatrix(&b); DelMatrix(&c); DelMatrix(&d); DelUIVector(&ids); break; }
    case R_KFG: { matrix *gid; initMatrix(&gid); unsigned int sd = C->seed; random_kfold_group_generator(gid, C->groups, C->n, &sd); h_matrix(gid); hz(sd); DelMatrix(&gid); break; }
    case R_MIRI: { matrix *m; NewMatrix(&m, 4, 3); MatrixInitRandomInt(m, 0, 1000); h_matrix(m); DelMatrix(&m); break; }
    case R_MIRF: { matrix *m; NewMatrix(&m, 4, 3); MatrixInitRandomFloat(m, -1.0, 1.0); h_matrix(m); DelMatrix(&m); break; }
  }
  return HACC;
}
typedef struct { dcase *C; int nth; uint64_t h; } fresh_arg;
static void *fresh_main(void *a_){ fresh_arg *F = a_; F->h = run_routine(F->C, F->nth); return NULL; }
static void quiet_begin(int *so){ fflush(stdout); *so = dup(1); int dn = open("/dev/null", 1); dup2(dn, 1); close(dn); }
static void quiet_end(int so){ fflush(stdout); dup2(so, 1); close(so); }

static int child_direct(void *a_){
  dcase *C = a_; int r = C->r, so;
  vrt_force_nproc(1); vrt_install_iter_budget(200000, 0);
  quiet_begin(&so);
  fake_clock_on = 1; fake_clock_val = 1700000000;
  VRT_EMIT("{\"e\":\"Run\",\"mode\":\"direct\",\"algo\":\"%s\",\"n\":%d,\"p\":%d,\"ny\":%d,\"nlv\":%d,\"groups\":%d,\"nw\":%d,\"k\":%d,\"word\":[],\"co\":1,\"ts\":%d,\"selfseed\":%d}",
           RNAME[r], C->n, C->p, C->ny, C->k, C->groups, C->iters, C->k, CLOCKSEED[r], SELFSEED[r]);
  int maxth = HASNTH[r] ? 8 : 1, nrec = 0;
  uint64_t h1 = 0;
  for(int nth = 1; nth <= maxth; nth++){
    for(int rep = 0; rep < 2; rep++){
      int record = (nth == 1 && rep == 0) || (nth == maxth && rep == 1) || (nth == 3 && rep == 0);
      /* a later run sees a later clock - unless a clock seed is the routine's contract (then: same clock, same result) */
      if(!CLOCKSEED[r]) fake_clock_val += 7;
      /* leave the calling thread's own stream in a different state before every repetition: a routine that seeds itself, or is seeded by its caller right before the call, must not depend on it */
      if(rep == 1){ srand_(31337 + nth); for(int i = 0; i < nth + 2; i++) (void)randInt(0, 1000); }
      if(record){ if(nrec++) VRT_EMIT("{\"e\":\"Clear\"}"); rec_start(0); } else recorder_reset();
      uint64_t h = run_routine(C, nth);
      rec_stop();
      if(nth == 1 && rep == 0){ h1 = h; VRT_EMIT("{\"e\":\"Seq\",\"h\":[%ld,%ld,%ld],\"fin\":%ld,\"num\":%ld}", H3(h1), HFIN, HNUM); emit_events(); }
      else { if(record) emit_events(); VRT_EMIT("{\"e\":\"Result\",\"h\":[%ld,%ld,%ld],\"forced\":0,\"addrs\":%d,\"nth\":%d,\"rep\":%d,\"fresh\":0}", H3(h), record ? naddr : 0, nth, rep); }
    }
  }
  /* the same call on a thread that never touched the generator before */
  { if(!CLOCKSEED[r]) fake_clock_val += 7;
    fresh_arg F = {C, maxth, 0}; pthread_t th; pthread_create(&th, NULL, fresh_main, &F); pthread_join(th, NULL);
    VRT_EMIT("{\"e\":\"Result\",\"h\":[%ld,%ld,%ld],\"forced\":0,\"addrs\":0,\"nth\":%d,\"rep\":0,\"fresh\":1}", H3(F.h), maxth); }
  /* K6: the only drawing routine that reaches the MT_* kernels (through PCA) - inner processor counts 2, 3 and 5 (more slices than columns) */
  if(r == R_PCARANK){
    double refv[64]; int nref; vrt_force_nproc(1); (void)run_routine(C, 1); nref = NLASTV; memcpy(refv, LASTV, sizeof(refv));
    for(int np = 0; np < 3; np++){
      int nproc = (int[]){2, 3, 5}[np];
      vrt_force_nproc((size_t)nproc); fake_clock_val += 7;
      uint64_t h = run_routine(C, 1);
      double mx = 0, d = 0; long dq = 0;
      if(NLASTV != nref) dq = VQ_MAX; else { for(int i = 0; i < nref; i++){ if(!vfinite(refv[i]) || !vfinite(LASTV[i])){ if(memcmp(&refv[i], &LASTV[i], 8)) dq = VQ_MAX; continue; } if(fabs(refv[i]) > mx) mx = fabs(refv[i]); if(fabs(refv[i] - LASTV[i]) > d) d = fabs(refv[i] - LASTV[i]); }
        if(dq == 0 && d > 0) dq = mx > 0 ? vq_unit(d / mx, 1e-12) : VQ_MAX; }
      /* nth = the number of threads the configuration computes with (here: the forced processor count) */
      VRT_EMIT("{\"e\":\"Result\",\"h\":[%ld,%ld,%ld],\"forced\":0,\"addrs\":0,\"nth\":%d,\"rep\":0,\"fresh\":0,\"nproc\":%d,\"dq\":%ld}", H3(h), nproc, nproc, dq);
      vrt_force_nproc(1);
    }
  }
  VRT_EMIT("{\"e\":\"End\"}");
  quiet_end(so);
  return 0;
}
static int child_broken(void *a_){ dcase *C = a_; int so; vrt_force_nproc(1); vrt_install_iter_budget(200000, 0); quiet_begin(&so); BROKEN_PROBE = 1; (void)run_routine(C, 1); quiet_end(so); return 0; }
/* observation outside the statement: caller-seeded routines called WITHOUT seeding (fresh thread: the word is 0 -> the library takes the wall clock) */
static int child_unseeded(void *a_){
  dcase *C = a_; int so; vrt_force_nproc(1); vrt_install_iter_budget(200000, 0); quiet_begin(&so);
  fake_clock_on = 1; fake_clock_val = 1700000000;
  VRT_EMIT("{\"e\":\"Run\",\"mode\":\"unseeded\",\"algo\":\"%s\",\"n\":%d,\"p\":%d,\"ny\":%d,\"nlv\":%d,\"groups\":%d,\"nw\":%d,\"k\":%d,\"word\":[],\"co\":0,\"ts\":0}", RNAME[C->r], C->n, C->p, C->ny, C->k, C->groups, C->iters, C->k);
  uint64_t h[2];
  for(int rep = 0; rep < 2; rep++){
    fake_clock_val += 7;
    dcase D = *C; D.r = C->r; fresh_arg F = {&D, 1, 0};
    /* run_routine seeds caller-seeded routines; here we want the unseeded call: mark as self-seeding for this run */
    if(rep == 0) rec_start(0); else recorder_reset();
    pthread_t th; pthread_create(&th, NULL, fresh_main, &F); pthread_join(th, NULL);
    rec_stop(); h[rep] = F.h;
    if(rep == 0){ VRT_EMIT("{\"e\":\"Seq\",\"h\":[%ld,%ld,%ld],\"fin\":%ld,\"num\":%ld}", H3(h[0]), HFIN, HNUM); emit_events(); }
    else VRT_EMIT("{\"e\":\"Result\",\"h\":[%ld,%ld,%ld],\"forced\":0,\"addrs\":0,\"nth\":1,\"rep\":1,\"fresh\":1}", H3(h[1]));
  }
  VRT_EMIT("{\"e\":\"End\"}"); quiet_end(so); return 0;
}

/* ================= EPLS as the learner of the three CV schemes, thread counts 1..8 (mode eplscv) ================= */
typedef struct { prob *P; int scheme, groups, iters; int lab[64]; } ecarg;
static uint64_t run_eplscv(ecarg *A, int nth){
  prob *P = A->P; matrix *pred, *res; initMatrix(&pred); initMatrix(&res);
  MODELINPUT in = initModelInput(); in.mx = P->x; in.my = P->y; in.nlv = P->nlv; in.xautoscaling = 1; in.yautoscaling = 0;
  if(A->scheme == 0) BootstrapRandomGroupsCV(&in, A->groups, A->iters, _EPLS_, pred, res, nth, NULL, 2, P->ep, Averaging);
  else if(A->scheme == 1) LeaveOneOut(&in, _EPLS_, pred, res, nth, NULL, 2, P->ep, Averaging);
  else { uivector *g; NewUIVector(&g, P->n); for(int i = 0; i < P->n; i++) g->data[i] = A->lab[i]; KFoldCV(&in, g, _EPLS_, pred, res, nth, NULL, 2, P->ep, Averaging); DelUIVector(&g); }
  HACC = 1469598103934665603ULL; h_matrix(pred); h_matrix(res); DelMatrix(&pred); DelMatrix(&res);
  return HACC;
}
static int child_eplscv(void *a_){
  ecarg *A = a_; prob *P = A->P; int so;
  vrt_force_nproc(1); vrt_install_iter_budget(200000, 0); quiet_begin(&so);
  fake_clock_on = 1; fake_clock_val = 1700000000;
  static const char *SN[3] = {"boot", "loo", "kfold"};
  VRT_EMIT("{\"e\":\"Run\",\"mode\":\"eplscv:%s\",\"algo\":\"%s\",\"n\":%d,\"p\":%d,\"ny\":%d,\"nlv\":%d,\"groups\":%d,\"nw\":%d,\"k\":0,\"word\":[],\"co\":0,\"ts\":0}", SN[A->scheme], ANAME[P->algo], P->n, P->p, P->ny, P->nlv, A->groups, A->iters);
  uint64_t h1 = 0; int nrec = 0;
  for(int nth = 1; nth <= 8; nth++){
    if(A->scheme == 0 && A->iters % nth) continue;      /* bootstrap claim: counts dividing the iteration count */
    for(int rep = 0; rep < (nth == 1 ? 1 : 2); rep++){
      int record = (nth == 1) || (nth == 2 && rep == 0) || (nth == 4 && rep == 1);
      fake_clock_val += 7;
      if(rep == 1){ srand_(31337 + nth); (void)randInt(0, 1000); }
      if(record){ if(nrec++) VRT_EMIT("{\"e\":\"Clear\"}"); rec_start(0); } else recorder_reset();
      uint64_t h = run_eplscv(A, nth);
      rec_stop();
      if(nth == 1){ h1 = h; VRT_EMIT("{\"e\":\"Seq\",\"h\":[%ld,%ld,%ld],\"fin\":%ld,\"num\":%ld}", H3(h1), HFIN, HNUM); emit_events(); }
      else { if(record) emit_events(); VRT_EMIT("{\"e\":\"Result\",\"h\":[%ld,%ld,%ld],\"forced\":0,\"addrs\":%d,\"nth\":%d,\"rep\":%d}", H3(h), record ? naddr : 0, nth, rep); }
    }
  }
  VRT_EMIT("{\"e\":\"End\"}"); quiet_end(so);
  return 0;
}

/* ================= directly called routines next to a disturber thread, forced schedule words (mode dsched) ================= */
typedef struct { dcase *C; int *word; int wl; int k; } dsarg;
static int child_dsched(void *a_){
  dsarg *A = a_; dcase *C = A->C; int r = C->r, so;
  vrt_force_nproc(1); vrt_install_iter_budget(200000, 0);
  quiet_begin(&so);
  fake_clock_on = 1; fake_clock_val = 1700000000;
  int nth = HASNTH[r] ? 2 : 1;
  { static char buf[4096]; int p = 0; p += snprintf(buf, sizeof(buf), "{\"e\":\"Run\",\"mode\":\"dsched\",\"algo\":\"%s\",\"n\":%d,\"p\":%d,\"ny\":%d,\"nlv\":%d,\"groups\":%d,\"nw\":2,\"k\":%d,\"co\":0,\"ts\":%d,\"dist\":1,\"lock\":%d,\"gate\":%d,\"cls\":[\"K6:disturber-forced-direct\"],\"word\":[",
      RNAME[r], C->n, C->p, C->ny, C->k, C->groups, A->k, CLOCKSEED[r], LOCKMASK, !gate_broken && LOCKMASK != 31);
    for(int i = 0; i < A->wl; i++) p += snprintf(buf + p, sizeof(buf) - p, "%s%d", i ? "," : "", A->word[i]); snprintf(buf + p, sizeof(buf) - p, "]}"); VRT_EMIT("%s", buf); }
  LIB_BEGIN(); uint64_t h1 = run_routine(C, nth); LIB_END();         /* reference: alone, on the calling thread */
  VRT_EMIT("{\"e\":\"Seq\",\"h\":[%ld,%ld,%ld],\"fin\":%ld,\"num\":%ld}", H3(h1), HFIN, HNUM);
  if(!CLOCKSEED[r]) fake_clock_val += 7;
  rec_start(1); NWK = 2; Q = A->wl / 2; slen = A->wl; for(int i = 0; i < slen; i++) sched[i] = A->word[i];
  volatile int dstop = 0; darg D = {C->seed, A->k, 600, &dstop}; pthread_t dth, rth;     /* the disturber passes the very seed the routine is seeded with */
  fresh_arg F = {C, nth, 0};
  LIB_BEGIN();
  pthread_create(&rth, NULL, fresh_main, &F); pthread_create(&dth, NULL, disturber_main, &D);
  pthread_join(rth, NULL); LIB_END(); int nl = nlibc; dstop = 1; pthread_join(dth, NULL);
  rec_stop();
  if(stuck) VRT_EMIT("{\"e\":\"Stuck\",\"pos\":%d}", pos);
  emit_events();
  VRT_EMIT("{\"e\":\"Result\",\"h\":[%ld,%ld,%ld],\"forced\":%d,\"addrs\":%d,\"skipped\":%d,\"nth\":%d,\"rep\":0,\"fresh\":1,\"libc\":%d}", H3(F.h), pos, naddr, unforced, nth, nl);
  VRT_EMIT("{\"e\":\"End\"}");
  quiet_end(so);
  return stuck ? 3 : 0;
}

/* ================= stratified input / history classes (mode classes) ================= */
typedef struct { int algo, scheme, n, p, ny, nlv, groups, iters, G, variant, nproc, resid, reuse, between, conc, creates, ldak, labstyle; const char *cls; } ccase;
static const ccase CTAB[] = {
  /* algo   scheme n   p   ny nlv groups iters G  variant     nproc resid reuse betw conc creates ldak style  classes */
  { A_PLS, 0,    12, 3,  2, 2,  3,     5,    0, V_NONE,     1,    0,    0,    0,   0,   1,      0,   0, "\"K6:threads-5\",\"K1:ny>1\"" },
  { A_MLR, 0,    14, 2,  1, 0,  4,     7,    0, V_NONE,     1,    0,    0,    0,   0,   1,      0,   0, "\"K6:threads-7\",\"K1:ny=1\"" },
  { A_LDA, 0,    18, 2,  1, 0,  3,     10,   0, V_NONE,     1,    0,    0,    0,   0,   1,      3,   1, "\"K6:threads-5\",\"K10:lda-3-classes-unsorted\"" },
  { A_PLS, 0,    8,  12, 1, 3,  4,     6,    0, V_NONE,     1,    1,    0,    0,   0,   0,      0,   0, "\"K1:wide\",\"K1:residual-output\",\"K6:threads-3-6\"" },
  { A_PLS, 1,    7,  10, 2, 2,  0,     0,    0, V_NONE,     2,    0,    0,    0,   0,   0,      0,   0, "\"K1:wide\",\"K6:nproc2\",\"K2:loo-slices\"" },
  { A_MLR, 1,    16, 1,  3, 0,  0,     0,    0, V_NONE,     1,    1,    1,    0,   0,   0,      0,   0, "\"K1:single-column\",\"K1:ny>1\",\"K7:reused-output\",\"K2:loo-n=2*8\"" },
  { A_LDA, 1,    15, 3,  1, 0,  0,     0,    0, V_NONE,     1,    0,    0,    0,   0,   0,      2,   2, "\"K10:lda-1-based\",\"K2:loo-n=2*8-1\"" },
  { A_PLS, 2,    17, 4,  1, 4,  0,     0,    8, V_NONE,     1,    0,    0,    1,   0,   0,      0,   0, "\"K1:nlv=rank\",\"K2:kfold-8-groups\",\"K7:other-fit-between\"" },
  { A_MLR, 2,    20, 2,  2, 0,  0,     0,    9, V_NONE,     3,    0,    0,    0,   0,   0,      0,   0, "\"K2:kfold-9-groups\",\"K6:nproc3\"" },
  { A_PLS, 0,    16, 3,  1, 1,  2,     8,    0, V_OFFSET,   1,    0,    0,    0,   1,   0,      0,   0, "\"K3:offset-1e6\",\"K6:concurrent-disturber\",\"K1:nlv=1\",\"K6:threads-8\"" },
  { A_MLR, 0,    12, 2,  1, 0,  3,     12,   0, V_BIG,      1,    0,    1,    0,   0,   0,      0,   0, "\"K4:scale-1e6\",\"K7:reused-output\",\"K6:threads-3-4-6\"" },
  { A_PLS, 1,    9,  2,  1, 2,  0,     0,    0, V_SMALL,    5,    0,    0,    0,   0,   0,      0,   0, "\"K4:scale-1e-6\",\"K6:nproc5>cols\"" },
  { A_PLS, 2,    12, 3,  2, 2,  0,     0,    4, V_TIES,     1,    1,    0,    0,   0,   0,      0,   0, "\"K5:ties-0.1\",\"K1:residual-output\",\"K2:kfold-4-groups\"" },
  { A_PLS, 0,    13, 3,  1, 2,  5,     4,    0, V_DUPROWS,  1,    0,    0,    1,   1,   0,      0,   0, "\"K8:duplicate-rows\",\"K7:other-fit-between\",\"K6:concurrent-disturber\"" },
  { A_PLS, 1,    10, 3,  1, 2,  0,     0,    0, V_CONSTCOL, 1,    0,    0,    0,   0,   0,      0,   0, "\"K8:constant-column\"" },
  { A_LDA, 0,    20, 3,  1, 0,  4,     6,    0, V_NONE,     2,    0,    1,    0,   1,   0,      2,   0, "\"K6:nproc2\",\"K7:reused-output\",\"K6:concurrent-disturber\"" },
  { A_MLR, 1,    6,  1,  1, 0,  0,     0,    0, V_NONE,     1,    0,    0,    0,   0,   0,      0,   0, "\"K6:threads>items\"" },
  { A_PLS, 0,    32, 4,  2, 3,  4,     16,   0, V_NONE,     2,    1,    0,    0,   0,   1,      0,   0, "\"K2:n=32\",\"K6:nproc2\",\"K6:threads-8\",\"K1:residual-output\"" },
  { A_LDA, 1,    16, 2,  1, 0,  0,     0,    0, V_NONE,     3,    0,    0,    1,   0,   0,      3,   1, "\"K10:lda-3-classes-unsorted\",\"K6:nproc3\",\"K7:other-fit-between\"" },
  { A_MLR, 0,    33, 3,  2, 0,  8,     14,   0, V_OFFSET,   1,    1,    0,    0,   0,   1,      0,   0, "\"K3:offset-1e6\",\"K2:n=33\",\"K6:threads-7\",\"K1:residual-output\"" },
  { A_MLR, 2,    15, 2,  1, 0,  0,     0,    3, V_DUPROWS,  1,    1,    1,    0,   1,   0,      0,   0, "\"K8:duplicate-rows\",\"K7:reused-output\",\"K6:concurrent-disturber\",\"K6:threads>items\"" },
  /* big enough that the group generation phases of concurrently started workers always overlap under natural scheduling (no gate involved) */
  { A_MLR, 0,    300, 2, 1, 0,  3,     8,    0, V_NONE,     1,    0,    0,    0,   0,   1,      0,   0, "\"K2:n=300\",\"K6:overlapping-generation\",\"K6:threads-8\"" },
  { A_PLS, 0,    300, 3, 2, 2,  4,     6,    0, V_NONE,     1,    1,    0,    0,   0,   0,      0,   0, "\"K2:n=300\",\"K6:overlapping-generation\",\"K6:threads-3-6\",\"K1:residual-output\"" },
  { A_LDA, 0,    300, 2, 1, 0,  5,     4,    0, V_NONE,     1,    0,    0,    0,   0,   0,      2,   0, "\"K2:n=300\",\"K6:overlapping-generation\"" },
};
#define NCTAB ((int)(sizeof(CTAB) / sizeof(CTAB[0])))

/* ================= y-scrambling across ALL requested thread counts 1..8, both validation types (mode yscount) ================= */
typedef struct { prob *P; int loo; int iters; } ycarg;
static int child_yscount(void *a_){
  ycarg *A = a_; prob *P = A->P; int so;
  vrt_force_nproc(1); vrt_install_iter_budget(200000, 0);
  MODELINPUT in = initModelInput(); in.mx = P->x; in.my = P->y; in.nlv = P->algo == A_PLS ? P->nlv : 0; in.xautoscaling = 1; in.yautoscaling = 0;
  ValidationArg va = initValidationArg(); va.vtype = A->loo ? LOO : BootstrapRGCV;
  /* nw = the number of terms the validation inside merges per object (the pipelines' bootstrap runs 100 iterations; LOO assigns) */
  VRT_EMIT("{\"e\":\"Run\",\"mode\":\"yscount:%s\",\"algo\":\"%s\",\"n\":%d,\"p\":%d,\"ny\":%d,\"nlv\":%d,\"groups\":3,\"nw\":%d,\"k\":0,\"word\":[],\"cls\":[\"K6:yscrambling-threads-1..8\"]}",
           A->loo ? "loo" : "boot", ANAME[P->algo], P->n, P->p, P->ny, P->nlv, A->loo ? 1 : 100);
  matrix *ref = NULL; uint64_t h1 = 0;
  quiet_begin(&so);
  for(int nth = 1; nth <= 8; nth++){
    for(int rep = 0; rep < (nth == 3 ? 2 : 1); rep++){
      matrix *cc; initMatrix(&cc);
      srand_(777 + nth);                                                     /* the caller's own stream is somewhere else every time */
      LIB_BEGIN(); YScrambling(&in, ATYPE[P->algo], va, A->iters, cc, nth, NULL); LIB_END();
      int nl = nlibc; uint64_t h = hash_matrix(cc);
      if(nth == 1){ h1 = h; initMatrix(&ref); MatrixCopy(cc, &ref); VRT_EMIT("{\"e\":\"Seq\",\"h\":[%ld,%ld,%ld],\"fin\":%ld,\"num\":%ld,\"nth\":1}", H3(h1), HFIN, HNUM); }
      else VRT_EMIT("{\"e\":\"Result\",\"h\":[%ld,%ld,%ld],\"forced\":0,\"addrs\":0,\"nth\":%d,\"rep\":%d,\"dq\":%ld,\"libc\":%d}", H3(h), nth, rep, rel_diff(ref, cc), nl);
      DelMatrix(&cc);
    }
  }
  quiet_end(so);
  VRT_EMIT("{\"e\":\"End\"}");
  return 0;
}

/* ================= two application threads using the generator, interleaved at CALL boundaries by the harness (mode calls) =================
   No thread is ever parked inside the library: this choreography can be forced on any implementation, also one that serialises its generator
   calls with a lock.  Program of a thread: srand_(seed), then K draws (randInt / randDouble / rand_ in turn). */
typedef struct { int id; uint32_t seed; int k; double out[16]; } callprog;
static int CW[64], cwl = 0, cpos = 0; static pthread_mutex_t cmu = PTHREAD_MUTEX_INITIALIZER; static pthread_cond_t ccv = PTHREAD_COND_INITIALIZER;
static void call_turn(int id){ pthread_mutex_lock(&cmu); while(cwl && cpos < cwl && CW[cpos] != id) pthread_cond_wait(&ccv, &cmu); pthread_mutex_unlock(&cmu); }
static void call_done(void){ pthread_mutex_lock(&cmu); cpos++; pthread_cond_broadcast(&ccv); pthread_mutex_unlock(&cmu); }
static void *callprog_main(void *a_){
  callprog *C = a_;
  call_turn(C->id); srand_(C->seed); call_done();
  for(int i = 0; i < C->k; i++){ call_turn(C->id); C->out[i] = i % 3 == 0 ? (double)randInt(0, 1000000) : i % 3 == 1 ? randDouble(0.0, 1.0) : rand_(); call_done(); }
  return NULL;
}
typedef struct { int *word; int wl; int k; uint32_t seed; } clarg;
static uint64_t hash_calls(callprog *a, callprog *b){ HACC = 1469598103934665603ULL; hb(a->out, 8 * a->k); hb(b->out, 8 * b->k); HNUM += a->k + b->k; HFIN += a->k + b->k; return HACC; }
static int child_calls(void *a_){
  clarg *A = a_;
  /* project the word onto calls: a call is ordered by the position of its first letter (seed store; read half of a draw) */
  int q = A->wl / 2, seen[3] = {0, 0, 0}; cwl = 0;
  for(int i = 0; i < A->wl; i++){ int L = A->word[i]; if(L < 1 || L > 2) continue; int st = seen[L]++; if(st == 0 || (st % 2 == 1 && st < q)) CW[cwl++] = L; }
  { static char buf[1024]; int p = 0; p += snprintf(buf, sizeof(buf), "{\"e\":\"Run\",\"mode\":\"calls\",\"algo\":\"srand_+draws\",\"n\":0,\"p\":0,\"ny\":0,\"nlv\":0,\"groups\":0,\"nw\":2,\"k\":%d,\"co\":0,\"ts\":0,\"dist\":1,\"cls\":[\"K6:call-level-interleaving\"],\"word\":[", A->k);
    for(int i = 0; i < cwl; i++) p += snprintf(buf + p, sizeof(buf) - p, "%s%d", i ? "," : "", CW[i]); snprintf(buf + p, sizeof(buf) - p, "]}"); VRT_EMIT("%s", buf); }
  callprog P1 = {1, A->seed, A->k, {0}}, P2 = {2, A->seed + 1, A->k, {0}}, R1 = P1, R2 = P2; pthread_t t1, t2;
  int saved = cwl; cwl = 0;                                                  /* reference: each program alone, one after the other */
  pthread_create(&t1, NULL, callprog_main, &R1); pthread_join(t1, NULL); pthread_create(&t2, NULL, callprog_main, &R2); pthread_join(t2, NULL);
  uint64_t h1 = hash_calls(&R1, &R2);
  VRT_EMIT("{\"e\":\"Seq\",\"h\":[%ld,%ld,%ld],\"fin\":%ld,\"num\":%ld}", H3(h1), HFIN, HNUM);
  cwl = saved; cpos = 0;
  rec_start(0);
  LIB_BEGIN(); pthread_create(&t1, NULL, callprog_main, &P1); pthread_create(&t2, NULL, callprog_main, &P2); pthread_join(t1, NULL); pthread_join(t2, NULL); LIB_END();
  rec_stop();
  emit_events();
  VRT_EMIT("{\"e\":\"Result\",\"h\":[%ld,%ld,%ld],\"forced\":%d,\"addrs\":%d,\"skipped\":0,\"nth\":2,\"rep\":0,\"libc\":%d}", H3(hash_calls(&P1, &P2)), cpos, naddr, nlibc);
  VRT_EMIT("{\"e\":\"End\"}");
  return 0;
}

static void crash(int rc, const char *mode, prob *P){ VRT_EMIT("{\"e\":\"Crash\",\"rc\":%d,\"mode\":\"%s\",\"algo\":\"%s\",\"n\":%d}", rc, mode, ANAME[P->algo], P->n); }

int main(int argc, char **argv){
  if(argc < 5){ fprintf(stderr, "usage\n"); return 2; }
  vrt_open(argv[1]);
  EV = malloc(sizeof(rev) * MAXEV);
  const char *mode = argv[2]; long seed = atol(argv[3]);
  vrng R = { (uint64_t)seed * 0x9E3779B97F4A7C15ULL + 777 };
  int infra = 0;
  if(!strcmp(mode, "sched")){
    FILE *f = fopen(argv[4], "r"); if(!f){ perror("sched"); return 2; }
    int nw = atoi(argv[5]), k = atoi(argv[6]); char line[4096]; int t = 0;
    LOCKMASK = lock_probe();
    while(fgets(line, sizeof(line), f)){
      int word[256], wl = 0; char *tok = strtok(line, " \n"); while(tok && wl < 256){ word[wl++] = atoi(tok); tok = strtok(NULL, " \n"); }
      if(wl == 0) continue;
      int eplsset = argc > 7 && atoi(argv[7]) == 1, dist = argc > 7 && atoi(argv[7]) == 2;
      int algo = t % 3 + (eplsset ? 3 : 0); t++;
      prob P;
      if(eplsset){ gen_problem(&P, &R, algo, 9 + (t / 3) % 2, 4, 1, 1); set_eparm(&P, 4, 0.7, 3); }   /* small (but large enough for finite ensemble weights): the group generator of a worker should finish inside the forced window of the long sampled words so that the re-seed of the first ensemble member is forced too */
      else gen_problem(&P, &R, algo, algo == A_LDA ? 16 : 12, algo == A_LDA ? 2 : 3, algo == A_LDA ? 1 : 2, 2);
      sarg A = {&P, algo == A_LDA ? 8 : 3, nw, word, wl, k, dist};
      VRT_EMIT("{\"e\":\"Reset\"}");
      int rc = vrt_run_child(child_sched, &A, 120);
      static int hung = 0; hung = rc == 124 ? hung + 1 : 0;
      if(rc == 3) gate_broken = 1; else if(rc != 0) crash(rc, "sched", &P);
      if(hung >= 2){ VRT_EMIT("{\"e\":\"Abandon\",\"after\":%d}", t); free_problem(&P); infra = 1; break; }      /* two runs in a row hit the watchdog: do not spend 120 s on every remaining word */      /* a word the gate could not force: the remaining words of this process run un-gated (recorded and judged all the same) */
      free_problem(&P);
    }
    fclose(f);
  }
  else if(!strcmp(mode, "yscr")){
    int nc = atoi(argv[4]);
    for(int t = 0; t < nc; t++){
      int algo = t % 2;   /* PLS, MLR (the LDA pipeline needs PLS-DA style statistics; covered by counts mode) */
      prob P; gen_problem(&P, &R, algo, 9 + t % 4, 2, 1, 1);
      yarg A = {&P, 2};
      VRT_EMIT("{\"e\":\"Reset\"}");
      int rc = vrt_run_child(child_yscr, &A, 300);
      if(rc != 0) crash(rc, "yscr", &P);
      free_problem(&P);
    }
  }
  else if(!strcmp(mode, "counts")){
    int nc = atoi(argv[4]);
    for(int t = 0; t < nc; t++){
      int algo = t % 3, scheme = (t / 3) % 3; if(algo == A_LDA && scheme == 2) scheme = 1;
      prob P; gen_problem(&P, &R, algo, algo == A_LDA ? 16 + t % 5 : 10 + t % 9, algo == A_LDA ? 2 : 1 + t % 3, algo == A_LDA ? 1 : 1 + t % 2, 1 + t % 2);
      if(P.nlv > P.p) P.nlv = P.p;
      carg A; memset(&A, 0, sizeof(A)); A.P = &P; A.scheme = scheme; A.groups = algo == A_LDA ? 8 : 3 + t % 3; A.iters = (int[]){4, 6, 8, 12}[t % 4];
      for(int i = 0; i < P.n; i++) A.lab[i] = (i * 7 + t) % 3;
      VRT_EMIT("{\"e\":\"Reset\"}");
      int rc = vrt_run_child(child_counts, &A, 300);
      if(rc != 0) crash(rc, "counts", &P);
      free_problem(&P);
    }
  }
  else if(!strcmp(mode, "direct")){
    int nc = atoi(argv[4]), first = argc > 5 ? atoi(argv[5]) : 0;
    for(int t = first; t < first + nc; t++){
      int r = t % NROUT;
      dcase C; gen_dcase(&C, &R, r, t / NROUT + t);
      VRT_EMIT("{\"e\":\"Reset\"}");
      int rc = vrt_run_child(child_direct, &C, 300);
      if(rc != 0) VRT_EMIT("{\"e\":\"Crash\",\"rc\":%d,\"mode\":\"direct\",\"algo\":\"%s\",\"n\":%d}", rc, RNAME[r], C.n);
      if(r == R_UPLSYS && first == 0){
        rc = vrt_run_child(child_broken, &C, 120);
        if(rc != 0) VRT_EMIT("{\"e\":\"Broken\",\"rc\":%d,\"algo\":\"UPLSYScrambling(valtype=1)\",\"n\":%d}", rc, C.n);
      }
      if(!SELFSEED[r] && first == 0 && t < NROUT){
        VRT_EMIT("{\"e\":\"Reset\"}");
        SELFSEED_OVERRIDE = 1; rc = vrt_run_child(child_unseeded, &C, 300); SELFSEED_OVERRIDE = 0;
        if(rc != 0) VRT_EMIT("{\"e\":\"Crash\",\"rc\":%d,\"mode\":\"unseeded\",\"algo\":\"%s\",\"n\":%d}", rc, RNAME[r], C.n);
      }
      free_dcase(&C);
    }
  }
  else if(!strcmp(mode, "eplscv")){
    int nc = atoi(argv[4]);
    for(int t = 0; t < nc; t++){
      int algo = A_EBAG + t % 3, scheme = (t / 3) % 3;
      prob P; gen_problem(&P, &R, algo, 9 + t % 4, 3 + t % 2, 1 + t % 2, 2); set_eparm(&P, 2 + t % 2, 0.7, 2);
      ecarg A; memset(&A, 0, sizeof(A)); A.P = &P; A.scheme = scheme; A.groups = 3; A.iters = (int[]){4, 6, 8}[t % 3];
      for(int i = 0; i < P.n; i++) A.lab[i] = (i * 5 + t) % 3;
      VRT_EMIT("{\"e\":\"Reset\"}");
      int rc = vrt_run_child(child_eplscv, &A, 300);
      if(rc != 0) VRT_EMIT("{\"e\":\"Crash\",\"rc\":%d,\"mode\":\"eplscv\",\"algo\":\"%s\",\"n\":%d}", rc, ANAME[algo], P.n);
      free_problem(&P);
    }
  }
  else if(!strcmp(mode, "classes")){
    int nc = atoi(argv[4]), first = argc > 5 ? atoi(argv[5]) : 0;
    for(int t = first; t < first + nc; t++){
      const ccase *c = &CTAB[t % NCTAB]; int round = t / NCTAB;
      prob P, Qp;
      if(c->algo == A_LDA){ gen_lda(&P, &R, c->n + round % 3, c->p, c->ldak, c->labstyle); gen_lda(&Qp, &R, c->n + 3, c->p + 1, c->ldak, c->labstyle); }
      else { gen_problem(&P, &R, c->algo, c->n + round % 3, c->p, c->ny, c->nlv); gen_problem(&Qp, &R, c->algo, c->n + 3, c->p + 1, c->ny, c->nlv); }
      apply_variant(&P, c->variant);
      carg A; memset(&A, 0, sizeof(A)); A.P = &P; A.Q = &Qp; A.scheme = c->scheme; A.groups = c->groups; A.iters = c->iters ? c->iters : P.n; A.mode = "classes"; A.cls = c->cls;
      A.nproc = c->nproc; A.resid = c->resid; A.reuse = c->reuse; A.between = c->between; A.conc = c->conc; A.creates = c->creates;
      for(int i = 0; i < P.n && i < 64; i++) A.lab[i] = c->G ? (i * 7 + t) % c->G : 0;
      for(int i = 0; i < Qp.n && i < 64; i++) A.qlab[i] = c->G ? (i * 5 + t) % c->G : 0;
      VRT_EMIT("{\"e\":\"Reset\"}");
      int rc = vrt_run_child(child_counts, &A, 300);
      if(rc != 0) crash(rc, "classes", &P);
      if(c->scheme == 2 && c->reuse && round == 0){
        rc = vrt_run_child(child_kfold_reshape, &A, 120);
        if(rc != 0) VRT_EMIT("{\"e\":\"Broken\",\"rc\":%d,\"algo\":\"KFoldCV(output of another shape)\",\"n\":%d}", rc, P.n);
      }
      free_problem(&P); free_problem(&Qp);
    }
  }
  else if(!strcmp(mode, "hist")){
    int nc = atoi(argv[4]);
    static const char *SN[3] = {"boot", "loo", "kfold"};
    for(int t = 0; t < nc; t++){
      int algo = t % 3, scheme = (t / 3) % 3; if(algo == A_LDA && scheme == 2) scheme = 1;
      int n = 12 + t % 4, p = algo == A_LDA ? 2 : 2 + t % 2, ny = algo == A_LDA ? 1 : 1 + t % 2, nth = 2 + t % 3;
      prob PA, PB, PC;
      if(algo == A_LDA){ gen_lda(&PA, &R, n + 4, p, 2, 0); gen_lda(&PB, &R, n + 4, p, 2, 0); gen_lda(&PC, &R, n + 7, p + 1, 2, 0); }
      else { gen_problem(&PA, &R, algo, n, p, ny, 2); gen_problem(&PB, &R, algo, n, p, ny, 2); gen_problem(&PC, &R, algo, n + 3, p + 1, ny, 2); }
      harg H; memset(&H, 0, sizeof(H)); H.A = &PA; H.B = &PB; H.C = &PC; H.scheme = scheme; H.groups = algo == A_LDA ? 4 : 3; H.nth = nth; H.iters = 2 * nth;
      for(int i = 0; i < 64; i++) H.lab[i] = (i * 7 + t) % 3;
      VRT_EMIT("{\"e\":\"Reset\"}");
      VRT_EMIT("{\"e\":\"Run\",\"mode\":\"hist:%s\",\"algo\":\"%s\",\"n\":%d,\"p\":%d,\"ny\":%d,\"nlv\":%d,\"groups\":%d,\"nw\":%d,\"k\":0,\"word\":[],\"cls\":[\"K7:new-data-same-address\",\"K7:refit-at-freed-address\",\"K7:reused-output\",\"K7:other-shape-between\"]}",
               SN[scheme], ANAME[algo], PB.n, PB.p, PB.ny, PB.nlv, H.groups, H.iters);
      H.second = 0; int rc = vrt_run_child(child_hist, &H, 300);
      if(rc == 0){ H.second = 1; rc = vrt_run_child(child_hist, &H, 300); }
      if(rc != 0) crash(rc, "hist", &PB); else VRT_EMIT("{\"e\":\"End\"}");
      free_problem(&PA); free_problem(&PB); free_problem(&PC);
    }
  }
  else if(!strcmp(mode, "dsched")){
    FILE *f = fopen(argv[4], "r"); if(!f){ perror("dsched"); return 2; }
    int k = atoi(argv[5]), first = argc > 6 ? atoi(argv[6]) : 0; char line[4096]; int t = first;
    LOCKMASK = lock_probe();
    while(fgets(line, sizeof(line), f)){
      int word[256], wl = 0; char *tok = strtok(line, " \n"); while(tok && wl < 256){ word[wl++] = atoi(tok); tok = strtok(NULL, " \n"); }
      if(wl == 0) continue;
      int r = t % NROUT;
      dcase C; gen_dcase(&C, &R, r, t / NROUT + t); t++;
      dsarg A = {&C, word, wl, k};
      VRT_EMIT("{\"e\":\"Reset\"}");
      int rc = vrt_run_child(child_dsched, &A, 120);
      static int hung = 0; hung = rc == 124 ? hung + 1 : 0;
      if(hung >= 2){ VRT_EMIT("{\"e\":\"Abandon\",\"after\":%d}", t); free_dcase(&C); infra = 1; break; }
      if(rc == 3) gate_broken = 1; else if(rc != 0) VRT_EMIT("{\"e\":\"Crash\",\"rc\":%d,\"mode\":\"dsched\",\"algo\":\"%s\",\"n\":%d}", rc, RNAME[r], C.n);
      free_dcase(&C);
    }
    fclose(f);
  }
  else if(!strcmp(mode, "yscount")){
    int nc = atoi(argv[4]), first = argc > 5 ? atoi(argv[5]) : 0;
    for(int t = first; t < first + nc; t++){
      int algo = t % 3, loo = (t / 3) % 2;
      prob P; if(algo == A_LDA) gen_lda(&P, &R, 12 + t % 3, 2, 2, 0); else gen_problem(&P, &R, algo, 9 + t % 4, 2, 1, 1);
      ycarg A = {&P, loo, 2};
      VRT_EMIT("{\"e\":\"Reset\"}");
      int rc = vrt_run_child(child_yscount, &A, 600);
      if(rc != 0) crash(rc, "yscount", &P);
      free_problem(&P);
    }
  }
  else if(!strcmp(mode, "calls")){
    FILE *f = fopen(argv[4], "r"); if(!f){ perror("calls"); return 2; }
    int k = atoi(argv[5]); char line[4096]; int t = 0;
    while(fgets(line, sizeof(line), f)){
      int word[256], wl = 0; char *tok = strtok(line, " \n"); while(tok && wl < 256){ word[wl++] = atoi(tok); tok = strtok(NULL, " \n"); }
      if(wl == 0) continue;
      clarg A = {word, wl, k, 5000u + (uint32_t)vr_int(&R, 0, 1000000)}; t++;
      VRT_EMIT("{\"e\":\"Reset\"}");
      int rc = vrt_run_child(child_calls, &A, 60);
      if(rc != 0) VRT_EMIT("{\"e\":\"Crash\",\"rc\":%d,\"mode\":\"calls\",\"algo\":\"srand_+draws\",\"n\":0}", rc);
    }
    fclose(f);
  }
  else if(!strcmp(mode, "stress")){
    /* many workers accumulating at once: any state shared between workers without synchronisation loses updates sooner or later.
       Sampled schedules (not forced): repeated 8-thread runs against the single-thread result. */
    int reps = atoi(argv[4]);
    for(int t = 0; t < 3; t++){
      int algo = (int[]){A_MLR, A_PLS, A_MLR}[t];
      prob P; gen_problem(&P, &R, algo, (int[]){24, 30, 30}[t], (int[]){2, 2, 1}[t], (int[]){1, 2, 3}[t], 1);
      carg A; memset(&A, 0, sizeof(A)); A.P = &P; A.scheme = 3; A.groups = (int[]){2, 3, 30}[t]; A.iters = (int[]){64, 32, 8}[t]; A.reps = reps;
      VRT_EMIT("{\"e\":\"Reset\"}");
      int rc = vrt_run_child(child_counts, &A, 900);
      if(rc != 0) crash(rc, "stress", &P);
      free_problem(&P);
    }
  }
  vrt_close();
  return infra ? 3 : 0;
}
