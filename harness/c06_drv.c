/* c06_drv.c - conformance driver for C06 (validation results are deterministic under every schedule / thread count).
 * usage: c06_drv <out.ndjson> sched  <seed> <schedule-file> <NW> <K>     forced schedules (hook H1 gate) on BootstrapRandomGroupsCV
 *        c06_drv <out.ndjson> yscr   <seed> <ncases>                      y-scrambling pipeline, all RNG events of all threads
 *        c06_drv <out.ndjson> counts <seed> <ncases>                      bit-identity across thread counts (boot: dividing counts; LOO; k-fold)
 * Trace per run:  Reset ; Run{..} ; Seq{h} ; (Wrote|Read)* ; Result{h} ; End
 *   Wrote{w,v,a}: thread w stored v into the generator word at address class a (srand_ or write half of a draw)
 *   Read{w,v}   : thread w copied v out of the word (read half of a draw);  v are decimal strings (32-bit words)
 * Thread 0 is the calling thread; workers are numbered in order of first arrival at srand_.
 */
#include "scientific.h"
#include "verif_rt.h"
#include <time.h>
#include <errno.h>
#include <fcntl.h>

#define MAXT 64
#define MAXEV 400000
typedef struct { unsigned char kind; unsigned char w; unsigned char a; uint32_t v; } rev;   /* kind 1 Wrote 2 Read */
static rev *EV; static int nev = 0;
static pthread_mutex_t gmu = PTHREAD_MUTEX_INITIALIZER;
static pthread_cond_t gcv = PTHREAD_COND_INITIALIZER;
static pthread_t main_tid, wtid[MAXT]; static int nwt = 0;
static const volatile uint32_t *addr_seen[8]; static int naddr = 0;
static int gate_on = 0, NWK = 0, Q = 0, sched[256], slen = 0, pos = 0, steps[MAXT], inturn[MAXT];
static int stuck = 0, unforced = 0;

static int addr_class(const volatile uint32_t *p){ for(int i = 0; i < naddr; i++) if(addr_seen[i] == p) return i; if(naddr < 8){ addr_seen[naddr] = p; return naddr++; } return 7; }
static int ident(int assign){
  pthread_t me = pthread_self();
  if(pthread_equal(me, main_tid)) return 0;
  for(int i = 0; i < nwt; i++) if(pthread_equal(wtid[i], me)) return i + 1;
  if(assign && nwt < MAXT - 1){ wtid[nwt++] = me; return nwt; }
  return MAXT - 1;
}
static void logev(int kind, int w, const volatile uint32_t *p, uint32_t v){ if(nev < MAXEV){ EV[nev].kind = kind; EV[nev].w = w; EV[nev].a = addr_class(p); EV[nev].v = v; nev++; } }
/* wait until the next letter of the schedule word is mine (called with gmu held) */
static void wait_turn(int L){
  int waited = 0;
  while(gate_on && pos < slen && sched[pos] != L){
    struct timespec ts; clock_gettime(CLOCK_REALTIME, &ts); ts.tv_nsec += 20000000; if(ts.tv_nsec >= 1000000000){ ts.tv_sec++; ts.tv_nsec -= 1000000000; }
    pthread_cond_timedwait(&gcv, &gmu, &ts);
    if(waited > 100 && pos < slen && sched[pos] > nwt){ pos++; unforced++; pthread_cond_broadcast(&gcv); continue; }  /* 2 s: the letter's owner never appeared (fewer worker threads than the word has letters): skip the letter */
    if(++waited > 1500){ stuck = 1; gate_on = 0; pthread_cond_broadcast(&gcv); break; }   /* 30 s without my turn: give up (infrastructure) */
  }
  inturn[L] = (gate_on && pos < slen && sched[pos] == L);
}
static void step_done(int L){ if(inturn[L]){ inturn[L] = 0; steps[L]++; pos++; pthread_cond_broadcast(&gcv); } }
static void rng_cb(int pt, const volatile uint32_t *word, uint32_t aux){
  pthread_mutex_lock(&gmu);
  int L = ident(pt == 0);
  int gated = gate_on && L >= 1 && L <= NWK;
  /* a worker waits for its letter at the END of its previous step (parked inside the generator function, after the
     store / after the copy), so that everything the function still holds in flight is exposed to the other workers'
     steps; the first step waits at its start */
  switch(pt){
    case 0: if(gated && steps[L] < Q && !inturn[L]) wait_turn(L); break;                                  /* before the seed store */
    case 1: logev(1, L, word, aux); if(gated){ step_done(L); if(steps[L] < Q) wait_turn(L); } break;      /* after the seed store */
    case 2: if(gated && steps[L] < Q && !inturn[L]) wait_turn(L); break;                                  /* before the read */
    case 3: logev(2, L, word, aux); if(gated){ step_done(L); if(steps[L] < Q) wait_turn(L); } break;      /* after read, before write */
    case 4: logev(1, L, word, aux); if(gated){ step_done(L); if(steps[L] < Q) wait_turn(L); } break;      /* after the write, before the value is computed */
  }
  pthread_mutex_unlock(&gmu);
}
static void recorder_reset(void){ nev = 0; nwt = 0; naddr = 0; pos = 0; stuck = 0; unforced = 0; memset(steps, 0, sizeof(steps)); memset(inturn, 0, sizeof(inturn)); main_tid = pthread_self(); }
static void emit_events(void){
  for(int i = 0; i < nev; i++){
    if(EV[i].kind == 1) VRT_EMIT("{\"e\":\"Wrote\",\"w\":%d,\"v\":\"%u\",\"a\":%d}", EV[i].w, EV[i].v, EV[i].a);
    else VRT_EMIT("{\"e\":\"Read\",\"w\":%d,\"v\":\"%u\"}", EV[i].w, EV[i].v);
  }
}

/* ---- problems ---- */
enum { A_PLS = 0, A_MLR = 1, A_LDA = 2 };
static const char *ANAME[3] = {"PLS", "MLR", "LDA"};
static AlgorithmType ATYPE[3] = {_PLS_, _MLR_, _LDA_};
typedef struct { int algo, n, p, ny, nlv; matrix *x, *y; } prob;
static void gen_problem(prob *P, vrng *R, int algo, int n, int p, int ny, int nlv){
  P->algo = algo; P->n = n; P->p = p; P->ny = ny; P->nlv = nlv; NewMatrix(&P->x, n, p); NewMatrix(&P->y, n, ny);
  if(algo == A_LDA){ for(int i = 0; i < n; i++){ int c = i % 2; P->y->data[i][0] = c; for(int j = 0; j < p; j++) P->x->data[i][j] = vr_norm(R) + 5.0 * c; } return; }
  for(int i = 0; i < n; i++){ for(int j = 0; j < p; j++) P->x->data[i][j] = vr_norm(R) * (1 + j);
    for(int c = 0; c < ny; c++){ double s = 0; for(int j = 0; j < p; j++) s += P->x->data[i][j] * (j + 1 + c); P->y->data[i][c] = s + 0.5 * vr_norm(R); } }
}
static void free_problem(prob *P){ DelMatrix(&P->x); DelMatrix(&P->y); }
static uint64_t hash_matrix(matrix *m){ uint64_t h = 1469598103934665603ULL; h ^= m->row; h *= 1099511628211ULL; h ^= m->col; h *= 1099511628211ULL;
  for(size_t i = 0; i < m->row; i++) for(size_t j = 0; j < m->col; j++){ uint64_t u; memcpy(&u, &m->data[i][j], 8); for(int b = 0; b < 8; b++){ h ^= (u >> (8 * b)) & 0xff; h *= 1099511628211ULL; } } return h; }
#define H3(h) (long)((h) >> 43), (long)(((h) >> 22) & 0x1FFFFF), (long)((h) & 0x3FFFFF)
static void boot(prob *P, int groups, int iters, int nth, matrix *pred){
  MODELINPUT in = initModelInput(); in.mx = P->x; in.my = P->y; in.nlv = P->algo == A_PLS ? P->nlv : 0; in.xautoscaling = 1; in.yautoscaling = 0;
  BootstrapRandomGroupsCV(&in, groups, iters, ATYPE[P->algo], pred, NULL, nth, NULL, 0);
}

typedef struct { prob *P; int groups; int nw; int *word; int wl; int k; } sarg;
static int child_sched(void *a_){
  sarg *A = (sarg*)a_; prob *P = A->P;
  vrt_force_nproc(1); vrt_install_iter_budget(200000, 0);
  matrix *seq, *par; initMatrix(&seq); initMatrix(&par);
  /* sequential reference: same iterations, one worker at a time (same seeds, same merge order) */
  libsci_verif_rng = NULL; boot(P, A->groups, A->nw, 1, seq);
  uint64_t hs = hash_matrix(seq);
  { static char buf[2048]; int p = 0; p += snprintf(buf, sizeof(buf), "{\"e\":\"Run\",\"mode\":\"sched\",\"algo\":\"%s\",\"n\":%d,\"p\":%d,\"ny\":%d,\"nlv\":%d,\"groups\":%d,\"nw\":%d,\"k\":%d,\"word\":[", ANAME[P->algo], P->n, P->p, P->ny, P->nlv, A->groups, A->nw, A->k);
    for(int i = 0; i < A->wl; i++) p += snprintf(buf + p, sizeof(buf) - p, "%s%d", i ? "," : "", A->word[i]); snprintf(buf + p, sizeof(buf) - p, "]}"); VRT_EMIT("%s", buf); }
  VRT_EMIT("{\"e\":\"Seq\",\"h\":[%ld,%ld,%ld]}", H3(hs));
  recorder_reset(); NWK = A->nw; Q = 2 * A->k + 1; slen = A->wl; for(int i = 0; i < slen; i++) sched[i] = A->word[i];
  gate_on = 1; libsci_verif_rng = rng_cb;
  boot(P, A->groups, A->nw, A->nw, par);
  libsci_verif_rng = NULL; gate_on = 0;
  if(stuck){ VRT_EMIT("{\"e\":\"Stuck\",\"pos\":%d}", pos); return 3; }
  emit_events();
  uint64_t hp = hash_matrix(par);
  VRT_EMIT("{\"e\":\"Result\",\"h\":[%ld,%ld,%ld],\"forced\":%d,\"addrs\":%d,\"skipped\":%d}", H3(hp), pos, naddr, unforced);
  VRT_EMIT("{\"e\":\"End\"}");
  return 0;
}

typedef struct { prob *P; int iters; } yarg;
static int child_yscr(void *a_){
  yarg *A = (yarg*)a_; prob *P = A->P;
  vrt_force_nproc(1); vrt_install_iter_budget(200000, 0);
  MODELINPUT in = initModelInput(); in.mx = P->x; in.my = P->y; in.nlv = P->algo == A_PLS ? P->nlv : 0; in.xautoscaling = 1; in.yautoscaling = 0;
  ValidationArg va = initValidationArg(); va.vtype = BootstrapRGCV;
  uint64_t h[3];
  VRT_EMIT("{\"e\":\"Run\",\"mode\":\"yscr\",\"algo\":\"%s\",\"n\":%d,\"p\":%d,\"ny\":%d,\"nlv\":%d,\"groups\":3,\"nw\":4,\"k\":0,\"word\":[]}", ANAME[P->algo], P->n, P->p, P->ny, P->nlv);
  for(int rep = 0; rep < 3; rep++){
    matrix *cc; initMatrix(&cc);
    recorder_reset(); gate_on = 0; libsci_verif_rng = rep == 0 ? rng_cb : NULL;
    int so = dup(1); int dn = open("/dev/null", 1); dup2(dn, 1);      /* the routine prints a vector on stdout */
    YScrambling(&in, ATYPE[P->algo], va, A->iters, cc, 4, NULL);
    fflush(stdout); dup2(so, 1); close(so); close(dn);
    libsci_verif_rng = NULL;
    h[rep] = hash_matrix(cc); DelMatrix(&cc);
    if(rep == 0){ VRT_EMIT("{\"e\":\"Seq\",\"h\":[%ld,%ld,%ld]}", H3(h[0])); emit_events(); }
    else VRT_EMIT("{\"e\":\"Result\",\"h\":[%ld,%ld,%ld],\"forced\":0,\"addrs\":%d}", H3(h[rep]), naddr);
  }
  VRT_EMIT("{\"e\":\"End\"}");
  return 0;
}

typedef struct { prob *P; int scheme, groups, iters, reps; int lab[64]; } carg;
static int child_counts(void *a_){
  carg *A = (carg*)a_; prob *P = A->P;
  vrt_force_nproc(1); vrt_install_iter_budget(200000, 0);
  MODELINPUT in = initModelInput(); in.mx = P->x; in.my = P->y; in.nlv = P->algo == A_PLS ? P->nlv : 0; in.xautoscaling = 1; in.yautoscaling = 0;
  static const char *SN[4] = {"boot", "loo", "kfold", "stress"};
  int reps = A->scheme == 3 ? A->reps : 2;
  VRT_EMIT("{\"e\":\"Run\",\"mode\":\"counts:%s\",\"algo\":\"%s\",\"n\":%d,\"p\":%d,\"ny\":%d,\"nlv\":%d,\"groups\":%d,\"nw\":%d,\"k\":0,\"word\":[]}", SN[A->scheme], ANAME[P->algo], P->n, P->p, P->ny, P->nlv, A->groups, A->iters);
  uint64_t h1 = 0; int caller_same = 1;
  for(int nth = 1; nth <= 8; nth++){
    if((A->scheme == 0 || A->scheme == 3) && A->iters % nth) continue;           /* bootstrap claim: counts dividing the iteration count */
    if(A->scheme == 3 && nth != 1 && nth != 8) continue;
    for(int rep = 0; rep < (nth == 1 ? 1 : reps); rep++){
      matrix *pred; initMatrix(&pred);
      srand_(4242);
      if(A->scheme == 0 || A->scheme == 3) BootstrapRandomGroupsCV(&in, A->groups, A->iters, ATYPE[P->algo], pred, NULL, nth, NULL, 0);
      else if(A->scheme == 1) LeaveOneOut(&in, ATYPE[P->algo], pred, NULL, nth, NULL, 0);
      else { uivector *g; NewUIVector(&g, P->n); for(int i = 0; i < P->n; i++) g->data[i] = A->lab[i]; KFoldCV(&in, g, ATYPE[P->algo], pred, NULL, nth, NULL, 0); DelUIVector(&g); }
      /* did the call leave the caller's own seeded stream alone? (observation, implementation-shaped) */
      { int a[3], b[3]; for(int i = 0; i < 3; i++) a[i] = randInt(0, 1000000); srand_(4242); for(int i = 0; i < 3; i++) b[i] = randInt(0, 1000000); if(memcmp(a, b, sizeof(a))) caller_same = 0; }
      uint64_t h = hash_matrix(pred); DelMatrix(&pred);
      if(nth == 1 && rep == 0){ h1 = h; VRT_EMIT("{\"e\":\"Seq\",\"h\":[%ld,%ld,%ld]}", H3(h1)); }
      else if(A->scheme != 3 || h != h1 || rep == reps - 1) VRT_EMIT("{\"e\":\"Result\",\"h\":[%ld,%ld,%ld],\"forced\":0,\"addrs\":0,\"nth\":%d,\"rep\":%d}", H3(h), nth, rep);
      if(A->scheme == 3 && h != h1) break;
    }
  }
  VRT_EMIT("{\"e\":\"Caller\",\"same\":%d}", caller_same);
  VRT_EMIT("{\"e\":\"End\"}");
  return 0;
}

static void crash(int rc, const char *mode, prob *P){ VRT_EMIT("{\"e\":\"Crash\",\"rc\":%d,\"mode\":\"%s\",\"algo\":\"%s\",\"n\":%d}", rc, mode, ANAME[P->algo], P->n); }

int main(int argc, char **argv){
  if(argc < 5){ fprintf(stderr, "usage\n"); return 2; }
  vrt_open(argv[1]);
  EV = malloc(sizeof(rev) * MAXEV);
  const char *mode = argv[2]; long seed = atol(argv[3]);
  vrng R = { (uint64_t)seed * 0x9E3779B97F4A7C15ULL + 777 };
  int infra = 0;
  if(!strcmp(mode, "sched")){
    FILE *f = fopen(argv[4], "r"); if(!f){ perror("sched"); return 2; }
    int nw = atoi(argv[5]), k = atoi(argv[6]); char line[2048]; int t = 0;
    while(fgets(line, sizeof(line), f)){
      int word[256], wl = 0; char *tok = strtok(line, " \n"); while(tok && wl < 256){ word[wl++] = atoi(tok); tok = strtok(NULL, " \n"); }
      if(wl == 0) continue;
      int algo = t % 3; t++;
      prob P; gen_problem(&P, &R, algo, algo == A_LDA ? 16 : 12, algo == A_LDA ? 2 : 3, algo == A_LDA ? 1 : 2, 2);
      sarg A = {&P, algo == A_LDA ? 8 : 3, nw, word, wl, k};
      VRT_EMIT("{\"e\":\"Reset\"}");
      int rc = vrt_run_child(child_sched, &A, 120);
      if(rc == 3) infra = 1; else if(rc != 0) crash(rc, "sched", &P);
      free_problem(&P);
    }
    fclose(f);
  }
  else if(!strcmp(mode, "yscr")){
    int nc = atoi(argv[4]);
    for(int t = 0; t < nc; t++){
      int algo = t % 2;   /* PLS, MLR (the LDA pipeline needs PLS-DA style statistics; covered by counts mode) */
      prob P; gen_problem(&P, &R, algo, 9 + t % 4, 2, 1, 1);
      yarg A = {&P, 2};
      VRT_EMIT("{\"e\":\"Reset\"}");
      int rc = vrt_run_child(child_yscr, &A, 300);
      if(rc != 0) crash(rc, "yscr", &P);
      free_problem(&P);
    }
  }
  else if(!strcmp(mode, "counts")){
    int nc = atoi(argv[4]);
    for(int t = 0; t < nc; t++){
      int algo = t % 3, scheme = (t / 3) % 3; if(algo == A_LDA && scheme == 2) scheme = 1;
      prob P; gen_problem(&P, &R, algo, algo == A_LDA ? 16 + t % 5 : 10 + t % 9, algo == A_LDA ? 2 : 1 + t % 3, algo == A_LDA ? 1 : 1 + t % 2, 1 + t % 2);
      if(P.nlv > P.p) P.nlv = P.p;
      carg A; memset(&A, 0, sizeof(A)); A.P = &P; A.scheme = scheme; A.groups = algo == A_LDA ? 8 : 3 + t % 3; A.iters = (int[]){4, 6, 8, 12}[t % 4];
      for(int i = 0; i < P.n; i++) A.lab[i] = (i * 7 + t) % 3;
      VRT_EMIT("{\"e\":\"Reset\"}");
      int rc = vrt_run_child(child_counts, &A, 300);
      if(rc != 0) crash(rc, "counts", &P);
      free_problem(&P);
    }
  }
  else if(!strcmp(mode, "stress")){
    /* many workers accumulating at once: any state shared between workers without synchronisation loses updates sooner or later.
       Sampled schedules (not forced): repeated 8-thread runs against the single-thread result. */
    int reps = atoi(argv[4]);
    for(int t = 0; t < 3; t++){
      int algo = (int[]){A_MLR, A_PLS, A_MLR}[t];
      prob P; gen_problem(&P, &R, algo, (int[]){24, 30, 30}[t], (int[]){2, 2, 1}[t], (int[]){1, 2, 3}[t], 1);
      carg A; memset(&A, 0, sizeof(A)); A.P = &P; A.scheme = 3; A.groups = (int[]){2, 3, 30}[t]; A.iters = (int[]){64, 32, 8}[t]; A.reps = reps;
      VRT_EMIT("{\"e\":\"Reset\"}");
      int rc = vrt_run_child(child_counts, &A, 900);
      if(rc != 0) crash(rc, "stress", &P);
      free_problem(&P);
    }
  }
  vrt_close();
  return infra ? 3 : 0;
}
