/* c11_replay.c - replay driver for C11 (dense kernels compute their definitions for all shapes).
 * usage: c11_replay <cases.txt> <out.ndjson> <function>
 *
 * cases.txt is the TLC output of spec/Kernels.tla (operands AND exact expected results, integers) rewritten by the
 * check as plain text:   <family> <seed> <r> <k> <c> <nin> <nout>   followed by nin+nout lines  <len> v1 .. vlen
 * Every case of the family that feeds <function> is run with the operands scaled by 2^e, e in {-20, 0, 20}
 * (exact in double), and the library's result is compared with the TLC value scaled accordingly:
 *   integer-valued results exactly; quotients (averages, variances, covariance) against num*2^(e*deg)/den
 *   within the stated relative tolerance; norms / SDEV through their squares.
 * Output, one JSON object per line:
 *   Res{fn,r,k,c,ok[,drift][,scales,exp,at,got,want,what]}   one per case (all three scales; scales = bit mask of the failing ones)
 *   Sort{fn,rev,key,rows,cols,m,res,exact}            MatrixSort/MatrixReverseSort: input and output for TLC
 *   Crash{fn,r,k,c,exp}                               written from the sanitizer death callback / signal handler
 */
#include "scientific.h"
#include "verif_rt.h"
#include <float.h>

typedef struct { int len; long *v; } arr;
typedef struct { char fam[32]; int sd, r, k, c, nin, nout; arr in[8], out[8]; } kcase;

static const int EXPS[3] = { -20, 0, 20 };
#define EPS DBL_EPSILON

/* ---- current case, for crash reports ---- */
static const char *cur_fn = "";
static kcase *cur = NULL;
static int cur_exp = 0;
static void crash_line(void){
  if(vrt_out && cur){
    fprintf(vrt_out, "{\"e\":\"Crash\",\"fn\":\"%s\",\"sd\":%d,\"r\":%d,\"k\":%d,\"c\":%d,\"exp\":%d}\n", cur_fn, cur->sd, cur->r, cur->k, cur->c, cur_exp);
    fflush(vrt_out);
  }
}
static void on_signal(int sig){ crash_line(); _exit(128 + sig); }
#if defined(__has_feature)
#if __has_feature(address_sanitizer)
void __sanitizer_set_death_callback(void (*cb)(void));
#define HAVE_DEATH_CB 1
#endif
#endif

/* ---- mismatch bookkeeping ---- */
static struct { int bad, exp, i, j, scales; double got, want; const char *what; } mm;   /* scales: bit 0/1/2 = failed at 2^-20 / 1 / 2^20 */
static void miss(int e, int i, int j, double got, double want, const char *what){
  mm.scales |= e < 0 ? 1 : (e == 0 ? 2 : 4);
  if(mm.bad) return;
  mm.bad = 1; mm.exp = e; mm.i = i; mm.j = j; mm.got = got; mm.want = want; mm.what = what;
}
/* got == want, or within rel * max(|want|, floor) when rel > 0 */
static int near_(double got, double want, double rel, double floor_){
  if(got == want) return 1;
  if(!vfinite(got) || rel == 0.0) return 0;
  double s = fabs(want) > floor_ ? fabs(want) : floor_;
  return fabs(got - want) <= rel * s;
}
#define CHK(e, i, j, got, want, rel, fl, what) do{ double g_ = (got), w_ = (want); if(!near_(g_, w_, rel, fl)) miss(e, i, j, g_, w_, what); }while(0)

static matrix *mat_of(arr *a, int rows, int cols, int e){
  matrix *m; NewMatrix(&m, rows, cols);
  if(a->len != rows * cols){ fprintf(stderr, "case operand has %d cells, expected %dx%d\n", a->len, rows, cols); exit(2); }
  for(int i = 0; i < rows; i++) for(int j = 0; j < cols; j++) m->data[i][j] = ldexp((double)a->v[i * cols + j], e);
  return m;
}
static dvector *vec_of(arr *a, int n, int e){
  dvector *v; NewDVector(&v, n);
  if(a->len != n){ fprintf(stderr, "case operand has %d cells, expected %d\n", a->len, n); exit(2); }
  for(int i = 0; i < n; i++) v->data[i] = ldexp((double)a->v[i], e);
  return v;
}
static void need(arr *a, int n){ if(a->len != n){ fprintf(stderr, "expected-result list has %d cells, expected %d\n", a->len, n); exit(2); } }
static void cmp_mat(matrix *m, arr *want, int rows, int cols, int e, int deg, const char *what){
  need(want, rows * cols);
  if((int)m->row != rows || (int)m->col != cols){ miss(e, (int)m->row, (int)m->col, (double)m->row, (double)rows, "result shape"); return; }
  for(int i = 0; i < rows; i++) for(int j = 0; j < cols; j++) CHK(e, i, j, m->data[i][j], ldexp((double)want->v[i * cols + j], e * deg), 0.0, 0.0, what);
}
static void cmp_vec(dvector *v, arr *want, int n, int e, int deg, const char *what){
  need(want, n);
  if((int)v->size != n){ miss(e, (int)v->size, 0, (double)v->size, (double)n, "result size"); return; }
  for(int i = 0; i < n; i++) CHK(e, i, 0, v->data[i], ldexp((double)want->v[i], e * deg), 0.0, 0.0, what);
}

static int drift = 0;

/* ---- one function, one case, one scale ---- */
static const int MTN[3] = { 2, 3, 5 };
static void run_one(const char *fn, kcase *q, int e){
  int r = q->r, k = q->k, c = q->c;
  if(!strcmp(fn, "MatrixDotProduct")){
    matrix *a = mat_of(&q->in[0], r, k, e), *b = mat_of(&q->in[1], k, c, e), *p; NewMatrix(&p, r, c);
    MatrixDotProduct(a, b, p);
    cmp_mat(p, &q->out[0], r, c, e, 2, "c[i][j] = sum_k a[i][k] b[k][j]");
    DelMatrix(&a); DelMatrix(&b); DelMatrix(&p);
  }
  else if(!strcmp(fn, "MatrixDVectorDotProduct") || !strcmp(fn, "MT_MatrixDVectorDotProduct")){
    int mt = fn[0] == 'M' && fn[1] == 'T';
    for(int t = 0; t < (mt ? 3 : 1); t++){
      matrix *m = mat_of(&q->in[0], r, c, e); dvector *v = vec_of(&q->in[1], c, e), *p; NewDVector(&p, r);
      if(mt){ vrt_force_nproc(MTN[t]); MT_MatrixDVectorDotProduct(m, v, p); vrt_force_nproc(1); }
      else MatrixDVectorDotProduct(m, v, p);
      cmp_vec(p, &q->out[0], r, e, 2, "p[i] = sum_j m[i][j] v[j]");
      DelMatrix(&m); DelDVector(&v); DelDVector(&p);
    }
  }
  else if(!strcmp(fn, "DVectorMatrixDotProduct") || !strcmp(fn, "MT_DVectorMatrixDotProduct")){
    int mt = fn[0] == 'M' && fn[1] == 'T';
    for(int t = 0; t < (mt ? 3 : 1); t++){
      matrix *m = mat_of(&q->in[0], r, c, e); dvector *v = vec_of(&q->in[1], r, e), *p; NewDVector(&p, c);
      if(mt){ vrt_force_nproc(MTN[t]); MT_DVectorMatrixDotProduct(m, v, p); vrt_force_nproc(1); }
      else DVectorMatrixDotProduct(m, v, p);
      cmp_vec(p, &q->out[0], c, e, 2, "p[j] = sum_i v[i] m[i][j]");
      DelMatrix(&m); DelDVector(&v); DelDVector(&p);
    }
  }
  else if(!strcmp(fn, "RowColOuterProduct") || !strcmp(fn, "DVectorTrasposedDVectorDotProduct")){
    dvector *a = vec_of(&q->in[0], r, e), *b = vec_of(&q->in[1], c, e); matrix *m; NewMatrix(&m, r, c);
    if(fn[0] == 'R') RowColOuterProduct(a, b, m); else DVectorTrasposedDVectorDotProduct(a, b, m);
    cmp_mat(m, &q->out[0], r, c, e, 2, "m[i][j] = a[i] b[j]");
    DelDVector(&a); DelDVector(&b); DelMatrix(&m);
  }
  else if(!strcmp(fn, "MatrixTranspose")){
    matrix *m = mat_of(&q->in[0], r, c, e), *t; NewMatrix(&t, c, r);
    MatrixTranspose(m, t);
    cmp_mat(t, &q->out[0], c, r, e, 1, "t[j][i] = m[i][j]");
    DelMatrix(&m); DelMatrix(&t);
  }
  else if(!strcmp(fn, "MatrixTrace")){
    matrix *m = mat_of(&q->in[0], r, c, e);
    double tr = MatrixTrace(m);
    need(&q->out[0], 1);
    if(r == c) CHK(e, 0, 0, tr, ldexp((double)q->out[0].v[0], e), 0.0, 0.0, "trace = sum_i m[i][i]");
    else if(tr != 0.0) drift = 1;          /* trace of a non-square matrix is not defined: only memory safety is judged */
    DelMatrix(&m);
  }
  else if(!strcmp(fn, "Matrixnorm")){
    matrix *m = mat_of(&q->in[0], r, c, e);
    double nr = Matrixnorm(m);
    need(&q->out[0], 1);
    if(!(nr >= 0.0)) miss(e, 0, 0, nr, sqrt(ldexp((double)q->out[0].v[0], 2 * e)), "norm >= 0");
    CHK(e, 0, 0, nr * nr, ldexp((double)q->out[0].v[0], 2 * e), 4 * EPS, 0.0, "norm^2 = sum of squares");
    DelMatrix(&m);
  }
  else if(!strcmp(fn, "MatrixNorm")){
    matrix *m = mat_of(&q->in[0], r, c, e), *nm; NewMatrix(&nm, r, c);
    MatrixNorm(m, nm);
    need(&q->out[0], 1);
    double n2 = (double)q->out[0].v[0];
    if(n2 > 0) for(int i = 0; i < r; i++) for(int j = 0; j < c; j++){
      double x = (double)q->in[0].v[i * c + j], g = nm->data[i][j];
      if((x > 0 && !(g > 0)) || (x < 0 && !(g < 0)) || (x == 0 && g != 0)) miss(e, i, j, g, x / sqrt(n2), "sign of m[i][j]/norm");
      CHK(e, i, j, g * g * n2, x * x, 8 * EPS, 0.0, "(m[i][j]/norm)^2 * norm^2 = m[i][j]^2");
    }
    DelMatrix(&m); DelMatrix(&nm);
  }
  else if(!strcmp(fn, "MatrixColAverage")){
    matrix *m = mat_of(&q->in[0], r, c, e); dvector *v; initDVector(&v);
    MatrixColAverage(m, v);
    need(&q->out[0], c);
    if(r >= 1){
      if((int)v->size != c) miss(e, (int)v->size, 0, (double)v->size, (double)c, "result size");
      else for(int j = 0; j < c; j++) CHK(e, 0, j, v->data[j], ldexp((double)q->out[0].v[j], e) / (double)r, 4 * EPS, 0.0, "column average = column sum / rows");
    }
    DelMatrix(&m); DelDVector(&v);
  }
  else if(!strcmp(fn, "MatrixRowAverage")){
    matrix *m = mat_of(&q->in[0], r, c, e); dvector *v; initDVector(&v);
    MatrixRowAverage(m, v);
    need(&q->out[1], r);
    if(c >= 1){
      if((int)v->size != r) miss(e, (int)v->size, 0, (double)v->size, (double)r, "result size");
      else for(int i = 0; i < r; i++) CHK(e, i, 0, v->data[i], ldexp((double)q->out[1].v[i], e) / (double)c, 4 * EPS, 0.0, "row average = row sum / columns");
    }
    DelMatrix(&m); DelDVector(&v);
  }
  else if(!strcmp(fn, "MatrixColVar") || !strcmp(fn, "MatrixColSDEV")){
    if(r >= 2){                            /* the sample variance needs two rows */
      matrix *m = mat_of(&q->in[0], r, c, e); dvector *v; initDVector(&v);
      int sd = fn[9] == 'S';
      if(sd) MatrixColSDEV(m, v); else MatrixColVar(m, v);
      need(&q->out[3], c); need(&q->out[4], 3);
      double den = (double)q->out[4].v[2];
      if((int)v->size != c) miss(e, (int)v->size, 0, (double)v->size, (double)c, "result size");
      else for(int j = 0; j < c; j++){
        double want = ldexp((double)q->out[3].v[j], 2 * e) / den, g = v->data[j];
        if(sd){ if(!(g >= 0.0)) miss(e, 0, j, g, sqrt(want), "sdev >= 0"); g = g * g; }
        CHK(e, 0, j, g, want, 1e-12, ldexp(1.0, 2 * e), sd ? "sdev^2 = (n*sumsq - sum^2)/(n(n-1))" : "variance = (n*sumsq - sum^2)/(n(n-1))");
      }
      DelMatrix(&m); DelDVector(&v);
      /* the same columns moved to a location about 1e6 spreads away (exact in double: integer multiples of 2^e): variance and
         sdev are translation invariant (LawCovariance / ShiftCols in Kernels.tla) */
      m = mat_of(&q->in[0], r, c, e); initDVector(&v);
      for(int i = 0; i < r; i++) for(int j = 0; j < c; j++) m->data[i][j] += ldexp((double)(1048576L * (j + 1) * ((j % 2) ? -1 : 1)), e);
      if(sd) MatrixColSDEV(m, v); else MatrixColVar(m, v);
      if((int)v->size == c) for(int j = 0; j < c; j++){
        double want = ldexp((double)q->out[3].v[j], 2 * e) / den, g = v->data[j];
        if(sd) g = g * g;
        CHK(e, 0, j, g, want, 1e-8, ldexp(1.0, 2 * e), sd ? "sdev^2 unchanged by a column location shift of 2^20 units" : "variance unchanged by a column location shift of 2^20 units");
      }
      DelMatrix(&m); DelDVector(&v);
    }
  }
  else if(!strcmp(fn, "MatrixColRMS")){
    if(r >= 1){
      matrix *m = mat_of(&q->in[0], r, c, e); dvector *v; initDVector(&v);
      MatrixColRMS(m, v);
      need(&q->out[2], c);
      if((int)v->size != c) miss(e, (int)v->size, 0, (double)v->size, (double)c, "result size");
      else for(int j = 0; j < c; j++){
        double g = v->data[j];
        if(!(g >= 0.0)) miss(e, 0, j, g, 0.0, "rms >= 0");
        CHK(e, 0, j, g * g, ldexp((double)q->out[2].v[j], 2 * e) / (double)r, 16 * EPS, 0.0, "rms^2 = column sum of squares / rows");
      }
      DelMatrix(&m); DelDVector(&v);
    }
  }
  else if(!strcmp(fn, "MatrixCovariance")){
    if(r >= 2){
      matrix *m = mat_of(&q->in[0], r, c, e), *cm; initMatrix(&cm);
      MatrixCovariance(m, cm);
      need(&q->out[0], c * c); need(&q->out[1], 1);
      double den = (double)q->out[1].v[0];
      if((int)cm->row != c || (int)cm->col != c) miss(e, (int)cm->row, (int)cm->col, (double)cm->row, (double)c, "result shape");
      else for(int i = 0; i < c; i++) for(int j = 0; j < c; j++)
        CHK(e, i, j, cm->data[i][j], ldexp((double)q->out[0].v[i * c + j], 2 * e) / den, 1e-12, ldexp(1.0, 2 * e), "cov[i][j] = (n*sum x_i x_j - sum x_i * sum x_j)/(n(n-1))");
      DelMatrix(&m); DelMatrix(&cm);
      /* translation invariance at a location about 1e6 spreads away (ShiftCols law) */
      m = mat_of(&q->in[0], r, c, e); initMatrix(&cm);
      for(int i = 0; i < r; i++) for(int j = 0; j < c; j++) m->data[i][j] += ldexp((double)(1048576L * (j + 1) * ((j % 2) ? -1 : 1)), e);
      MatrixCovariance(m, cm);
      if((int)cm->row == c && (int)cm->col == c) for(int i = 0; i < c; i++) for(int j = 0; j < c; j++)
        CHK(e, i, j, cm->data[i][j], ldexp((double)q->out[0].v[i * c + j], 2 * e) / den, 1e-8, ldexp(1.0, 2 * e), "covariance unchanged by a column location shift of 2^20 units");
      DelMatrix(&m); DelMatrix(&cm);
    }
  }
  else if(!strcmp(fn, "DVectorDVectorDotProd")){
    dvector *a = vec_of(&q->in[0], r, e), *b = vec_of(&q->in[1], r, e);
    need(&q->out[0], 4);
    CHK(e, 0, 0, DVectorDVectorDotProd(a, b), ldexp((double)q->out[0].v[0], 2 * e), 0.0, 0.0, "dot = sum_i a[i] b[i]");
    DelDVector(&a); DelDVector(&b);
  }
  else if(!strcmp(fn, "DvectorModule")){
    dvector *a = vec_of(&q->in[0], r, e);
    double g = DvectorModule(a);
    if(!(g >= 0.0)) miss(e, 0, 0, g, 0.0, "module >= 0");
    CHK(e, 0, 0, g * g, ldexp((double)q->out[0].v[1], 2 * e), 4 * EPS, 0.0, "module^2 = sum of squares");
    DelDVector(&a);
  }
  else if(!strcmp(fn, "DVectorMean")){
    if(r >= 1){
      dvector *a = vec_of(&q->in[0], r, e); double g;
      DVectorMean(a, &g);
      CHK(e, 0, 0, g, ldexp((double)q->out[0].v[2], e) / (double)r, 4 * EPS, 0.0, "mean = sum / n");
      DelDVector(&a);
    }
  }
  else if(!strcmp(fn, "DVectorSDEV")){
    if(r >= 1){
      dvector *a = vec_of(&q->in[0], r, e); double g;
      DVectorSDEV(a, &g);
      if(!(g >= 0.0)) miss(e, 0, 0, g, 0.0, "sdev >= 0");
      CHK(e, 0, 0, g * g, ldexp((double)q->out[0].v[3], 2 * e) / ((double)r * (double)r), 1e-12, ldexp(1.0, 2 * e), "population sdev^2 = (n*sumsq - sum^2)/n^2");
      DelDVector(&a);
    }
  }
  else if(!strcmp(fn, "TransposedTensorDVectorProduct") || !strcmp(fn, "DvectorTensorDotProduct") || !strcmp(fn, "TensorMatrixDotProduct")){
    tensor *t; NewTensor(&t, k);
    if(q->in[0].len != k * r * c){ fprintf(stderr, "tensor operand size\n"); exit(2); }
    for(int s = 0; s < k; s++){
      NewTensorMatrix(t, s, r, c);
      for(int i = 0; i < r; i++) for(int j = 0; j < c; j++) t->m[s]->data[i][j] = ldexp((double)q->in[0].v[(s * r + i) * c + j], e);
    }
    if(fn[0] == 'T' && fn[1] == 'r'){
      dvector *v = vec_of(&q->in[1], c, e); matrix *p; NewMatrix(&p, k, r);
      TransposedTensorDVectorProduct(t, v, p);
      cmp_mat(p, &q->out[0], k, r, e, 2, "p[s][i] = sum_j t[s][i][j] v[j]");
      DelDVector(&v); DelMatrix(&p);
    }
    else if(fn[0] == 'D'){
      dvector *v = vec_of(&q->in[2], r, e); matrix *p; NewMatrix(&p, c, k);
      DvectorTensorDotProduct(t, v, p);
      cmp_mat(p, &q->out[1], c, k, e, 2, "m[j][s] = sum_i v[i] t[s][i][j]");
      DelDVector(&v); DelMatrix(&p);
    }
    else{
      matrix *m = mat_of(&q->in[3], c, k, e); dvector *p; NewDVector(&p, r);
      TensorMatrixDotProduct(t, m, p);
      cmp_vec(p, &q->out[2], r, e, 2, "v[i] = sum_s sum_j t[s][i][j] m[j][s]");
      DelMatrix(&m); DelDVector(&p);
    }
    DelTensor(&t);
  }
  else if(!strcmp(fn, "MatrixSort") || !strcmp(fn, "MatrixReverseSort")){
    int rev = fn[6] == 'R';
    matrix *m = mat_of(&q->in[0], r, c, e);
    if(rev) MatrixReverseSort(m, (size_t)(k - 1)); else MatrixSort(m, (size_t)(k - 1));
    /* back to integers: every cell of the result must be an input cell (exact multiple of 2^e in -5..5) */
    int exact = ((int)m->row == r && (int)m->col == c);
    static char buf[1 << 16]; int p = 0;
    p += snprintf(buf + p, sizeof(buf) - p, "{\"e\":\"Sort\",\"fn\":\"%s\",\"sd\":%d,\"exp\":%d,\"rev\":%d,\"key\":%d,\"rows\":%d,\"cols\":%d,\"m\":[", fn, q->sd, e, rev, k, r, c);
    for(int i = 0; i < r; i++){ p += snprintf(buf + p, sizeof(buf) - p, "%s[", i ? "," : ""); for(int j = 0; j < c; j++) p += snprintf(buf + p, sizeof(buf) - p, "%s%ld", j ? "," : "", q->in[0].v[i * c + j]); p += snprintf(buf + p, sizeof(buf) - p, "]"); }
    p += snprintf(buf + p, sizeof(buf) - p, "],\"res\":[");
    for(int i = 0; exact && i < r; i++){
      p += snprintf(buf + p, sizeof(buf) - p, "%s[", i ? "," : "");
      for(int j = 0; j < c; j++){
        double x = ldexp(m->data[i][j], -e); long xi = (vfinite(x) && fabs(x) < 1e6) ? (long)llround(x) : 999999;
        if((double)xi != x) exact = 0;
        p += snprintf(buf + p, sizeof(buf) - p, "%s%ld", j ? "," : "", xi);
      }
      p += snprintf(buf + p, sizeof(buf) - p, "]");
    }
    p += snprintf(buf + p, sizeof(buf) - p, "],\"exact\":%d}", exact);
    VRT_EMIT("%s", buf);
    DelMatrix(&m);
  }
  else{ fprintf(stderr, "unknown function %s\n", fn); exit(2); }
}

static const char *family_of(const char *fn){
  static const char *T[][2] = {
    {"MatrixDotProduct", "MatrixDotProduct"}, {"MatrixDVectorDotProduct", "MatVec"}, {"MT_MatrixDVectorDotProduct", "MatVec"},
    {"DVectorMatrixDotProduct", "VecMat"}, {"MT_DVectorMatrixDotProduct", "VecMat"}, {"RowColOuterProduct", "Outer"},
    {"DVectorTrasposedDVectorDotProduct", "Outer"}, {"MatrixTranspose", "Transpose"}, {"MatrixTrace", "Trace"},
    {"Matrixnorm", "Norm"}, {"MatrixNorm", "Norm"}, {"MatrixColAverage", "ColStats"}, {"MatrixRowAverage", "ColStats"},
    {"MatrixColVar", "ColStats"}, {"MatrixColSDEV", "ColStats"}, {"MatrixColRMS", "ColStats"}, {"MatrixCovariance", "Covariance"},
    {"DVectorDVectorDotProd", "DVector"}, {"DvectorModule", "DVector"}, {"DVectorMean", "DVector"}, {"DVectorSDEV", "DVector"},
    {"TransposedTensorDVectorProduct", "Tensor"}, {"DvectorTensorDotProduct", "Tensor"}, {"TensorMatrixDotProduct", "Tensor"},
    {"MatrixSort", "Sort"}, {"MatrixReverseSort", "Sort"}, {NULL, NULL} };
  for(int i = 0; T[i][0]; i++) if(!strcmp(T[i][0], fn)) return T[i][1];
  return NULL;
}

static int read_arr(FILE *f, arr *a){
  if(fscanf(f, "%d", &a->len) != 1) return 0;
  a->v = malloc(sizeof(long) * (a->len > 0 ? a->len : 1));
  for(int i = 0; i < a->len; i++) if(fscanf(f, "%ld", &a->v[i]) != 1) return 0;
  return 1;
}

int main(int argc, char **argv){
  if(argc < 4){ fprintf(stderr, "usage: c11_replay cases.txt out.ndjson function\n"); return 2; }
  const char *fn = argv[3], *fam = family_of(fn);
  if(!fam){ fprintf(stderr, "unknown function %s\n", fn); return 2; }
  FILE *f = fopen(argv[1], "r"); if(!f){ perror(argv[1]); return 2; }
  vrt_open(argv[2]);
  cur_fn = fn;
  signal(SIGABRT, on_signal); signal(SIGFPE, on_signal);
#ifdef HAVE_DEATH_CB
  __sanitizer_set_death_callback(crash_line);
#else
  signal(SIGSEGV, on_signal); signal(SIGBUS, on_signal);
#endif
  vrt_force_nproc(1);
  kcase q; long ncases = 0;
  int issort = !strcmp(fam, "Sort");
  while(fscanf(f, "%31s %d %d %d %d %d %d", q.fam, &q.sd, &q.r, &q.k, &q.c, &q.nin, &q.nout) == 7){
    if(q.nin > 8 || q.nout > 8){ fprintf(stderr, "too many operand lists\n"); return 2; }
    for(int i = 0; i < q.nin; i++) if(!read_arr(f, &q.in[i])){ fprintf(stderr, "truncated case file\n"); return 2; }
    for(int i = 0; i < q.nout; i++) if(!read_arr(f, &q.out[i])){ fprintf(stderr, "truncated case file\n"); return 2; }
    if(!strcmp(q.fam, fam)){
      ncases++;
      cur = &q; mm.bad = 0; mm.scales = 0; drift = 0;
      if(issort) VRT_EMIT("{\"e\":\"Reset\"}");
      for(int x = 0; x < 3; x++){ cur_exp = EXPS[x]; run_one(fn, &q, EXPS[x]); }
      cur = NULL;
      if(!issort){
        if(mm.bad)
          VRT_EMIT("{\"e\":\"Res\",\"fn\":\"%s\",\"sd\":%d,\"r\":%d,\"k\":%d,\"c\":%d,\"ok\":0,\"scales\":%d,\"exp\":%d,\"at\":[%d,%d],\"got\":\"%.17g\",\"want\":\"%.17g\",\"what\":\"%s\"}",
                   fn, q.sd, q.r, q.k, q.c, mm.scales, mm.exp, mm.i, mm.j, mm.got, mm.want, mm.what);
        else
          VRT_EMIT("{\"e\":\"Res\",\"fn\":\"%s\",\"sd\":%d,\"r\":%d,\"k\":%d,\"c\":%d,\"ok\":1%s}", fn, q.sd, q.r, q.k, q.c, drift ? ",\"drift\":1" : "");
      }
    }
    for(int i = 0; i < q.nin; i++) free(q.in[i].v);
    for(int i = 0; i < q.nout; i++) free(q.out[i].v);
  }
  VRT_EMIT("{\"e\":\"Done\",\"fn\":\"%s\",\"cases\":%ld}", fn, ncases);
  vrt_close(); fclose(f);
  return 0;
}
