/* c11_replay.c - replay driver for C11 (dense kernels compute their definitions for all shapes).
 * usage: c11_replay <cases.txt> <out.ndjson> <function>
 *
 * cases.txt is the TLC output of spec/Kernels.tla (operands AND exact expected results, integers) rewritten by the
 * check as plain text:   <family> <seed> <r> <k> <c> <nin> <nout>   followed by nin+nout lines  <len> v1 .. vlen
 * Every case of the family that feeds <function> is run with the operands scaled by 2^e, e in {-19, 0, 17}
 * (exact in double; with mantissas 1..5 the values span 1.9e-6 .. 6.6e5, inside the 1e-6 .. 1e6 of the quantifier), and the
 * library's result is compared with the TLC value scaled accordingly:
 *   integer-valued results exactly; quotients (averages, variances, covariance) against num*2^(e*deg)/den
 *   within the stated relative tolerance; norms / SDEV through their squares.
 * Output, one JSON object per line:
 *   Res{fn,r,k,c,ok[,drift][,scales,exp,at,got,want,what]}   one per case (all three scales; scales = bit mask of the failing ones)
 *   Sort{fn,rev,key,rows,cols,m,res,exact}            MatrixSort/MatrixReverseSort: input and output for TLC
 *   ArgExt{fn,max,rows,cols,m,row,col}                MatrixGetMaxValueIndex/MatrixGetMinValueIndex: input and returned position for TLC
 *   Note{fn,what}                                     an observation that is not a mismatch (e.g. PearsonCorrelMatrix returns r^2)
 *   Crash{fn,r,k,c,exp}                               written from the sanitizer death callback / signal handler
 * Second batch (families DVector2, MatMaps, DescStat, DescStatMiss, Correl, Division, extended Tensor): besides the three scales a
 * fourth pass (exp 99, "mixed units") gives every column / operand its own power-of-two unit, and every routine with a caller-provided
 * output is run a second time into the already sized output filled with a non-zero value ("stale":1 in the Res line on a mismatch).
 */
#include "scientific.h"
#include "verif_rt.h"
#include <float.h>

typedef struct { int len; long *v; } arr;
typedef struct { char fam[32]; int sd, r, k, c, nin, nout; arr in[16], out[16]; } kcase;

static const int EXPS[3] = { -19, 0, 17 };
#define MIX 99                       /* fourth pass: column j (or operand) in its own unit 2^EXPS[j % 3] */
#define DEC 98                       /* K5 pass: a unit that is not representable in binary (0.1, 1/3, 1e-3): every operand carries a rounding error */
static double DECU = 0.1;            /* the unit of the current case's DEC pass */
static double dec_abs = 0.0;         /* absolute tolerance of the current comparison in the DEC pass: (terms + 4) * eps * sum of |terms| */
static double sc(double v, int e){ return e == DEC ? v * DECU : ldexp(v, e); }                                   /* operand value */
static double scd(double v, int e, int deg){ return e == DEC ? (deg == 2 ? v * DECU * DECU : (deg == 1 ? v * DECU : v)) : ldexp(v, e * deg); }   /* expected value of degree deg */
static int ecol(int e, int j){ return e == MIX ? EXPS[j % 3] : e; }
#define STALE 7.25                   /* what an already sized output holds before the second call */
#define EPS DBL_EPSILON

static int cur_exp;
/* ---- current case, for crash reports ---- */
static const char *cur_fn = "";
static kcase *cur = NULL;
static void crash_line(void){
  if(vrt_out && cur){
    fprintf(vrt_out, "{\"e\":\"Crash\",\"fn\":\"%s\",\"sd\":%d,\"r\":%d,\"k\":%d,\"c\":%d,\"exp\":%d}\n", cur_fn, cur->sd, cur->r, cur->k, cur->c, cur_exp);
    fflush(vrt_out);
  }
}
static void on_signal(int sig){ crash_line(); _exit(128 + sig); }
#if defined(__has_feature)
#if __has_feature(address_sanitizer)
void __sanitizer_set_death_callback(void (*cb)(void));
#define HAVE_DEATH_CB 1
#endif
#endif

/* ---- mismatch bookkeeping ---- */
static int stale_pass = 0;           /* 1 while a routine runs into an already sized, non-zero output */
static struct { int bad, exp, i, j, scales, stale; double got, want; const char *what; } mm;   /* scales: bit 0/1/2/3 = failed at 2^-20 / 1 / 2^20 / mixed units */
static void miss(int e, int i, int j, double got, double want, const char *what){
  mm.scales |= e == MIX ? 8 : (e == DEC ? 16 : (e < 0 ? 1 : (e == 0 ? 2 : 4)));
  if(mm.bad) return;
  mm.bad = 1; mm.exp = e; mm.i = i; mm.j = j; mm.got = got; mm.want = want; mm.what = what; mm.stale = stale_pass;
}
/* got == want, or within rel * max(|want|, floor) when rel > 0 */
static int cur_exp = 0;
static int near_(double got, double want, double rel, double floor_){
  if(got == want) return 1;
  if(cur_exp == DEC && vfinite(got) && fabs(got - want) <= dec_abs + rel * fabs(want)) return 1;
  if(!vfinite(got) || rel == 0.0) return 0;
  double s = fabs(want) > floor_ ? fabs(want) : floor_;
  return fabs(got - want) <= rel * s;
}
/* absolute tolerance */
#define CHKA(e, i, j, got, want, tol, what) do{ double g_ = (got), w_ = (want); if(!(vfinite(g_) && fabs(g_ - w_) <= (tol))) miss(e, i, j, g_, w_, what); }while(0)
#define CHK(e, i, j, got, want, rel, fl, what) do{ double g_ = (got), w_ = (want); if(!near_(g_, w_, rel, fl)) miss(e, i, j, g_, w_, what); }while(0)

static matrix *mat_of(arr *a, int rows, int cols, int e){
  matrix *m; NewMatrix(&m, rows, cols);
  if(a->len != rows * cols){ fprintf(stderr, "case operand has %d cells, expected %dx%d\n", a->len, rows, cols); exit(2); }
  for(int i = 0; i < rows; i++) for(int j = 0; j < cols; j++) m->data[i][j] = sc((double)a->v[i * cols + j], e);
  return m;
}
static dvector *vec_of(arr *a, int n, int e){
  dvector *v; NewDVector(&v, n);
  if(a->len != n){ fprintf(stderr, "case operand has %d cells, expected %d\n", a->len, n); exit(2); }
  for(int i = 0; i < n; i++) v->data[i] = sc((double)a->v[i], e);
  return v;
}
/* column j in unit 2^ecol(e, j) */
static matrix *mat_of_cols(arr *a, int rows, int cols, int e){
  matrix *m; NewMatrix(&m, rows, cols);
  if(a->len != rows * cols){ fprintf(stderr, "case operand has %d cells, expected %dx%d\n", a->len, rows, cols); exit(2); }
  for(int i = 0; i < rows; i++) for(int j = 0; j < cols; j++) m->data[i][j] = ldexp((double)a->v[i * cols + j], ecol(e, j));
  return m;
}
static void fill_mat(matrix *m, double x){ for(size_t i = 0; i < m->row; i++) for(size_t j = 0; j < m->col; j++) m->data[i][j] = x; }
static int shape_is(matrix *m, int rows, int cols, int e){
  if((int)m->row == rows && (int)m->col == cols) return 1;
  miss(e, (int)m->row, (int)m->col, (double)m->row, (double)rows, "result shape"); return 0;
}
static int sgn(double x){ return x > 0 ? 1 : (x < 0 ? -1 : 0); }
static int note_done = 0;
static void need(arr *a, int n){ if(a->len != n){ fprintf(stderr, "expected-result list has %d cells, expected %d\n", a->len, n); exit(2); } }
static void cmp_mat(matrix *m, arr *want, int rows, int cols, int e, int deg, const char *what){
  need(want, rows * cols);
  if((int)m->row != rows || (int)m->col != cols){ miss(e, (int)m->row, (int)m->col, (double)m->row, (double)rows, "result shape"); return; }
  for(int i = 0; i < rows; i++) for(int j = 0; j < cols; j++) CHK(e, i, j, m->data[i][j], scd((double)want->v[i * cols + j], e, deg), 0.0, 0.0, what);
}
static void cmp_vec(dvector *v, arr *want, int n, int e, int deg, const char *what){
  need(want, n);
  if((int)v->size != n){ miss(e, (int)v->size, 0, (double)v->size, (double)n, "result size"); return; }
  for(int i = 0; i < n; i++) CHK(e, i, 0, v->data[i], scd((double)want->v[i], e, deg), 0.0, 0.0, what);
}

static int drift = 0;
/* ---- K3 (location): every column moved by an offset of about 2^19 units, alternating in sign, so that |mean| / spread is 1e5 .. 5e5 while
   every value stays inside 1e-6 .. 1e6 (e <= 0 only: at the top scale the offset would leave the quantifier).  Exact in double (integers
   below 2^20 times the unit).  Besides the comparison made here, the largest relative residual of the shifted statistic goes to TLC as a
   Loc line: TraceKernels.tla holds the tolerance as a function of rows, offset and spread. ---- */
#define LOC_OFF 524288L
static long loc_off(int j){ long o = LOC_OFF - 4096L * (j % 8); return (j % 2) ? -o : o; }
static int loc_ok(int e){ return e <= 0 && e != MIX && e != DEC; }
static double loc_worst = 0.0;
static void loc_note(double got, double want, double floor_){
  double sc_ = fabs(want) > floor_ ? fabs(want) : floor_, rr = vfinite(got) ? fabs(got - want) / sc_ : 1e300;
  if(rr > loc_worst) loc_worst = rr;
}
static long max_abs_mant(arr *a){ long m = 1; for(int i = 0; i < a->len; i++){ long x = a->v[i] < 0 ? -a->v[i] : a->v[i]; if(x > m) m = x; } return m; }
static void emit_loc(const char *fn, kcase *q, int e, int n, long sp){
  VRT_EMIT("{\"e\":\"Loc\",\"fn\":\"%s\",\"sd\":%d,\"exp\":%d,\"r\":%d,\"k\":%d,\"c\":%d,\"n\":%d,\"off\":%ld,\"sp\":%ld,\"res\":%ld}", fn, q->sd, e, q->r, q->k, q->c, n, LOC_OFF, sp, vq12(loc_worst));
}
/* kernels run in the DEC pass (sums of products and averages: their tolerance is a plain function of the number of terms) */
static int dec_fn(const char *fn){
  static const char *L[] = { "MatrixDotProduct", "MatrixDVectorDotProduct", "MT_MatrixDVectorDotProduct", "DVectorMatrixDotProduct", "MT_DVectorMatrixDotProduct",
    "RowColOuterProduct", "DVectorTrasposedDVectorDotProduct", "MatrixTranspose", "MatrixTrace", "DVectorDVectorDotProd", "TransposedTensorDVectorProduct",
    "DvectorTensorDotProduct", "TensorMatrixDotProduct", "MatrixColAverage", "MatrixRowAverage", "DVectorMean", NULL };
  for(int i = 0; L[i]; i++) if(!strcmp(L[i], fn)) return 1;
  return 0;
}

/* ==== second batch ==================================================================================================== */
static tensor *tensor_of(arr *a, int k, int r, int c, int e){
  tensor *t; NewTensor(&t, k);
  if(a->len != k * r * c){ fprintf(stderr, "tensor operand size\n"); exit(2); }
  for(int s = 0; s < k; s++){
    NewTensorMatrix(t, s, r, c);
    for(int i = 0; i < r; i++) for(int j = 0; j < c; j++) t->m[s]->data[i][j] = ldexp((double)a->v[(s * r + i) * c + j], e);
  }
  return t;
}
static void emit_argext(const char *fn, kcase *q, int e, int mx, size_t row, size_t col){
  static char buf[1 << 16]; int p = 0, r = q->r, c = q->c;
  p += snprintf(buf + p, sizeof(buf) - p, "{\"e\":\"ArgExt\",\"fn\":\"%s\",\"sd\":%d,\"exp\":%d,\"max\":%d,\"rows\":%d,\"cols\":%d,\"m\":[", fn, q->sd, e, mx, r, c);
  for(int i = 0; i < r; i++){ p += snprintf(buf + p, sizeof(buf) - p, "%s[", i ? "," : ""); for(int j = 0; j < c; j++) p += snprintf(buf + p, sizeof(buf) - p, "%s%ld", j ? "," : "", q->in[0].v[i * c + j]); p += snprintf(buf + p, sizeof(buf) - p, "]"); }
  p += snprintf(buf + p, sizeof(buf) - p, "],\"row\":%ld,\"col\":%ld}", row > 1000000 ? 1000000L : (long)row, col > 1000000 ? 1000000L : (long)col);
  VRT_EMIT("%s", buf);
}

/* MatrixColDescStat on one operand; cols of the expected lists: S sum, MD twice the median, H sum of 60/x (or NULL), VN n*sumsq - sum^2, MN, MX, NZ zeros */
static void descstat_cmp(matrix *ds, int r, int c, int e, arr *S, arr *MD, arr *H, arr *VN, arr *MN, arr *MX, arr *NZ){
  double n = (double)r;
  for(int j = 0; j < c; j++){
    int ej = ecol(e, j);
    double *g = ds->data[j], s = (double)S->v[j], vn = (double)VN->v[j];
    CHK(e, j, 0, g[0], ldexp(s, ej) / n, 4 * EPS, 0.0, "average = column sum / n");
    CHK(e, j, 1, g[1], ldexp((double)MD->v[j], ej) / 2.0, 0.0, 0.0, "median = middle order statistic (mean of the two middle ones for even n)");
    if(H) CHK(e, j, 2, g[2], ldexp(n * 60.0, ej) / (double)H->v[j], 1e-13, 0.0, "harmonic mean = n / sum(1/x)");
    double vp = ldexp(vn, 2 * ej) / (n * n), fl = ldexp(1.0, 2 * ej);
    CHK(e, j, 3, g[3], vp, 1e-12, fl, "population variance = (n*sumsq - sum^2)/n^2");
    if(!(g[5] >= 0.0)) miss(e, j, 5, g[5], sqrt(vp), "population sdev >= 0");
    CHK(e, j, 5, g[5] * g[5], vp, 1e-12, fl, "population sdev^2 = population variance");
    if(r >= 2){
      double vs = ldexp(vn, 2 * ej) / (n * (n - 1.0));
      CHK(e, j, 4, g[4], vs, 1e-12, fl, "sample variance = (n*sumsq - sum^2)/(n(n-1))");
      if(!(g[6] >= 0.0)) miss(e, j, 6, g[6], sqrt(vs), "sample sdev >= 0");
      CHK(e, j, 6, g[6] * g[6], vs, 1e-12, fl, "sample sdev^2 = sample variance");
    }
    if(H && s > 0){                        /* coefficient of variation (percent) = 100 sdev / mean, positive operand only */
      if(!(g[7] >= 0.0)) miss(e, j, 7, g[7], 0.0, "CV >= 0 for a positive column");
      CHK(e, j, 7, g[7] * g[7], 1e4 * vn / (s * s), 1e-12, 1.0, "CV^2 = 10000 * population variance / mean^2");
      if(r >= 2) CHK(e, j, 8, g[8] * g[8], 1e4 * vn * n / ((n - 1.0) * s * s), 1e-12, 1.0, "CV^2 = 10000 * sample variance / mean^2");
    }
    CHK(e, j, 9, g[9], ldexp((double)MN->v[j], ej), 0.0, 0.0, "column minimum");
    CHK(e, j, 10, g[10], ldexp((double)MX->v[j], ej), 0.0, 0.0, "column maximum");
    if(ej >= 0) CHK(e, j, 11, g[11], (double)NZ->v[j], 0.0, 0.0, "number of zeros");     /* at 2^-20 the unit itself is below the routine's 1e-6 zero threshold */
    CHK(e, j, 12, g[12], 0.0, 0.0, 0.0, "number of missing values");
  }
}

static int run_two(const char *fn, kcase *q, int e){
  int r = q->r, k = q->k, c = q->c;
  if(!strcmp(fn, "DVectorDVectorDiff") || !strcmp(fn, "DVectorDVectorSum")){
    if(e == MIX) return 1;
    int sum = fn[14] == 'S';
    dvector *a = vec_of(&q->in[0], r, e), *b = vec_of(&q->in[1], r, e), *o; initDVector(&o);
    if(sum) DVectorDVectorSum(a, b, o); else DVectorDVectorDiff(a, b, o);
    cmp_vec(o, &q->out[sum ? 1 : 0], r, e, 1, sum ? "s[i] = a[i] + b[i]" : "d[i] = a[i] - b[i]");
    DelDVector(&a); DelDVector(&b); DelDVector(&o);
  }
  else if(!strcmp(fn, "DVectNorm")){
    if(e == MIX || r < 1) return 1;
    need(&q->out[3], 1);
    double n2 = (double)q->out[3].v[0];
    if(n2 <= 0) return 1;                  /* the zero vector has no direction */
    for(int pass = 0; pass < 3; pass++){   /* fresh output, already sized non-zero output, in place (as pca.c / pls.c call it) */
      dvector *v = vec_of(&q->in[0], r, e), *nv;
      if(pass == 2) nv = v; else { NewDVector(&nv, r); if(pass == 1) for(int i = 0; i < r; i++) nv->data[i] = STALE; }
      stale_pass = pass == 1;
      DVectNorm(v, nv);
      if((int)nv->size != r) miss(e, (int)nv->size, 0, (double)nv->size, (double)r, "result size");
      else{
        double s2 = 0.0;
        for(int i = 0; i < r; i++){
          double x = (double)q->in[0].v[i], g = nv->data[i];
          if(sgn(x) != sgn(g)) miss(e, i, 0, g, x / sqrt(n2), "sign of v[i]/|v|");
          CHK(e, i, 0, g * g * n2, x * x, 8 * EPS, 0.0, "(v[i]/|v|)^2 * |v|^2 = v[i]^2");
          s2 += g * g;
        }
        CHKA(e, 0, 0, s2, 1.0, (r + 8) * EPS, "| v/|v| |^2 = 1");
      }
      stale_pass = 0;
      if(pass != 2) DelDVector(&nv);
      DelDVector(&v);
    }
  }
  else if(!strcmp(fn, "DVectorMinMax")){
    if(e == MIX || r < 1) return 1;
    need(&q->out[2], 3);
    dvector *v = vec_of(&q->in[0], r, e);
    double mn = STALE, mx = STALE, mn2 = STALE, mx2 = STALE;
    DVectorMinMax(v, &mn, &mx); DVectorMinMax(v, &mn2, NULL); DVectorMinMax(v, NULL, &mx2);
    CHK(e, 0, 0, mn, ldexp((double)q->out[2].v[0], e), 0.0, 0.0, "min = smallest entry");
    CHK(e, 1, 0, mx, ldexp((double)q->out[2].v[1], e), 0.0, 0.0, "max = largest entry");
    CHK(e, 0, 1, mn2, ldexp((double)q->out[2].v[0], e), 0.0, 0.0, "min = smallest entry (max not requested)");
    CHK(e, 1, 1, mx2, ldexp((double)q->out[2].v[1], e), 0.0, 0.0, "max = largest entry (min not requested)");
    DelDVector(&v);
  }
  else if(!strcmp(fn, "DVectorMedian")){
    if(e == MIX || r < 1) return 1;
    need(&q->out[2], 3);
    dvector *v = vec_of(&q->in[0], r, e);
    double med = STALE;
    DVectorMedian(v, &med);
    CHK(e, 0, 0, med, ldexp((double)q->out[2].v[2], e) / 2.0, 0.0, 0.0, "median = middle order statistic (mean of the two middle ones for even n)");
    DelDVector(&v);
  }
  else if(!strcmp(fn, "Matrix2SquareMatrix") || !strcmp(fn, "Matrix2ABSMatrix")){
    if(e == MIX) return 1;
    int sq = fn[7] == 'S';
    matrix *m = mat_of(&q->in[0], r, c, e), *o; initMatrix(&o);
    for(int pass = 0; pass < 2; pass++){
      if(pass){ fill_mat(o, STALE); stale_pass = 1; }
      if(sq) Matrix2SquareMatrix(m, o); else Matrix2ABSMatrix(m, o);
      cmp_mat(o, &q->out[sq ? 0 : 1], r, c, e, sq ? 2 : 1, sq ? "o[i][j] = m[i][j]^2" : "o[i][j] = |m[i][j]|");
    }
    stale_pass = 0;
    DelMatrix(&m); DelMatrix(&o);
  }
  else if(!strcmp(fn, "Matrix2SQRTMatrix")){
    if(e == MIX) return 1;
    e = e - (e % 2);                                                      /* an even exponent: sqrt(x * 4^(e/2)) = sqrt(x) * 2^(e/2) exactly */
    need(&q->out[8], r * c);
    matrix *m = mat_of(&q->out[0], r, c, 2 * e), *o; initMatrix(&o);      /* perfect squares: the square root is exact */
    Matrix2SQRTMatrix(m, o);
    cmp_mat(o, &q->out[1], r, c, e, 1, "sqrt(x^2) = |x|");
    DelMatrix(&m);
    m = mat_of(&q->out[1], r, c, e);                                      /* |m| scaled by 4^(e/2) */
    for(int pass = 0; pass < 2; pass++){
      if(pass){ fill_mat(o, STALE); stale_pass = 1; }
      Matrix2SQRTMatrix(m, o);
      if(shape_is(o, r, c, e)) for(int i = 0; i < r; i++) for(int j = 0; j < c; j++){
        double g = o->data[i][j], lo = ldexp((double)q->out[8].v[i * c + j], e / 2);
        if(!(g >= lo && g < lo + ldexp(1.0, e / 2))) miss(e, i, j, g, lo, "floor(sqrt(x)) <= sqrt(x) < floor(sqrt(x)) + 1");
        CHK(e, i, j, g * g, m->data[i][j], 4 * EPS, 0.0, "sqrt(x)^2 = x");
      }
    }
    stale_pass = 0;
    DelMatrix(&m); DelMatrix(&o);
  }
  else if(!strcmp(fn, "Matrix2LogMatrix")){
    if(e != 0) return 1;                   /* the logarithm is not homogeneous: the operand spans 0 .. 999999 by itself */
    need(&q->out[6], r * c); need(&q->out[7], r * c);
    matrix *m = mat_of(&q->in[1], r, c, 0), *o; initMatrix(&o);
    for(int pass = 0; pass < 2; pass++){
      if(pass){ fill_mat(o, STALE); stale_pass = 1; }
      Matrix2LogMatrix(m, o);
      if(shape_is(o, r, c, e)) for(int i = 0; i < r; i++) for(int j = 0; j < c; j++){
        double g = o->data[i][j], lo = (double)q->out[6].v[i * c + j] / 3.0;
        if(q->out[7].v[i * c + j]) CHKA(e, i, j, g, lo, 4 * EPS * (lo > 1 ? lo : 1), "log10(x+1) = p when x+1 = 10^p");
        else if(!(g >= lo - 1e-12 && g < lo + 1.0 / 3.0 + 1e-12)) miss(e, i, j, g, lo, "q/3 <= log10(x+1) < (q+1)/3 with 10^q <= (x+1)^3 < 10^(q+1)");
      }
    }
    stale_pass = 0;
    DelMatrix(&m); DelMatrix(&o);
  }
  else if(!strcmp(fn, "MatrixRowCenterScaling")){
    if(e == MIX) return 1;
    need(&q->out[2], r);
    matrix *m = mat_of(&q->in[0], r, c, e), *o; initMatrix(&o);
    for(int pass = 0; pass < 2; pass++){
      if(pass){ fill_mat(o, STALE); stale_pass = 1; }
      MatrixRowCenterScaling(m, o);
      if(shape_is(o, r, c, e)) for(int i = 0; i < r; i++){
        long rs = q->out[2].v[i];
        if(rs == 0) continue;              /* a row that sums to zero cannot be scaled to unit sum */
        for(int j = 0; j < c; j++) CHK(e, i, j, o->data[i][j], (double)q->in[0].v[i * c + j] / (double)rs, 4 * EPS, 0.0, "o[i][j] = m[i][j] / row sum");
      }
    }
    stale_pass = 0;
    DelMatrix(&m); DelMatrix(&o);
  }
  else if(!strcmp(fn, "MatrixSVNScaling")){
    if(e == MIX || c < 2) return 1;        /* the row standard deviation needs two columns */
    need(&q->out[3], r * c); need(&q->out[4], r);
    matrix *m = mat_of(&q->in[0], r, c, e), *o; initMatrix(&o);
    for(int pass = 0; pass < 2; pass++){
      if(pass){ fill_mat(o, STALE); stale_pass = 1; }
      MatrixSVNScaling(m, o);
      if(shape_is(o, r, c, e)) for(int i = 0; i < r; i++){
        double den = (double)q->out[4].v[i];
        if(den <= 0) continue;             /* a constant row has no standard deviation */
        for(int j = 0; j < c; j++){
          double num = (double)q->out[3].v[i * c + j], g = o->data[i][j];
          if(num != 0 && sgn(g) != sgn(num)) miss(e, i, j, g, (num < 0 ? -1 : 1) * sqrt(fabs(num) / den), "sign of (x - row mean)/row sdev");
          CHK(e, i, j, g * g, fabs(num) / den, 1e-12, 1.0, "((x - row mean)/row sdev)^2 = (c x - rowsum)^2 (c-1) / (c (c sumsq - rowsum^2))");
        }
      }
    }
    stale_pass = 0;
    DelMatrix(&m); DelMatrix(&o);
  }
  else if(!strcmp(fn, "GenIdentityMatrix")){
    if(e == MIX) return 1;
    for(int pass = 0; pass < 2; pass++){
      matrix *m;
      if(pass == 0){ if(e != 0) continue; NewMatrix(&m, r, c); }
      else{                                /* a matrix that already holds data */
        m = mat_of(&q->in[0], r, c, e);
        for(int i = 0; i < r; i++) for(int j = 0; j < c; j++) if(m->data[i][j] == 0.0) m->data[i][j] = STALE;
        stale_pass = 1;
      }
      GenIdentityMatrix(m);
      if(r == c){ cmp_mat(m, &q->out[5], r, r, e, 0, "identity: 1 on the diagonal, 0 elsewhere"); }
      stale_pass = 0;
      DelMatrix(&m);
    }
  }
  else if(!strcmp(fn, "MatrixGetMaxValueIndex") || !strcmp(fn, "MatrixGetMinValueIndex")){
    if(e == MIX || r < 1 || c < 1) return 1;     /* an empty matrix has no extreme cell */
    int mx = fn[10] == 'a';
    matrix *m = mat_of(&q->in[0], r, c, e);
    size_t row = 777, col = 777;
    if(mx) MatrixGetMaxValueIndex(m, &row, &col); else MatrixGetMinValueIndex(m, &row, &col);
    emit_argext(fn, q, e, mx, row, col);
    DelMatrix(&m);
  }
  else if(!strcmp(fn, "MatrixColDescStat")){
    if(r == 0 && c > 0) return 1;          /* statistics of empty columns are not defined */
    if(r > 0 && q->nout < 13){ fprintf(stderr, "DescStat case without expected lists\n"); exit(2); }
    for(int which = 0; which < 2; which++){  /* 0: positive operand (all 13 statistics); 1: signed operand with zeros (no harmonic mean / CV) */
      matrix *m = mat_of_cols(&q->in[which], r, c, e), *ds; initMatrix(&ds);
      for(int pass = 0; pass < 2; pass++){
        if(pass){ fill_mat(ds, STALE); stale_pass = 1; }
        MatrixColDescStat(m, ds);
        if(!shape_is(ds, c, 13, e) || r == 0) continue;
        if(which == 0) descstat_cmp(ds, r, c, e, &q->out[0], &q->out[1], &q->out[2], &q->out[3], &q->out[4], &q->out[5], &q->out[6]);
        else descstat_cmp(ds, r, c, e, &q->out[7], &q->out[8], NULL, &q->out[9], &q->out[10], &q->out[11], &q->out[12]);
      }
      stale_pass = 0;
      if(which == 1 && loc_ok(e) && r >= 2 && c >= 1){          /* K3 */
        for(int i = 0; i < r; i++) for(int j = 0; j < c; j++) m->data[i][j] += ldexp((double)loc_off(j), e);
        MatrixColDescStat(m, ds);
        loc_worst = 0.0;
        if(shape_is(ds, c, 13, e)) for(int j = 0; j < c; j++){
          double n = (double)r, vn = ldexp((double)q->out[9].v[j], 2 * e), fl = ldexp(1.0, 2 * e), *g = ds->data[j];
          CHK(e, j, 3, g[3], vn / (n * n), 1e-8, fl, "population variance unchanged by a column location shift of 2^19 units");
          CHK(e, j, 4, g[4], vn / (n * (n - 1.0)), 1e-8, fl, "sample variance unchanged by a column location shift of 2^19 units");
          CHK(e, j, 6, g[6] * g[6], vn / (n * (n - 1.0)), 1e-8, fl, "sample sdev^2 unchanged by a column location shift of 2^19 units");
          CHK(e, j, 0, g[0], ldexp((double)q->out[7].v[j], e) / n + ldexp((double)loc_off(j), e), 4 * EPS, 0.0, "average moves with the column");
          CHK(e, j, 9, g[9], ldexp((double)(q->out[10].v[j] + loc_off(j)), e), 0.0, 0.0, "minimum moves with the column");
          CHK(e, j, 10, g[10], ldexp((double)(q->out[11].v[j] + loc_off(j)), e), 0.0, 0.0, "maximum moves with the column");
          loc_note(g[3], vn / (n * n), fl); loc_note(g[4], vn / (n * (n - 1.0)), fl);
        }
        emit_loc(fn, q, e, r, max_abs_mant(&q->in[1]));
      }
      DelMatrix(&m); DelMatrix(&ds);
    }
  }
  else if(!strcmp(fn, "MatrixColDescStat@missing")){
    if(e == MIX || r < 3) return 1;
    need(&q->in[1], c); need(&q->out[0], 8 * c);
    matrix *m = mat_of(&q->in[0], r, c, e), *ds; initMatrix(&ds);
    for(int j = 0; j < c; j++) if(q->in[1].v[j] > 0) m->data[q->in[1].v[j] - 1][j] = MISSING;
    MatrixColDescStat(m, ds);
    if(shape_is(ds, c, 13, e)) for(int j = 0; j < c; j++){
      long *w = &q->out[0].v[8 * j];        /* n, sum, twice the median, n*sumsq - sum^2, min, max, zeros, missing: of the column without its missing cell */
      double n = (double)w[0], *g = ds->data[j], fl = ldexp(1.0, 2 * e);
      CHK(e, j, 12, g[12], (double)w[7], 0.0, 0.0, "number of missing values");
      CHK(e, j, 0, g[0], ldexp((double)w[1], e) / n, 4 * EPS, 0.0, "average of the non-missing entries");
      CHK(e, j, 1, g[1], ldexp((double)w[2], e) / 2.0, 0.0, 0.0, "median of the non-missing entries");
      CHK(e, j, 3, g[3], ldexp((double)w[3], 2 * e) / (n * n), 1e-12, fl, "population variance of the non-missing entries");
      CHK(e, j, 4, g[4], ldexp((double)w[3], 2 * e) / (n * (n - 1.0)), 1e-12, fl, "sample variance of the non-missing entries");
      CHK(e, j, 9, g[9], ldexp((double)w[4], e), 0.0, 0.0, "minimum of the non-missing entries");
      CHK(e, j, 10, g[10], ldexp((double)w[5], e), 0.0, 0.0, "maximum of the non-missing entries");
      if(e >= 0) CHK(e, j, 11, g[11], (double)w[6], 0.0, 0.0, "number of zeros among the non-missing entries");
    }
    DelMatrix(&m); DelMatrix(&ds);
  }
  else if(!strcmp(fn, "PearsonCorrelMatrix")){
    need(&q->out[0], c * c);
    matrix *m = mat_of_cols(&q->in[0], r, c, e), *o; initMatrix(&o);
    for(int pass = 0; pass < 2; pass++){
      if(pass){ fill_mat(o, STALE); stale_pass = 1; }
      PearsonCorrelMatrix(m, o);
      if(!shape_is(o, c, c, e) || r < 2) continue;       /* a correlation needs two observations */
      long *cv = q->out[0].v;
      for(int i = 0; i < c; i++){
        CHK(e, i, i, o->data[i][i], 1.0, 0.0, 0.0, "unit diagonal");
        for(int j = 0; j < c; j++){
          if(j == i) continue;
          double g = o->data[i][j];
          if(g != o->data[j][i]) miss(e, i, j, g, o->data[j][i], "symmetric");
          if(cv[i * c + i] <= 0 || cv[j * c + j] <= 0) continue;       /* a constant column has no correlation */
          double cij = (double)cv[i * c + j], r2 = cij * cij / ((double)cv[i * c + i] * (double)cv[j * c + j]);
          int ok_sq = vfinite(g) && fabs(g - r2) <= 1e-12;
          int ok_r = vfinite(g) && fabs(g * g - r2) <= 1e-12 && (r2 < 1e-9 || sgn(g) == sgn(cij));
          if(!(g >= -1.0 - 1e-12 && g <= 1.0 + 1e-12)) miss(e, i, j, g, r2, "entries in [-1, 1]");
          if(!ok_sq && !ok_r) miss(e, i, j, g, r2, "r[i][j]^2 = cov[i][j]^2 / (cov[i][i] cov[j][j]) (r or its square accepted)");
          else if(ok_sq && !ok_r && cij < 0 && !note_done){
            note_done = 1;
            VRT_EMIT("{\"e\":\"Note\",\"fn\":\"%s\",\"what\":\"rsq\",\"r\":%d,\"c\":%d,\"at\":[%d,%d],\"got\":\"%.17g\",\"pearson\":\"%.17g\"}", fn, r, c, i, j, g, -sqrt(r2));
          }
        }
      }
    }
    stale_pass = 0;
    DelMatrix(&m); DelMatrix(&o);
  }
  else if(!strcmp(fn, "SpearmanCorrelMatrix")){
    need(&q->out[1], c * c); need(&q->out[2], 1);
    matrix *o; initMatrix(&o);
    for(int pass = 0; pass < 3; pass++){   /* fresh output; already sized output; odd columns replaced by their cubes (a strictly increasing map) */
      matrix *m = mat_of_cols(&q->in[1], r, c, e);
      if(pass == 1){ fill_mat(o, STALE); stale_pass = 1; }
      if(pass == 2) for(int i = 0; i < r; i++) for(int j = 0; j < c; j++)       /* MonoCols of Kernels.tla: x^3 on odd columns (1-based), 2x - 7 units on even ones */
        m->data[i][j] = (j % 2 == 0) ? m->data[i][j] * m->data[i][j] * m->data[i][j] : 2.0 * m->data[i][j] - ldexp(7.0, ecol(e, j));
      SpearmanCorrelMatrix(m, o);
      if(shape_is(o, c, c, e) && r >= 2){
        double den = (double)q->out[2].v[0];
        for(int i = 0; i < c; i++) for(int j = 0; j < c; j++)
          CHKA(e, i, j, o->data[i][j], i == j ? 1.0 : (double)q->out[1].v[i * c + j] / den, 1e-13,
               pass == 2 ? "rho unchanged by a strictly increasing map of a column" : "rho[i][j] = 1 - 6 sum d^2 / (n (n^2 - 1)), d = difference of ranks");
      }
      stale_pass = 0;
      DelMatrix(&m);
    }
    DelMatrix(&o);
  }
  else if(!strcmp(fn, "DVectorTransposedMatrixDivision")){
    if(r < 1) return 1;
    need(&q->out[0], r);
    int sub = e == MIX ? 2 : 1;
    for(int u = 0; u < sub; u++){
      int ex = e == MIX ? (u ? -10 : 10) : e, em = e == MIX ? -ex : 0;     /* x in unit 2^ex, M in unit 2^em, v = x M in unit 2^(ex+em) */
      double xmax = 1.0;
      for(int i = 0; i < r; i++) if(fabs((double)q->out[0].v[i]) > xmax) xmax = fabs((double)q->out[0].v[i]);
      for(int pass = 0; pass < 2; pass++){
        matrix *m = mat_of(&q->in[1], r, r, em); dvector *v = vec_of(&q->in[0], r, ex + em), *x;
        if(pass){ NewDVector(&x, r); for(int i = 0; i < r; i++) x->data[i] = STALE; stale_pass = 1; } else initDVector(&x);
        DVectorTransposedMatrixDivision(v, m, x);
        if((int)x->size != r) miss(e, (int)x->size, 0, (double)x->size, (double)r, "result size");
        else for(int i = 0; i < r; i++) CHKA(e, i, 0, x->data[i], ldexp((double)q->out[0].v[i], ex), ldexp(1e-9 * xmax, ex), "x = v / M, the solution of x M = v");
        stale_pass = 0;
        DelMatrix(&m); DelDVector(&v); DelDVector(&x);
      }
    }
  }
  else if(!strcmp(fn, "TensorTranspose")){
    if(e == MIX) return 1;
    need(&q->out[3], k * r * c);
    tensor *t = tensor_of(&q->in[0], k, r, c, e), *t2; NewTensor(&t2, k);
    for(int s = 0; s < k; s++) NewTensorMatrix(t2, s, c, r);
    for(int pass = 0; pass < 2; pass++){
      if(pass){ for(int s = 0; s < k; s++) fill_mat(t2->m[s], STALE); stale_pass = 1; }
      TensorTranspose(t, t2);
      if((int)t2->order != k) miss(e, (int)t2->order, 0, (double)t2->order, (double)k, "result order");
      else for(int s = 0; s < k; s++) if(shape_is(t2->m[s], c, r, e)) for(int j = 0; j < c; j++) for(int i = 0; i < r; i++)
        CHK(e, j, i, t2->m[s]->data[j][i], ldexp((double)q->out[3].v[(s * c + j) * r + i], e), 0.0, 0.0, "t2[s][j][i] = t1[s][i][j]");
    }
    stale_pass = 0;
    DelTensor(&t); DelTensor(&t2);
  }
  else if(!strcmp(fn, "KronekerProductVectorMatrix")){
    need(&q->out[6], k * r * c);
    int ev = e == MIX ? 17 : e, em = e == MIX ? -19 : e;
    dvector *v = vec_of(&q->in[2], r, ev); matrix *m = mat_of(&q->in[3], c, k, em);
    tensor *t; NewTensor(&t, k);
    for(int s = 0; s < k; s++) NewTensorMatrix(t, s, r, c);
    for(int pass = 0; pass < 2; pass++){
      if(pass){ for(int s = 0; s < k; s++) fill_mat(t->m[s], STALE); stale_pass = 1; }
      KronekerProductVectorMatrix(v, m, t);
      for(int s = 0; s < k; s++) if(shape_is(t->m[s], r, c, e)) for(int i = 0; i < r; i++) for(int j = 0; j < c; j++)
        CHK(e, i, j, t->m[s]->data[i][j], ldexp((double)q->out[6].v[(s * r + i) * c + j], ev + em), 0.0, 0.0, "t[s][i][j] = v[i] m[j][s]");
    }
    stale_pass = 0;
    DelDVector(&v); DelMatrix(&m); DelTensor(&t);
  }
  else if(!strcmp(fn, "TensorColAverage") || !strcmp(fn, "TensorColSDEV")){
    if(e == MIX) return 1;
    int sdv = fn[9] == 'S';
    need(&q->out[4], c * k); need(&q->out[5], c * k);
    tensor *t = tensor_of(&q->in[0], k, r, c, e); matrix *o; initMatrix(&o);
    if(sdv){ if(r >= 2) TensorColSDEV(t, o); } else TensorColAverage(t, o);
    if(c >= 1 && r >= (sdv ? 2 : 1) && shape_is(o, c, k, e)) for(int j = 0; j < c; j++) for(int s = 0; s < k; s++){
      double g = o->data[j][s];
      if(!sdv) CHK(e, j, s, g, ldexp((double)q->out[4].v[j * k + s], e) / (double)r, 4 * EPS, 0.0, "o[j][s] = column sum of slice s / rows");
      else{
        if(!(g >= 0.0)) miss(e, j, s, g, 0.0, "sdev >= 0");
        CHK(e, j, s, g * g, ldexp((double)q->out[5].v[j * k + s], 2 * e) / ((double)r * (double)(r - 1)), 1e-12, ldexp(1.0, 2 * e), "o[j][s]^2 = sample variance of column j of slice s");
      }
    }
    if(sdv && loc_ok(e) && r >= 2 && c >= 1 && k >= 1){        /* K3: every column of every slice moved by its offset */
      for(int s = 0; s < k; s++) for(int i = 0; i < r; i++) for(int j = 0; j < c; j++) t->m[s]->data[i][j] += ldexp((double)loc_off(j + s), e);
      matrix *o2; initMatrix(&o2);
      TensorColSDEV(t, o2);
      loc_worst = 0.0;
      if(shape_is(o2, c, k, e)) for(int j = 0; j < c; j++) for(int s = 0; s < k; s++){
        double want = ldexp((double)q->out[5].v[j * k + s], 2 * e) / ((double)r * (double)(r - 1)), g = o2->data[j][s];
        CHK(e, j, s, g * g, want, 1e-8, ldexp(1.0, 2 * e), "o[j][s]^2 unchanged by a column location shift of 2^19 units");
        loc_note(g * g, want, ldexp(1.0, 2 * e));
      }
      emit_loc(fn, q, e, r, max_abs_mant(&q->in[0]));
      DelMatrix(&o2);
    }
    DelTensor(&t); DelMatrix(&o);
  }
  else return 0;
  return 1;
}


/* ---- one function, one case, one scale ---- */
static const int MTN[3] = { 2, 3, 5 };
static void run_one(const char *fn, kcase *q, int e){
  int r = q->r, k = q->k, c = q->c;
  if(e == DEC && !dec_fn(fn)) return;
  if(run_two(fn, q, e)) return;
  if(e == MIX) return;
  /* DEC pass: operands are mantissa * DECU (rounded), sums of `terms` products of size <= 25 DECU^2 (or entries <= 5 DECU) */
  #define DEC_TOL(terms, mag) (dec_abs = ((terms) + 4.0) * EPS * ((terms) > 1 ? (terms) : 1) * (mag))
  if(!strcmp(fn, "MatrixDotProduct")){
    matrix *a = mat_of(&q->in[0], r, k, e), *b = mat_of(&q->in[1], k, c, e), *p; NewMatrix(&p, r, c);
    MatrixDotProduct(a, b, p);
    DEC_TOL(k, 25.0 * DECU * DECU);
    cmp_mat(p, &q->out[0], r, c, e, 2, "c[i][j] = sum_k a[i][k] b[k][j]");
    DelMatrix(&a); DelMatrix(&b); DelMatrix(&p);
  }
  else if(!strcmp(fn, "MatrixDVectorDotProduct") || !strcmp(fn, "MT_MatrixDVectorDotProduct")){
    int mt = fn[0] == 'M' && fn[1] == 'T';
    for(int t = 0; t < (mt ? 3 : 1); t++){
      matrix *m = mat_of(&q->in[0], r, c, e); dvector *v = vec_of(&q->in[1], c, e), *p; NewDVector(&p, r);
      if(mt){ vrt_force_nproc(MTN[t]); MT_MatrixDVectorDotProduct(m, v, p); vrt_force_nproc(1); }
      else MatrixDVectorDotProduct(m, v, p);
      DEC_TOL(c, 25.0 * DECU * DECU);
      cmp_vec(p, &q->out[0], r, e, 2, "p[i] = sum_j m[i][j] v[j]");
      DelMatrix(&m); DelDVector(&v); DelDVector(&p);
    }
  }
  else if(!strcmp(fn, "DVectorMatrixDotProduct") || !strcmp(fn, "MT_DVectorMatrixDotProduct")){
    int mt = fn[0] == 'M' && fn[1] == 'T';
    for(int t = 0; t < (mt ? 3 : 1); t++){
      matrix *m = mat_of(&q->in[0], r, c, e); dvector *v = vec_of(&q->in[1], r, e), *p; NewDVector(&p, c);
      if(mt){ vrt_force_nproc(MTN[t]); MT_DVectorMatrixDotProduct(m, v, p); vrt_force_nproc(1); }
      else DVectorMatrixDotProduct(m, v, p);
      DEC_TOL(r, 25.0 * DECU * DECU);
      cmp_vec(p, &q->out[0], c, e, 2, "p[j] = sum_i v[i] m[i][j]");
      DelMatrix(&m); DelDVector(&v); DelDVector(&p);
    }
  }
  else if(!strcmp(fn, "RowColOuterProduct") || !strcmp(fn, "DVectorTrasposedDVectorDotProduct")){
    dvector *a = vec_of(&q->in[0], r, e), *b = vec_of(&q->in[1], c, e); matrix *m; NewMatrix(&m, r, c);
    if(fn[0] == 'R') RowColOuterProduct(a, b, m); else DVectorTrasposedDVectorDotProduct(a, b, m);
    DEC_TOL(1, 25.0 * DECU * DECU);
    cmp_mat(m, &q->out[0], r, c, e, 2, "m[i][j] = a[i] b[j]");
    DelDVector(&a); DelDVector(&b); DelMatrix(&m);
  }
  else if(!strcmp(fn, "MatrixTranspose")){
    matrix *m = mat_of(&q->in[0], r, c, e), *t; NewMatrix(&t, c, r);
    MatrixTranspose(m, t);
    dec_abs = 0.0;                          /* a copy: exact in every unit */
    cmp_mat(t, &q->out[0], c, r, e, 1, "t[j][i] = m[i][j]");
    DelMatrix(&m); DelMatrix(&t);
  }
  else if(!strcmp(fn, "MatrixTrace")){
    matrix *m = mat_of(&q->in[0], r, c, e);
    double tr = MatrixTrace(m);
    need(&q->out[0], 1);
    DEC_TOL(r, 5.0 * DECU);
    if(r == c) CHK(e, 0, 0, tr, scd((double)q->out[0].v[0], e, 1), 0.0, 0.0, "trace = sum_i m[i][i]");
    else if(tr != 0.0) drift = 1;          /* trace of a non-square matrix is not defined: only memory safety is judged */
    DelMatrix(&m);
  }
  else if(!strcmp(fn, "Matrixnorm")){
    matrix *m = mat_of(&q->in[0], r, c, e);
    double nr = Matrixnorm(m);
    if(q->out[0].len < 1){ fprintf(stderr, "Norm case without expected list\n"); exit(2); }
    if(!(nr >= 0.0)) miss(e, 0, 0, nr, sqrt(ldexp((double)q->out[0].v[0], 2 * e)), "norm >= 0");
    CHK(e, 0, 0, nr * nr, ldexp((double)q->out[0].v[0], 2 * e), 4 * EPS, 0.0, "norm^2 = sum of squares");
    if(loc_ok(e) && q->out[0].len >= 2 && r * c <= 64){   /* K3: |M + off|^2 = sumsq + 2 off total + r c off^2 (exact integers below 2^53) */
      double off = (double)loc_off(0), ss = (double)q->out[0].v[0] + 2.0 * off * (double)q->out[0].v[1] + (double)r * (double)c * off * off;
      for(int i = 0; i < r; i++) for(int j = 0; j < c; j++) m->data[i][j] += ldexp(off, e);
      nr = Matrixnorm(m);
      CHK(e, 0, 0, nr * nr, ldexp(ss, 2 * e), (r * c + 8) * EPS, 0.0, "norm^2 of a matrix moved by 2^19 units = sumsq + 2 off total + r c off^2");
    }
    DelMatrix(&m);
  }
  else if(!strcmp(fn, "MatrixNorm")){
    matrix *m = mat_of(&q->in[0], r, c, e), *nm; NewMatrix(&nm, r, c);
    MatrixNorm(m, nm);
    if(q->out[0].len < 1){ fprintf(stderr, "Norm case without expected list\n"); exit(2); }
    double n2 = (double)q->out[0].v[0];
    if(n2 > 0) for(int i = 0; i < r; i++) for(int j = 0; j < c; j++){
      double x = (double)q->in[0].v[i * c + j], g = nm->data[i][j];
      if((x > 0 && !(g > 0)) || (x < 0 && !(g < 0)) || (x == 0 && g != 0)) miss(e, i, j, g, x / sqrt(n2), "sign of m[i][j]/norm");
      CHK(e, i, j, g * g * n2, x * x, 8 * EPS, 0.0, "(m[i][j]/norm)^2 * norm^2 = m[i][j]^2");
    }
    DelMatrix(&m); DelMatrix(&nm);
  }
  else if(!strcmp(fn, "MatrixColAverage")){
    matrix *m = mat_of(&q->in[0], r, c, e); dvector *v; initDVector(&v);
    MatrixColAverage(m, v);
    need(&q->out[0], c);
    if(r >= 1){
      if((int)v->size != c) miss(e, (int)v->size, 0, (double)v->size, (double)c, "result size");
      else { DEC_TOL(r, 5.0 * DECU / (r > 0 ? r : 1)); for(int j = 0; j < c; j++) CHK(e, 0, j, v->data[j], scd((double)q->out[0].v[j], e, 1) / (double)r, 4 * EPS, 0.0, "column average = column sum / rows"); }
    }
    if(loc_ok(e) && r >= 1){                 /* K3: the average moves with the column */
      DelDVector(&v); initDVector(&v);
      for(int i = 0; i < r; i++) for(int j = 0; j < c; j++) m->data[i][j] += ldexp((double)loc_off(j), e);
      MatrixColAverage(m, v);
      if((int)v->size == c) for(int j = 0; j < c; j++) CHK(e, 0, j, v->data[j], ldexp((double)q->out[0].v[j], e) / (double)r + ldexp((double)loc_off(j), e), 4 * EPS, 0.0, "column average moves with a column location shift of 2^19 units");
    }
    DelMatrix(&m); DelDVector(&v);
  }
  else if(!strcmp(fn, "MatrixRowAverage")){
    matrix *m = mat_of(&q->in[0], r, c, e); dvector *v; initDVector(&v);
    MatrixRowAverage(m, v);
    need(&q->out[1], r);
    if(c >= 1){
      if((int)v->size != r) miss(e, (int)v->size, 0, (double)v->size, (double)r, "result size");
      else { DEC_TOL(c, 5.0 * DECU / (c > 0 ? c : 1)); for(int i = 0; i < r; i++) CHK(e, i, 0, v->data[i], scd((double)q->out[1].v[i], e, 1) / (double)c, 4 * EPS, 0.0, "row average = row sum / columns"); }
    }
    if(loc_ok(e) && c >= 1){                 /* K3: the average moves with the row */
      DelDVector(&v); initDVector(&v);
      for(int i = 0; i < r; i++) for(int j = 0; j < c; j++) m->data[i][j] += ldexp((double)loc_off(i), e);
      MatrixRowAverage(m, v);
      if((int)v->size == r) for(int i = 0; i < r; i++) CHK(e, i, 0, v->data[i], ldexp((double)q->out[1].v[i], e) / (double)c + ldexp((double)loc_off(i), e), 4 * EPS, 0.0, "row average moves with a row location shift of 2^19 units");
    }
    DelMatrix(&m); DelDVector(&v);
  }
  else if(!strcmp(fn, "MatrixColVar") || !strcmp(fn, "MatrixColSDEV")){
    if(r >= 2){                            /* the sample variance needs two rows */
      matrix *m = mat_of(&q->in[0], r, c, e); dvector *v; initDVector(&v);
      int sd = fn[9] == 'S';
      if(sd) MatrixColSDEV(m, v); else MatrixColVar(m, v);
      need(&q->out[3], c); need(&q->out[4], 3);
      double den = (double)q->out[4].v[2];
      if((int)v->size != c) miss(e, (int)v->size, 0, (double)v->size, (double)c, "result size");
      else for(int j = 0; j < c; j++){
        double want = ldexp((double)q->out[3].v[j], 2 * e) / den, g = v->data[j];
        if(sd){ if(!(g >= 0.0)) miss(e, 0, j, g, sqrt(want), "sdev >= 0"); g = g * g; }
        CHK(e, 0, j, g, want, 1e-12, ldexp(1.0, 2 * e), sd ? "sdev^2 = (n*sumsq - sum^2)/(n(n-1))" : "variance = (n*sumsq - sum^2)/(n(n-1))");
      }
      DelMatrix(&m); DelDVector(&v);
      /* the same columns moved to a location about 1e6 spreads away (exact in double: integer multiples of 2^e): variance and
         sdev are translation invariant (LawCovariance / ShiftCols in Kernels.tla) */
      if(loc_ok(e)){
        m = mat_of(&q->in[0], r, c, e); initDVector(&v);
        for(int i = 0; i < r; i++) for(int j = 0; j < c; j++) m->data[i][j] += ldexp((double)loc_off(j), e);
        if(sd) MatrixColSDEV(m, v); else MatrixColVar(m, v);
        loc_worst = 0.0;
        if((int)v->size == c) for(int j = 0; j < c; j++){
          double want = ldexp((double)q->out[3].v[j], 2 * e) / den, g = v->data[j];
          if(sd) g = g * g;
          CHK(e, 0, j, g, want, 1e-8, ldexp(1.0, 2 * e), sd ? "sdev^2 unchanged by a column location shift of 2^19 units" : "variance unchanged by a column location shift of 2^19 units");
          loc_note(g, want, ldexp(1.0, 2 * e));
        }
        if(c >= 1) emit_loc(fn, q, e, r, max_abs_mant(&q->in[0]));
        DelMatrix(&m); DelDVector(&v);
      }
    }
  }
  else if(!strcmp(fn, "MatrixColRMS")){
    if(r >= 1){
      matrix *m = mat_of(&q->in[0], r, c, e); dvector *v; initDVector(&v);
      MatrixColRMS(m, v);
      need(&q->out[2], c);
      if((int)v->size != c) miss(e, (int)v->size, 0, (double)v->size, (double)c, "result size");
      else for(int j = 0; j < c; j++){
        double g = v->data[j];
        if(!(g >= 0.0)) miss(e, 0, j, g, 0.0, "rms >= 0");
        CHK(e, 0, j, g * g, ldexp((double)q->out[2].v[j], 2 * e) / (double)r, 16 * EPS, 0.0, "rms^2 = column sum of squares / rows");
      }
      if(loc_ok(e)){                         /* K3: rms^2 of the moved column = (sumsq + 2 off sum + n off^2) / n, an exact integer identity (ColSums, ColSumSqs of Kernels.tla) */
        need(&q->out[0], c);
        DelDVector(&v); initDVector(&v);
        for(int i = 0; i < r; i++) for(int j = 0; j < c; j++) m->data[i][j] += ldexp((double)loc_off(j), e);
        MatrixColRMS(m, v);
        if((int)v->size == c) for(int j = 0; j < c; j++){
          double off = (double)loc_off(j), ss = (double)q->out[2].v[j] + 2.0 * off * (double)q->out[0].v[j] + (double)r * off * off, g = v->data[j];
          CHK(e, 0, j, g * g, ldexp(ss, 2 * e) / (double)r, 16 * EPS, 0.0, "rms^2 of a column moved by 2^19 units = (sumsq + 2 off sum + n off^2) / n");
        }
      }
      DelMatrix(&m); DelDVector(&v);
    }
  }
  else if(!strcmp(fn, "MatrixCovariance")){
    if(r >= 2){
      matrix *m = mat_of(&q->in[0], r, c, e), *cm; initMatrix(&cm);
      MatrixCovariance(m, cm);
      need(&q->out[0], c * c); need(&q->out[1], 1);
      double den = (double)q->out[1].v[0];
      if((int)cm->row != c || (int)cm->col != c) miss(e, (int)cm->row, (int)cm->col, (double)cm->row, (double)c, "result shape");
      else for(int i = 0; i < c; i++) for(int j = 0; j < c; j++)
        CHK(e, i, j, cm->data[i][j], ldexp((double)q->out[0].v[i * c + j], 2 * e) / den, 1e-12, ldexp(1.0, 2 * e), "cov[i][j] = (n*sum x_i x_j - sum x_i * sum x_j)/(n(n-1))");
      DelMatrix(&m); DelMatrix(&cm);
      /* translation invariance at a location about 1e6 spreads away (ShiftCols law) */
      if(loc_ok(e)){
        m = mat_of(&q->in[0], r, c, e); initMatrix(&cm);
        for(int i = 0; i < r; i++) for(int j = 0; j < c; j++) m->data[i][j] += ldexp((double)loc_off(j), e);
        MatrixCovariance(m, cm);
        loc_worst = 0.0;
        if((int)cm->row == c && (int)cm->col == c) for(int i = 0; i < c; i++) for(int j = 0; j < c; j++){
          CHK(e, i, j, cm->data[i][j], ldexp((double)q->out[0].v[i * c + j], 2 * e) / den, 1e-8, ldexp(1.0, 2 * e), "covariance unchanged by a column location shift of 2^19 units");
          loc_note(cm->data[i][j], ldexp((double)q->out[0].v[i * c + j], 2 * e) / den, ldexp(1.0, 2 * e));
          if(cm->data[i][j] != cm->data[j][i]) miss(e, i, j, cm->data[i][j], cm->data[j][i], "covariance symmetric");
        }
        if(c >= 1) emit_loc(fn, q, e, r, max_abs_mant(&q->in[0]));
        DelMatrix(&m); DelMatrix(&cm);
      }
    }
  }
  else if(!strcmp(fn, "DVectorDVectorDotProd")){
    dvector *a = vec_of(&q->in[0], r, e), *b = vec_of(&q->in[1], r, e);
    need(&q->out[0], 4);
    DEC_TOL(r, 25.0 * DECU * DECU);
    CHK(e, 0, 0, DVectorDVectorDotProd(a, b), scd((double)q->out[0].v[0], e, 2), 0.0, 0.0, "dot = sum_i a[i] b[i]");
    DelDVector(&a); DelDVector(&b);
  }
  else if(!strcmp(fn, "DvectorModule")){
    dvector *a = vec_of(&q->in[0], r, e);
    double g = DvectorModule(a);
    if(!(g >= 0.0)) miss(e, 0, 0, g, 0.0, "module >= 0");
    CHK(e, 0, 0, g * g, ldexp((double)q->out[0].v[1], 2 * e), 4 * EPS, 0.0, "module^2 = sum of squares");
    DelDVector(&a);
  }
  else if(!strcmp(fn, "DVectorMean")){
    if(r >= 1){
      dvector *a = vec_of(&q->in[0], r, e); double g;
      DVectorMean(a, &g);
      DEC_TOL(r, 5.0 * DECU / r);
      CHK(e, 0, 0, g, scd((double)q->out[0].v[2], e, 1) / (double)r, 4 * EPS, 0.0, "mean = sum / n");
      if(loc_ok(e)){                         /* K3: the mean moves with the vector */
        for(int i = 0; i < r; i++) a->data[i] += ldexp((double)loc_off(0), e);
        DVectorMean(a, &g);
        CHK(e, 0, 0, g, ldexp((double)q->out[0].v[2], e) / (double)r + ldexp((double)loc_off(0), e), 4 * EPS, 0.0, "mean moves with a location shift of 2^19 units");
      }
      DelDVector(&a);
    }
  }
  else if(!strcmp(fn, "DVectorSDEV")){
    if(r >= 1){
      dvector *a = vec_of(&q->in[0], r, e); double g;
      DVectorSDEV(a, &g);
      if(!(g >= 0.0)) miss(e, 0, 0, g, 0.0, "sdev >= 0");
      CHK(e, 0, 0, g * g, ldexp((double)q->out[0].v[3], 2 * e) / ((double)r * (double)r), 1e-12, ldexp(1.0, 2 * e), "population sdev^2 = (n*sumsq - sum^2)/n^2");
      if(loc_ok(e) && r >= 2){                /* K3: the same vector about 1e5 spreads away from the origin */
        for(int i = 0; i < r; i++) a->data[i] += ldexp((double)loc_off(1), e);
        DVectorSDEV(a, &g);
        double want = ldexp((double)q->out[0].v[3], 2 * e) / ((double)r * (double)r);
        CHK(e, 0, 0, g * g, want, 1e-8, ldexp(1.0, 2 * e), "population sdev^2 unchanged by a location shift of 2^19 units");
        loc_worst = 0.0; loc_note(g * g, want, ldexp(1.0, 2 * e)); emit_loc(fn, q, e, r, max_abs_mant(&q->in[0]));
      }
      DelDVector(&a);
    }
  }
  else if(!strcmp(fn, "TransposedTensorDVectorProduct") || !strcmp(fn, "DvectorTensorDotProduct") || !strcmp(fn, "TensorMatrixDotProduct")){
    tensor *t; NewTensor(&t, k);
    if(q->in[0].len != k * r * c){ fprintf(stderr, "tensor operand size\n"); exit(2); }
    for(int s = 0; s < k; s++){
      NewTensorMatrix(t, s, r, c);
      for(int i = 0; i < r; i++) for(int j = 0; j < c; j++) t->m[s]->data[i][j] = sc((double)q->in[0].v[(s * r + i) * c + j], e);
    }
    DEC_TOL((fn[0] == 'D' ? r : (fn[1] == 'r' ? c : c * k)), 25.0 * DECU * DECU);
    if(fn[0] == 'T' && fn[1] == 'r'){
      dvector *v = vec_of(&q->in[1], c, e); matrix *p; NewMatrix(&p, k, r);
      TransposedTensorDVectorProduct(t, v, p);
      cmp_mat(p, &q->out[0], k, r, e, 2, "p[s][i] = sum_j t[s][i][j] v[j]");
      DelDVector(&v); DelMatrix(&p);
    }
    else if(fn[0] == 'D'){
      dvector *v = vec_of(&q->in[2], r, e); matrix *p; NewMatrix(&p, c, k);
      DvectorTensorDotProduct(t, v, p);
      cmp_mat(p, &q->out[1], c, k, e, 2, "m[j][s] = sum_i v[i] t[s][i][j]");
      DelDVector(&v); DelMatrix(&p);
    }
    else{
      matrix *m = mat_of(&q->in[3], c, k, e); dvector *p; NewDVector(&p, r);
      TensorMatrixDotProduct(t, m, p);
      cmp_vec(p, &q->out[2], r, e, 2, "v[i] = sum_s sum_j t[s][i][j] m[j][s]");
      DelMatrix(&m); DelDVector(&p);
    }
    DelTensor(&t);
  }
  else if(!strcmp(fn, "MatrixSort") || !strcmp(fn, "MatrixReverseSort")){
    int rev = fn[6] == 'R';
    matrix *m = mat_of(&q->in[0], r, c, e);
    if(rev) MatrixReverseSort(m, (size_t)(k - 1)); else MatrixSort(m, (size_t)(k - 1));
    /* back to integers: every cell of the result must be an input cell (exact multiple of 2^e in -5..5) */
    int exact = ((int)m->row == r && (int)m->col == c);
    static char buf[1 << 16]; int p = 0;
    p += snprintf(buf + p, sizeof(buf) - p, "{\"e\":\"Sort\",\"fn\":\"%s\",\"sd\":%d,\"exp\":%d,\"rev\":%d,\"key\":%d,\"rows\":%d,\"cols\":%d,\"m\":[", fn, q->sd, e, rev, k, r, c);
    for(int i = 0; i < r; i++){ p += snprintf(buf + p, sizeof(buf) - p, "%s[", i ? "," : ""); for(int j = 0; j < c; j++) p += snprintf(buf + p, sizeof(buf) - p, "%s%ld", j ? "," : "", q->in[0].v[i * c + j]); p += snprintf(buf + p, sizeof(buf) - p, "]"); }
    p += snprintf(buf + p, sizeof(buf) - p, "],\"res\":[");
    for(int i = 0; exact && i < r; i++){
      p += snprintf(buf + p, sizeof(buf) - p, "%s[", i ? "," : "");
      for(int j = 0; j < c; j++){
        double x = ldexp(m->data[i][j], -e); long xi = (vfinite(x) && fabs(x) < 1e6) ? (long)llround(x) : 999999;
        if((double)xi != x) exact = 0;
        p += snprintf(buf + p, sizeof(buf) - p, "%s%ld", j ? "," : "", xi);
      }
      p += snprintf(buf + p, sizeof(buf) - p, "]");
    }
    p += snprintf(buf + p, sizeof(buf) - p, "],\"exact\":%d}", exact);
    VRT_EMIT("%s", buf);
    DelMatrix(&m);
  }
  else{ fprintf(stderr, "unknown function %s\n", fn); exit(2); }
}

static const char *family_of(const char *fn){
  static const char *T[][2] = {
    {"MatrixDotProduct", "MatrixDotProduct"}, {"MatrixDVectorDotProduct", "MatVec"}, {"MT_MatrixDVectorDotProduct", "MatVec"},
    {"DVectorMatrixDotProduct", "VecMat"}, {"MT_DVectorMatrixDotProduct", "VecMat"}, {"RowColOuterProduct", "Outer"},
    {"DVectorTrasposedDVectorDotProduct", "Outer"}, {"MatrixTranspose", "Transpose"}, {"MatrixTrace", "Trace"},
    {"Matrixnorm", "Norm"}, {"MatrixNorm", "Norm"}, {"MatrixColAverage", "ColStats"}, {"MatrixRowAverage", "ColStats"},
    {"MatrixColVar", "ColStats"}, {"MatrixColSDEV", "ColStats"}, {"MatrixColRMS", "ColStats"}, {"MatrixCovariance", "Covariance"},
    {"DVectorDVectorDotProd", "DVector"}, {"DvectorModule", "DVector"}, {"DVectorMean", "DVector"}, {"DVectorSDEV", "DVector"},
    {"TransposedTensorDVectorProduct", "Tensor"}, {"DvectorTensorDotProduct", "Tensor"}, {"TensorMatrixDotProduct", "Tensor"},
    {"MatrixSort", "Sort"}, {"MatrixReverseSort", "Sort"},
    {"DVectNorm", "DVector2"}, {"DVectorDVectorDiff", "DVector2"}, {"DVectorDVectorSum", "DVector2"}, {"DVectorMinMax", "DVector2"}, {"DVectorMedian", "DVector2"},
    {"Matrix2SquareMatrix", "MatMaps"}, {"Matrix2ABSMatrix", "MatMaps"}, {"Matrix2SQRTMatrix", "MatMaps"}, {"Matrix2LogMatrix", "MatMaps"},
    {"MatrixRowCenterScaling", "MatMaps"}, {"MatrixSVNScaling", "MatMaps"}, {"GenIdentityMatrix", "MatMaps"},
    {"MatrixGetMaxValueIndex", "MatMaps"}, {"MatrixGetMinValueIndex", "MatMaps"},
    {"MatrixColDescStat", "DescStat"}, {"MatrixColDescStat@missing", "DescStatMiss"},
    {"PearsonCorrelMatrix", "Correl"}, {"SpearmanCorrelMatrix", "Correl"}, {"DVectorTransposedMatrixDivision", "Division"},
    {"TensorTranspose", "Tensor"}, {"KronekerProductVectorMatrix", "Tensor"}, {"TensorColAverage", "Tensor"}, {"TensorColSDEV", "Tensor"},
    {NULL, NULL} };
  for(int i = 0; T[i][0]; i++) if(!strcmp(T[i][0], fn)) return T[i][1];
  return NULL;
}

static int read_arr(FILE *f, arr *a){
  if(fscanf(f, "%d", &a->len) != 1) return 0;
  a->v = malloc(sizeof(long) * (a->len > 0 ? a->len : 1));
  for(int i = 0; i < a->len; i++) if(fscanf(f, "%ld", &a->v[i]) != 1) return 0;
  return 1;
}

int main(int argc, char **argv){
  if(argc < 4){ fprintf(stderr, "usage: c11_replay cases.txt out.ndjson function\n"); return 2; }
  const char *fn = argv[3], *fam = family_of(fn);
  if(!fam){ fprintf(stderr, "unknown function %s\n", fn); return 2; }
  FILE *f = fopen(argv[1], "r"); if(!f){ perror(argv[1]); return 2; }
  vrt_open(argv[2]);
  cur_fn = fn;
  signal(SIGABRT, on_signal); signal(SIGFPE, on_signal);
#ifdef HAVE_DEATH_CB
  __sanitizer_set_death_callback(crash_line);
#else
  signal(SIGSEGV, on_signal); signal(SIGBUS, on_signal);
#endif
  vrt_force_nproc(1);
  kcase q; long ncases = 0;
  int issort = !strcmp(fam, "Sort") || !strncmp(fn, "MatrixGetM", 10);      /* functions whose results are recorded for TLC instead of compared here */
  int batch2 = !strcmp(fam, "DVector2") || !strcmp(fam, "MatMaps") || !strcmp(fam, "DescStat") || !strcmp(fam, "DescStatMiss") || !strcmp(fam, "Correl") ||
               !strcmp(fam, "Division") || !strcmp(fn, "TensorTranspose") || !strcmp(fn, "KronekerProductVectorMatrix") || !strncmp(fn, "TensorCol", 9);
  while(fscanf(f, "%31s %d %d %d %d %d %d", q.fam, &q.sd, &q.r, &q.k, &q.c, &q.nin, &q.nout) == 7){
    if(q.nin > 16 || q.nout > 16){ fprintf(stderr, "too many operand lists\n"); return 2; }
    for(int i = 0; i < q.nin; i++) if(!read_arr(f, &q.in[i])){ fprintf(stderr, "truncated case file\n"); return 2; }
    for(int i = 0; i < q.nout; i++) if(!read_arr(f, &q.out[i])){ fprintf(stderr, "truncated case file\n"); return 2; }
    if(!strcmp(q.fam, fam)){
      ncases++;
      cur = &q; mm.bad = 0; mm.scales = 0; drift = 0;
      if(issort) VRT_EMIT("{\"e\":\"Reset\"}");
      for(int x = 0; x < 3; x++){ cur_exp = EXPS[x]; run_one(fn, &q, EXPS[x]); }
      if(batch2){ cur_exp = MIX; run_one(fn, &q, MIX); }
      if(dec_fn(fn)){ static const double U[3] = { 0.1, 1.0 / 3.0, 1e-3 }; DECU = U[(q.r + q.k + q.c + q.sd) % 3]; cur_exp = DEC; dec_abs = 0.0; run_one(fn, &q, DEC); }
      cur = NULL;
      if(!issort){
        if(mm.bad)
          VRT_EMIT("{\"e\":\"Res\",\"fn\":\"%s\",\"sd\":%d,\"r\":%d,\"k\":%d,\"c\":%d,\"ok\":0,\"scales\":%d,\"exp\":%d,\"stale\":%d,\"at\":[%d,%d],\"got\":\"%.17g\",\"want\":\"%.17g\",\"what\":\"%s\"}",
                   fn, q.sd, q.r, q.k, q.c, mm.scales, mm.exp, mm.stale, mm.i, mm.j, mm.got, mm.want, mm.what);
        else
          VRT_EMIT("{\"e\":\"Res\",\"fn\":\"%s\",\"sd\":%d,\"r\":%d,\"k\":%d,\"c\":%d,\"ok\":1%s}", fn, q.sd, q.r, q.k, q.c, drift ? ",\"drift\":1" : "");
      }
    }
    for(int i = 0; i < q.nin; i++) free(q.in[i].v);
    for(int i = 0; i < q.nout; i++) free(q.out[i].v);
  }
  VRT_EMIT("{\"e\":\"Done\",\"fn\":\"%s\",\"cases\":%ld}", fn, ncases);
  vrt_close(); fclose(f);
  return 0;
}
