/* c12_trace.c - recording driver for C12 (ledger / exploration part): generated matrices of sizes 1..12 with condition
 * number <= 1e6 (SPD, symmetric indefinite, diagonal, permutation, zero leading minors, triangular, structured, general,
 * rectangular in both orientations) are passed to the library's inversion / determinant / solver / pseudo-inverse /
 * eigen / SVD routines; the residual of each defining equation is computed here in double (trusted projection),
 * quantised (vq12: units of 1e-12, saturating) and logged; TLC validates the log against spec/TraceLinAlg.tla.
 * Every library call runs in a forked child (vrt_run_child): an ASan abort, a SEGV or a hang is attributed to that call
 * and logged by the parent as a Crash event.
 *
 * usage: c12_trace <out.ndjson> <seed> <nmatrices>
 * Independent oracles: LAPACK dgesdd (condition number), dgetrf (determinant as product of pivots) called directly.
 */
#include "scientific.h"
#include "verif_rt.h"

extern void dgesdd_(char *jobz, int *m, int *n, double *a, int *lda, double *s, double *u, int *ldu, double *vt, int *ldvt, double *work, int *lwork, int *iwork, int *info);
extern void dgetrf_(int *M, int *N, double *A, int *lda, int *IPIV, int *INFO);

static vrng R;
static double lognrm(double lo, double hi){ return exp(log(lo) + (log(hi) - log(lo)) * vr_unif(&R)); }

/* ---- small dense helpers (row-major double arrays) ---- */
typedef struct { int r, c; double *a; } M;
static M mk(int r, int c){ M x; x.r = r; x.c = c; x.a = calloc((size_t)(r * c > 0 ? r * c : 1), sizeof(double)); return x; }
static void fr(M x){ free(x.a); }
#define E(x,i,j) (x).a[(size_t)(i) * (x).c + (j)]
static M mul(M a, M b){ M p = mk(a.r, b.c); for(int i = 0; i < a.r; i++) for(int k = 0; k < a.c; k++){ double v = E(a,i,k); if(v != 0) for(int j = 0; j < b.c; j++) E(p,i,j) += v * E(b,k,j); } return p; }
static M tr(M a){ M t = mk(a.c, a.r); for(int i = 0; i < a.r; i++) for(int j = 0; j < a.c; j++) E(t,j,i) = E(a,i,j); return t; }
static double fro(M a){ double s = 0; for(int i = 0; i < a.r * a.c; i++) s += a.a[i] * a.a[i]; return sqrt(s); }
static double maxabs(M a){ double s = 0; for(int i = 0; i < a.r * a.c; i++){ double v = fabs(a.a[i]); if(!(v <= s)) s = v; } return s; }
static M from_lib(matrix *m){ M x = mk((int)m->row, (int)m->col); for(int i = 0; i < x.r; i++) for(int j = 0; j < x.c; j++) E(x,i,j) = m->data[i][j]; return x; }
static matrix *to_lib(M x){ matrix *m; NewMatrix(&m, x.r, x.c); for(int i = 0; i < x.r; i++) for(int j = 0; j < x.c; j++) m->data[i][j] = E(x,i,j); return m; }
/* random orthogonal n x n: product of n Householder reflections */
static M rand_orth(int n){
  M q = mk(n, n); for(int i = 0; i < n; i++) E(q,i,i) = 1;
  double *v = malloc(sizeof(double) * n);
  for(int h = 0; h < n; h++){
    double nv = 0; for(int i = 0; i < n; i++){ v[i] = vr_norm(&R); nv += v[i] * v[i]; }
    if(nv < 1e-12) continue;
    for(int j = 0; j < n; j++){ double d = 0; for(int i = 0; i < n; i++) d += v[i] * E(q,i,j); d = 2 * d / nv; for(int i = 0; i < n; i++) E(q,i,j) -= d * v[i]; }
  }
  free(v); return q;
}
/* singular values of a (LAPACK, independent of the library's wrappers); returns cond2 (inf if singular) */
static double cond2(M a, double *smax){
  int m = a.r, n = a.c, k = m < n ? m : n, info, lwork = -1; if(k == 0) return INFINITY;
  double *cm = malloc(sizeof(double) * m * n), *s = malloc(sizeof(double) * k), wk, *work; int *iw = malloc(sizeof(int) * 8 * k);
  for(int i = 0; i < m; i++) for(int j = 0; j < n; j++) cm[i + (size_t)j * m] = E(a,i,j);
  double dum; int one = 1;
  dgesdd_("N", &m, &n, cm, &m, s, &dum, &one, &dum, &one, &wk, &lwork, iw, &info);
  lwork = (int)wk + 1; work = malloc(sizeof(double) * lwork);
  dgesdd_("N", &m, &n, cm, &m, s, &dum, &one, &dum, &one, work, &lwork, iw, &info);
  double c = (info == 0 && s[k - 1] > 0) ? s[0] / s[k - 1] : INFINITY; if(smax) *smax = s[0];
  free(cm); free(s); free(work); free(iw); return c;
}
static double rowsum_prod(M a){ double p = 1; for(int i = 0; i < a.r; i++){ double s = 0; for(int j = 0; j < a.c; j++) s += fabs(E(a,i,j)); p *= s; } return p > 0 ? p : 1e-300; }
static double det_lu(M a){
  int n = a.r, info; double *cm = malloc(sizeof(double) * n * n); int *ip = malloc(sizeof(int) * n);
  for(int i = 0; i < n; i++) for(int j = 0; j < n; j++) cm[i + (size_t)j * n] = E(a,i,j);
  dgetrf_(&n, &n, cm, &n, ip, &info);
  double d = 1; for(int i = 0; i < n; i++){ d *= cm[i + (size_t)i * n]; if(ip[i] != i + 1) d = -d; }
  free(cm); free(ip); return d;
}

/* ---- generators; every class returns a matrix with cond2 <= 1e6 (checked by the caller) ---- */
static M with_sv(int m, int n, double cond, double scale){      /* U diag(s) V' with prescribed singular values */
  int k = m < n ? m : n; M u = rand_orth(m), v = rand_orth(n), s = mk(m, n);
  for(int i = 0; i < k; i++) E(s,i,i) = scale * (k == 1 ? 1.0 : pow(cond, -(double)i / (k - 1)));
  if(k > 2 && vr_unif(&R) < 0.3) E(s,1,1) = E(s,0,0);          /* repeated singular value */
  M us = mul(u, s), vt = tr(v), a = mul(us, vt); fr(u); fr(v); fr(s); fr(us); fr(vt); return a;
}
static M sym_eig(int n, double cond, double scale, int indefinite){
  M q = rand_orth(n), d = mk(n, n);
  for(int i = 0; i < n; i++){ E(d,i,i) = scale * (n == 1 ? 1.0 : pow(cond, -(double)i / (n - 1))); if(indefinite && vr_unif(&R) < 0.5) E(d,i,i) = -E(d,i,i); }
  if(n > 2 && vr_unif(&R) < 0.4) E(d,1,1) = E(d,0,0);          /* repeated eigenvalue */
  M qd = mul(q, d), qt = tr(q), a = mul(qd, qt); fr(q); fr(d); fr(qd); fr(qt);
  for(int i = 0; i < n; i++) for(int j = 0; j < i; j++){ double v = 0.5 * (E(a,i,j) + E(a,j,i)); E(a,i,j) = E(a,j,i) = v; }
  return a;
}
static void rand_perm(int n, int *p){ for(int i = 0; i < n; i++) p[i] = i; for(int i = n - 1; i > 0; i--){ int j = (int)vr_int(&R, 0, i), t = p[i]; p[i] = p[j]; p[j] = t; } }
static const char *CLS[] = {"spd", "symm", "diag", "perm", "zlm", "tri", "toeplitz", "general", "intsmall", "graded"};
enum { SPD, SYMM, DIAG, PERM, ZLM, TRI, TOEP, GEN, INTS, GRADED, NCLS };
static M gen_square(int cls, int n, int *is_int){
  double cond = pow(10.0, 6.0 * vr_unif(&R) * vr_unif(&R)), scale = ldexp(1.0, (int)vr_int(&R, -10, 10));
  *is_int = 0;
  switch(cls){
    case SPD: return sym_eig(n, cond, scale, 0);
    case SYMM: return sym_eig(n, cond, scale, 1);
    case DIAG: { M a = mk(n, n); for(int i = 0; i < n; i++) E(a,i,i) = (vr_unif(&R) < 0.5 ? -1 : 1) * scale * lognrm(1.0 / cond, 1.0); return a; }
    case PERM: { M a = mk(n, n); int p[16]; rand_perm(n, p); for(int i = 0; i < n; i++) E(a,i,p[i]) = 1; *is_int = 1; return a; }
    case ZLM: { /* permutation (no fixed first row) times a well-conditioned upper triangular matrix: leading entries are zero */
      M t = mk(n, n); for(int i = 0; i < n; i++){ E(t,i,i) = scale * lognrm(0.2, 1.0) * (vr_unif(&R) < 0.5 ? -1 : 1); for(int j = i + 1; j < n; j++) E(t,i,j) = scale * 0.3 * vr_norm(&R) / n; }
      int p[16]; rand_perm(n, p); if(n > 1 && p[0] == 0){ p[0] = p[1]; p[1] = 0; }
      M a = mk(n, n); for(int i = 0; i < n; i++) for(int j = 0; j < n; j++) E(a,i,j) = E(t,p[i],j); fr(t); return a; }
    case TRI: { M a = mk(n, n); int up = vr_unif(&R) < 0.5; for(int i = 0; i < n; i++){ E(a,i,i) = scale * lognrm(0.05, 1.0) * (vr_unif(&R) < 0.5 ? -1 : 1); for(int j = 0; j < i; j++){ double v = scale * 0.5 * vr_norm(&R) / n; if(up) E(a,j,i) = v; else E(a,i,j) = v; } } return a; }
    case TOEP: { M a = mk(n, n); double d = 2 + vr_unif(&R), o = -1; for(int i = 0; i < n; i++){ E(a,i,i) = d * scale; if(i) E(a,i,i-1) = E(a,i-1,i) = o * scale; } return a; }
    case INTS: { M a = mk(n, n); for(int i = 0; i < n; i++) for(int j = 0; j < n; j++) E(a,i,j) = (double)vr_int(&R, -3, 3); *is_int = 1; return a; }
    case GRADED: { /* well-conditioned dense matrix with a zero (or tiny) pivot position and entries of very different magnitude in the
                      same column: a pivot search must take the LARGEST candidate, not merely a non-zero one */
      M a = with_sv(n, n, 1.0 + 50.0 * vr_unif(&R), scale);
      if(n >= 3){
        int c = (int)vr_int(&R, 0, n - 2);
        E(a,c,c) = vr_unif(&R) < 0.5 ? 0.0 : scale * 1e-13;
        int r = (int)vr_int(&R, c + 2 < n ? c + 2 : n - 1, n - 1);
        E(a,r,c) = scale * 1e-14 * (vr_unif(&R) < 0.5 ? -1 : 1);
      }
      return a; }
    default: return with_sv(n, n, cond, scale);
  }
}

/* ---- one library call per child ---- */
typedef struct { int what; M a, b; int idx; const char *shape; } job;
enum { J_INV, J_LUINV, J_DET, J_DETMUL, J_SOLVE, J_OLS, J_PENROSE, J_EIG, J_SVD, J_SVDLAPACK };
static const char *RN[] = {"MatrixInversion", "MatrixLUInversion", "MatrixDeterminant", "MatrixDeterminant", "SolveLSE", "OrdinaryLeastSquares", "MatrixMoorePenrosePseudoinverse", "EVectEval", "SVD", "SVDlapack"};

static void emit_int_matrix(char *buf, size_t cap, int *p, M x){
  *p += snprintf(buf + *p, cap - *p, "[");
  for(int i = 0; i < x.r; i++){ *p += snprintf(buf + *p, cap - *p, "%s[", i ? "," : ""); for(int j = 0; j < x.c; j++) *p += snprintf(buf + *p, cap - *p, "%s%ld", j ? "," : "", (long)llround(E(x,i,j))); *p += snprintf(buf + *p, cap - *p, "]"); }
  *p += snprintf(buf + *p, cap - *p, "]");
}
static int near_int(M x, double lim){ for(int i = 0; i < x.r * x.c; i++){ double v = x.a[i]; if(!vfinite(v) || fabs(v) > lim || fabs(v - round(v)) > 1e-9) return 0; } return 1; }

static int child(void *arg){
  job *j = arg; M a = j->a; static char buf[16384];
  matrix *A = to_lib(a);
  switch(j->what){
    case J_INV: case J_LUINV: {
      matrix *X; initMatrix(&X);
      if(j->what == J_INV) MatrixInversion(A, X); else MatrixLUInversion(A, X);
      M x = from_lib(X); double r = INFINITY;
      if(x.r == a.r && x.c == a.c){ M p = mul(a, x); for(int i = 0; i < a.r; i++) E(p,i,i) -= 1; r = maxabs(p); fr(p); }
      VRT_EMIT("{\"e\":\"Inv\",\"id\":%d,\"routine\":\"%s\",\"r\":%ld}", j->idx, RN[j->what], vq12(r));
      if(j->b.r == 1 && x.r == a.r && near_int(x, 1e6)){     /* integer input: log the integer inverse for the exact check A * inv = I */
        int p = snprintf(buf, sizeof buf, "{\"e\":\"InvInt\",\"id\":%d,\"routine\":\"%s\",\"A\":", j->idx, RN[j->what]); emit_int_matrix(buf, sizeof buf, &p, a);
        p += snprintf(buf + p, sizeof buf - p, ",\"inv\":"); emit_int_matrix(buf, sizeof buf, &p, x); snprintf(buf + p, sizeof buf - p, "}"); VRT_EMIT("%s", buf);
      }
      break; }
    case J_DET: {
      double d = MatrixDeterminant(A), ref = det_lu(a);
      /* the cofactor expansion sums n! products: its rounding error is bounded by ~n eps * prod_i |row_i|_1, whatever the conditioning */
      double r = fabs(d - ref) / rowsum_prod(a);
      VRT_EMIT("{\"e\":\"Det\",\"id\":%d,\"routine\":\"MatrixDeterminant\",\"n\":%d,\"r\":%ld,\"rel\":%ld}", j->idx, a.r, vq12(r), vq12(fabs(d - ref) / (fabs(ref) > 0 ? fabs(ref) : 1e-300)));
      if(j->b.r == 1 && a.r <= 4 && vfinite(d) && fabs(d) < 1e6 && fabs(d - round(d)) < 1e-9){
        int p = snprintf(buf, sizeof buf, "{\"e\":\"DetInt\",\"id\":%d,\"routine\":\"MatrixDeterminant\",\"n\":%d,\"A\":", j->idx, a.r); emit_int_matrix(buf, sizeof buf, &p, a);
        snprintf(buf + p, sizeof buf - p, ",\"det\":%ld}", (long)llround(d)); VRT_EMIT("%s", buf);
      }
      break; }
    case J_DETMUL: {   /* det(A B) = det(A) det(B) */
      matrix *B = to_lib(j->b), *P; NewMatrix(&P, a.r, a.r); MatrixDotProduct(A, B, P);
      double da = MatrixDeterminant(A), db = MatrixDeterminant(B), dp = MatrixDeterminant(P);
      M bm = from_lib(B), pm = from_lib(P);
      double r = fabs(dp - da * db) / (rowsum_prod(pm) + rowsum_prod(a) * rowsum_prod(bm));
      VRT_EMIT("{\"e\":\"DetMul\",\"id\":%d,\"routine\":\"MatrixDeterminant\",\"n\":%d,\"r\":%ld}", j->idx, a.r, vq12(r));
      break; }
    case J_SOLVE: {    /* b = A x0 ; j->b holds x0 as a column */
      int n = a.r; M bb = mul(a, j->b); matrix *G; NewMatrix(&G, n, n + 1); dvector *s; initDVector(&s);
      for(int i = 0; i < n; i++){ for(int k = 0; k < n; k++) G->data[i][k] = E(a,i,k); G->data[i][n] = E(bb,i,0); }
      SolveLSE(G, s);
      double rf = INFINITY, rb = INFINITY;
      if(s->size == (size_t)n){
        M x = mk(n, 1); for(int i = 0; i < n; i++) E(x,i,0) = s->data[i];
        M ax = mul(a, x); double e = 0, f = 0; for(int i = 0; i < n; i++){ e += (E(ax,i,0) - E(bb,i,0)) * (E(ax,i,0) - E(bb,i,0)); f += (E(x,i,0) - E(j->b,i,0)) * (E(x,i,0) - E(j->b,i,0)); }
        rb = sqrt(e) / (fro(a) * fro(x) + fro(bb) + 1e-300); rf = sqrt(f) / (fro(j->b) + 1e-300);
        if(!vfinite(maxabs(x))) rb = rf = INFINITY;
      }
      VRT_EMIT("{\"e\":\"Solve\",\"id\":%d,\"routine\":\"SolveLSE\",\"rb\":%ld,\"rf\":%ld}", j->idx, vq12(rb), vq12(rf));
      break; }
    case J_OLS: {      /* a is m x n tall, j->b is y (m x 1): normal equations X'(X beta - y) = 0 */
      int m = a.r, n = a.c; dvector *y, *be; NewDVector(&y, m); initDVector(&be); for(int i = 0; i < m; i++) y->data[i] = E(j->b,i,0);
      OrdinaryLeastSquares(A, y, be);
      double r = INFINITY;
      if(be->size == (size_t)n){
        M b = mk(n, 1); for(int i = 0; i < n; i++) E(b,i,0) = be->data[i];
        M xb = mul(a, b); for(int i = 0; i < m; i++) E(xb,i,0) -= E(j->b,i,0);
        M at = tr(a), g = mul(at, xb);
        r = fro(g) / (fro(a) * (fro(a) * fro(b) + fro(j->b)) + 1e-300); if(!vfinite(maxabs(b))) r = INFINITY;
      }
      VRT_EMIT("{\"e\":\"Ols\",\"id\":%d,\"routine\":\"OrdinaryLeastSquares\",\"r\":%ld}", j->idx, vq12(r));
      break; }
    case J_PENROSE: {
      matrix *P; initMatrix(&P); MatrixMoorePenrosePseudoinverse(A, P);
      M p = from_lib(P); double r1 = INFINITY, r2 = INFINITY, r3 = INFINITY, r4 = INFINITY;
      if(p.r == a.c && p.c == a.r && vfinite(maxabs(p))){
        M ap = mul(a, p), pa = mul(p, a), apa = mul(ap, a), pap = mul(pa, p);
        for(int i = 0; i < a.r * a.c; i++) apa.a[i] -= a.a[i];
        for(int i = 0; i < p.r * p.c; i++) pap.a[i] -= p.a[i];
        r1 = fro(apa) / fro(a); r2 = fro(pap) / (fro(p) + 1e-300);
        r3 = 0; for(int i = 0; i < ap.r; i++) for(int k = 0; k < ap.c; k++){ double d = fabs(E(ap,i,k) - E(ap,k,i)); if(d > r3) r3 = d; }
        r4 = 0; for(int i = 0; i < pa.r; i++) for(int k = 0; k < pa.c; k++){ double d = fabs(E(pa,i,k) - E(pa,k,i)); if(d > r4) r4 = d; }
      }
      VRT_EMIT("{\"e\":\"Penrose\",\"id\":%d,\"routine\":\"MatrixMoorePenrosePseudoinverse\",\"shape\":\"%s\",\"r1\":%ld,\"r2\":%ld,\"r3\":%ld,\"r4\":%ld}", j->idx, j->shape, vq12(r1), vq12(r2), vq12(r3), vq12(r4));
      break; }
    case J_EIG: {
      int n = a.r; dvector *ev; matrix *V; initDVector(&ev); initMatrix(&V); EVectEval(A, ev, V);
      double r = INFINITY; int nz = 0;
      if(ev->size == (size_t)n && V->row == (size_t)n && V->col == (size_t)n){
        r = 0; nz = 1; double na = fro(a);
        for(int k = 0; k < n; k++){
          double nv = 0, e = 0; for(int i = 0; i < n; i++) nv += V->data[i][k] * V->data[i][k];
          nv = sqrt(nv); if(!(nv > 1e-8)) nz = 0;
          for(int i = 0; i < n; i++){ double s = 0; for(int q = 0; q < n; q++) s += E(a,i,q) * V->data[q][k]; s -= ev->data[k] * V->data[i][k]; e += s * s; }
          double rk = sqrt(e) / (na * nv + 1e-300); if(!(rk <= r)) r = rk;
        }
      }
      VRT_EMIT("{\"e\":\"Eig\",\"id\":%d,\"routine\":\"EVectEval\",\"r\":%ld,\"nz\":%d}", j->idx, vq12(r), nz);
      break; }
    case J_SVD: case J_SVDLAPACK: {
      matrix *U, *S, *VT; initMatrix(&U); initMatrix(&S); initMatrix(&VT);
      if(j->what == J_SVD) SVD(A, U, S, VT); else SVDlapack(A, U, S, VT);
      int shp = U->row == (size_t)a.r && U->col == S->row && S->col == VT->row && VT->col == (size_t)a.c && S->row > 0 && S->col > 0;
      int sig = 1; double recon = INFINITY;
      for(size_t i = 0; i < S->row && i < S->col; i++) if(!(S->data[i][i] >= 0)) sig = 0;
      if(shp){ M u = from_lib(U), s = from_lib(S), vt = from_lib(VT), us = mul(u, s), p = mul(us, vt); for(int i = 0; i < a.r * a.c; i++) p.a[i] -= a.a[i]; recon = fro(p) / fro(a); }
      VRT_EMIT("{\"e\":\"Svd\",\"id\":%d,\"routine\":\"%s\",\"shape\":\"%s\",\"shp\":%d,\"sig\":%d,\"recon\":%ld,\"dims\":[%zu,%zu,%zu,%zu,%zu,%zu]}", j->idx, RN[j->what], j->shape, shp, sig, vq12(recon),
               U->row, U->col, S->row, S->col, VT->row, VT->col);
      break; }
  }
  fflush(vrt_out);
  return 0;
}
static void call(job *j){
  int rc = vrt_run_child(child, j, 60);
  if(rc != 0) VRT_EMIT("{\"e\":\"Crash\",\"id\":%d,\"routine\":\"%s\",\"shape\":\"%s\",\"rc\":%d}", j->idx, RN[j->what], j->shape, rc);
}

int main(int argc, char **argv){
  if(argc < 4){ fprintf(stderr, "usage: c12_trace out.ndjson seed nmat\n"); return 2; }
  vrt_open(argv[1]); R.s = (uint64_t)atoll(argv[2]) * 0x9E3779B97F4A7C15ULL + 777; int nmat = atoi(argv[3]);
  vrt_force_nproc(1);
  long dropped = 0;
  for(int id = 0; id < nmat; id++){
    int cls = id % NCLS, n = 1 + (int)((id / NCLS) % 12), is_int = 0;
    if(cls == INTS) n = 1 + n % 4;
    M a = gen_square(cls, n, &is_int);
    double smax = 0, c = cond2(a, &smax);
    if(!(c <= 1e6)){ dropped++; fr(a); continue; }          /* outside the quantifier (singular or ill-conditioned): dropped, counted */
    VRT_EMIT("{\"e\":\"Reset\",\"id\":%d}", id);
    { static char mb[8192]; int p = snprintf(mb, sizeof mb, "{\"e\":\"Mat\",\"id\":%d,\"class\":\"%s\",\"m\":%d,\"n\":%d,\"cond\":%ld,\"lead0\":%d,\"isint\":%d", id, CLS[cls], n, n, (long)ceil(c), E(a,0,0) == 0.0 ? 1 : 0, is_int);
      if(is_int){ p += snprintf(mb + p, sizeof mb - p, ",\"A\":"); emit_int_matrix(mb, sizeof mb, &p, a); }   /* integer input: lets the runner name the pivot class of a failure */
      snprintf(mb + p, sizeof mb - p, "}"); VRT_EMIT("%s", mb); }
    M flag = mk(is_int ? 1 : 2, 1);
    job j; j.a = a; j.idx = id; j.shape = "square"; j.b = flag;
    j.what = J_INV; call(&j); j.what = J_LUINV; call(&j);
    if(n <= 8){ j.what = J_DET; call(&j);
      int ii; M b2 = gen_square(id % 2 ? PERM : DIAG, n, &ii); j.b = b2; j.what = J_DETMUL; call(&j); fr(b2); }
    { M x0 = mk(n, 1); for(int i = 0; i < n; i++) E(x0,i,0) = vr_norm(&R) + (vr_unif(&R) < 0.5 ? 2 : -2); j.b = x0; j.what = J_SOLVE; call(&j); fr(x0); }
    if(cls == SPD || cls == SYMM || cls == DIAG || cls == TOEP){ j.b = flag; j.what = J_EIG; call(&j); }
    if(c <= 1e3){ j.b = flag; j.what = J_PENROSE; call(&j); }   /* normal equations: cond^2 <= 1e6 */
    j.b = flag; j.what = J_SVD; call(&j); j.what = J_SVDLAPACK; call(&j);
    fr(a);
    /* rectangular companions: tall (full column rank) for OLS / Penrose / SVD, wide for SVD */
    if(id % 3 == 0){
      int m2 = 2 + (int)vr_int(&R, 0, 10), n2 = 1 + (int)vr_int(&R, 0, m2 - 2);      /* m2 > n2 */
      double cnd = pow(10.0, 3.0 * vr_unif(&R));
      M t = with_sv(m2, n2, cnd, ldexp(1.0, (int)vr_int(&R, -8, 8)));
      double ct = cond2(t, NULL);
      if(ct <= 1e3){
        VRT_EMIT("{\"e\":\"Mat\",\"id\":%d,\"class\":\"tall\",\"m\":%d,\"n\":%d,\"cond\":%ld,\"lead0\":0,\"isint\":0}", id, m2, n2, (long)ceil(ct));
        M y = mk(m2, 1); for(int i = 0; i < m2; i++) E(y,i,0) = vr_norm(&R);
        job k; k.a = t; k.idx = id; k.shape = "rect-tall"; k.b = y; k.what = J_OLS; call(&k);
        k.b = flag; k.what = J_PENROSE; call(&k); k.what = J_SVD; call(&k); k.what = J_SVDLAPACK; call(&k);
        M w = tr(t);
        VRT_EMIT("{\"e\":\"Mat\",\"id\":%d,\"class\":\"wide\",\"m\":%d,\"n\":%d,\"cond\":%ld,\"lead0\":0,\"isint\":0}", id, n2, m2, (long)ceil(ct));
        k.a = w; k.shape = "rect-wide"; k.what = J_SVD; call(&k); k.what = J_SVDLAPACK; call(&k);
        fr(w); fr(y);
      } else dropped++;
      fr(t);
    }
    fr(flag);
  }
  VRT_EMIT("{\"e\":\"Reset\",\"id\":-1}");
  VRT_EMIT("{\"e\":\"End\",\"dropped\":%ld}", dropped);
  vrt_close();
  return 0;
}
