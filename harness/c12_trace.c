/* c12_trace.c - recording driver for C12 (ledger part): generated matrices of sizes 1..12 with condition number <= 1e6
 * are passed to the library's inversion / determinant / solver / least-squares / pseudo-inverse / eigen / SVD routines;
 * the residual of each defining equation is computed here in double (trusted projection), quantised (vq12: units of
 * 1e-12, saturating) and logged; TLC validates the log against spec/TraceLinAlg.tla.
 *
 * The work is a deterministic, STRATIFIED plan of blocks (one block = one Reset ... in the trace):
 *   square blocks   every class x every size 1..12 x scale mode {2^k, 1e-6, 1e6}     (classes: spd, symm, diag, perm, zlm, tri,
 *                   toeplitz, general, intsmall, graded, symperm, repeig, offset, nonrep, utri)
 *   rect blocks     every pair m > n in 1..12 (incl. 12x1 / 1x12, m = n + 1): tall for OLS / Penrose / SVD, its transpose (wide) for SVD
 *   rankdef blocks  rank-deficient / zero matrices for the SVD only: OUTSIDE the quantifier (cond = inf), logged with q = 0
 *   (every fifth square block and some tall ones also call the SVD-based MatrixPseudoinversion, which the anchors name but the
 *    statement's observe list does not: its Penrose events are reported by the runner as EXTRA findings only)
 *   history blocks  one routine called 9-10 times IN ONE PROCESS on matrices of changing size / shape / magnitude into the
 *                   SAME output objects (K7: static caches, stale work arrays, outputs that are only resized when empty)
 * Item i of the plan is generated from (seed, i) alone, so any block can be re-run alone (replay).
 * Every block runs in a forked child; the child publishes the index of the job it is executing in shared memory, so a
 * sanitizer abort, a signal or the watchdog (alarm) is attributed to that call: the parent logs a Crash event and
 * resumes the block after it.
 *
 * usage: c12_trace <out.ndjson> <seed> <tier 0=quick 1=thorough> <part> <nparts> [only_item]
 * Independent oracles: LAPACK dgesvd (condition number, singular values), dgetrf (determinant as product of pivots)
 * called directly; exact integer Bareiss elimination only as a FILTER (which integer cases fit TLC's 32-bit integers).
 */
#include "scientific.h"
#include "verif_rt.h"
#include <sys/mman.h>

extern void dgesvd_(char *jobu, char *jobvt, int *m, int *n, double *a, int *lda, double *s, double *u, int *ldu, double *vt, int *ldvt, double *work, int *lwork, int *info);
extern void dgetrf_(int *M, int *N, double *A, int *lda, int *IPIV, int *INFO);

static vrng R;
static double lognrm(double lo, double hi){ return exp(log(lo) + (log(hi) - log(lo)) * vr_unif(&R)); }
static double rsign(void){ return vr_unif(&R) < 0.5 ? -1.0 : 1.0; }

/* ---- small dense helpers (row-major double arrays) ---- */
typedef struct { int r, c; double *a; } M;
static M mk(int r, int c){ M x; x.r = r; x.c = c; x.a = calloc((size_t)(r * c > 0 ? r * c : 1), sizeof(double)); return x; }
static void fr(M x){ free(x.a); }
#define E(x,i,j) (x).a[(size_t)(i) * (x).c + (j)]
static M mul(M a, M b){ M p = mk(a.r, b.c); for(int i = 0; i < a.r; i++) for(int k = 0; k < a.c; k++){ double v = E(a,i,k); if(v != 0) for(int j = 0; j < b.c; j++) E(p,i,j) += v * E(b,k,j); } return p; }
static M tr(M a){ M t = mk(a.c, a.r); for(int i = 0; i < a.r; i++) for(int j = 0; j < a.c; j++) E(t,j,i) = E(a,i,j); return t; }
static M cp(M a){ M t = mk(a.r, a.c); memcpy(t.a, a.a, sizeof(double) * (size_t)(a.r * a.c)); return t; }
static double fro(M a){ double s = 0; for(int i = 0; i < a.r * a.c; i++) s += a.a[i] * a.a[i]; return sqrt(s); }
static double maxabs(M a){ double s = 0; for(int i = 0; i < a.r * a.c; i++){ double v = fabs(a.a[i]); if(!(v <= s)) s = v; } return s; }
static void scal(M a, double s){ for(int i = 0; i < a.r * a.c; i++) a.a[i] *= s; }
static M from_lib(matrix *m){ M x = mk((int)m->row, (int)m->col); for(int i = 0; i < x.r; i++) for(int j = 0; j < x.c; j++) E(x,i,j) = m->data[i][j]; return x; }
static matrix *to_lib(M x){ matrix *m; NewMatrix(&m, x.r, x.c); for(int i = 0; i < x.r; i++) for(int j = 0; j < x.c; j++) m->data[i][j] = E(x,i,j); return m; }
/* random orthogonal n x n: product of n Householder reflections */
static M rand_orth(int n){
  M q = mk(n, n); for(int i = 0; i < n; i++) E(q,i,i) = 1;
  double *v = malloc(sizeof(double) * n);
  for(int h = 0; h < n; h++){
    double nv = 0; for(int i = 0; i < n; i++){ v[i] = vr_norm(&R); nv += v[i] * v[i]; }
    if(nv < 1e-12) continue;
    for(int j = 0; j < n; j++){ double d = 0; for(int i = 0; i < n; i++) d += v[i] * E(q,i,j); d = 2 * d / nv; for(int i = 0; i < n; i++) E(q,i,j) -= d * v[i]; }
  }
  free(v); return q;
}
/* singular values of a (LAPACK dgesvd, independent of the library's wrappers, which use dgesdd); returns cond2 (inf if singular) */
static double cond2(M a, double *sv){
  int m = a.r, n = a.c, k = m < n ? m : n, info, lwork = -1; if(k == 0) return INFINITY;
  double *cm = malloc(sizeof(double) * m * n), *s = malloc(sizeof(double) * k), wk, *work;
  for(int i = 0; i < m; i++) for(int j = 0; j < n; j++) cm[i + (size_t)j * m] = E(a,i,j);
  double dum; int one = 1;
  dgesvd_("N", "N", &m, &n, cm, &m, s, &dum, &one, &dum, &one, &wk, &lwork, &info);
  lwork = (int)wk + 1; work = malloc(sizeof(double) * lwork);
  dgesvd_("N", "N", &m, &n, cm, &m, s, &dum, &one, &dum, &one, work, &lwork, &info);
  double c = (info == 0 && s[k - 1] > 0) ? s[0] / s[k - 1] : INFINITY;
  if(sv) for(int i = 0; i < k; i++) sv[i] = info == 0 ? s[i] : NAN;
  free(cm); free(s); free(work); return c;
}
static double rowsum_prod(M a){ double p = 1; for(int i = 0; i < a.r; i++){ double s = 0; for(int j = 0; j < a.c; j++) s += fabs(E(a,i,j)); p *= s; } return p > 0 ? p : 1e-300; }
static double det_lu(M a){
  int n = a.r, info; double *cm = malloc(sizeof(double) * n * n); int *ip = malloc(sizeof(int) * n);
  for(int i = 0; i < n; i++) for(int j = 0; j < n; j++) cm[i + (size_t)j * n] = E(a,i,j);
  dgetrf_(&n, &n, cm, &n, ip, &info);
  double d = 1; for(int i = 0; i < n; i++){ d *= cm[i + (size_t)i * n]; if(ip[i] != i + 1) d = -d; }
  free(cm); free(ip); return d;
}
/* FILTER only: does the fraction-free (Bareiss) elimination of this integer matrix, as TLC will run it (first non-zero pivot from
 * row k downwards), keep every intermediate product below 1e9 ?  (TLC integers are 32-bit; an overflow there is an infra failure) */
static int bareiss_fits(M a){
  int n = a.r; if(n != a.c || n > 12) return 0;
  __int128 m[12][12], prev = 1; const __int128 LIM = 1000000000;
  for(int i = 0; i < n; i++) for(int j = 0; j < n; j++){ double v = E(a,i,j); if(fabs(v) > 1e6 || v != round(v)) return 0; m[i][j] = (__int128)llround(v); }
  for(int k = 0; k < n - 1; k++){
    int p = -1; for(int i = k; i < n; i++) if(m[i][k] != 0){ p = i; break; }
    if(p < 0) return 1;                                            /* singular: determinant 0, nothing left to multiply */
    if(p != k) for(int j = 0; j < n; j++){ __int128 t = m[k][j]; m[k][j] = m[p][j]; m[p][j] = t; }
    for(int i = k + 1; i < n; i++) for(int j = k + 1; j < n; j++){
      __int128 x = m[k][k] * m[i][j], y = m[i][k] * m[k][j];
      if(x > LIM || x < -LIM || y > LIM || y < -LIM || x - y > LIM || x - y < -LIM) return 0;
      m[i][j] = (x - y) / prev;
    }
    prev = m[k][k];
  }
  return 1;
}

/* ---- generators; every class returns a matrix whose cond2 is then measured by the caller (<= 1e6 or dropped) ---- */
static M with_sv(int m, int n, double cond){      /* U diag(s) V' with prescribed singular values */
  int k = m < n ? m : n; M u = rand_orth(m), v = rand_orth(n), s = mk(m, n);
  for(int i = 0; i < k; i++) E(s,i,i) = (k == 1 ? 1.0 : pow(cond, -(double)i / (k - 1)));
  if(k > 2 && vr_unif(&R) < 0.3) E(s,1,1) = E(s,0,0);          /* repeated singular value */
  M us = mul(u, s), vt = tr(v), a = mul(us, vt); fr(u); fr(v); fr(s); fr(us); fr(vt); return a;
}
static M sym_from(M q, M d){
  int n = q.r; M qd = mul(q, d), qt = tr(q), a = mul(qd, qt); fr(qd); fr(qt);
  for(int i = 0; i < n; i++) for(int j = 0; j < i; j++){ double v = 0.5 * (E(a,i,j) + E(a,j,i)); E(a,i,j) = E(a,j,i) = v; }
  return a;
}
static M sym_eig(int n, double cond, int indefinite){
  M q = rand_orth(n), d = mk(n, n);
  for(int i = 0; i < n; i++){ E(d,i,i) = (n == 1 ? 1.0 : pow(cond, -(double)i / (n - 1))); if(indefinite && vr_unif(&R) < 0.5) E(d,i,i) = -E(d,i,i); }
  if(n > 2 && vr_unif(&R) < 0.4) E(d,1,1) = E(d,0,0);          /* repeated eigenvalue */
  M a = sym_from(q, d); fr(q); fr(d); return a;
}
/* symmetric with heavily repeated eigenvalues (K8): every multiplicity pattern the size allows */
static M rep_eig(int n, int pattern){
  M d = mk(n, n); double a = lognrm(0.5, 4.0), b = -lognrm(0.05, 2.0), c = lognrm(0.01, 0.4);
  for(int i = 0; i < n; i++){
    double v;
    switch(pattern % 4){
      case 0: v = a; break;                                       /* c I : one eigenvalue of multiplicity n */
      case 1: v = i == n - 1 && n > 1 ? b : a; break;              /* multiplicity n-1 and 1 */
      case 2: v = (i / 2) % 3 == 0 ? a : ((i / 2) % 3 == 1 ? b : c); break;   /* pairs */
      default: v = i < n / 2 ? a : b; break;                       /* two clusters of opposite sign */
    }
    E(d,i,i) = v;
  }
  if(pattern % 8 >= 4){ return d; }                                /* already diagonal: exact ties */
  M q = rand_orth(n), s = sym_from(q, d); fr(q); fr(d); return s;
}
static void rand_perm(int n, int *p){ for(int i = 0; i < n; i++) p[i] = i; for(int i = n - 1; i > 0; i--){ int j = (int)vr_int(&R, 0, i), t = p[i]; p[i] = p[j]; p[j] = t; } }
static M perm_mat(int n, int fix_first){ M a = mk(n, n); int p[16]; rand_perm(n, p); if(!fix_first && n > 1 && p[0] == 0){ p[0] = p[1]; p[1] = 0; } for(int i = 0; i < n; i++) E(a,i,p[i]) = 1; return a; }
static M utri_int(int n){      /* permutation (moving row 1) times a unit upper triangular matrix over {-1,0,1}: zero leading minors, integer inverse */
  M t = mk(n, n); for(int i = 0; i < n; i++){ E(t,i,i) = 1; for(int j = i + 1; j < n; j++) E(t,i,j) = vr_unif(&R) < 0.35 ? rsign() : 0.0; }
  int p[16]; rand_perm(n, p); if(n > 1 && p[0] == 0){ p[0] = p[1]; p[1] = 0; }
  M a = mk(n, n); for(int i = 0; i < n; i++) for(int j = 0; j < n; j++) E(a,i,j) = E(t,p[i],j); fr(t); return a;
}
static const char *CLS[] = {"spd", "symm", "diag", "perm", "zlm", "tri", "toeplitz", "general", "intsmall", "graded", "symperm", "repeig", "offset", "nonrep", "utri", "tall", "wide", "rankdef"};
enum { SPD, SYMM, DIAG, PERM, ZLM, TRI, TOEP, GEN, INTS, GRADED, SYMPERM, REPEIG, OFFSET, NONREP, UTRI, NSQ, TALL = NSQ, WIDE, RANKDEF };
static int symmetric_class(int c){ return c == SPD || c == SYMM || c == DIAG || c == TOEP || c == SYMPERM || c == REPEIG; }
/* unit-scale square matrix of a class; *is_int: integer entries (exact TLC checks possible); sub: stratification index within the class */
static M gen_square(int cls, int n, int sub, int *is_int){
  double cond = pow(10.0, 6.0 * vr_unif(&R) * vr_unif(&R));
  *is_int = 0;
  switch(cls){
    case SPD: return sym_eig(n, cond, 0);
    case SYMM: return sym_eig(n, cond, 1);
    case DIAG: { M a = mk(n, n); for(int i = 0; i < n; i++) E(a,i,i) = rsign() * lognrm(1.0 / cond, 1.0); return a; }
    case PERM: *is_int = 1; return perm_mat(n, 1);
    case ZLM: { /* permutation (no fixed first row) times a well-conditioned upper triangular matrix: leading entries are zero */
      M t = mk(n, n); for(int i = 0; i < n; i++){ E(t,i,i) = lognrm(0.2, 1.0) * rsign(); for(int j = i + 1; j < n; j++) E(t,i,j) = 0.3 * vr_norm(&R) / n; }
      int p[16]; rand_perm(n, p); if(n > 1 && p[0] == 0){ p[0] = p[1]; p[1] = 0; }
      M a = mk(n, n); for(int i = 0; i < n; i++) for(int j = 0; j < n; j++) E(a,i,j) = E(t,p[i],j); fr(t); return a; }
    case TRI: { M a = mk(n, n); int up = sub % 2; for(int i = 0; i < n; i++){ E(a,i,i) = lognrm(0.05, 1.0) * rsign(); for(int j = 0; j < i; j++){ double v = 0.5 * vr_norm(&R) / n; if(up) E(a,j,i) = v; else E(a,i,j) = v; } } return a; }
    case TOEP: { M a = mk(n, n); double d = 2 + vr_unif(&R), o = -1; for(int i = 0; i < n; i++){ E(a,i,i) = d; if(i) E(a,i,i-1) = E(a,i-1,i) = o; } return a; }
    case INTS: { int lim = n <= 4 ? 3 : 2; M a = mk(n, n); for(int i = 0; i < n; i++) for(int j = 0; j < n; j++) E(a,i,j) = (double)vr_int(&R, -lim, lim); *is_int = 1; return a; }
    case GRADED: { /* well-conditioned dense matrix with a zero (or tiny) pivot position and entries of very different magnitude in the
                      same column: a pivot search must take the LARGEST candidate, not merely a non-zero one */
      M a = with_sv(n, n, 1.0 + 50.0 * vr_unif(&R));
      if(n >= 3){
        int c = (int)vr_int(&R, 0, n - 2);
        E(a,c,c) = vr_unif(&R) < 0.5 ? 0.0 : 1e-13;
        int r = (int)vr_int(&R, c + 2 < n ? c + 2 : n - 1, n - 1);
        E(a,r,c) = 1e-14 * rsign();
      }
      return a; }
    case SYMPERM: { /* symmetric permutation matrix (an involution): eigenvalues +1 / -1, heavily repeated */
      M a = mk(n, n); int p[16]; rand_perm(n, p); int used[16] = {0};
      for(int i = 0; i + 1 < n; i += 2){ if(vr_unif(&R) < 0.75){ E(a,p[i],p[i+1]) = E(a,p[i+1],p[i]) = 1; used[p[i]] = used[p[i+1]] = 1; } }
      for(int i = 0; i < n; i++) if(!used[i]) E(a,i,i) = 1;
      *is_int = 1; return a; }
    case REPEIG: return rep_eig(n, sub);
    case OFFSET: { /* K3: well-conditioned matrix plus a large common offset c * 1 1' (conditioning grows with c; measured by the caller) */
      M a = with_sv(n, n, 1.0 + 20.0 * vr_unif(&R)); double c = pow(10.0, 1.0 + 3.0 * vr_unif(&R)) * rsign();
      for(int i = 0; i < n * n; i++) a.a[i] += c; return a; }
    case NONREP: { /* K5: entries that are not representable in binary (0.1 k, k / 3, 1e-3 k, 0.7 k) on an integer pattern */
      static const double S[] = {0.1, 1.0 / 3.0, 1e-3, 0.7}; int ii; M a;
      switch(sub % 3){ case 0: a = perm_mat(n, 0); break; case 1: a = utri_int(n); break; default: a = gen_square(INTS, n, sub, &ii); break; }
      scal(a, S[(sub / 3) % 4]); return a; }
    case UTRI: *is_int = 1; return utri_int(n);
    default: return with_sv(n, n, cond);
  }
}

/* ---- plan entries ---- */
typedef struct {
  M a; int cls; const char *shape; double cond; int lead0, isint, q, var; const char *sc;
  double sv[12]; int k;
  M x0, y, partner;            /* solve: true solution; least squares: response; determinant multiplicativity: the other factor */
  int partner_int, xs;
} ment;
enum { J_INV, J_LUINV, J_DET, J_DETMUL, J_SOLVE, J_OLS, J_PENROSE, J_EIG, J_SVD, J_SVDLAPACK, NJK, J_PINVSVD = NJK };
static const char *RN[] = {"MatrixInversion", "MatrixLUInversion", "MatrixDeterminant", "MatrixDeterminant", "SolveLSE", "OrdinaryLeastSquares", "MatrixMoorePenrosePseudoinverse", "EVectEval", "SVD", "SVDlapack", "MatrixPseudoinversion"};
typedef struct { int what, mi, reuse; } job;      /* reuse: 0 fresh empty output, 1 sized output holding stale numbers, 2 the block's persistent output (history) */
#define MAXM 12
#define MAXJ 48
typedef struct { int id, hist, nm, nj; ment m[MAXM]; job j[MAXJ]; } block;

static const char *SCN[] = {"p2", "1e-6", "1e6"};
static double scale_of(int mode){ return mode == 1 ? 1e-6 : (mode == 2 ? 1e6 : ldexp(1.0, (int)vr_int(&R, -10, 10))); }
static const double XS[] = {1.0, 1e-6, 1e6};

static void emit_int_matrix(char *buf, size_t cap, int *p, M x){
  *p += snprintf(buf + *p, cap - *p, "[");
  for(int i = 0; i < x.r; i++){ *p += snprintf(buf + *p, cap - *p, "%s[", i ? "," : ""); for(int j = 0; j < x.c; j++) *p += snprintf(buf + *p, cap - *p, "%s%ld", j ? "," : "", (long)llround(E(x,i,j))); *p += snprintf(buf + *p, cap - *p, "]"); }
  *p += snprintf(buf + *p, cap - *p, "]");
}
static int near_int(M x, double lim){ for(int i = 0; i < x.r * x.c; i++){ double v = x.a[i]; if(!vfinite(v) || fabs(v) > lim || fabs(v - round(v)) > 1e-9) return 0; } return 1; }

/* fill the auxiliary data of an entry (measured condition number, singular values, rhs ...); returns 0 if outside the quantifier */
static int finish_entry(ment *e, int cls, const char *shape, int isint, int scmode, int want_q){
  e->cls = cls; e->shape = shape; e->isint = isint; e->sc = SCN[scmode]; e->q = want_q;
  e->k = e->a.r < e->a.c ? e->a.r : e->a.c;
  e->cond = cond2(e->a, e->sv);
  e->lead0 = E(e->a,0,0) == 0.0 ? 1 : 0;
  e->x0 = mk(0, 0); e->y = mk(0, 0); e->partner = mk(0, 0); e->partner_int = 0; e->xs = 0; e->var = 0;
  if(!vfinite(e->sv[0])) return 0;
  if(want_q && !(e->cond <= 1e6)) return 0;
  return 1;
}
static void add_job(block *b, int what, int mi, int reuse){ if(b->nj >= MAXJ){ fprintf(stderr, "c12_trace: job table full\n"); exit(2); } b->j[b->nj].what = what; b->j[b->nj].mi = mi; b->j[b->nj].reuse = reuse; b->nj++; }

/* one square entry with everything the square routines need; returns 0 if dropped */
static int make_square(ment *e, int cls, int n, int sub, int scmode, int xsmode){
  int is_int = 0; e->a = gen_square(cls, n, sub, &is_int);
  double s = (is_int && scmode == 0) ? 1.0 : scale_of(scmode);
  if(s != 1.0){ scal(e->a, s); is_int = 0; }
  if(!finish_entry(e, cls, "square", is_int, scmode, 1)) return 0;
  e->xs = xsmode; e->x0 = mk(n, 1); for(int i = 0; i < n; i++) E(e->x0,i,0) = XS[xsmode] * (vr_norm(&R) + (vr_unif(&R) < 0.5 ? 2 : -2));
  e->y = mk(n, 1); for(int i = 0; i < n; i++) E(e->y,i,0) = XS[xsmode] * vr_norm(&R);
  if(n <= 8){      /* the other factor of det(A B): a general / structured / integer matrix of the same size */
    int ii = 0, pc = (is_int && n <= 5) ? (sub % 2 ? INTS : UTRI) : (int[]){GEN, PERM, DIAG, TRI, SPD}[sub % 5];
    e->partner = gen_square(pc, n, sub + 1, &ii); e->partner_int = ii;
    if(!ii) scal(e->partner, ldexp(1.0, (int)vr_int(&R, -4, 4)));
  }
  return 1;
}
static void square_jobs(block *b, int mi, int reuse){
  ment *e = &b->m[mi]; int n = e->a.r;
  add_job(b, J_INV, mi, reuse); add_job(b, J_LUINV, mi, reuse);
  if(n <= 8){ add_job(b, J_DET, mi, 0); add_job(b, J_DETMUL, mi, 0); }
  add_job(b, J_SOLVE, mi, reuse);
  if(symmetric_class(e->cls)) add_job(b, J_EIG, mi, reuse);
  if(e->cond <= 1e3){ add_job(b, J_OLS, mi, reuse); add_job(b, J_PENROSE, mi, reuse); if(b->id % 5 == 0) add_job(b, J_PINVSVD, mi, 0); }     /* normal equations: cond^2 <= 1e6 */
  add_job(b, J_SVD, mi, 0); add_job(b, J_SVDLAPACK, mi, reuse);
}
/* tall entry (m > n, full column rank) */
static int make_tall(ment *e, int m, int n, double cmax, int scmode, int variant){
  e->a = with_sv(m, n, pow(10.0, log10(cmax) * vr_unif(&R))); int var = 0;
  if(variant == 1 && m > n + 1){ for(int j = 0; j < n; j++) E(e->a,m-1,j) = E(e->a,0,j); var = 1; }        /* K8: duplicate row */
  if(variant == 2 && n > 1){ for(int i = 0; i < m; i++) E(e->a,i,n-1) = 0.25; var = 2; }                    /* K8: a constant column among informative ones */
  scal(e->a, scale_of(scmode));
  if(!finish_entry(e, TALL, "rect-tall", 0, scmode, 1)) return 0;
  e->var = var;
  e->y = mk(m, 1); for(int i = 0; i < m; i++) E(e->y,i,0) = vr_norm(&R);
  return 1;
}
static int make_wide_of(ment *w, ment *t){
  w->a = tr(t->a);
  int ok = finish_entry(w, WIDE, "rect-wide", 0, t->sc == SCN[1] ? 1 : (t->sc == SCN[2] ? 2 : 0), 1); w->var = t->var; return ok;
}
/* rank-deficient input for the SVD (cond = inf: outside the quantifier, q = 0) */
static int make_rankdef(ment *e, int m, int n, int kind, int scmode){
  int k = m < n ? m : n; M a;
  if(kind == 0) a = mk(m, n);                                                           /* zero matrix */
  else { int r = kind == 1 ? 1 : (k > 1 ? k - 1 : 1); if(r >= k && k > 1) r = k - 1;
    M u = rand_orth(m), v = rand_orth(n), s = mk(m, n); for(int i = 0; i < r && i < k; i++) E(s,i,i) = 1.0 + i;
    if(k == 1) E(s,0,0) = 0;
    M us = mul(u, s), vt = tr(v); a = mul(us, vt); fr(u); fr(v); fr(s); fr(us); fr(vt);
    if(kind == 3 && n > 1){ for(int i = 0; i < m; i++) E(a,i,n-1) = E(a,i,0); } }      /* duplicate column */
  scal(a, scale_of(scmode)); e->a = a;
  finish_entry(e, RANKDEF, m == n ? "square" : (m > n ? "rect-tall" : "rect-wide"), 0, scmode, 0);
  if(!vfinite(e->sv[0])) return 0;
  return 1;
}

/* ---- the child: executes jobs start.. of a block ---- */
static int *progress;                      /* shared: [0] index of the job being executed */
static matrix *H_X, *H_U, *H_S, *H_VT, *H_V, *H_P; static dvector *H_ev, *H_sol, *H_beta;
static matrix *out_m(int reuse, matrix **slot, int r, int c, int jx){
  matrix *x;
  if(reuse == 2){ if(!*slot) initMatrix(slot); return *slot; }
  if(reuse == 1){ int dr = jx % 3 == 1 ? 1 : 0, dc = jx % 3 == 2 ? 1 : 0; NewMatrix(&x, r + dr, c + dc); MatrixSet(x, 7.25 + jx); return x; }
  initMatrix(&x); return x;
}
static dvector *out_v(int reuse, dvector **slot, int n, int jx, double stale){
  dvector *x;
  if(reuse == 2){ if(!*slot) initDVector(slot); return *slot; }
  if(reuse == 1){ NewDVector(&x, n + (jx % 3 == 1 ? 1 : 0)); for(size_t i = 0; i < x->size; i++) x->data[i] = stale * (1.5 + (double)i); return x; }
  initDVector(&x); return x;
}
static void emit_mat(block *b, int mi, int seq){
  static char mb[8192]; ment *e = &b->m[mi];
  int p = snprintf(mb, sizeof mb, "{\"e\":\"Mat\",\"id\":%d,\"k\":%d,\"class\":\"%s\",\"shape\":\"%s\",\"m\":%d,\"n\":%d,\"q\":%d,\"cond\":%ld,\"lead0\":%d,\"isint\":%d,\"sc\":\"%s\",\"hist\":%d,\"xs\":%d,\"var\":%d",
                   b->id, seq, CLS[e->cls], e->shape, e->a.r, e->a.c, e->q, e->q ? (long)ceil(e->cond) : 0L, e->lead0, e->isint, e->sc, b->hist, e->xs, e->var);
  if(e->isint){ p += snprintf(mb + p, sizeof mb - p, ",\"A\":"); emit_int_matrix(mb, sizeof mb, &p, e->a); }   /* integer input: lets the runner name the pivot class of a failure */
  snprintf(mb + p, sizeof mb - p, "}"); VRT_EMIT("%s", mb);
}
static void run_job(block *b, int jx){
  job *j = &b->j[jx]; ment *e = &b->m[j->mi]; M a = e->a; static char buf[16384];
  matrix *A = to_lib(a); int id = b->id, ru = j->reuse;
  switch(j->what){
    case J_INV: case J_LUINV: {
      matrix *X = out_m(ru, &H_X, a.r, a.c, jx);
      if(j->what == J_INV) MatrixInversion(A, X); else MatrixLUInversion(A, X);
      M x = from_lib(X); double r = INFINITY;
      if(x.r == a.r && x.c == a.c){ M p = mul(a, x); for(int i = 0; i < a.r; i++) E(p,i,i) -= 1; r = maxabs(p); fr(p); }
      VRT_EMIT("{\"e\":\"Inv\",\"id\":%d,\"routine\":\"%s\",\"reuse\":%d,\"r\":%ld}", id, RN[j->what], ru, vq12(r));
      if(e->isint && a.r <= 12){     /* integer input: log the integer inverse for the exact check A * inv = I (ok = 0: the result is not an integer matrix although ... see spec) */
        int ok = x.r == a.r && x.c == a.c && near_int(x, 1e6);
        if(ok){
          int p = snprintf(buf, sizeof buf, "{\"e\":\"InvInt\",\"id\":%d,\"routine\":\"%s\",\"reuse\":%d,\"A\":", id, RN[j->what], ru); emit_int_matrix(buf, sizeof buf, &p, a);
          p += snprintf(buf + p, sizeof buf - p, ",\"inv\":"); emit_int_matrix(buf, sizeof buf, &p, x); snprintf(buf + p, sizeof buf - p, "}"); VRT_EMIT("%s", buf);
        }
      }
      if(ru != 2) DelMatrix(&X);
      break; }
    case J_DET: {
      double d = MatrixDeterminant(A), ref = det_lu(a);
      /* the cofactor expansion sums n! products: its rounding error is bounded by ~n eps * prod_i |row_i|_1, whatever the conditioning */
      double r = fabs(d - ref) / rowsum_prod(a);
      VRT_EMIT("{\"e\":\"Det\",\"id\":%d,\"routine\":\"MatrixDeterminant\",\"n\":%d,\"r\":%ld,\"rel\":%ld}", id, a.r, vq12(r), vq12(fabs(d - ref) / (fabs(ref) > 0 ? fabs(ref) : 1e-300)));
      if(e->isint && a.r <= 8 && bareiss_fits(a)){
        int ok = vfinite(d) && fabs(d) < 1e9 && fabs(d - round(d)) < 1e-6;
        int p = snprintf(buf, sizeof buf, "{\"e\":\"DetInt\",\"id\":%d,\"routine\":\"MatrixDeterminant\",\"n\":%d,\"A\":", id, a.r); emit_int_matrix(buf, sizeof buf, &p, a);
        snprintf(buf + p, sizeof buf - p, ",\"ok\":%d,\"det\":%ld}", ok, ok ? (long)llround(d) : 0L); VRT_EMIT("%s", buf);
      }
      break; }
    case J_DETMUL: {   /* det(A B) = det(A) det(B) */
      matrix *B = to_lib(e->partner), *P; NewMatrix(&P, a.r, a.r); MatrixDotProduct(A, B, P);
      double da = MatrixDeterminant(A), db = MatrixDeterminant(B), dp = MatrixDeterminant(P);
      M bm = from_lib(B), pm = from_lib(P);
      double r = fabs(dp - da * db) / (rowsum_prod(pm) + rowsum_prod(a) * rowsum_prod(bm));
      VRT_EMIT("{\"e\":\"DetMul\",\"id\":%d,\"routine\":\"MatrixDeterminant\",\"n\":%d,\"r\":%ld}", id, a.r, vq12(r));
      if(e->isint && e->partner_int && a.r <= 5 && bareiss_fits(a) && bareiss_fits(bm) && bareiss_fits(pm)){
        int ok = vfinite(da) && vfinite(db) && vfinite(dp) && fabs(da) < 3e4 && fabs(db) < 3e4 && fabs(dp) < 9e8 &&
                 fabs(da - round(da)) < 1e-6 && fabs(db - round(db)) < 1e-6 && fabs(dp - round(dp)) < 1e-6;
        int p = snprintf(buf, sizeof buf, "{\"e\":\"DetMulInt\",\"id\":%d,\"routine\":\"MatrixDeterminant\",\"n\":%d,\"A\":", id, a.r); emit_int_matrix(buf, sizeof buf, &p, a);
        p += snprintf(buf + p, sizeof buf - p, ",\"B\":"); emit_int_matrix(buf, sizeof buf, &p, bm);
        snprintf(buf + p, sizeof buf - p, ",\"ok\":%d,\"da\":%ld,\"db\":%ld,\"dp\":%ld}", ok, ok ? (long)llround(da) : 0L, ok ? (long)llround(db) : 0L, ok ? (long)llround(dp) : 0L); VRT_EMIT("%s", buf);
      }
      break; }
    case J_SOLVE: {    /* b = A x0 ; e->x0 holds x0 as a column */
      int n = a.r; M bb = mul(a, e->x0); matrix *G; NewMatrix(&G, n, n + 1); dvector *s = out_v(ru, &H_sol, n, jx, 1e3);
      for(int i = 0; i < n; i++){ for(int k = 0; k < n; k++) G->data[i][k] = E(a,i,k); G->data[i][n] = E(bb,i,0); }
      SolveLSE(G, s);
      double rf = INFINITY, rb = INFINITY;
      if(s->size == (size_t)n){
        M x = mk(n, 1); for(int i = 0; i < n; i++) E(x,i,0) = s->data[i];
        M ax = mul(a, x); double ee = 0, f = 0; for(int i = 0; i < n; i++){ ee += (E(ax,i,0) - E(bb,i,0)) * (E(ax,i,0) - E(bb,i,0)); f += (E(x,i,0) - E(e->x0,i,0)) * (E(x,i,0) - E(e->x0,i,0)); }
        rb = sqrt(ee) / (fro(a) * fro(x) + fro(bb) + 1e-300); rf = sqrt(f) / (fro(e->x0) + 1e-300);
        if(!vfinite(maxabs(x))) rb = rf = INFINITY;
      }
      VRT_EMIT("{\"e\":\"Solve\",\"id\":%d,\"routine\":\"SolveLSE\",\"reuse\":%d,\"rb\":%ld,\"rf\":%ld}", id, ru, vq12(rb), vq12(rf));
      if(ru != 2) DelDVector(&s);
      break; }
    case J_OLS: {      /* a is m x n (m >= n, full column rank), e->y is y (m x 1): normal equations X'(X beta - y) = 0 */
      int m = a.r, n = a.c; dvector *y, *be = out_v(ru, &H_beta, n, jx, -5.0); NewDVector(&y, m); for(int i = 0; i < m; i++) y->data[i] = E(e->y,i,0);
      OrdinaryLeastSquares(A, y, be);
      double r = INFINITY;
      if(be->size == (size_t)n){
        M bt = mk(n, 1); for(int i = 0; i < n; i++) E(bt,i,0) = be->data[i];
        M xb = mul(a, bt); for(int i = 0; i < m; i++) E(xb,i,0) -= E(e->y,i,0);
        M at = tr(a), g = mul(at, xb);
        r = fro(g) / (fro(a) * (fro(a) * fro(bt) + fro(e->y)) + 1e-300); if(!vfinite(maxabs(bt))) r = INFINITY;
      }
      VRT_EMIT("{\"e\":\"Ols\",\"id\":%d,\"routine\":\"OrdinaryLeastSquares\",\"shape\":\"%s\",\"reuse\":%d,\"r\":%ld}", id, e->shape, ru, vq12(r));
      if(ru != 2) DelDVector(&be);
      break; }
    case J_PENROSE: case J_PINVSVD: {   /* J_PINVSVD: the SVD-based MatrixPseudoinversion (named in the anchors, not in the statement's observe list: EXTRA only) */
      matrix *P = out_m(ru, &H_P, a.c, a.r, jx); if(j->what == J_PENROSE) MatrixMoorePenrosePseudoinverse(A, P); else MatrixPseudoinversion(A, P);
      M p = from_lib(P); double r1 = INFINITY, r2 = INFINITY, r3 = INFINITY, r4 = INFINITY;
      if(p.r == a.c && p.c == a.r && vfinite(maxabs(p))){
        M ap = mul(a, p), pa = mul(p, a), apa = mul(ap, a), pap = mul(pa, p);
        for(int i = 0; i < a.r * a.c; i++) apa.a[i] -= a.a[i];
        for(int i = 0; i < p.r * p.c; i++) pap.a[i] -= p.a[i];
        r1 = fro(apa) / fro(a); r2 = fro(pap) / (fro(p) + 1e-300);
        r3 = 0; for(int i = 0; i < ap.r; i++) for(int k = 0; k < ap.c; k++){ double d = fabs(E(ap,i,k) - E(ap,k,i)); if(d > r3) r3 = d; }
        r4 = 0; for(int i = 0; i < pa.r; i++) for(int k = 0; k < pa.c; k++){ double d = fabs(E(pa,i,k) - E(pa,k,i)); if(d > r4) r4 = d; }
      }
      VRT_EMIT("{\"e\":\"Penrose\",\"id\":%d,\"routine\":\"%s\",\"shape\":\"%s\",\"reuse\":%d,\"r1\":%ld,\"r2\":%ld,\"r3\":%ld,\"r4\":%ld}", id, RN[j->what], e->shape, ru, vq12(r1), vq12(r2), vq12(r3), vq12(r4));
      if(ru != 2) DelMatrix(&P);
      break; }
    case J_EIG: {
      int n = a.r; dvector *ev = out_v(ru, &H_ev, n, jx, 3.0); matrix *V = out_m(ru, &H_V, n, n, jx); EVectEval(A, ev, V);
      double r = INFINITY, trr = INFINITY; int nz = 0;
      if(ev->size == (size_t)n && V->row == (size_t)n && V->col == (size_t)n){
        r = 0; nz = 1; double na = fro(a), sl = 0, ta = 0;
        for(int k = 0; k < n; k++){
          double nv = 0, ee = 0; for(int i = 0; i < n; i++) nv += V->data[i][k] * V->data[i][k];
          nv = sqrt(nv); if(!(nv > 1e-8)) nz = 0;
          for(int i = 0; i < n; i++){ double s = 0; for(int q = 0; q < n; q++) s += E(a,i,q) * V->data[q][k]; s -= ev->data[k] * V->data[i][k]; ee += s * s; }
          double rk = sqrt(ee) / (na * nv + 1e-300); if(!(rk <= r)) r = rk;
          sl += ev->data[k]; ta += E(a,k,k);
        }
        trr = fabs(sl - ta) / (na + 1e-300);          /* Impl layer: the n pairs are a COMPLETE set (sum of eigenvalues = trace) */
      }
      VRT_EMIT("{\"e\":\"Eig\",\"id\":%d,\"routine\":\"EVectEval\",\"reuse\":%d,\"r\":%ld,\"nz\":%d,\"tr\":%ld}", id, ru, vq12(r), nz, vq12(trr));
      if(ru != 2){ DelDVector(&ev); DelMatrix(&V); }
      break; }
    case J_SVD: case J_SVDLAPACK: {
      int k = e->k; matrix *U = out_m(ru, &H_U, a.r, k, jx), *S = out_m(ru, &H_S, k, k, jx + 1), *VT = out_m(ru, &H_VT, k, a.c, jx + 2);
      if(j->what == J_SVD) SVD(A, U, S, VT); else SVDlapack(A, U, S, VT);
      int shp = U->row == (size_t)a.r && U->col == S->row && S->col == VT->row && VT->col == (size_t)a.c && S->row > 0 && S->col > 0;
      int sig = 1; double recon = INFINITY, svr = INFINITY, orth = INFINITY;
      for(size_t i = 0; i < S->row && i < S->col; i++) if(!(S->data[i][i] >= 0)) sig = 0;
      if(shp){
        M u = from_lib(U), s = from_lib(S), vt = from_lib(VT), us = mul(u, s), p = mul(us, vt); double na = fro(a);
        for(int i = 0; i < a.r * a.c; i++) p.a[i] -= a.a[i];
        recon = na > 0 ? fro(p) / na : fro(p);
        /* the diagonal of S, in any order, must be THE singular values of the input (oracle: dgesvd); off-diagonal entries of S count */
        double dg[12] = {0}, off = 0; int nd = 0;
        for(int i = 0; i < s.r; i++) for(int q = 0; q < s.c; q++){ if(i == q){ if(nd < 12) dg[nd++] = E(s,i,q); } else if(fabs(E(s,i,q)) > off || !vfinite(E(s,i,q))) off = fabs(E(s,i,q)); }
        for(int i = 0; i < nd; i++) for(int q = i + 1; q < nd; q++) if(dg[q] > dg[i]){ double t = dg[i]; dg[i] = dg[q]; dg[q] = t; }
        double worst = off; for(int i = 0; i < nd || i < k; i++){ double d = fabs((i < nd ? dg[i] : 0.0) - (i < k ? e->sv[i] : 0.0)); if(!(d <= worst)) worst = d; }
        svr = e->sv[0] > 0 ? worst / e->sv[0] : worst;
        /* Impl layer: orthonormal columns of U and rows of VT */
        M ut = tr(u), utu = mul(ut, u), vtt = tr(vt), vv = mul(vt, vtt); for(int i = 0; i < utu.r; i++) E(utu,i,i) -= 1; for(int i = 0; i < vv.r; i++) E(vv,i,i) -= 1;
        orth = maxabs(utu) > maxabs(vv) ? maxabs(utu) : maxabs(vv); if(!vfinite(maxabs(u)) || !vfinite(maxabs(vt))) orth = INFINITY;
      }
      VRT_EMIT("{\"e\":\"Svd\",\"id\":%d,\"routine\":\"%s\",\"shape\":\"%s\",\"reuse\":%d,\"shp\":%d,\"sig\":%d,\"recon\":%ld,\"sv\":%ld,\"orth\":%ld,\"dims\":[%zu,%zu,%zu,%zu,%zu,%zu]}", id, RN[j->what], e->shape, ru, shp, sig, vq12(recon), vq12(svr), vq12(orth),
               U->row, U->col, S->row, S->col, VT->row, VT->col);
      if(ru != 2){ DelMatrix(&U); DelMatrix(&S); DelMatrix(&VT); }
      break; }
  }
  DelMatrix(&A);
  fflush(vrt_out);
}
static void child_run(block *b, int start, int *seqbase){
  int last = -1;
  for(int jx = start; jx < b->nj; jx++){
    progress[0] = jx;
    alarm(90);                                  /* watchdog: SIGALRM kills the child, the parent logs a Crash for job jx */
    if(b->j[jx].mi != last){ last = b->j[jx].mi; emit_mat(b, last, seqbase[last]); fflush(vrt_out); }
    run_job(b, jx);
  }
  alarm(0);
}
static long ncrash = 0, nblocks = 0, njobs = 0;
static void run_block(block *b){
  int seq[MAXM]; for(int i = 0; i < b->nm; i++) seq[i] = i;
  VRT_EMIT("{\"e\":\"Reset\",\"id\":%d,\"hist\":%d}", b->id, b->hist);
  nblocks++; njobs += b->nj;
  int start = 0;
  while(start < b->nj){
    fflush(NULL); progress[0] = start;
    pid_t pid = fork();
    if(pid < 0){ perror("fork"); exit(2); }
    if(pid == 0){ signal(SIGALRM, SIG_DFL); child_run(b, start, seq); fflush(NULL); _exit(0); }
    int status = 0; if(waitpid(pid, &status, 0) != pid){ perror("waitpid"); exit(2); }
    if(WIFEXITED(status) && WEXITSTATUS(status) == 0) break;
    int jx = progress[0], rc = WIFSIGNALED(status) ? 1000 + WTERMSIG(status) : WEXITSTATUS(status);
    if(jx < start || jx >= b->nj){ fprintf(stderr, "c12_trace: child of block %d died outside a job (rc %d)\n", b->id, rc); exit(2); }
    ncrash++;
    VRT_EMIT("{\"e\":\"Crash\",\"id\":%d,\"routine\":\"%s\",\"shape\":\"%s\",\"reuse\":%d,\"rc\":%d}", b->id, RN[b->j[jx].what], b->m[b->j[jx].mi].shape, b->j[jx].reuse, rc);
    start = jx + 1;
  }
}

/* ---- the plan ---- */
typedef struct { int kind, a, b, c, d; } item;      /* kind 0 square(cls,n,sweep) 1 rect(m,n,sweep) 2 rankdef(m,n,kind,sc) 3 history(routine,variant) */
static item *PLAN; static int NPLAN;
static void plan_add(int kind, int a, int b, int c, int d){ PLAN = realloc(PLAN, sizeof(item) * (size_t)(NPLAN + 1)); PLAN[NPLAN].kind = kind; PLAN[NPLAN].a = a; PLAN[NPLAN].b = b; PLAN[NPLAN].c = c; PLAN[NPLAN].d = d; NPLAN++; }
static void build_plan(int tier){
  int sweeps = tier ? 36 : 3, rsweeps = tier ? 16 : 2, hvar = tier ? 72 : 6;
  /* interleave the kinds so that every part of the round-robin split gets every kind */
  for(int s = 0; s < sweeps; s++){
    for(int n = 1; n <= 12; n++) for(int cls = 0; cls < NSQ; cls++) plan_add(0, cls, n, s, 0);
    if(s < rsweeps) for(int m = 2; m <= 12; m++) for(int n = 1; n < m; n++) plan_add(1, m, n, s, 0);
    for(int h = 0; h < (hvar + sweeps - 1) / sweeps; h++){ int v = s * ((hvar + sweeps - 1) / sweeps) + h; if(v < hvar) for(int rt = 0; rt < NJK; rt++) if(rt != J_DETMUL && rt != J_SVD) plan_add(3, rt, v, 0, 0); }
    for(int q = 0; q < (tier ? 12 : 8); q++){ int g = s * 12 + q; static const int SH[][2] = {{1,1},{3,3},{4,2},{2,4},{12,12},{12,1},{1,12},{5,8},{8,5},{7,7},{12,11},{11,12}}; plan_add(2, SH[g % 12][0], SH[g % 12][1], (g / 3) % 4, g % 3); }
  }
}
/* size patterns of a history: 0..3 change the size at almost every call (shape-keyed caches, work arrays sized once), 4..5 repeat a size
 * (the output keeps its shape and is NOT resized: whatever the previous call left in it is still there) */
#define NHV 6
static const int HSZ[NHV][10] = {{12, 1, 7, 7, 3, 12, 2, 8, 5, 12}, {2, 11, 4, 4, 9, 1, 12, 6, 12, 3}, {8, 8, 1, 12, 5, 5, 12, 4, 7, 2}, {1, 12, 12, 3, 10, 2, 6, 6, 11, 8},
                                 {9, 9, 12, 12, 5, 5, 2, 2, 7, 7}, {12, 12, 12, 4, 4, 4, 8, 8, 1, 1}};
static const int HRECT[NHV][10][2] = {{{12,12},{1,1},{12,3},{3,12},{5,5},{1,12},{12,1},{4,9},{9,4},{12,12}}, {{2,7},{7,2},{7,7},{12,11},{11,12},{1,5},{5,1},{8,8},{3,4},{12,2}},
                                   {{6,6},{12,1},{1,12},{1,1},{10,4},{4,10},{4,4},{9,12},{12,9},{2,2}}, {{11,3},{3,3},{3,11},{12,12},{12,12},{2,1},{1,2},{7,8},{8,7},{5,5}},
                                   {{12,5},{12,5},{5,12},{5,12},{8,8},{8,8},{3,2},{3,2},{12,12},{12,12}}, {{7,3},{7,3},{7,3},{10,10},{10,10},{1,1},{1,1},{12,1},{12,1},{6,11}}};
static int build_block(block *b, int idx, long *dropped){
  item *it = &PLAN[idx]; memset(b, 0, sizeof *b); b->id = idx;
  switch(it->kind){
    case 0: { int cls = it->a, n = it->b, s = it->c; int scmode = (s + cls + n) % 3, xsmode = (s / 3 + cls + 2 * n) % 3, sub = s + (n - 1);
      if(cls == INTS && n > 8) n = n - 8;                                                  /* integer class: exact determinant up to 8 */
      if(!make_square(&b->m[0], cls, n, sub, scmode, xsmode)){ (*dropped)++; return 0; }
      b->nm = 1; square_jobs(b, 0, (idx / 7) % 2);                                         /* alternate fresh / sized-stale outputs */
      return 1; }
    case 1: { int m = it->a, n = it->b, s = it->c; int scmode = (s + m + n) % 3;
      double cmax = s % 2 == 0 ? 1e3 : 1e6;                                                /* even sweeps: all routines (cond <= 1e3); odd: SVD up to 1e6 */
      if(!make_tall(&b->m[0], m, n, cmax, scmode, (m + 2 * n + s) % 4)){ (*dropped)++; return 0; }
      b->nm = 1; int ru = (idx / 5) % 2;
      if(b->m[0].cond <= 1e3){ add_job(b, J_OLS, 0, ru); add_job(b, J_PENROSE, 0, ru); if((m + n) % 6 == 0) add_job(b, J_PINVSVD, 0, 0); }
      add_job(b, J_SVDLAPACK, 0, ru); if((m + n) % 5 == 0) add_job(b, J_SVD, 0, 0);
      if(make_wide_of(&b->m[1], &b->m[0])){ b->nm = 2; add_job(b, J_SVDLAPACK, 1, ru); if((m + n) % 7 == 0) add_job(b, J_SVD, 1, 0); }
      return 1; }
    case 2: { if(!make_rankdef(&b->m[0], it->a, it->b, it->c, it->d)){ (*dropped)++; return 0; }
      b->nm = 1; add_job(b, J_SVDLAPACK, 0, 0); return 1; }
    default: { /* history: one routine, ~10 calls on different matrices, the same outputs throughout */
      int rt = it->a, v = it->b; b->hist = 1;
      for(int q = 0; q < 10 && b->nm < MAXM; q++){
        ment *e = &b->m[b->nm]; int ok = 0, scmode = (q + v) % 3, xsmode = (q % 2 == 0) ? 2 : 1;   /* solution magnitudes alternate 1e6 / 1e-6 */
        if(rt == J_SVDLAPACK || rt == J_OLS || rt == J_PENROSE){
          int m = HRECT[v % NHV][q][0], n = HRECT[v % NHV][q][1];
          if(rt != J_SVDLAPACK && m < n){ int t = m; m = n; n = t; }
          if(m == n){ static const int C[] = {GEN, SPD, TRI, ZLM, DIAG, PERM}; ok = make_square(e, C[(q + v) % 6], m, q + v, scmode, xsmode); if(ok && rt != J_SVDLAPACK && e->cond > 1e3) ok = 0; }
          else if(m > n) ok = make_tall(e, m, n, rt == J_SVDLAPACK ? 1e6 : 1e3, scmode, 0);
          else { ment t; ok = make_tall(&t, n, m, 1e6, scmode, 0) && make_wide_of(e, &t); }
        } else {
          int n = HSZ[v % NHV][q]; if(rt == J_DET && n > 8) n = n - 6;
          static const int CE[] = {SPD, REPEIG, SYMM, DIAG, SYMPERM, TOEP}, CG[] = {GEN, ZLM, PERM, TRI, SPD, GRADED, UTRI, DIAG}, CS[] = {GEN, SPD, GRADED, SYMM, NONREP, TOEP, ZLM, OFFSET};
          ok = make_square(e, rt == J_EIG ? CE[(q + v) % 6] : (rt == J_SOLVE ? CS[(q + v) % 8] : CG[(q + v) % 8]), n, q + v, scmode, xsmode);
        }
        if(!ok){ (*dropped)++; continue; }
        add_job(b, rt, b->nm, 2); b->nm++;
      }
      return b->nj > 0; }
  }
}

int main(int argc, char **argv){
  if(argc < 6){ fprintf(stderr, "usage: c12_trace out.ndjson seed tier part nparts [only_item]\n"); return 2; }
  vrt_open(argv[1]); uint64_t seed = (uint64_t)atoll(argv[2]); int tier = atoi(argv[3]), part = atoi(argv[4]), nparts = atoi(argv[5]), only = argc > 6 ? atoi(argv[6]) : -1;
  static const int NP[] = {1, 2, 3, 5, 16, 24}; int np = NP[part % 6];
  vrt_force_nproc((size_t)np);                  /* K6: none of the routines reaches an MT_* kernel; the forced count must simply not matter */
  progress = mmap(NULL, 4096, PROT_READ | PROT_WRITE, MAP_SHARED | MAP_ANONYMOUS, -1, 0);
  if(progress == MAP_FAILED){ perror("mmap"); return 2; }
  build_plan(tier);
  VRT_EMIT("{\"e\":\"Start\",\"plan\":%d,\"part\":%d,\"nparts\":%d,\"nproc\":%d}", NPLAN, part, nparts, np);
  long dropped = 0; static block b;
  for(int idx = 0; idx < NPLAN; idx++){
    if(only >= 0 ? idx != only : idx % nparts != part) continue;
    R.s = (seed * 0x9E3779B97F4A7C15ULL + 777) ^ ((uint64_t)(idx + 1) * 0xD1B54A32D192ED03ULL); vr_next(&R);
    if(!build_block(&b, idx, &dropped)) continue;
    run_block(&b);
    for(int i = 0; i < b.nm; i++){ fr(b.m[i].a); fr(b.m[i].x0); fr(b.m[i].y); fr(b.m[i].partner); }
  }
  VRT_EMIT("{\"e\":\"Reset\",\"id\":-1,\"hist\":0}");
  VRT_EMIT("{\"e\":\"End\",\"dropped\":%ld,\"blocks\":%ld,\"jobs\":%ld,\"crashes\":%ld}", dropped, nblocks, njobs, ncrash);
  vrt_close();
  return 0;
}
