/* c08_drv.c - conformance driver for C08 (LDA: arg-max discriminant, label bookkeeping, affine invariance).
 *
 * usage: c08_drv <out.ndjson> exact  <casefile>
 *        c08_drv <out.ndjson> ledger <seed> <first> <count> <sep>
 *        c08_drv <out.ndjson> plan   <planfile>
 *
 * exact : every line of <casefile> is a TLC-generated case
 *           "id n d nT off mul den  v_1..v_n  x_11..x_nd  t_11..t_nTd"
 *         (labels, integer features, integer extra test points) and the recoding TLC assigned to it: the library sees
 *         (integer + o_j) * mul / den with o_1 = off, o_2 = -2 off (OffsetOf in spec/Lda.tla); stored means are mapped back.
 * ledger: cases <first>..<first+count-1> of the seeded base generator: 2..5 classes, 2..6 features, 4..40 objects per class,
 *         balanced/unbalanced, labels from 0 or 1, class centres on a jittered lattice of spacing <sep> sigma.
 * plan  : one seeded case per line of <planfile>, the input classes of INPUT-CLASSES.md inside C08's quantifier:
 *           "id seed fam K d start order ntmode shiftexp unitexp grid nproc hist sep dup refit n_1..n_K"
 *         order 0 shuffled / 1 labels non-increasing / 2 shuffled with the first object in the LAST class / 3 non-decreasing;
 *         ntmode 0 training objects + 2 fresh per class / 1 a single fresh object / 2 the training objects only; shiftexp e: every feature gets a common offset
 *         of up to 10^e spreads; unitexp s: all features in units of 2^s; grid g: features rounded to multiples of 1/g;
 *         nproc: forced processor count (hook H2); hist 1: the case runs twice in ONE process with other models fitted, used
 *         and freed in between, the second time into output matrices another model's prediction left behind; sep 1: centres
 *         >= 12 sigma apart, 0: overlapping classes (no pair runs); dup 1: every second object of a class duplicates the one
 *         before; refit 1: LDA() once more into the used model object (outside the statement).
 *
 * Every model is fitted and used in a CHILD process (vrt_run_child): a crash of the library is attributed to that case
 * (the parent writes a Crash event) and the run goes on.  Events: see spec/TraceLda.tla.
 */
#include "scientific.h"
#include "verif_rt.h"
#include <sys/mman.h>

#define MAXK 8
#define MAXD 8
#define MISSCODE 99999999.0

typedef struct {
  long id; int exact, sep, n, d, K, start, balanced, sub;
  int *lab;            /* n training labels */
  double *X;           /* n x d training features */
  int nt; int *tlab;   /* test objects (exact: the training objects, then the extra points) */
  double *T;           /* nt x d */
  uint64_t pairseed;
  /* round 3 */
  char fam[24];
  long *Xi, *Ti; int nT;                 /* exact: integer coordinates as TLC knows them */
  long rc_off, rc_mul, rc_den;           /* exact: recoding */
  long shift; int unitexp; double unit;  /* ledger: common offset in spreads (0 = none), unit 2^unitexp */
  double off[MAXD];                      /* the offsets themselves (in real units) */
  int nproc, hist, nopair, refit;
} lcase;

static volatile int *g_stage;      /* shared with the child: which library call is running */
static const char *STAGE[] = {"none", "fit", "predict", "affine", "perm", "auc", "emit", "lderr", "history", "refit"};

static long clampl(double v){ if(!(v == v)) return VQ_MAX; if(v > 1.9e9) return VQ_MAX; if(v < -1.9e9) return -VQ_MAX; return (long)llround(v); }

static matrix *mk(const double *a, int r, int c){ matrix *m; NewMatrix(&m, r, c); for(int i = 0; i < r; i++) for(int j = 0; j < c; j++) m->data[i][j] = a[i * c + j]; return m; }
static matrix *mky(const int *lab, int n){ matrix *m; NewMatrix(&m, n, 1); for(int i = 0; i < n; i++) m->data[i][0] = (double)lab[i]; return m; }
static double oexact(const lcase *c, int j){ return j == 0 ? (double)c->rc_off : -2.0 * (double)c->rc_off; }

typedef struct { LDAMODEL *m; matrix *pf, *pr, *mn, *pred; } fitres;
/* outputs for LDAPrediction: fresh (reuse == NULL) or REUSED - copies of an earlier call's outputs, i.e. already sized and non-zero */
static void out_init(fitres *f, fitres *reuse){
  initMatrix(&f->pf); initMatrix(&f->pr); initMatrix(&f->mn); initMatrix(&f->pred);
  if(reuse){ MatrixCopy(reuse->pf, &f->pf); MatrixCopy(reuse->pr, &f->pr); MatrixCopy(reuse->mn, &f->mn); MatrixCopy(reuse->pred, &f->pred); }
}
/* outputs of given (other) dimensions holding other data */
static void out_dims(fitres *f, int r, int cpr, int cmn, double fill){
  NewMatrix(&f->pf, r, cmn); NewMatrix(&f->pr, r, cpr); NewMatrix(&f->mn, r, cmn); NewMatrix(&f->pred, r, 1);
  MatrixSet(f->pf, fill); MatrixSet(f->pr, fill); MatrixSet(f->mn, fill); MatrixSet(f->pred, fill);
}
static void out_free(fitres *f){ DelMatrix(&f->pf); DelMatrix(&f->pr); DelMatrix(&f->mn); DelMatrix(&f->pred); }
static void fit_predict_r(const double *X, const int *lab, int n, int d, const double *T, int nt, fitres *f, int stage_fit, int stage_pred, fitres *reuse){
  matrix *x = mk(X, n, d), *y = mky(lab, n), *t = mk(T, nt, d);
  NewLDAModel(&f->m);
  *g_stage = stage_fit;
  LDA(x, y, f->m);
  out_init(f, reuse);
  if(stage_pred >= 0){
    *g_stage = stage_pred;
    LDAPrediction(t, f->m, f->pf, f->pr, f->mn, f->pred);
  }
  *g_stage = 6;
  DelMatrix(&x); DelMatrix(&y); DelMatrix(&t);
}
static void fit_predict(const double *X, const int *lab, int n, int d, const double *T, int nt, fitres *f, int stage_fit, int stage_pred){ fit_predict_r(X, lab, n, d, T, nt, f, stage_fit, stage_pred, NULL); }
static void fit_free(fitres *f){ DelLDAModel(&f->m); out_free(f); }

/* max over test objects and class pairs of |D_kl - D'_kl| / max(1,|D_kl|); *same = predictions identical */
static double pair_err(matrix *p1, matrix *q1, matrix *p2, matrix *q2, int *same){
  double w = 0; *same = 1;
  if(p1->row != p2->row || p1->col != p2->col || q1->row != q2->row){ *same = 0; return 1e300; }
  for(size_t i = 0; i < p1->row; i++){
    if(q1->data[i][0] != q2->data[i][0]) *same = 0;
    for(size_t k = 0; k < p1->col; k++) for(size_t l = k + 1; l < p1->col; l++){
      double a = p1->data[i][k] - p1->data[i][l], b = p2->data[i][k] - p2->data[i][l];
      double e = fabs(a - b) / fmax(1.0, fabs(a));
      if(!(e == e)) e = 1e300;
      if(e > w) w = e;
    }
  }
  return w;
}
/* blocks with a common offset: one PairRow per test object, |D - D'| (1e-9 units) and ceil(max(1,|D|)) per class pair; returns rows */
static int pair_rows(matrix *p1, matrix *p2, long kfq, const char *kind, const char *map){
  static char buf[2048];
  if(p1->row != p2->row || p1->col != p2->col) return 0;
  for(size_t i = 0; i < p1->row; i++){
    int p = snprintf(buf, sizeof buf, "{\"e\":\"PairRow\",\"kind\":\"%s\",\"map\":\"%s\",\"i\":%zu,\"kf\":%ld,\"e9\":[", kind, map, i + 1, kfq), first = 1;
    static char mb[1024]; int q = 0; mb[0] = 0;
    for(size_t k = 0; k < p1->col; k++) for(size_t l = k + 1; l < p1->col; l++){
      double a = p1->data[i][k] - p1->data[i][l], b = p2->data[i][k] - p2->data[i][l];
      double m = ceil(fmax(1.0, fabs(a))); if(!(m == m) || m > 1e9) m = 1e9;
      p += snprintf(buf + p, sizeof buf - p, "%s%ld", first ? "" : ",", vq9(a - b));
      q += snprintf(mb + q, sizeof mb - q, "%s%ld", first ? "" : ",", (long)m);
      first = 0;
    }
    snprintf(buf + p, sizeof buf - p, "],\"m\":[%s]}", mb);
    VRT_EMIT("%s", buf);
  }
  return (int)p1->row;
}

/* diagnostics (not judged): did LDA() take its pseudo-inverse fall-back (sum of squares of inv_cov < 1e-3); which covariance
 * does the stored inverse invert - the total one (pinned tree) or the pooled within-class one - and how well (max |S C - I|);
 * Frobenius condition number of that covariance */
static void inv_diag(const double *X, const int *lab, int n, int d, matrix *C, int *pinv, double *kf, double *ires, int *within){
  double best = 1e300, bestkf = 0; int bw = 0, labmin = lab[0];
  for(int i = 1; i < n; i++) if(lab[i] < labmin) labmin = lab[i];
  for(int w = 0; w < 2; w++){
    static double mt[MAXK + 2][MAXD]; int cnt[MAXK + 2]; double S[MAXD][MAXD] = {{0}}, nS = 0, nC = 0, res = 0;
    memset(mt, 0, sizeof mt); memset(cnt, 0, sizeof cnt);
    for(int i = 0; i < n; i++){ int g = w ? (lab[i] - labmin) % (MAXK + 2) : 0; cnt[g]++; for(int j = 0; j < d; j++) mt[g][j] += X[i * d + j]; }
    for(int g = 0; g < MAXK + 2; g++) if(cnt[g]) for(int j = 0; j < d; j++) mt[g][j] /= cnt[g];
    for(int i = 0; i < n; i++){ int g = w ? (lab[i] - labmin) % (MAXK + 2) : 0; for(int p = 0; p < d; p++) for(int q = 0; q < d; q++) S[p][q] += (X[i * d + p] - mt[g][p]) * (X[i * d + q] - mt[g][q]) / n; }
    for(int p = 0; p < d; p++) for(int q = 0; q < d; q++){ double v = 0; for(int r = 0; r < d; r++) v += S[p][r] * C->data[r][q]; v -= (p == q); if(fabs(v) > res || !(v == v)) res = fabs(v);
      nS += S[p][q] * S[p][q]; nC += C->data[p][q] * C->data[p][q]; }
    if(w == 0) *pinv = nC < 1e-3;
    if(w == 0 || res <= 4.0 * best + 1e-12){ best = res; bestkf = sqrt(nS) * sqrt(nC); bw = w; }      /* both fit (class means coincide): counts as within */
  }
  *ires = best; *kf = bestkf; *within = bw;
}

static void orth(vrng *R, int d, double Q[MAXD][MAXD]){
  for(;;){
    int ok = 1;
    for(int i = 0; i < d; i++) for(int j = 0; j < d; j++) Q[i][j] = vr_norm(R);
    for(int i = 0; i < d && ok; i++){
      for(int p = 0; p < i; p++){ double s = 0; for(int j = 0; j < d; j++) s += Q[i][j] * Q[p][j]; for(int j = 0; j < d; j++) Q[i][j] -= s * Q[p][j]; }
      double nn = 0; for(int j = 0; j < d; j++) nn += Q[i][j] * Q[i][j];
      nn = sqrt(nn); if(nn < 1e-3){ ok = 0; break; }
      for(int j = 0; j < d; j++) Q[i][j] /= nn;
    }
    if(ok) return;
  }
}
/* the library reads cells within 0.1 of 99999999 as "missing" (numeric.h): C08 says nothing about missing values, keep away */
static int near_missing(const double *a, long len){ for(long i = 0; i < len; i++) if(fabs(fabs(a[i]) - MISSCODE) < 1.0) return 1; return 0; }

static void emit_preds(lcase *c, fitres *f, const int *which, int nw){
  /* which: indices into the test set (NULL = all), rows of f->pr / f->pred are in the order of `which` */
  static char buf[4096];
  for(int r = 0; r < nw && (size_t)r < f->pr->row && (size_t)r < f->pred->row; r++){     /* a short output is reported by EndPred, not by a crash of the harness */
    int i = which ? which[r] : r;
    int K = (int)f->pr->col, fin = 1, am = 0;
    int p = snprintf(buf, sizeof buf, "{\"e\":\"Pred\",\"i\":%d,\"label\":%ld,\"truth\":%d,", i + 1, clampl(f->pred->data[r][0]), c->tlab[i]);
    for(int k = 0; k < K; k++){ if(!vfinite(f->pr->data[r][k])) fin = 0; if(f->pr->data[r][k] > f->pr->data[r][am]) am = k; }
    p += snprintf(buf + p, sizeof buf - p, "\"fin\":%d,\"am\":%d,\"sc\":[", fin, am);
    for(int k = 0; k < K; k++){ long q[3]; double v = f->pr->data[r][k]; if(v == 0) v = 0.0; vcode3(v, q); p += snprintf(buf + p, sizeof buf - p, "%s[%ld,%ld,%ld]", k ? "," : "", q[0], q[1], q[2]); }
    snprintf(buf + p, sizeof buf - p, "]}");
    VRT_EMIT("%s", buf);
  }
}

/* projected features (outside the statement): one column per stored eigenvector, value = object . eigenvector */
static void emit_pfeat(lcase *c, LDAMODEL *m, matrix *pf, const double *T, int nt, int reversed, int var){
  int d = c->d; double w = 0;
  if(c->exact) return;
  size_t ne = m->evect->col;
  if(pf->row == (size_t)nt && pf->col >= ne){
    size_t c0 = pf->col - ne;        /* the columns this call appended */
    for(int i = 0; i < nt; i++) for(size_t l = 0; l < ne; l++){
      const double *x = T + (size_t)(reversed ? nt - 1 - i : i) * d; long double s = 0, sa = 0;
      for(int j = 0; j < d; j++){ s += (long double)x[j] * m->evect->data[j][l]; sa += fabsl((long double)x[j] * m->evect->data[j][l]); }
      double e = fabs((double)s - pf->data[i][c0 + l]) / fmax(c->unit, (double)sa); if(!(e == e)) e = 1e300;
      if(e > w) w = e;
    }
  } else w = 1e300;
  VRT_EMIT("{\"e\":\"PFeat\",\"var\":%d,\"rows\":%zu,\"cols\":%zu,\"n\":%d,\"d\":%zu,\"err\":%ld}", var, pf->row, pf->col, nt, ne, vq12(w));
}

/* the feature tables the label map indexes (outside the statement): row k of fmean / fsdev = mean / population sdev of the projections of
 * class k's training objects (label k + start); the density output = the normal density of each projected test object under the table
 * row of its PREDICTED label */
static void emit_tables(lcase *c, LDAMODEL *m, fitres *f){
  if(c->exact) return;
  int n = c->n, d = c->d; size_t ne = m->evect->col;
  for(int k = 0; k < c->K; k++){
    double me = 0, se = 0;
    if((size_t)k >= m->fmean->row || (size_t)k >= m->fsdev->row || m->fmean->col < ne || m->fsdev->col < ne){ me = se = 1e300; }
    else for(size_t l = 0; l < ne; l++){
      long double s1 = 0; double mxp = c->unit; int cnt = 0;
      for(int i = 0; i < n; i++) if(c->lab[i] == k + c->start){ long double p = 0; for(int j = 0; j < d; j++) p += (long double)c->X[i * d + j] * m->evect->data[j][l]; s1 += p; cnt++; if(fabs((double)p) > mxp) mxp = fabs((double)p); }
      long double mean = cnt ? s1 / cnt : 0, s2 = 0;
      for(int i = 0; i < n; i++) if(c->lab[i] == k + c->start){ long double p = 0; for(int j = 0; j < d; j++) p += (long double)c->X[i * d + j] * m->evect->data[j][l]; s2 += (p - mean) * (p - mean); }
      double sd = cnt ? sqrt((double)(s2 / cnt)) : 0;
      double e1 = fabs(m->fmean->data[k][l] - (double)mean) / mxp, e2 = fabs(m->fsdev->data[k][l] - sd) / fmax(c->unit, sd);
      /* the sdev of projections that sit on a large offset carries the cancellation of the offset: relative to the projections' size */
      e2 = fabs(m->fsdev->data[k][l] - sd) / fmax(sd, 1e-6 * mxp);
      if(!(e1 == e1)) e1 = 1e300; if(!(e2 == e2)) e2 = 1e300;
      if(e1 > me) me = e1; if(e2 > se) se = e2;
    }
    VRT_EMIT("{\"e\":\"FTab\",\"k\":%d,\"rows\":%zu,\"cols\":%zu,\"ne\":%zu,\"merr\":%ld,\"serr\":%ld}", k, m->fmean->row, m->fmean->col, ne, vq12(me), vq12(se));
  }
  double w = 0;
  if(f->mn->row != (size_t)c->nt || f->mn->col != ne || f->pred->row != (size_t)c->nt) w = 1e300;
  else for(int j = 0; j < c->nt; j++) for(size_t l = 0; l < ne; l++){
    long id = (long)f->pred->data[j][0] - c->start;
    if(id < 0 || (size_t)id >= m->fmean->row){ w = 1e300; continue; }
    double pj = 0; for(int q = 0; q < d; q++) pj += c->T[j * d + q] * m->evect->data[q][l];      /* summed in the library's order */
    double sd = m->fsdev->data[id][l], z = (pj - m->fmean->data[id][l]) / sd;
    double ex = 1.0 / sqrt(2 * 3.14159265358979323846 * sd) * exp(-(z * z) / 2.0);
    double e = fabs(f->mn->data[j][l] - ex) / fmax(fabs(ex), 1e-280); if(!(e == e)) e = 1e300;
    if(e > w) w = e;
  }
  VRT_EMIT("{\"e\":\"MnPdf\",\"rows\":%zu,\"cols\":%zu,\"n\":%d,\"ne\":%zu,\"err\":%ld}", f->mn->row, f->mn->col, c->nt, ne, vq12(w));
}

/* K7: what the first pass of a history case stored (compared by the second pass) */
static matrix *g_keep_pr = NULL, *g_keep_pred = NULL;
static fitres *g_preout = NULL;         /* outputs another model's prediction left behind: the main call of pass 2 predicts into them */
static uintptr_t g_freed[3] = {0, 0, 0}; static int g_areuse = 0;   /* addresses of freed models, saved before the free */

static void emit_case(lcase *c);
static void auc_block(lcase *c, matrix *yt, matrix *yp, const char *src){
  dvector *ra, *pa; initDVector(&ra); initDVector(&pa);
  tensor *roc; initTensor(&roc);
  *g_stage = 5;
  LDAMulticlassStatistics(yt, yp, roc, ra, NULL, pa);
  *g_stage = 6;
  for(size_t k = 0; k < ra->size; k++) VRT_EMIT("{\"e\":\"Auc\",\"k\":%zu,\"err\":%ld,\"src\":\"%s\"}", k, vq12(ra->data[k] - 1.0), src);
  VRT_EMIT("{\"e\":\"AucEnd\",\"count\":%zu,\"src\":\"%s\",\"curves\":%zu,\"prc\":%zu}", ra->size, src, roc->order, pa->size);
  DelDVector(&ra); DelDVector(&pa); DelTensor(&roc);
  (void)c;
}

/* ---- the child: everything that calls the library for one case */
static int run_case(void *arg){
  lcase *c = (lcase *)arg; fitres f;
  int n = c->n, d = c->d, pre = 0;
#ifdef LIBSCIENTIFIC_VERIF
  vrt_force_nproc(c->nproc > 0 ? (size_t)c->nproc : 1);
#endif
  if(c->sub == 1){
    /* predict only the test objects of the third and later classes (a subset is predicted like the whole) */
    int *which = malloc(sizeof(int) * c->nt), nw = 0;
    for(int i = 0; i < c->nt; i++) if(c->tlab[i] - c->start >= 2) which[nw++] = i;
    double *T = malloc(sizeof(double) * (nw ? nw : 1) * d);
    for(int r = 0; r < nw; r++) memcpy(T + r * d, c->T + which[r] * d, sizeof(double) * d);
    fit_predict(c->X, c->lab, n, d, T, nw, &f, 1, 2);
    emit_preds(c, &f, which, nw);
    VRT_EMIT("{\"e\":\"EndPred\",\"n\":%d,\"rows\":%zu}", nw, f.pred->row);
    return 0;
  }
  /* fit only; the main prediction goes into fresh outputs or (second pass of a history) into what another model left behind */
  { matrix *x = mk(c->X, n, d), *y = mky(c->lab, n);
    NewLDAModel(&f.m);
    for(int q = 0; q < 3; q++) if(g_freed[q] && (uintptr_t)f.m == g_freed[q]) g_areuse = 1;
    *g_stage = 1; LDA(x, y, f.m); *g_stage = 6;
    DelMatrix(&x); DelMatrix(&y);
    pre = g_preout != NULL;
    if(g_preout){ f.pf = g_preout->pf; f.pr = g_preout->pr; f.mn = g_preout->mn; f.pred = g_preout->pred; g_preout = NULL; }
    else out_init(&f, NULL); }
  LDAMODEL *m = f.m;
  /* -- what LDA() stored */
  { static char buf[1024]; int p = snprintf(buf, sizeof buf, "{\"e\":\"Labels\",\"start\":%ld,\"nclass\":%ld,\"counts\":[", clampl((double)m->class_start), clampl((double)m->nclass));
    for(size_t k = 0; k < m->features->order && k < 64; k++) p += snprintf(buf + p, sizeof buf - p, "%s%ld", k ? "," : "", clampl((double)m->features->m[k]->row));
    snprintf(buf + p, sizeof buf - p, "]}"); VRT_EMIT("%s", buf); }
  double ps = 0;
  for(size_t k = 0; k < m->pprob->size; k++){
    double v = m->pprob->data[k] * n; ps += m->pprob->data[k];
    VRT_EMIT("{\"e\":\"Prior\",\"k\":%zu,\"num\":%ld,\"den\":%d,\"err\":%ld}", k, clampl(v), n, vq12(v - (double)clampl(v)));
  }
  VRT_EMIT("{\"e\":\"PriorSum\",\"num\":%ld,\"den\":%d,\"err\":%ld,\"count\":%zu}", clampl(ps * n), n, vq12(ps * n - (double)clampl(ps * n)), m->pprob->size);
  for(size_t k = 0; k < m->mu->row; k++){
    if(c->exact){
      for(size_t j = 0; j < m->mu->col; j++){
        /* back to the integer coordinates TLC knows, then x 420 = lcm(1..7): every class mean of <= 7 integers is a multiple of 1/420 */
        double v = (m->mu->data[k][j] * (double)c->rc_den / (double)c->rc_mul - oexact(c, (int)j)) * 420.0;
        VRT_EMIT("{\"e\":\"Mu\",\"k\":%zu,\"j\":%zu,\"num\":%ld,\"den\":420,\"err\":%ld}", k, j + 1, clampl(v), vq12(v - (double)clampl(v)));
      }
    }
    else{
      double w = 0;
      for(int j = 0; j < d; j++){
        long double s = 0; int cnt = 0;
        for(int i = 0; i < n; i++) if(c->lab[i] == (int)k + c->start){ s += c->X[i * d + j]; cnt++; }
        double avg = cnt ? (double)(s / cnt) : NAN;
        double v = (size_t)j < m->mu->col ? m->mu->data[k][j] : NAN;
        double e = fabs(v - avg) / fmax(c->unit, fabs(avg)); if(!(e == e)) e = 1e300;
        if(e > w) w = e;
      }
      VRT_EMIT("{\"e\":\"MuL\",\"k\":%zu,\"err\":%ld}", k, vq12(w));
    }
  }
  /* -- prediction of the test objects */
  matrix *t = mk(c->T, c->nt, d);
  *g_stage = 2;
  LDAPrediction(t, m, f.pf, f.pr, f.mn, f.pred);
  *g_stage = 6;
  emit_preds(c, &f, NULL, c->nt);
  /* stored score vs the documented discriminant of the stored model */
  double kf0 = 0;
  { double w = 0; int K = (int)m->mu->row;
    if(f.pr->row < (size_t)c->nt) w = 1e300;          /* a short output: reported by EndPred as well */
    for(int i = 0; i < c->nt && (size_t)i < f.pr->row; i++) for(int k = 0; k < K && k < (int)f.pr->col; k++){
      long double a = 0, b = 0;
      for(int p = 0; p < d; p++) for(int q = 0; q < d; q++){ a += (long double)m->mu->data[k][p] * m->inv_cov->data[p][q] * c->T[i * d + q]; b += (long double)m->mu->data[k][p] * m->inv_cov->data[p][q] * m->mu->data[k][q]; }
      double fk = (double)(a - 0.5L * b) + log(m->pprob->data[k]);
      double e = fabs(fk - f.pr->data[i][k]) / fmax(1.0, fabs(fk)); if(!(e == e)) e = 1e300;
      if(e > w) w = e;
    }
    int pinv, wi; double kf, ires; inv_diag(c->X, c->lab, n, d, m->inv_cov, &pinv, &kf, &ires, &wi); kf0 = kf;
    VRT_EMIT("{\"e\":\"Disc\",\"err\":%ld,\"pinv\":%d,\"kf\":%ld,\"invres\":%ld,\"cov\":\"%s\"}", vq12(w), pinv, vq_unit(kf, 1.0), vq12(ires), wi ? "within" : "total"); }
  VRT_EMIT("{\"e\":\"EndPred\",\"n\":%d,\"rows\":%zu}", c->nt, f.pred->row);
  emit_pfeat(c, m, f.pf, c->T, c->nt, 0, pre ? 4 : 0);
  emit_tables(c, m, &f);
  DelMatrix(&t);
  /* K7 second pass: the same case gave the same answers before the other models lived in this process */
  if(c->sub == 2 && g_keep_pr){
    double w = 0; int same = g_keep_pr->row == f.pr->row && g_keep_pr->col == f.pr->col && g_keep_pred->row == f.pred->row;
    if(same) for(size_t i = 0; i < f.pr->row; i++){
      if(g_keep_pred->data[i][0] != f.pred->data[i][0]) same = 0;
      for(size_t k = 0; k < f.pr->col; k++){ double a = g_keep_pr->data[i][k], b2 = f.pr->data[i][k]; double e = fabs(a - b2) / fmax(1.0, fabs(a)); if(!(e == e)) e = 1e300; if(e > w) w = e; } }
    else w = 1e300;
    VRT_EMIT("{\"e\":\"Hist\",\"err\":%ld,\"same\":%d,\"rows\":%zu,\"n\":%d,\"areuse\":%d}", vq12(w), same, f.pred->row, c->nt, g_areuse);
  }
  if(c->hist && c->sub == 0){ initMatrix(&g_keep_pr); initMatrix(&g_keep_pred); MatrixCopy(f.pr, &g_keep_pr); MatrixCopy(f.pred, &g_keep_pred); }
  /* -- further calls on the SAME model with REUSED outputs must return what the first call returned.  The test objects go in
   *    reverse order.  var 0: outputs = copies of the first call's (sized alike, non-zero); 1: larger and filled with 7.5;
   *    2: 1 x 1 filled with -3; 3: var 0's outputs after the model predicted a single other object into them in between */
  { int nt = c->nt; double *Tr = malloc(sizeof(double) * nt * d);
    for(int i = 0; i < nt; i++) memcpy(Tr + i * d, c->T + (nt - 1 - i) * d, sizeof(double) * d);
    matrix *tr = mk(Tr, nt, d);
    for(int var = 0; var < 4; var++){
      fitres g2; g2.m = m;
      if(var == 0 || var == 3) out_init(&g2, &f);
      else if(var == 1) out_dims(&g2, nt + 3, (int)f.pr->col + 2, d + 1, 7.5);
      else out_dims(&g2, 1, 1, 1, -3.0);
      if(var == 3){ matrix *one = mk(c->T + (size_t)(nt / 2) * d, 1, d); *g_stage = 2; LDAPrediction(one, m, g2.pf, g2.pr, g2.mn, g2.pred); DelMatrix(&one); }
      *g_stage = 2;
      LDAPrediction(tr, m, g2.pf, g2.pr, g2.mn, g2.pred);
      *g_stage = 6;
      double w = 0; int same = g2.pr->row == f.pr->row && g2.pr->col == f.pr->col && g2.pred->row == f.pred->row && f.pr->row == (size_t)nt && f.pred->row == (size_t)nt;
      if(same) for(int i = 0; i < nt; i++){
        if(g2.pred->data[i][0] != f.pred->data[nt - 1 - i][0]) same = 0;
        for(size_t k = 0; k < f.pr->col; k++){ double a = f.pr->data[nt - 1 - i][k], b2 = g2.pr->data[i][k]; double e = fabs(a - b2) / fmax(1.0, fabs(a)); if(!(e == e)) e = 1e300; if(e > w) w = e; } }
      else w = 1e300;
      VRT_EMIT("{\"e\":\"Reuse\",\"var\":%d,\"err\":%ld,\"same\":%d,\"rows\":%zu,\"n\":%d}", var, vq12(w), same, g2.pred->row, nt);
      if(var <= 1) emit_pfeat(c, m, g2.pf, Tr, nt, 0, var + 1);
      out_free(&g2);
    }
    DelMatrix(&tr); free(Tr); }
  /* -- LDAError (outside the statement): per-class rates of the test set against the confusion counts TLC derives */
  if(!c->exact){
    matrix *tt = mk(c->T, c->nt, d), *yy = mky(c->tlab, c->nt);
    dvector *se, *sp, *pp, *np_, *ac; initDVector(&se); initDVector(&sp); initDVector(&pp); initDVector(&np_); initDVector(&ac);
    *g_stage = 7;
    LDAError(tt, yy, m, se, sp, pp, np_, ac);
    *g_stage = 6;
    size_t cnt = se->size;
    if(sp->size < cnt) cnt = sp->size; if(pp->size < cnt) cnt = pp->size; if(np_->size < cnt) cnt = np_->size; if(ac->size < cnt) cnt = ac->size;
    for(size_t k = 0; k < cnt; k++)
      VRT_EMIT("{\"e\":\"Err\",\"k\":%zu,\"sens\":%ld,\"spec\":%ld,\"ppv\":%ld,\"npv\":%ld,\"acc\":%ld}", k, clampl(se->data[k] * 1e6), clampl(sp->data[k] * 1e6), clampl(pp->data[k] * 1e6), clampl(np_->data[k] * 1e6), clampl(ac->data[k] * 1e6));
    VRT_EMIT("{\"e\":\"ErrEnd\",\"count\":%zu}", se->size);
    DelDVector(&se); DelDVector(&sp); DelDVector(&pp); DelDVector(&np_); DelDVector(&ac); DelMatrix(&tt); DelMatrix(&yy);
  }
  if(!c->exact && !c->nopair){
    vrng R = { c->pairseed };
    /* -- affine re-coding of train and test: x -> A x + b, cond(A) <= 100, in feature UNIT SYSTEMS: a dense map A = Q1 diag(s) Q2 and
     *    a diagonal one (per-feature units), overall scale from 1e-3 up to 1e4; in the "large" regime every variance is large (raw
     *    units: LDA() takes its pseudo-inverse branch) and the condition number is 32..100.  The re-coded data are predicted into
     *    REUSED output matrices (copies of the base results).  Families with their own unit or offset get a third map back to
     *    centred data in unit 1 ("recentre"); their random maps keep the overall scale within 1/2..2. */
    double Q1[MAXD][MAXD], Q2[MAXD][MAXD], A[MAXD][MAXD], b[MAXD], s[MAXD];
    double *X2 = malloc(sizeof(double) * n * d), *T2 = malloc(sizeof(double) * c->nt * d);
    int special = c->shift > 0 || c->unitexp != 0;
    for(int map = 0; map < (special ? 3 : 2); map++){
      int large = vr_unif(&R) < 0.5;
      double kap = large ? pow(10.0, 1.5 + 0.5 * vr_unif(&R)) : pow(10.0, 2.0 * vr_unif(&R));
      double g = large ? 10.0 * pow(1e3 / kap, vr_unif(&R)) : pow(10.0, -3.0 + 5.0 * vr_unif(&R));     /* g * kap <= 1e4 */
      /* a dense map with condition number kap turns a common offset of r spreads into one of up to r * kap spreads of the narrowest direction:
       * blocks with a large offset get dense maps that are nearly isotropic (kap <= 2); per-feature units keep the ratio feature by feature */
      if(special){ large = 0; if(c->shift > 0 && map == 0) kap = 1.0 + vr_unif(&R); g = (0.5 + 1.5 * vr_unif(&R)) / sqrt(kap); }
      s[0] = g; for(int j = 1; j < d; j++) s[j] = g * pow(kap, j == d - 1 ? 1.0 : vr_unif(&R));
      for(int j = d - 1; j > 0; j--){ int q = (int)vr_int(&R, 0, j); double tv = s[j]; s[j] = s[q]; s[q] = tv; }
      if(map == 0){ orth(&R, d, Q1); orth(&R, d, Q2); }
      else for(int i = 0; i < d; i++) for(int j = 0; j < d; j++) Q1[i][j] = Q2[i][j] = (i == j);
      for(int i = 0; i < d; i++){ b[i] = 10.0 * (map ? s[i] : g) * c->unit * vr_norm(&R); for(int j = 0; j < d; j++){ double v = 0; for(int q = 0; q < d; q++) v += Q1[i][q] * s[q] * Q2[q][j]; A[i][j] = v; } }
      if(map == 2){ kap = 1; g = 1.0 / c->unit; for(int i = 0; i < d; i++){ b[i] = -c->off[i] / c->unit; for(int j = 0; j < d; j++) A[i][j] = (i == j) ? 1.0 / c->unit : 0.0; } }
      for(int tries = 0; tries < 4; tries++){
        for(int i = 0; i < n; i++) for(int j = 0; j < d; j++){ double v = b[j]; for(int q = 0; q < d; q++) v += A[j][q] * c->X[i * d + q]; X2[i * d + j] = v; }
        for(int i = 0; i < c->nt; i++) for(int j = 0; j < d; j++){ double v = b[j]; for(int q = 0; q < d; q++) v += A[j][q] * c->T[i * d + q]; T2[i * d + j] = v; }
        if(!near_missing(X2, (long)n * d) && !near_missing(T2, (long)c->nt * d)) break;
        for(int j = 0; j < d; j++) b[j] += 3.0 * g * c->unit;
      }
      fitres f2; int same;
      fit_predict_r(X2, c->lab, n, d, T2, c->nt, &f2, 3, 3, &f);
      double e = pair_err(f.pr, f.pred, f2.pr, f2.pred, &same);
      int pinv, wi; double kf, ires; inv_diag(X2, c->lab, n, d, f2.m->inv_cov, &pinv, &kf, &ires, &wi);
      int rows = c->shift > 0 ? pair_rows(f.pr, f2.pr, vq_unit(fmax(kf, kf0), 1.0), "affine", map == 2 ? "recentre" : map ? "diag" : "dense") : 0;
      VRT_EMIT("{\"e\":\"Pair\",\"kind\":\"affine\",\"map\":\"%s\",\"large\":%d,\"err\":%ld,\"same\":%d,\"cond\":%ld,\"scale\":%ld,\"pinv\":%d,\"kf\":%ld,\"invres\":%ld,\"rows\":%d}", map == 2 ? "recentre" : map ? "diag" : "dense", large, vq12(e), same, vq_unit(kap, 1e-3), vq_unit(g * c->unit, 1e-3), pinv, vq_unit(fmax(kf, kf0), 1.0), vq12(ires), rows);
      fit_free(&f2);
    }
    int same; double e;
    /* -- reordering of the training objects */
    int *perm = malloc(sizeof(int) * n), *lab3 = malloc(sizeof(int) * n);
    for(int i = 0; i < n; i++) perm[i] = i;
    for(int i = n - 1; i > 0; i--){ int j = (int)vr_int(&R, 0, i); int tt = perm[i]; perm[i] = perm[j]; perm[j] = tt; }
    for(int i = 0; i < n; i++){ lab3[i] = c->lab[perm[i]]; memcpy(X2 + i * d, c->X + perm[i] * d, sizeof(double) * d); }
    fitres f3;
    fit_predict_r(X2, lab3, n, d, c->T, c->nt, &f3, 4, 4, &f);
    e = pair_err(f.pr, f.pred, f3.pr, f3.pred, &same);
    int rows = c->shift > 0 ? pair_rows(f.pr, f3.pr, vq_unit(kf0, 1.0), "perm", "perm") : 0;
    VRT_EMIT("{\"e\":\"Pair\",\"kind\":\"perm\",\"map\":\"perm\",\"err\":%ld,\"same\":%d,\"cond\":0,\"scale\":0,\"kf\":%ld,\"rows\":%d}", vq12(e), same, vq_unit(kf0, 1.0), rows);
    fit_free(&f3);
    free(X2); free(T2); free(perm); free(lab3);
  }
  /* -- one-vs-rest ROC of perfect predictions (labels numbered from 0 only): the training labels against themselves, and the
   *    test truth against what LDAPrediction returned when that is perfect */
  if(c->start == 0){
    matrix *yt = mky(c->lab, n), *yp = mky(c->lab, n);
    auc_block(c, yt, yp, "labels");
    DelMatrix(&yt); DelMatrix(&yp);
    int perfect = f.pred->row == (size_t)c->nt, seen[MAXK] = {0}, all = 1;
    for(int i = 0; i < c->nt && perfect; i++){ if(f.pred->data[i][0] != (double)c->tlab[i]) perfect = 0; else if(c->tlab[i] >= 0 && c->tlab[i] < MAXK) seen[c->tlab[i]] = 1; }
    for(int k = 0; k < c->K; k++) if(!seen[k]) all = 0;
    if(perfect && all && !c->exact){
      matrix *y2 = mky(c->tlab, c->nt);
      auc_block(c, y2, f.pred, "pred");
      DelMatrix(&y2);
    }
  }
  /* -- LDA() once more into the model object that already holds a fit, now of the mirrored data (outside the statement) */
  if(c->refit){
    double *Xn = malloc(sizeof(double) * n * d); for(long i = 0; i < (long)n * d; i++) Xn[i] = -c->X[i];
    double *Tn = malloc(sizeof(double) * c->nt * d); for(long i = 0; i < (long)c->nt * d; i++) Tn[i] = -c->T[i];
    fitres fr; fit_predict(Xn, c->lab, n, d, Tn, c->nt, &fr, 9, 9);
    matrix *x = mk(Xn, n, d), *y = mky(c->lab, n), *tn = mk(Tn, c->nt, d);
    *g_stage = 9;
    LDA(x, y, m);
    fitres g3; g3.m = m; out_init(&g3, NULL);
    LDAPrediction(tn, m, g3.pf, g3.pr, g3.mn, g3.pred);
    *g_stage = 6;
    double w = 0; int same = g3.pr->row == fr.pr->row && g3.pr->col == fr.pr->col && g3.pred->row == fr.pred->row;
    if(same) for(size_t i = 0; i < fr.pr->row; i++){
      if(g3.pred->data[i][0] != fr.pred->data[i][0]) same = 0;
      for(size_t k = 0; k < fr.pr->col; k++){ double a = fr.pr->data[i][k], b2 = g3.pr->data[i][k]; double e = fabs(a - b2) / fmax(1.0, fabs(a)); if(!(e == e)) e = 1e300; if(e > w) w = e; } }
    else w = 1e300;
    VRT_EMIT("{\"e\":\"Refit\",\"psize\":%zu,\"murows\":%zu,\"K\":%d,\"same\":%d,\"err\":%ld}", m->pprob->size, m->mu->row, c->K, same, vq12(w));
    out_free(&g3); fit_free(&fr); DelMatrix(&x); DelMatrix(&y); DelMatrix(&tn); free(Xn); free(Tn);
  }
  g_freed[0] = (uintptr_t)f.m;
  fit_free(&f);
  return 0;
}

static void emit_case(lcase *c){
  static char buf[1 << 17]; int p = 0;
  VRT_EMIT("{\"e\":\"Reset\"}");
  p += snprintf(buf + p, sizeof buf - p, "{\"e\":\"Case\",\"id\":%ld,\"mode\":\"%s\",\"fam\":\"%s\",\"sub\":%d,\"sep\":%d,\"K\":%d,\"d\":%d,\"start\":%d,\"balanced\":%d,"
                "\"nt\":%d,\"shift\":%ld,\"unit\":%d,\"nproc\":%d,\"hist\":%d,\"rc\":{\"off\":%ld,\"mul\":%ld,\"den\":%ld},\"lab\":[",
                c->id, c->exact ? "exact" : "ledger", c->fam, c->sub, c->sep, c->K, c->d, c->start, c->balanced, c->nt, c->shift, c->unitexp, c->nproc, c->hist,
                c->rc_off, c->rc_mul, c->rc_den);
  for(int i = 0; i < c->n; i++) p += snprintf(buf + p, sizeof buf - p, "%s%d", i ? "," : "", c->lab[i]);
  p += snprintf(buf + p, sizeof buf - p, "],\"X\":[");
  if(c->exact) for(int i = 0; i < c->n; i++){ p += snprintf(buf + p, sizeof buf - p, "%s[", i ? "," : ""); for(int j = 0; j < c->d; j++) p += snprintf(buf + p, sizeof buf - p, "%s%ld", j ? "," : "", c->Xi[i * c->d + j]); p += snprintf(buf + p, sizeof buf - p, "]"); }
  p += snprintf(buf + p, sizeof buf - p, "],\"T\":[");
  if(c->exact) for(int i = 0; i < c->nT; i++){ p += snprintf(buf + p, sizeof buf - p, "%s[", i ? "," : ""); for(int j = 0; j < c->d; j++) p += snprintf(buf + p, sizeof buf - p, "%s%ld", j ? "," : "", c->Ti[i * c->d + j]); p += snprintf(buf + p, sizeof buf - p, "]"); }
  snprintf(buf + p, sizeof buf - p, "]}");
  VRT_EMIT("%s", buf);
}

static void gen_ledger(uint64_t seed, long idx, double sep, lcase *c);
static void free_case(lcase *c){ free(c->lab); free(c->X); if(c->tlab != c->lab) free(c->tlab); if(c->T != c->X) free(c->T); free(c->Xi); free(c->Ti); }

/* K7: the case, then other models fitted / used / freed in the same process, then the case again */
static int run_hist(void *arg){
  lcase *c = (lcase *)arg;
  int rc = run_case(c);
  if(rc) return rc;
  *g_stage = 8;
  /* another shape (other class count, other dimension), its model kept alive while a third one of the first shape but other
   * data is fitted and freed; the outputs of the other-shape prediction are what pass 2 predicts into */
  lcase o1; memset(&o1, 0, sizeof o1);
  for(long idx = 0; ; idx++){ gen_ledger(c->pairseed, idx, 16.0, &o1); if(o1.K != c->K && o1.d != c->d && o1.n != c->n) break; free_case(&o1); memset(&o1, 0, sizeof o1); }
  static fitres fo1; fit_predict(o1.X, o1.lab, o1.n, o1.d, o1.T, o1.nt, &fo1, 8, 8);
  { double *Xo = malloc(sizeof(double) * c->n * c->d); for(long i = 0; i < (long)c->n * c->d; i++) Xo[i] = c->X[i] * 1.25 + c->unit;
    fitres fo2; fit_predict(Xo, c->lab, c->n, c->d, c->T, c->nt, &fo2, 8, 8); g_freed[1] = (uintptr_t)fo2.m; fit_free(&fo2); free(Xo); }
  g_freed[2] = (uintptr_t)fo1.m;
  DelLDAModel(&fo1.m);
  g_preout = &fo1;
  *g_stage = 6;
  c->sub = 2;
  emit_case(c);
  rc = run_case(c);
  free_case(&o1);
  return rc;
}

static void drive(lcase *c){
  emit_case(c);
  *g_stage = 0;
  int rc = vrt_run_child(c->hist && c->sub == 0 ? run_hist : run_case, c, 90);
  if(rc != 0) VRT_EMIT("{\"e\":\"Crash\",\"id\":%ld,\"rc\":%d,\"stage\":\"%s\",\"start\":%d,\"sub\":%d}", c->id, rc, STAGE[*g_stage], c->start, c->sub);
}

static void case_defaults(lcase *c){ c->rc_off = 0; c->rc_mul = 1; c->rc_den = 1; c->shift = 0; c->unitexp = 0; c->unit = 1.0; c->nproc = 1; strcpy(c->fam, "base"); }

static void gen_ledger(uint64_t seed, long idx, double sep, lcase *c){
  vrng R = { seed * 0x9E3779B97F4A7C15ULL + (uint64_t)idx * 7919 + 11 };
  long combo = (idx * 37) % 80;                   /* 80 = 4 class counts x 5 dims x 2 starts x 2 balance; 37 is coprime */
  int K = 2 + combo % 4, d = 2 + (combo / 4) % 5, start = (combo / 20) % 2, bal = (combo / 40) % 2;
  int cnt[MAXK], n = 0;
  if(bal){ int q = (int)vr_int(&R, 4, 40); for(int k = 0; k < K; k++) cnt[k] = q; }
  else { for(int k = 0; k < K; k++) cnt[k] = (int)vr_int(&R, 4, 40); cnt[0] = 4; cnt[K - 1] = cnt[K - 1] < 30 ? 40 : cnt[K - 1]; }
  for(int k = 0; k < K; k++) n += cnt[k];
  /* centres: distinct points of the lattice {-2..2}^d * sep, jittered by +-0.05 sep per coordinate */
  double cen[MAXK][MAXD]; int lat[MAXK][MAXD];
  for(int k = 0; k < K; k++){
    for(;;){ int dup = 0; for(int j = 0; j < d; j++) lat[k][j] = (int)vr_int(&R, -2, 2);
      for(int p = 0; p < k; p++){ int eq = 1; for(int j = 0; j < d; j++) if(lat[p][j] != lat[k][j]) eq = 0; if(eq) dup = 1; }
      if(!dup) break; }
    for(int j = 0; j < d; j++) cen[k][j] = sep * (lat[k][j] + 0.1 * (vr_unif(&R) - 0.5));
  }
  int fresh = 2, nt = n + fresh * K;
  case_defaults(c);
  c->id = idx; c->exact = 0; c->sep = 1; c->n = n; c->d = d; c->K = K; c->start = start; c->balanced = bal; c->sub = 0;
  c->lab = malloc(sizeof(int) * n); c->X = malloc(sizeof(double) * n * d); c->nt = nt; c->tlab = malloc(sizeof(int) * nt); c->T = malloc(sizeof(double) * nt * d);
  int r = 0;
  for(int k = 0; k < K; k++) for(int i = 0; i < cnt[k]; i++){ c->lab[r] = k + start; for(int j = 0; j < d; j++){ double z; do z = vr_norm(&R); while(fabs(z) > 3.0); c->X[r * d + j] = cen[k][j] + z; } r++; }
  for(int i = n - 1; i > 0; i--){ int j = (int)vr_int(&R, 0, i); int tl = c->lab[i]; c->lab[i] = c->lab[j]; c->lab[j] = tl;
    for(int q = 0; q < d; q++){ double tv = c->X[i * d + q]; c->X[i * d + q] = c->X[j * d + q]; c->X[j * d + q] = tv; } }
  memcpy(c->T, c->X, sizeof(double) * n * d); for(int i = 0; i < n; i++) c->tlab[i] = c->lab[i];
  r = n;
  for(int k = 0; k < K; k++) for(int i = 0; i < fresh; i++){ c->tlab[r] = k + start; for(int j = 0; j < d; j++){ double z; do z = vr_norm(&R); while(fabs(z) > 3.0); c->T[r * d + j] = cen[k][j] + z; } r++; }
  c->pairseed = vr_next(&R);
}

/* the stratified families of round 3: shapes, block sizes, offsets, units, grids, processor counts, histories, duplicates, label orders */
typedef struct { long id; uint64_t seed; char fam[24]; int K, d, start, order, ntmode, shiftexp, unitexp, grid, nproc, hist, sep, dup, refit, cnt[MAXK]; } plan;
static void gen_plan(const plan *pl, lcase *c){
  vrng R = { pl->seed * 0x9E3779B97F4A7C15ULL + (uint64_t)pl->id * 104729 + 17 };
  int K = pl->K, d = pl->d, start = pl->start, n = 0, bal = 1;
  for(int k = 0; k < K; k++){ n += pl->cnt[k]; if(pl->cnt[k] != pl->cnt[0]) bal = 0; }
  double spacing = pl->sep ? 16.0 : 1.5;
  double cen[MAXK][MAXD]; int lat[MAXK][MAXD];
  for(int k = 0; k < K; k++){
    for(;;){ int dup = 0; for(int j = 0; j < d; j++) lat[k][j] = (int)vr_int(&R, -2, 2);
      for(int p = 0; p < k; p++){ int eq = 1; for(int j = 0; j < d; j++) if(lat[p][j] != lat[k][j]) eq = 0; if(eq) dup = 1; }
      if(!dup) break; }
    for(int j = 0; j < d; j++) cen[k][j] = spacing * (lat[k][j] + 0.1 * (vr_unif(&R) - 0.5));
  }
  int fresh = pl->ntmode == 2 ? 0 : 2, nt = pl->ntmode == 1 ? 1 : n + fresh * K;
  case_defaults(c);
  snprintf(c->fam, sizeof c->fam, "%s", pl->fam);
  c->id = pl->id; c->exact = 0; c->sep = pl->sep; c->n = n; c->d = d; c->K = K; c->start = start; c->balanced = bal; c->sub = 0;
  c->nproc = pl->nproc > 0 ? pl->nproc : 1; c->hist = pl->hist; c->nopair = !pl->sep; c->refit = pl->refit;
  c->lab = malloc(sizeof(int) * n); c->X = malloc(sizeof(double) * n * d); c->nt = nt; c->tlab = malloc(sizeof(int) * nt); c->T = malloc(sizeof(double) * nt * d);
  int r = 0;
  for(int k = 0; k < K; k++) for(int i = 0; i < pl->cnt[k]; i++){
    c->lab[r] = k + start;
    if(pl->dup && (i % 2) == 1) memcpy(c->X + r * d, c->X + (r - 1) * d, sizeof(double) * d);
    else for(int j = 0; j < d; j++){ double z; do z = vr_norm(&R); while(fabs(z) > 3.0); c->X[r * d + j] = cen[k][j] + z; }
    r++; }
  /* order of the training objects */
  if(pl->order == 0 || pl->order == 2){
    for(int i = n - 1; i > 0; i--){ int j = (int)vr_int(&R, 0, i); int tl = c->lab[i]; c->lab[i] = c->lab[j]; c->lab[j] = tl;
      for(int q = 0; q < d; q++){ double tv = c->X[i * d + q]; c->X[i * d + q] = c->X[j * d + q]; c->X[j * d + q] = tv; } }
    if(pl->order == 2){ int j = 0; while(c->lab[j] != K - 1 + start) j++;
      int tl = c->lab[0]; c->lab[0] = c->lab[j]; c->lab[j] = tl; for(int q = 0; q < d; q++){ double tv = c->X[q]; c->X[q] = c->X[j * d + q]; c->X[j * d + q] = tv; } }
  }
  else if(pl->order == 1){        /* reverse: labels non-increasing, the first object belongs to the last class */
    for(int i = 0; i < n / 2; i++){ int j = n - 1 - i; int tl = c->lab[i]; c->lab[i] = c->lab[j]; c->lab[j] = tl;
      for(int q = 0; q < d; q++){ double tv = c->X[i * d + q]; c->X[i * d + q] = c->X[j * d + q]; c->X[j * d + q] = tv; } }
  }
  /* test objects: the training objects and two fresh ones per class, or one single fresh object of the last class */
  if(pl->ntmode == 1){ c->tlab[0] = K - 1 + start; for(int j = 0; j < d; j++){ double z; do z = vr_norm(&R); while(fabs(z) > 3.0); c->T[j] = cen[K - 1][j] + z; } }
  else {
    memcpy(c->T, c->X, sizeof(double) * n * d); for(int i = 0; i < n; i++) c->tlab[i] = c->lab[i];
    r = n;
    for(int k = 0; k < K; k++) for(int i = 0; i < fresh; i++){ c->tlab[r] = k + start; for(int j = 0; j < d; j++){ double z; do z = vr_norm(&R); while(fabs(z) > 3.0); c->T[r * d + j] = cen[k][j] + z; } r++; }
  }
  /* K5: non-representable grid */
  if(pl->grid > 0){ double g = (double)pl->grid; for(long i = 0; i < (long)n * d; i++) c->X[i] = round(c->X[i] * g) / g; for(long i = 0; i < (long)nt * d; i++) c->T[i] = round(c->T[i] * g) / g; }
  /* K3 / K4: common offset of up to 10^shiftexp spreads per feature, everything in units of 2^unitexp */
  c->unitexp = pl->unitexp; c->unit = ldexp(1.0, pl->unitexp);
  double rr = pl->shiftexp > 0 ? pow(10.0, pl->shiftexp) : 0.0, mx = 0;
  for(int j = 0; j < d; j++){ double o = rr * (0.5 + 0.5 * vr_unif(&R)) * (vr_unif(&R) < 0.5 ? -1.0 : 1.0); if(j == 0) o = rr; c->off[j] = o; if(fabs(o) > mx) mx = fabs(o); }
  for(int tries = 0; tries < 8; tries++){
    int bad = 0;
    for(long i = 0; i < (long)n * d && !bad; i++) if(fabs(fabs((c->X[i] + c->off[i % d]) * c->unit) - MISSCODE) < 1.0) bad = 1;
    for(long i = 0; i < (long)nt * d && !bad; i++) if(fabs(fabs((c->T[i] + c->off[i % d]) * c->unit) - MISSCODE) < 1.0) bad = 1;
    if(!bad) break;
    for(int j = 0; j < d; j++) c->off[j] += 7.0;
  }
  for(long i = 0; i < (long)n * d; i++) c->X[i] = (c->X[i] + c->off[i % d]) * c->unit;
  for(long i = 0; i < (long)nt * d; i++) c->T[i] = (c->T[i] + c->off[i % d]) * c->unit;
  for(int j = 0; j < d; j++) c->off[j] *= c->unit;
  c->shift = (long)ceil(mx);
  c->pairseed = vr_next(&R);
}

int main(int argc, char **argv){
  if(argc < 4){ fprintf(stderr, "usage: c08_drv out exact casefile | out ledger seed first count sep | out plan planfile\n"); return 2; }
  vrt_open(argv[1]);
  g_stage = mmap(NULL, sizeof(int), PROT_READ | PROT_WRITE, MAP_SHARED | MAP_ANONYMOUS, -1, 0);
  if(g_stage == MAP_FAILED){ perror("mmap"); return 2; }
#ifdef LIBSCIENTIFIC_VERIF
  vrt_force_nproc(1);
#endif
  if(!strcmp(argv[2], "exact")){
    FILE *fp = fopen(argv[3], "r"); if(!fp){ perror(argv[3]); return 2; }
    long id, off, mul, den; int n, d, nT;
    while(fscanf(fp, "%ld %d %d %d %ld %ld %ld", &id, &n, &d, &nT, &off, &mul, &den) == 7){
      lcase c; memset(&c, 0, sizeof c); case_defaults(&c);
      if(d > 2 || mul < 1 || den < 1) return 2;
      strcpy(c.fam, (off == 0 && mul == 1 && den == 1) ? "exact" : "exact-recoded");
      c.id = id; c.exact = 1; c.n = n; c.d = d; c.nT = nT; c.nt = n + nT; c.rc_off = off; c.rc_mul = mul; c.rc_den = den;
      c.lab = malloc(sizeof(int) * n); c.Xi = malloc(sizeof(long) * n * d); c.Ti = malloc(sizeof(long) * (nT ? nT : 1) * d);
      c.X = malloc(sizeof(double) * n * d); c.T = malloc(sizeof(double) * c.nt * d); c.tlab = malloc(sizeof(int) * c.nt);
      int mn = 1 << 30, mx = -1;
      for(int i = 0; i < n; i++){ if(fscanf(fp, "%d", &c.lab[i]) != 1) return 2; if(c.lab[i] < mn) mn = c.lab[i]; if(c.lab[i] > mx) mx = c.lab[i]; }
      for(int i = 0; i < n * d; i++){ if(fscanf(fp, "%ld", &c.Xi[i]) != 1) return 2; }
      for(int i = 0; i < nT * d; i++){ if(fscanf(fp, "%ld", &c.Ti[i]) != 1) return 2; }
      for(int i = 0; i < n * d; i++) c.X[i] = ((double)c.Xi[i] + oexact(&c, i % d)) * (double)mul / (double)den;
      memcpy(c.T, c.X, sizeof(double) * n * d);
      for(int i = 0; i < nT * d; i++) c.T[n * d + i] = ((double)c.Ti[i] + oexact(&c, i % d)) * (double)mul / (double)den;
      for(int i = 0; i < n; i++) c.tlab[i] = c.lab[i];
      for(int i = 0; i < nT; i++) c.tlab[n + i] = -1;
      c.start = mn; c.K = mx - mn + 1;
      c.unit = (double)mul / (double)den;
      int bal = 1; for(int k = mn; k <= mx; k++){ int a = 0, b = 0; for(int i = 0; i < n; i++){ if(c.lab[i] == k) a++; if(c.lab[i] == mn) b++; } if(a != b) bal = 0; }
      c.balanced = bal;
      drive(&c);
      free_case(&c);
    }
    fclose(fp);
  }
  else if(!strcmp(argv[2], "ledger") && argc >= 7){
    uint64_t seed = (uint64_t)atoll(argv[3]); long first = atol(argv[4]), count = atol(argv[5]); double sep = atof(argv[6]);
    for(long idx = first; idx < first + count; idx++){
      lcase c; memset(&c, 0, sizeof c);
      gen_ledger(seed, idx, sep, &c);
      drive(&c);
      if(c.K >= 3){ c.sub = 1; drive(&c); }
      free_case(&c);
    }
  }
  else if(!strcmp(argv[2], "plan")){
    FILE *fp = fopen(argv[3], "r"); if(!fp){ perror(argv[3]); return 2; }
    plan pl; unsigned long long sd;
    for(;;){
      memset(&pl, 0, sizeof pl);
      if(fscanf(fp, "%ld %llu %23s %d %d %d %d %d %d %d %d %d %d %d %d %d", &pl.id, &sd, pl.fam, &pl.K, &pl.d, &pl.start, &pl.order, &pl.ntmode, &pl.shiftexp, &pl.unitexp,
                &pl.grid, &pl.nproc, &pl.hist, &pl.sep, &pl.dup, &pl.refit) != 16) break;
      pl.seed = sd;
      if(pl.K < 2 || pl.K > 5 || pl.d < 2 || pl.d > 6){ fprintf(stderr, "bad plan line %ld\n", pl.id); return 2; }
      for(int k = 0; k < pl.K; k++) if(fscanf(fp, "%d", &pl.cnt[k]) != 1) return 2;
      lcase c; memset(&c, 0, sizeof c);
      gen_plan(&pl, &c);
      drive(&c);
      if(c.K >= 3 && !c.hist){ c.sub = 1; drive(&c); }
      free_case(&c);
    }
    fclose(fp);
  }
  else { fprintf(stderr, "bad mode\n"); return 2; }
  vrt_close();
  return 0;
}
