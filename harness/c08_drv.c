/* c08_drv.c - conformance driver for C08 (LDA: arg-max discriminant, label bookkeeping, affine invariance).
 *
 * usage: c08_drv <out.ndjson> exact  <casefile>
 *        c08_drv <out.ndjson> ledger <seed> <first> <count> <sep>
 *
 * exact : every line of <casefile> is a TLC-generated case  "id n d v_1..v_n x_11..x_nd"  (labels, integer features).
 * ledger: cases <first>..<first+count-1> of the seeded generator: 2..5 classes, 2..6 features, 4..40 objects per class,
 *         balanced/unbalanced, labels from 0 or 1, class centres on a jittered lattice of spacing <sep> sigma.
 *
 * Every model is fitted and used in a CHILD process (vrt_run_child): a crash of the library is attributed to that case
 * (the parent writes a Crash event) and the run goes on.  Events: see spec/TraceLda.tla.
 */
#include "scientific.h"
#include "verif_rt.h"
#include <sys/mman.h>

#define MAXK 8
#define MAXD 8

typedef struct {
  long id; int exact, sep, n, d, K, start, balanced, sub;
  int *lab;            /* n training labels */
  double *X;           /* n x d training features */
  int nt; int *tlab;   /* test objects (exact: the training objects) */
  double *T;           /* nt x d */
  uint64_t pairseed;
} lcase;

static volatile int *g_stage;      /* shared with the child: which library call is running */
static const char *STAGE[] = {"none", "fit", "predict", "affine", "perm", "auc", "emit"};

static long clampl(double v){ if(!(v == v)) return VQ_MAX; if(v > 1.9e9) return VQ_MAX; if(v < -1.9e9) return -VQ_MAX; return (long)llround(v); }

static matrix *mk(const double *a, int r, int c){ matrix *m; NewMatrix(&m, r, c); for(int i = 0; i < r; i++) for(int j = 0; j < c; j++) m->data[i][j] = a[i * c + j]; return m; }
static matrix *mky(const int *lab, int n){ matrix *m; NewMatrix(&m, n, 1); for(int i = 0; i < n; i++) m->data[i][0] = (double)lab[i]; return m; }

typedef struct { LDAMODEL *m; matrix *pf, *pr, *mn, *pred; } fitres;
/* outputs for LDAPrediction: fresh (reuse == NULL) or REUSED - copies of an earlier call's outputs, i.e. already sized and non-zero */
static void out_init(fitres *f, fitres *reuse){
  initMatrix(&f->pf); initMatrix(&f->pr); initMatrix(&f->mn); initMatrix(&f->pred);
  if(reuse){ MatrixCopy(reuse->pf, &f->pf); MatrixCopy(reuse->pr, &f->pr); MatrixCopy(reuse->mn, &f->mn); MatrixCopy(reuse->pred, &f->pred); }
}
static void fit_predict_r(const double *X, const int *lab, int n, int d, const double *T, int nt, fitres *f, int stage_fit, int stage_pred, fitres *reuse){
  matrix *x = mk(X, n, d), *y = mky(lab, n), *t = mk(T, nt, d);
  NewLDAModel(&f->m);
  *g_stage = stage_fit;
  LDA(x, y, f->m);
  out_init(f, reuse);
  if(stage_pred >= 0){
    *g_stage = stage_pred;
    LDAPrediction(t, f->m, f->pf, f->pr, f->mn, f->pred);
  }
  *g_stage = 6;
  DelMatrix(&x); DelMatrix(&y); DelMatrix(&t);
}
static void fit_predict(const double *X, const int *lab, int n, int d, const double *T, int nt, fitres *f, int stage_fit, int stage_pred){ fit_predict_r(X, lab, n, d, T, nt, f, stage_fit, stage_pred, NULL); }
static void fit_free(fitres *f){ DelLDAModel(&f->m); DelMatrix(&f->pf); DelMatrix(&f->pr); DelMatrix(&f->mn); DelMatrix(&f->pred); }

/* max over test objects and class pairs of |D_kl - D'_kl| / max(1,|D_kl|); *same = predictions identical */
static double pair_err(matrix *p1, matrix *q1, matrix *p2, matrix *q2, int *same){
  double w = 0; *same = 1;
  if(p1->row != p2->row || p1->col != p2->col || q1->row != q2->row){ *same = 0; return 1e300; }
  for(size_t i = 0; i < p1->row; i++){
    if(q1->data[i][0] != q2->data[i][0]) *same = 0;
    for(size_t k = 0; k < p1->col; k++) for(size_t l = k + 1; l < p1->col; l++){
      double a = p1->data[i][k] - p1->data[i][l], b = p2->data[i][k] - p2->data[i][l];
      double e = fabs(a - b) / fmax(1.0, fabs(a));
      if(!(e == e)) e = 1e300;
      if(e > w) w = e;
    }
  }
  return w;
}

/* diagnostics (not judged): did LDA() take its pseudo-inverse fall-back (sum of squares of inv_cov < 1e-3); which covariance
 * does the stored inverse invert - the total one (pinned tree) or the pooled within-class one - and how well (max |S C - I|);
 * Frobenius condition number of that covariance */
static void inv_diag(const double *X, const int *lab, int n, int d, matrix *C, int *pinv, double *kf, double *ires, int *within){
  double best = 1e300, bestkf = 0; int bw = 0, labmin = lab[0];
  for(int i = 1; i < n; i++) if(lab[i] < labmin) labmin = lab[i];
  for(int w = 0; w < 2; w++){
    static double mt[MAXK + 2][MAXD]; int cnt[MAXK + 2]; double S[MAXD][MAXD] = {{0}}, nS = 0, nC = 0, res = 0;
    memset(mt, 0, sizeof mt); memset(cnt, 0, sizeof cnt);
    for(int i = 0; i < n; i++){ int g = w ? (lab[i] - labmin) % (MAXK + 2) : 0; cnt[g]++; for(int j = 0; j < d; j++) mt[g][j] += X[i * d + j]; }
    for(int g = 0; g < MAXK + 2; g++) if(cnt[g]) for(int j = 0; j < d; j++) mt[g][j] /= cnt[g];
    for(int i = 0; i < n; i++){ int g = w ? (lab[i] - labmin) % (MAXK + 2) : 0; for(int p = 0; p < d; p++) for(int q = 0; q < d; q++) S[p][q] += (X[i * d + p] - mt[g][p]) * (X[i * d + q] - mt[g][q]) / n; }
    for(int p = 0; p < d; p++) for(int q = 0; q < d; q++){ double v = 0; for(int r = 0; r < d; r++) v += S[p][r] * C->data[r][q]; v -= (p == q); if(fabs(v) > res || !(v == v)) res = fabs(v);
      nS += S[p][q] * S[p][q]; nC += C->data[p][q] * C->data[p][q]; }
    if(w == 0) *pinv = nC < 1e-3;
    if(res < best || w == 0){ best = res; bestkf = sqrt(nS) * sqrt(nC); bw = w; }
  }
  *ires = best; *kf = bestkf; *within = bw;
}

static void orth(vrng *R, int d, double Q[MAXD][MAXD]){
  for(;;){
    int ok = 1;
    for(int i = 0; i < d; i++) for(int j = 0; j < d; j++) Q[i][j] = vr_norm(R);
    for(int i = 0; i < d && ok; i++){
      for(int p = 0; p < i; p++){ double s = 0; for(int j = 0; j < d; j++) s += Q[i][j] * Q[p][j]; for(int j = 0; j < d; j++) Q[i][j] -= s * Q[p][j]; }
      double nn = 0; for(int j = 0; j < d; j++) nn += Q[i][j] * Q[i][j];
      nn = sqrt(nn); if(nn < 1e-3){ ok = 0; break; }
      for(int j = 0; j < d; j++) Q[i][j] /= nn;
    }
    if(ok) return;
  }
}

static void emit_preds(lcase *c, fitres *f, const int *which, int nw){
  /* which: indices into the test set (NULL = all), rows of f->pr / f->pred are in the order of `which` */
  static char buf[4096];
  for(int r = 0; r < nw; r++){
    int i = which ? which[r] : r;
    int K = (int)f->pr->col, fin = 1, am = 0;
    int p = snprintf(buf, sizeof buf, "{\"e\":\"Pred\",\"i\":%d,\"label\":%ld,\"truth\":%d,", i + 1, clampl(f->pred->data[r][0]), c->tlab[i]);
    for(int k = 0; k < K; k++){ if(!vfinite(f->pr->data[r][k])) fin = 0; if(f->pr->data[r][k] > f->pr->data[r][am]) am = k; }
    p += snprintf(buf + p, sizeof buf - p, "\"fin\":%d,\"am\":%d,\"sc\":[", fin, am);
    for(int k = 0; k < K; k++){ long q[3]; double v = f->pr->data[r][k]; if(v == 0) v = 0.0; vcode3(v, q); p += snprintf(buf + p, sizeof buf - p, "%s[%ld,%ld,%ld]", k ? "," : "", q[0], q[1], q[2]); }
    snprintf(buf + p, sizeof buf - p, "]}");
    VRT_EMIT("%s", buf);
  }
}

/* ---- the child: everything that calls the library for one case */
static int run_case(void *arg){
  lcase *c = (lcase *)arg; fitres f;
  int n = c->n, d = c->d;
  if(c->sub){
    /* predict only the test objects of the third and later classes (a subset is predicted like the whole) */
    int *which = malloc(sizeof(int) * c->nt), nw = 0;
    for(int i = 0; i < c->nt; i++) if(c->tlab[i] - c->start >= 2) which[nw++] = i;
    double *T = malloc(sizeof(double) * (nw ? nw : 1) * d);
    for(int r = 0; r < nw; r++) memcpy(T + r * d, c->T + which[r] * d, sizeof(double) * d);
    fit_predict(c->X, c->lab, n, d, T, nw, &f, 1, 2);
    emit_preds(c, &f, which, nw);
    VRT_EMIT("{\"e\":\"EndPred\",\"n\":%d,\"rows\":%zu}", nw, f.pred->row);
    return 0;
  }
  fit_predict(c->X, c->lab, n, d, c->T, c->nt, &f, 1, -1);
  LDAMODEL *m = f.m;
  /* -- what LDA() stored */
  { static char buf[1024]; int p = snprintf(buf, sizeof buf, "{\"e\":\"Labels\",\"start\":%ld,\"nclass\":%ld,\"counts\":[", clampl((double)m->class_start), clampl((double)m->nclass));
    for(size_t k = 0; k < m->features->order && k < 64; k++) p += snprintf(buf + p, sizeof buf - p, "%s%ld", k ? "," : "", clampl((double)m->features->m[k]->row));
    snprintf(buf + p, sizeof buf - p, "]}"); VRT_EMIT("%s", buf); }
  double ps = 0;
  for(size_t k = 0; k < m->pprob->size; k++){
    double v = m->pprob->data[k] * n; ps += m->pprob->data[k];
    VRT_EMIT("{\"e\":\"Prior\",\"k\":%zu,\"num\":%ld,\"den\":%d,\"err\":%ld}", k, clampl(v), n, vq12(v - (double)clampl(v)));
  }
  VRT_EMIT("{\"e\":\"PriorSum\",\"num\":%ld,\"den\":%d,\"err\":%ld,\"count\":%zu}", clampl(ps * n), n, vq12(ps * n - (double)clampl(ps * n)), m->pprob->size);
  for(size_t k = 0; k < m->mu->row; k++){
    if(c->exact){
      for(size_t j = 0; j < m->mu->col; j++){
        double v = m->mu->data[k][j] * 420.0;       /* lcm(1..7): every class mean of <= 7 integers is a multiple of 1/420 */
        VRT_EMIT("{\"e\":\"Mu\",\"k\":%zu,\"j\":%zu,\"num\":%ld,\"den\":420,\"err\":%ld}", k, j + 1, clampl(v), vq12(v - (double)clampl(v)));
      }
    }
    else{
      double w = 0;
      for(int j = 0; j < d; j++){
        long double s = 0; int cnt = 0;
        for(int i = 0; i < n; i++) if(c->lab[i] == (int)k + c->start){ s += c->X[i * d + j]; cnt++; }
        double avg = cnt ? (double)(s / cnt) : NAN;
        double v = (size_t)j < m->mu->col ? m->mu->data[k][j] : NAN;
        double e = fabs(v - avg) / fmax(1.0, fabs(avg)); if(!(e == e)) e = 1e300;
        if(e > w) w = e;
      }
      VRT_EMIT("{\"e\":\"MuL\",\"k\":%zu,\"err\":%ld}", k, vq12(w));
    }
  }
  /* -- prediction of the test objects */
  matrix *t = mk(c->T, c->nt, d);
  *g_stage = 2;
  LDAPrediction(t, m, f.pf, f.pr, f.mn, f.pred);
  *g_stage = 6;
  emit_preds(c, &f, NULL, c->nt);
  /* stored score vs the documented discriminant of the stored model */
  double kf0 = 0;
  { double w = 0; int K = (int)m->mu->row;
    for(int i = 0; i < c->nt; i++) for(int k = 0; k < K && k < (int)f.pr->col; k++){
      long double a = 0, b = 0;
      for(int p = 0; p < d; p++) for(int q = 0; q < d; q++){ a += (long double)m->mu->data[k][p] * m->inv_cov->data[p][q] * c->T[i * d + q]; b += (long double)m->mu->data[k][p] * m->inv_cov->data[p][q] * m->mu->data[k][q]; }
      double fk = (double)(a - 0.5L * b) + log(m->pprob->data[k]);
      double e = fabs(fk - f.pr->data[i][k]) / fmax(1.0, fabs(fk)); if(!(e == e)) e = 1e300;
      if(e > w) w = e;
    }
    int pinv, wi; double kf, ires; inv_diag(c->X, c->lab, n, d, m->inv_cov, &pinv, &kf, &ires, &wi); kf0 = kf;
    VRT_EMIT("{\"e\":\"Disc\",\"err\":%ld,\"pinv\":%d,\"kf\":%ld,\"invres\":%ld,\"cov\":\"%s\"}", vq12(w), pinv, vq_unit(kf, 1.0), vq12(ires), wi ? "within" : "total"); }
  VRT_EMIT("{\"e\":\"EndPred\",\"n\":%d,\"rows\":%zu}", c->nt, f.pred->row);
  DelMatrix(&t);
  /* -- a second call with REUSED outputs (already sized, holding the first call's non-zero results) on an equally sized object
   *    set (the test objects in reverse order) must return what a fresh call returns */
  { int nt = c->nt; double *Tr = malloc(sizeof(double) * nt * d);
    for(int i = 0; i < nt; i++) memcpy(Tr + i * d, c->T + (nt - 1 - i) * d, sizeof(double) * d);
    matrix *tr = mk(Tr, nt, d); fitres g2; g2.m = m; out_init(&g2, &f);
    *g_stage = 2;
    LDAPrediction(tr, m, g2.pf, g2.pr, g2.mn, g2.pred);
    *g_stage = 6;
    double w = 0; int same = g2.pr->row == f.pr->row && g2.pr->col == f.pr->col && g2.pred->row == f.pred->row;
    if(same) for(int i = 0; i < nt; i++){
      if(g2.pred->data[i][0] != f.pred->data[nt - 1 - i][0]) same = 0;
      for(size_t k = 0; k < f.pr->col; k++){ double a = f.pr->data[nt - 1 - i][k], b2 = g2.pr->data[i][k]; double e = fabs(a - b2) / fmax(1.0, fabs(a)); if(!(e == e)) e = 1e300; if(e > w) w = e; } }
    else w = 1e300;
    VRT_EMIT("{\"e\":\"Reuse\",\"err\":%ld,\"same\":%d,\"rows\":%zu,\"n\":%d}", vq12(w), same, g2.pred->row, nt);
    DelMatrix(&g2.pf); DelMatrix(&g2.pr); DelMatrix(&g2.mn); DelMatrix(&g2.pred); DelMatrix(&tr); free(Tr); }
  if(!c->exact){
    vrng R = { c->pairseed };
    /* -- affine re-coding of train and test: x -> A x + b, cond(A) <= 100, in feature UNIT SYSTEMS: a dense map A = Q1 diag(s) Q2 and
     *    a diagonal one (per-feature units), overall scale from 1e-3 up to 1e4; in the "large" regime every variance is large (raw
     *    units: LDA() takes its pseudo-inverse branch) and the condition number is 32..100.  The re-coded data are predicted into
     *    REUSED output matrices (copies of the base results). */
    double Q1[MAXD][MAXD], Q2[MAXD][MAXD], A[MAXD][MAXD], b[MAXD], s[MAXD];
    double *X2 = malloc(sizeof(double) * n * d), *T2 = malloc(sizeof(double) * c->nt * d);
    for(int map = 0; map < 2; map++){
      int large = vr_unif(&R) < 0.5;
      double kap = large ? pow(10.0, 1.5 + 0.5 * vr_unif(&R)) : pow(10.0, 2.0 * vr_unif(&R));
      double g = large ? 10.0 * pow(1e3 / kap, vr_unif(&R)) : pow(10.0, -3.0 + 5.0 * vr_unif(&R));     /* g * kap <= 1e4 */
      s[0] = g; for(int j = 1; j < d; j++) s[j] = g * pow(kap, j == d - 1 ? 1.0 : vr_unif(&R));
      for(int j = d - 1; j > 0; j--){ int q = (int)vr_int(&R, 0, j); double tv = s[j]; s[j] = s[q]; s[q] = tv; }
      if(map == 0){ orth(&R, d, Q1); orth(&R, d, Q2); }
      else for(int i = 0; i < d; i++) for(int j = 0; j < d; j++) Q1[i][j] = Q2[i][j] = (i == j);
      for(int i = 0; i < d; i++){ b[i] = 10.0 * (map ? s[i] : g) * vr_norm(&R); for(int j = 0; j < d; j++){ double v = 0; for(int q = 0; q < d; q++) v += Q1[i][q] * s[q] * Q2[q][j]; A[i][j] = v; } }
      for(int i = 0; i < n; i++) for(int j = 0; j < d; j++){ double v = b[j]; for(int q = 0; q < d; q++) v += A[j][q] * c->X[i * d + q]; X2[i * d + j] = v; }
      for(int i = 0; i < c->nt; i++) for(int j = 0; j < d; j++){ double v = b[j]; for(int q = 0; q < d; q++) v += A[j][q] * c->T[i * d + q]; T2[i * d + j] = v; }
      fitres f2; int same;
      fit_predict_r(X2, c->lab, n, d, T2, c->nt, &f2, 3, 3, &f);
      double e = pair_err(f.pr, f.pred, f2.pr, f2.pred, &same);
      int pinv, wi; double kf, ires; inv_diag(X2, c->lab, n, d, f2.m->inv_cov, &pinv, &kf, &ires, &wi);
      VRT_EMIT("{\"e\":\"Pair\",\"kind\":\"affine\",\"map\":\"%s\",\"large\":%d,\"err\":%ld,\"same\":%d,\"cond\":%ld,\"scale\":%ld,\"pinv\":%d,\"kf\":%ld,\"invres\":%ld}", map ? "diag" : "dense", large, vq12(e), same, vq_unit(kap, 1e-3), vq_unit(g, 1e-3), pinv, vq_unit(fmax(kf, kf0), 1.0), vq12(ires));
      fit_free(&f2);
    }
    int same; double e;
    /* -- reordering of the training objects */
    int *perm = malloc(sizeof(int) * n), *lab3 = malloc(sizeof(int) * n);
    for(int i = 0; i < n; i++) perm[i] = i;
    for(int i = n - 1; i > 0; i--){ int j = (int)vr_int(&R, 0, i); int tt = perm[i]; perm[i] = perm[j]; perm[j] = tt; }
    for(int i = 0; i < n; i++){ lab3[i] = c->lab[perm[i]]; memcpy(X2 + i * d, c->X + perm[i] * d, sizeof(double) * d); }
    fitres f3;
    fit_predict_r(X2, lab3, n, d, c->T, c->nt, &f3, 4, 4, &f);
    e = pair_err(f.pr, f.pred, f3.pr, f3.pred, &same);
    VRT_EMIT("{\"e\":\"Pair\",\"kind\":\"perm\",\"err\":%ld,\"same\":%d,\"cond\":0,\"scale\":0,\"kf\":%ld}", vq12(e), same, vq_unit(kf0, 1.0));
    fit_free(&f3);
    free(X2); free(T2); free(perm); free(lab3);
  }
  /* -- one-vs-rest ROC of perfect predictions (labels numbered from 0 only) */
  if(c->start == 0){
    matrix *yt = mky(c->lab, n), *yp = mky(c->lab, n);
    dvector *ra, *pa; initDVector(&ra); initDVector(&pa);
    *g_stage = 5;
    LDAMulticlassStatistics(yt, yp, NULL, ra, NULL, pa);
    *g_stage = 6;
    for(size_t k = 0; k < ra->size; k++) VRT_EMIT("{\"e\":\"Auc\",\"k\":%zu,\"err\":%ld}", k, vq12(ra->data[k] - 1.0));
    VRT_EMIT("{\"e\":\"AucEnd\",\"count\":%zu}", ra->size);
    DelDVector(&ra); DelDVector(&pa); DelMatrix(&yt); DelMatrix(&yp);
  }
  fit_free(&f);
  return 0;
}

static void emit_case(lcase *c){
  static char buf[1 << 16]; int p = 0;
  VRT_EMIT("{\"e\":\"Reset\"}");
  p += snprintf(buf + p, sizeof buf - p, "{\"e\":\"Case\",\"id\":%ld,\"mode\":\"%s\",\"sub\":%d,\"sep\":%d,\"K\":%d,\"d\":%d,\"start\":%d,\"balanced\":%d,\"lab\":[", c->id, c->exact ? "exact" : "ledger", c->sub, c->sep, c->K, c->d, c->start, c->balanced);
  for(int i = 0; i < c->n; i++) p += snprintf(buf + p, sizeof buf - p, "%s%d", i ? "," : "", c->lab[i]);
  p += snprintf(buf + p, sizeof buf - p, "],\"X\":[");
  if(c->exact) for(int i = 0; i < c->n; i++){ p += snprintf(buf + p, sizeof buf - p, "%s[", i ? "," : ""); for(int j = 0; j < c->d; j++) p += snprintf(buf + p, sizeof buf - p, "%s%ld", j ? "," : "", (long)c->X[i * c->d + j]); p += snprintf(buf + p, sizeof buf - p, "]"); }
  snprintf(buf + p, sizeof buf - p, "]}");
  VRT_EMIT("%s", buf);
}

static void drive(lcase *c){
  emit_case(c);
  *g_stage = 0;
  int rc = vrt_run_child(run_case, c, 60);
  if(rc != 0) VRT_EMIT("{\"e\":\"Crash\",\"id\":%ld,\"rc\":%d,\"stage\":\"%s\",\"start\":%d,\"sub\":%d}", c->id, rc, STAGE[*g_stage], c->start, c->sub);
}

static void gen_ledger(uint64_t seed, long idx, double sep, lcase *c){
  vrng R = { seed * 0x9E3779B97F4A7C15ULL + (uint64_t)idx * 7919 + 11 };
  long combo = (idx * 37) % 80;                   /* 80 = 4 class counts x 5 dims x 2 starts x 2 balance; 37 is coprime */
  int K = 2 + combo % 4, d = 2 + (combo / 4) % 5, start = (combo / 20) % 2, bal = (combo / 40) % 2;
  int cnt[MAXK], n = 0;
  if(bal){ int q = (int)vr_int(&R, 4, 40); for(int k = 0; k < K; k++) cnt[k] = q; }
  else { for(int k = 0; k < K; k++) cnt[k] = (int)vr_int(&R, 4, 40); cnt[0] = 4; cnt[K - 1] = cnt[K - 1] < 30 ? 40 : cnt[K - 1]; }
  for(int k = 0; k < K; k++) n += cnt[k];
  /* centres: distinct points of the lattice {-2..2}^d * sep, jittered by +-0.05 sep per coordinate */
  double cen[MAXK][MAXD]; int lat[MAXK][MAXD];
  for(int k = 0; k < K; k++){
    for(;;){ int dup = 0; for(int j = 0; j < d; j++) lat[k][j] = (int)vr_int(&R, -2, 2);
      for(int p = 0; p < k; p++){ int eq = 1; for(int j = 0; j < d; j++) if(lat[p][j] != lat[k][j]) eq = 0; if(eq) dup = 1; }
      if(!dup) break; }
    for(int j = 0; j < d; j++) cen[k][j] = sep * (lat[k][j] + 0.1 * (vr_unif(&R) - 0.5));
  }
  int fresh = 2, nt = n + fresh * K;
  c->id = idx; c->exact = 0; c->sep = 1; c->n = n; c->d = d; c->K = K; c->start = start; c->balanced = bal; c->sub = 0;
  c->lab = malloc(sizeof(int) * n); c->X = malloc(sizeof(double) * n * d); c->nt = nt; c->tlab = malloc(sizeof(int) * nt); c->T = malloc(sizeof(double) * nt * d);
  int r = 0;
  for(int k = 0; k < K; k++) for(int i = 0; i < cnt[k]; i++){ c->lab[r] = k + start; for(int j = 0; j < d; j++){ double z; do z = vr_norm(&R); while(fabs(z) > 3.0); c->X[r * d + j] = cen[k][j] + z; } r++; }
  for(int i = n - 1; i > 0; i--){ int j = (int)vr_int(&R, 0, i); int tl = c->lab[i]; c->lab[i] = c->lab[j]; c->lab[j] = tl;
    for(int q = 0; q < d; q++){ double tv = c->X[i * d + q]; c->X[i * d + q] = c->X[j * d + q]; c->X[j * d + q] = tv; } }
  memcpy(c->T, c->X, sizeof(double) * n * d); for(int i = 0; i < n; i++) c->tlab[i] = c->lab[i];
  r = n;
  for(int k = 0; k < K; k++) for(int i = 0; i < fresh; i++){ c->tlab[r] = k + start; for(int j = 0; j < d; j++){ double z; do z = vr_norm(&R); while(fabs(z) > 3.0); c->T[r * d + j] = cen[k][j] + z; } r++; }
  c->pairseed = vr_next(&R);
}

int main(int argc, char **argv){
  if(argc < 4){ fprintf(stderr, "usage: c08_drv out exact casefile | out ledger seed first count sep\n"); return 2; }
  vrt_open(argv[1]);
  g_stage = mmap(NULL, sizeof(int), PROT_READ | PROT_WRITE, MAP_SHARED | MAP_ANONYMOUS, -1, 0);
  if(g_stage == MAP_FAILED){ perror("mmap"); return 2; }
#ifdef LIBSCIENTIFIC_VERIF
  vrt_force_nproc(1);
#endif
  if(!strcmp(argv[2], "exact")){
    FILE *fp = fopen(argv[3], "r"); if(!fp){ perror(argv[3]); return 2; }
    long id; int n, d;
    while(fscanf(fp, "%ld %d %d", &id, &n, &d) == 3){
      lcase c; memset(&c, 0, sizeof c);
      c.id = id; c.exact = 1; c.n = n; c.d = d; c.lab = malloc(sizeof(int) * n); c.X = malloc(sizeof(double) * n * d);
      int mn = 1 << 30, mx = -1;
      for(int i = 0; i < n; i++){ if(fscanf(fp, "%d", &c.lab[i]) != 1) return 2; if(c.lab[i] < mn) mn = c.lab[i]; if(c.lab[i] > mx) mx = c.lab[i]; }
      for(int i = 0; i < n * d; i++){ long v; if(fscanf(fp, "%ld", &v) != 1) return 2; c.X[i] = (double)v; }
      c.start = mn; c.K = mx - mn + 1; c.nt = n; c.T = c.X; c.tlab = c.lab;
      int bal = 1; for(int k = mn; k <= mx; k++){ int a = 0, b = 0; for(int i = 0; i < n; i++){ if(c.lab[i] == k) a++; if(c.lab[i] == mn) b++; } if(a != b) bal = 0; }
      c.balanced = bal;
      drive(&c);
      free(c.lab); free(c.X);
    }
    fclose(fp);
  }
  else if(!strcmp(argv[2], "ledger") && argc >= 7){
    uint64_t seed = (uint64_t)atoll(argv[3]); long first = atol(argv[4]), count = atol(argv[5]); double sep = atof(argv[6]);
    for(long idx = first; idx < first + count; idx++){
      lcase c; memset(&c, 0, sizeof c);
      gen_ledger(seed, idx, sep, &c);
      drive(&c);
      if(c.K >= 3){ c.sub = 1; drive(&c); }
      free(c.lab); free(c.X); free(c.tlab); free(c.T);
    }
  }
  else { fprintf(stderr, "bad mode\n"); return 2; }
  vrt_close();
  return 0;
}
