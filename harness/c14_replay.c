/* c14_replay.c - C14: replay TLC-generated container histories (spec/Containers.tla, GenSpec) against the
 * ASan/UBSan build and compare the real containers with the spec's post-state after every operation.
 *
 *   c14_replay <script> <out.ndjson> [timeout_s]
 *
 * Script (written by lib/checks/c14.py from TLC's "@@" JSON lines), one record per line:
 *   STR <id> <hex|->                  string table (strvector cells)
 *   NUM <id> d|i <value>              a number of the K4 "long number text" set: the table entry is the "%f" / "%d" text of the value
 *                                     (formatted here with snprintf into a buffer of the required length - the reference the stored cell
 *                                     is compared with, length and content) and StrVectorAppendDouble:big / StrVectorAppendInt:big pass the value
 *   H <id> [palette]                  start of a history; palette = small | huge | frac: how the value CODES of the
 *                                     specification become cell values (strictly increasing, 0 -> 0; see pal_d/pal_u/pal_i)
 *   O <step> <name> <rel> <oor> <args...>   one API call (slots are pool indices, vectors are <len> <v...>)
 *   E <kind> <slot> <live> ...        spec post-state of a slot the call may have changed
 * Every history runs in its own child process; stderr of the child goes to <out>.err so a sanitizer report is
 * attributed to the history and step that produced it. Out-of-range accessors run in a grandchild: returning
 * normally with the state unchanged, or a clean abort() (SIGABRT without a sanitizer report), are accepted.
 * After every call: liveness, dims and every cell of every pool slot are compared with the shadow state, and
 * no two live containers may share an owned pointer (copies are deep).
 * Sort calls additionally write what was OBSERVED (the container as codes before and after the call) to <out>.obs
 * ("SortMx" / "SortVec" events); TLC judges them against ContainerLaws.tla (spec/TraceContainers.tla).  After a matrix
 * sort whose keys tie between different rows (several admissible results) the real matrix is set to the representative
 * the shadow model continues with, once its shape has been compared.
 * Return values of the query routines outside C14's statement (ValInMatrix, MatrixColumnMinMax) that differ from the
 * model are recorded as "extras" and do not end the history.
 * "reuse" counts creations that got the address of a container freed earlier in the same history (K7).
 * Result lines: {"h":id,"res":"ok"|"mismatch"|"alias"|"san"|"abort"|"signal"|"timeout"|"script","reuse":n,"extras":[...],...}
 */
#include "scientific.h"
#include "verif_rt.h"
#include <sys/mman.h>
#include <fcntl.h>
#include <errno.h>

void MatrixAppendUICol(matrix *m, uivector *col);   /* defined in matrix.c, missing from matrix.h */

#define P 8     /* pool slots per kind (spec uses <= 4) */
#define MD 72   /* bound on any dimension (spec uses <= 66) */
enum { KDV, KUV, KIV, KSV, KMX, KTN, KDL, NK };
static const char *KN[NK] = {"dv", "uv", "iv", "sv", "mx", "tn", "dl"};

typedef struct { int live, n; long d[MD]; } XVec;
typedef struct { int live, row, col; long c[MD][MD]; } XMat;
typedef struct { int live, n; XMat m[MD]; } XTen;
typedef struct { int live, n; XVec d[MD]; } XLst;
static XVec xv[3][P], xs[P]; static XMat xm[P]; static XTen xt[P]; static XLst xl[P];

static dvector *dv[P]; static uivector *uv[P]; static ivector *iv[P]; static strvector *sv[P];
static matrix *mx[P]; static tensor *tn[P]; static dvectorlist *dl[P];

#define NSTR 256
static char *strtab[NSTR];
static double numd[NSTR]; static int numi[NSTR]; static char numkind[NSTR];   /* NUM entries: the value behind the text */

typedef struct { int step, nsteps, oor_abort, oor_ret, ops, reuse, nextra; char op[64], rel[24], what[400], extra[4][240]; } Shared;
static Shared *sh;
static FILE *obs;            /* observation events of the running history (child) */
static int sorted_slot = -1; /* matrix slot the last call sorted */
static long cur_hid;

/* ---------------------------------------------------------------- value palettes (code -> cell value) */
enum { PAL_SMALL, PAL_HUGE, PAL_FRAC };
static int pal = PAL_SMALL;
static const double HUGE_D[6] = {0.0, 1.0, 2147483653.0, 4294967297.0, 12884901889.0, 21474836481.0};   /* 2^31+5, 2^32+1, +2^33, +2^34: exact as double and size_t, < 2^43 */
static const int HUGE_I[4] = {0, 1, 65537, 2147483647};
static void pal_bad(long c){ snprintf(sh->what, sizeof sh->what, "script: value code %ld outside the palette", c); _exit(7); }
static double pal_d(long c){ long a = c < 0 ? -c : c; double v;
  if(pal == PAL_HUGE){ if(a > 5) pal_bad(c); v = HUGE_D[a]; } else if(pal == PAL_FRAC) v = (double)a / 10.0; else v = (double)a;
  return c < 0 ? -v : v; }
static size_t pal_u(long c){ if(c < 0) pal_bad(c); if(pal == PAL_HUGE){ if(c > 5) pal_bad(c); return (size_t)HUGE_D[c]; } return (size_t)c; }
static int pal_i(long c){ long a = c < 0 ? -c : c; int v; if(pal == PAL_HUGE){ if(a > 3) pal_bad(c); v = HUGE_I[a]; } else v = (int)a; return c < 0 ? -v : v; }
/* inverse (observation events): the code of a cell value, 999999 when it is no value of the palette */
static long code_d(double v){ for(long c = -8; c <= 8; c++){ if(pal == PAL_HUGE && (c > 5 || c < -5)) continue; if(pal_d(c) == v) return c; } return 999999; }
static long code_u(size_t v){ for(long c = 0; c <= 8; c++){ if(pal == PAL_HUGE && c > 5) continue; if(pal_u(c) == v) return c; } return 999999; }

static void dimchk(long n);
/* ---------------------------------------------------------------- address reuse (K7) */
static uintptr_t freed[4096]; static int nfreed;
static void note_free(const void *p){ if(p && nfreed < 4096) freed[nfreed++] = (uintptr_t)p; }
static void note_new(const void *p){ uintptr_t a = (uintptr_t)p; if(!p) return; for(int i = 0; i < nfreed; i++) if(freed[i] == a){ sh->reuse++; freed[i] = freed[--nfreed]; return; } }

enum { RC_OK = 0, RC_MISMATCH = 3, RC_ALIAS = 4, RC_OORSAN = 5, RC_OORSIG = 6, RC_SCRIPT = 7 };

/* ---------------------------------------------------------------- token reader */
/* streaming reader over one script line (an expectation line of a 65x65 matrix has thousands of tokens) */
typedef struct { char *p; } Toks;
static char *tks(Toks *t){
  char *s = t->p; while(*s == ' ' || *s == '\t' || *s == '\r' || *s == '\n') s++;
  if(!*s){ snprintf(sh->what, sizeof sh->what, "script: missing token"); _exit(RC_SCRIPT); }
  char *e = s; while(*e && *e != ' ' && *e != '\t' && *e != '\r' && *e != '\n') e++;
  if(*e){ *e = 0; t->p = e + 1; } else t->p = e;
  return s; }
static long tk(Toks *t){ return strtol(tks(t), NULL, 10); }
static int split(char *line, char **tok, int max){ int n = 0; char *s = strtok(line, " \t\r\n"); while(s && n < max){ tok[n++] = s; s = strtok(NULL, " \t\r\n"); } return n; }

/* ---------------------------------------------------------------- comparison with the shadow state */
#define FAIL(code, ...) do{ snprintf(sh->what, sizeof sh->what, __VA_ARGS__); return code; }while(0)

static int cmp_mat(const char *who, int x, int k, matrix *m, XMat *e){
  if((int)m->row != e->row || (int)m->col != e->col) FAIL(RC_MISMATCH, "%s[%d]%s%d dims got %zux%zu want %dx%d", who, x, k >= 0 ? " layer " : "", k >= 0 ? k : 0, m->row, m->col, e->row, e->col);
  for(int i = 0; i < e->row; i++) for(int j = 0; j < e->col; j++)
    if(!(m->data[i][j] == pal_d(e->c[i][j]))) FAIL(RC_MISMATCH, "%s[%d]%s%d cell[%d][%d] got %.17g want %.17g (code %ld)", who, x, k >= 0 ? " layer " : "", k >= 0 ? k : 0, i, j, m->data[i][j], pal_d(e->c[i][j]), e->c[i][j]);
  return 0;
}

static int compare_all(void){
  int rc;
  for(int x = 0; x < P; x++){
    if((dv[x] != NULL) != xv[KDV][x].live) FAIL(RC_MISMATCH, "dv[%d] liveness got %d want %d", x, dv[x] != NULL, xv[KDV][x].live);
    if(dv[x]){ XVec *e = &xv[KDV][x]; if((int)dv[x]->size != e->n) FAIL(RC_MISMATCH, "dv[%d] size got %zu want %d", x, dv[x]->size, e->n);
      for(int i = 0; i < e->n; i++) if(!(dv[x]->data[i] == pal_d(e->d[i]))) FAIL(RC_MISMATCH, "dv[%d] cell[%d] got %.17g want %.17g (code %ld)", x, i, dv[x]->data[i], pal_d(e->d[i]), e->d[i]); }
    if((uv[x] != NULL) != xv[KUV][x].live) FAIL(RC_MISMATCH, "uv[%d] liveness got %d want %d", x, uv[x] != NULL, xv[KUV][x].live);
    if(uv[x]){ XVec *e = &xv[KUV][x]; if((int)uv[x]->size != e->n) FAIL(RC_MISMATCH, "uv[%d] size got %zu want %d", x, uv[x]->size, e->n);
      for(int i = 0; i < e->n; i++) if(uv[x]->data[i] != pal_u(e->d[i])) FAIL(RC_MISMATCH, "uv[%d] cell[%d] got %zu want %zu (code %ld)", x, i, uv[x]->data[i], pal_u(e->d[i]), e->d[i]); }
    if((iv[x] != NULL) != xv[KIV][x].live) FAIL(RC_MISMATCH, "iv[%d] liveness got %d want %d", x, iv[x] != NULL, xv[KIV][x].live);
    if(iv[x]){ XVec *e = &xv[KIV][x]; if((int)iv[x]->size != e->n) FAIL(RC_MISMATCH, "iv[%d] size got %zu want %d", x, iv[x]->size, e->n);
      for(int i = 0; i < e->n; i++) if(iv[x]->data[i] != pal_i(e->d[i])) FAIL(RC_MISMATCH, "iv[%d] cell[%d] got %d want %d (code %ld)", x, i, iv[x]->data[i], pal_i(e->d[i]), e->d[i]); }
    if((sv[x] != NULL) != xs[x].live) FAIL(RC_MISMATCH, "sv[%d] liveness got %d want %d", x, sv[x] != NULL, xs[x].live);
    if(sv[x]){ XVec *e = &xs[x]; if((int)sv[x]->size != e->n) FAIL(RC_MISMATCH, "sv[%d] size got %zu want %d", x, sv[x]->size, e->n);
      for(int i = 0; i < e->n; i++){ if(e->d[i] < 0) continue;      /* slot of NewStrVector(n) not yet set: content undefined, not read */
        if(sv[x]->data[i] == NULL || strcmp(sv[x]->data[i], strtab[e->d[i]]) != 0) FAIL(RC_MISMATCH, "sv[%d] cell[%d] got \"%.40s\" (%zu characters) want \"%.40s\" (%zu characters)", x, i, sv[x]->data[i] ? sv[x]->data[i] : "(null)", sv[x]->data[i] ? strlen(sv[x]->data[i]) : (size_t)0, strtab[e->d[i]], strlen(strtab[e->d[i]])); } }
    if((mx[x] != NULL) != xm[x].live) FAIL(RC_MISMATCH, "mx[%d] liveness got %d want %d", x, mx[x] != NULL, xm[x].live);
    if(mx[x] && (rc = cmp_mat("mx", x, -1, mx[x], &xm[x]))) return rc;
    if((tn[x] != NULL) != xt[x].live) FAIL(RC_MISMATCH, "tn[%d] liveness got %d want %d", x, tn[x] != NULL, xt[x].live);
    if(tn[x]){ XTen *e = &xt[x]; if((int)tn[x]->order != e->n) FAIL(RC_MISMATCH, "tn[%d] order got %zu want %d", x, tn[x]->order, e->n);
      for(int k = 0; k < e->n; k++){
        if((tn[x]->m[k] != NULL) != e->m[k].live) FAIL(RC_MISMATCH, "tn[%d] layer %d allocated got %d want %d", x, k, tn[x]->m[k] != NULL, e->m[k].live);
        if(tn[x]->m[k] && (rc = cmp_mat("tn", x, k, tn[x]->m[k], &e->m[k]))) return rc; } }
    if((dl[x] != NULL) != xl[x].live) FAIL(RC_MISMATCH, "dl[%d] liveness got %d want %d", x, dl[x] != NULL, xl[x].live);
    if(dl[x]){ XLst *e = &xl[x]; if((int)dl[x]->size != e->n) FAIL(RC_MISMATCH, "dl[%d] size got %zu want %d", x, dl[x]->size, e->n);
      for(int k = 0; k < e->n; k++){ dvector *d = dl[x]->d[k]; if(d == NULL) FAIL(RC_MISMATCH, "dl[%d] element %d is NULL", x, k);
        if((int)d->size != e->d[k].n) FAIL(RC_MISMATCH, "dl[%d] element %d size got %zu want %d", x, k, d->size, e->d[k].n);
        for(int i = 0; i < e->d[k].n; i++) if(!(d->data[i] == pal_d(e->d[k].d[i]))) FAIL(RC_MISMATCH, "dl[%d] element %d cell[%d] got %.17g want %.17g (code %ld)", x, k, i, d->data[i], pal_d(e->d[k].d[i]), e->d[k].d[i]); } }
  }
  return 0;
}

/* ---------------------------------------------------------------- ownership: no pointer owned twice */
typedef struct { void *p; int kind, slot; const char *part; int idx; } Own;
static Own own[8192]; static int nown;
static void add_own(void *p, int kind, int slot, const char *part, int idx){ if(p && nown < 8192){ own[nown].p = p; own[nown].kind = kind; own[nown].slot = slot; own[nown].part = part; own[nown].idx = idx; nown++; } }
static void own_mat(matrix *m, int kind, int slot){ add_own(m, kind, slot, "matrix", 0); add_own(m->data, kind, slot, "rows", 0); for(size_t i = 0; i < m->row; i++) add_own(m->data[i], kind, slot, "row", (int)i); }
static int own_cmp(const void *a, const void *b){ uintptr_t x = (uintptr_t)((const Own*)a)->p, y = (uintptr_t)((const Own*)b)->p; return (x > y) - (x < y); }
static int alias_check(void){
  nown = 0;
  for(int x = 0; x < P; x++){
    if(dv[x]){ add_own(dv[x], KDV, x, "struct", 0); add_own(dv[x]->data, KDV, x, "data", 0); }
    if(uv[x]){ add_own(uv[x], KUV, x, "struct", 0); add_own(uv[x]->data, KUV, x, "data", 0); }
    if(iv[x]){ add_own(iv[x], KIV, x, "struct", 0); add_own(iv[x]->data, KIV, x, "data", 0); }
    if(sv[x]){ add_own(sv[x], KSV, x, "struct", 0); add_own(sv[x]->data, KSV, x, "data", 0); for(size_t i = 0; i < sv[x]->size; i++) add_own(sv[x]->data[i], KSV, x, "string", (int)i); }
    if(mx[x]) own_mat(mx[x], KMX, x);
    if(tn[x]){ add_own(tn[x], KTN, x, "struct", 0); add_own(tn[x]->m, KTN, x, "layers", 0); for(size_t k = 0; k < tn[x]->order; k++) if(tn[x]->m[k]) own_mat(tn[x]->m[k], KTN, x); }
    if(dl[x]){ add_own(dl[x], KDL, x, "struct", 0); add_own(dl[x]->d, KDL, x, "elements", 0); for(size_t k = 0; k < dl[x]->size; k++) if(dl[x]->d[k]){ add_own(dl[x]->d[k], KDL, x, "element", (int)k); add_own(dl[x]->d[k]->data, KDL, x, "element data", (int)k); } }
  }
  qsort(own, nown, sizeof(Own), own_cmp);
  for(int i = 1; i < nown; i++) if(own[i].p == own[i-1].p)
    FAIL(RC_ALIAS, "%s[%d] %s %d and %s[%d] %s %d are the same pointer", KN[own[i-1].kind], own[i-1].slot, own[i-1].part, own[i-1].idx, KN[own[i].kind], own[i].slot, own[i].part, own[i].idx);
  return 0;
}

/* ---------------------------------------------------------------- expected post-state lines */
static void dimchk(long n){ if(n < 0 || n > MD){ snprintf(sh->what, sizeof sh->what, "script: dimension %ld beyond the harness bound %d", n, MD); _exit(RC_SCRIPT); } }
static void read_xvec(Toks *t, XVec *e){ e->live = (int)tk(t); e->n = 0; if(!e->live) return; e->n = (int)tk(t); dimchk(e->n); for(int i = 0; i < e->n; i++) e->d[i] = tk(t); }
static void read_xmat(Toks *t, XMat *e){ e->live = (int)tk(t); e->row = e->col = 0; if(!e->live) return; e->row = (int)tk(t); e->col = (int)tk(t); dimchk(e->row); dimchk(e->col); for(int i = 0; i < e->row; i++) for(int j = 0; j < e->col; j++) e->c[i][j] = tk(t); }
static void apply_expect(Toks *t){
  int k = (int)tk(t), x = (int)tk(t);
  if(k <= KIV) read_xvec(t, &xv[k][x]);
  else if(k == KSV) read_xvec(t, &xs[x]);
  else if(k == KMX) read_xmat(t, &xm[x]);
  else if(k == KTN){ XTen *e = &xt[x]; e->live = (int)tk(t); e->n = 0; if(e->live){ e->n = (int)tk(t); dimchk(e->n); for(int q = 0; q < e->n; q++) read_xmat(t, &e->m[q]); } }
  else if(k == KDL){ XLst *e = &xl[x]; e->live = (int)tk(t); e->n = 0; if(e->live){ e->n = (int)tk(t); dimchk(e->n); for(int q = 0; q < e->n; q++){ e->d[q].live = 1; e->d[q].n = (int)tk(t); dimchk(e->d[q].n); for(int i = 0; i < e->d[q].n; i++) e->d[q].d[i] = tk(t); } } }
}

/* ---------------------------------------------------------------- operands built for a call */
/* operands keep a snapshot: a call must leave the operand it was given as it was (FrameLaw: only the declared slots change) */
static double opnd_d[MD * MD + 8]; static size_t opnd_u[MD + 8]; static int opnd_n;
static dvector *mk_dv(Toks *t){ int n = (int)tk(t); dimchk(n); dvector *v; NewDVector(&v, n); for(int i = 0; i < n; i++) opnd_d[i] = v->data[i] = pal_d(tk(t)); opnd_n = n; return v; }
static uivector *mk_uv(Toks *t){ int n = (int)tk(t); dimchk(n); uivector *v; NewUIVector(&v, n); for(int i = 0; i < n; i++) opnd_u[i] = v->data[i] = pal_u(tk(t)); opnd_n = n; return v; }
static int same_dv(const char *name, dvector *v){ if((int)v->size != opnd_n) FAIL(RC_MISMATCH, "%s changed the size of its operand vector: %zu, was %d", name, v->size, opnd_n);
  for(int i = 0; i < opnd_n; i++) if(!(v->data[i] == opnd_d[i])) FAIL(RC_MISMATCH, "%s changed cell %d of its operand vector: %.17g, was %.17g", name, i, v->data[i], opnd_d[i]); return 0; }
static int same_uv(const char *name, uivector *v){ if((int)v->size != opnd_n) FAIL(RC_MISMATCH, "%s changed the size of its operand vector: %zu, was %d", name, v->size, opnd_n);
  for(int i = 0; i < opnd_n; i++) if(v->data[i] != opnd_u[i]) FAIL(RC_MISMATCH, "%s changed cell %d of its operand vector: %zu, was %zu", name, i, v->data[i], opnd_u[i]); return 0; }

/* index tokens >= 1000001 are codes of far out-of-range indices (FarIdx of Containers.tla) */
static size_t ix(long v){ switch(v){ case 1000001: return (size_t)-1; case 1000002: return (size_t)1 << 63; case 1000003: return ((size_t)1 << 63) + 1; case 1000004: return (size_t)1 << 32; default: return (size_t)v; } }
#define IS(s) (strcmp(name, s) == 0)
#define RETCHK(got, fmt) do{ long want_ = tk(t); if((long)(got) != want_){ snprintf(sh->what, sizeof sh->what, "%s returned " fmt " want %ld", name, (got), want_); return RC_MISMATCH; } }while(0)
#define EXTRA(...) do{ if(sh->nextra < 4) snprintf(sh->extra[sh->nextra++], sizeof sh->extra[0], __VA_ARGS__); }while(0)

/* ---------------------------------------------------------------- observation events (judged by TLC, TraceContainers.tla) */
static void obs_mat(const char *key, matrix *m){
  fprintf(obs, "\"%s\":[", key);
  for(size_t i = 0; i < m->row; i++){ fprintf(obs, "%s[", i ? "," : ""); for(size_t j = 0; j < m->col; j++) fprintf(obs, "%s%ld", j ? "," : "", code_d(m->data[i][j])); fprintf(obs, "]"); }
  fprintf(obs, "]");
}
static void obs_head(const char *e){ fprintf(obs, "{\"e\":\"%s\",\"h\":%ld,\"step\":%d,", e, cur_hid, sh->step); }

/* the string SplitString is given: the fields joined with ';' and decorated (Containers.tla, SvSplit) */
static char *split_arg(Toks *t){
  int n = (int)tk(t); static char buf[1024]; char body[900]; body[0] = 0; int ids[16];
  if(n > 16){ snprintf(sh->what, sizeof sh->what, "script: too many fields"); _exit(RC_SCRIPT); }
  for(int i = 0; i < n; i++) ids[i] = (int)tk(t);
  int decor = (int)tk(t);
  if(decor & 2) strcat(body, ";");
  for(int i = 0; i < n; i++){ if(i) strcat(body, (decor & 2) ? ";;" : ";"); strcat(body, strtab[ids[i]]); }
  if(decor & 2) strcat(body, ";");
  snprintf(buf, sizeof buf, "%s%s%s", (decor & 1) ? " \t " : "", body, (decor & 1) ? "  \t" : "");
  return buf;
}

/* execute one call; returns 0 or RC_MISMATCH (wrong return value) */
static int exec_op(const char *name, int oor, Toks *t){
  /* ---- dvector */
  if(IS("NewDVector")){ int x = tk(t), n = tk(t); NewDVector(&dv[x], n); note_new(dv[x]); }
  else if(IS("initDVector")){ int x = tk(t); initDVector(&dv[x]); note_new(dv[x]); }
  else if(IS("DelDVector")){ int x = tk(t); note_free(dv[x]); DelDVector(&dv[x]); dv[x] = NULL; }
  else if(IS("DVectorResize")){ int x = tk(t), n = tk(t); DVectorResize(dv[x], n); }
  else if(IS("DVectorAppend")){ int x = tk(t); long v = tk(t); DVectorAppend(dv[x], pal_d(v)); }
  else if(IS("DVectorRemoveAt")){ int x = tk(t); size_t i = ix(tk(t)); DVectorRemoveAt(dv[x], i); }
  else if(IS("DVectorCopy")){ int s = tk(t), d = tk(t); DVectorCopy(dv[s], dv[d]); }
  else if(IS("DVectorExtend")){ int a = tk(t), b = tk(t), y = tk(t); dv[y] = DVectorExtend(dv[a], dv[b]); note_new(dv[y]); }
  else if(IS("setDVectorValue")){ int x = tk(t); size_t i = ix(tk(t)); long v = tk(t); setDVectorValue(dv[x], i, pal_d(v)); }
  else if(IS("getDVectorValue")){ int x = tk(t); size_t i = ix(tk(t)); double r = getDVectorValue(dv[x], i); if(!oor){ long w = tk(t); if(!(r == pal_d(w))){ snprintf(sh->what, sizeof sh->what, "getDVectorValue returned %.17g want %.17g", r, pal_d(w)); return RC_MISMATCH; } } }
  else if(IS("DVectorHasValue")){ int x = tk(t); long v = tk(t); int r = DVectorHasValue(dv[x], pal_d(v)); RETCHK(r, "%d"); }
  else if(IS("DVectorSet")){ int x = tk(t); long v = tk(t); DVectorSet(dv[x], pal_d(v)); }
  else if(IS("DVectorSort")){ int x = tk(t);
    obs_head("SortVec"); fprintf(obs, "\"kind\":\"dv\",\"pre\":["); for(size_t i = 0; i < dv[x]->size; i++) fprintf(obs, "%s%ld", i ? "," : "", code_d(dv[x]->data[i])); fprintf(obs, "],");
    DVectorSort(dv[x]);
    fprintf(obs, "\"post\":["); for(size_t i = 0; i < dv[x]->size; i++) fprintf(obs, "%s%ld", i ? "," : "", code_d(dv[x]->data[i])); fprintf(obs, "]}\n"); fflush(obs); }
  else if(IS("PrintDVector")){ int x = tk(t); PrintDVector(dv[x]); }
  /* ---- uivector */
  else if(IS("NewUIVector")){ int x = tk(t), n = tk(t); NewUIVector(&uv[x], n); note_new(uv[x]); }
  else if(IS("initUIVector")){ int x = tk(t); initUIVector(&uv[x]); note_new(uv[x]); }
  else if(IS("DelUIVector")){ int x = tk(t); note_free(uv[x]); DelUIVector(&uv[x]); uv[x] = NULL; }
  else if(IS("UIVectorResize")){ int x = tk(t), n = tk(t); UIVectorResize(uv[x], n); }
  else if(IS("UIVectorAppend")){ int x = tk(t); long v = tk(t); UIVectorAppend(uv[x], pal_u(v)); }
  else if(IS("UIVectorRemoveAt")){ int x = tk(t); size_t i = ix(tk(t)); UIVectorRemoveAt(uv[x], i); }
  else if(IS("UIVectorExtend")){ int a = tk(t), b = tk(t), y = tk(t); uv[y] = UIVectorExtend(uv[a], uv[b]); note_new(uv[y]); }
  else if(IS("setUIVectorValue")){ int x = tk(t); size_t i = ix(tk(t)); long v = tk(t); setUIVectorValue(uv[x], i, pal_u(v)); }
  else if(IS("getUIVectorValue")){ int x = tk(t); size_t i = ix(tk(t)); size_t r = getUIVectorValue(uv[x], i); if(!oor){ long w = tk(t); if(r != pal_u(w)){ snprintf(sh->what, sizeof sh->what, "getUIVectorValue returned %zu want %zu", r, pal_u(w)); return RC_MISMATCH; } } }
  else if(IS("UIVectorHasValue")){ int x = tk(t); long v = tk(t); int r = UIVectorHasValue(uv[x], pal_u(v)); RETCHK(r, "%d"); }
  else if(IS("UIVectorIndexOf")){ int x = tk(t); long v = tk(t); int r = UIVectorIndexOf(uv[x], pal_u(v)); RETCHK(r, "%d"); }
  else if(IS("UIVectorSet")){ int x = tk(t); long v = tk(t); UIVectorSet(uv[x], pal_u(v)); }
  else if(IS("SortUIVector")){ int x = tk(t);
    obs_head("SortVec"); fprintf(obs, "\"kind\":\"uv\",\"pre\":["); for(size_t i = 0; i < uv[x]->size; i++) fprintf(obs, "%s%ld", i ? "," : "", code_u(uv[x]->data[i])); fprintf(obs, "],");
    SortUIVector(uv[x]);
    fprintf(obs, "\"post\":["); for(size_t i = 0; i < uv[x]->size; i++) fprintf(obs, "%s%ld", i ? "," : "", code_u(uv[x]->data[i])); fprintf(obs, "]}\n"); fflush(obs); }
  else if(IS("PrintUIVector")){ int x = tk(t); PrintUIVector(uv[x]); }
  /* ---- ivector */
  else if(IS("NewIVector")){ int x = tk(t), n = tk(t); NewIVector(&iv[x], n); note_new(iv[x]); }
  else if(IS("initIVector")){ int x = tk(t); initIVector(&iv[x]); note_new(iv[x]); }
  else if(IS("DelIVector")){ int x = tk(t); note_free(iv[x]); DelIVector(&iv[x]); iv[x] = NULL; }
  else if(IS("IVectorAppend")){ int x = tk(t); long v = tk(t); IVectorAppend(iv[x], pal_i(v)); }
  else if(IS("IVectorRemoveAt")){ int x = tk(t); size_t i = ix(tk(t)); IVectorRemoveAt(iv[x], i); }
  else if(IS("IVectorExtend")){ int a = tk(t), b = tk(t), y = tk(t); iv[y] = IVectorExtend(iv[a], iv[b]); note_new(iv[y]); }
  else if(IS("setIVectorValue")){ int x = tk(t); size_t i = ix(tk(t)); long v = tk(t); setIVectorValue(iv[x], i, pal_i(v)); }
  else if(IS("getIVectorValue")){ int x = tk(t); size_t i = ix(tk(t)); int r = getIVectorValue(iv[x], i); if(!oor){ long w = tk(t); if(r != pal_i(w)){ snprintf(sh->what, sizeof sh->what, "getIVectorValue returned %d want %d", r, pal_i(w)); return RC_MISMATCH; } } }
  else if(IS("IVectorHasValue")){ int x = tk(t); long v = tk(t); int r = IVectorHasValue(iv[x], pal_i(v)); RETCHK(r, "%d"); }
  else if(IS("IVectorSet")){ int x = tk(t); long v = tk(t); IVectorSet(iv[x], pal_i(v)); }
  else if(IS("PrintIVector")){ int x = tk(t); PrintIVector(iv[x]); }
  /* ---- strvector (integers given to AppendInt / AppendDouble are the codes themselves: the model computes the strings) */
  else if(IS("initStrVector")){ int x = tk(t); initStrVector(&sv[x]); note_new(sv[x]); }
  else if(IS("NewStrVector")){ int x = tk(t), n = tk(t); NewStrVector(&sv[x], n); note_new(sv[x]); }
  else if(IS("DelStrVector")){ int x = tk(t); note_free(sv[x]); DelStrVector(&sv[x]); sv[x] = NULL; }
  else if(IS("StrVectorResize")){ int x = tk(t), n = tk(t); StrVectorResize(sv[x], n); }
  else if(IS("StrVectorAppend")){ int x = tk(t), s = tk(t); StrVectorAppend(sv[x], strtab[s]); }
  else if(IS("StrVectorAppendInt")){ int x = tk(t); long v = tk(t); StrVectorAppendInt(sv[x], (int)v); }
  else if(IS("StrVectorAppendDouble")){ int x = tk(t); long v = tk(t); StrVectorAppendDouble(sv[x], (double)v); }
  else if(IS("StrVectorAppendInt:big")){ int x = tk(t), c = tk(t); if(c < 0 || c >= NSTR || numkind[c] != 'i'){ snprintf(sh->what, sizeof sh->what, "script: %d is no integer NUM entry", c); _exit(RC_SCRIPT); } StrVectorAppendInt(sv[x], numi[c]); }
  else if(IS("StrVectorAppendDouble:big")){ int x = tk(t), c = tk(t); if(c < 0 || c >= NSTR || numkind[c] != 'd'){ snprintf(sh->what, sizeof sh->what, "script: %d is no double NUM entry", c); _exit(RC_SCRIPT); } StrVectorAppendDouble(sv[x], numd[c]); }
  else if(IS("setStr")){ int x = tk(t), i = tk(t), s = tk(t); setStr(sv[x], i, strtab[s]); }
  else if(IS("getStr")){ int x = tk(t), i = tk(t), s = tk(t); char *r = getStr(sv[x], i); if(r == NULL || strcmp(r, strtab[s]) != 0){ snprintf(sh->what, sizeof sh->what, "getStr returned \"%.40s\" want \"%s\"", r ? r : "(null)", strtab[s]); return RC_MISMATCH; } }
  else if(IS("StrVectorExtend")){ int a = tk(t), b = tk(t), y = tk(t); sv[y] = StrVectorExtend(sv[a], sv[b]); note_new(sv[y]); }
  else if(IS("StrVectorAppend:own")){ int x = tk(t), k = tk(t); StrVectorAppend(sv[x], getStr(sv[x], k)); }
  else if(IS("setStr:own")){ int x = tk(t), i = tk(t), k = tk(t); setStr(sv[x], i, getStr(sv[x], k)); }
  else if(IS("PrintStrVector")){ int x = tk(t); PrintStrVector(sv[x]); }
  else if(IS("SplitString")){ int x = tk(t); char *str = split_arg(t); SplitString(str, ";", sv[x]); }
  /* ---- matrix */
  else if(IS("initMatrix")){ int x = tk(t); initMatrix(&mx[x]); note_new(mx[x]); }
  else if(IS("NewMatrix")){ int x = tk(t), r = tk(t), c = tk(t); NewMatrix(&mx[x], r, c); note_new(mx[x]); }
  else if(IS("DelMatrix")){ int x = tk(t); note_free(mx[x]); DelMatrix(&mx[x]); mx[x] = NULL; }
  else if(IS("ResizeMatrix")){ int x = tk(t), r = tk(t), c = tk(t); ResizeMatrix(mx[x], r, c); }
  else if(IS("MatrixSet")){ int x = tk(t); long v = tk(t); MatrixSet(mx[x], pal_d(v)); }
  else if(IS("MatrixCopy")){ int s = tk(t), d = tk(t); MatrixCopy(mx[s], &mx[d]); }
  else if(IS("setMatrixValue")){ int x = tk(t); size_t i = ix(tk(t)), j = ix(tk(t)); long v = tk(t); setMatrixValue(mx[x], i, j, pal_d(v)); }
  else if(IS("getMatrixValue")){ int x = tk(t); size_t i = ix(tk(t)), j = ix(tk(t)); double r = getMatrixValue(mx[x], i, j);
    if(!oor){ long w = tk(t); if(!(r == pal_d(w))){ snprintf(sh->what, sizeof sh->what, "getMatrixValue returned %.17g want %.17g", r, pal_d(w)); return RC_MISMATCH; } }
    /* out of range: the code returns NaN after its message; the header documents no sentinel, so any returned value is accepted */ }
  else if(IS("getMatrixRow")){ int x = tk(t); size_t i = ix(tk(t)); dvector *r = getMatrixRow(mx[x], i);
    if(!oor){ int y = tk(t); dv[y] = r; note_new(r); if(r == NULL){ snprintf(sh->what, sizeof sh->what, "getMatrixRow returned NULL for a valid row"); return RC_MISMATCH; } }
    else if(r != NULL){ snprintf(sh->what, sizeof sh->what, "getMatrixRow out of range returned a vector instead of NULL"); return RC_MISMATCH; } }
  else if(IS("getMatrixColumn")){ int x = tk(t); size_t j = ix(tk(t)); dvector *r = getMatrixColumn(mx[x], j);
    if(!oor){ int y = tk(t); dv[y] = r; note_new(r); if(r == NULL){ snprintf(sh->what, sizeof sh->what, "getMatrixColumn returned NULL for a valid column"); return RC_MISMATCH; } }
    else if(r != NULL){ snprintf(sh->what, sizeof sh->what, "getMatrixColumn out of range returned a vector instead of NULL"); return RC_MISMATCH; } }
  else if(IS("MatrixAppendRow")){ int x = tk(t); dvector *v = mk_dv(t); MatrixAppendRow(mx[x], v); int rc_ = same_dv(name, v); DelDVector(&v); if(rc_) return rc_; }
  else if(IS("MatrixAppendCol")){ int x = tk(t); dvector *v = mk_dv(t); MatrixAppendCol(mx[x], v); int rc_ = same_dv(name, v); DelDVector(&v); if(rc_) return rc_; }
  else if(IS("MatrixAppendUIRow")){ int x = tk(t); uivector *v = mk_uv(t); MatrixAppendUIRow(mx[x], v); int rc_ = same_uv(name, v); DelUIVector(&v); if(rc_) return rc_; }
  else if(IS("MatrixAppendUICol")){ int x = tk(t); uivector *v = mk_uv(t); MatrixAppendUICol(mx[x], v); int rc_ = same_uv(name, v); DelUIVector(&v); if(rc_) return rc_; }
  else if(IS("MatrixDeleteRowAt")){ int x = tk(t), k = tk(t); MatrixDeleteRowAt(mx[x], k); }
  else if(IS("MatrixDeleteColAt")){ int x = tk(t), k = tk(t); MatrixDeleteColAt(mx[x], k); }
  else if(IS("MatrixSort") || IS("MatrixReverseSort")){ int x = tk(t), j = tk(t), rev = IS("MatrixReverseSort"); sorted_slot = x;
    obs_head("SortMx"); fprintf(obs, "\"col\":%d,\"rev\":%d,\"ncol\":%zu,", j, rev, mx[x]->col); obs_mat("pre", mx[x]); fprintf(obs, ",");
    if(rev) MatrixReverseSort(mx[x], j); else MatrixSort(mx[x], j);
    obs_mat("post", mx[x]); fprintf(obs, "}\n"); fflush(obs); }
  else if(IS("MatrixColumnMinMax")){ int x = tk(t); size_t j = ix(tk(t)); double lo = -7.25, hi = -7.25; MatrixColumnMinMax(mx[x], j, &lo, &hi);
    if(!oor){ long wl = tk(t), wh = tk(t); if(!(lo == pal_d(wl) && hi == pal_d(wh))) EXTRA("MatrixColumnMinMax(column %zu) returned min %.17g max %.17g, the column holds min %.17g max %.17g", j, lo, hi, pal_d(wl), pal_d(wh)); }
    /* out of range / no rows: "Get Column Max Min Error" and the missing-value sentinel; any returned value is accepted */ }
  else if(IS("ValInMatrix")){ int x = tk(t); long v = tk(t); int r = ValInMatrix(mx[x], pal_d(v)); long w = tk(t);
    if(r != (int)w) EXTRA("ValInMatrix(%.17g) returned %d, the model says %ld (a cell %s that value)", pal_d(v), r, w, w ? "holds" : "does not hold"); }
  else if(IS("PrintMatrix")){ int x = tk(t); PrintMatrix(mx[x]); }
  /* ---- tensor */
  else if(IS("initTensor")){ int x = tk(t); initTensor(&tn[x]); note_new(tn[x]); }
  else if(IS("NewTensor")){ int x = tk(t), n = tk(t); NewTensor(&tn[x], n); note_new(tn[x]); }
  else if(IS("NewTensorMatrix")){ int x = tk(t), k = tk(t), r = tk(t), c = tk(t); NewTensorMatrix(tn[x], k, r, c); }
  else if(IS("AddTensorMatrix")){ int x = tk(t), r = tk(t), c = tk(t); AddTensorMatrix(tn[x], r, c); }
  else if(IS("DelTensor")){ int x = tk(t); note_free(tn[x]); DelTensor(&tn[x]); tn[x] = NULL; }
  else if(IS("setTensorValue")){ int x = tk(t); size_t k = ix(tk(t)), i = ix(tk(t)), j = ix(tk(t)); long v = tk(t); setTensorValue(tn[x], k, i, j, pal_d(v)); }
  else if(IS("getTensorValue")){ int x = tk(t); size_t k = ix(tk(t)), i = ix(tk(t)), j = ix(tk(t)); double r = getTensorValue(tn[x], k, i, j);
    if(!oor){ long w = tk(t); if(!(r == pal_d(w))){ snprintf(sh->what, sizeof sh->what, "getTensorValue returned %.17g want %.17g", r, pal_d(w)); return RC_MISMATCH; } }
    /* out of range: NaN today, any value accepted (see getMatrixValue) */ }
  else if(IS("TensorAppendMatrix")){ int x = tk(t), r = tk(t), c = tk(t); dimchk(r); dimchk(c); matrix *m; NewMatrix(&m, r, c); for(int i = 0; i < r; i++) for(int j = 0; j < c; j++) opnd_d[i * c + j] = m->data[i][j] = pal_d(tk(t));
    TensorAppendMatrix(tn[x], m);
    int rc_ = 0; if((int)m->row != r || (int)m->col != c){ snprintf(sh->what, sizeof sh->what, "TensorAppendMatrix changed the shape of its operand matrix"); rc_ = RC_MISMATCH; }
    for(int i = 0; i < r && !rc_; i++) for(int j = 0; j < c; j++) if(!(m->data[i][j] == opnd_d[i * c + j])){ snprintf(sh->what, sizeof sh->what, "TensorAppendMatrix changed cell [%d][%d] of its operand matrix", i, j); rc_ = RC_MISMATCH; break; }
    DelMatrix(&m); if(rc_) return rc_; }
  else if(IS("TensorAppendMatrix:own")){ int x = tk(t), k = tk(t); TensorAppendMatrix(tn[x], tn[x]->m[k]); }
  else if(IS("TensorAppendColumn")){ int x = tk(t), k = tk(t); dvector *v = mk_dv(t); TensorAppendColumn(tn[x], k, v); int rc_ = same_dv(name, v); DelDVector(&v); if(rc_) return rc_; }
  else if(IS("TensorSet")){ int x = tk(t); long v = tk(t); TensorSet(tn[x], pal_d(v)); }
  else if(IS("TensorCopy")){ int s = tk(t), d = tk(t); TensorCopy(tn[s], &tn[d]); }
  else if(IS("PrintTensor")){ int x = tk(t); PrintTensor(tn[x]); }
  /* ---- dvectorlist */
  else if(IS("initDVectorList")){ int x = tk(t); initDVectorList(&dl[x]); note_new(dl[x]); }
  else if(IS("NewDVectorList")){ int x = tk(t), n = tk(t); NewDVectorList(&dl[x], n); note_new(dl[x]); }
  else if(IS("NewDVectorListFilled")){ int x = tk(t), n = tk(t); NewDVectorList(&dl[x], n); note_new(dl[x]);
    for(int q = 0; q < n; q++){ int len = tk(t); NewDVector(&dl[x]->d[q], len); for(int i = 0; i < len; i++) dl[x]->d[q]->data[i] = pal_d(tk(t)); } }
  else if(IS("DVectorListAppend")){ int x = tk(t); dvector *v = mk_dv(t); DVectorListAppend(dl[x], v); int rc_ = same_dv(name, v); DelDVector(&v); if(rc_) return rc_; }
  else if(IS("DVectorListAppend:own")){ int x = tk(t), k = tk(t); DVectorListAppend(dl[x], dl[x]->d[k]); }
  else if(IS("DelDVectorList")){ int x = tk(t); note_free(dl[x]); DelDVectorList(&dl[x]); dl[x] = NULL; }
  else { snprintf(sh->what, sizeof sh->what, "script: unknown operation %s", name); _exit(RC_SCRIPT); }
  return 0;
}

/* delete every live container (valid Del* calls appended to the history): exposes double frees */
static void cleanup(void){
  for(int x = 0; x < P; x++){
    if(dv[x]){ snprintf(sh->op, sizeof sh->op, "DelDVector"); DelDVector(&dv[x]); dv[x] = NULL; }
    if(uv[x]){ snprintf(sh->op, sizeof sh->op, "DelUIVector"); DelUIVector(&uv[x]); uv[x] = NULL; }
    if(iv[x]){ snprintf(sh->op, sizeof sh->op, "DelIVector"); DelIVector(&iv[x]); iv[x] = NULL; }
    if(sv[x]){ snprintf(sh->op, sizeof sh->op, "DelStrVector"); DelStrVector(&sv[x]); sv[x] = NULL; }
    if(mx[x]){ snprintf(sh->op, sizeof sh->op, "DelMatrix"); DelMatrix(&mx[x]); mx[x] = NULL; }
    if(tn[x]){ int filled = 1; for(size_t k = 0; k < tn[x]->order; k++) if(!tn[x]->m[k]) filled = 0;
      if(filled){ snprintf(sh->op, sizeof sh->op, "DelTensor"); DelTensor(&tn[x]); } tn[x] = NULL; }   /* NULL layers left by NewTensor(n): not deletable by contract */
    if(dl[x]){ snprintf(sh->op, sizeof sh->op, "DelDVectorList"); DelDVectorList(&dl[x]); dl[x] = NULL; }
  }
}

/* ---------------------------------------------------------------- one history (child process) */
static int run_history(char **lines, int nlines){
  int li = 0;
  while(li < nlines){
    char *line = lines[li];
    if(line[0] != 'O'){ li++; continue; }
    Toks t; t.p = line + 1;
    int step = (int)tk(&t); char *name = tks(&t); char *rel = tks(&t); int oor = (int)tk(&t);
    sh->step = step; snprintf(sh->op, sizeof sh->op, "%s", name); snprintf(sh->rel, sizeof sh->rel, "%s", rel); sh->what[0] = 0;
    int rc = 0;
    sorted_slot = -1;
    if(!oor){
      rc = exec_op(name, 0, &t);
      if(rc) return rc;
    }
    else{
      /* out-of-range accessor: any SAFE outcome is accepted - run it where a clean abort() does not end the history */
      fflush(NULL);
      pid_t pid = fork();
      if(pid < 0){ snprintf(sh->what, sizeof sh->what, "script: fork failed"); _exit(RC_SCRIPT); }
      if(pid == 0){
        rc = exec_op(name, 1, &t);
        if(!rc) rc = compare_all();        /* returned normally: nothing may have changed */
        if(!rc) rc = alias_check();
        fflush(NULL); _exit(rc);
      }
      int st = 0; waitpid(pid, &st, 0);
      if(WIFSIGNALED(st)){
        if(WTERMSIG(st) == SIGABRT) sh->oor_abort++;                       /* clean abort(): sanitizers exit, they do not raise */
        else { snprintf(sh->what, sizeof sh->what, "out-of-range %s killed by signal %d", name, WTERMSIG(st)); return RC_OORSIG; }
      }
      else if(WEXITSTATUS(st) == 0) sh->oor_ret++;
      else if(WEXITSTATUS(st) == 99 || WEXITSTATUS(st) == 98){ snprintf(sh->what, sizeof sh->what, "out-of-range %s touched memory (sanitizer report)", name); return RC_OORSAN; }
      else return WEXITSTATUS(st);       /* mismatch / alias text already in sh->what (shared) */
    }
    sh->ops++;
    li++;
    int sortslot = strcmp(rel, "tie-distinct") == 0 ? sorted_slot : -1;
    while(li < nlines && lines[li][0] == 'E'){ Toks e; e.p = lines[li] + 1; apply_expect(&e); li++; }
    if(sortslot >= 0 && mx[sortslot] && (int)mx[sortslot]->row == xm[sortslot].row && (int)mx[sortslot]->col == xm[sortslot].col){
      /* different rows share the key: any key-ordered permutation is right (TLC judges the observed one); continue from the model's representative */
      for(int i = 0; i < xm[sortslot].row; i++) for(int j = 0; j < xm[sortslot].col; j++) mx[sortslot]->data[i][j] = pal_d(xm[sortslot].c[i][j]);
    }
    if((rc = compare_all())) return rc;
    if((rc = alias_check())) return rc;
  }
  sh->step = sh->nsteps + 1; snprintf(sh->rel, sizeof sh->rel, "cleanup"); sh->what[0] = 0;
  cleanup();
  return 0;
}

/* ---------------------------------------------------------------- parent: one child per history */
static void json_str(FILE *f, const char *s){
  fputc('"', f);
  for(; *s; s++){ unsigned char c = (unsigned char)*s;
    if(c == '"' || c == '\\'){ fputc('\\', f); fputc(c, f); }
    else if(c == '\n') fputs("\\n", f); else if(c == '\t') fputs("\\t", f); else if(c == '\r') fputs("\\r", f);
    else if(c < 0x20 || c >= 0x7f) fprintf(f, "\\u%04x", c);
    else fputc(c, f); }
  fputc('"', f);
}
static char *slurp(const char *path, size_t max){
  FILE *f = fopen(path, "r"); char *b = calloc(1, max + 1); if(!f) return b;
  size_t n = fread(b, 1, max, f); b[n] = 0; fclose(f); return b;
}

int main(int argc, char **argv){
  if(argc < 3){ fprintf(stderr, "usage: c14_replay <script> <out.ndjson> [timeout_s]\n"); return 2; }
  int timeout_s = argc > 3 ? atoi(argv[3]) : 30;
  FILE *in = fopen(argv[1], "r"); if(!in){ perror(argv[1]); return 2; }
  FILE *out = fopen(argv[2], "w"); if(!out){ perror(argv[2]); return 2; }
  char errpath[4096]; snprintf(errpath, sizeof errpath, "%s.err", argv[2]);
  char obspath[4096]; snprintf(obspath, sizeof obspath, "%s.obs", argv[2]); unlink(obspath);
  int hpal = PAL_SMALL;
  sh = mmap(NULL, sizeof(Shared), PROT_READ | PROT_WRITE, MAP_SHARED | MAP_ANONYMOUS, -1, 0);
  if(sh == MAP_FAILED){ perror("mmap"); return 2; }
  char **lines = NULL; int nlines = 0, cap = 0; long hid = -1; int nsteps = 0;
  char *buf = NULL; size_t bcap = 0; ssize_t len; int more = 1;
  while(more){
    len = getline(&buf, &bcap, in);
    if(len < 0) more = 0;
    if(!more || buf[0] == 'H'){
      if(hid >= 0){
        /* run the collected history */
        memset(sh, 0, sizeof *sh); sh->nsteps = nsteps;
        fflush(NULL);
        pid_t pid = fork();
        if(pid < 0){ perror("fork"); return 2; }
        if(pid == 0){
          int efd = open(errpath, O_WRONLY | O_CREAT | O_TRUNC, 0644), nfd = open("/dev/null", O_WRONLY);
          if(efd >= 0) dup2(efd, 2);
          if(nfd >= 0) dup2(nfd, 1);         /* the library reports out-of-range accessors on stdout; Print* write there too */
          obs = fopen(obspath, "a"); if(!obs){ snprintf(sh->what, sizeof sh->what, "script: cannot open %s", obspath); _exit(RC_SCRIPT); }
          cur_hid = hid; pal = hpal;
          int rc = run_history(lines, nlines);
          fflush(NULL); _exit(rc);
        }
        int st = 0, waited = 0;
        for(long ms = 0; ms < timeout_s * 1000L; ms += 2){ pid_t r = waitpid(pid, &st, WNOHANG); if(r == pid){ waited = 1; break; } usleep(ms < 200 ? 500 : 2000); }
        if(!waited){ kill(pid, SIGKILL); waitpid(pid, &st, 0); }
        fprintf(out, "{\"h\":%ld,\"steps\":%d,\"ops\":%d,\"oor_abort\":%d,\"oor_ret\":%d,\"reuse\":%d,\"extras\":[", hid, nsteps, sh->ops, sh->oor_abort, sh->oor_ret, sh->reuse);
        for(int q = 0; q < sh->nextra && q < 4; q++){ if(q) fputc(',', out); json_str(out, sh->extra[q]); }
        fprintf(out, "],");
        int rc = WIFEXITED(st) ? WEXITSTATUS(st) : -1;
        if(waited && rc == 0) fprintf(out, "\"res\":\"ok\"}\n");
        else{
          const char *res = !waited ? "timeout" : rc == RC_MISMATCH ? "mismatch" : rc == RC_ALIAS ? "alias" : (rc == 99 || rc == 98 || rc == RC_OORSAN) ? "san"
                          : rc == RC_OORSIG ? "signal" : rc == RC_SCRIPT ? "script" : (WIFSIGNALED(st) && WTERMSIG(st) == SIGABRT) ? "abort" : WIFSIGNALED(st) ? "signal" : "exit";
          char *err = slurp(errpath, 12000);
          fprintf(out, "\"res\":\"%s\",\"rc\":%d,\"sig\":%d,\"step\":%d,\"op\":", res, rc, WIFSIGNALED(st) ? WTERMSIG(st) : 0, sh->step);
          json_str(out, sh->op); fprintf(out, ",\"rel\":"); json_str(out, sh->rel); fprintf(out, ",\"what\":"); json_str(out, sh->what);
          fprintf(out, ",\"err\":"); json_str(out, err); fprintf(out, "}\n"); free(err);
        }
        fflush(out);
        for(int i = 0; i < nlines; i++) free(lines[i]);
        nlines = 0; nsteps = 0;
      }
      if(more){ char *rest = NULL; hid = strtol(buf + 1, &rest, 10);
        hpal = strstr(rest, "huge") ? PAL_HUGE : strstr(rest, "frac") ? PAL_FRAC : PAL_SMALL; }
      continue;
    }
    if(strncmp(buf, "NUM ", 4) == 0){
      char *tok[5]; int n = split(buf, tok, 5);
      if(n == 4){ long id = strtol(tok[1], NULL, 10); if(id >= 0 && id < NSTR){
          int len; char *txt;
          if(tok[2][0] == 'd'){ numd[id] = strtod(tok[3], NULL); numkind[id] = 'd'; len = snprintf(NULL, 0, "%f", numd[id]); txt = calloc(1, (size_t)len + 1); snprintf(txt, (size_t)len + 1, "%f", numd[id]); }
          else { numi[id] = (int)strtol(tok[3], NULL, 10); numkind[id] = 'i'; len = snprintf(NULL, 0, "%d", numi[id]); txt = calloc(1, (size_t)len + 1); snprintf(txt, (size_t)len + 1, "%d", numi[id]); }
          strtab[id] = txt; } }
      continue;
    }
    if(strncmp(buf, "STR ", 4) == 0){
      char *tok[4]; int n = split(buf, tok, 4);
      if(n == 3){ long id = strtol(tok[1], NULL, 10); if(id >= 0 && id < NSTR){ size_t hl = strcmp(tok[2], "-") == 0 ? 0 : strlen(tok[2]) / 2; char *s = calloc(1, hl + 1);
          for(size_t i = 0; i < hl; i++){ unsigned v; sscanf(tok[2] + 2 * i, "%2x", &v); s[i] = (char)v; } strtab[id] = s; } }
      continue;
    }
    if(hid >= 0 && (buf[0] == 'O' || buf[0] == 'E')){
      if(nlines == cap){ cap = cap ? cap * 2 : 256; lines = realloc(lines, sizeof(char*) * cap); }
      lines[nlines++] = strdup(buf);
      if(buf[0] == 'O') nsteps++;
    }
  }
  unlink(errpath);
  fclose(out); fclose(in);
  return 0;
}
