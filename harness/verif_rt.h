/* verif_rt.h - runtime shared by the conformance harnesses (header-only).
 *  - ndjson event emitter (mutex + global sequence number, never wall clock)
 *  - quantisers for residuals (saturating 32-bit integers TLC can read)
 *  - seeded generator independent of the library's own RNG
 *  - processor-count override (hook H2), iteration budget (hook H4)
 *  - child-process runner with watchdog
 */
#ifndef VERIF_RT_H
#define VERIF_RT_H
/* scientificinfo.h has `typedef int ssignal;`, glibc's <signal.h> declares a function ssignal(): rename glibc's */
#define ssignal vrt_glibc_ssignal
#include <stdio.h>
#include <stdlib.h>
#include <string.h>
#include <stdint.h>
#include <math.h>
#include <pthread.h>
#include <unistd.h>
#include <sys/types.h>
#include <sys/wait.h>
#include <signal.h>
#undef ssignal
#include "verif_hooks.h"

#define VQ_MAX 2000000000L

static FILE *vrt_out = NULL;
static pthread_mutex_t vrt_mu = PTHREAD_MUTEX_INITIALIZER;
static long vrt_seq = 0;

static inline void vrt_open(const char *path){
  vrt_out = path ? fopen(path, "w") : stdout;
  if(!vrt_out){ perror("vrt_open"); exit(2); }
  setvbuf(vrt_out, NULL, _IOLBF, 0);   /* line buffered: a crashing child still leaves complete lines */
}
static inline void vrt_close(void){ if(vrt_out && vrt_out != stdout) fclose(vrt_out); vrt_out = NULL; }

/* printf-style event line; caller supplies a complete JSON object */
#define VRT_EMIT(...) do{ pthread_mutex_lock(&vrt_mu); vrt_seq++; fprintf(vrt_out, __VA_ARGS__); fputc('\n', vrt_out); pthread_mutex_unlock(&vrt_mu); }while(0)

/* residual x >= 0 in units of `unit`, saturating; NaN/Inf -> VQ_MAX */
static inline long vq_unit(double x, double unit){
  if(!(x == x) || isinf(x)) return VQ_MAX;
  x = fabs(x) / unit;
  if(x >= (double)VQ_MAX) return VQ_MAX;
  return (long)ceil(x);
}
static inline long vq12(double x){ return vq_unit(x, 1e-12); }
static inline long vq9(double x){ return vq_unit(x, 1e-9); }
/* signed value rounded to nearest in units of `unit`, saturating */
static inline long vqs_unit(double x, double unit){
  if(!(x == x)) return VQ_MAX;
  x = x / unit;
  if(x >= (double)VQ_MAX) return VQ_MAX;
  if(x <= -(double)VQ_MAX) return -VQ_MAX;
  return (long)llround(x);
}
static inline int vfinite(double x){ return (x == x) && !isinf(x); }

/* order-preserving 3-limb code of a double (21+21+22 bits), compared lexicographically in TLA+ */
static inline void vcode3(double d, long out[3]){
  uint64_t u; memcpy(&u, &d, 8);
  if(u >> 63) u = ~u; else u |= 0x8000000000000000ULL;
  out[0] = (long)(u >> 43); out[1] = (long)((u >> 22) & 0x1FFFFF); out[2] = (long)(u & 0x3FFFFF);
}

/* splitmix64 - the harness's own generator */
typedef struct { uint64_t s; } vrng;
static inline uint64_t vr_next(vrng *r){ uint64_t z = (r->s += 0x9E3779B97F4A7C15ULL); z = (z ^ (z >> 30)) * 0xBF58476D1CE4E5B9ULL; z = (z ^ (z >> 27)) * 0x94D049BB133111EBULL; return z ^ (z >> 31); }
static inline double vr_unif(vrng *r){ return (double)(vr_next(r) >> 11) / 9007199254740992.0; }
static inline long vr_int(vrng *r, long lo, long hi){ return lo + (long)(vr_next(r) % (uint64_t)(hi - lo + 1)); }
static inline double vr_norm(vrng *r){ double u = vr_unif(r), v = vr_unif(r); if(u < 1e-300) u = 1e-300; return sqrt(-2.0 * log(u)) * cos(6.283185307179586 * v); }

#ifdef LIBSCIENTIFIC_VERIF
/* H2: processor count override */
static size_t vrt_nproc_value = 1;
static size_t vrt_nproc_cb(size_t detected){ (void)detected; return vrt_nproc_value; }
static inline void vrt_force_nproc(size_t n){ vrt_nproc_value = n; libsci_verif_nproc = n ? vrt_nproc_cb : 0; }

/* H4: iteration budget; on overrun emit Diverge and leave the (child) process */
static long vrt_iter_budget = 1000000, vrt_iter_count = 0; static size_t vrt_iter_comp = (size_t)-1; static const char *vrt_iter_site = "";
static int vrt_iter_log = 0;
static inline const char *vcls(double x){ if(!(x == x)) return "NaN"; if(isinf(x)) return "Inf"; if(x == 0.0) return "Zero"; return "Fin"; }
static void vrt_iter_cb(const char *site, size_t comp, double a, double b, double conv){
  if(comp != vrt_iter_comp || site != vrt_iter_site){ vrt_iter_comp = comp; vrt_iter_site = site; vrt_iter_count = 0; }
  vrt_iter_count++;
  if(site[0] == 'L') vrt_iter_count = (long)comp + 1;   /* LVCalc passes its pass index as `comp`: that IS the iteration count */
  if(vrt_iter_log && vrt_out && (vrt_iter_count <= 3 || vrt_iter_count == vrt_iter_budget))
    VRT_EMIT("{\"e\":\"Iter\",\"site\":\"%s\",\"comp\":%zu,\"it\":%ld,\"a\":\"%s\",\"b\":\"%s\",\"conv\":\"%s\"}", site, comp, vrt_iter_count, vcls(a), vcls(b), vcls(conv));
  if(vrt_iter_count >= vrt_iter_budget){
    if(vrt_out){ VRT_EMIT("{\"e\":\"Diverge\",\"site\":\"%s\",\"comp\":%zu,\"it\":%ld,\"a\":\"%s\",\"b\":\"%s\",\"conv\":\"%s\"}", site, comp, vrt_iter_count, vcls(a), vcls(b), vcls(conv)); fflush(vrt_out); }
    _exit(97);
  }
}
static inline void vrt_install_iter_budget(long budget, int log){ vrt_iter_budget = budget; vrt_iter_log = log; vrt_iter_comp = (size_t)-1; libsci_verif_iter = vrt_iter_cb; }
#endif

/* run fn(arg) in a forked child under a wall-clock watchdog.
 * returns: 0 child exit 0; 97 iteration budget; 124 watchdog; 1000+sig killed by signal; else exit status */
typedef int (*vrt_child_fn)(void *);
static inline int vrt_run_child(vrt_child_fn fn, void *arg, int timeout_s){
  fflush(NULL);
  pid_t pid = fork();
  if(pid < 0){ perror("fork"); exit(2); }
  if(pid == 0){ int rc = fn(arg); fflush(NULL); _exit(rc); }
  int status = 0, waited = 0;
  for(int ms = 0; ms < timeout_s * 1000; ms += 5){
    pid_t r = waitpid(pid, &status, WNOHANG);
    if(r == pid){ waited = 1; break; }
    usleep(5000);
  }
  if(!waited){ kill(pid, SIGKILL); waitpid(pid, &status, 0); return 124; }
  if(WIFSIGNALED(status)) return 1000 + WTERMSIG(status);
  return WEXITSTATUS(status);
}
#endif
