/* pls_common.h - shared by c03_drv.c / c04_drv.c / c07_drv.c (include after scientific.h and verif_rt.h).
 *  - self-declared LAPACK prototypes (dgesdd singular values, dgels least squares): independent oracles, never
 *    reached through the library's own wrappers
 *  - in-quantifier data generator for regression problems (full column rank X, correlated / differently scaled /
 *    non-constant responses, unseen objects), one independent RNG stream per (seed, case index)
 *  - small dense helpers written independently of the library
 */
#ifndef PLS_COMMON_H
#define PLS_COMMON_H

extern void dgesdd_(char *jobz, int *m, int *n, double *a, int *lda, double *s, double *u, int *ldu, double *vt, int *ldvt,
                    double *work, int *lwork, int *iwork, int *info);
extern void dgels_(char *trans, int *m, int *n, int *nrhs, double *a, int *lda, double *b, int *ldb, double *work, int *lwork, int *info);

/* singular values of the m x n matrix given by rows A[i][j]; s must hold min(m,n); returns 0 on success */
static int pc_svals(double **A, int m, int n, double *s){
  double *a = malloc(sizeof(double) * (size_t)m * n);
  for(int i = 0; i < m; i++) for(int j = 0; j < n; j++) a[(size_t)j * m + i] = A[i][j];
  int mn = m < n ? m : n, lda = m, one = 1, info = 0, lwork = -1;
  int *iwork = malloc(sizeof(int) * 8 * (size_t)mn);
  double wq = 0, dum = 0; char N = 'N';
  dgesdd_(&N, &m, &n, a, &lda, s, &dum, &one, &dum, &one, &wq, &lwork, iwork, &info);
  lwork = (int)wq + 16;
  double *work = malloc(sizeof(double) * (size_t)lwork);
  dgesdd_(&N, &m, &n, a, &lda, s, &dum, &one, &dum, &one, work, &lwork, iwork, &info);
  free(work); free(iwork); free(a);
  return info;
}

/* least squares by LAPACK: D (m x k, rows) , Yt (m x nrhs, rows) -> B (k x nrhs, rows).  returns 0 on success */
static int pc_dgels(double **D, int m, int k, double **Yt, int nrhs, double **B){
  double *a = malloc(sizeof(double) * (size_t)m * k), *b = malloc(sizeof(double) * (size_t)m * nrhs);
  for(int i = 0; i < m; i++) for(int j = 0; j < k; j++) a[(size_t)j * m + i] = D[i][j];
  for(int i = 0; i < m; i++) for(int j = 0; j < nrhs; j++) b[(size_t)j * m + i] = Yt[i][j];
  int lda = m, ldb = m, info = 0, lwork = -1; double wq = 0; char T = 'N';
  dgels_(&T, &m, &k, &nrhs, a, &lda, b, &ldb, &wq, &lwork, &info);
  lwork = (int)wq + 16;
  double *work = malloc(sizeof(double) * (size_t)lwork);
  dgels_(&T, &m, &k, &nrhs, a, &lda, b, &ldb, work, &lwork, &info);
  for(int i = 0; i < k; i++) for(int j = 0; j < nrhs; j++) B[i][j] = b[(size_t)j * m + i];
  free(work); free(a); free(b);
  return info;
}

static double **pc_alloc(int r, int c){
  double **m = malloc(sizeof(double *) * (size_t)(r > 0 ? r : 1));
  for(int i = 0; i < r; i++) m[i] = calloc((size_t)(c > 0 ? c : 1), sizeof(double));
  return m;
}
static void pc_free(double **m, int r){ for(int i = 0; i < r; i++) free(m[i]); free(m); }
static double pc_coldot(double **A, int ca, double **B, int cb, int n){ double s = 0; for(int i = 0; i < n; i++) s += A[i][ca] * B[i][cb]; return s; }
static double pc_colnorm(double **A, int c, int n){ return sqrt(pc_coldot(A, c, A, c, n)); }
static double pc_colmean(double **A, int c, int n){ double s = 0; for(int i = 0; i < n; i++) s += A[i][c]; return s / n; }
/* norm of the centred column (sqrt of the total sum of squares about the mean) */
static double pc_colcnorm(double **A, int c, int n){ double m = pc_colmean(A, c, n), s = 0; for(int i = 0; i < n; i++) s += (A[i][c] - m) * (A[i][c] - m); return sqrt(s); }

/* residual quantiser that also keeps the largest value seen per identity (printed as an "M name=value ..." line on stdout
 * at the end of each case: calibration record for the evidence file, not used for any decision) */
#define PC_NMAX 32
static double pc_max[PC_NMAX]; static const char *pc_maxname[PC_NMAX]; static int pc_nmax = 0;
static long pc_q12(const char *name, double x){
  int i; for(i = 0; i < pc_nmax; i++) if(!strcmp(pc_maxname[i], name)) break;
  if(i == pc_nmax && pc_nmax < PC_NMAX){ pc_maxname[i] = name; pc_max[i] = 0; pc_nmax++; }
  if(i < PC_NMAX){ double ax = (x == x) ? fabs(x) : INFINITY; if(ax > pc_max[i]) pc_max[i] = ax; }
  return vq12(x);
}
static void pc_max_print(void){
  if(!pc_nmax) return;
  printf("M"); for(int i = 0; i < pc_nmax; i++) printf(" %s=%.3e", pc_maxname[i], pc_max[i]); printf("\n"); fflush(stdout);
}

/* one independent stream per (seed, index) */
static vrng pc_stream(unsigned long seed, unsigned long idx, unsigned long salt){
  vrng r; r.s = seed * 0x9E3779B97F4A7C15ULL ^ (idx + 1) * 0xD1B54A32D192ED03ULL ^ salt * 0x8CB92BA72F3D8DD7ULL;
  vr_next(&r); vr_next(&r); return r;
}

/* ---- regression problem inside the quantifiers of C03 / C04 / C07 ------------------------------------------------- */
typedef struct {
  int n, p, ny, nnew;        /* objects, variables, responses, unseen objects */
  int xs, ys;                /* scaling options (PLS); ignored by MLR */
  int noise;                 /* 0 exact linear, 1 small, 2 comparable, 3 dominant */
  int intcase;               /* integer-valued X and Y */
  matrix *X, *Y, *Xn, *Yn;
} pc_case;

static const double PC_NOISE[4] = {0.0, 0.05, 0.7, 6.0};

static void pc_case_free(pc_case *c){ DelMatrix(&c->X); DelMatrix(&c->Y); DelMatrix(&c->Xn); DelMatrix(&c->Yn); }

/* real-valued problem.  Columns of X: unit gaussian + one common factor (correlation), own scale 10^U(slo,shi) and offset;
 * responses: linear in the standardised predictors + gaussian noise, some responses made nearly collinear with the first,
 * own scale/offset.  xoff / yoff bound |offset| in units of the column's spread. */
static void pc_gen_real(pc_case *c, vrng *r, double slo, double shi, double xoff, double yoff){
  int n = c->n, p = c->p, ny = c->ny, m = c->nnew, N = n + m;
  NewMatrix(&c->X, n, p); NewMatrix(&c->Y, n, ny); NewMatrix(&c->Xn, m > 0 ? m : 1, p); NewMatrix(&c->Yn, m > 0 ? m : 1, ny);
  double **Z = pc_alloc(N, p);
  double rho = (double[]){0.0, 0.6, 2.0}[vr_int(r, 0, 2)];
  double *l = malloc(sizeof(double) * p), *f = malloc(sizeof(double) * N);
  for(int j = 0; j < p; j++) l[j] = 2 * vr_unif(r) - 1;
  for(int i = 0; i < N; i++) f[i] = vr_norm(r);
  for(int i = 0; i < N; i++) for(int j = 0; j < p; j++) Z[i][j] = vr_norm(r) + rho * f[i] * l[j];
  for(int j = 0; j < p; j++){
    double s = pow(10.0, slo + (shi - slo) * vr_unif(r)), o = s * xoff * (2 * vr_unif(r) - 1);
    for(int i = 0; i < N; i++){ double v = o + s * Z[i][j]; if(i < n) c->X->data[i][j] = v; else c->Xn->data[i - n][j] = v; }
  }
  double *b0 = malloc(sizeof(double) * p), *b = malloc(sizeof(double) * p);
  for(int k = 0; k < ny; k++){
    double nb = 0;
    for(int j = 0; j < p; j++) b[j] = vr_norm(r);
    if(k == 0) memcpy(b0, b, sizeof(double) * p);
    else if(vr_int(r, 0, 1)) for(int j = 0; j < p; j++) b[j] = b0[j] + 0.3 * b[j];      /* correlated with the first response */
    for(int j = 0; j < p; j++) nb += b[j] * b[j];
    nb = sqrt(nb); if(nb < 1e-3) nb = 1;
    double s = pow(10.0, -1.0 + 3.0 * vr_unif(r)), o = s * yoff * (2 * vr_unif(r) - 1);
    for(int i = 0; i < N; i++){
      double v = 0; for(int j = 0; j < p; j++) v += Z[i][j] * b[j] / nb;
      v += PC_NOISE[c->noise] * vr_norm(r);
      v = o + s * v;
      if(i < n) c->Y->data[i][k] = v; else c->Yn->data[i - n][k] = v;
    }
  }
  free(b0); free(b); free(l); free(f); pc_free(Z, N);
}

/* integer-valued problem: X in -xr..xr, Y = round(linear + noise) clipped to -yr..yr */
static void pc_gen_int(pc_case *c, vrng *r, int xr, int yr){
  int n = c->n, p = c->p, ny = c->ny, m = c->nnew, N = n + m;
  NewMatrix(&c->X, n, p); NewMatrix(&c->Y, n, ny); NewMatrix(&c->Xn, m > 0 ? m : 1, p); NewMatrix(&c->Yn, m > 0 ? m : 1, ny);
  double **Z = pc_alloc(N, p);
  for(int i = 0; i < N; i++) for(int j = 0; j < p; j++){ Z[i][j] = (double)vr_int(r, -xr, xr); if(i < n) c->X->data[i][j] = Z[i][j]; else c->Xn->data[i - n][j] = Z[i][j]; }
  for(int k = 0; k < ny; k++){
    double o = (double)vr_int(r, -yr / 2, yr / 2);
    double *b = malloc(sizeof(double) * p); for(int j = 0; j < p; j++) b[j] = (double)vr_int(r, -2, 2);
    for(int i = 0; i < N; i++){
      double v = o; for(int j = 0; j < p; j++) v += Z[i][j] * b[j];
      v += (c->noise ? (double)vr_int(r, -2 * c->noise, 2 * c->noise) : 0.0);
      if(v > yr) v = yr; if(v < -yr) v = -yr;
      if(i < n) c->Y->data[i][k] = v; else c->Yn->data[i - n][k] = v;
    }
    free(b);
  }
  pc_free(Z, N);
}

/* admission test for PLS cases: every scale factor the chosen option will use is far from the library's zero-scale guards
 * (1e-3 fit / 1e-2 apply: C10's business), responses non-constant, preprocessed X of full column rank with cond <= maxcond.
 * Returns 1 if admitted; *cond receives sigma_max/sigma_min of the preprocessed X. */
static int pc_admit_block_skip(matrix *M, int scaling, long skip){
  for(size_t j = 0; j < M->col; j++){
    if((long)j == skip) continue;
    double mean = 0, mn = M->data[0][j], mx = M->data[0][j], ss = 0;
    for(size_t i = 0; i < M->row; i++){ double v = M->data[i][j]; mean += v; if(v < mn) mn = v; if(v > mx) mx = v; }
    mean /= M->row;
    for(size_t i = 0; i < M->row; i++) ss += (M->data[i][j] - mean) * (M->data[i][j] - mean);
    double sd = sqrt(ss / (M->row - 1));
    if(!(sd >= 0.05) || !(mx - mn >= 0.05)) return 0;                     /* non-constant, and sd / sqrt(sd) / range >= 0.05 */
    if(scaling == 5 && !(fabs(mean) >= 0.1)) return 0;                    /* level scaling divides by the mean */
    if(scaling == 5 && !(sd / fabs(mean) >= 1e-3)) return 0;
    if(scaling == 2){ double rms = sqrt((ss + M->row * mean * mean) / M->row); if(!(rms >= 0.05)) return 0; }
    for(size_t i = 0; i < M->row; i++) if(fabs(M->data[i][j]) > 1e7) return 0;   /* far from the MISSING sentinel 99999999 */
  }
  return 1;
}
static int pc_admit_block(matrix *M, int scaling){ return pc_admit_block_skip(M, scaling, -1); }
static int pc_admit(pc_case *c, double maxcond, double *cond){
  if(!pc_admit_block(c->X, c->xs) || !pc_admit_block(c->Y, c->ys)) return 0;
  matrix *X0; dvector *a, *s; NewMatrix(&X0, c->n, c->p); initDVector(&a); initDVector(&s);
  MatrixPreprocess(c->X, c->xs, a, s, X0);
  double *sv = malloc(sizeof(double) * (size_t)(c->p < c->n ? c->p : c->n));
  int info = pc_svals(X0->data, c->n, c->p, sv), ok = 0;
  if(info == 0 && c->p <= c->n && sv[c->p - 1] > 0 && sv[0] / sv[c->p - 1] <= maxcond){ ok = 1; *cond = sv[0] / sv[c->p - 1]; }
  free(sv); DelMatrix(&X0); DelDVector(&a); DelDVector(&s);
  return ok;
}

/* apply stored centring/scaling the way the documentation says: (x - avg) / scale, absent vectors = identity */
static double pc_prep(double v, dvector *avg, dvector *scal, size_t j){
  if(avg->size > 0) v -= avg->data[j];
  if(scal->size > 0) v /= scal->data[j];
  return v;
}
static double pc_back(double v, dvector *avg, dvector *scal, size_t j){
  if(scal->size > 0) v *= scal->data[j];
  if(avg->size > 0) v += avg->data[j];
  return v;
}
#endif
