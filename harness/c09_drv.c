/* c09_drv.c - conformance driver for C09 (CPCA super scores = PCA scores of the block-scaled concatenation).
 *
 * usage: c09_drv <out.ndjson> sweep <seed> <count> <nproc>                         random bulk (the original classes)
 *        c09_drv <out.ndjson> one <mseed> <n> <scaling> <npc> <dec> <nproc> <B> w_1 .. w_B      (legacy replay: no class features)
 *        c09_drv <out.ndjson> job <mseed> <n> <scaling> <npc> <dec> <nproc> <B> w_1..w_B <cc> <off> bm_1..bm_B <hist> <sized> <deg>
 *        c09_drv <out.ndjson> jobs <file>      one "job" argument list per line (the stratified classes planned by the check from CpcaGen.tla)
 *        c09_drv <out.ndjson> refit <file>     same job lines; for each: CPCA() twice into the SAME model object (history outside the statement
 *                                              of C09: reported as EXTRA-FINDING only, validated by TraceCpca in a separate trace)
 *
 * Data: the block-scaled concatenation Z (n x sum w_b) is built from a known SVD with a separated leading spectrum
 * (ratios 0.2..0.85, then an unseparated tail) as in c02_drv; block b is X_b = Z_b * sqrt(w_b) + offsets, so for
 * scaling 0 the blocks "preprocessed identically, each divided by sqrt(#variables), concatenated" are exactly Z.
 * Reference for every scaling: the harness preprocesses each block with MatrixPreprocess, divides by sqrt(w_b),
 * concatenates, and takes the eigen-decomposition of C'C from a long-double cyclic Jacobi solver cross-checked with
 * LAPACK dsyev (prototype declared here).  The library's own PCA() on C is logged as a second, looser comparison.
 *
 * Class features of a job (INPUT-CLASSES.md; all inside the quantifier of C09, everything else is Dropped and counted):
 *   cc    0 none; 1..6 one (sometimes two) CONSTANT variable(s) inside block(s) of width >= 2 at the value 0.1, 1/3, 0.007, 2.5, 0, -0.3
 *         (x the data decade): K5 (non-representable: sum/n is one ulp off the value) / K8; 7 = a whole block is constant (K8)
 *   off   0: column offsets 10^(-1..2) x decade (as before); k > 0: offsets +-(1..10) x 10^k x decade, i.e. |mean|/spread ~ 10^k..10^(k+1.5) (K3)
 *   bm    per-block magnitude: block b (values, offsets, constants) is multiplied by 10^bm_b (K4: blocks in different unit systems)
 *   hist  1: other CPCA fits + projections run in the SAME process before the fit under test (same shape with other data, then another shape; all
 *         freed, so with quarantine off their addresses are reused), and after one more foreign fit the data set is fitted again into a fresh
 *         model (event Again) (K7)
 *   sized CPCAScorePredictor writes into an output that is already sized and holds other data: 1 same shape, 2 larger, 3 smaller (K7)
 *   deg   1 two identical objects, 2 a duplicated variable inside a block, 3 the same variable in two blocks (K8: exact ties in the start-column
 *         rule, rank deficiency)
 *   nproc forced processor count (hook H2); the slice hook (H3) records how the MT kernel cut every vector length it was given (K6)
 *
 * Events (integers; 1e-9 units unless stated):
 *   Reset{}
 *   Fit{seed,n,blocks,widths[],scaling,npc,dec,nproc,diffw,cc,off,bm[],hist,sized,deg}
 *   Spectrum{sig2[]}            eigenvalues of C'C relative to the largest (npc+1 leading)
 *   Shares{share[],nz[]}        (ss_b / w_b) / sum: weight of block b in the total variance; nz_b = 1 iff block b has a positive sum of squares
 *   Oracle{err}                 Jacobi vs dsyev, relative to lambda_1 (1e-12 units)
 *   Proj{rows,cols,order,brows,bcols}   shapes CPCAScorePredictor left in its outputs (super scores; block-score tensor order and layer shape)
 *   Mt{nproc,calls}             calls of the threaded kernel during the CPCA() under test (0 when nproc = 1: the kernel redirects)
 *   Slices{len,np,fr[],to[]}    first slicing seen for each distinct vector length (only when nproc > 1)
 *   Iters{its[]}                NIPALS passes per component of the CPCA() under test (hook H4)
 *   Cpca{k,totalVar,blockVar[],blockRef[],superErr,wnorm,reproj,reprojB}
 *                               total_expvar/100, block_expvar/100, 1-|E_b^(k)|^2/|E_b|^2 recomputed from super scores and
 *                               block loadings, |t - T w|/|t| (1e-12), | |w|-1 | (1e-12), CPCAScorePredictor(training) vs t, predicted block scores
 *                               vs the model's block scores (relative to |T_k|)
 *   Proj2{req,rows,cols,err[]}  a further projection of the training tensor asking for req components (1 when npc >= 2; npc + 3): shape left in the
 *                               output and, per returned component, the relative distance to the model's super score
 *   Truth{k,dist,tvErr,blockTruth[]}   super score vs +-oracle score (relative); total_expvar vs lambda_k/trace (relative); share of block b's sum of
 *                               squares inside the span of the first k ORACLE scores (independent of the model's scores and loadings)
 *   PcaRef{k,varexp,dist}       library PCA on C: its explained variance/100, distance of its score k to the super score
 *   Scale{kexp,terr[],verr[],berr[]}   scaling 0 only: CPCA(2^kexp * X) against CPCA(X): normalised super scores (relative distance),
 *                               total explained variances (relative), block explained variances (absolute, 1e-9) per component
 *   Again{terr[],verr[],bit}    hist only: the same data fitted again into a fresh model after a foreign fit: normalised super scores (relative
 *                               distance), total explained variance (relative), bit = 1 iff every stored number is bitwise the same
 *   Refit{shape,terr[],verr[],berr[]}   refit mode only: second CPCA() into the used model against the first
 *   Abort{rc,why}  Dropped{why}
 * Data magnitude: for scaling 0 (centring only - the one option of the quantifier that does not normalise the magnitude) the decade
 * of the data runs over 1e-8..1e6 and the paired run rescales by an exact power of two between 2^-27 and 2^27; for scalings 1..5 the
 * decade stays in 1..1e3 (smaller magnitudes fall under the library's zero-scale guard: C10/C18 territory).
 */
#include "scientific.h"
#include "verif_rt.h"

extern void dsyev_(char *jobz, char *uplo, int *n, double *a, int *lda, double *w, double *work, int *lwork, int *info);
typedef long double ld;
#define MAXB 4
#define MAXW 8
#define F9_HI 1.2e-2

typedef struct { long mseed; int n, B, w[MAXB], scaling, npc, dec, nproc; int cc, off, bm[MAXB], hist, sized, deg; long budget; } cjob;
typedef struct { int r; int isconst[MAXB][MAXW]; int nconst; int infeasible; ld sig[64]; } dinfo;

static const double CVAL[8] = { 0.0, 0.1, 1.0 / 3.0, 0.007, 2.5, 0.0, -0.3, 0.0 };

static void rand_orth(vrng *r, int rows, int cols, int ones, ld *Q)
{
  for(int j = 0; j < cols; j++){
    for(int attempt = 0; attempt < 20; attempt++){
      for(int i = 0; i < rows; i++) Q[i * cols + j] = vr_norm(r);
      for(int pass = 0; pass < 3; pass++){
        if(ones){ ld m = 0; for(int i = 0; i < rows; i++) m += Q[i * cols + j]; m /= rows; for(int i = 0; i < rows; i++) Q[i * cols + j] -= m; }
        for(int q = 0; q < j; q++){ ld d = 0; for(int i = 0; i < rows; i++) d += Q[i * cols + j] * Q[i * cols + q]; for(int i = 0; i < rows; i++) Q[i * cols + j] -= d * Q[i * cols + q]; }
      }
      ld nn = 0; for(int i = 0; i < rows; i++) nn += Q[i * cols + j] * Q[i * cols + j];
      if(nn > 1e-6L){ nn = sqrtl(nn); for(int i = 0; i < rows; i++) Q[i * cols + j] /= nn; break; }
    }
  }
}

static void jacobi_eig(int c, ld *A, ld *w, ld *Vv)
{
  for(int i = 0; i < c; i++) for(int j = 0; j < c; j++) Vv[i * c + j] = (i == j);
  ld tot = 0; for(int i = 0; i < c * c; i++) tot += A[i] * A[i];
  for(int sweep = 0; sweep < 200; sweep++){
    ld off = 0; for(int i = 0; i < c; i++) for(int j = i + 1; j < c; j++) off += A[i * c + j] * A[i * c + j];
    if(off <= tot * 1e-38L || off == 0) break;
    for(int p = 0; p < c; p++) for(int q = p + 1; q < c; q++){
      ld apq = A[p * c + q]; if(apq == 0) continue;
      ld theta = (A[q * c + q] - A[p * c + p]) / (2 * apq);
      ld t = (theta >= 0 ? 1 : -1) / (fabsl(theta) + sqrtl(theta * theta + 1));
      ld cs = 1 / sqrtl(t * t + 1), sn = t * cs;
      for(int k = 0; k < c; k++){ ld akp = A[k * c + p], akq = A[k * c + q]; A[k * c + p] = cs * akp - sn * akq; A[k * c + q] = sn * akp + cs * akq; }
      for(int k = 0; k < c; k++){ ld apk = A[p * c + k], aqk = A[q * c + k]; A[p * c + k] = cs * apk - sn * aqk; A[q * c + k] = sn * apk + cs * aqk; }
      for(int k = 0; k < c; k++){ ld vkp = Vv[k * c + p], vkq = Vv[k * c + q]; Vv[k * c + p] = cs * vkp - sn * vkq; Vv[k * c + q] = sn * vkp + cs * vkq; }
    }
  }
  for(int i = 0; i < c; i++) w[i] = A[i * c + i];
  for(int i = 0; i < c; i++){ int b = i; for(int j = i + 1; j < c; j++) if(w[j] > w[b]) b = j;
    if(b != i){ ld tw = w[i]; w[i] = w[b]; w[b] = tw; for(int k = 0; k < c; k++){ ld tv = Vv[k * c + i]; Vv[k * c + i] = Vv[k * c + b]; Vv[k * c + b] = tv; } } }
}

static int lapack_eigvals(int c, const ld *G, double *w)
{
  int n = c, lda = c, info = 0, lwork = -1; double wk; char jobz = 'N', uplo = 'U';
  double *a = malloc(sizeof(double) * c * c);
  for(int i = 0; i < c * c; i++) a[i] = (double)G[i];
  dsyev_(&jobz, &uplo, &n, a, &lda, w, &wk, &lwork, &info);
  lwork = (int)wk + 32; double *work = malloc(sizeof(double) * lwork);
  dsyev_(&jobz, &uplo, &n, a, &lda, w, work, &lwork, &info);
  free(work); free(a);
  return info;
}

/* min over sign of |a -+ b| / |b| */
static double dist_pm(const double *a, const ld *b, int n)
{
  ld dp = 0, dm = 0, nb = 0;
  for(int i = 0; i < n; i++){ dp += (a[i] - b[i]) * (a[i] - b[i]); dm += (a[i] + b[i]) * (a[i] + b[i]); nb += b[i] * b[i]; }
  if(!(nb > 0)) return 2.0;
  return sqrt((double)((dp < dm ? dp : dm) / nb));
}

/* relative distance of two score columns after normalisation, sign-free */
static double dist_norm(matrix *a, matrix *b, int k, int n)
{
  ld na = 0, nb2 = 0; for(int i = 0; i < n; i++){ na += (ld)a->data[i][k] * a->data[i][k]; nb2 += (ld)b->data[i][k] * b->data[i][k]; }
  if(!(na > 0) || !(nb2 > 0)) return 2.0;
  na = sqrtl(na); nb2 = sqrtl(nb2); ld dp = 0, dm = 0;
  for(int i = 0; i < n; i++){ ld x = a->data[i][k] / na, y = b->data[i][k] / nb2; dp += (x - y) * (x - y); dm += (x + y) * (x + y); }
  return sqrt((double)(dp < dm ? dp : dm));
}

/* ------------------------------------------------------------------------------------------------ data of one job */
static tensor *build_data(const cjob *jb, dinfo *di)
{
  int n = jb->n, B = jb->B, npc = jb->npc, M = 0, coff[MAXB + 1];
  for(int b = 0; b < B; b++){ coff[b] = M; M += jb->w[b]; } coff[B] = M;
  memset(di, 0, sizeof(*di));
  vrng rg; rg.s = (uint64_t)jb->mseed * 0x9E3779B97F4A7C15ULL + 4242u; for(int i = 0; i < 4; i++) vr_next(&rg);
  vrng r2; r2.s = (uint64_t)jb->mseed * 0xD1B54A32D192ED03ULL + 977u; for(int i = 0; i < 4; i++) vr_next(&r2);   /* class features: own stream */
  int wide[MAXB], nwide = 0; for(int b = 0; b < B; b++) if(jb->w[b] >= 2) wide[nwide++] = b;
  if(jb->cc >= 1 && jb->cc <= 6){
    if(nwide == 0) di->infeasible = 1;
    else{
      int pick = (int)vr_int(&r2, 0, nwide - 1), bc = wide[pick], pos = (int)vr_int(&r2, 0, 2);
      int jc = pos == 0 ? 0 : pos == 1 ? jb->w[bc] - 1 : (int)vr_int(&r2, 0, jb->w[bc] - 1);
      di->isconst[bc][jc] = 1; di->nconst = 1;
      if(nwide >= 2 && vr_int(&r2, 0, 1)){ int b2 = wide[(pick + 1) % nwide]; di->isconst[b2][(int)vr_int(&r2, 0, jb->w[b2] - 1)] = 1; di->nconst = 2; }
    }
  }
  else if(jb->cc == 7){
    int bc = (int)vr_int(&r2, 0, B - 1);
    for(int j = 0; j < jb->w[bc]; j++) di->isconst[bc][j] = 1;
    di->nconst = jb->w[bc];
  }
  int Meff = M - di->nconst;
  int r = (n - 1 < Meff) ? n - 1 : Meff;
  if(r < 1){ di->infeasible = 1; r = 1; Meff = Meff < 1 ? 1 : Meff; }
  di->r = r;
  ld *U = malloc(sizeof(ld) * n * r), *Vc = malloc(sizeof(ld) * Meff * r), *V = calloc((size_t)M * r, sizeof(ld)), *sig = di->sig;
  rand_orth(&rg, n, r, 1, U); rand_orth(&rg, Meff, r, 0, Vc);
  { int q = 0; for(int b = 0; b < B; b++) for(int j = 0; j < jb->w[b]; j++){ if(di->isconst[b][j]) continue; if(q < Meff){ for(int k = 0; k < r; k++) V[(coff[b] + j) * r + k] = Vc[q * r + k]; } q++; } }
  ld scale = powl(10.0L, (ld)jb->dec);
  int lead = npc + 1 < r ? npc + 1 : r;
  sig[0] = scale * (ld)(1.0 + 9.0 * vr_unif(&rg));
  for(int k = 1; k < r && k < 64; k++) sig[k] = sig[k - 1] * (ld)(k < lead ? (0.2 + 0.65 * vr_unif(&rg)) : (0.88 + 0.1 * vr_unif(&rg)));
  tensor *x; NewTensor(&x, (size_t)B);
  for(int b = 0; b < B; b++){
    NewTensorMatrix(x, (size_t)b, (size_t)n, (size_t)jb->w[b]);
    ld sq = sqrtl((ld)jb->w[b]);
    double p10 = jb->bm[b] ? pow(10.0, (double)jb->bm[b]) : 1.0;
    for(int j = 0; j < jb->w[b]; j++){
      double sgn = (vr_int(&rg, 0, 1) ? 1.0 : -1.0), u = vr_unif(&rg);
      double off = jb->off > 0 ? sgn * pow(10.0, (double)jb->off) * (1.0 + 9.0 * u) * (double)scale : sgn * pow(10.0, -1.0 + 3.0 * u) * (double)scale;
      for(int i = 0; i < n; i++){
        double val;
        if(di->isconst[b][j]) val = (jb->cc == 7 ? 0.1 * (j + 1) : CVAL[jb->cc]) * (double)scale;
        else { ld v = 0; for(int k = 0; k < r; k++) v += U[i * r + k] * sig[k] * V[(coff[b] + j) * r + k]; val = (double)(v * sq + off); }
        x->m[b]->data[i][j] = jb->bm[b] ? val * p10 : val;
      }
    }
  }
  if(jb->deg == 1){ int i1 = (int)vr_int(&r2, 0, n - 1), i2 = (int)vr_int(&r2, 0, n - 2); if(i2 >= i1) i2++;
    for(int b = 0; b < B; b++) for(int j = 0; j < jb->w[b]; j++) x->m[b]->data[i2][j] = x->m[b]->data[i1][j]; }
  else if(jb->deg == 2){
    if(nwide == 0) di->infeasible = 1;
    else{ int bc = wide[(int)vr_int(&r2, 0, nwide - 1)], j1 = (int)vr_int(&r2, 0, jb->w[bc] - 1), j2 = (int)vr_int(&r2, 0, jb->w[bc] - 2); if(j2 >= j1) j2++;
      if(!di->isconst[bc][j1]) for(int i = 0; i < n; i++) x->m[bc]->data[i][j2] = x->m[bc]->data[i][j1]; }
  }
  else if(jb->deg == 3){
    int b1 = (int)vr_int(&r2, 0, B - 1), b2 = (int)vr_int(&r2, 0, B - 2); if(b2 >= b1) b2++;
    int j1 = (int)vr_int(&r2, 0, jb->w[b1] - 1), j2 = (int)vr_int(&r2, 0, jb->w[b2] - 1);
    if(!di->isconst[b1][j1]) for(int i = 0; i < n; i++) x->m[b2]->data[i][j2] = x->m[b1]->data[i][j1];
  }
  free(U); free(Vc); free(V);
  return x;
}

/* ------------------------------------------------------------------------------------------------ hooks: MT slices, iteration counts */
#define MAXLEN 64
static long mt_calls = 0; static int mt_np = 0, sl_on = 0;
static int sl_seen[MAXLEN + 1]; static long sl_fr[MAXLEN + 1][32], sl_to[MAXLEN + 1][32]; static int sl_cnt[MAXLEN + 1];
static void slice_cb(const char *site, size_t th, size_t from, size_t to, size_t len)
{
  (void)site;
  if(!sl_on) return;
  if(th == 0) mt_calls++;
  if(len <= MAXLEN && th < 32){
    if(th == 0 && sl_seen[len] == 0) sl_seen[len] = 1;            /* recording the first call for this length */
    else if(th == 0 && sl_seen[len] == 1) sl_seen[len] = 2;
    if(sl_seen[len] == 1){ sl_fr[len][th] = (long)from; sl_to[len][th] = (long)to; sl_cnt[len] = (int)th + 1; }
  }
}
static void mt_reset(void){ mt_calls = 0; memset(sl_seen, 0, sizeof(sl_seen)); memset(sl_cnt, 0, sizeof(sl_cnt)); }
static long it_count[64]; static int it_on = 0;
static void iter_cb(const char *site, size_t comp, double a, double b, double conv)
{
  if(it_on && site[0] == 'C' && comp < 64) it_count[comp]++;
  vrt_iter_cb(site, comp, a, b, conv);
}

/* a foreign fit in the same process (history): everything is freed again */
static void warmup(const cjob *jb, int kind)
{
  cjob j2 = *jb; dinfo d2;
  j2.mseed = (jb->mseed + 7919L * kind) & 0x3FFFFFFF; j2.cc = 0; j2.off = 0; j2.deg = 0; for(int b = 0; b < MAXB; b++) j2.bm[b] = 0;
  if(kind >= 2){
    j2.n = jb->n + 3 <= 30 ? jb->n + 3 : jb->n - 3;
    j2.B = jb->B == 4 ? 3 : jb->B + 1;
    for(int b = 0; b < j2.B; b++) j2.w[b] = b < jb->B ? (jb->w[b] % 8) + 1 : 2;
    if(kind == 3) for(int b = 0; b < j2.B; b++) j2.w[b] = (j2.w[b] % 8) + 1;
    int minw = 8; for(int b = 0; b < j2.B; b++) if(j2.w[b] < minw) minw = j2.w[b];
    if(j2.npc > minw) j2.npc = minw;
    if(j2.npc > j2.n - 1) j2.npc = j2.n - 1;
    j2.scaling = (jb->scaling + kind) % 6;
    if(j2.scaling >= 1 && (j2.dec < 0 || j2.dec > 3)) j2.dec = 1;
  }
  tensor *x = build_data(&j2, &d2);
  CPCAMODEL *m; NewCPCAModel(&m);
  vrt_install_iter_budget(jb->budget, 0); libsci_verif_iter = iter_cb;
  CPCA(x, j2.scaling, (size_t)j2.npc, m);
  matrix *ps; initMatrix(&ps); tensor *pb; initTensor(&pb);
  CPCAScorePredictor(x, m, (size_t)j2.npc, ps, pb);
  DelMatrix(&ps); DelTensor(&pb); DelCPCAModel(&m); DelTensor(&x);
}

static int model_shape_ok(CPCAMODEL *m, int n, int B, int npc)
{
  return (int)m->super_scores->col == npc && (int)m->super_scores->row == n && (int)m->super_weights->col == npc && (int)m->super_weights->row == B &&
         (int)m->block_scores->order == npc && (int)m->block_loadings->order == B && (int)m->total_expvar->size == npc && (int)m->block_expvar->size == npc;
}

static int bitwise_same(CPCAMODEL *a, CPCAMODEL *b, int n, int B, int npc, const int *w)
{
  for(int k = 0; k < npc; k++){
    for(int i = 0; i < n; i++) if(memcmp(&a->super_scores->data[i][k], &b->super_scores->data[i][k], 8)) return 0;
    for(int q = 0; q < B; q++) if(memcmp(&a->super_weights->data[q][k], &b->super_weights->data[q][k], 8)) return 0;
    if(memcmp(&a->total_expvar->data[k], &b->total_expvar->data[k], 8)) return 0;
    for(int q = 0; q < B; q++){ if(memcmp(&a->block_expvar->d[k]->data[q], &b->block_expvar->d[k]->data[q], 8)) return 0;
      for(int j = 0; j < w[q]; j++) if(memcmp(&a->block_loadings->m[q]->data[j][k], &b->block_loadings->m[q]->data[j][k], 8)) return 0;
      for(int i = 0; i < n; i++) if(memcmp(&a->block_scores->m[k]->data[i][q], &b->block_scores->m[k]->data[i][q], 8)) return 0; }
  }
  return 1;
}

static char buf[8192];
#define BP(...) p += snprintf(buf + p, sizeof(buf) - p, __VA_ARGS__)

static int child(void *arg)
{
  cjob *jb = (cjob *)arg;
  int n = jb->n, B = jb->B, npc = jb->npc, scaling = jb->scaling, M = 0, coff[MAXB + 1];
  for(int b = 0; b < B; b++){ coff[b] = M; M += jb->w[b]; } coff[B] = M;
  int plain = (jb->cc == 0 && jb->off == 0 && jb->deg == 0); for(int b = 0; b < B; b++) if(jb->bm[b]) plain = 0;
  int newcls = !plain || jb->hist || jb->sized;
  vrt_force_nproc((size_t)jb->nproc);
  /* deterministic verdict on non-termination: conforming fits of this sweep need < 2,000 iterations per component (CPCA criterion 1e-18,
   * separated leading spectrum; the unseparated tail is never requested) */
  vrt_install_iter_budget(jb->budget, 0); libsci_verif_iter = iter_cb;
  libsci_verif_slice = slice_cb;
  if(jb->hist){ warmup(jb, 1); warmup(jb, 2); }
  dinfo di;
  tensor *x = build_data(jb, &di);
  if(di.infeasible){ VRT_EMIT("{\"e\":\"Dropped\",\"why\":\"class-infeasible-for-shape\"}"); return 0; }
  for(int b = 0; b < B; b++) for(int i = 0; i < n; i++) for(int j = 0; j < jb->w[b]; j++)
    if(fabs(x->m[b]->data[i][j] - 99999999.0) < 1.0){ VRT_EMIT("{\"e\":\"Dropped\",\"why\":\"value-at-missing-code\"}"); return 0; }
  int r = di.r; ld *sig = di.sig;
  /* reference: blocks preprocessed identically, each divided by sqrt(#variables), concatenated */
  ld *C = malloc(sizeof(ld) * n * M); ld ssb[MAXB], sstot = 0; int nzb = 0;
  matrix *Eb[MAXB];
  for(int b = 0; b < B; b++){
    dvector *avg, *scl; initDVector(&avg); initDVector(&scl);
    NewMatrix(&Eb[b], (size_t)n, (size_t)jb->w[b]);
    MatrixPreprocess(x->m[b], scaling, avg, scl, Eb[b]);
    if(scaling >= 1) for(int j = 0; j < jb->w[b]; j++) if(!di.isconst[b][j] && fabs(scl->data[j]) < F9_HI){ VRT_EMIT("{\"e\":\"Dropped\",\"why\":\"scale-in-guard-zone\"}"); return 0; }
    ld sq = sqrtl((ld)jb->w[b]); ssb[b] = 0;
    for(int i = 0; i < n; i++) for(int j = 0; j < jb->w[b]; j++){ C[i * M + coff[b] + j] = (ld)Eb[b]->data[i][j] / sq; ssb[b] += (ld)Eb[b]->data[i][j] * Eb[b]->data[i][j]; }
    if(!(ssb[b] > 0) && jb->cc != 7){ VRT_EMIT("{\"e\":\"Dropped\",\"why\":\"constant-block\"}"); return 0; }
    if(ssb[b] > 0) nzb++;
    sstot += ssb[b] / jb->w[b];
    DelDVector(&avg); DelDVector(&scl);
  }
  if(nzb == 0 || !(sstot > 0)){ VRT_EMIT("{\"e\":\"Dropped\",\"why\":\"constant-data\"}"); return 0; }
  if(jb->cc == 7) for(int b = 0; b < B; b++) if(di.isconst[b][0] && ssb[b] > sstot * 1e-24L){ VRT_EMIT("{\"e\":\"Dropped\",\"why\":\"constant-block-not-zero-after-preprocessing\"}"); return 0; }
  ld *G = malloc(sizeof(ld) * M * M), *Gw = malloc(sizeof(ld) * M * M), *lam = malloc(sizeof(ld) * M), *W = malloc(sizeof(ld) * M * M);
  for(int a = 0; a < M; a++) for(int b2 = 0; b2 < M; b2++){ ld s = 0; for(int i = 0; i < n; i++) s += C[i * M + a] * C[i * M + b2]; G[a * M + b2] = s; Gw[a * M + b2] = s; }
  jacobi_eig(M, Gw, lam, W);
  double *lw = malloc(sizeof(double) * M); int info = lapack_eigvals(M, G, lw);
  double oerr = 0; for(int k = 0; k < M; k++){ double d = fabs((double)(lam[k] - (ld)lw[M - 1 - k])) / (double)lam[0]; if(!(d <= oerr)) oerr = d; }
  if(info) oerr = 1.0;
  if(scaling == 0 && plain) for(int k = 0; k < r; k++){ double d = fabs((double)(lam[k] - sig[k] * sig[k])) / (double)lam[0]; if(!(d <= oerr)) oerr = d; }
  /* the quantifier: npc components exist (no request beyond the numerical rank: C18) and, for the added degenerate classes whose spectrum is not
   * the constructed one, the requested components are separated enough for the fit to stop within the iteration budget */
  if(!(lam[npc - 1] > lam[0] * 1e-24L)){ VRT_EMIT("{\"e\":\"Dropped\",\"why\":\"component-beyond-rank\"}"); return 0; }
  if(newcls) for(int k = 0; k < npc && k + 1 < M; k++) if(lam[k + 1] > 0.9L * lam[k]){ VRT_EMIT("{\"e\":\"Dropped\",\"why\":\"spectrum-not-separated\"}"); return 0; }
  ld trace = 0; for(int k = 0; k < M; k++) trace += lam[k] > 0 ? lam[k] : 0;
  int p = 0;
  BP("{\"e\":\"Spectrum\",\"sig2\":[");
  for(int k = 0; k < npc + 1 && k < M; k++) BP("%s%ld", k ? "," : "", vqs_unit((double)((lam[k] > 0 ? lam[k] : 0) / lam[0]), 1e-9));
  BP("]}"); VRT_EMIT("%s", buf);
  p = 0; BP("{\"e\":\"Shares\",\"share\":[");
  for(int b = 0; b < B; b++) BP("%s%ld", b ? "," : "", vqs_unit((double)((ssb[b] / jb->w[b]) / sstot), 1e-9));
  BP("],\"nz\":[");
  for(int b = 0; b < B; b++) BP("%s%d", b ? "," : "", ssb[b] > 0 ? 1 : 0);
  BP("]}"); VRT_EMIT("%s", buf);
  VRT_EMIT("{\"e\":\"Oracle\",\"err\":%ld}", vq12(oerr));

  /* the model under test */
  CPCAMODEL *m; NewCPCAModel(&m);
  mt_reset(); mt_np = jb->nproc; memset(it_count, 0, sizeof(it_count)); it_on = 1;
  vrt_install_iter_budget(jb->budget, 0); libsci_verif_iter = iter_cb;
  sl_on = 1;
  CPCA(x, scaling, (size_t)npc, m);
  it_on = 0; sl_on = 0; long calls = mt_calls;
  if(!model_shape_ok(m, n, B, npc)){ VRT_EMIT("{\"e\":\"Abort\",\"rc\":0,\"why\":\"model-shape\"}"); return 0; }
  /* projection of the training tensor, possibly into outputs that are already sized and hold other data */
  matrix *ps; tensor *pb; initTensor(&pb);
  if(jb->sized == 0) initMatrix(&ps);
  else{ int rr = jb->sized == 1 ? n : jb->sized == 2 ? n + 3 : 2, cc2 = jb->sized == 1 ? npc : jb->sized == 2 ? npc + 2 : 1;
    NewMatrix(&ps, (size_t)rr, (size_t)cc2); for(int i = 0; i < rr; i++) for(int j = 0; j < cc2; j++) ps->data[i][j] = 7.25 + i - 3 * j; }
  CPCAScorePredictor(x, m, (size_t)npc, ps, pb);
  VRT_EMIT("{\"e\":\"Proj\",\"rows\":%d,\"cols\":%d,\"order\":%d,\"brows\":%d,\"bcols\":%d}", (int)ps->row, (int)ps->col, (int)pb->order,
           pb->order ? (int)pb->m[0]->row : 0, pb->order ? (int)pb->m[0]->col : 0);
  for(int pass = 0; pass < 2; pass++){
    int req = pass == 0 ? 1 : npc + 3; if(pass == 0 && npc < 2) continue;
    matrix *q; initMatrix(&q); tensor *qb; initTensor(&qb);
    CPCAScorePredictor(x, m, (size_t)req, q, qb);
    int got = (int)q->col < npc ? (int)q->col : npc; if((int)q->row != n) got = 0;
    p = 0; BP("{\"e\":\"Proj2\",\"req\":%d,\"rows\":%d,\"cols\":%d,\"err\":[", req, (int)q->row, (int)q->col);
    for(int k = 0; k < got; k++){ ld tt = 0, re = 0; for(int i = 0; i < n; i++){ ld a = m->super_scores->data[i][k], d = (ld)q->data[i][k] - a; tt += a * a; re += d * d; }
      BP("%s%ld", k ? "," : "", vq9(tt > 0 ? sqrt((double)(re / tt)) : 1.0)); }
    BP("]}"); VRT_EMIT("%s", buf);
    DelMatrix(&q); DelTensor(&qb);
  }
  VRT_EMIT("{\"e\":\"Mt\",\"nproc\":%d,\"calls\":%ld}", jb->nproc, calls);
  if(jb->nproc > 1) for(int len = 1; len <= MAXLEN; len++) if(sl_seen[len]){
    p = 0; BP("{\"e\":\"Slices\",\"len\":%d,\"np\":%d,\"fr\":[", len, sl_cnt[len]);
    for(int t = 0; t < sl_cnt[len]; t++) BP("%s%ld", t ? "," : "", sl_fr[len][t]);
    BP("],\"to\":["); for(int t = 0; t < sl_cnt[len]; t++) BP("%s%ld", t ? "," : "", sl_to[len][t]);
    BP("]}"); VRT_EMIT("%s", buf);
  }
  p = 0; BP("{\"e\":\"Iters\",\"its\":["); for(int k = 0; k < npc; k++) BP("%s%ld", k ? "," : "", it_count[k] > 2000000000L ? 2000000000L : it_count[k]); BP("]}"); VRT_EMIT("%s", buf);
  /* library PCA on the same concatenation (the comparison the property words) */
  matrix *Cm; NewMatrix(&Cm, (size_t)n, (size_t)M); for(int i = 0; i < n; i++) for(int j = 0; j < M; j++) Cm->data[i][j] = (double)C[i * M + j];
  PCAMODEL *pm; NewPCAModel(&pm); PCA(Cm, 0, (size_t)npc, pm, NULL);
  int pcaok = ((int)pm->scores->row == n && (int)pm->scores->col >= npc && (int)pm->varexp->size >= npc);
  /* running block residuals E_b^(k) = E_b - sum_j t_j p_bj' */
  ld *R[MAXB]; for(int b = 0; b < B; b++){ R[b] = malloc(sizeof(ld) * n * jb->w[b]); for(int i = 0; i < n; i++) for(int j = 0; j < jb->w[b]; j++) R[b][i * jb->w[b] + j] = Eb[b]->data[i][j]; }
  ld *RT[MAXB]; for(int b = 0; b < B; b++){ RT[b] = malloc(sizeof(ld) * n * jb->w[b]); for(int i = 0; i < n; i++) for(int j = 0; j < jb->w[b]; j++) RT[b][i * jb->w[b] + j] = Eb[b]->data[i][j]; }
  double *tcol = malloc(sizeof(double) * n); ld *tref = malloc(sizeof(ld) * n);
  int projok = ((int)ps->row == n && (int)ps->col == npc), pbok = ((int)pb->order == npc);
  for(int k = 0; k < npc; k++){
    ld tt = 0; for(int i = 0; i < n; i++){ tcol[i] = m->super_scores->data[i][k]; tt += (ld)tcol[i] * tcol[i]; }
    /* super = block scores x super weights */
    ld se = 0, wn = 0;
    for(int b = 0; b < B; b++) wn += (ld)m->super_weights->data[b][k] * m->super_weights->data[b][k];
    for(int i = 0; i < n; i++){ ld v = 0; for(int b = 0; b < B; b++) v += (ld)m->block_scores->m[k]->data[i][b] * m->super_weights->data[b][k]; v -= tcol[i]; se += v * v; }
    double superErr = tt > 0 ? sqrt((double)(se / tt)) : 1.0;
    /* re-projection of the training tensor */
    ld re = 0; if(!projok) re = tt; else for(int i = 0; i < n; i++){ ld d = (ld)ps->data[i][k] - tcol[i]; re += d * d; }
    double reproj = tt > 0 ? sqrt((double)(re / tt)) : 1.0;
    ld rb = 0, tb2 = 0;
    for(int i = 0; i < n; i++) for(int b = 0; b < B; b++){ ld a = m->block_scores->m[k]->data[i][b]; tb2 += a * a;
      if(pbok && (int)pb->m[k]->row == n && (int)pb->m[k]->col == B){ ld d = (ld)pb->m[k]->data[i][b] - a; rb += d * d; } else rb += a * a; }
    double reprojB = tb2 > 0 ? sqrt((double)(rb / tb2)) : 1.0;
    /* block explained variance recomputed from super scores and block loadings */
    p = 0; BP("{\"e\":\"Cpca\",\"k\":%d,\"totalVar\":%ld,\"blockVar\":[", k + 1, vqs_unit(m->total_expvar->data[k] / 100.0, 1e-9));
    for(int b = 0; b < B; b++) BP("%s%ld", b ? "," : "", vqs_unit(m->block_expvar->d[k]->data[b] / 100.0, 1e-9));
    BP("],\"blockRef\":[");
    for(int b = 0; b < B; b++){
      ld rs = 0;
      for(int i = 0; i < n; i++) for(int j = 0; j < jb->w[b]; j++){ R[b][i * jb->w[b] + j] -= (ld)tcol[i] * m->block_loadings->m[b]->data[j][k]; rs += R[b][i * jb->w[b] + j] * R[b][i * jb->w[b] + j]; }
      BP("%s%ld", b ? "," : "", ssb[b] > 0 ? vqs_unit((double)(1 - rs / ssb[b]), 1e-9) : 0L);
    }
    BP("],\"superErr\":%ld,\"wnorm\":%ld,\"reproj\":%ld,\"reprojB\":%ld}", vq12(superErr), vq12(fabs((double)sqrtl(wn) - 1.0)), vq9(reproj), vq9(reprojB));
    VRT_EMIT("%s", buf);
    /* truth */
    for(int i = 0; i < n; i++){ ld s = 0; for(int j = 0; j < M; j++) s += C[i * M + j] * W[j * M + k]; tref[i] = s; }
    double frac = (double)((lam[k] > 0 ? lam[k] : 0) / trace);
    p = 0; BP("{\"e\":\"Truth\",\"k\":%d,\"dist\":%ld,\"tvErr\":%ld,\"blockTruth\":[", k + 1, vq9(dist_pm(tcol, tref, n)), vq9(frac > 0 ? fabs(m->total_expvar->data[k] / 100.0 - frac) / frac : 2.0));
    { ld t2 = 0; for(int i = 0; i < n; i++) t2 += tref[i] * tref[i];
      for(int b = 0; b < B; b++){ ld rs = 0;
        for(int j = 0; j < jb->w[b]; j++){ ld c = 0; if(t2 > 0){ for(int i = 0; i < n; i++) c += tref[i] * RT[b][i * jb->w[b] + j]; c /= t2; }
          for(int i = 0; i < n; i++){ RT[b][i * jb->w[b] + j] -= tref[i] * c; rs += RT[b][i * jb->w[b] + j] * RT[b][i * jb->w[b] + j]; } }
        BP("%s%ld", b ? "," : "", ssb[b] > 0 ? vqs_unit((double)(1 - rs / ssb[b]), 1e-9) : 0L); } }
    BP("]}"); VRT_EMIT("%s", buf);
    for(int i = 0; i < n; i++) tref[i] = pcaok ? pm->scores->data[i][k] : 0;
    VRT_EMIT("{\"e\":\"PcaRef\",\"k\":%d,\"varexp\":%ld,\"dist\":%ld}", k + 1, pcaok ? vqs_unit(pm->varexp->data[k] / 100.0, 1e-9) : -1L, vq9(dist_pm(tcol, tref, n)));
  }
  if(scaling == 0){ /* magnitude equivariance: the statement of the property does not depend on the unit of the data */
    vrng rg; rg.s = (uint64_t)jb->mseed * 0x2545F4914F6CDD1DULL + 99u; for(int i = 0; i < 4; i++) vr_next(&rg);
    int kexp = (int)vr_int(&rg, 4, 27) * (vr_int(&rg, 0, 1) ? 1 : -1);
    int dlo = jb->dec, dhi = jb->dec + jb->off; for(int b = 0; b < B; b++){ if(jb->dec + jb->bm[b] < dlo) dlo = jb->dec + jb->bm[b]; if(jb->dec + jb->bm[b] + jb->off > dhi) dhi = jb->dec + jb->bm[b] + jb->off; }
    if(dlo + 0.30103 * kexp < -9.5) kexp = -kexp;      /* keep the rescaled data within 1e-9..1e15 */
    if(dhi + 0.30103 * kexp > 14.0) kexp = -kexp;
    if(dlo + 0.30103 * kexp < -12.0) kexp = 4;
    double cf = ldexp(1.0, kexp);
    tensor *x2; NewTensor(&x2, (size_t)B);
    for(int b = 0; b < B; b++){ NewTensorMatrix(x2, (size_t)b, (size_t)n, (size_t)jb->w[b]); for(int i = 0; i < n; i++) for(int j = 0; j < jb->w[b]; j++) x2->m[b]->data[i][j] = cf * x->m[b]->data[i][j]; }
    int hit = 0; for(int b = 0; b < B; b++) for(int i = 0; i < n; i++) for(int j = 0; j < jb->w[b]; j++) if(fabs(x2->m[b]->data[i][j] - 99999999.0) < 1.0) hit = 1;
    if(!hit){
    CPCAMODEL *m2; NewCPCAModel(&m2);
    CPCA(x2, scaling, (size_t)npc, m2);
    p = 0; BP("{\"e\":\"Scale\",\"kexp\":%d,\"terr\":[", kexp);
    int okshape = model_shape_ok(m2, n, B, npc);
    for(int k = 0; k < npc; k++) BP("%s%ld", k ? "," : "", vq9(okshape ? dist_norm(m->super_scores, m2->super_scores, k, n) : 2.0));
    BP("],\"verr\":[");
    for(int k = 0; k < npc; k++){ double a = m->total_expvar->data[k], e = (okshape && a > 0) ? fabs(m2->total_expvar->data[k] - a) / a : 2.0; BP("%s%ld", k ? "," : "", vq9(e)); }
    BP("],\"berr\":[");
    for(int k = 0; k < npc; k++){ double e = 0; for(int b = 0; b < B; b++){ double d = okshape ? fabs(m2->block_expvar->d[k]->data[b] - m->block_expvar->d[k]->data[b]) / 100.0 : 2.0; if(!(d <= e)) e = d; } BP("%s%ld", k ? "," : "", vq9(e)); }
    BP("]}");
    VRT_EMIT("%s", buf);
    DelCPCAModel(&m2);
    }
    DelTensor(&x2);
  }
  if(jb->hist){ /* one more foreign fit, then the same data again into a fresh model */
    warmup(jb, 3);
    CPCAMODEL *m3; NewCPCAModel(&m3);
    vrt_install_iter_budget(jb->budget, 0); libsci_verif_iter = iter_cb;
    CPCA(x, scaling, (size_t)npc, m3);
    int okshape = model_shape_ok(m3, n, B, npc);
    p = 0; BP("{\"e\":\"Again\",\"terr\":[");
    for(int k = 0; k < npc; k++) BP("%s%ld", k ? "," : "", vq9(okshape ? dist_norm(m->super_scores, m3->super_scores, k, n) : 2.0));
    BP("],\"verr\":[");
    for(int k = 0; k < npc; k++){ double a = m->total_expvar->data[k], e = (okshape && a > 0) ? fabs(m3->total_expvar->data[k] - a) / a : 2.0; BP("%s%ld", k ? "," : "", vq9(e)); }
    BP("],\"bit\":%d}", okshape ? bitwise_same(m, m3, n, B, npc, jb->w) : 0);
    VRT_EMIT("%s", buf);
  }
  return 0;
}

/* refit mode: CPCA() twice into the same model object (the second time on other data of the same shape, then compared with a fresh fit of that data) */
static int child_refit(void *arg)
{
  cjob *jb = (cjob *)arg; int n = jb->n, B = jb->B, npc = jb->npc;
  vrt_force_nproc((size_t)jb->nproc);
  vrt_install_iter_budget(jb->budget, 0);
  dinfo di, d2; cjob j2 = *jb; j2.mseed = (jb->mseed + 104729L) & 0x3FFFFFFF;
  tensor *x1 = build_data(jb, &di), *x2 = build_data(&j2, &d2);
  if(di.infeasible || d2.infeasible){ VRT_EMIT("{\"e\":\"Dropped\",\"why\":\"class-infeasible-for-shape\"}"); return 0; }
  CPCAMODEL *fresh; NewCPCAModel(&fresh); CPCA(x2, jb->scaling, (size_t)npc, fresh);
  CPCAMODEL *m; NewCPCAModel(&m); CPCA(x1, jb->scaling, (size_t)npc, m);
  vrt_install_iter_budget(jb->budget, 0);
  CPCA(x2, jb->scaling, (size_t)npc, m);
  int ok = model_shape_ok(m, n, B, npc) && model_shape_ok(fresh, n, B, npc) && (int)m->scaling_factor->size == B && (int)m->colaverage->size == B;
  int p = 0; BP("{\"e\":\"Refit\",\"shape\":%d,\"terr\":[", ok);
  for(int k = 0; k < npc; k++) BP("%s%ld", k ? "," : "", vq9(ok ? dist_norm(fresh->super_scores, m->super_scores, k, n) : 2.0));
  BP("],\"verr\":[");
  for(int k = 0; k < npc; k++){ double a = fresh->total_expvar->data[k], e = (ok && a > 0) ? fabs(m->total_expvar->data[k] - a) / a : 2.0; BP("%s%ld", k ? "," : "", vq9(e)); }
  BP("],\"berr\":[");
  for(int k = 0; k < npc; k++){ double e = 0; for(int b = 0; b < B; b++){ double d = ok ? fabs(m->block_expvar->d[k]->data[b] - fresh->block_expvar->d[k]->data[b]) / 100.0 : 2.0; if(!(d <= e)) e = d; } BP("%s%ld", k ? "," : "", vq9(e)); }
  BP("]}"); VRT_EMIT("%s", buf);
  return 0;
}

static long n_ok = 0, n_abort = 0;
static void run_model(cjob *jb, int refit)
{
  VRT_EMIT("{\"e\":\"Reset\"}");
  int diffw = 0; for(int b = 1; b < jb->B; b++) if(jb->w[b] != jb->w[0]) diffw = 1;
  int p = 0;
  BP("{\"e\":\"Fit\",\"seed\":%ld,\"n\":%d,\"blocks\":%d,\"widths\":[", jb->mseed, jb->n, jb->B);
  for(int b = 0; b < jb->B; b++) BP("%s%d", b ? "," : "", jb->w[b]);
  BP("],\"scaling\":%d,\"npc\":%d,\"dec\":%d,\"nproc\":%d,\"diffw\":%d,\"cc\":%d,\"off\":%d,\"bm\":[", jb->scaling, jb->npc, jb->dec, jb->nproc, diffw, jb->cc, jb->off);
  for(int b = 0; b < jb->B; b++) BP("%s%d", b ? "," : "", jb->bm[b]);
  BP("],\"hist\":%d,\"sized\":%d,\"deg\":%d}", jb->hist, jb->sized, jb->deg);
  VRT_EMIT("%s", buf);
  int rc = vrt_run_child(refit ? child_refit : child, jb, 900);
  fseek(vrt_out, 0, SEEK_END);
  if(rc != 0){ VRT_EMIT("{\"e\":\"Abort\",\"rc\":%d,\"why\":\"%s\"}", rc, rc == 97 ? "iteration-budget" : rc == 124 ? "watchdog" : rc >= 1000 ? "signal" : "exit"); n_abort++; }
  else n_ok++;
}

/* "mseed n scaling npc dec nproc B w.. [cc off bm.. hist sized deg]" */
static int parse_job(cjob *jb, int argc, char **argv)
{
  if(argc < 7) return 0;
  jb->mseed = atol(argv[0]); jb->n = atoi(argv[1]); jb->scaling = atoi(argv[2]); jb->npc = atoi(argv[3]); jb->dec = atoi(argv[4]); jb->nproc = atoi(argv[5]); jb->B = atoi(argv[6]);
  jb->cc = jb->off = jb->hist = jb->sized = jb->deg = 0; for(int b = 0; b < MAXB; b++) jb->bm[b] = 0;
  if(jb->B < 2 || jb->B > MAXB || argc < 7 + jb->B) return 0;
  for(int b = 0; b < jb->B; b++){ jb->w[b] = atoi(argv[7 + b]); if(jb->w[b] < 1 || jb->w[b] > MAXW) return 0; }
  if(jb->n < 2 || jb->n > 64 || jb->npc < 1 || jb->nproc < 1 || jb->nproc > 32) return 0;
  int a = 7 + jb->B;
  if(argc >= a + 2 + jb->B + 3){
    jb->cc = atoi(argv[a]); jb->off = atoi(argv[a + 1]);
    for(int b = 0; b < jb->B; b++) jb->bm[b] = atoi(argv[a + 2 + b]);
    jb->hist = atoi(argv[a + 2 + jb->B]); jb->sized = atoi(argv[a + 3 + jb->B]); jb->deg = atoi(argv[a + 4 + jb->B]);
    if(jb->cc < 0 || jb->cc > 7 || jb->off < 0 || jb->off > 8 || jb->sized < 0 || jb->sized > 3 || jb->deg < 0 || jb->deg > 3) return 0;
  }
  return 1;
}

int main(int argc, char **argv)
{
  if(argc < 4){ fprintf(stderr, "usage\n"); return 2; }
  vrt_open(argv[1]);
  cjob jb; memset(&jb, 0, sizeof(jb)); jb.budget = getenv("C09_ITER_BUDGET") ? atol(getenv("C09_ITER_BUDGET")) : 40000;
  if((!strcmp(argv[2], "one") || !strcmp(argv[2], "job")) && argc >= 10){
    if(!parse_job(&jb, argc - 3, argv + 3)){ fprintf(stderr, "bad job\n"); return 2; }
    run_model(&jb, 0);
  }
  else if(!strcmp(argv[2], "jobs") || !strcmp(argv[2], "refit")){
    FILE *f = fopen(argv[3], "r"); if(!f){ perror(argv[3]); return 2; }
    static char line[1024]; char *tok[64];
    while(fgets(line, sizeof(line), f)){
      int nt = 0; for(char *t = strtok(line, " \t\r\n"); t && nt < 64; t = strtok(NULL, " \t\r\n")) tok[nt++] = t;
      if(nt == 0) continue;
      if(!parse_job(&jb, nt, tok)){ fprintf(stderr, "bad job line\n"); return 2; }
      run_model(&jb, !strcmp(argv[2], "refit"));
    }
    fclose(f);
  }
  else if(!strcmp(argv[2], "sweep") && argc >= 6){
    vrng r; r.s = (uint64_t)atol(argv[3]) * 2654435761u + 31337;
    long count = atol(argv[4]); jb.nproc = atoi(argv[5]);
    for(long it = 0; it < count; it++){
      jb.B = (int)vr_int(&r, 2, 4); int minw = 8;
      for(int b = 0; b < jb.B; b++){ jb.w[b] = (int)vr_int(&r, 1, 8); if(jb.w[b] < minw) minw = jb.w[b]; }
      jb.n = (int)vr_int(&r, 5, 30);
      jb.scaling = (int)vr_int(&r, 0, 6); if(jb.scaling == 6) jb.scaling = 0;
      jb.npc = (int)vr_int(&r, 1, minw); if(jb.npc > jb.n - 1) jb.npc = jb.n - 1;
      jb.dec = jb.scaling == 0 ? (int)vr_int(&r, -8, 6) : (int)vr_int(&r, 0, 3);
      jb.mseed = (long)(vr_next(&r) & 0x3FFFFFFF);
      run_model(&jb, 0);
    }
  }
  else { fprintf(stderr, "bad arguments\n"); return 2; }
  VRT_EMIT("{\"e\":\"Summary\",\"ok\":%ld,\"aborted\":%ld}", n_ok, n_abort);
  vrt_close();
  return 0;
}
