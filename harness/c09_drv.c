/* c09_drv.c - conformance driver for C09 (CPCA super scores = PCA scores of the block-scaled concatenation).
 *
 * usage: c09_drv <out.ndjson> sweep <seed> <count> <nproc>
 *        c09_drv <out.ndjson> one <mseed> <n> <scaling> <npc> <dec> <nproc> <B> w_1 .. w_B
 *
 * Data: the block-scaled concatenation Z (n x sum w_b) is built from a known SVD with a separated leading spectrum
 * (ratios 0.2..0.85, then an unseparated tail) as in c02_drv; block b is X_b = Z_b * sqrt(w_b) + offsets, so for
 * scaling 0 the blocks "preprocessed identically, each divided by sqrt(#variables), concatenated" are exactly Z.
 * Reference for every scaling: the harness preprocesses each block with MatrixPreprocess, divides by sqrt(w_b),
 * concatenates, and takes the eigen-decomposition of C'C from a long-double cyclic Jacobi solver cross-checked with
 * LAPACK dsyev (prototype declared here).  The library's own PCA() on C is logged as a second, looser comparison.
 *
 * Events (integers; 1e-9 units unless stated):
 *   Reset{}
 *   Fit{seed,n,blocks,widths[],scaling,npc,dec,nproc,diffw}
 *   Spectrum{sig2[]}            eigenvalues of C'C relative to the largest (npc+1 leading)
 *   Shares{share[]}             (ss_b / w_b) / sum: weight of block b in the total variance
 *   Oracle{err}                 Jacobi vs dsyev, relative to lambda_1 (1e-12 units)
 *   Cpca{k,totalVar,blockVar[],blockRef[],superErr,wnorm,reproj}
 *                               total_expvar/100, block_expvar/100, 1-|E_b^(k)|^2/|E_b|^2 recomputed from super scores and
 *                               block loadings, |t - T w|/|t| (1e-12), | |w|-1 | (1e-12), CPCAScorePredictor(training) vs t
 *   Truth{k,dist,tvErr}         super score vs +-oracle score (relative); total_expvar vs lambda_k/trace (relative)
 *   PcaRef{k,varexp,dist}       library PCA on C: its explained variance/100, distance of its score k to the super score
 *   Scale{kexp,terr[],verr[],berr[]}   scaling 0 only: CPCA(2^kexp * X) against CPCA(X): normalised super scores (relative distance),
 *                               total explained variances (relative), block explained variances (absolute, 1e-9) per component
 *   Abort{rc,why}  Dropped{why}
 * Data magnitude: for scaling 0 (centring only - the one option of the quantifier that does not normalise the magnitude) the decade
 * of the data runs over 1e-8..1e6 and the paired run rescales by an exact power of two between 2^-27 and 2^27; for scalings 1..5 the
 * decade stays in 1..1e3 (smaller magnitudes fall under the library's zero-scale guard: C10/C18 territory).
 */
#include "scientific.h"
#include "verif_rt.h"

extern void dsyev_(char *jobz, char *uplo, int *n, double *a, int *lda, double *w, double *work, int *lwork, int *info);
typedef long double ld;
#define MAXB 4
#define F9_HI 1.2e-2

typedef struct { long mseed; int n, B, w[MAXB], scaling, npc, dec, nproc; long budget; } cjob;

static void rand_orth(vrng *r, int rows, int cols, int ones, ld *Q)
{
  for(int j = 0; j < cols; j++){
    for(int attempt = 0; attempt < 20; attempt++){
      for(int i = 0; i < rows; i++) Q[i * cols + j] = vr_norm(r);
      for(int pass = 0; pass < 3; pass++){
        if(ones){ ld m = 0; for(int i = 0; i < rows; i++) m += Q[i * cols + j]; m /= rows; for(int i = 0; i < rows; i++) Q[i * cols + j] -= m; }
        for(int q = 0; q < j; q++){ ld d = 0; for(int i = 0; i < rows; i++) d += Q[i * cols + j] * Q[i * cols + q]; for(int i = 0; i < rows; i++) Q[i * cols + j] -= d * Q[i * cols + q]; }
      }
      ld nn = 0; for(int i = 0; i < rows; i++) nn += Q[i * cols + j] * Q[i * cols + j];
      if(nn > 1e-6L){ nn = sqrtl(nn); for(int i = 0; i < rows; i++) Q[i * cols + j] /= nn; break; }
    }
  }
}

static void jacobi_eig(int c, ld *A, ld *w, ld *Vv)
{
  for(int i = 0; i < c; i++) for(int j = 0; j < c; j++) Vv[i * c + j] = (i == j);
  ld tot = 0; for(int i = 0; i < c * c; i++) tot += A[i] * A[i];
  for(int sweep = 0; sweep < 200; sweep++){
    ld off = 0; for(int i = 0; i < c; i++) for(int j = i + 1; j < c; j++) off += A[i * c + j] * A[i * c + j];
    if(off <= tot * 1e-38L || off == 0) break;
    for(int p = 0; p < c; p++) for(int q = p + 1; q < c; q++){
      ld apq = A[p * c + q]; if(apq == 0) continue;
      ld theta = (A[q * c + q] - A[p * c + p]) / (2 * apq);
      ld t = (theta >= 0 ? 1 : -1) / (fabsl(theta) + sqrtl(theta * theta + 1));
      ld cs = 1 / sqrtl(t * t + 1), sn = t * cs;
      for(int k = 0; k < c; k++){ ld akp = A[k * c + p], akq = A[k * c + q]; A[k * c + p] = cs * akp - sn * akq; A[k * c + q] = sn * akp + cs * akq; }
      for(int k = 0; k < c; k++){ ld apk = A[p * c + k], aqk = A[q * c + k]; A[p * c + k] = cs * apk - sn * aqk; A[q * c + k] = sn * apk + cs * aqk; }
      for(int k = 0; k < c; k++){ ld vkp = Vv[k * c + p], vkq = Vv[k * c + q]; Vv[k * c + p] = cs * vkp - sn * vkq; Vv[k * c + q] = sn * vkp + cs * vkq; }
    }
  }
  for(int i = 0; i < c; i++) w[i] = A[i * c + i];
  for(int i = 0; i < c; i++){ int b = i; for(int j = i + 1; j < c; j++) if(w[j] > w[b]) b = j;
    if(b != i){ ld tw = w[i]; w[i] = w[b]; w[b] = tw; for(int k = 0; k < c; k++){ ld tv = Vv[k * c + i]; Vv[k * c + i] = Vv[k * c + b]; Vv[k * c + b] = tv; } } }
}

static int lapack_eigvals(int c, const ld *G, double *w)
{
  int n = c, lda = c, info = 0, lwork = -1; double wk; char jobz = 'N', uplo = 'U';
  double *a = malloc(sizeof(double) * c * c);
  for(int i = 0; i < c * c; i++) a[i] = (double)G[i];
  dsyev_(&jobz, &uplo, &n, a, &lda, w, &wk, &lwork, &info);
  lwork = (int)wk + 32; double *work = malloc(sizeof(double) * lwork);
  dsyev_(&jobz, &uplo, &n, a, &lda, w, work, &lwork, &info);
  free(work); free(a);
  return info;
}

/* min over sign of |a -+ b| / |b| */
static double dist_pm(const double *a, const ld *b, int n)
{
  ld dp = 0, dm = 0, nb = 0;
  for(int i = 0; i < n; i++){ dp += (a[i] - b[i]) * (a[i] - b[i]); dm += (a[i] + b[i]) * (a[i] + b[i]); nb += b[i] * b[i]; }
  if(!(nb > 0)) return 2.0;
  return sqrt((double)((dp < dm ? dp : dm) / nb));
}

static int child(void *arg)
{
  cjob *jb = (cjob *)arg;
  int n = jb->n, B = jb->B, npc = jb->npc, scaling = jb->scaling, M = 0, coff[MAXB + 1];
  for(int b = 0; b < B; b++){ coff[b] = M; M += jb->w[b]; } coff[B] = M;
  vrt_force_nproc((size_t)jb->nproc);
  /* deterministic verdict on non-termination: conforming fits of this sweep need < 2,000 iterations per component (CPCA criterion 1e-18,
   * separated leading spectrum; the unseparated tail is never requested) */
  vrt_install_iter_budget(jb->budget, 0);
  vrng rg; rg.s = (uint64_t)jb->mseed * 0x9E3779B97F4A7C15ULL + 4242u; for(int i = 0; i < 4; i++) vr_next(&rg);
  int r = (n - 1 < M) ? n - 1 : M;
  ld *U = malloc(sizeof(ld) * n * r), *V = malloc(sizeof(ld) * M * r), *sig = malloc(sizeof(ld) * r);
  rand_orth(&rg, n, r, 1, U); rand_orth(&rg, M, r, 0, V);
  ld scale = powl(10.0L, (ld)jb->dec);
  int lead = npc + 1 < r ? npc + 1 : r;
  sig[0] = scale * (ld)(1.0 + 9.0 * vr_unif(&rg));
  for(int k = 1; k < r; k++) sig[k] = sig[k - 1] * (ld)(k < lead ? (0.2 + 0.65 * vr_unif(&rg)) : (0.88 + 0.1 * vr_unif(&rg)));
  /* tensor of blocks */
  tensor *x; NewTensor(&x, (size_t)B);
  for(int b = 0; b < B; b++){
    NewTensorMatrix(x, (size_t)b, (size_t)n, (size_t)jb->w[b]);
    ld sq = sqrtl((ld)jb->w[b]);
    for(int j = 0; j < jb->w[b]; j++){
      double off = (vr_int(&rg, 0, 1) ? 1.0 : -1.0) * pow(10.0, -1.0 + 3.0 * vr_unif(&rg)) * (double)scale;
      for(int i = 0; i < n; i++){ ld v = 0; for(int k = 0; k < r; k++) v += U[i * r + k] * sig[k] * V[(coff[b] + j) * r + k]; x->m[b]->data[i][j] = (double)(v * sq + off); }
    }
  }
  /* reference: blocks preprocessed identically, each divided by sqrt(#variables), concatenated */
  ld *C = malloc(sizeof(ld) * n * M); ld ssb[MAXB], sstot = 0;
  matrix *Eb[MAXB];
  for(int b = 0; b < B; b++){
    dvector *avg, *scl; initDVector(&avg); initDVector(&scl);
    NewMatrix(&Eb[b], (size_t)n, (size_t)jb->w[b]);
    MatrixPreprocess(x->m[b], scaling, avg, scl, Eb[b]);
    if(scaling >= 1) for(int j = 0; j < jb->w[b]; j++) if(fabs(scl->data[j]) < F9_HI){ VRT_EMIT("{\"e\":\"Dropped\",\"why\":\"scale-in-guard-zone\"}"); return 0; }
    ld sq = sqrtl((ld)jb->w[b]); ssb[b] = 0;
    for(int i = 0; i < n; i++) for(int j = 0; j < jb->w[b]; j++){ C[i * M + coff[b] + j] = (ld)Eb[b]->data[i][j] / sq; ssb[b] += (ld)Eb[b]->data[i][j] * Eb[b]->data[i][j]; }
    if(!(ssb[b] > 0)){ VRT_EMIT("{\"e\":\"Dropped\",\"why\":\"constant-block\"}"); return 0; }
    sstot += ssb[b] / jb->w[b];
    DelDVector(&avg); DelDVector(&scl);
  }
  ld *G = malloc(sizeof(ld) * M * M), *Gw = malloc(sizeof(ld) * M * M), *lam = malloc(sizeof(ld) * M), *W = malloc(sizeof(ld) * M * M);
  for(int a = 0; a < M; a++) for(int b2 = 0; b2 < M; b2++){ ld s = 0; for(int i = 0; i < n; i++) s += C[i * M + a] * C[i * M + b2]; G[a * M + b2] = s; Gw[a * M + b2] = s; }
  jacobi_eig(M, Gw, lam, W);
  double *lw = malloc(sizeof(double) * M); int info = lapack_eigvals(M, G, lw);
  double oerr = 0; for(int k = 0; k < M; k++){ double d = fabs((double)(lam[k] - (ld)lw[M - 1 - k])) / (double)lam[0]; if(!(d <= oerr)) oerr = d; }
  if(info) oerr = 1.0;
  if(scaling == 0) for(int k = 0; k < r; k++){ double d = fabs((double)(lam[k] - sig[k] * sig[k])) / (double)lam[0]; if(!(d <= oerr)) oerr = d; }
  ld trace = 0; for(int k = 0; k < M; k++) trace += lam[k] > 0 ? lam[k] : 0;
  static char buf[4096]; int p = 0;
  p += snprintf(buf + p, sizeof(buf) - p, "{\"e\":\"Spectrum\",\"sig2\":[");
  for(int k = 0; k < npc + 1 && k < M; k++) p += snprintf(buf + p, sizeof(buf) - p, "%s%ld", k ? "," : "", vqs_unit((double)((lam[k] > 0 ? lam[k] : 0) / lam[0]), 1e-9));
  p += snprintf(buf + p, sizeof(buf) - p, "]}"); VRT_EMIT("%s", buf);
  p = 0; p += snprintf(buf + p, sizeof(buf) - p, "{\"e\":\"Shares\",\"share\":[");
  for(int b = 0; b < B; b++) p += snprintf(buf + p, sizeof(buf) - p, "%s%ld", b ? "," : "", vqs_unit((double)((ssb[b] / jb->w[b]) / sstot), 1e-9));
  p += snprintf(buf + p, sizeof(buf) - p, "]}"); VRT_EMIT("%s", buf);
  VRT_EMIT("{\"e\":\"Oracle\",\"err\":%ld}", vq12(oerr));

  /* the model under test */
  CPCAMODEL *m; NewCPCAModel(&m);
  CPCA(x, scaling, (size_t)npc, m);
  if((int)m->super_scores->col != npc || (int)m->super_scores->row != n || (int)m->super_weights->col != npc || (int)m->super_weights->row != B ||
     (int)m->block_scores->order != npc || (int)m->block_loadings->order != B || (int)m->total_expvar->size != npc || (int)m->block_expvar->size != npc){
    VRT_EMIT("{\"e\":\"Abort\",\"rc\":0,\"why\":\"model-shape\"}"); return 0;
  }
  matrix *ps; initMatrix(&ps); tensor *pb; initTensor(&pb);
  CPCAScorePredictor(x, m, (size_t)npc, ps, pb);
  /* library PCA on the same concatenation (the comparison the property words) */
  matrix *Cm; NewMatrix(&Cm, (size_t)n, (size_t)M); for(int i = 0; i < n; i++) for(int j = 0; j < M; j++) Cm->data[i][j] = (double)C[i * M + j];
  PCAMODEL *pm; NewPCAModel(&pm); PCA(Cm, 0, (size_t)npc, pm, NULL);
  /* running block residuals E_b^(k) = E_b - sum_j t_j p_bj' */
  ld *R[MAXB]; for(int b = 0; b < B; b++){ R[b] = malloc(sizeof(ld) * n * jb->w[b]); for(int i = 0; i < n; i++) for(int j = 0; j < jb->w[b]; j++) R[b][i * jb->w[b] + j] = Eb[b]->data[i][j]; }
  double *tcol = malloc(sizeof(double) * n); ld *tref = malloc(sizeof(ld) * n);
  for(int k = 0; k < npc; k++){
    ld tt = 0; for(int i = 0; i < n; i++){ tcol[i] = m->super_scores->data[i][k]; tt += (ld)tcol[i] * tcol[i]; }
    /* super = block scores x super weights */
    ld se = 0, wn = 0;
    for(int b = 0; b < B; b++) wn += (ld)m->super_weights->data[b][k] * m->super_weights->data[b][k];
    for(int i = 0; i < n; i++){ ld v = 0; for(int b = 0; b < B; b++) v += (ld)m->block_scores->m[k]->data[i][b] * m->super_weights->data[b][k]; v -= tcol[i]; se += v * v; }
    double superErr = tt > 0 ? sqrt((double)(se / tt)) : 1.0;
    /* re-projection of the training tensor */
    ld re = 0; if((int)ps->row != n || (int)ps->col != npc) re = tt; else for(int i = 0; i < n; i++){ ld d = (ld)ps->data[i][k] - tcol[i]; re += d * d; }
    double reproj = tt > 0 ? sqrt((double)(re / tt)) : 1.0;
    /* block explained variance recomputed from super scores and block loadings */
    p = 0; p += snprintf(buf + p, sizeof(buf) - p, "{\"e\":\"Cpca\",\"k\":%d,\"totalVar\":%ld,\"blockVar\":[", k + 1, vqs_unit(m->total_expvar->data[k] / 100.0, 1e-9));
    for(int b = 0; b < B; b++) p += snprintf(buf + p, sizeof(buf) - p, "%s%ld", b ? "," : "", vqs_unit(m->block_expvar->d[k]->data[b] / 100.0, 1e-9));
    p += snprintf(buf + p, sizeof(buf) - p, "],\"blockRef\":[");
    for(int b = 0; b < B; b++){
      ld rs = 0;
      for(int i = 0; i < n; i++) for(int j = 0; j < jb->w[b]; j++){ R[b][i * jb->w[b] + j] -= (ld)tcol[i] * m->block_loadings->m[b]->data[j][k]; rs += R[b][i * jb->w[b] + j] * R[b][i * jb->w[b] + j]; }
      p += snprintf(buf + p, sizeof(buf) - p, "%s%ld", b ? "," : "", vqs_unit((double)(1 - rs / ssb[b]), 1e-9));
    }
    p += snprintf(buf + p, sizeof(buf) - p, "],\"superErr\":%ld,\"wnorm\":%ld,\"reproj\":%ld}", vq12(superErr), vq12(fabs((double)sqrtl(wn) - 1.0)), vq9(reproj));
    VRT_EMIT("%s", buf);
    /* truth */
    for(int i = 0; i < n; i++){ ld s = 0; for(int j = 0; j < M; j++) s += C[i * M + j] * W[j * M + k]; tref[i] = s; }
    double frac = (double)((lam[k] > 0 ? lam[k] : 0) / trace);
    VRT_EMIT("{\"e\":\"Truth\",\"k\":%d,\"dist\":%ld,\"tvErr\":%ld}", k + 1, vq9(dist_pm(tcol, tref, n)), vq9(frac > 0 ? fabs(m->total_expvar->data[k] / 100.0 - frac) / frac : 2.0));
    for(int i = 0; i < n; i++) tref[i] = pm->scores->data[i][k];
    VRT_EMIT("{\"e\":\"PcaRef\",\"k\":%d,\"varexp\":%ld,\"dist\":%ld}", k + 1, vqs_unit(pm->varexp->data[k] / 100.0, 1e-9), vq9(dist_pm(tcol, tref, n)));
  }
  if(scaling == 0){ /* magnitude equivariance: the statement of the property does not depend on the unit of the data */
    int kexp = (int)vr_int(&rg, 4, 27) * (vr_int(&rg, 0, 1) ? 1 : -1);
    if(jb->dec + 0.30103 * kexp < -9.5) kexp = -kexp;      /* keep the rescaled data within 1e-9..1e15 */
    if(jb->dec + 0.30103 * kexp > 14.0) kexp = -kexp;
    double cf = ldexp(1.0, kexp);
    tensor *x2; NewTensor(&x2, (size_t)B);
    for(int b = 0; b < B; b++){ NewTensorMatrix(x2, (size_t)b, (size_t)n, (size_t)jb->w[b]); for(int i = 0; i < n; i++) for(int j = 0; j < jb->w[b]; j++) x2->m[b]->data[i][j] = cf * x->m[b]->data[i][j]; }
    CPCAMODEL *m2; NewCPCAModel(&m2);
    CPCA(x2, scaling, (size_t)npc, m2);
    p = 0; p += snprintf(buf + p, sizeof(buf) - p, "{\"e\":\"Scale\",\"kexp\":%d,\"terr\":[", kexp);
    int okshape = ((int)m2->super_scores->col == npc && (int)m2->super_scores->row == n && (int)m2->total_expvar->size == npc && (int)m2->block_expvar->size == npc);
    for(int k = 0; k < npc; k++){
      double e = 2.0;
      if(okshape){ ld na = 0, nb2 = 0; for(int i = 0; i < n; i++){ na += (ld)m->super_scores->data[i][k] * m->super_scores->data[i][k]; nb2 += (ld)m2->super_scores->data[i][k] * m2->super_scores->data[i][k]; }
        if(na > 0 && nb2 > 0){ na = sqrtl(na); nb2 = sqrtl(nb2); ld dp = 0, dm = 0; for(int i = 0; i < n; i++){ ld a = m->super_scores->data[i][k] / na, b2 = m2->super_scores->data[i][k] / nb2; dp += (a - b2) * (a - b2); dm += (a + b2) * (a + b2); } e = sqrt((double)(dp < dm ? dp : dm)); } }
      p += snprintf(buf + p, sizeof(buf) - p, "%s%ld", k ? "," : "", vq9(e));
    }
    p += snprintf(buf + p, sizeof(buf) - p, "],\"verr\":[");
    for(int k = 0; k < npc; k++){ double a = m->total_expvar->data[k], e = (okshape && a > 0) ? fabs(m2->total_expvar->data[k] - a) / a : 2.0; p += snprintf(buf + p, sizeof(buf) - p, "%s%ld", k ? "," : "", vq9(e)); }
    p += snprintf(buf + p, sizeof(buf) - p, "],\"berr\":[");
    for(int k = 0; k < npc; k++){ double e = 0; for(int b = 0; b < B; b++){ double d = okshape ? fabs(m2->block_expvar->d[k]->data[b] - m->block_expvar->d[k]->data[b]) / 100.0 : 2.0; if(!(d <= e)) e = d; } p += snprintf(buf + p, sizeof(buf) - p, "%s%ld", k ? "," : "", vq9(e)); }
    p += snprintf(buf + p, sizeof(buf) - p, "]}");
    VRT_EMIT("%s", buf);
  }
  return 0;
}

static long n_ok = 0, n_abort = 0;
static void run_model(cjob *jb)
{
  VRT_EMIT("{\"e\":\"Reset\"}");
  int diffw = 0; for(int b = 1; b < jb->B; b++) if(jb->w[b] != jb->w[0]) diffw = 1;
  static char buf[512]; int p = 0;
  p += snprintf(buf + p, sizeof(buf) - p, "{\"e\":\"Fit\",\"seed\":%ld,\"n\":%d,\"blocks\":%d,\"widths\":[", jb->mseed, jb->n, jb->B);
  for(int b = 0; b < jb->B; b++) p += snprintf(buf + p, sizeof(buf) - p, "%s%d", b ? "," : "", jb->w[b]);
  p += snprintf(buf + p, sizeof(buf) - p, "],\"scaling\":%d,\"npc\":%d,\"dec\":%d,\"nproc\":%d,\"diffw\":%d}", jb->scaling, jb->npc, jb->dec, jb->nproc, diffw);
  VRT_EMIT("%s", buf);
  int rc = vrt_run_child(child, jb, 900);
  fseek(vrt_out, 0, SEEK_END);
  if(rc != 0){ VRT_EMIT("{\"e\":\"Abort\",\"rc\":%d,\"why\":\"%s\"}", rc, rc == 97 ? "iteration-budget" : rc == 124 ? "watchdog" : rc >= 1000 ? "signal" : "exit"); n_abort++; }
  else n_ok++;
}

int main(int argc, char **argv)
{
  if(argc < 4){ fprintf(stderr, "usage\n"); return 2; }
  vrt_open(argv[1]);
  cjob jb; jb.budget = getenv("C09_ITER_BUDGET") ? atol(getenv("C09_ITER_BUDGET")) : 40000;
  if(!strcmp(argv[2], "one") && argc >= 10){
    jb.mseed = atol(argv[3]); jb.n = atoi(argv[4]); jb.scaling = atoi(argv[5]); jb.npc = atoi(argv[6]); jb.dec = atoi(argv[7]); jb.nproc = atoi(argv[8]); jb.B = atoi(argv[9]);
    if(jb.B < 2 || jb.B > MAXB || argc < 10 + jb.B){ fprintf(stderr, "bad blocks\n"); return 2; }
    for(int b = 0; b < jb.B; b++) jb.w[b] = atoi(argv[10 + b]);
    run_model(&jb);
  }
  else if(!strcmp(argv[2], "sweep") && argc >= 6){
    vrng r; r.s = (uint64_t)atol(argv[3]) * 2654435761u + 31337;
    long count = atol(argv[4]); jb.nproc = atoi(argv[5]);
    for(long it = 0; it < count; it++){
      jb.B = (int)vr_int(&r, 2, 4); int minw = 8;
      for(int b = 0; b < jb.B; b++){ jb.w[b] = (int)vr_int(&r, 1, 8); if(jb.w[b] < minw) minw = jb.w[b]; }
      jb.n = (int)vr_int(&r, 5, 30);
      jb.scaling = (int)vr_int(&r, 0, 6); if(jb.scaling == 6) jb.scaling = 0;
      jb.npc = (int)vr_int(&r, 1, minw); if(jb.npc > jb.n - 1) jb.npc = jb.n - 1;
      jb.dec = jb.scaling == 0 ? (int)vr_int(&r, -8, 6) : (int)vr_int(&r, 0, 3);
      jb.mseed = (long)(vr_next(&r) & 0x3FFFFFFF);
      run_model(&jb);
    }
  }
  else { fprintf(stderr, "bad arguments\n"); return 2; }
  VRT_EMIT("{\"e\":\"Summary\",\"ok\":%ld,\"aborted\":%ld}", n_ok, n_abort);
  vrt_close();
  return 0;
}
