/* c04_drv.c - conformance driver for C04 (PLS is a correct least-squares family).
 * usage: c04_drv <out.ndjson> <seed> <first> <count>
 * Every case has its own stream (seed, index); the real PLS() runs in a child (one processor, iteration budget, watchdog).
 * Sums of squares are logged in units of 1e-9 of D_j (sum of squares of response j about its mean if the response block is
 * centred, about 0 otherwise: RSS_0 = 1e9), residuals in units of 1e-12, both saturating at 2e9.
 *   Reset{case,tries}  Fit{n,p,ny,nlv,xs,ys,noise,intc,cond,nnew}
 *   Rss{a,j,rss,r2gap}       RSS of recalculated_y[:,ny*(a-1)+j] against y_j; r2gap = reported R2 / RMSE of
 *                            PLSRegressionStatistics against 1 - RSS/TSS and sqrt(RSS/n)
 *   Stat{a,j,r2gap,rmsegap}  same statistics on unseen objects (predictions by PLSYPredictorAllLV)
 *   Ols{j,rssPls,rssOls,err,full}   independent least squares (LAPACK dgels): on [1 X] when both blocks are centred; when a block
 *                            is not centred (option -1) on the design the model then spans (no intercept column)
 *   Beta{a,errTrain,errNew}  single response: ybar + s_y * ((x - xbar)/s_x) . PLSBetasCoeff(a) against the score form
 *   Affine{c,lg,d,errTrain,errNew}  single centred response: model of c*y+d against c*(predictions)+d, all LV counts
 *                            (|c| from 1e-8 to 1e8 for centring-only responses; lg = floor(log10|c|))
 *   XScale{lg,errTrain,errNew}   model of X*s (change of units, s = 10^lg..) predicts the same, training and unseen, all LV counts
 *   Reuse{calls,err}         PLSYPredictor for a = 1..nlv into one and the same output matrix against recalculated_y
 *   End{lvs,cols,full,xfull}  Skip{case}  Abort{case,rc}
 */
#include "scientific.h"
#include "verif_rt.h"
#include "pls_common.h"

static unsigned long g_seed;

/* every eighth case ("small-unit" class): one predictor is expressed in small units (spread 1e-4) under a scaling option whose
 * scale factor is then below the library's zero-scale guard (1e-3): the library treats that variable as constant - consistently
 * when fitting and when predicting - so the model has rank p-1; single response, nlv <= p-1 */
#define SMALL_CLASS(idx) ((idx) % 8 == 6)
static void draw_params(pc_case *c, int *nlv, vrng *r, long idx){
  c->intcase = 0;
  c->n = (int)vr_int(r, 6, 40);
  int pmax = c->n - 2 < 10 ? c->n - 2 : 10;
  c->p = (int)vr_int(r, SMALL_CLASS(idx) ? 2 : 1, pmax);
  c->ny = (idx % 2 == 0) ? 1 : (int)vr_int(r, 2, 3);
  c->noise = (int)(idx % 4);
  *nlv = ((idx / 2) % 2 == 0) ? c->p : (int)vr_int(r, 1, c->p);
  c->xs = (int)vr_int(r, -1, 5); c->ys = (int)vr_int(r, -1, 5);
  c->nnew = (int)vr_int(r, 3, 10);
  if(SMALL_CLASS(idx)){ c->xs = (int[]){1, 2, 4}[vr_int(r, 0, 2)]; *nlv = (int)vr_int(r, 1, c->p - 1); }
}

/* admission of a small-unit case: the other columns as usual; the preprocessed X without column jz of full column rank, cond <= maxcond */
static int admit_small(pc_case *c, long jz, double maxcond, double *cond){
  if(!pc_admit_block_skip(c->X, c->xs, jz) || !pc_admit_block(c->Y, c->ys)) return 0;
  matrix *X0; dvector *a, *s; NewMatrix(&X0, c->n, c->p); initDVector(&a); initDVector(&s);
  MatrixPreprocess(c->X, c->xs, a, s, X0);
  double **R = pc_alloc(c->n, c->p - 1), *sv = malloc(sizeof(double) * c->p);
  for(int i = 0; i < c->n; i++){ int q = 0; for(int j = 0; j < c->p; j++) if(j != jz) R[i][q++] = X0->data[i][j]; }
  int ok = 0;
  if(pc_svals(R, c->n, c->p - 1, sv) == 0 && sv[c->p - 2] > 0 && sv[0] / sv[c->p - 2] <= maxcond){ ok = 1; *cond = sv[0] / sv[c->p - 2]; }
  pc_free(R, c->n); free(sv); DelMatrix(&X0); DelDVector(&a); DelDVector(&s);
  return ok;
}

static long q9(double x){ return vq_unit(x, 1e-9); }

static int one_case(void *arg){
  long idx = *(long *)arg;
  vrng r = pc_stream(g_seed, (unsigned long)idx, 4);
  pc_case c; int nlv = 1, tries = 0, ok = 0; double cond = 0; long jz = -1;
  for(tries = 1; tries <= 30; tries++){
    draw_params(&c, &nlv, &r, idx);
    int norm = (c.xs == 1 || c.xs == 2 || c.xs == 4 || c.xs == 5);
    pc_gen_real(&c, &r, norm ? -1.0 : 0.0, norm ? 2.0 : 1.0, c.xs == -1 ? 0.5 : 4.0, c.ys == -1 ? 0.5 : 5.0);
    if(SMALL_CLASS(idx)){
      jz = vr_int(&r, 0, c.p - 1);
      for(int i = 0; i < c.n; i++) c.X->data[i][jz] = 1e-4 * vr_norm(&r);
      for(int i = 0; i < c.nnew; i++) c.Xn->data[i][jz] = 1e-4 * vr_norm(&r);
      if(admit_small(&c, jz, 1e3, &cond)){ ok = 1; break; }
      pc_case_free(&c);
      continue;
    }
    if(pc_admit(&c, 1e3, &cond)){ ok = 1; break; }
    pc_case_free(&c);
  }
  if(!ok){ VRT_EMIT("{\"e\":\"Skip\",\"case\":%ld}", idx); return 0; }
  int n = c.n, p = c.p, ny = c.ny, m = c.nnew;
  VRT_EMIT("{\"e\":\"Reset\",\"case\":%ld,\"tries\":%d}", idx, tries);
  VRT_EMIT("{\"e\":\"Fit\",\"n\":%d,\"p\":%d,\"ny\":%d,\"nlv\":%d,\"xs\":%d,\"ys\":%d,\"noise\":%d,\"intc\":0,\"cond\":%ld,\"nnew\":%d,\"small\":%ld}",
           n, p, ny, nlv, c.xs, c.ys, c.noise, (long)ceil(cond), m, jz);

  PLSMODEL *mod; NewPLSModel(&mod);
  PLS(c.X, c.Y, (size_t)nlv, c.xs, c.ys, mod, NULL);
  int ncol = ny * nlv;
  if(mod->recalculated_y->row != (size_t)n || mod->recalculated_y->col != (size_t)ncol || mod->b->size != (size_t)nlv){
    VRT_EMIT("{\"e\":\"Shape\",\"reccol\":%zu,\"b\":%zu}", mod->recalculated_y->col, mod->b->size);
    return 0;
  }
  double **R = mod->recalculated_y->data, **Y = c.Y->data, **X = c.X->data;

  /* predictions for unseen objects, all LV counts */
  matrix *pn; initMatrix(&pn); PLSYPredictorAllLV(c.Xn, mod, NULL, pn);
  int pnok = (pn->row == (size_t)m && pn->col == (size_t)ncol);
  /* statistics as reported by the library */
  matrix *cc, *rm, *bi; initMatrix(&cc); initMatrix(&rm); initMatrix(&bi);
  PLSRegressionStatistics(c.Y, mod->recalculated_y, cc, rm, bi);
  matrix *ccn, *rmn, *bin; initMatrix(&ccn); initMatrix(&rmn); initMatrix(&bin);
  if(pnok) PLSRegressionStatistics(c.Yn, pn, ccn, rmn, bin);

  double *ybar = malloc(sizeof(double) * ny), *den = malloc(sizeof(double) * ny), *tss = malloc(sizeof(double) * ny);
  for(int j = 0; j < ny; j++){
    ybar[j] = pc_colmean(Y, j, n);
    tss[j] = 0; double s0 = 0;
    for(int i = 0; i < n; i++){ tss[j] += (Y[i][j] - ybar[j]) * (Y[i][j] - ybar[j]); s0 += Y[i][j] * Y[i][j]; }
    den[j] = c.ys >= 0 ? tss[j] : s0;
  }
  for(int a = 1; a <= nlv; a++) for(int j = 0; j < ny; j++){
    int col = ny * (a - 1) + j;
    double rss = 0; for(int i = 0; i < n; i++) rss += (R[i][col] - Y[i][j]) * (R[i][col] - Y[i][j]);
    double ratio = rss / tss[j];
    double g1 = (cc->row == (size_t)nlv && cc->col == (size_t)ny) ? fabs(cc->data[a - 1][j] - (1.0 - ratio)) / (ratio > 1 ? ratio : 1.0) : NAN;
    double g2 = (rm->row == (size_t)nlv && rm->col == (size_t)ny) ? fabs(rm->data[a - 1][j] - sqrt(rss / n)) / sqrt(tss[j] / n) : NAN;
    double g = (g1 == g1 && g2 == g2) ? (g1 > g2 ? g1 : g2) : NAN;
    VRT_EMIT("{\"e\":\"Rss\",\"a\":%d,\"j\":%d,\"rss\":%ld,\"r2gap\":%ld}", a, j, q9(rss / den[j]), pc_q12("r2gap", g));
    /* unseen objects */
    double rn = 0, mn = 0, tn = 0;
    for(int i = 0; i < m; i++) mn += c.Yn->data[i][j];
    mn /= m;
    for(int i = 0; i < m; i++){ tn += (c.Yn->data[i][j] - mn) * (c.Yn->data[i][j] - mn); if(pnok) rn += (pn->data[i][col] - c.Yn->data[i][j]) * (pn->data[i][col] - c.Yn->data[i][j]); }
    double rat = rn / tn;
    double h1 = (pnok && ccn->row == (size_t)nlv) ? fabs(ccn->data[a - 1][j] - (1.0 - rat)) / (rat > 1 ? rat : 1.0) : NAN;
    double h2 = (pnok && rmn->row == (size_t)nlv) ? fabs(rmn->data[a - 1][j] - sqrt(rn / m)) / sqrt(tn / m) : NAN;
    VRT_EMIT("{\"e\":\"Stat\",\"a\":%d,\"j\":%d,\"r2gap\":%ld,\"rmsegap\":%ld}", a, j, pc_q12("r2gapNew", h1), pc_q12("rmsegapNew", h2));
  }

  /* independent least squares */
  {
    int icpt = (c.xs >= 0 && c.ys >= 0), k = p + icpt;
    double **D = pc_alloc(n, k), **Tg = pc_alloc(n, ny), **Bo = pc_alloc(k, ny);
    for(int i = 0; i < n; i++){
      if(icpt) D[i][0] = 1.0;
      for(int j = 0; j < p; j++) D[i][icpt + j] = (c.xs >= 0 && !icpt) ? X[i][j] - pc_colmean(X, j, n) : X[i][j];
      for(int j = 0; j < ny; j++) Tg[i][j] = (c.ys >= 0 && !icpt) ? Y[i][j] - ybar[j] : Y[i][j];
    }
    int info = pc_dgels(D, n, k, Tg, ny, Bo);
    for(int j = 0; j < ny; j++){
      int full = (nlv == p);
      double rs = 0, df = 0, rp = 0;
      for(int i = 0; i < n; i++){ double e = R[i][ny * (nlv - 1) + j] - Y[i][j]; rp += e * e; }
      for(int i = 0; i < n; i++){
        double f = 0; for(int q = 0; q < k; q++) f += D[i][q] * Bo[q][j];
        if(c.ys >= 0 && !icpt) f += ybar[j];
        rs += (f - Y[i][j]) * (f - Y[i][j]);
        double d = R[i][ny * (nlv - 1) + j] - f; df += d * d;
      }
      if(info != 0){ rs = NAN; df = NAN; }
      VRT_EMIT("{\"e\":\"Ols\",\"j\":%d,\"rssPls\":%ld,\"rssOls\":%ld,\"err\":%ld,\"full\":%d}", j, q9(rp / den[j]), q9(rs / den[j]), full ? pc_q12("olsErr", sqrt(df / den[j])) : 0L, full);
    }
    pc_free(D, n); pc_free(Tg, n); pc_free(Bo, k);
  }

  if(ny == 1){
    /* coefficient form against score form */
    for(int a = 1; a <= nlv; a++){
      dvector *be; initDVector(&be);
      PLSBetasCoeff(mod, (size_t)a, be);
      double et = 0, en = 0;
      int bok = (be->size == (size_t)p);
      for(int i = 0; i < n + m && bok; i++){
        double *x = i < n ? X[i] : c.Xn->data[i - n];
        double v = 0; for(int j = 0; j < p; j++) v += pc_prep(x[j], mod->xcolaverage, mod->xcolscaling, j) * be->data[j];
        v = pc_back(v, mod->ycolaverage, mod->ycolscaling, 0);
        if(i < n){ double d = v - R[i][a - 1]; et += d * d; }
        else { double d = pnok ? v - pn->data[i - n][a - 1] : NAN; en += d * d; }
      }
      double sc = sqrt(den[0] / n);
      VRT_EMIT("{\"e\":\"Beta\",\"a\":%d,\"errTrain\":%ld,\"errNew\":%ld}", a, bok ? pc_q12("betaTrain", sqrt(et / n) / sc) : VQ_MAX, bok ? pc_q12("betaNew", sqrt(en / m) / sc) : VQ_MAX);
      DelDVector(&be);
    }
    /* affine equivariance of a centred response */
    if(c.ys >= 0){
      for(int att = 0; att < 20; att++){
        /* change of units of the response.  Centring only (option 0): anything from 1e-8 to 1e8; with a scaling
         * option the scale factor of c*y must stay clear of the library's zero-scale guard (admission below), so moderate c */
        int wide = (c.ys == 0);
        double cf = (vr_int(&r, 0, 1) ? 1.0 : -1.0) * (wide ? pow(10.0, -8.0 + 16.0 * vr_unif(&r)) : pow(10.0, -0.7 + 1.4 * vr_unif(&r)));
        double df = fabs(cf) * sqrt(tss[0] / n) * 20.0 * (2 * vr_unif(&r) - 1);
        matrix *Y2; NewMatrix(&Y2, n, 1);
        for(int i = 0; i < n; i++) Y2->data[i][0] = cf * Y[i][0] + df;
        if(!wide && !pc_admit_block(Y2, c.ys)){ DelMatrix(&Y2); continue; }
        PLSMODEL *m2; NewPLSModel(&m2);
        PLS(c.X, Y2, (size_t)nlv, c.xs, c.ys, m2, NULL);
        matrix *pn2; initMatrix(&pn2); PLSYPredictorAllLV(c.Xn, m2, NULL, pn2);
        double et = 0, en = 0;
        int sok = (m2->recalculated_y->row == (size_t)n && m2->recalculated_y->col == (size_t)nlv && pn2->row == (size_t)m && pn2->col == (size_t)nlv && pnok);
        for(int a = 0; a < nlv && sok; a++){
          double s1 = 0, s2 = 0;
          for(int i = 0; i < n; i++){ double d = m2->recalculated_y->data[i][a] - (cf * R[i][a] + df); s1 += d * d; }
          for(int i = 0; i < m; i++){ double d = pn2->data[i][a] - (cf * pn->data[i][a] + df); s2 += d * d; }
          s1 = sqrt(s1 / n) / (fabs(cf) * sqrt(tss[0] / n)); s2 = sqrt(s2 / m) / (fabs(cf) * sqrt(tss[0] / n));
          if(!(s1 <= et)) et = s1; if(!(s2 <= en)) en = s2;
        }
        long cq = vqs_unit(cf, 1e-3); if(cq == 0) cq = cf < 0 ? -1 : 1;
        VRT_EMIT("{\"e\":\"Affine\",\"c\":%ld,\"lg\":%ld,\"d\":%ld,\"errTrain\":%ld,\"errNew\":%ld}", cq, (long)floor(log10(fabs(cf))), vqs_unit(df / (fabs(cf) * sqrt(tss[0] / n)), 1e-3),
                 sok ? pc_q12("affineTrain", et) : VQ_MAX, sok ? pc_q12("affineNew", en) : VQ_MAX);
        DelMatrix(&pn2); DelPLSModel(&m2); DelMatrix(&Y2);
        break;
      }
    }
  }
  /* the score-based predictor called for a = 1..nlv into ONE output matrix (the natural loop) gives the stored recalculated_y */
  {
    matrix *out; initMatrix(&out);
    double er = 0;
    for(int a = 1; a <= nlv; a++){
      PLSYPredictor(mod->xscores, mod, (size_t)a, out);
      int sh = (out->row == (size_t)n && out->col == (size_t)ny);
      for(int j = 0; j < ny; j++){
        double d2 = 0; for(int i = 0; i < n && sh; i++){ double d = out->data[i][j] - R[i][ny * (a - 1) + j]; d2 += d * d; }
        double e = sh ? sqrt(d2 / n) / sqrt(tss[j] / n) : NAN;
        if(!(e <= er)) er = e;
      }
    }
    VRT_EMIT("{\"e\":\"Reuse\",\"calls\":%d,\"err\":%ld}", nlv, pc_q12("reuse", er));
    DelMatrix(&out);
  }
  /* change of units of the predictors: X * s leaves every prediction unchanged.  Without a scaling factor (options -1, 0, and
   * Pareto's sqrt) s ranges over 1e-8..1e6 as far as the values stay below 1e7; otherwise s is admitted only if every scale factor
   * of X * s stays clear of the zero-scale guard */
  if(jz < 0){
    for(int att = 0; att < 20; att++){
      int freeunits = (c.xs <= 0);
      double s = freeunits ? pow(10.0, -8.0 + 14.0 * vr_unif(&r)) : pow(10.0, -3.0 + 7.0 * vr_unif(&r));
      matrix *X2, *Xn2; NewMatrix(&X2, n, p); NewMatrix(&Xn2, m, p);
      double mx = 0;
      for(int i = 0; i < n; i++) for(int j = 0; j < p; j++){ X2->data[i][j] = X[i][j] * s; if(fabs(X2->data[i][j]) > mx) mx = fabs(X2->data[i][j]); }
      for(int i = 0; i < m; i++) for(int j = 0; j < p; j++){ Xn2->data[i][j] = c.Xn->data[i][j] * s; if(fabs(Xn2->data[i][j]) > mx) mx = fabs(Xn2->data[i][j]); }
      if(mx > 1e7 || (!freeunits && !pc_admit_block(X2, c.xs))){ DelMatrix(&X2); DelMatrix(&Xn2); continue; }
      PLSMODEL *m3; NewPLSModel(&m3);
      PLS(X2, c.Y, (size_t)nlv, c.xs, c.ys, m3, NULL);
      matrix *pn3; initMatrix(&pn3); PLSYPredictorAllLV(Xn2, m3, NULL, pn3);
      int sok = (m3->recalculated_y->row == (size_t)n && m3->recalculated_y->col == (size_t)ncol && pn3->row == (size_t)m && pn3->col == (size_t)ncol && pnok);
      double et = 0, en = 0;
      for(int col = 0; col < ncol && sok; col++){
        int j = col % ny; double sc = sqrt(tss[j] / n), s1 = 0, s2 = 0;
        for(int i = 0; i < n; i++){ double d = m3->recalculated_y->data[i][col] - R[i][col]; s1 += d * d; }
        for(int i = 0; i < m; i++){ double d = pn3->data[i][col] - pn->data[i][col]; s2 += d * d; }
        s1 = sqrt(s1 / n) / sc; s2 = sqrt(s2 / m) / sc;
        if(!(s1 <= et)) et = s1; if(!(s2 <= en)) en = s2;
      }
      VRT_EMIT("{\"e\":\"XScale\",\"lg\":%ld,\"errTrain\":%ld,\"errNew\":%ld}", (long)floor(log10(s)), sok ? pc_q12("xscaleTrain", et) : VQ_MAX, sok ? pc_q12("xscaleNew", en) : VQ_MAX);
      DelMatrix(&pn3); DelPLSModel(&m3); DelMatrix(&X2); DelMatrix(&Xn2);
      break;
    }
  }
  VRT_EMIT("{\"e\":\"End\",\"lvs\":%d,\"cols\":%d,\"full\":%d,\"xfull\":0}", nlv, ncol, nlv == p ? 1 : 0);
  pc_max_print();
  free(ybar); free(den); free(tss);
  DelMatrix(&pn); DelMatrix(&cc); DelMatrix(&rm); DelMatrix(&bi); DelMatrix(&ccn); DelMatrix(&rmn); DelMatrix(&bin);
  DelPLSModel(&mod); pc_case_free(&c);
  return 0;
}

int main(int argc, char **argv){
  if(argc < 5){ fprintf(stderr, "usage: c04_drv out seed first count\n"); return 2; }
  vrt_open(argv[1]);
  g_seed = strtoul(argv[2], 0, 10);
  long first = atol(argv[3]), count = atol(argv[4]);
  vrt_force_nproc(1);
  vrt_install_iter_budget(20000, 0);
  for(long idx = first; idx < first + count; idx++){
    int rc = vrt_run_child(one_case, &idx, 60);
    if(rc != 0) VRT_EMIT("{\"e\":\"Abort\",\"case\":%ld,\"rc\":%d}", idx, rc);
  }
  vrt_close();
  return 0;
}
