/* c04_drv.c - conformance driver for C04 (PLS is a correct least-squares family).
 * usage: c04_drv <out.ndjson> <seed> <first> <count> [base|cls|pairs]
 * Every case has its own stream (seed, index); the real PLS() runs in a child (one processor, iteration budget, watchdog).
 * Sums of squares are logged in units of 1e-9 of D_j (sum of squares of response j about its mean if the response block is
 * centred, about 0 otherwise: RSS_0 = 1e9), residuals in units of 1e-12, both saturating at 2e9.
 *
 * mode base: the original seeded problems (tall X with n >= p+2, offsets of a few spreads, every eighth case with one predictor in
 *            small units).
 * mode pairs: base problems with the pair of scaling options (7 x 7) and one / several responses fixed by the case index % 98, nlv = rank:
 *            the quantifier "all scaling pairs" is covered exhaustively for the OLS limit (the ledger keeps the set of pairs decided).
 * mode cls:  the case index selects an input / history class of INPUT-CLASSES.md inside the quantifier (idx % 16, table KD_SCHED, see
 *            c04_gen.h): n = p+1, n = p+2, square X used uncentred, block-size boundaries, offsets up to 1e8 spreads on centred
 *            blocks, whole-block magnitudes, per-column unit systems, tied non-representable grids, in-process histories (fit A,
 *            fit A' same shape other data, fit B other shape, fit A again, every one projected, outputs carried from fit to fit),
 *            exact fits before nlv = rank, dependent responses, single predictor / one unseen object, affine maps with a large d,
 *            duplicate objects.  In this mode every output object handed to the library is fresh / already has the right shape and
 *            holds other data / has another shape and holds other data (Fit.reuse 0 / 1 / 2; 3 = left over from the previous fit).
 *
 *   Reset{case,tries,sub}    sub = position of the fit in its process (0 = first fit of a new process)
 *   Fit{n,p,ny,nlv,xs,ys,noise,intc,cond,nnew,small,rank,offx,offy,lgx,lgy,shape,kind,tag,reuse,hist,hrel,exk,nb,pb,lb}
 *                            rank = numerical rank of the preprocessed X as the library sees it; offx / offy = largest |entry| / rms
 *                            spread of a centred block (0 for a block used as it is); exk = number of latent variables after which
 *                            the fit is exact by construction (0: none); nb / pb / lb = block-boundary codes of n, p, nlv
 *   Rss{a,j,rss,r2gap,r2,dr} RSS of recalculated_y[:,ny*(a-1)+j] against y_j; r2gap = reported R2 / RMSE of PLSRegressionStatistics
 *                            against 1 - RSS/TSS and sqrt(RSS/n); r2 = the reported R2 itself (1e-9, signed, saturating),
 *                            dr = D_j / TSS_j (1e-3; 1000 for a centred response)
 *   Stat{a,j,r2gap,rmsegap}  same statistics on unseen objects (predictions by PLSYPredictorAllLV); R2 only when the unseen
 *                            responses are not all equal
 *   Bias{a,j,gap,gapNew}     reported bias against |1 - slope of predicted on observed| (training / unseen)       [extra layer]
 *   Ols{j,rssPls,rssOls,err,full,bn}   independent least squares (LAPACK dgels) on the design the model spans: predictors / responses
 *                            centred in extended precision when the block is centred, no intercept column otherwise;
 *                            bn = sum_j |beta_j| sd(x_j) / sd(y) of that solution (1e-3): how far a shift of the predictor means moves the fit
 *   OlsNew{j,err,bn,lev}     nlv = rank: the least-squares coefficients applied to the unseen objects against PLSYPredictorAllLV   [extra layer]
 *   Beta{a,errTrain,errNew}  single response: ybar + s_y * ((x - xbar)/s_x) . PLSBetasCoeff(a) against the score form
 *   Affine{c,lg,d,off,errTrain,errNew}  single centred response: model of c*y+d against c*(predictions)+d, all LV counts
 *                            (|c| from 1e-8 to 1e8 for centring-only responses; lg = floor(log10|c|)); off = offset of c*y+d in spreads
 *   XScale{lg,errTrain,errNew}   model of X*s (change of units) predicts the same, training and unseen, all LV counts
 *   XUnits{kmax,errTrain,errNew} per-column unit systems: the model of X with every column in its original units predicts the same  [extra layer]
 *   Exact{a,rss}             by construction the fit is exact from exk latent variables on                          [extra layer]
 *   Reuse{calls,err}         PLSYPredictor for a = 1..nlv into one and the same output matrix against recalculated_y
 *   End{lvs,cols,full,xfull,addr}  addr = 1: the model object lives at the address a model of an earlier fit of this process had
 *   Skip{case}  Abort{case,rc}
 */
#include "scientific.h"
#include "verif_rt.h"
#include "pls_common.h"
#include "c04_gen.h"

static unsigned long g_seed;
static int g_cls = 0, g_pairs = 0;

enum { KD_BASE = 0, KD_TALL1, KD_TALL2, KD_SQUARE, KD_BLOCK, KD_OFFX, KD_OFFY, KD_OFFXY, KD_MAGN, KD_UNITS, KD_GRID, KD_HIST, KD_EXACT,
       KD_YREL, KD_EDGE, KD_AFFOFF, KD_DUPROW, KD_N };
static const char *KD_NAME[KD_N] = {"base", "tall1", "tall2", "square", "block", "offx", "offy", "offxy", "magn", "units", "grid", "hist", "exact",
                                    "yrel", "edge", "affoff", "duprow"};
static const int KD_SCHED[16] = {KD_TALL1, KD_TALL2, KD_SQUARE, KD_BLOCK, KD_OFFX, KD_OFFY, KD_OFFXY, KD_MAGN, KD_UNITS, KD_GRID, KD_HIST, KD_EXACT,
                                 KD_YREL, KD_EDGE, KD_AFFOFF, KD_DUPROW};

typedef struct {
  pc_case c; int kind, nlv, rank, tries, lgx, lgy, reuse, hist, exk, kmax; long jz; double cond; char tag[72];
  matrix *Xorig, *Xnorig;         /* per-column unit class: the same predictors in their original units */
} c4_prob;

/* output objects handed to the library; in a history they live from fit to fit */
typedef struct { matrix *pn, *cc, *rm, *bi, *ccn, *rmn, *bin, *out, *pn2, *pn3; dvector *be; } c4_outs;
static void outs_init(c4_outs *o){
  initMatrix(&o->pn); initMatrix(&o->cc); initMatrix(&o->rm); initMatrix(&o->bi); initMatrix(&o->ccn); initMatrix(&o->rmn); initMatrix(&o->bin);
  initMatrix(&o->out); initMatrix(&o->pn2); initMatrix(&o->pn3); initDVector(&o->be);
}
/* reuse 0: a fresh object; 1: already rows x cols, holding other data; 2: another shape, holding other data; 3: whatever the previous fit left */
static void prep_m(matrix **m, int reuse, size_t rows, size_t cols){
  if(reuse == 3) return;
  DelMatrix(m);
  if(reuse == 0){ initMatrix(m); return; }
  if(reuse == 1) NewMatrix(m, rows, cols); else NewMatrix(m, rows + 1, cols + 2);
  MatrixSet(*m, 7.25);
}
static void prep_v(dvector **v, int reuse, size_t size){
  if(reuse == 3) return;
  DelDVector(v);
  if(reuse == 0){ initDVector(v); return; }
  NewDVector(v, reuse == 1 ? size : size + 3);
  DVectorSet(*v, 7.25);
}

/* every eighth case of the base mode ("small-unit" class): one predictor is expressed in small units (spread 1e-4) under a scaling option whose
 * scale factor is then below the library's zero-scale guard (1e-3): the library treats that variable as constant - consistently
 * when fitting and when predicting - so the model has rank p-1; single response, nlv <= p-1 */
#define SMALL_CLASS(idx) ((idx) % 8 == 6)
static void draw_params(pc_case *c, int *nlv, vrng *r, long idx){
  c->intcase = 0;
  c->n = (int)vr_int(r, 6, 40);
  int pmax = c->n - 2 < 10 ? c->n - 2 : 10;
  c->p = (int)vr_int(r, SMALL_CLASS(idx) ? 2 : 1, pmax);
  c->ny = (idx % 2 == 0) ? 1 : (int)vr_int(r, 2, 3);
  c->noise = (int)(idx % 4);
  *nlv = ((idx / 2) % 2 == 0) ? c->p : (int)vr_int(r, 1, c->p);
  c->xs = (int)vr_int(r, -1, 5); c->ys = (int)vr_int(r, -1, 5);
  c->nnew = (int)vr_int(r, 3, 10);
  if(SMALL_CLASS(idx)){ c->xs = (int[]){1, 2, 4}[vr_int(r, 0, 2)]; *nlv = (int)vr_int(r, 1, c->p - 1); }
}

/* admission of a small-unit case: the other columns as usual; the preprocessed X without column jz of full column rank, cond <= maxcond */
static int admit_small(pc_case *c, long jz, double maxcond, double *cond){
  if(!pc_admit_block_skip(c->X, c->xs, jz) || !pc_admit_block(c->Y, c->ys)) return 0;
  matrix *X0; dvector *a, *s; NewMatrix(&X0, c->n, c->p); initDVector(&a); initDVector(&s);
  MatrixPreprocess(c->X, c->xs, a, s, X0);
  double **R = pc_alloc(c->n, c->p - 1), *sv = malloc(sizeof(double) * c->p);
  for(int i = 0; i < c->n; i++){ int q = 0; for(int j = 0; j < c->p; j++) if(j != jz) R[i][q++] = X0->data[i][j]; }
  int ok = 0;
  if(pc_svals(R, c->n, c->p - 1, sv) == 0 && sv[c->p - 2] > 0 && sv[0] / sv[c->p - 2] <= maxcond){ ok = 1; *cond = sv[0] / sv[c->p - 2]; }
  pc_free(R, c->n); free(sv); DelMatrix(&X0); DelDVector(&a); DelDVector(&s);
  return ok;
}

static long q9(double x){ return vq_unit(x, 1e-9); }
/* block-boundary code of a size: 0 multiple of 4, 1 one above, 3 one below, 2 in between; +4 when it is 8k-1 / 8k / 8k+1 (8, 16, 32, 40 +- 1) */
static int blk_code(int v){ int c = v % 4; if(v >= 7 && (v % 8 == 0 || v % 8 == 1 || v % 8 == 7)) c += 4; return c; }

/* size of the least-squares coefficients of the problem, sum_j |beta_j| sd(x_j) / sd(y), worst response (centred predictors; from the input alone):
 * a predictor block far from the origin is admitted only when it is at most 50 (the ledger's tolerance multiplies the representability of the
 * predictor means by it) */
static double bnorm_of(pc_case *c){
  int n = c->n, p = c->p, ny = c->ny;
  double **D = pc_alloc(n, p), **Tg = pc_alloc(n, ny), **Bo = pc_alloc(p, ny), worst = 0;
  double *sdx = calloc(p, sizeof(double));
  for(int j = 0; j < p; j++){ long double mm = 0; for(int i = 0; i < n; i++) mm += c->X->data[i][j]; mm /= n; for(int i = 0; i < n; i++){ D[i][j] = (double)((long double)c->X->data[i][j] - mm); sdx[j] += D[i][j] * D[i][j]; } sdx[j] = sqrt(sdx[j] / n); }
  double *sdy = calloc(ny, sizeof(double));
  for(int j = 0; j < ny; j++){ long double mm = 0; for(int i = 0; i < n; i++) mm += c->Y->data[i][j]; mm /= n; if(c->ys < 0) mm = 0; for(int i = 0; i < n; i++) Tg[i][j] = (double)((long double)c->Y->data[i][j] - mm);
    double m2 = pc_colmean(c->Y->data, j, n); for(int i = 0; i < n; i++) sdy[j] += (c->Y->data[i][j] - m2) * (c->Y->data[i][j] - m2); sdy[j] = sqrt(sdy[j] / n); }
  if(pc_dgels(D, n, p, Tg, ny, Bo) != 0) worst = INFINITY;
  else for(int j = 0; j < ny; j++){ double b = 0; for(int q = 0; q < p; q++) b += fabs(Bo[q][j]) * sdx[q]; b /= sdy[j]; if(!(b <= worst)) worst = b; }
  pc_free(D, n); pc_free(Tg, n); pc_free(Bo, p); free(sdx); free(sdy);
  return worst;
}

static void gen_default(pc_case *c, vrng *r){
  int norm = (c->xs == 1 || c->xs == 2 || c->xs == 4 || c->xs == 5);
  pc_gen_real(c, r, norm ? -1.0 : 0.0, norm ? 2.0 : 1.0, c->xs == -1 ? 0.5 : 4.0, c->ys == -1 ? 0.5 : 5.0);
}

/* one admissible problem of the base mode: exactly the draws of the original driver */
static int draw_base(c4_prob *q, vrng *r, long idx){
  pc_case *c = &q->c;
  memset(q, 0, sizeof(*q)); q->kind = KD_BASE; q->jz = -1; strcpy(q->tag, "-");
  for(q->tries = 1; q->tries <= 30; q->tries++){
    draw_params(c, &q->nlv, r, idx);
    gen_default(c, r);
    if(SMALL_CLASS(idx)){
      q->jz = vr_int(r, 0, c->p - 1);
      for(int i = 0; i < c->n; i++) c->X->data[i][q->jz] = 1e-4 * vr_norm(r);
      for(int i = 0; i < c->nnew; i++) c->Xn->data[i][q->jz] = 1e-4 * vr_norm(r);
      if(admit_small(c, q->jz, 1e3, &q->cond)){ q->rank = c->p - 1; return 1; }
      pc_case_free(c);
      continue;
    }
    if(pc_admit(c, 1e3, &q->cond)){ q->rank = c->p; return 1; }
    pc_case_free(c);
  }
  return 0;
}

/* mode pairs: the quantifier "all scaling pairs", stratified: case index % 98 fixes the pair of scaling options (7 x 7) and one / several
 * responses; tall problem as in the base mode, nlv = rank so that the OLS limit (S1) is decided on every pair */
static int draw_pairs(c4_prob *q, vrng *r, long idx){
  pc_case *c = &q->c;
  memset(q, 0, sizeof(*q)); q->kind = KD_BASE; q->jz = -1; strcpy(q->tag, "pairs");
  for(q->tries = 1; q->tries <= 60; q->tries++){
    c->intcase = 0;
    c->n = (int)vr_int(r, 6, 40);
    int pmax = c->n - 2 < 10 ? c->n - 2 : 10;
    c->p = (int)vr_int(r, 1, pmax);
    c->xs = (int)(idx % 7) - 1; c->ys = (int)((idx / 7) % 7) - 1;
    c->ny = ((idx / 49) % 2 == 0) ? 1 : (int)vr_int(r, 2, 3);
    c->noise = (int)((idx / 98) % 4);
    c->nnew = (int)vr_int(r, 3, 10);
    q->nlv = c->p;
    gen_default(c, r);
    if(pc_admit(c, 1e3, &q->cond)){ q->rank = c->p; return 1; }
    pc_case_free(c);
  }
  return 0;
}

/* one admissible problem of class `kind`; shape_like != NULL: same shape, options, noise class and LV count as that problem, other data */
static int draw_class(c4_prob *q, vrng *r, long idx, int kind, c4_prob *shape_like, int other_shape){
  pc_case *c = &q->c;
  long round = idx / 16;
  memset(q, 0, sizeof(*q)); q->kind = kind; q->jz = -1;
  for(q->tries = 1; q->tries <= 40; q->tries++){
    int lvrank = (int)((round + idx) % 3 != 1), lvmin = 1, lvforce = 0; double lvu = vr_unif(r);
    strcpy(q->tag, "-"); q->lgx = q->lgy = 0; q->exk = 0; q->kmax = 0; q->Xorig = q->Xnorig = NULL;
    q->reuse = (int)vr_int(r, 0, 2);
    c->intcase = 0;
    c->xs = (int)vr_int(r, -1, 5); c->ys = (int)vr_int(r, -1, 5);
    c->ny = (round % 2 == 0) ? 1 : (int)vr_int(r, 2, 3);
    c->noise = (int)vr_int(r, 0, 3);
    c->nnew = (int)vr_int(r, 3, 10);
    c->n = (int)vr_int(r, 6, 40); { int pm = c->n - 2 < 10 ? c->n - 2 : 10; c->p = (int)vr_int(r, 1, pm); }
    int sub = 0;
    switch(kind){
      case KD_TALL1: c->p = (int)vr_int(r, 5, 10); c->n = c->p + 1; strcpy(q->tag, "K1:n=p+1"); break;
      case KD_TALL2: c->p = (int)vr_int(r, 4, 10); c->n = c->p + 2; strcpy(q->tag, "K1:n=p+2"); break;
      case KD_SQUARE: c->p = (int)vr_int(r, 6, 10); c->n = c->p; c->xs = -1; strcpy(q->tag, "K1:square-uncentred"); break;
      case KD_BLOCK: {
        static const int NB[] = {7, 8, 9, 15, 16, 17, 31, 32, 33, 39, 40, 12, 24}, PB[] = {3, 4, 5, 7, 8, 9};
        c->n = NB[vr_int(r, 0, 12)]; c->p = PB[vr_int(r, 0, 5)]; if(c->p > c->n - 2) c->p = c->n - 2;
        if(round % 4 != 3) c->ny = 1;                                   /* the coefficient form (unrolled products) needs one response */
        lvforce = PB[vr_int(r, 0, 5)]; if(lvforce > c->p) lvforce = c->p;
        strcpy(q->tag, "K2:block"); break; }
      case KD_OFFX: case KD_OFFY: case KD_OFFXY:
        /* K3 moves CENTRED blocks only: on a block used as it is the offset is signal (no bound computable from the input holds);
         * level scaling (5) divides by the mean and is refused by the admission test for such columns anyway */
        if(kind != KD_OFFY) c->xs = (int)vr_int(r, 0, 4);
        if(kind != KD_OFFX) c->ys = (int)vr_int(r, 0, 4);
        break;
      case KD_MAGN: {
        int small = (int)vr_int(r, 0, 1), which = (int)vr_int(r, 0, 2), lg = small ? -(int)vr_int(r, 3, 6) : (int)vr_int(r, 3, 5);
        if(which != 1) q->lgx = lg;
        if(which != 0) q->lgy = lg;
        if(q->lgx < 0) c->xs = (int)vr_int(r, -1, 0);       /* a block in tiny units can only be centred: scaled options meet the zero-scale guard (C10) */
        if(q->lgy < 0) c->ys = (int)vr_int(r, -1, 0);
        break; }
      case KD_UNITS: c->xs = (int[]){1, 2, 4, 5}[vr_int(r, 0, 3)]; if(c->p < 2) c->p = 2; break;
      case KD_EXACT:
        /* 0 / 1: orthogonal groups (exact up to rounding), 2: two-level design in units of 1 (exactly zero residual -> null LVs),
         * 3: the same design in other units (x s, or autoscaled): the residual after the exact fit is rounding residue, the next latent
         *    variables are asked of a response that has nothing left,
         * 4: two-level design whose response carries an interaction that is not among the predictors: after the first latent variable the
         *    residual is LARGE and exactly orthogonal to every predictor (no covariance left although the response is not exhausted) */
        sub = (int)(round % 6);                                 /* 5: as 4 with two responses, the one with the largest variance being the pure interaction */
        if(sub < 2){
          c->n = (int)vr_int(r, 10, 30); c->p = (int)vr_int(r, 4, 8); c->noise = 0;
          c->xs = sub == 0 ? 0 : 1; c->ys = (int)vr_int(r, 0, 4); c->ny = (round % 2 == 0) ? 1 : 2;
        } else if(sub >= 4){
          c->n = 16; c->p = (int[]){4, 5, 6, 8, 9, 10}[vr_int(r, 0, 5)]; c->noise = 2;
          c->xs = (int[]){-1, 0, 1}[vr_int(r, 0, 2)]; c->ys = 0; c->ny = sub == 4 ? 1 : 2;
        } else {
          c->n = vr_int(r, 0, 1) ? 8 : 16; c->p = (int)vr_int(r, 3, c->n == 8 ? 6 : 10); c->noise = 0;
          c->xs = (int)vr_int(r, -1, sub == 3 ? 1 : 0); c->ys = 0; c->ny = 1;
        }
        lvmin = 2;
        break;
      case KD_YREL: c->ny = (int)vr_int(r, 2, 3); break;
      case KD_EDGE:
        sub = (int)(round % 4);
        if(sub == 0){ c->p = 1; lvrank = 1; strcpy(q->tag, "K1:single-predictor"); }
        else if(sub == 1){ c->nnew = (int)vr_int(r, 1, 2); strcpy(q->tag, "K1:one-or-two-unseen"); }
        else if(sub == 3){ c->n = (int)vr_int(r, 6, 9); c->p = (int)vr_int(r, 1, c->n - 2); c->nnew = 10; strcpy(q->tag, "K1:unseen>training"); }
        else { if(c->p < 3){ c->p = 3; if(c->n < 6) c->n = 6; } lvforce = 1; c->ny = (int)vr_int(r, 2, 3); strcpy(q->tag, "K1:nlv=1,ny>1"); }
        break;
      case KD_AFFOFF: c->ny = 1; c->ys = (int)vr_int(r, 0, 4); strcpy(q->tag, "K3:affine-d"); break;
      case KD_DUPROW: if(c->n < c->p + 4) c->n = c->p + 4; if(c->n > 40){ c->n = 40; c->p = 10; } break;
      case KD_HIST: break;
      default: break;
    }
    if(kind == KD_HIST){
      if(shape_like){ pc_case *a = &shape_like->c; c->n = a->n; c->p = a->p; c->ny = a->ny; c->xs = a->xs; c->ys = a->ys; c->noise = a->noise; c->nnew = a->nnew; lvforce = shape_like->nlv; }
      else if(other_shape){
        /* another shape class than a tall problem of moderate size: n = p+1 or a much larger / smaller one */
        if(vr_int(r, 0, 1)){ c->p = (int)vr_int(r, 5, 10); c->n = c->p + 1; } else { c->n = (int)vr_int(r, 30, 40); c->p = (int)vr_int(r, 1, 3); }
      }
      strcpy(q->tag, "K7:hist");
    }
    if(kind == KD_EXACT){
      NewMatrix(&c->X, c->n, c->p); NewMatrix(&c->Y, c->n, c->ny); NewMatrix(&c->Xn, c->nnew, c->p); NewMatrix(&c->Yn, c->nnew, c->ny);
      if(sub < 2){
        int groups = sub == 0 ? (int)vr_int(r, 1, c->p < 3 ? c->p : 3) : 1 + (int)vr_int(r, 0, 2);
        c4_orthogonal_groups(c, r, groups);
        q->exk = (sub == 0 ? groups : 1) * c->ny;             /* autoscaling equalises the column norms: one eigenvalue; block Krylov: ny per eigenvalue */
        if(q->exk > c->p) q->exk = c->p;
        snprintf(q->tag, sizeof(q->tag), "K8:exact-at-%d", q->exk);
      } else {
        c4_two_level(c, r, sub == 4 ? 1 : sub == 5 ? 2 : 0);
        /* other units than 1: every entry +-s with s not a power of two (options -1 / 0), or the sample standard deviation of a +-1 column (option 1) */
        double su = 1.0;
        if(sub == 3 && c->xs <= 0) su = pow(10.0, -2.0 + 4.0 * vr_unif(r));
        if(sub >= 4 && c->xs <= 0 && vr_int(r, 0, 1)) su = pow(10.0, -2.0 + 4.0 * vr_unif(r));
        if(su != 1.0){ c4_scale(c->X, su); c4_scale(c->Xn, su); }
        q->exk = sub >= 4 ? 0 : 1;
        strcpy(q->tag, sub == 2 ? "K8:exact-zero-residual" : sub == 3 ? "K8:exact-then-rounding-residue" : (su == 1.0 && c->xs <= 0) ? "K8:residual-orthogonal-to-X" : "K8:residual-orthogonal-to-X,other-units");
        if(sub == 5) strcat(q->tag, ",start-response");
      }
    } else gen_default(c, r);

    int n = c->n, p = c->p;
    if(kind == KD_OFFX || kind == KD_OFFXY) c4_relocate(c->X, c->Xn, r, 2.0, 8.0);
    if(kind == KD_OFFY || kind == KD_OFFXY) c4_relocate(c->Y, c->Yn, r, 2.0, 8.0);
    if(kind == KD_OFFX || kind == KD_OFFY || kind == KD_OFFXY) snprintf(q->tag, sizeof(q->tag), "K3:%s", kind == KD_OFFX ? "x" : kind == KD_OFFY ? "y" : "xy");
    if(kind == KD_MAGN){
      if(q->lgx){ c4_scale(c->X, pow(10.0, q->lgx)); c4_scale(c->Xn, pow(10.0, q->lgx)); }
      if(q->lgy){ c4_scale(c->Y, pow(10.0, q->lgy)); c4_scale(c->Yn, pow(10.0, q->lgy)); }
      snprintf(q->tag, sizeof(q->tag), "K4:%s", (q->lgx < 0 || q->lgy < 0) ? "small" : "large");
    }
    if(kind == KD_UNITS){
      /* original units: every column with a spread of 15 .. 26 (offsets of a few spreads), so that 2^-8 stays clear of the zero-scale guard
       * and 2^15 below 1e7 */
      for(int j = 0; j < p; j++){
        double mean, sd; c4_col_stats(c->X, j, &mean, &sd);
        double f = (0.06 + 0.04 * vr_unif(r)) * 256.0 / sd;
        c4_scale_col(c->X, j, f); c4_scale_col(c->Xn, j, f);
      }
      initMatrix(&q->Xorig); MatrixCopy(c->X, &q->Xorig); initMatrix(&q->Xnorig); MatrixCopy(c->Xn, &q->Xnorig);
      for(int j = 0; j < p; j++){
        int k = (int)vr_int(r, -8, 15); if(abs(k) > q->kmax) q->kmax = abs(k);
        c4_scale_col(c->X, j, ldexp(1.0, k)); c4_scale_col(c->Xn, j, ldexp(1.0, k));
      }
      strcpy(q->tag, "K4:per-column-units");
    }
    if(kind == KD_GRID){
      static const double ST[3] = {0.1, 1.0 / 3.0, 1e-3};
      int sx = (int)vr_int(r, 0, 2), sy = (int)vr_int(r, 0, 2);
      c4_snap(c->X, c->Xn, ST[sx], 3.0 + 3.0 * vr_int(r, 0, 1)); c4_snap(c->Y, c->Yn, ST[sy], sy == 2 ? 400.0 : 6.0);
      if(ST[sx] < 0.01 && c->xs >= 1){ c4_scale(c->X, 1000.0); c4_scale(c->Xn, 1000.0); }      /* keep scaled blocks away from the zero-scale guard */
      if(ST[sy] < 0.01 && c->ys >= 1){ c4_scale(c->Y, 1000.0); c4_scale(c->Yn, 1000.0); }
      strcpy(q->tag, "K5:grid");
    }
    if(kind == KD_YREL){
      int rel = (int)vr_int(r, 0, 2);
      double **Y = c->Y->data, **Yn = c->Yn->data;
      for(int i = 0; i < n + c->nnew; i++){
        double *y = i < n ? Y[i] : Yn[i - n];
        if(rel == 0) y[1] = y[0];                                      /* duplicated response: exactly tied variances */
        else if(rel == 1) y[1] = 3.0 - y[0];                           /* mirrored */
        else if(c->ny == 3) y[2] = 2.0 * y[0] - y[1] + 3.0;            /* exact linear combination of the others */
        else y[1] = 0.5 * y[0] + 1.0;
      }
      snprintf(q->tag, sizeof(q->tag), "K8:%s", rel == 0 ? "y-duplicate" : rel == 1 ? "y-mirrored" : "y-dependent");
    }
    if(kind == KD_DUPROW){
      int pairs = n - p - 2 >= 2 ? 2 : 1, withy = (int)vr_int(r, 0, 1);
      for(int k = 0; k < pairs; k++){
        int i1 = (int)vr_int(r, 0, n - 1), i2 = (int)vr_int(r, 0, n - 1); if(i1 == i2) i2 = (i1 + 1) % n;
        for(int j = 0; j < p; j++) c->X->data[i2][j] = c->X->data[i1][j];
        if(withy) for(int j = 0; j < c->ny; j++) c->Y->data[i2][j] = c->Y->data[i1][j];
      }
      snprintf(q->tag, sizeof(q->tag), "K8:%s", withy ? "dup-rows" : "dup-xrows");
    }
    if(c4_admit(c, 1e3, &q->cond) && !((kind == KD_OFFX || kind == KD_OFFXY) && !(bnorm_of(c) <= 49.0))){
      q->rank = p;
      q->nlv = lvforce ? lvforce : lvrank ? p : lvmin + (int)(lvu * (p - lvmin + 1));
      if(q->nlv > p) q->nlv = p;
      if(q->nlv < 1) q->nlv = 1;
      return 1;
    }
    pc_case_free(c);
    if(q->Xorig){ DelMatrix(&q->Xorig); DelMatrix(&q->Xnorig); }
  }
  return 0;
}

/* slope-based bias as the library defines it: |1 - cov(pred, true) / var(true)| */
static double bias_def(double **T, int jt, double **P, int jp, int n){
  long double mt = 0, mp = 0, sxy = 0, sxx = 0;
  for(int i = 0; i < n; i++){ mt += T[i][jt]; mp += P[i][jp]; }
  mt /= n; mp /= n;
  for(int i = 0; i < n; i++){ sxy += (P[i][jp] - mp) * (T[i][jt] - mt); sxx += (T[i][jt] - mt) * (T[i][jt] - mt); }
  return (double)fabsl(1.0L - sxy / sxx);
}

/* Fit .. End for one fitted model.  Outputs in `o` (see prep_m); r feeds the paired models */
static void project(c4_prob *q, c4_outs *o, vrng *r, long idx){
  pc_case c = q->c; int nlv = q->nlv; long jz = q->jz;
  int n = c.n, p = c.p, ny = c.ny, m = c.nnew, reuse = q->reuse;
  int cls = (q->kind != KD_BASE);
  double offx = c.xs >= 0 ? c4_offset(c.X, jz) : 0, offy = c.ys >= 0 ? c4_offset(c.Y, -1) : 0;
  int bigoff = (offx >= 1000 || offy >= 1000);
  /* history of this process: position of the fit and its relation to the previous one (the ledger derives both again) */
  static int h_n = 0, h_dims[4];
  const char *hrel = h_n == 0 ? "first" : (h_dims[0] == n && h_dims[1] == p && h_dims[2] == ny && h_dims[3] == nlv) ? "same" : "other";
  int hpos = h_n;
  h_n++; h_dims[0] = n; h_dims[1] = p; h_dims[2] = ny; h_dims[3] = nlv;
  VRT_EMIT("{\"e\":\"Fit\",\"n\":%d,\"p\":%d,\"ny\":%d,\"nlv\":%d,\"xs\":%d,\"ys\":%d,\"noise\":%d,\"intc\":0,\"cond\":%ld,\"nnew\":%d,\"small\":%ld,"
           "\"rank\":%d,\"offx\":%ld,\"offy\":%ld,\"lgx\":%d,\"lgy\":%d,\"shape\":\"%s\",\"kind\":\"%s\",\"tag\":\"%s\",\"reuse\":%d,\"hist\":%d,\"hrel\":\"%s\",\"exk\":%d,"
           "\"nb\":%d,\"pb\":%d,\"lb\":%d}",
           n, p, ny, nlv, c.xs, c.ys, c.noise, (long)ceil(q->cond), m, jz, q->rank, c4_cap9(offx), c4_cap9(offy), q->lgx, q->lgy,
           n > p + 1 ? "tall" : n == p + 1 ? "tall1" : "square", KD_NAME[q->kind], q->tag, reuse, hpos, hrel, q->exk, blk_code(n), blk_code(p), blk_code(nlv));

  PLSMODEL *mod; NewPLSModel(&mod);
  /* does this model object live where a model of an earlier fit of this process lived?  (addresses kept as integers, taken before the free) */
  static uintptr_t h_freed[8]; static int h_nfreed = 0;
  int addr_reused = 0;
  for(int i = 0; i < h_nfreed; i++) if(h_freed[i] == (uintptr_t)mod) addr_reused = 1;
  PLS(c.X, c.Y, (size_t)nlv, c.xs, c.ys, mod, NULL);
  int ncol = ny * nlv;
  if(mod->recalculated_y->row != (size_t)n || mod->recalculated_y->col != (size_t)ncol || mod->b->size != (size_t)nlv){
    VRT_EMIT("{\"e\":\"Shape\",\"reccol\":%zu,\"b\":%zu}", mod->recalculated_y->col, mod->b->size);
    DelPLSModel(&mod);
    return;
  }
  double **R = mod->recalculated_y->data, **Y = c.Y->data, **X = c.X->data;

  /* predictions for unseen objects, all LV counts */
  prep_m(&o->pn, reuse, m, ncol);
  matrix *pn = o->pn; PLSYPredictorAllLV(c.Xn, mod, NULL, pn);
  int pnok = (pn->row == (size_t)m && pn->col == (size_t)ncol);
  /* statistics as reported by the library */
  prep_m(&o->cc, reuse, nlv, ny); prep_m(&o->rm, reuse, nlv, ny); prep_m(&o->bi, reuse, nlv, ny);
  matrix *cc = o->cc, *rm = o->rm, *bi = o->bi;
  PLSRegressionStatistics(c.Y, mod->recalculated_y, cc, rm, bi);
  prep_m(&o->ccn, reuse, nlv, ny); prep_m(&o->rmn, reuse, nlv, ny); prep_m(&o->bin, reuse, nlv, ny);
  matrix *ccn = o->ccn, *rmn = o->rmn, *bin = o->bin;
  if(pnok) PLSRegressionStatistics(c.Yn, pn, ccn, rmn, bin);
  int stok = (cc->row == (size_t)nlv && cc->col == (size_t)ny && rm->row == (size_t)nlv && rm->col == (size_t)ny && bi->row == (size_t)nlv && bi->col == (size_t)ny);
  int stnok = (pnok && ccn->row == (size_t)nlv && ccn->col == (size_t)ny && rmn->row == (size_t)nlv && rmn->col == (size_t)ny && bin->row == (size_t)nlv && bin->col == (size_t)ny);

  double *ybar = malloc(sizeof(double) * ny), *den = malloc(sizeof(double) * ny), *tss = malloc(sizeof(double) * ny);
  for(int j = 0; j < ny; j++){
    ybar[j] = pc_colmean(Y, j, n);
    tss[j] = 0; double s0 = 0;
    for(int i = 0; i < n; i++){ tss[j] += (Y[i][j] - ybar[j]) * (Y[i][j] - ybar[j]); s0 += Y[i][j] * Y[i][j]; }
    den[j] = c.ys >= 0 ? tss[j] : s0;
  }
  for(int a = 1; a <= nlv; a++) for(int j = 0; j < ny; j++){
    int col = ny * (a - 1) + j;
    double rss = 0; for(int i = 0; i < n; i++) rss += (R[i][col] - Y[i][j]) * (R[i][col] - Y[i][j]);
    double ratio = rss / tss[j];
    double g1 = stok ? fabs(cc->data[a - 1][j] - (1.0 - ratio)) / (ratio > 1 ? ratio : 1.0) : NAN;
    double g2 = stok ? fabs(rm->data[a - 1][j] - sqrt(rss / n)) / sqrt(tss[j] / n) : NAN;
    double g = (g1 == g1 && g2 == g2) ? (g1 > g2 ? g1 : g2) : NAN;
    VRT_EMIT("{\"e\":\"Rss\",\"a\":%d,\"j\":%d,\"rss\":%ld,\"r2gap\":%ld,\"r2\":%ld,\"dr\":%ld}", a, j, q9(rss / den[j]), pc_q12("r2gap", g),
             stok ? vqs_unit(cc->data[a - 1][j], 1e-9) : VQ_MAX, c.ys >= 0 ? 1000L : c4_cap9(den[j] / tss[j] * 1000.0));
    /* unseen objects */
    double rn = 0, mn = 0, tn = 0;
    for(int i = 0; i < m; i++) mn += c.Yn->data[i][j];
    mn /= m;
    for(int i = 0; i < m; i++){ tn += (c.Yn->data[i][j] - mn) * (c.Yn->data[i][j] - mn); if(pnok) rn += (pn->data[i][col] - c.Yn->data[i][j]) * (pn->data[i][col] - c.Yn->data[i][j]); }
    /* R2 of the unseen objects is defined only when their responses are not all equal (one object; ties): the spread is judged relative to the training spread */
    int r2def = (m >= 2 && tn / m > 1e-6 * tss[j] / n);
    double rat = rn / tn;
    double h1 = !stnok ? NAN : r2def ? fabs(ccn->data[a - 1][j] - (1.0 - rat)) / (rat > 1 ? rat : 1.0) : 0.0;
    double h2 = stnok ? fabs(rmn->data[a - 1][j] - sqrt(rn / m)) / sqrt(tss[j] / n) : NAN;
    VRT_EMIT("{\"e\":\"Stat\",\"a\":%d,\"j\":%d,\"r2gap\":%ld,\"rmsegap\":%ld}", a, j, pc_q12("r2gapNew", h1), pc_q12("rmsegapNew", h2));
    if(cls){
      /* the third statistic: bias = |1 - slope of predicted on observed| (outside the statement) */
      double b1 = stok ? fabs(bi->data[a - 1][j] - bias_def(Y, j, R, col, n)) : NAN;
      double b2 = !stnok ? NAN : r2def ? fabs(bin->data[a - 1][j] - bias_def(c.Yn->data, j, pn->data, col, m)) : 0.0;
      double bs = r2def ? fabs(bias_def(c.Yn->data, j, pn->data, col, m)) : 0.0;
      VRT_EMIT("{\"e\":\"Bias\",\"a\":%d,\"j\":%d,\"gap\":%ld,\"gapNew\":%ld}", a, j, pc_q12("biasgap", b1), pc_q12("biasgapNew", b2 / (bs > 1 ? bs : 1.0)));
      if(q->exk > 0 && a >= q->exk) VRT_EMIT("{\"e\":\"Exact\",\"a\":%d,\"j\":%d,\"rss\":%ld}", a, j, q9(rss / den[j]));
    }
  }

  /* independent least squares on the design the model spans.  A centred block is centred here in extended precision (the same least-squares
   * problem as an intercept column, without the conditioning an offset of 1e8 spreads would bring into [1 X]) */
  {
    int k = p;
    double **D = pc_alloc(n, k), **Tg = pc_alloc(n, ny), **Bo = pc_alloc(k, ny);
    long double *xm = calloc(p, sizeof(long double)), *ym = calloc(ny, sizeof(long double));
    double *sdx = calloc(p, sizeof(double));
    for(int j = 0; j < p; j++){ for(int i = 0; i < n; i++) xm[j] += X[i][j]; xm[j] /= n; if(c.xs < 0) xm[j] = 0; }
    for(int j = 0; j < ny; j++){ for(int i = 0; i < n; i++) ym[j] += Y[i][j]; ym[j] /= n; if(c.ys < 0) ym[j] = 0; }
    for(int i = 0; i < n; i++){
      for(int j = 0; j < p; j++){ D[i][j] = (double)((long double)X[i][j] - xm[j]); sdx[j] += D[i][j] * D[i][j]; }
      for(int j = 0; j < ny; j++) Tg[i][j] = (double)((long double)Y[i][j] - ym[j]);
    }
    for(int j = 0; j < p; j++) sdx[j] = sqrt(sdx[j] / n);
    int info = pc_dgels(D, n, k, Tg, ny, Bo);
    for(int j = 0; j < ny; j++){
      int full = (nlv == p);
      long double rs = 0, df = 0, rp = 0;
      for(int i = 0; i < n; i++){ long double e = (long double)R[i][ny * (nlv - 1) + j] - Y[i][j]; rp += e * e; }
      for(int i = 0; i < n; i++){
        long double f = 0; for(int qq = 0; qq < k; qq++) f += (long double)D[i][qq] * Bo[qq][j];
        long double e = f - Tg[i][j]; rs += e * e;
        long double d = ((long double)R[i][ny * (nlv - 1) + j] - ym[j]) - f; df += d * d;
      }
      double bn = 0; for(int qq = 0; qq < k; qq++) bn += fabs(Bo[qq][j]) * sdx[qq];
      bn /= sqrt(tss[j] / n);
      if(info != 0){ rs = NAN; df = NAN; }
      VRT_EMIT("{\"e\":\"Ols\",\"j\":%d,\"rssPls\":%ld,\"rssOls\":%ld,\"err\":%ld,\"full\":%d,\"bn\":%ld}", j, q9((double)rp / den[j]), q9((double)rs / den[j]),
               full ? pc_q12(bigoff ? "olsErrK3" : "olsErr", sqrt((double)df / den[j])) : 0L, full, c.xs >= 0 ? c4_cap9(bn * 1000.0) : 0L);
      if(full && jz < 0){
        /* the same least-squares coefficients applied to the unseen objects against the score-based predictions (outside the statement, which
         * speaks of the fitted responses); lev = largest leverage-like distance of an unseen object, in training spreads */
        long double dn = 0; double lev = 0;
        for(int i = 0; i < m; i++){
          long double f = 0;
          for(int qq = 0; qq < k; qq++){ long double xc = (long double)c.Xn->data[i][qq] - xm[qq]; f += xc * Bo[qq][j]; double z = fabs((double)xc) / sdx[qq]; if(z > lev) lev = z; }
          long double d = pnok ? ((long double)pn->data[i][ny * (nlv - 1) + j] - ym[j]) - f : NAN; dn += d * d;
        }
        if(info != 0) dn = NAN;
        VRT_EMIT("{\"e\":\"OlsNew\",\"j\":%d,\"err\":%ld,\"bn\":%ld,\"lev\":%ld}", j, pc_q12(bigoff ? "olsNewK3" : "olsNew", sqrt((double)dn / m) / sqrt(tss[j] / n)),
                 c.xs >= 0 ? c4_cap9(bn * 1000.0) : 0L, c4_cap9(lev));
      }
    }
    pc_free(D, n); pc_free(Tg, n); pc_free(Bo, k); free(xm); free(ym); free(sdx);
  }

  if(ny == 1){
    /* coefficient form against score form */
    for(int a = 1; a <= nlv; a++){
      prep_v(&o->be, reuse, p);
      dvector *be = o->be;
      PLSBetasCoeff(mod, (size_t)a, be);
      double et = 0, en = 0;
      int bok = (be->size == (size_t)p);
      for(int i = 0; i < n + m && bok; i++){
        double *x = i < n ? X[i] : c.Xn->data[i - n];
        double v = 0; for(int j = 0; j < p; j++) v += pc_prep(x[j], mod->xcolaverage, mod->xcolscaling, j) * be->data[j];
        v = pc_back(v, mod->ycolaverage, mod->ycolscaling, 0);
        if(i < n){ double d = v - R[i][a - 1]; et += d * d; }
        else { double d = pnok ? v - pn->data[i - n][a - 1] : NAN; en += d * d; }
      }
      double sc = sqrt(den[0] / n);
      VRT_EMIT("{\"e\":\"Beta\",\"a\":%d,\"errTrain\":%ld,\"errNew\":%ld}", a, bok ? pc_q12("betaTrain", sqrt(et / n) / sc) : VQ_MAX, bok ? pc_q12("betaNew", sqrt(en / m) / sc) : VQ_MAX);
    }
    /* affine equivariance of a centred response */
    if(c.ys >= 0){
      for(int att = 0; att < 20; att++){
        /* change of units of the response.  Centring only (option 0): anything from 1e-8 to 1e8; with a scaling
         * option the scale factor of c*y must stay clear of the library's zero-scale guard (admission below), so moderate c.
         * The affine-offset class moves the response up to 1e8 of its spreads away (d), in moderate units */
        int wide = (c.ys == 0) && q->kind != KD_AFFOFF && !bigoff && q->lgy == 0;
        double cf = (vr_int(r, 0, 1) ? 1.0 : -1.0) * (wide ? pow(10.0, -8.0 + 16.0 * vr_unif(r)) : pow(10.0, -0.7 + 1.4 * vr_unif(r)));
        double sdy = sqrt(tss[0] / n);
        double df = fabs(cf) * sdy * 20.0 * (2 * vr_unif(r) - 1);
        if(q->kind == KD_AFFOFF){
          cf = (cf < 0 ? -1.0 : 1.0) * (0.06 + 0.04 * vr_unif(r)) / sdy * (vr_int(r, 0, 1) ? 1.0 : pow(10.0, -0.5 + vr_unif(r)));
          df = (vr_int(r, 0, 1) ? 1.0 : -1.0) * fabs(cf) * sdy * pow(10.0, 2.0 + 6.0 * vr_unif(r));
          if(fabs(df) > 8e6) df = df < 0 ? -8e6 : 8e6;
        }
        matrix *Y2; NewMatrix(&Y2, n, 1);
        for(int i = 0; i < n; i++) Y2->data[i][0] = cf * Y[i][0] + df;
        if((!wide && !c4_admit_block(Y2, c.ys))){ DelMatrix(&Y2); continue; }
        double off2 = c4_offset(Y2, -1);
        PLSMODEL *m2; NewPLSModel(&m2);
        PLS(c.X, Y2, (size_t)nlv, c.xs, c.ys, m2, NULL);
        prep_m(&o->pn2, reuse, m, nlv);
        matrix *pn2 = o->pn2; PLSYPredictorAllLV(c.Xn, m2, NULL, pn2);
        double et = 0, en = 0;
        int sok = (m2->recalculated_y->row == (size_t)n && m2->recalculated_y->col == (size_t)nlv && pn2->row == (size_t)m && pn2->col == (size_t)nlv && pnok);
        for(int a = 0; a < nlv && sok; a++){
          long double s1 = 0, s2 = 0;
          for(int i = 0; i < n; i++){ long double d = (long double)m2->recalculated_y->data[i][a] - ((long double)cf * R[i][a] + df); s1 += d * d; }
          for(int i = 0; i < m; i++){ long double d = (long double)pn2->data[i][a] - ((long double)cf * pn->data[i][a] + df); s2 += d * d; }
          double e1 = sqrt((double)s1 / n) / (fabs(cf) * sdy), e2 = sqrt((double)s2 / m) / (fabs(cf) * sdy);
          if(!(e1 <= et)) et = e1; if(!(e2 <= en)) en = e2;
        }
        long cq = vqs_unit(cf, 1e-3); if(cq == 0) cq = cf < 0 ? -1 : 1;
        int k3 = (off2 >= 1000 || bigoff);
        VRT_EMIT("{\"e\":\"Affine\",\"c\":%ld,\"lg\":%ld,\"d\":%ld,\"off\":%ld,\"errTrain\":%ld,\"errNew\":%ld}", cq, (long)floor(log10(fabs(cf))), vqs_unit(df / (fabs(cf) * sdy), 1e-3),
                 c4_cap9(off2), sok ? pc_q12(k3 ? "affineTrainK3" : "affineTrain", et) : VQ_MAX, sok ? pc_q12(k3 ? "affineNewK3" : "affineNew", en) : VQ_MAX);
        DelPLSModel(&m2); DelMatrix(&Y2);
        break;
      }
    }
  }
  /* the score-based predictor called for a = 1..nlv into ONE output matrix (the natural loop) gives the stored recalculated_y */
  {
    prep_m(&o->out, reuse, n, ny);
    matrix *out = o->out;
    double er = 0;
    for(int a = 1; a <= nlv; a++){
      PLSYPredictor(mod->xscores, mod, (size_t)a, out);
      int sh = (out->row == (size_t)n && out->col == (size_t)ny);
      for(int j = 0; j < ny; j++){
        double d2 = 0; for(int i = 0; i < n && sh; i++){ double d = out->data[i][j] - R[i][ny * (a - 1) + j]; d2 += d * d; }
        double e = sh ? sqrt(d2 / n) / sqrt(tss[j] / n) : NAN;
        if(!(e <= er)) er = e;
      }
    }
    VRT_EMIT("{\"e\":\"Reuse\",\"calls\":%d,\"err\":%ld}", nlv, pc_q12("reuse", er));
  }
  /* change of units of the predictors: X * s leaves every prediction unchanged.  Without a scaling factor (options -1, 0) s ranges over
   * 1e-8..1e6 as far as the values stay below 1e7; otherwise s is admitted only if every scale factor of X * s stays clear of the
   * zero-scale guard.  Predictors far from the origin (K3) change units by a power of two (no new rounding of the data) */
  if(jz < 0){
    for(int att = 0; att < 20; att++){
      int freeunits = (c.xs <= 0);
      double s = freeunits ? pow(10.0, -8.0 + 14.0 * vr_unif(r)) : pow(10.0, -3.0 + 7.0 * vr_unif(r));
      if(offx >= 1000) s = ldexp(1.0, (int)ceil(log2(s)));          /* 2^-26 .. 2^20: stays inside 1e-8 .. 1e7 */
      matrix *X2, *Xn2; NewMatrix(&X2, n, p); NewMatrix(&Xn2, m, p);
      double mx = 0;
      for(int i = 0; i < n; i++) for(int j = 0; j < p; j++){ X2->data[i][j] = X[i][j] * s; if(fabs(X2->data[i][j]) > mx) mx = fabs(X2->data[i][j]); }
      for(int i = 0; i < m; i++) for(int j = 0; j < p; j++){ Xn2->data[i][j] = c.Xn->data[i][j] * s; if(fabs(Xn2->data[i][j]) > mx) mx = fabs(Xn2->data[i][j]); }
      if(mx > 1e7 || (!freeunits && !pc_admit_block(X2, c.xs))){ DelMatrix(&X2); DelMatrix(&Xn2); continue; }
      PLSMODEL *m3; NewPLSModel(&m3);
      PLS(X2, c.Y, (size_t)nlv, c.xs, c.ys, m3, NULL);
      prep_m(&o->pn3, reuse, m, ncol);
      matrix *pn3 = o->pn3; PLSYPredictorAllLV(Xn2, m3, NULL, pn3);
      int sok = (m3->recalculated_y->row == (size_t)n && m3->recalculated_y->col == (size_t)ncol && pn3->row == (size_t)m && pn3->col == (size_t)ncol && pnok);
      double et = 0, en = 0;
      for(int col = 0; col < ncol && sok; col++){
        int j = col % ny; double sc = sqrt(tss[j] / n), s1 = 0, s2 = 0;
        for(int i = 0; i < n; i++){ double d = m3->recalculated_y->data[i][col] - R[i][col]; s1 += d * d; }
        for(int i = 0; i < m; i++){ double d = pn3->data[i][col] - pn->data[i][col]; s2 += d * d; }
        s1 = sqrt(s1 / n) / sc; s2 = sqrt(s2 / m) / sc;
        if(!(s1 <= et)) et = s1; if(!(s2 <= en)) en = s2;
      }
      VRT_EMIT("{\"e\":\"XScale\",\"lg\":%ld,\"errTrain\":%ld,\"errNew\":%ld}", (long)floor(log10(s)), sok ? pc_q12("xscaleTrain", et) : VQ_MAX, sok ? pc_q12("xscaleNew", en) : VQ_MAX);
      DelPLSModel(&m3); DelMatrix(&X2); DelMatrix(&Xn2);
      break;
    }
  }
  /* per-column unit systems: the model of the same predictors in their original units predicts the same (scaling options that divide
   * every column by a statistic of that column) */
  if(q->Xorig){
    PLSMODEL *m4; NewPLSModel(&m4);
    PLS(q->Xorig, c.Y, (size_t)nlv, c.xs, c.ys, m4, NULL);
    prep_m(&o->pn3, reuse, m, ncol);
    matrix *pn4 = o->pn3; PLSYPredictorAllLV(q->Xnorig, m4, NULL, pn4);
    int sok = (m4->recalculated_y->row == (size_t)n && m4->recalculated_y->col == (size_t)ncol && pn4->row == (size_t)m && pn4->col == (size_t)ncol && pnok);
    double et = 0, en = 0;
    for(int col = 0; col < ncol && sok; col++){
      int j = col % ny; double sc = sqrt(tss[j] / n), s1 = 0, s2 = 0;
      for(int i = 0; i < n; i++){ double d = m4->recalculated_y->data[i][col] - R[i][col]; s1 += d * d; }
      for(int i = 0; i < m; i++){ double d = pn4->data[i][col] - pn->data[i][col]; s2 += d * d; }
      s1 = sqrt(s1 / n) / sc; s2 = sqrt(s2 / m) / sc;
      if(!(s1 <= et)) et = s1; if(!(s2 <= en)) en = s2;
    }
    VRT_EMIT("{\"e\":\"XUnits\",\"kmax\":%d,\"errTrain\":%ld,\"errNew\":%ld}", q->kmax, sok ? pc_q12("xunitsTrain", et) : VQ_MAX, sok ? pc_q12("xunitsNew", en) : VQ_MAX);
    DelPLSModel(&m4);
  }
  VRT_EMIT("{\"e\":\"End\",\"lvs\":%d,\"cols\":%d,\"full\":%d,\"xfull\":0,\"addr\":%d}", nlv, ncol, nlv == q->rank ? 1 : 0, addr_reused);
  free(ybar); free(den); free(tss);
  if(h_nfreed < 8) h_freed[h_nfreed++] = (uintptr_t)mod;
  DelPLSModel(&mod);
  (void)idx;
}

static void prob_free(c4_prob *q){ pc_case_free(&q->c); if(q->Xorig){ DelMatrix(&q->Xorig); DelMatrix(&q->Xnorig); } }

static int one_case(void *arg){
  long idx = *(long *)arg;
  vrng r = pc_stream(g_seed, (unsigned long)idx, 4);
  c4_outs o; outs_init(&o);
  c4_prob A;
  if(!g_cls){
    if(!(g_pairs ? draw_pairs(&A, &r, idx) : draw_base(&A, &r, idx))){ VRT_EMIT("{\"e\":\"Skip\",\"case\":%ld}", idx); return 0; }
    VRT_EMIT("{\"e\":\"Reset\",\"case\":%ld,\"tries\":%d,\"sub\":0}", idx, A.tries);
    project(&A, &o, &r, idx);
    pc_max_print();
    prob_free(&A);
    return 0;
  }
  int kind = KD_SCHED[idx % 16];
  if(!draw_class(&A, &r, idx, kind, NULL, 0)){ VRT_EMIT("{\"e\":\"Skip\",\"case\":%ld}", idx); return 0; }
  if(kind != KD_HIST){
    VRT_EMIT("{\"e\":\"Reset\",\"case\":%ld,\"tries\":%d,\"sub\":0}", idx, A.tries);
    project(&A, &o, &r, idx);
  } else {
    /* fit A, fit A' (same shape and options, other data), fit B (another shape), fit A again - all in this one process, every one of
     * them projected in full; the output objects go from fit to fit with what the previous fit left in them */
    c4_prob A2, B;
    vrng r2 = pc_stream(g_seed, (unsigned long)idx, 6), r3 = pc_stream(g_seed, (unsigned long)idx, 8), r4 = pc_stream(g_seed, (unsigned long)idx, 10);
    int haveA2 = draw_class(&A2, &r3, idx, KD_HIST, &A, 0), haveB = draw_class(&B, &r2, idx, KD_HIST, NULL, 1);
    int sub = 0;
    A.hist = sub; VRT_EMIT("{\"e\":\"Reset\",\"case\":%ld,\"tries\":%d,\"sub\":%d}", idx, A.tries, sub); project(&A, &o, &r, idx); sub++;
    if(haveA2){ A2.hist = sub; A2.reuse = 3; VRT_EMIT("{\"e\":\"Reset\",\"case\":%ld,\"tries\":%d,\"sub\":%d}", idx, A2.tries, sub); project(&A2, &o, &r3, idx); sub++; prob_free(&A2); }
    if(haveB){ B.hist = sub; B.reuse = 3; VRT_EMIT("{\"e\":\"Reset\",\"case\":%ld,\"tries\":%d,\"sub\":%d}", idx, B.tries, sub); project(&B, &o, &r2, idx); sub++; prob_free(&B); }
    A.hist = sub; A.reuse = 3; VRT_EMIT("{\"e\":\"Reset\",\"case\":%ld,\"tries\":%d,\"sub\":%d}", idx, A.tries, sub); project(&A, &o, &r4, idx);
  }
  pc_max_print();
  prob_free(&A);
  return 0;
}

int main(int argc, char **argv){
  if(argc < 5){ fprintf(stderr, "usage: c04_drv out seed first count [base|cls|pairs]\n"); return 2; }
  vrt_open(argv[1]);
  g_seed = strtoul(argv[2], 0, 10);
  long first = atol(argv[3]), count = atol(argv[4]);
  g_cls = (argc >= 6 && !strcmp(argv[5], "cls"));
  g_pairs = (argc >= 6 && !strcmp(argv[5], "pairs"));
  vrt_force_nproc(1);
  vrt_install_iter_budget(20000, 0);
  for(long idx = first; idx < first + count; idx++){
    int rc = vrt_run_child(one_case, &idx, 60);
    if(rc != 0) VRT_EMIT("{\"e\":\"Abort\",\"case\":%ld,\"rc\":%d}", idx, rc);
  }
  vrt_close();
  return 0;
}
