/* c04_drv.c - conformance driver for C04 (PLS is a correct least-squares family).
 * usage: c04_drv <out.ndjson> <seed> <first> <count>
 * Every case has its own stream (seed, index); the real PLS() runs in a child (one processor, iteration budget, watchdog).
 * Sums of squares are logged in units of 1e-9 of D_j (sum of squares of response j about its mean if the response block is
 * centred, about 0 otherwise: RSS_0 = 1e9), residuals in units of 1e-12, both saturating at 2e9.
 *   Reset{case,tries}  Fit{n,p,ny,nlv,xs,ys,noise,intc,cond,nnew}
 *   Rss{a,j,rss,r2gap}       RSS of recalculated_y[:,ny*(a-1)+j] against y_j; r2gap = reported R2 / RMSE of
 *                            PLSRegressionStatistics against 1 - RSS/TSS and sqrt(RSS/n)
 *   Stat{a,j,r2gap,rmsegap}  same statistics on unseen objects (predictions by PLSYPredictorAllLV)
 *   Ols{j,rssPls,rssOls,err,full}   independent least squares (LAPACK dgels): on [1 X] when both blocks are centred; when a block
 *                            is not centred (option -1) on the design the model then spans (no intercept column)
 *   Beta{a,errTrain,errNew}  single response: ybar + s_y * ((x - xbar)/s_x) . PLSBetasCoeff(a) against the score form
 *   Affine{c,d,errTrain,errNew}  single centred response: model of c*y+d against c*(predictions)+d, all LV counts
 *   End{lvs,cols,full,xfull}  Skip{case}  Abort{case,rc}
 */
#include "scientific.h"
#include "verif_rt.h"
#include "pls_common.h"

static unsigned long g_seed;

static void draw_params(pc_case *c, int *nlv, vrng *r, long idx){
  c->intcase = 0;
  c->n = (int)vr_int(r, 6, 40);
  int pmax = c->n - 2 < 10 ? c->n - 2 : 10;
  c->p = (int)vr_int(r, 1, pmax);
  c->ny = (idx % 2 == 0) ? 1 : (int)vr_int(r, 2, 3);
  c->noise = (int)(idx % 4);
  *nlv = ((idx / 2) % 2 == 0) ? c->p : (int)vr_int(r, 1, c->p);
  c->xs = (int)vr_int(r, -1, 5); c->ys = (int)vr_int(r, -1, 5);
  c->nnew = (int)vr_int(r, 3, 10);
}

static long q9(double x){ return vq_unit(x, 1e-9); }

static int one_case(void *arg){
  long idx = *(long *)arg;
  vrng r = pc_stream(g_seed, (unsigned long)idx, 4);
  pc_case c; int nlv = 1, tries = 0, ok = 0; double cond = 0;
  for(tries = 1; tries <= 30; tries++){
    draw_params(&c, &nlv, &r, idx);
    int norm = (c.xs == 1 || c.xs == 2 || c.xs == 4 || c.xs == 5);
    pc_gen_real(&c, &r, norm ? -1.0 : 0.0, norm ? 2.0 : 1.0, c.xs == -1 ? 0.5 : 4.0, c.ys == -1 ? 0.5 : 5.0);
    if(pc_admit(&c, 1e3, &cond)){ ok = 1; break; }
    pc_case_free(&c);
  }
  if(!ok){ VRT_EMIT("{\"e\":\"Skip\",\"case\":%ld}", idx); return 0; }
  int n = c.n, p = c.p, ny = c.ny, m = c.nnew;
  VRT_EMIT("{\"e\":\"Reset\",\"case\":%ld,\"tries\":%d}", idx, tries);
  VRT_EMIT("{\"e\":\"Fit\",\"n\":%d,\"p\":%d,\"ny\":%d,\"nlv\":%d,\"xs\":%d,\"ys\":%d,\"noise\":%d,\"intc\":0,\"cond\":%ld,\"nnew\":%d}",
           n, p, ny, nlv, c.xs, c.ys, c.noise, (long)ceil(cond), m);

  PLSMODEL *mod; NewPLSModel(&mod);
  PLS(c.X, c.Y, (size_t)nlv, c.xs, c.ys, mod, NULL);
  int ncol = ny * nlv;
  if(mod->recalculated_y->row != (size_t)n || mod->recalculated_y->col != (size_t)ncol || mod->b->size != (size_t)nlv){
    VRT_EMIT("{\"e\":\"Shape\",\"reccol\":%zu,\"b\":%zu}", mod->recalculated_y->col, mod->b->size);
    return 0;
  }
  double **R = mod->recalculated_y->data, **Y = c.Y->data, **X = c.X->data;

  /* predictions for unseen objects, all LV counts */
  matrix *pn; initMatrix(&pn); PLSYPredictorAllLV(c.Xn, mod, NULL, pn);
  int pnok = (pn->row == (size_t)m && pn->col == (size_t)ncol);
  /* statistics as reported by the library */
  matrix *cc, *rm, *bi; initMatrix(&cc); initMatrix(&rm); initMatrix(&bi);
  PLSRegressionStatistics(c.Y, mod->recalculated_y, cc, rm, bi);
  matrix *ccn, *rmn, *bin; initMatrix(&ccn); initMatrix(&rmn); initMatrix(&bin);
  if(pnok) PLSRegressionStatistics(c.Yn, pn, ccn, rmn, bin);

  double *ybar = malloc(sizeof(double) * ny), *den = malloc(sizeof(double) * ny), *tss = malloc(sizeof(double) * ny);
  for(int j = 0; j < ny; j++){
    ybar[j] = pc_colmean(Y, j, n);
    tss[j] = 0; double s0 = 0;
    for(int i = 0; i < n; i++){ tss[j] += (Y[i][j] - ybar[j]) * (Y[i][j] - ybar[j]); s0 += Y[i][j] * Y[i][j]; }
    den[j] = c.ys >= 0 ? tss[j] : s0;
  }
  for(int a = 1; a <= nlv; a++) for(int j = 0; j < ny; j++){
    int col = ny * (a - 1) + j;
    double rss = 0; for(int i = 0; i < n; i++) rss += (R[i][col] - Y[i][j]) * (R[i][col] - Y[i][j]);
    double ratio = rss / tss[j];
    double g1 = (cc->row == (size_t)nlv && cc->col == (size_t)ny) ? fabs(cc->data[a - 1][j] - (1.0 - ratio)) / (ratio > 1 ? ratio : 1.0) : NAN;
    double g2 = (rm->row == (size_t)nlv && rm->col == (size_t)ny) ? fabs(rm->data[a - 1][j] - sqrt(rss / n)) / sqrt(tss[j] / n) : NAN;
    double g = (g1 == g1 && g2 == g2) ? (g1 > g2 ? g1 : g2) : NAN;
    VRT_EMIT("{\"e\":\"Rss\",\"a\":%d,\"j\":%d,\"rss\":%ld,\"r2gap\":%ld}", a, j, q9(rss / den[j]), pc_q12("r2gap", g));
    /* unseen objects */
    double rn = 0, mn = 0, tn = 0;
    for(int i = 0; i < m; i++) mn += c.Yn->data[i][j];
    mn /= m;
    for(int i = 0; i < m; i++){ tn += (c.Yn->data[i][j] - mn) * (c.Yn->data[i][j] - mn); if(pnok) rn += (pn->data[i][col] - c.Yn->data[i][j]) * (pn->data[i][col] - c.Yn->data[i][j]); }
    double rat = rn / tn;
    double h1 = (pnok && ccn->row == (size_t)nlv) ? fabs(ccn->data[a - 1][j] - (1.0 - rat)) / (rat > 1 ? rat : 1.0) : NAN;
    double h2 = (pnok && rmn->row == (size_t)nlv) ? fabs(rmn->data[a - 1][j] - sqrt(rn / m)) / sqrt(tn / m) : NAN;
    VRT_EMIT("{\"e\":\"Stat\",\"a\":%d,\"j\":%d,\"r2gap\":%ld,\"rmsegap\":%ld}", a, j, pc_q12("r2gapNew", h1), pc_q12("rmsegapNew", h2));
  }

  /* independent least squares */
  {
    int icpt = (c.xs >= 0 && c.ys >= 0), k = p + icpt;
    double **D = pc_alloc(n, k), **Tg = pc_alloc(n, ny), **Bo = pc_alloc(k, ny);
    for(int i = 0; i < n; i++){
      if(icpt) D[i][0] = 1.0;
      for(int j = 0; j < p; j++) D[i][icpt + j] = (c.xs >= 0 && !icpt) ? X[i][j] - pc_colmean(X, j, n) : X[i][j];
      for(int j = 0; j < ny; j++) Tg[i][j] = (c.ys >= 0 && !icpt) ? Y[i][j] - ybar[j] : Y[i][j];
    }
    int info = pc_dgels(D, n, k, Tg, ny, Bo);
    for(int j = 0; j < ny; j++){
      int full = (nlv == p);
      double rs = 0, df = 0, rp = 0;
      for(int i = 0; i < n; i++){ double e = R[i][ny * (nlv - 1) + j] - Y[i][j]; rp += e * e; }
      for(int i = 0; i < n; i++){
        double f = 0; for(int q = 0; q < k; q++) f += D[i][q] * Bo[q][j];
        if(c.ys >= 0 && !icpt) f += ybar[j];
        rs += (f - Y[i][j]) * (f - Y[i][j]);
        double d = R[i][ny * (nlv - 1) + j] - f; df += d * d;
      }
      if(info != 0){ rs = NAN; df = NAN; }
      VRT_EMIT("{\"e\":\"Ols\",\"j\":%d,\"rssPls\":%ld,\"rssOls\":%ld,\"err\":%ld,\"full\":%d}", j, q9(rp / den[j]), q9(rs / den[j]), full ? pc_q12("olsErr", sqrt(df / den[j])) : 0L, full);
    }
    pc_free(D, n); pc_free(Tg, n); pc_free(Bo, k);
  }

  if(ny == 1){
    /* coefficient form against score form */
    for(int a = 1; a <= nlv; a++){
      dvector *be; initDVector(&be);
      PLSBetasCoeff(mod, (size_t)a, be);
      double et = 0, en = 0;
      int bok = (be->size == (size_t)p);
      for(int i = 0; i < n + m && bok; i++){
        double *x = i < n ? X[i] : c.Xn->data[i - n];
        double v = 0; for(int j = 0; j < p; j++) v += pc_prep(x[j], mod->xcolaverage, mod->xcolscaling, j) * be->data[j];
        v = pc_back(v, mod->ycolaverage, mod->ycolscaling, 0);
        if(i < n){ double d = v - R[i][a - 1]; et += d * d; }
        else { double d = pnok ? v - pn->data[i - n][a - 1] : NAN; en += d * d; }
      }
      double sc = sqrt(den[0] / n);
      VRT_EMIT("{\"e\":\"Beta\",\"a\":%d,\"errTrain\":%ld,\"errNew\":%ld}", a, bok ? pc_q12("betaTrain", sqrt(et / n) / sc) : VQ_MAX, bok ? pc_q12("betaNew", sqrt(en / m) / sc) : VQ_MAX);
      DelDVector(&be);
    }
    /* affine equivariance of a centred response */
    if(c.ys >= 0){
      for(int att = 0; att < 20; att++){
        double cf = (vr_int(&r, 0, 1) ? 1.0 : -1.0) * pow(10.0, -0.7 + 1.4 * vr_unif(&r));
        double df = sqrt(tss[0] / n) * 20.0 * (2 * vr_unif(&r) - 1);
        matrix *Y2; NewMatrix(&Y2, n, 1);
        for(int i = 0; i < n; i++) Y2->data[i][0] = cf * Y[i][0] + df;
        if(!pc_admit_block(Y2, c.ys)){ DelMatrix(&Y2); continue; }
        PLSMODEL *m2; NewPLSModel(&m2);
        PLS(c.X, Y2, (size_t)nlv, c.xs, c.ys, m2, NULL);
        matrix *pn2; initMatrix(&pn2); PLSYPredictorAllLV(c.Xn, m2, NULL, pn2);
        double et = 0, en = 0;
        int sok = (m2->recalculated_y->row == (size_t)n && m2->recalculated_y->col == (size_t)nlv && pn2->row == (size_t)m && pn2->col == (size_t)nlv && pnok);
        for(int a = 0; a < nlv && sok; a++){
          double s1 = 0, s2 = 0;
          for(int i = 0; i < n; i++){ double d = m2->recalculated_y->data[i][a] - (cf * R[i][a] + df); s1 += d * d; }
          for(int i = 0; i < m; i++){ double d = pn2->data[i][a] - (cf * pn->data[i][a] + df); s2 += d * d; }
          s1 = sqrt(s1 / n) / (fabs(cf) * sqrt(tss[0] / n)); s2 = sqrt(s2 / m) / (fabs(cf) * sqrt(tss[0] / n));
          if(!(s1 <= et)) et = s1; if(!(s2 <= en)) en = s2;
        }
        VRT_EMIT("{\"e\":\"Affine\",\"c\":%ld,\"d\":%ld,\"errTrain\":%ld,\"errNew\":%ld}", vqs_unit(cf, 1e-3), vqs_unit(df / sqrt(tss[0] / n), 1e-3),
                 sok ? pc_q12("affineTrain", et) : VQ_MAX, sok ? pc_q12("affineNew", en) : VQ_MAX);
        DelMatrix(&pn2); DelPLSModel(&m2); DelMatrix(&Y2);
        break;
      }
    }
  }
  VRT_EMIT("{\"e\":\"End\",\"lvs\":%d,\"cols\":%d,\"full\":%d,\"xfull\":0}", nlv, ncol, nlv == p ? 1 : 0);
  pc_max_print();
  free(ybar); free(den); free(tss);
  DelMatrix(&pn); DelMatrix(&cc); DelMatrix(&rm); DelMatrix(&bi); DelMatrix(&ccn); DelMatrix(&rmn); DelMatrix(&bin);
  DelPLSModel(&mod); pc_case_free(&c);
  return 0;
}

int main(int argc, char **argv){
  if(argc < 5){ fprintf(stderr, "usage: c04_drv out seed first count\n"); return 2; }
  vrt_open(argv[1]);
  g_seed = strtoul(argv[2], 0, 10);
  long first = atol(argv[3]), count = atol(argv[4]);
  vrt_force_nproc(1);
  vrt_install_iter_budget(20000, 0);
  for(long idx = first; idx < first + count; idx++){
    int rc = vrt_run_child(one_case, &idx, 60);
    if(rc != 0) VRT_EMIT("{\"e\":\"Abort\",\"case\":%ld,\"rc\":%d}", idx, rc);
  }
  vrt_close();
  return 0;
}
