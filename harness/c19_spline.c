/* c19_spline.c - conformance driver for the spline / trapezoid half of C19.
 * usage: c19_spline replay <cases.txt> <out.ndjson>
 *        c19_spline ledger <out.ndjson> <seed> <count>
 *
 * replay: every line of <cases.txt> is a knot set emitted by TLC (Spline.tla CaseRec):
 *     id nk x_0..x_n y_0..y_n npts { t2 vn vd }*npts an ad line
 *   integer knots, integer ordinates, evaluation points doubled (t2 = 2t), exact spline value vn/vd at t2/2, exact area an/ad.
 *   The set is evaluated at scales s = 10^E, E = -4..4 (knots s*x_i).  Events:
 *     Knots{id,nk,xs[],E}                       (starts a block)
 *     Piece{E,t2,chosen[]}                      pieces S_j of the public table whose polynomial reproduces the returned value
 *     Val{E,t2,err}                             |returned - exact| / max(1,|exact|) in 1e-12 units
 *     Area{E,err,add}                           curve_area(xy,0) vs s * exact area; additivity over every split point (1e-12 units)
 * ledger: random knot sets, 3..40 knots, spacing decades 1e-4..1e4, uniform / irregular, arbitrary ordinates.  Events:
 *     Ledger{id,nk,dec,irr,interp,c1,c2,nat,lin,unit,lookup}   residuals in 1e-12 units (relative), lookup = number of wrong pieces
 *     Interp{id,nk,dec,np,dims,mono,val,first,ends,lin}        the one-call form interpolate() against the two-call form
 *     AreaL{id,nk,dec,exact,add}
 */
#include "scientific.h"
#include "verif_rt.h"

#define MAXK 64
static double piece_val(matrix *S, int j, double x){
  double xi = S->data[j][0], h = x - xi;
  return S->data[j][1] + S->data[j][2] * h + S->data[j][3] * h * h + S->data[j][4] * h * h * h;
}
static int reproduces(matrix *S, int j, double x, double y){
  double v = piece_val(S, j, x), m = 1.0;
  if(fabs(y) > m) m = fabs(y); if(fabs(v) > m) m = fabs(v);
  return vfinite(y) && fabs(v - y) <= 1e-9 * m;
}
static double predict1(matrix *S, double x){
  dvector *xq, *yp; NewDVector(&xq, 1); initDVector(&yp); xq->data[0] = x;
  cubic_spline_predict(xq, S, yp);
  double y = yp->data[0]; DelDVector(&xq); DelDVector(&yp); return y;
}
static double area_of(double *x, double *y, int lo, int hi){   /* curve_area on points lo..hi */
  matrix *xy; NewMatrix(&xy, hi - lo + 1, 2);
  for(int i = lo; i <= hi; i++){ xy->data[i - lo][0] = x[i]; xy->data[i - lo][1] = y[i]; }
  double a = curve_area(xy, 0); DelMatrix(&xy); return a;
}

static int replay(const char *cases, const char *out){
  FILE *in = fopen(cases, "r"); if(!in){ perror(cases); return 2; }
  vrt_open(out);
  long id; int nk;
  while(fscanf(in, "%ld %d", &id, &nk) == 2){
    long xs[MAXK], ys[MAXK], t2[2 * MAXK], vn[2 * MAXK], vd[2 * MAXK], an, ad; int npts, line;
    if(nk > MAXK) return 2;
    for(int i = 0; i < nk; i++) if(fscanf(in, "%ld", &xs[i]) != 1) return 2;
    for(int i = 0; i < nk; i++) if(fscanf(in, "%ld", &ys[i]) != 1) return 2;
    if(fscanf(in, "%d", &npts) != 1 || npts > 2 * MAXK) return 2;
    for(int i = 0; i < npts; i++) if(fscanf(in, "%ld %ld %ld", &t2[i], &vn[i], &vd[i]) != 3) return 2;
    if(fscanf(in, "%ld %ld %d", &an, &ad, &line) != 3) return 2;
    for(int E = -4; E <= 4; E++){
      double s = pow(10.0, E), x[MAXK], y[MAXK];
      matrix *xy, *S; NewMatrix(&xy, nk, 2); initMatrix(&S);
      for(int i = 0; i < nk; i++){ x[i] = (double)xs[i] * s; y[i] = (double)ys[i]; xy->data[i][0] = x[i]; xy->data[i][1] = y[i]; }
      cubic_spline_interpolation(xy, S);
      char buf[1024]; int p = 0;
      p += snprintf(buf + p, sizeof buf - p, "{\"e\":\"Knots\",\"id\":%ld,\"nk\":%d,\"xs\":[", id, nk);
      for(int i = 0; i < nk; i++) p += snprintf(buf + p, sizeof buf - p, "%s%ld", i ? "," : "", xs[i]);
      p += snprintf(buf + p, sizeof buf - p, "],\"E\":%d,\"rows\":%d}", E, (int)S->row);
      VRT_EMIT("%s", buf);
      for(int k = 0; k < npts; k++){
        /* knots: the very double stored in the table; midpoints: mean of the two neighbouring knot doubles */
        double xq;
        if(t2[k] % 2 == 0){ xq = (double)(t2[k] / 2) * s; }
        else{ int j = 0; while(j + 1 < nk && !(2 * xs[j] < t2[k] && t2[k] < 2 * xs[j + 1])) j++; xq = 0.5 * (x[j] + x[j + 1]); }
        double yp = predict1(S, xq), ex = (double)vn[k] / (double)vd[k];
        p = snprintf(buf, sizeof buf, "{\"e\":\"Piece\",\"E\":%d,\"t2\":%ld,\"chosen\":[", E, t2[k]);
        int first = 1;
        for(int j = 0; j < (int)S->row; j++) if(reproduces(S, j, xq, yp)){ p += snprintf(buf + p, sizeof buf - p, "%s%d", first ? "" : ",", j); first = 0; }
        p += snprintf(buf + p, sizeof buf - p, "]}");
        VRT_EMIT("%s", buf);
        VRT_EMIT("{\"e\":\"Val\",\"E\":%d,\"t2\":%ld,\"err\":%ld}", E, t2[k], vq12(fabs(yp - ex) / (fabs(ex) > 1 ? fabs(ex) : 1.0)));
      }
      /* trapezoid area: exact value s*an/ad; additivity over every split point */
      double A = area_of(x, y, 0, nk - 1), exA = s * (double)an / (double)ad, norm = 0, add = 0;
      for(int i = 0; i + 1 < nk; i++) norm += fabs((x[i + 1] - x[i]) * 0.5 * (fabs(y[i]) + fabs(y[i + 1])));
      if(norm == 0) norm = s;
      for(int k = 1; k + 1 < nk; k++){ double d = fabs(A - area_of(x, y, 0, k) - area_of(x, y, k, nk - 1)); if(d > add) add = d; }
      VRT_EMIT("{\"e\":\"Area\",\"E\":%d,\"err\":%ld,\"add\":%ld}", E, vq12(fabs(A - exA) / norm), vq12(add / norm));
      DelMatrix(&xy); DelMatrix(&S);
    }
  }
  vrt_close();
  return 0;
}

/* ---- ledger on random knot sets ---- */
typedef struct { double interp, c1, c2, nat, ord; long wrong; } resid;
static void analyse(int nk, double *x, double *y, resid *r, double *pred_out){
  matrix *xy, *S; NewMatrix(&xy, nk, 2); initMatrix(&S);
  for(int i = 0; i < nk; i++){ xy->data[i][0] = x[i]; xy->data[i][1] = y[i]; }
  cubic_spline_interpolation(xy, S);
  int n = nk - 1;
  double ymax = 0, bmax = 0, cmax = 0;
  for(int i = 0; i < nk; i++) if(fabs(y[i]) > ymax) ymax = fabs(y[i]);
  if(ymax == 0) ymax = 1;
  for(int j = 0; j < n; j++){ if(fabs(S->data[j][2]) > bmax) bmax = fabs(S->data[j][2]); if(fabs(S->data[j][3]) > cmax) cmax = fabs(S->data[j][3]); }
  r->interp = r->c1 = r->c2 = r->nat = 0; r->wrong = 0;
  /* predictions at knots and midpoints through the public predictor */
  int np = 0;
  for(int i = 0; i < nk; i++){
    double yp = predict1(S, x[i]);
    pred_out[np++] = yp;
    double e = fabs(yp - y[i]) / ymax; if(!(e <= r->interp)) r->interp = e;
    int ok = 0; if(i > 0 && reproduces(S, i - 1, x[i], yp)) ok = 1; if(i < n && reproduces(S, i, x[i], yp)) ok = 1;
    if(!ok) r->wrong++;
    if(i < n){
      double xm = 0.5 * (x[i] + x[i + 1]), ym = predict1(S, xm);
      pred_out[np++] = ym;
      if(!reproduces(S, i, xm, ym)) r->wrong++;
    }
  }
  /* the value at an abscissa must not depend on what else is asked in the same call, nor on the order of the queries:
     all knots and midpoints in ONE call, descending and interleaved, against the one-at-a-time values */
  r->ord = 0;
  for(int pass = 0; pass < 2; pass++){
    dvector *xq, *yp; NewDVector(&xq, np); initDVector(&yp);
    int *src = malloc(sizeof(int) * np);
    for(int q = 0; q < np; q++) src[q] = pass == 0 ? np - 1 - q : (q % 2 ? np - 1 - q / 2 : q / 2);   /* descending / ends-inwards */
    for(int q = 0; q < np; q++){ int k = src[q]; xq->data[q] = (k % 2 == 0) ? x[k / 2] : 0.5 * (x[k / 2] + x[k / 2 + 1]); }
    cubic_spline_predict(xq, S, yp);
    if((int)yp->size != np) r->ord = 1.0;
    else for(int q = 0; q < np; q++){ double e = fabs(yp->data[q] - pred_out[src[q]]) / ymax; if(!(e <= r->ord)) r->ord = e; }
    free(src); DelDVector(&xq); DelDVector(&yp);
  }
  /* smoothness from the public table: S'_j, S''_j at the right end of piece j against piece j+1 */
  for(int j = 0; j < n; j++){
    double h = x[j + 1] - x[j];
    double d1 = S->data[j][2] + 2 * S->data[j][3] * h + 3 * S->data[j][4] * h * h;
    double d2 = 2 * S->data[j][3] + 6 * S->data[j][4] * h;
    if(j + 1 < n){
      double e1 = fabs(d1 - S->data[j + 1][2]) / (bmax > 0 ? bmax : 1.0), e2 = fabs(d2 - 2 * S->data[j + 1][3]) / (cmax > 0 ? 2 * cmax : 1.0);
      if(!(e1 <= r->c1)) r->c1 = e1; if(!(e2 <= r->c2)) r->c2 = e2;
      /* value continuity belongs to interpolation */
      double v = piece_val(S, j, x[j + 1]); double e0 = fabs(v - y[j + 1]) / ymax; if(!(e0 <= r->interp)) r->interp = e0;
    }
    else{ double e = fabs(d2) / (cmax > 0 ? 2 * cmax : 1.0); if(!(e <= r->nat)) r->nat = e; }
  }
  { double e = fabs(2 * S->data[0][3]) / (cmax > 0 ? 2 * cmax : 1.0); if(!(e <= r->nat)) r->nat = e; }
  DelMatrix(&xy); DelMatrix(&S);
}

/* interpolate(): the one-call form.  Residuals against the two-call form (cubic_spline_interpolation + cubic_spline_predict at the
 * very abscissae interpolate() returned), the first data point, the range ends and - for straight-line data - the line itself. */
typedef struct { int dims; double val, first, ends, lin; int mono; } iresid;
static void analyse_interp(int nk, double *x, double *y, int np, int line, double q0, double m, iresid *r){
  matrix *xy, *S, *out; NewMatrix(&xy, nk, 2); initMatrix(&S); NewMatrix(&out, 3, 5);   /* a sized, non-empty output: must be reshaped */
  for(int i = 0; i < nk; i++){ xy->data[i][0] = x[i]; xy->data[i][1] = y[i]; }
  for(size_t i = 0; i < out->row; i++) for(size_t j = 0; j < out->col; j++) out->data[i][j] = 12345.0;
  cubic_spline_interpolation(xy, S);
  interpolate(xy, (size_t)np, out);
  double ymax = 0, range = x[nk - 1] - x[0];
  for(int i = 0; i < nk; i++) if(fabs(y[i]) > ymax) ymax = fabs(y[i]);
  if(ymax == 0) ymax = 1;
  r->dims = ((int)out->row == np && out->col == 2); r->val = r->first = r->ends = r->lin = 0; r->mono = 1;
  if(r->dims){
    for(int i = 0; i < np; i++){
      double xo = out->data[i][0], yo = out->data[i][1];
      double e = fabs(yo - predict1(S, xo)) / ymax; if(!(e <= r->val)) r->val = e;
      if(i > 0 && !(xo > out->data[i - 1][0])) r->mono = 0;
      if(line){ e = fabs(yo - (q0 + m * (xo - x[0]))) / ymax; if(!(e <= r->lin)) r->lin = e; }
    }
    r->first = fabs(out->data[0][1] - y[0]) / ymax;
    r->ends = fmax(fabs(out->data[0][0] - x[0]), fabs(out->data[np - 1][0] - x[nk - 1])) / range;
  }
  DelMatrix(&xy); DelMatrix(&S); DelMatrix(&out);
}

static int ledger(const char *out, unsigned long seed, int count){
  vrt_open(out);
  vrng g = { seed * 2654435761UL + 17 };
  for(int id = 0; id < count; id++){
    int nk = (id < 38) ? 3 + id : (int)vr_int(&g, 3, 40);          /* every knot count 3..40 at least once */
    int dec = (int)(id % 9) - 4;                                    /* spacing decade 1e-4 .. 1e4 */
    int irr = (id / 9) % 3;                                         /* 0 uniform, 1 irregular within a decade, 2 irregular across two decades */
    double s = pow(10.0, dec), x[MAXK], y[MAXK], yl[MAXK], x2[MAXK], pred[2 * MAXK], pred2[2 * MAXK], predl[2 * MAXK];
    double x0 = (vr_unif(&g) - 0.5) * 20 * s, yscale = pow(10.0, (double)vr_int(&g, -3, 3));
    x[0] = x0;
    for(int i = 1; i < nk; i++){
      double h = s;
      if(irr == 1) h = s * (1.0 + 8.9 * vr_unif(&g));
      if(irr == 2){ h = s * pow(10.0, 2.0 * vr_unif(&g)); if(dec == 4) h = s * pow(10.0, -2.0 * vr_unif(&g)); }
      if(h < 1e-4) h = 1e-4; if(h > 1e4) h = 1e4;
      x[i] = x[i - 1] + h;
    }
    double m = (vr_unif(&g) - 0.5) * 4 / s, q0 = (vr_unif(&g) - 0.5) * 10;
    for(int i = 0; i < nk; i++){ y[i] = (vr_unif(&g) - 0.5) * 2 * yscale; yl[i] = q0 + m * (x[i] - x[0]); }
    resid r, r2, rl;
    analyse(nk, x, y, &r, pred);
    /* unit independence: the same points with x measured in another unit (factor 1000) */
    for(int i = 0; i < nk; i++) x2[i] = x[i] * 1000.0;
    analyse(nk, x2, y, &r2, pred2);
    double unit = 0, ymax = 0, lin = 0, lmax = 0;
    for(int i = 0; i < nk; i++) if(fabs(y[i]) > ymax) ymax = fabs(y[i]);
    if(ymax == 0) ymax = 1;
    for(int i = 0; i < 2 * nk - 1; i++){ double e = fabs(pred[i] - pred2[i]) / ymax; if(!(e <= unit)) unit = e; }
    /* straight lines are reproduced at knots and midpoints */
    analyse(nk, x, yl, &rl, predl);
    for(int i = 0; i < nk; i++) if(fabs(yl[i]) > lmax) lmax = fabs(yl[i]);
    if(lmax == 0) lmax = 1;
    for(int i = 0; i < nk; i++){
      double e = fabs(predl[2 * i] - yl[i]) / lmax; if(!(e <= lin)) lin = e;
      if(i + 1 < nk){ double xm = 0.5 * (x[i] + x[i + 1]); e = fabs(predl[2 * i + 1] - (q0 + m * (xm - x[0]))) / lmax; if(!(e <= lin)) lin = e; }
    }
    VRT_EMIT("{\"e\":\"Ledger\",\"id\":%d,\"nk\":%d,\"dec\":%d,\"irr\":%d,\"interp\":%ld,\"c1\":%ld,\"c2\":%ld,\"nat\":%ld,\"lin\":%ld,\"unit\":%ld,\"ord\":%ld,\"lookup\":%ld}",
             id, nk, dec, irr, vq12(r.interp), vq12(r.c1), vq12(r.c2), vq12(r.nat), vq12(lin), vq12(unit), vq12(fmax(r.ord, fmax(r2.ord, rl.ord))), r.wrong + r2.wrong + rl.wrong);
    { /* the one-call form interpolate(): 2 points, as many as knots, and a dense grid */
      int nps[3] = {2, nk, 3 * nk + 1};
      for(int t = 0; t < 3; t++){
        iresid a, b; analyse_interp(nk, x, y, nps[t], 0, 0, 0, &a); analyse_interp(nk, x, yl, nps[t], 1, q0, m, &b);
        VRT_EMIT("{\"e\":\"Interp\",\"id\":%d,\"nk\":%d,\"dec\":%d,\"np\":%d,\"dims\":%d,\"mono\":%d,\"val\":%ld,\"first\":%ld,\"ends\":%ld,\"lin\":%ld}",
                 id, nk, dec, nps[t], a.dims && b.dims, a.mono && b.mono, vq12(fmax(a.val, b.val)), vq12(fmax(a.first, b.first)), vq12(fmax(a.ends, b.ends)), vq12(b.lin));
      }
    }
    /* trapezoid: against an independent long double sum, and additivity over every split */
    long double ex = 0, norm = 0;
    for(int i = 0; i + 1 < nk; i++){ long double t = ((long double)x[i + 1] - x[i]) * (((long double)y[i] + y[i + 1]) / 2); ex += t; norm += fabsl(((long double)x[i + 1] - x[i]) * ((fabsl(y[i]) + fabsl(y[i + 1])) / 2)); }
    if(norm == 0) norm = 1;
    double A = area_of(x, y, 0, nk - 1), add = 0;
    for(int k = 1; k + 1 < nk; k++){ double d = fabs(A - area_of(x, y, 0, k) - area_of(x, y, k, nk - 1)); if(d > add) add = d; }
    VRT_EMIT("{\"e\":\"AreaL\",\"id\":%d,\"nk\":%d,\"dec\":%d,\"exact\":%ld,\"add\":%ld}", id, nk, dec, vq12((double)(fabsl(A - ex) / norm)), vq12((double)(add / norm)));
  }
  vrt_close();
  return 0;
}

int main(int argc, char **argv){
  if(argc >= 4 && !strcmp(argv[1], "replay")) return replay(argv[2], argv[3]);
  if(argc >= 5 && !strcmp(argv[1], "ledger")) return ledger(argv[2], strtoul(argv[3], 0, 10), atoi(argv[4]));
  fprintf(stderr, "usage: c19_spline replay cases out | ledger out seed count\n");
  return 2;
}
