/* c03_gen.h - input classes of C03 (include after pls_common.h).
 * Generators for the cross-cutting classes of INPUT-CLASSES.md that lie inside the quantifier of C03
 *   K1 shape relations (tall / n = p+1 / square / n = p-1 / wide; nlv = 1, inside, = rank)
 *   K2 block-size boundaries (n, p multiples of 4 / 32 and +-1)
 *   K3 location (columns and responses with |offset| up to 1e8 spreads)
 *   K4 magnitude (whole blocks in units 1e-6 .. 1e5)
 *   K5 non-representable tied values (grids 0.1 k, k/3, 1e-3 k)
 *   K7 in-process histories (driver), outputs that already hold other data
 *   K8 duplicate rows / duplicate columns / constant column / tied responses
 * and a rank-aware admission test: the preprocessed X must have a clear numerical rank r with sigma_1/sigma_r <= maxcond.
 * Whether r is the largest rank the shape allows (the statement's "full rank" read shape-wise) is decided in the
 * specification (Pls.tla, RankBound), not here.
 */
#ifndef C03_GEN_H
#define C03_GEN_H

enum { SH_TALL = 0, SH_TALL1, SH_SQUARE, SH_WIDE1, SH_WIDE, SH_N };
static const char *C3_SHAPE[SH_N] = {"tall", "tall1", "square", "wide1", "wide"};

/* shape class of an n x p block: the same case analysis as ShapeOf(n, p) in Pls.tla (TLC re-derives it from n and p) */
static int c3_shape_of(int n, int p){ return n > p + 1 ? SH_TALL : n == p + 1 ? SH_TALL1 : n == p ? SH_SQUARE : n == p - 1 ? SH_WIDE1 : SH_WIDE; }

static void c3_draw_shape(vrng *r, int sh, int *n, int *p){
  switch(sh){
    case SH_TALL:  { *n = (int)vr_int(r, 6, 40); int pm = *n - 2 < 12 ? *n - 2 : 12; *p = (int)vr_int(r, 1, pm); break; }
    case SH_TALL1: { *p = (int)vr_int(r, 5, 12); *n = *p + 1; break; }
    case SH_SQUARE:{ *p = (int)vr_int(r, 6, 12); *n = *p; break; }
    case SH_WIDE1: { *p = (int)vr_int(r, 7, 12); *n = *p - 1; break; }
    default:       { *n = (int)vr_int(r, 6, 10); *p = (int)vr_int(r, *n + 2, 12); break; }
  }
}

/* largest rank the preprocessed block can have: centring (options >= 0) removes one dimension from the objects */
static int c3_rank_bound(int n, int p, int xs){ int m = xs >= 0 ? n - 1 : n; return p < m ? p : m; }

/* admission of one block: finite, far from the MISSING sentinel, every column (but `skip`) non-constant; blocks that will be
 * SCALED (options 1..5) keep the distance to the library's zero-scale guards exactly as pc_admit_block does */
static int c3_admit_block(matrix *M, int scaling, long skip){
  if(scaling >= 1) return pc_admit_block_skip(M, scaling, skip);
  for(size_t j = 0; j < M->col; j++){
    double mn = M->data[0][j], mx = mn, amax = 0;
    for(size_t i = 0; i < M->row; i++){ double v = M->data[i][j]; if(!vfinite(v)) return 0; if(v < mn) mn = v; if(v > mx) mx = v; if(fabs(v) > amax) amax = fabs(v); }
    if(amax > 1e7) return 0;
    if((long)j == skip) continue;
    if(!(mx - mn > 1e-9 * amax) || !(mx - mn > 1e-12)) return 0;
  }
  return 1;
}

/* |largest entry| / rms spread about the mean, worst column: how many spreads the block sits away from the origin.
 * Computed from the input alone; the specification turns it into the representability term of its tolerances. */
static double c3_offset(matrix *M, long skip){
  double worst = 0;
  for(size_t j = 0; j < M->col; j++){
    if((long)j == skip) continue;
    double mean = 0, amax = 0, ss = 0;
    for(size_t i = 0; i < M->row; i++){ mean += M->data[i][j]; if(fabs(M->data[i][j]) > amax) amax = fabs(M->data[i][j]); }
    mean /= M->row;
    for(size_t i = 0; i < M->row; i++) ss += (M->data[i][j] - mean) * (M->data[i][j] - mean);
    double o = amax / sqrt(ss / M->row);
    if(!(o <= worst)) worst = o;
  }
  return worst;
}

/* rank-aware admission.  *rank = numerical rank of the preprocessed X (singular values above 1e-6 sigma_1, with a gap of
 * 1e3 below it), *cond = sigma_1 / sigma_rank <= maxcond.  skipx = a column of X that is constant by construction (-1: none) */
static int c3_admit(pc_case *c, double maxcond, double *cond, int *rank, long skipx){
  if(!c3_admit_block(c->X, c->xs, skipx) || !c3_admit_block(c->Y, c->ys, -1)) return 0;
  matrix *X0; dvector *a, *s; NewMatrix(&X0, c->n, c->p); initDVector(&a); initDVector(&s);
  MatrixPreprocess(c->X, c->xs, a, s, X0);
  int mn = c->p < c->n ? c->p : c->n, ok = 0;
  double *sv = malloc(sizeof(double) * (size_t)mn);
  int info = pc_svals(X0->data, c->n, c->p, sv);
  if(info == 0 && sv[0] > 0){
    int r = 0; while(r < mn && sv[r] > 1e-6 * sv[0]) r++;
    int gap = (r == mn) || (sv[r] <= 1e-3 * sv[r - 1] && sv[r] <= 1e-7 * sv[0]);
    if(r >= 1 && gap && sv[0] / sv[r - 1] <= maxcond){ ok = 1; *rank = r; *cond = sv[0] / sv[r - 1]; }
  }
  free(sv); DelMatrix(&X0); DelDVector(&a); DelDVector(&s);
  return ok;
}

/* ---- post-processing of a generated problem into a class -------------------------------------------------------- */
static void c3_col_stats(matrix *M, size_t j, double *mean, double *sd){
  double m = 0, ss = 0; for(size_t i = 0; i < M->row; i++) m += M->data[i][j]; m /= M->row;
  for(size_t i = 0; i < M->row; i++) ss += (M->data[i][j] - m) * (M->data[i][j] - m);
  *mean = m; *sd = sqrt(ss / (M->row - 1));
}
/* K3: move every column `lg10` decades of its own spread away from the origin (capped at |value| < 8e6) */
static void c3_add_offset(matrix *M, vrng *r, double lglo, double lghi){
  for(size_t j = 0; j < M->col; j++){
    double mean, sd; c3_col_stats(M, j, &mean, &sd);
    double o = sd * pow(10.0, lglo + (lghi - lglo) * vr_unif(r));
    if(o > 8e6) o = 8e6;
    if(vr_int(r, 0, 1)) o = -o;
    for(size_t i = 0; i < M->row; i++) M->data[i][j] += o - mean;
  }
}
/* K3 needs small spreads so that 1e8 spreads stay below the MISSING sentinel: bring every column to sd in 0.06 .. 0.1 */
static void c3_shrink(matrix *M, vrng *r){
  for(size_t j = 0; j < M->col; j++){
    double mean, sd; c3_col_stats(M, j, &mean, &sd);
    double f = (0.06 + 0.04 * vr_unif(r)) / sd;
    for(size_t i = 0; i < M->row; i++) M->data[i][j] *= f;
  }
}
static void c3_scale(matrix *M, double g){ for(size_t i = 0; i < M->row; i++) for(size_t j = 0; j < M->col; j++) M->data[i][j] *= g; }
/* K5: snap to a grid of non-representable steps (0.1, 1/3, 1e-3): exact ties, sums one ulp off */
static void c3_snap(matrix *M, double step, double spread){
  for(size_t j = 0; j < M->col; j++){
    double mean, sd; c3_col_stats(M, j, &mean, &sd);
    for(size_t i = 0; i < M->row; i++){ double k = nearbyint((M->data[i][j] - mean) / sd * spread); M->data[i][j] = k * step; }
  }
}
#endif
