/* c19_nm.c - conformance driver for the Nelder-Mead half of C19.
 * usage: c19_nm <out.ndjson> <seed> <nfull> <nlight>
 * The objective callback of NelderMeadSimplex is the observation seam (no hook): every evaluation is seen.
 *   full  runs: every evaluation is logged (order-preserving 3-limb code of the double) -> TraceNM.tla infers the moves
 *   light runs: only the summary is logged -> TraceNMProp.tla (result contract, distance to the true minimiser)
 *        c19_nm family <cases.txt> <out.ndjson>     (the integer family enumerated by TLC from spec/NMTie.tla, start class 10)
 * Events:
 *   Reset{id,n,maxit,cap,full}     cap = (n+1) + maxit*(n+3) objective evaluations at most
 *   Eval{v[3]}                     (full runs) one objective evaluation
 *   InitBest{v[3]}                 (light runs) smallest value among the first n+1 evaluations = best vertex of the initial simplex
 *   Return{v[3],evals}             value reported by NelderMeadSimplex, number of evaluations it made
 *   Check{v[3]}                    objective re-evaluated by the harness at the returned point
 *   Quad{dim,cond,judge,conv,dist} strictly convex quadratic: |returned point - true minimiser| / max(1,|minimiser|) in 1e-9 units;
 *                                  judge = 1 for runs with the large iteration budget (4000*dim), conv = 1 when it stopped on its tolerance;
 *                                  cls = 1: offset class (|f*| = 1e3..1e7, xtol 1e-10 / 1e-8), R = max(log10 xtol, log10|f*| - 15), adist = absolute distance (1e-9 units)
 */
#include "scientific.h"
#include "verif_rt.h"

#define MAXD 6
static int dim, logging; static long nevals; static double A[MAXD][MAXD], ctr[MAXD], f0, initbest; static long ninit;
static double quad(dvector *x){
  double s = f0;
  for(int i = 0; i < dim; i++) for(int j = 0; j < dim; j++) s += (x->data[i] - ctr[i]) * A[i][j] * (x->data[j] - ctr[j]);
  nevals++;
  if(nevals <= dim + 1 && (nevals == 1 || s < initbest)) initbest = s;
  if(logging){ long l[3]; vcode3(s, l); VRT_EMIT("{\"e\":\"Eval\",\"v\":[%ld,%ld,%ld]}", l[0], l[1], l[2]); }
  return s;
}

/* A = Q diag(lambda) Q', lambda in [1, cond] (both ends attained), Q from Gram-Schmidt of a random normal matrix */
static void make_quadratic(vrng *g, int d, double cond){
  double Qm[MAXD][MAXD], lam[MAXD];
  for(int i = 0; i < d; i++) for(int j = 0; j < d; j++) Qm[i][j] = vr_norm(g);
  for(int i = 0; i < d; i++){
    for(int k = 0; k < i; k++){ double dot = 0; for(int j = 0; j < d; j++) dot += Qm[i][j] * Qm[k][j]; for(int j = 0; j < d; j++) Qm[i][j] -= dot * Qm[k][j]; }
    double nn = 0; for(int j = 0; j < d; j++) nn += Qm[i][j] * Qm[i][j]; nn = sqrt(nn);
    if(nn < 1e-8){ for(int j = 0; j < d; j++) Qm[i][j] = (i == j); i--; continue; }
    for(int j = 0; j < d; j++) Qm[i][j] /= nn;
  }
  for(int i = 0; i < d; i++) lam[i] = (i == 0) ? 1.0 : (i == 1) ? cond : 1.0 + (cond - 1.0) * vr_unif(g);
  for(int i = 0; i < d; i++) for(int j = 0; j < d; j++){ double s = 0; for(int k = 0; k < d; k++) s += Qm[k][i] * lam[k] * Qm[k][j]; A[i][j] = s; }
  for(int i = 0; i < d; i++) for(int j = 0; j < i; j++) A[i][j] = A[j][i];   /* exactly symmetric */
  for(int i = 0; i < d; i++) ctr[i] = (vr_unif(g) - 0.5) * 20.0;
  f0 = (vr_unif(g) - 0.5) * 10.0;
}

/* solve A w = rhs (A symmetric positive definite, d <= 6): Gauss elimination with partial pivoting */
static void solve_spd(int d, double *rhs, double *w){
  double M[MAXD][MAXD + 1];
  for(int i = 0; i < d; i++){ for(int j = 0; j < d; j++) M[i][j] = A[i][j]; M[i][d] = rhs[i]; }
  for(int c = 0; c < d; c++){
    int pv = c; for(int r = c + 1; r < d; r++) if(fabs(M[r][c]) > fabs(M[pv][c])) pv = r;
    for(int j = 0; j <= d; j++){ double t = M[c][j]; M[c][j] = M[pv][j]; M[pv][j] = t; }
    for(int r = c + 1; r < d; r++){ double f = M[r][c] / M[c][c]; for(int j = c; j <= d; j++) M[r][j] -= f * M[c][j]; }
  }
  for(int i = d - 1; i >= 0; i--){ double t = M[i][d]; for(int j = i + 1; j < d; j++) t -= M[i][j] * w[j]; w[i] = t / M[i][i]; }
}
static double plain_quad(const double *x){
  double s = f0;
  for(int i = 0; i < dim; i++) for(int j = 0; j < dim; j++) s += (x[i] - ctr[i]) * A[i][j] * (x[j] - ctr[j]);
  return s;
}
/* spread of the objective over the initial simplex {x0, x0 + s_j e_j} */
static double init_spread(const double *x0, const double *st){
  double lo = plain_quad(x0), hi = lo, v[MAXD];
  for(int j = 0; j < dim; j++){ for(int i = 0; i < dim; i++) v[i] = x0[i]; v[j] += st[j]; double f = plain_quad(v); if(f < lo) lo = f; if(f > hi) hi = f; }
  return hi - lo;
}

/* start classes (field sc): 0 generic, 2 flat start exact / separable bowl, 3 flat start exact / non-separable (A = dI + J),
 * 4 flat start to 1e-12 / general quadratic (x0 = m - A^-1 diag(A) s / 2), 5 start AT the minimiser, 6 start 1e3 away,
 * 7 step decade 1e-3..1e3 (field sd), 9 the previous minimisation once more (same function, start, steps) */
/* start class 10: the integer family of spec/NMTie.tla (2 dimensions, f = a x^2 + 2 b x y + c y^2, integer start, integer steps), one
 * line "a b c x0 y0 s1 s2 flat" per start as TLC printed it (flat = the model finds the three initial values equal); summary events only */
static int family(const char *cases, const char *out){
  FILE *in = fopen(cases, "r"); if(!in){ perror(cases); return 2; }
  vrt_open(out);
  long a, b, c, x0i, y0i, s1, s2, mflat; int id = 0;
  while(fscanf(in, "%ld %ld %ld %ld %ld %ld %ld %ld", &a, &b, &c, &x0i, &y0i, &s1, &s2, &mflat) == 8){
    dim = 2; A[0][0] = (double)a; A[0][1] = A[1][0] = (double)b; A[1][1] = (double)c; ctr[0] = ctr[1] = 0; f0 = 0;
    double x0v[MAXD] = {(double)x0i, (double)y0i}, stv[MAXD] = {(double)s1, (double)s2};
    size_t maxit = 8000; long cap = 3 + (long)maxit * 5, l[3];
    dvector *x0, *step, *best; NewDVector(&x0, 2); NewDVector(&step, 2); initDVector(&best);
    for(int i = 0; i < 2; i++){ x0->data[i] = x0v[i]; step->data[i] = stv[i]; }
    VRT_EMIT("{\"e\":\"Reset\",\"id\":%d,\"n\":2,\"maxit\":%ld,\"cap\":%ld,\"full\":0,\"sc\":10,\"sd\":0,\"fs\":%ld,\"c100\":0,\"st\":1,\"mflat\":%ld,\"q\":[%ld,%ld,%ld],\"x0\":[%ld,%ld],\"s\":[%ld,%ld]}",
             id, (long)maxit, cap, vq_unit(init_spread(x0v, stv), 1e-15), mflat, a, b, c, x0i, y0i, s1, s2);
    nevals = 0; logging = 0; initbest = 0;
    double res = NelderMeadSimplex(quad, x0, step, 1e-12, maxit, best);
    long ev = nevals;
    vcode3(initbest, l); VRT_EMIT("{\"e\":\"InitBest\",\"v\":[%ld,%ld,%ld]}", l[0], l[1], l[2]);
    vcode3(res, l); VRT_EMIT("{\"e\":\"Return\",\"v\":[%ld,%ld,%ld],\"evals\":%ld}", l[0], l[1], l[2], ev);
    int shape = best->size == 2; double fb = 0.0 / 0.0, dist = 0;
    if(shape){ fb = quad(best); dist = sqrt(best->data[0] * best->data[0] + best->data[1] * best->data[1]); }
    vcode3(fb, l); VRT_EMIT("{\"e\":\"Check\",\"v\":[%ld,%ld,%ld]}", l[0], l[1], l[2]);
    VRT_EMIT("{\"e\":\"Quad\",\"dim\":2,\"cond\":%d,\"judge\":1,\"conv\":%d,\"dist\":%ld,\"cls\":0,\"R\":-12,\"adist\":%ld,\"sc\":10}", 5, ev < 3 + (long)maxit,
             shape ? vq9(dist) : VQ_MAX, shape ? vq9(dist) : VQ_MAX);
    DelDVector(&x0); DelDVector(&step); DelDVector(&best); id++;
  }
  fclose(in); vrt_close();
  return id ? 0 : 2;
}

int main(int argc, char **argv){
  if(argc >= 4 && !strcmp(argv[1], "family")) return family(argv[2], argv[3]);
  if(argc < 5){ fprintf(stderr, "usage: c19_nm out seed nfull nlight | c19_nm family cases out\n"); return 2; }
  vrt_open(argv[1]);
  vrng g = { strtoul(argv[2], 0, 10) * 0x9E3779B97F4A7C15ULL + 99 };
  int nfull = atoi(argv[3]), nlight = atoi(argv[4]);
  static const size_t smallcaps[5] = {0, 1, 2, 5, 20};
  static const int sctab[12] = {0, 0, 2, 0, 3, 0, 4, 5, 6, 7, 9, 0};
  double px0[MAXD], pst[MAXD]; int phas = 0, pdim = 0; double pxtol = 0; size_t pmaxit = 0; double pcond = 1;   /* the previous problem (class 9) */
  for(int id = 0; id < nfull + nlight; id++){
    int full = id < nfull;
    int slot = id % 12, sc = sctab[slot];
    int cls = (!full && slot == 3) ? 1 : 0;
    int capped = full ? (slot == 5 || slot == 11 || slot == 1) : (slot == 5);
    if(sc == 9 && !pdim) sc = 0;
    double cond = 1; size_t maxit; double xtol = 1e-12; int xe = -12, fe = 1, sd = 0, hasstep = 0;
    double x0v[MAXD], stv[MAXD];
    if(sc == 9){                                            /* same function (A, ctr, f0 untouched), same start, same steps */
      dim = pdim; cond = pcond; maxit = pmaxit; xtol = pxtol; hasstep = phas;
      for(int i = 0; i < dim; i++){ x0v[i] = px0[i]; stv[i] = pst[i]; }
      sd = 99;
    }
    else{
      dim = 2 + id % 5;
      cond = (id % 4 == 0) ? 100.0 : 1.0 + 99.0 * vr_unif(&g);
      make_quadratic(&g, dim, cond);
      if(full) maxit = capped ? smallcaps[(id / 3) % 5] : 150;
      else maxit = capped ? smallcaps[(id / 6) % 5] : 4000 * (size_t)dim;
      for(int i = 0; i < dim; i++) x0v[i] = (vr_unif(&g) - 0.5) * 20.0;
      hasstep = id % 2;
      for(int i = 0; i < dim; i++) stv[i] = hasstep ? (0.1 + 1.9 * vr_unif(&g)) * (vr_unif(&g) < 0.5 ? -1 : 1) : 0.5;
      if(sc == 2){                                          /* separable bowl, dyadic data: all n+1 initial values are EQUAL */
        static const double lams[8] = {1, 2, 4, 8, 16, 32, 64, 100};
        for(int i = 0; i < dim; i++) for(int j = 0; j < dim; j++) A[i][j] = 0;
        double lmax = 1; A[0][0] = 1;
        for(int i = 1; i < dim; i++){ A[i][i] = lams[vr_int(&g, 0, 7)]; if(A[i][i] > lmax) lmax = A[i][i]; }
        cond = lmax;
        for(int i = 0; i < dim; i++){ ctr[i] = (double)vr_int(&g, -8, 8); stv[i] = (vr_unif(&g) < 0.5 ? -1 : 1) * ldexp(1.0, (int)vr_int(&g, -1, 2)); x0v[i] = ctr[i] - stv[i] / 2; }
        f0 = (double)vr_int(&g, -20, 20) / 4.0; hasstep = 1;
        if(vr_unif(&g) < 0.3){ for(int i = 0; i < dim; i++){ stv[i] = 0.5; x0v[i] = ctr[i] - 0.25; } hasstep = 0; }   /* the default steps (step == NULL) */
      }
      if(sc == 3){                                          /* A = d I + J (eigenvalues d, d + n), z integer: steps 2 (Az)_j / A_jj, x0 = m - z */
        static const double ds[3] = {1, 3, 7}; double d = ds[vr_int(&g, 0, 2)], z[MAXD], zs; int ok = 0;
        for(int i = 0; i < dim; i++) for(int j = 0; j < dim; j++) A[i][j] = (i == j) ? d + 1 : 1;
        cond = (d + dim) / d;
        while(!ok){ zs = 0; for(int i = 0; i < dim; i++){ z[i] = (double)vr_int(&g, -3, 3); zs += z[i]; } ok = 1; for(int i = 0; i < dim; i++) if(d * z[i] + zs == 0) ok = 0; }
        if(dim == 2 && (id / 60) % 3 != 2){ d = ds[vr_int(&g, 0, 1)]; z[0] = (double)vr_int(&g, 1, 3) * (vr_unif(&g) < 0.5 ? -1 : 1); z[1] = -z[0]; zs = 0;     /* antisymmetric start: x0 - m = (t, -t) */
          for(int i = 0; i < dim; i++) for(int j = 0; j < dim; j++) A[i][j] = (i == j) ? d + 1 : 1; cond = (d + dim) / d; }
        for(int i = 0; i < dim; i++){ ctr[i] = (double)vr_int(&g, -8, 8); stv[i] = 2 * (d * z[i] + zs) / (d + 1); x0v[i] = ctr[i] - z[i]; }
        f0 = (double)vr_int(&g, -20, 20) / 4.0; hasstep = 1;
      }
      if(sc == 4){                                          /* general quadratic: x0 = m - A^-1 diag(A) s / 2, flat to rounding */
        double rhs[MAXD], w[MAXD]; hasstep = 1;
        for(int i = 0; i < dim; i++) stv[i] = (0.1 + 0.9 * vr_unif(&g)) * (vr_unif(&g) < 0.5 ? -1 : 1);
        for(int tries = 0; tries < 6; tries++){
          for(int i = 0; i < dim; i++) rhs[i] = A[i][i] * stv[i] / 2;
          solve_spd(dim, rhs, w);
          for(int i = 0; i < dim; i++) x0v[i] = ctr[i] - w[i];
          if(init_spread(x0v, stv) < 4e-13) break;
          for(int i = 0; i < dim; i++) stv[i] /= 2;
        }
        if(!(init_spread(x0v, stv) < 4e-13)) sc = 0;
      }
      if(sc == 5) for(int i = 0; i < dim; i++) x0v[i] = ctr[i];
      if(sc == 6){ double nn = 0, u[MAXD]; for(int i = 0; i < dim; i++){ u[i] = vr_norm(&g); nn += u[i] * u[i]; } nn = sqrt(nn); if(nn == 0){ u[0] = 1; nn = 1; }
                   double rad = 1e3 * (0.5 + vr_unif(&g)); for(int i = 0; i < dim; i++) x0v[i] = ctr[i] + rad * u[i] / nn; }
      if(sc == 7){ static const int sds[6] = {-3, -2, -1, 1, 2, 3}; sd = sds[(id / 12) % 6]; hasstep = 1;
                   for(int i = 0; i < dim; i++) stv[i] = pow(10.0, sd) * (0.2 + 0.8 * vr_unif(&g)) * (vr_unif(&g) < 0.5 ? -1 : 1); }
      if(full && (sc >= 2 && sc <= 5) && dim <= 4) maxit = 4000 * (size_t)dim;      /* judged for convergence in the callback traces too */
    }
    /* offset class (light runs only): the same quadratics with a minimum value of large magnitude and a coarser tolerance; the
       stop test is documented as ABSOLUTE (spread of the vertex values < xtol), so the returned point must still be within
       10 sqrt(max(xtol, resolution of f at |f*|)) of the minimiser (lambda_min = 1) */
    if(cls){
      int k = 3 + 2 * (int)vr_int(&g, 0, 2); f0 = (vr_unif(&g) < 0.7 ? -1.0 : 1.0) * pow(10.0, k) * (0.1 + 0.9 * vr_unif(&g)); fe = k;
      xe = vr_unif(&g) < 0.5 ? -10 : -8; xtol = pow(10.0, xe); maxit = 4000 * (size_t)dim;
    }
    dvector *x0, *best, *step = NULL; NewDVector(&x0, dim); initDVector(&best);
    if(id % 3 == 1){ DVectorResize(best, 9); for(int i = 0; i < 9; i++) best->data[i] = 555.0; }      /* an already sized result vector holding other data */
    for(int i = 0; i < dim; i++) x0->data[i] = x0v[i];
    if(hasstep){ NewDVector(&step, dim); for(int i = 0; i < dim; i++) step->data[i] = stv[i]; }
    int R = xe > fe - 15 ? xe : fe - 15;
    long cap = (dim + 1) + (long)maxit * (dim + 3);
    double spread = init_spread(x0v, stv);
    VRT_EMIT("{\"e\":\"Reset\",\"id\":%d,\"n\":%d,\"maxit\":%ld,\"cap\":%ld,\"full\":%d,\"sc\":%d,\"sd\":%d,\"fs\":%ld,\"c100\":%d,\"st\":%d}", id, dim, (long)maxit, cap, full, sc, sd,
             vq_unit(spread, 1e-15), cond == 100.0, hasstep);
    nevals = 0; logging = full; initbest = 0;
    double res = NelderMeadSimplex(quad, x0, step, xtol, maxit, best);
    long ev = nevals, l[3];
    logging = 0;
    if(!full){ vcode3(initbest, l); VRT_EMIT("{\"e\":\"InitBest\",\"v\":[%ld,%ld,%ld]}", l[0], l[1], l[2]); }
    vcode3(res, l); VRT_EMIT("{\"e\":\"Return\",\"v\":[%ld,%ld,%ld],\"evals\":%ld}", l[0], l[1], l[2], ev);
    double dist = 0, cn = 0; int shape = best->size == (size_t)dim;
    double fb = 0.0 / 0.0;
    if(shape){ fb = quad(best); for(int i = 0; i < dim; i++){ dist += (best->data[i] - ctr[i]) * (best->data[i] - ctr[i]); cn += ctr[i] * ctr[i]; } }
    vcode3(fb, l); VRT_EMIT("{\"e\":\"Check\",\"v\":[%ld,%ld,%ld]}", l[0], l[1], l[2]);
    double adist = sqrt(dist);
    dist = sqrt(dist) / (sqrt(cn) > 1 ? sqrt(cn) : 1.0);
    /* judged for convergence: runs with the large iteration budget; conv = it certainly stopped on its tolerance
     * (every iteration costs at least one evaluation) */
    int judge = maxit >= 1000, conv = ev < (long)(dim + 1) + (long)maxit;
    VRT_EMIT("{\"e\":\"Quad\",\"dim\":%d,\"cond\":%ld,\"judge\":%d,\"conv\":%d,\"dist\":%ld,\"cls\":%d,\"R\":%d,\"adist\":%ld,\"sc\":%d}", dim, (long)ceil(cond), judge, conv, shape ? vq9(dist) : VQ_MAX, cls, R, shape ? vq9(adist) : VQ_MAX, sc);
    pdim = dim; pcond = cond; pmaxit = maxit; pxtol = xtol; phas = hasstep;
    for(int i = 0; i < dim; i++){ px0[i] = x0v[i]; pst[i] = stv[i]; }
    DelDVector(&x0); DelDVector(&best); if(step) DelDVector(&step);
  }
  vrt_close();
  return 0;
}
