/* c19_nm.c - conformance driver for the Nelder-Mead half of C19.
 * usage: c19_nm <out.ndjson> <seed> <nfull> <nlight>
 * The objective callback of NelderMeadSimplex is the observation seam (no hook): every evaluation is seen.
 *   full  runs: every evaluation is logged (order-preserving 3-limb code of the double) -> TraceNM.tla infers the moves
 *   light runs: only the summary is logged -> TraceNMProp.tla (result contract, distance to the true minimiser)
 * Events:
 *   Reset{id,n,maxit,cap,full}     cap = (n+1) + maxit*(n+3) objective evaluations at most
 *   Eval{v[3]}                     (full runs) one objective evaluation
 *   InitBest{v[3]}                 (light runs) smallest value among the first n+1 evaluations = best vertex of the initial simplex
 *   Return{v[3],evals}             value reported by NelderMeadSimplex, number of evaluations it made
 *   Check{v[3]}                    objective re-evaluated by the harness at the returned point
 *   Quad{dim,cond,judge,conv,dist} strictly convex quadratic: |returned point - true minimiser| / max(1,|minimiser|) in 1e-9 units;
 *                                  judge = 1 for runs with the large iteration budget (4000*dim), conv = 1 when it stopped on its tolerance;
 *                                  cls = 1: offset class (|f*| = 1e3..1e7, xtol 1e-10 / 1e-8), R = max(log10 xtol, log10|f*| - 15), adist = absolute distance (1e-9 units)
 */
#include "scientific.h"
#include "verif_rt.h"

#define MAXD 6
static int dim, logging; static long nevals; static double A[MAXD][MAXD], ctr[MAXD], f0, initbest; static long ninit;
static double quad(dvector *x){
  double s = f0;
  for(int i = 0; i < dim; i++) for(int j = 0; j < dim; j++) s += (x->data[i] - ctr[i]) * A[i][j] * (x->data[j] - ctr[j]);
  nevals++;
  if(nevals <= dim + 1 && (nevals == 1 || s < initbest)) initbest = s;
  if(logging){ long l[3]; vcode3(s, l); VRT_EMIT("{\"e\":\"Eval\",\"v\":[%ld,%ld,%ld]}", l[0], l[1], l[2]); }
  return s;
}

/* A = Q diag(lambda) Q', lambda in [1, cond] (both ends attained), Q from Gram-Schmidt of a random normal matrix */
static void make_quadratic(vrng *g, int d, double cond){
  double Qm[MAXD][MAXD], lam[MAXD];
  for(int i = 0; i < d; i++) for(int j = 0; j < d; j++) Qm[i][j] = vr_norm(g);
  for(int i = 0; i < d; i++){
    for(int k = 0; k < i; k++){ double dot = 0; for(int j = 0; j < d; j++) dot += Qm[i][j] * Qm[k][j]; for(int j = 0; j < d; j++) Qm[i][j] -= dot * Qm[k][j]; }
    double nn = 0; for(int j = 0; j < d; j++) nn += Qm[i][j] * Qm[i][j]; nn = sqrt(nn);
    if(nn < 1e-8){ for(int j = 0; j < d; j++) Qm[i][j] = (i == j); i--; continue; }
    for(int j = 0; j < d; j++) Qm[i][j] /= nn;
  }
  for(int i = 0; i < d; i++) lam[i] = (i == 0) ? 1.0 : (i == 1) ? cond : 1.0 + (cond - 1.0) * vr_unif(g);
  for(int i = 0; i < d; i++) for(int j = 0; j < d; j++){ double s = 0; for(int k = 0; k < d; k++) s += Qm[k][i] * lam[k] * Qm[k][j]; A[i][j] = s; }
  for(int i = 0; i < d; i++) for(int j = 0; j < i; j++) A[i][j] = A[j][i];   /* exactly symmetric */
  for(int i = 0; i < d; i++) ctr[i] = (vr_unif(g) - 0.5) * 20.0;
  f0 = (vr_unif(g) - 0.5) * 10.0;
}

int main(int argc, char **argv){
  if(argc < 5){ fprintf(stderr, "usage: c19_nm out seed nfull nlight\n"); return 2; }
  vrt_open(argv[1]);
  vrng g = { strtoul(argv[2], 0, 10) * 0x9E3779B97F4A7C15ULL + 99 };
  int nfull = atoi(argv[3]), nlight = atoi(argv[4]);
  static const size_t smallcaps[5] = {0, 1, 2, 5, 20};
  for(int id = 0; id < nfull + nlight; id++){
    int full = id < nfull;
    dim = full ? 2 + id % 3 : 2 + id % 5;
    double cond = (id % 4 == 0) ? 100.0 : 1.0 + 99.0 * vr_unif(&g);
    make_quadratic(&g, dim, cond);
    size_t maxit;
    if(full) maxit = (id % 3 == 2) ? smallcaps[(id / 3) % 5] : 150;
    else maxit = (id % 6 == 5) ? smallcaps[(id / 6) % 5] : 4000 * (size_t)dim;
    dvector *x0, *best, *step = NULL; NewDVector(&x0, dim); initDVector(&best);
    for(int i = 0; i < dim; i++) x0->data[i] = (vr_unif(&g) - 0.5) * 20.0;
    if(id % 2){ NewDVector(&step, dim); for(int i = 0; i < dim; i++) step->data[i] = (0.1 + 1.9 * vr_unif(&g)) * (vr_unif(&g) < 0.5 ? -1 : 1); }
    /* offset class (light runs only): the same quadratics with a minimum value of large magnitude and a coarser tolerance; the
       stop test is documented as ABSOLUTE (spread of the vertex values < xtol), so the returned point must still be within
       10 sqrt(max(xtol, resolution of f at |f*|)) of the minimiser (lambda_min = 1) */
    int cls = (!full && id % 6 == 3) ? 1 : 0; double xtol = 1e-12; int xe = -12, fe = 1;
    if(cls){
      int k = 3 + 2 * (int)vr_int(&g, 0, 2); f0 = (vr_unif(&g) < 0.7 ? -1.0 : 1.0) * pow(10.0, k) * (0.1 + 0.9 * vr_unif(&g)); fe = k;
      xe = vr_unif(&g) < 0.5 ? -10 : -8; xtol = pow(10.0, xe); maxit = 4000 * (size_t)dim;
    }
    int R = xe > fe - 15 ? xe : fe - 15;
    long cap = (dim + 1) + (long)maxit * (dim + 3);
    VRT_EMIT("{\"e\":\"Reset\",\"id\":%d,\"n\":%d,\"maxit\":%ld,\"cap\":%ld,\"full\":%d}", id, dim, (long)maxit, cap, full);
    nevals = 0; logging = full; initbest = 0;
    double res = NelderMeadSimplex(quad, x0, step, xtol, maxit, best);
    long ev = nevals, l[3];
    logging = 0;
    if(!full){ vcode3(initbest, l); VRT_EMIT("{\"e\":\"InitBest\",\"v\":[%ld,%ld,%ld]}", l[0], l[1], l[2]); }
    vcode3(res, l); VRT_EMIT("{\"e\":\"Return\",\"v\":[%ld,%ld,%ld],\"evals\":%ld}", l[0], l[1], l[2], ev);
    double dist = 0, cn = 0; int shape = best->size == (size_t)dim;
    double fb = 0.0 / 0.0;
    if(shape){ fb = quad(best); for(int i = 0; i < dim; i++){ dist += (best->data[i] - ctr[i]) * (best->data[i] - ctr[i]); cn += ctr[i] * ctr[i]; } }
    vcode3(fb, l); VRT_EMIT("{\"e\":\"Check\",\"v\":[%ld,%ld,%ld]}", l[0], l[1], l[2]);
    double adist = sqrt(dist);
    dist = sqrt(dist) / (sqrt(cn) > 1 ? sqrt(cn) : 1.0);
    /* judged for convergence: runs with the large iteration budget; conv = it certainly stopped on its tolerance
     * (every iteration costs at least one evaluation) */
    int judge = maxit >= 1000, conv = ev < (long)(dim + 1) + (long)maxit;
    VRT_EMIT("{\"e\":\"Quad\",\"dim\":%d,\"cond\":%ld,\"judge\":%d,\"conv\":%d,\"dist\":%ld,\"cls\":%d,\"R\":%d,\"adist\":%ld}", dim, (long)ceil(cond), judge, conv, shape ? vq9(dist) : VQ_MAX, cls, R, shape ? vq9(adist) : VQ_MAX);
    DelDVector(&x0); DelDVector(&best); if(step) DelDVector(&step);
  }
  vrt_close();
  return 0;
}
