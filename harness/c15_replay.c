/* c15_replay.c - conformance driver for C15 (figures of merit equal their definitions).
 *
 *   c15_replay replay <cases.txt> <out.ndjson> <family>         replay TLC-generated cases (spec/Stats.tla) of one family
 *   c15_replay trace  <out.ndjson> <seed> <blocks> <maxn>       validate direction: random long inputs, results logged for TLC
 *   c15_replay one    <cases.txt> <out.ndjson>                  validate direction on given inputs (replay of a reported case)
 *   c15_replay cls    <out.ndjson> <seed> <level> <part> <nparts> validate direction, CLASS-directed (INPUT-CLASSES.md K1..K9): stratified blocks, see do_cls()
 *
 * cases.txt (written by the check from TLC's output):  <family> <nscalars> <narrays> / scalars / one line "<len> v.." per array
 *   Roc    scalars n p nn auc2 apn apd          arrays y ord roc(2 per point) pr(2 per point)
 *   Reg    scalars n                            arrays yt yp q(msen msed maen maed r2n r2d biasn biasd)      99 = missing-coded truth
 *   PlsReg scalars n ny nlv   (also Mlr)        arrays mt mp q(8 per (lv, j))
 *   PlsDa  scalars n ny nlv                     arrays mt mp ent(auc2 p nn apn apd per (lv, j)) roc pr
 * replay output:  Res{fam,i,ok[,fails[{fn,shifted,what,got,want}]]}  one per case (first mismatch per library function);  Done{cases};  Crash{fam,i}
 * trace output (integers only, read by TLC against spec/TraceStats.tla):
 *   Reset{n}
 *   Roc{kind,n,y,ord,p,nn,pts,res,auc2,aucres}  Area{ca2,cares}  Pr{pr,prres,ap9}     kind: base | mono | perm | neg
 *       pts = round(x*N), round(y*P) of every returned point, res = largest distance of a coordinate from that fraction (1e-12 units),
 *       auc2 = round(auc*2PN) (+ residual), ca2 the same for curve_area() called on the returned points, pr = [round(recall*P), index]
 *   RegIn{n,exp,dx,off,yt,yp,m}  Mse{ssen,res}  Mae{saen,res}  Rmse{res}  R2{q,d,num,res,over}  Bias{q,d,num,res}     q in units of 1e-4;
 *       values fed = (int + off) * 2^exp * 10^dx;  d = m*Syy - Sy^2 of the integer truths (recomputed by TLC), num = round(result * d), res = |result - num/d| (1e-12)
 *   Again{fn,var,pre,rows,head,pts,res}      ROC / PrecisionRecall called on the data of the last Roc event into an output that already holds `pre` rows
 *   TabIn{fam,n,ny,nlv,exp,off,mask,hist,pre,mt,mp}  TabOut{dims,ent}      PLSRegressionStatistics / MLRRegressionStatistics (mask: 1 r2, 2 rmse, 4 bias non-NULL;
 *       hist: fresh presized resized second shape; pre = entries each output held on entry; ent[(lv,j) LV-major] = [m, ssen, msres, d, r2num, r2res, bnum, bres])
 *   DaIn{n,ny,nlv,hist,pre,mt,ords}  DaOut{dims,ent,rocs,prs,res}          PLSDiscriminantAnalysisStatistics (ords[c] = rank order of score column c)
 *   Poly{n,exp,pts,a2,res}                   curve_area() on an arbitrary integer polyline (outside the statement: EXTRA only)
 */
#include "scientific.h"
#include "verif_rt.h"
#include <float.h>
#include <stdarg.h>

#define MISSCODE 99
typedef struct { int len; long *v; } arr;
typedef struct { char fam[16]; int nsc, narr; long sc[16]; arr a[8]; } scase;

static const char *cur_fam = ""; static long cur_i = -1;
static void crash_line(void){ if(vrt_out && cur_i >= 0){ fprintf(vrt_out, "{\"e\":\"Crash\",\"fam\":\"%s\",\"i\":%ld}\n", cur_fam, cur_i); fflush(vrt_out); } }
static void on_signal(int sig){ crash_line(); _exit(128 + sig); }
#if defined(__has_feature)
#if __has_feature(address_sanitizer)
void __sanitizer_set_death_callback(void (*cb)(void));
#define HAVE_DEATH_CB 1
#endif
#endif
static void install_crash(void){
  signal(SIGABRT, on_signal); signal(SIGFPE, on_signal);
#ifdef HAVE_DEATH_CB
  __sanitizer_set_death_callback(crash_line);
#else
  signal(SIGSEGV, on_signal); signal(SIGBUS, on_signal);
#endif
}

static int read_case(FILE *f, scase *q){
  if(fscanf(f, "%15s %d %d", q->fam, &q->nsc, &q->narr) != 3) return 0;
  if(q->nsc > 16 || q->narr > 8){ fprintf(stderr, "case header too large\n"); exit(2); }
  for(int i = 0; i < q->nsc; i++) if(fscanf(f, "%ld", &q->sc[i]) != 1){ fprintf(stderr, "truncated case\n"); exit(2); }
  for(int i = 0; i < q->narr; i++){
    if(fscanf(f, "%d", &q->a[i].len) != 1){ fprintf(stderr, "truncated case\n"); exit(2); }
    q->a[i].v = malloc(sizeof(long) * (q->a[i].len + 1));
    for(int j = 0; j < q->a[i].len; j++) if(fscanf(f, "%ld", &q->a[i].v[j]) != 1){ fprintf(stderr, "truncated case\n"); exit(2); }
  }
  return 1;
}
static void free_case(scase *q){ for(int i = 0; i < q->narr; i++) free(q->a[i].v); }
static void need(arr *a, int n){ if(a->len != n){ fprintf(stderr, "array has %d cells, expected %d\n", a->len, n); exit(2); } }

static char jb[1 << 17]; static int jp;
#define J(...) do{ jp += snprintf(jb + jp, sizeof(jb) - jp, __VA_ARGS__); if(jp >= (int)sizeof(jb) - 64){ fprintf(stderr, "event too long\n"); exit(2); } }while(0)
static void jints(const char *key, long *v, int n){ J(",\"%s\":[", key); for(int i = 0; i < n; i++) J("%s%ld", i ? "," : "", v[i]); J("]"); }

/* ---- mismatch bookkeeping ---- */
static double cur_off = 0.0;                     /* common offset of the variant being evaluated (0 = unshifted) */
/* first mismatch per library function (so that one failing function does not hide another in the same case) */
#define MAXMM 8
static struct { int bad, shifted; const char *fn; char what[160]; double got, want; } mmv[MAXMM];
static int nmm = 0;
static void miss(const char *fn, double got, double want, const char *fmt, ...){
  for(int i = 0; i < nmm; i++) if(!strcmp(mmv[i].fn, fn)) return;
  if(nmm >= MAXMM) return;
  mmv[nmm].bad = 1; mmv[nmm].shifted = cur_off != 0.0; mmv[nmm].fn = fn; mmv[nmm].got = got; mmv[nmm].want = want;
  va_list ap; va_start(ap, fmt); vsnprintf(mmv[nmm].what, sizeof(mmv[nmm].what), fmt, ap); va_end(ap);
  nmm++;
}
static int near_(double got, double want, double rel, double floor_){
  if(got == want) return 1;
  if(!vfinite(got)) return 0;
  double s = fabs(want) > floor_ ? fabs(want) : floor_;
  return fabs(got - want) <= rel * s;
}
#define TOL 1e-12

/* strictly increasing score maps: arbitrary distributions behind one and the same order */
static double gmap(int v, double x){
  switch(v){ case 0: return x; case 1: return exp(0.37 * x) - 5.0; case 2: return -1.0 / (1.0 + x); default: return 1e6 * x - 3e6; }
}

/* ---- Roc family: ROC, PrecisionRecall, curve_area ---- */
static void replay_roc(scase *q){
  int n = (int)q->sc[0]; long p = q->sc[1], nn = q->sc[2], auc2 = q->sc[3], apn = q->sc[4], apd = q->sc[5];
  arr *y = &q->a[0], *ord = &q->a[1], *roc = &q->a[2], *pr = &q->a[3];
  need(y, n); need(ord, n);
  int m = 0; for(int i = 0; i < n; i++) if(y->v[i] != 2) m++;
  need(roc, 2 * (m + 1)); need(pr, 2 * m);
  double wauc = (double)auc2 / (2.0 * (double)p * (double)nn), wap = (double)apn / (double)apd;
  for(int v = 0; v < 4; v++){
    dvector *yt, *ys; NewDVector(&yt, n); NewDVector(&ys, n);
    for(int i = 0; i < n; i++) yt->data[i] = y->v[i] == 2 ? (double)MISSING : (double)y->v[i];
    for(int r = 0; r < n; r++) ys->data[ord->v[r] - 1] = gmap(v, (double)(n - 1 - r));
    matrix *rc; initMatrix(&rc); double auc = -1;
    ROC(yt, ys, rc, &auc);
    if((int)rc->row != m + 1 || rc->col != 2) miss("ROC", (double)rc->row, (double)(m + 1), "curve has %d points, the definition %d (one per non-missing object after (0,0))", (int)rc->row, m + 1);
    else for(int i = 0; i <= m; i++){
      double wx = (double)roc->v[2 * i] / (double)nn, wy = (double)roc->v[2 * i + 1] / (double)p;
      if(!near_(rc->data[i][0], wx, TOL, 1.0)) miss("ROC", rc->data[i][0], wx, "point %d: false-positive rate (map %d)", i, v);
      if(!near_(rc->data[i][1], wy, TOL, 1.0)) miss("ROC", rc->data[i][1], wy, "point %d: true-positive rate (map %d)", i, v);
    }
    if(!near_(auc, wauc, TOL, 1.0)) miss("ROC", auc, wauc, "AUC (map %d) vs trapezoid area %ld/(2*%ld*%ld)", v, auc2, p, nn);
    if((int)rc->row == m + 1){ double ca = curve_area(rc, 0); if(!near_(ca, wauc, TOL, 1.0)) miss("curve_area", ca, wauc, "trapezoid area of the ROC points"); }
    matrix *pc; initMatrix(&pc); double ap = -1;
    PrecisionRecall(yt, ys, pc, &ap);
    if((int)pc->row != m + 1 || pc->col != 2) miss("PrecisionRecall", (double)pc->row, (double)(m + 1), "curve has %d points, the definition %d", (int)pc->row, m + 1);
    else{
      if(!near_(pc->data[0][0], 0.0, TOL, 1.0) || !near_(pc->data[0][1], 1.0, TOL, 1.0)) miss("PrecisionRecall", pc->data[0][1], 1.0, "first point must be (recall 0, precision 1)");
      for(int i = 1; i <= m; i++){
        double wr = (double)pr->v[2 * (i - 1)] / (double)p, wp = (double)pr->v[2 * (i - 1)] / (double)pr->v[2 * (i - 1) + 1];
        if(!near_(pc->data[i][0], wr, TOL, 1.0)) miss("PrecisionRecall", pc->data[i][0], wr, "point %d: recall", i);
        if(!near_(pc->data[i][1], wp, TOL, 1.0)) miss("PrecisionRecall", pc->data[i][1], wp, "point %d: precision", i);
      }
      if(m >= 1 && !near_(pc->data[m][0], 1.0, TOL, 1.0)) miss("PrecisionRecall", pc->data[m][0], 1.0, "recall must end at 1");
    }
    if(!near_(ap, wap, TOL, 1.0)) miss("PrecisionRecall", ap, wap, "area (map %d) vs exact %ld/%ld", v, apn, apd);
    if(!(ap >= -TOL && ap <= 1.0 + TOL)) miss("PrecisionRecall", ap, wap, "area outside [0,1]");
    DelMatrix(&rc); DelMatrix(&pc); DelDVector(&yt); DelDVector(&ys);
  }
}

/* ---- Reg family: R2 MSE RMSE MAE BIAS at three dyadic scales ---- */
static void check_reg(double tol, dvector *yt, dvector *yp, long *e8, int ex){
  double s1 = ldexp(1.0, ex), s2 = ldexp(1.0, 2 * ex);
#undef TOL
#define TOL tol
  if(e8[1] > 0){
    double wmse = (double)e8[0] * s2 / (double)e8[1], wmae = (double)e8[2] * s1 / (double)e8[3];
    double g = MSE(yt, yp); if(!near_(g, wmse, TOL, s2)) miss("MSE", g, wmse, "offset %g scale 2^%d: sum of squared errors %ld over %ld present truths", cur_off, ex, e8[0], e8[1]);
    g = MAE(yt, yp); if(!near_(g, wmae, TOL, s1)) miss("MAE", g, wmae, "offset %g scale 2^%d: sum of absolute errors %ld over %ld present truths", cur_off, ex, e8[2], e8[3]);
    g = RMSE(yt, yp); if(!(g >= 0.0) || !near_(g * g, wmse, TOL, s2)) miss("RMSE", g * g, wmse, "offset %g scale 2^%d: RMSE^2 must equal MSE", cur_off, ex);
    if(!(MAE(yt, yp) <= RMSE(yt, yp) * (1.0 + 1e-12))) miss("MAE", MAE(yt, yp), RMSE(yt, yp), "offset %g scale 2^%d: MAE <= RMSE", cur_off, ex);
  }
  if(e8[5] > 0){
    double w = (double)e8[4] / (double)e8[5], g = R2(yt, yp);
    if(!near_(g, w, TOL, 1.0)) miss("R2", g, w, "offset %g scale 2^%d: R2 = %ld/%ld", cur_off, ex, e8[4], e8[5]);
    if(!(g <= 1.0 + TOL)) miss("R2", g, 1.0, "R2 <= 1");
    w = (double)e8[6] / (double)e8[7]; g = BIAS(yt, yp);
    if(!near_(g, w, TOL, 1.0)) miss("BIAS", g, w, "offset %g scale 2^%d: |1 - slope| = %ld/%ld", cur_off, ex, e8[6], e8[7]);
  }
#undef TOL
#define TOL 1e-12
}
static const int EXPS[3] = { -20, 0, 20 };
/* variants: unshifted at three dyadic scales first, then truths and predictions moved by a common offset of 2^20 / 2^30 units
 * (exactly representable).  By Stats!ThShiftInvariant / ThScaleLaw the SAME exact values apply; the tolerance at an offset (1e-8)
 * reflects only the conditioning of a computation on deviations (mean rounded to 1 ulp: relative effect ~ 1e-13 at 2^30). */
static const struct { double off; int ex; } VAR[9] = { {0, -20}, {0, 0}, {0, 20}, {1048576.0, 0}, {1073741824.0, 0}, {-1073741824.0, 0},
                                                       {1048576.0, -20}, {1073741824.0, 20}, {33554432.0, 7} };
static void replay_reg(scase *q){
  int n = (int)q->sc[0]; arr *a = &q->a[0], *b = &q->a[1], *e = &q->a[2];
  need(a, n); need(b, n); need(e, 8);
  for(int x = 0; x < 9; x++){
    dvector *yt, *yp; NewDVector(&yt, n); NewDVector(&yp, n);
    cur_off = VAR[x].off;
    for(int i = 0; i < n; i++){
      yt->data[i] = a->v[i] == MISSCODE ? (double)MISSING : ldexp((double)a->v[i] + VAR[x].off, VAR[x].ex);
      yp->data[i] = ldexp((double)b->v[i] + VAR[x].off, VAR[x].ex);
    }
    check_reg(cur_off == 0.0 ? 1e-12 : 1e-8, yt, yp, e->v, VAR[x].ex);
    DelDVector(&yt); DelDVector(&yp);
  }
  cur_off = 0.0;
}

/* ---- table builders ---- */
static matrix *tab_of(arr *a, int rows, int cols, int ex, int truth){
  need(a, rows * cols);
  matrix *m; NewMatrix(&m, rows, cols);
  for(int i = 0; i < rows; i++) for(int j = 0; j < cols; j++){ long v = a->v[i * cols + j]; m->data[i][j] = (truth && v == MISSCODE) ? (double)MISSING : ldexp((double)v, ex); }
  return m;
}
static void replay_regtab(scase *q, int mlr){
  int n = (int)q->sc[0], ny = (int)q->sc[1], nlv = (int)q->sc[2];
  need(&q->a[2], nlv * ny * 8);
  const char *fn = mlr ? "MLRRegressionStatistics" : "PLSRegressionStatistics";
  for(int x = 0; x < 3; x++){
    int ex = EXPS[x]; double s2 = ldexp(1.0, 2 * ex);
    matrix *mt = tab_of(&q->a[0], n, ny, ex, 1), *mp = tab_of(&q->a[1], n, ny * nlv, ex, 0);
    matrix *r2 = NULL, *rm = NULL, *bi = NULL; dvector *vr2 = NULL, *vrm = NULL, *vbi = NULL;
    if(mlr){ initDVector(&vr2); initDVector(&vrm); initDVector(&vbi); MLRRegressionStatistics(mt, mp, vr2, vrm, vbi); }
    else { initMatrix(&r2); initMatrix(&rm); initMatrix(&bi); PLSRegressionStatistics(mt, mp, r2, rm, bi); }
    if(mlr ? ((int)vr2->size != ny || (int)vrm->size != ny || (int)vbi->size != ny)
           : ((int)r2->row != nlv || (int)r2->col != ny || (int)rm->row != nlv || (int)rm->col != ny || (int)bi->row != nlv || (int)bi->col != ny))
      miss(fn, 0, 0, "result tables do not have one entry per (latent variable, response): nlv=%d ny=%d", nlv, ny);
    else for(int lv = 0; lv < nlv; lv++) for(int j = 0; j < ny; j++){
      long *e8 = &q->a[2].v[(lv * ny + j) * 8];
      double gr2 = mlr ? vr2->data[j] : r2->data[lv][j], grm = mlr ? vrm->data[j] : rm->data[lv][j], gbi = mlr ? vbi->data[j] : bi->data[lv][j];
      if(e8[5] > 0 && !near_(gr2, (double)e8[4] / (double)e8[5], TOL, 1.0)) miss(fn, gr2, (double)e8[4] / (double)e8[5], "R2 entry (lv %d, response %d) must be R2 of prediction column ny*lv+j = %d (scale 2^%d)", lv, j, ny * lv + j, ex);
      if(e8[1] > 0 && !near_(grm * grm, (double)e8[0] * s2 / (double)e8[1], TOL, s2)) miss(fn, grm * grm, (double)e8[0] * s2 / (double)e8[1], "RMSE^2 entry (lv %d, response %d) must be MSE of prediction column %d (scale 2^%d)", lv, j, ny * lv + j, ex);
      if(e8[7] > 0 && !near_(gbi, (double)e8[6] / (double)e8[7], TOL, 1.0)) miss(fn, gbi, (double)e8[6] / (double)e8[7], "BIAS entry (lv %d, response %d) must be BIAS of prediction column %d (scale 2^%d)", lv, j, ny * lv + j, ex);
    }
    DelMatrix(&mt); DelMatrix(&mp);
    if(mlr){ DelDVector(&vr2); DelDVector(&vrm); DelDVector(&vbi); } else { DelMatrix(&r2); DelMatrix(&rm); DelMatrix(&bi); }
  }
}
static void replay_da(scase *q){
  int n = (int)q->sc[0], ny = (int)q->sc[1], nlv = (int)q->sc[2];
  const char *fn = "PLSDiscriminantAnalysisStatistics";
  need(&q->a[2], nlv * ny * 5); need(&q->a[3], nlv * ny * 2 * (n + 1)); need(&q->a[4], nlv * ny * 2 * n);
  matrix *mt = tab_of(&q->a[0], n, ny, 0, 0), *ms = tab_of(&q->a[1], n, ny * nlv, 0, 0);
  for(int i = 0; i < n; i++) for(int j = 0; j < ny * nlv; j++) ms->data[i][j] = exp(0.21 * ms->data[i][j]) - 2.0;      /* any strictly increasing map */
  tensor *roc, *pr; matrix *auc, *ap; initTensor(&roc); initTensor(&pr); initMatrix(&auc); initMatrix(&ap);
  PLSDiscriminantAnalysisStatistics(mt, ms, roc, auc, pr, ap);
  if((int)auc->row != nlv || (int)auc->col != ny || (int)ap->row != nlv || (int)ap->col != ny || (int)roc->order != nlv || (int)pr->order != nlv)
    miss(fn, (double)auc->row, (double)nlv, "result tables do not have one entry per (latent variable, response)");
  else for(int lv = 0; lv < nlv; lv++) for(int j = 0; j < ny; j++){
    long *e5 = &q->a[2].v[(lv * ny + j) * 5];
    double wauc = (double)e5[0] / (2.0 * (double)e5[1] * (double)e5[2]), wap = (double)e5[3] / (double)e5[4];
    if(!near_(auc->data[lv][j], wauc, TOL, 1.0)) miss(fn, auc->data[lv][j], wauc, "AUC entry (lv %d, response %d) must be the AUC of score column ny*lv+j = %d", lv, j, ny * lv + j);
    if(!near_(ap->data[lv][j], wap, TOL, 1.0)) miss(fn, ap->data[lv][j], wap, "PR-area entry (lv %d, response %d) must be that of score column %d", lv, j, ny * lv + j);
    /* curve slices: as many leading points of each curve as the slice has rows */
    long *rp = &q->a[3].v[(lv * ny + j) * 2 * (n + 1)], *pp = &q->a[4].v[(lv * ny + j) * 2 * n];
    if((int)roc->m[lv]->col == 2 * ny) for(int i = 0; i < (int)roc->m[lv]->row && i <= n; i++){
      if(!near_(roc->m[lv]->data[i][2 * j], (double)rp[2 * i] / (double)e5[2], TOL, 1.0) || !near_(roc->m[lv]->data[i][2 * j + 1], (double)rp[2 * i + 1] / (double)e5[1], TOL, 1.0))
        miss(fn, roc->m[lv]->data[i][2 * j], (double)rp[2 * i] / (double)e5[2], "ROC slice lv %d columns %d,%d point %d is not the curve of score column %d", lv, 2 * j, 2 * j + 1, i, ny * lv + j);
    }
    if((int)pr->m[lv]->col == 2 * ny) for(int i = 1; i < (int)pr->m[lv]->row && i <= n; i++){
      if(!near_(pr->m[lv]->data[i][2 * j], (double)pp[2 * (i - 1)] / (double)e5[1], TOL, 1.0) || !near_(pr->m[lv]->data[i][2 * j + 1], (double)pp[2 * (i - 1)] / (double)pp[2 * (i - 1) + 1], TOL, 1.0))
        miss(fn, pr->m[lv]->data[i][2 * j], (double)pp[2 * (i - 1)] / (double)e5[1], "PR slice lv %d columns %d,%d point %d is not the curve of score column %d", lv, 2 * j, 2 * j + 1, i, ny * lv + j);
    }
  }
  DelMatrix(&mt); DelMatrix(&ms); DelTensor(&roc); DelTensor(&pr); DelMatrix(&auc); DelMatrix(&ap);
}

static int do_replay(const char *cases, const char *out, const char *fam){
  FILE *f = fopen(cases, "r"); if(!f){ perror(cases); return 2; }
  vrt_open(out); install_crash(); cur_fam = fam;
  scase q; long idx = -1, ran = 0;
  while(read_case(f, &q)){
    idx++;
    if(!strcmp(q.fam, fam)){
      cur_i = idx; nmm = 0; cur_off = 0.0; ran++;
      if(!strcmp(fam, "Roc")) replay_roc(&q);
      else if(!strcmp(fam, "Reg")) replay_reg(&q);
      else if(!strcmp(fam, "PlsReg")) replay_regtab(&q, 0);
      else if(!strcmp(fam, "Mlr")) replay_regtab(&q, 1);
      else if(!strcmp(fam, "PlsDa")) replay_da(&q);
      else { fprintf(stderr, "unknown family %s\n", fam); return 2; }
      cur_i = -1;
      if(nmm){
        jp = 0; J("{\"e\":\"Res\",\"fam\":\"%s\",\"i\":%ld,\"ok\":0,\"fails\":[", fam, idx);
        for(int k = 0; k < nmm; k++) J("%s{\"fn\":\"%s\",\"shifted\":%d,\"what\":\"%s\",\"got\":\"%.17g\",\"want\":\"%.17g\"}", k ? "," : "", mmv[k].fn, mmv[k].shifted, mmv[k].what, mmv[k].got, mmv[k].want);
        J("]}"); VRT_EMIT("%s", jb);
      }
      else VRT_EMIT("{\"e\":\"Res\",\"fam\":\"%s\",\"i\":%ld,\"ok\":1}", fam, idx);
    }
    free_case(&q);
  }
  VRT_EMIT("{\"e\":\"Done\",\"fam\":\"%s\",\"cases\":%ld}", fam, ran);
  vrt_close(); fclose(f);
  return 0;
}

/* ================= validate direction ================= */
static int cmp_desc(const void *a, const void *b){ double x = ((const double *)a)[0], y = ((const double *)b)[0]; return x < y ? 1 : (x > y ? -1 : 0); }
/* rank order of tie-free scores: ord[r] = 1-based object at rank r, descending.  Returns 0 when two scores are equal. */
static int order_of(double *s, int n, long *ord){
  double *t = malloc(sizeof(double) * 2 * n);
  for(int i = 0; i < n; i++){ t[2 * i] = s[i]; t[2 * i + 1] = (double)(i + 1); }
  qsort(t, n, 2 * sizeof(double), cmp_desc);
  int ok = 1;
  for(int r = 0; r < n; r++){ ord[r] = (long)t[2 * r + 1]; if(r && t[2 * r] == t[2 * (r - 1)]) ok = 0; if(!vfinite(t[2 * r])) ok = 0; }
  free(t);
  return ok;
}

/* class-directed options of emit_roc (set by do_cls) */
static const char *g_sc = "rand";               /* tag of the score distribution, copied into the Roc event */
static dvector *g_yt = NULL, *g_ys = NULL;      /* K7: when set, the SAME input vectors are reused in place for every call (DVectorResize when n changes) */
static int g_again = 0;                         /* K7: 1 = also call ROC / PrecisionRecall into outputs pre-sized by NewMatrix(n, 2); 2 = into outputs a previous call (negated scores) filled */
static void emit_again(const char *fn, int var, matrix *out, size_t pre, matrix *before, double den_x, double den_y, int pr_kind){
  int head = out->row >= pre;
  for(size_t i = 0; head && i < pre; i++) if(memcmp(out->data[i], before->data[i], 2 * sizeof(double))) head = 0;
  jp = 0; J("{\"e\":\"Again\",\"fn\":\"%s\",\"var\":%d,\"pre\":%zu,\"rows\":%zu,\"head\":%d,\"pts\":[", fn, var, pre, out->row, head);
  double res = 0;
  for(size_t i = pre, k = 0; i < out->row; i++, k++){
    if(!pr_kind){
      long fp = (long)llround(out->data[i][0] * den_x), tp = (long)llround(out->data[i][1] * den_y);
      double r1 = fabs(out->data[i][0] - (double)fp / den_x), r2 = fabs(out->data[i][1] - (double)tp / den_y);
      if(!(r1 <= res)) res = r1; if(!(r2 <= res)) res = r2;
      J("%s[%ld,%ld]", k ? "," : "", fp, tp);
    }
    else if(k == 0){ double a = fabs(out->data[i][0]), b = fabs(out->data[i][1] - 1.0); res = a > b ? a : b; }
    else{
      long tp = (long)llround(out->data[i][0] * den_y);
      double r1 = fabs(out->data[i][0] - (double)tp / den_y), r2 = fabs(out->data[i][1] - (double)tp / (double)k);
      if(!(r1 <= res)) res = r1; if(!(r2 <= res)) res = r2;
      J("%s[%ld,%zu]", k > 1 ? "," : "", tp, k);
    }
  }
  J("],\"res\":%ld}", vq12(res));
  VRT_EMIT("%s", jb);
}
/* run ROC / curve_area / PrecisionRecall on (y, s) and log what came back, as integers over the known denominators */
static void emit_roc(const char *kind, int n, long *y, double *s){
  long *ord = malloc(sizeof(long) * n);
  if(!order_of(s, n, ord)){ fprintf(stderr, "internal: tied scores reached emit_roc\n"); exit(2); }
  long p = 0, nn = 0; for(int i = 0; i < n; i++){ if(y[i] == 1) p++; else if(y[i] == 0) nn++; }
  dvector *yt, *ys; int own = (g_yt == NULL);
  if(own){ NewDVector(&yt, n); NewDVector(&ys, n); }
  else{ yt = g_yt; ys = g_ys; if((int)yt->size != n){ DVectorResize(yt, n); DVectorResize(ys, n); } }
  for(int i = 0; i < n; i++){ yt->data[i] = y[i] == 2 ? (double)MISSING : (double)y[i]; ys->data[i] = s[i]; }
  matrix *rc, *pc; initMatrix(&rc); initMatrix(&pc); double auc = -1, ap = -1;
  ROC(yt, ys, rc, &auc);
  PrecisionRecall(yt, ys, pc, &ap);
  double ca = curve_area(rc, 0);
  jp = 0; J("{\"e\":\"Roc\",\"kind\":\"%s\",\"sc\":\"%s\",\"inpl\":%d,\"n\":%d", kind, g_sc, own ? 0 : 1, n);
  jints("y", y, n); jints("ord", ord, n);
  J(",\"p\":%ld,\"nn\":%ld,\"pts\":[", p, nn);
  double res = 0;
  for(size_t i = 0; i < rc->row; i++){
    long fp = (long)llround(rc->data[i][0] * (double)nn), tp = (long)llround(rc->data[i][1] * (double)p);
    double r1 = fabs(rc->data[i][0] - (double)fp / (double)nn), r2 = fabs(rc->data[i][1] - (double)tp / (double)p);
    if(!(r1 <= res)) res = r1; if(!(r2 <= res)) res = r2;
    J("%s[%ld,%ld]", i ? "," : "", fp, tp);
  }
  double d2 = 2.0 * (double)p * (double)nn;
  long auc2 = (long)llround(auc * d2), ca2 = (long)llround(ca * d2);
  J("],\"res\":%ld,\"auc2\":%ld,\"aucres\":%ld}", vq12(res), auc2, vq12(fabs(auc - (double)auc2 / d2)));
  VRT_EMIT("%s", jb);
  VRT_EMIT("{\"e\":\"Area\",\"ca2\":%ld,\"cares\":%ld}", ca2, vq12(fabs(ca - (double)ca2 / d2)));
  jp = 0; J("{\"e\":\"Pr\",\"pr\":[");
  double pres = 0;
  if(pc->row >= 1){ double a = fabs(pc->data[0][0]), b = fabs(pc->data[0][1] - 1.0); pres = a > b ? a : b; } else pres = 1.0;
  for(size_t i = 1; i < pc->row; i++){
    long tp = (long)llround(pc->data[i][0] * (double)p);
    double r1 = fabs(pc->data[i][0] - (double)tp / (double)p), r2 = fabs(pc->data[i][1] - (double)tp / (double)i);
    if(!(r1 <= pres)) pres = r1; if(!(r2 <= pres)) pres = r2;
    J("%s[%ld,%zu]", i > 1 ? "," : "", tp, i);
  }
  J("],\"prres\":%ld,\"ap9\":%ld}", vq12(pres), vqs_unit(ap, 1e-9));
  VRT_EMIT("%s", jb);
  if(g_again){
    /* the unchanged library APPENDS to a non-empty curve matrix (MatrixAppendRow): recorded for the implementation-shaped layer only */
    for(int w = 0; w < 2; w++){
      matrix *out, *before; double tmp = 0; initMatrix(&before);
      if(g_again == 1){ NewMatrix(&out, n, 2); for(int i = 0; i < n; i++){ out->data[i][0] = 0.25 + i; out->data[i][1] = -3.5; } }
      else{
        initMatrix(&out); dvector *neg; NewDVector(&neg, n); for(int i = 0; i < n; i++) neg->data[i] = -s[i];
        if(w == 0) ROC(yt, neg, out, &tmp); else PrecisionRecall(yt, neg, out, &tmp);
        DelDVector(&neg);
      }
      size_t pre = out->row; MatrixCopy(out, &before);
      if(w == 0) ROC(yt, ys, out, &tmp); else PrecisionRecall(yt, ys, out, &tmp);
      emit_again(w == 0 ? "ROC" : "PrecisionRecall", g_again, out, pre, before, (double)nn, (double)p, w);
      DelMatrix(&out); DelMatrix(&before);
    }
  }
  DelMatrix(&rc); DelMatrix(&pc); if(own){ DelDVector(&yt); DelDVector(&ys); } free(ord);
}

static double mono(int which, double x, double lo, double hi){
  double u = (x - lo) / (hi - lo + 1e-300);           /* 0..1 */
  switch(which){
    case 0: return 3.25 * x + 17.0;
    case 1: return exp(3.0 * u);
    case 2: return u * u * u + 0.001 * u;
    case 3: return atan(8.0 * (u - 0.5));
    case 4: return log(1e-3 + u);
    default: return 1e9 * u - 5e8;
  }
}
static int strictly_same_order(double *a, double *b, int n){       /* b must order the objects exactly as a does */
  long *oa = malloc(sizeof(long) * n), *ob = malloc(sizeof(long) * n);
  int ok = order_of(a, n, oa) && order_of(b, n, ob);
  for(int i = 0; ok && i < n; i++) if(oa[i] != ob[i]) ok = 0;
  free(oa); free(ob); return ok;
}

/* the value fed for the integer v: (v + off) * 2^ex * 10^dx  (dx # 0 only with off = 0: a decimal scale is not exactly representable) */
static double unit10(int dx){ double u = 1.0; for(int i = 0; i < (dx < 0 ? -dx : dx); i++) u *= 10.0; return u; }      /* 10^|dx| exactly (|dx| <= 22) */
static double fed(long v, long off, int ex, int dx){
  double x = ldexp((double)v + (double)off, ex);
  return dx > 0 ? x * unit10(dx) : (dx < 0 ? x / unit10(dx) : x);
}
static int near_missing(double x){ return fabs(x - (double)MISSING) < 1.0; }
/* integer moments of the present truths: m, d = m*Syy - Sy^2 (what TLC recomputes as Stats!DD) */
static void int_moments(int n, long *a, int stride, long *m_out, long *d_out){
  long m = 0, sy = 0, syy = 0;
  for(int i = 0; i < n; i++){ long v = a[i * stride]; if(v != MISSCODE){ m++; sy += v; syy += v * v; } }
  *m_out = m; *d_out = m * syy - sy * sy;
}
/* result * d as an integer plus the distance of the result from that fraction (1e-12 units); non-finite results saturate */
static void frac_of(double r, long d, long *num, long *res){
  if(!vfinite(r) || d <= 0 || fabs(r) * (double)d >= 1.9e9){ *num = VQ_MAX; *res = VQ_MAX; return; }
  *num = (long)llround(r * (double)d); *res = vq12(fabs(r - (double)*num / (double)d));
}
static void emit_reg(int n, long *a, long *b, int ex, long off, int dx){
  dvector *yt, *yp; NewDVector(&yt, n); NewDVector(&yp, n);
  int m = 0;
  for(int i = 0; i < n; i++){ if(a[i] != MISSCODE) m++; yt->data[i] = a[i] == MISSCODE ? (double)MISSING : fed(a[i], off, ex, dx); yp->data[i] = fed(b[i], off, ex, dx); }
  for(int i = 0; i < n; i++) if(a[i] != MISSCODE && near_missing(yt->data[i])){ fprintf(stderr, "internal: a present truth equals the missing code\n"); exit(2); }
  double mse = MSE(yt, yp), mae = MAE(yt, yp), rmse = RMSE(yt, yp), r2 = R2(yt, yp), bias = BIAS(yt, yp);
  double s1 = ldexp(1.0, -ex), s2 = ldexp(1.0, -2 * ex);
  if(dx > 0){ s1 /= unit10(dx); s2 /= unit10(dx) * unit10(dx); } else if(dx < 0){ s1 *= unit10(dx); s2 *= unit10(dx) * unit10(dx); }
  long ssen = (long)llround(mse * s2 * m), saen = (long)llround(mae * s1 * m);
  long mm, d, r2n, r2r, bn, br; int_moments(n, a, 1, &mm, &d);
  frac_of(r2, d, &r2n, &r2r); frac_of(bias, d, &bn, &br);
  jp = 0; J("{\"e\":\"RegIn\",\"n\":%d,\"exp\":%d,\"dx\":%d,\"off\":%ld", n, ex, dx, off); jints("yt", a, n); jints("yp", b, n); J(",\"m\":%d}", m);
  VRT_EMIT("%s", jb);
  VRT_EMIT("{\"e\":\"Mse\",\"ssen\":%ld,\"res\":%ld}", ssen, vq12(fabs(mse * s2 - (double)ssen / m)));
  VRT_EMIT("{\"e\":\"Mae\",\"saen\":%ld,\"res\":%ld}", saen, vq12(fabs(mae * s1 - (double)saen / m)));
  VRT_EMIT("{\"e\":\"Rmse\",\"res\":%ld}", vq12(fabs(rmse * rmse - mse) * s2 / (mse * s2 > 1.0 ? mse * s2 : 1.0)));
  VRT_EMIT("{\"e\":\"R2\",\"q\":%ld,\"d\":%ld,\"num\":%ld,\"res\":%ld,\"over\":%ld}", vqs_unit(r2, 1e-4), d, r2n, r2r, vq12(r2 > 1.0 ? r2 - 1.0 : 0.0));
  VRT_EMIT("{\"e\":\"Bias\",\"q\":%ld,\"d\":%ld,\"num\":%ld,\"res\":%ld}", vqs_unit(bias, 1e-4), d, bn, br);
  DelDVector(&yt); DelDVector(&yp);
}

static int do_trace(const char *out, long seed, int blocks, int maxn){
  vrt_open(out); install_crash(); cur_fam = "trace";
  vrng R = { (uint64_t)seed * 0x9E3779B97F4A7C15ULL + 12345 };
  for(int b = 0; b < blocks; b++){
    cur_i = b;
    int n = (b % 7 == 0) ? (int)vr_int(&R, maxn > 20 ? maxn - 20 : 2, maxn) : (b % 7 == 1 ? (int)vr_int(&R, 2, 6) : (int)vr_int(&R, 2, maxn));
    long *y = malloc(sizeof(long) * n), *y2 = malloc(sizeof(long) * n); double *s = malloc(sizeof(double) * n), *t = malloc(sizeof(double) * n);
    /* truths: both classes present, up to 20 % missing-coded */
    for(;;){
      int nm = (b % 3 == 0) ? 0 : (int)vr_int(&R, 0, n / 5);
      double pp = 0.15 + 0.7 * vr_unif(&R);
      for(int i = 0; i < n; i++) y[i] = vr_unif(&R) < pp ? 1 : 0;
      for(int k = 0; k < nm; k++) y[vr_int(&R, 0, n - 1)] = 2;
      long p = 0, nn = 0; for(int i = 0; i < n; i++){ if(y[i] == 1) p++; else if(y[i] == 0) nn++; }
      if(p >= 1 && nn >= 1) break;
    }
    /* scores: arbitrary tie-free distributions, correlated with the truth to a random degree */
    long *tmp = malloc(sizeof(long) * n);
    for(;;){
      int dist = (int)vr_int(&R, 0, 5); double sep = 2.5 * vr_unif(&R) - 0.5;
      for(int i = 0; i < n; i++){
        double z = vr_norm(&R) + (y[i] == 1 ? sep : 0.0);
        switch(dist){ case 0: s[i] = z; break; case 1: s[i] = exp(2.0 * z); break; case 2: s[i] = 1.0 / (1.0 + exp(-z)); break;
                      case 3: s[i] = 1e-6 * z; break; case 4: s[i] = 1e6 * z + 3e5; break; default: s[i] = floor(z * 1000.0) / 1000.0 + 1e-7 * vr_unif(&R); }
      }
      if(order_of(s, n, tmp)) break;
    }
    VRT_EMIT("{\"e\":\"Reset\",\"n\":%d}", n);
    emit_roc("base", n, y, s);
    /* strictly increasing map: must leave the order untouched (checked, else the next map is tried) */
    double lo = s[0], hi = s[0]; for(int i = 1; i < n; i++){ if(s[i] < lo) lo = s[i]; if(s[i] > hi) hi = s[i]; }
    int w0 = (int)vr_int(&R, 0, 5), done = 0;
    for(int k = 0; k < 6 && !done; k++){
      int w = (w0 + k) % 6;
      for(int i = 0; i < n; i++) t[i] = mono(w, s[i], lo, hi);
      if(strictly_same_order(s, t, n)){ emit_roc("mono", n, y, t); done = 1; }
    }
    if(!done){ for(int i = 0; i < n; i++) t[i] = 2.0 * s[i]; emit_roc("mono", n, y, t); }
    /* object reordering (Fisher-Yates) */
    for(int i = 0; i < n; i++) tmp[i] = i;
    for(int i = n - 1; i > 0; i--){ long j = vr_int(&R, 0, i), x = tmp[i]; tmp[i] = tmp[j]; tmp[j] = x; }
    for(int i = 0; i < n; i++){ y2[i] = y[tmp[i]]; t[i] = s[tmp[i]]; }
    emit_roc("perm", n, y2, t);
    for(int i = 0; i < n; i++) t[i] = -s[i];
    emit_roc("neg", n, y, t);
    /* regression vectors: small integers at a dyadic scale, up to 20 % missing-coded truths, non-constant truths */
    if(b % 2 == 0){
      int rn = (int)vr_int(&R, 2, 30); long a[30], c[30];
      for(;;){
        int nm = (int)vr_int(&R, 0, rn / 5), amp = (int)vr_int(&R, 1, 5);
        for(int i = 0; i < rn; i++){ a[i] = vr_int(&R, -amp, amp); c[i] = (vr_unif(&R) < 0.3) ? a[i] : a[i] + vr_int(&R, -amp, amp); if(c[i] > 5) c[i] = 5; if(c[i] < -5) c[i] = -5; }
        for(int k = 0; k < nm; k++) a[vr_int(&R, 0, rn - 1)] = MISSCODE;
        int first = 1, varies = 0, cnt = 0; long v0 = 0;
        for(int i = 0; i < rn; i++) if(a[i] != MISSCODE){ cnt++; if(first){ v0 = a[i]; first = 0; } else if(a[i] != v0) varies = 1; }
        if(varies && cnt >= 2) break;
      }
      static const int EX[5] = { -20, -7, 0, 9, 20 };
      /* common offset: |mean| / spread up to 1e9 (TLC recomputes from the integer deviations; Stats!ThShiftInvariant) */
      static const long OFF[8] = { 0, 0, 1000, 1000000, -1000000, 30000000, 250000000, 1000000000 };
      emit_reg(rn, a, c, EX[vr_int(&R, 0, 4)], OFF[vr_int(&R, 0, 7)], 0);
    }
    free(y); free(y2); free(s); free(t); free(tmp);
  }
  cur_i = -1;
  vrt_close();
  return 0;
}

/* ================= class-directed validate direction (INPUT-CLASSES.md) =================
 * Every block starts with Reset{n,cls:[tags]}; the tags name the classes the block was built for (the check counts them).  What is fed is always inside
 * the quantifier of C15: binary truths with both classes, tie-free finite scores, regression integers at a dyadic (or, without offset, decimal) scale with
 * at most 20 % missing-coded truths and non-constant present truths. */
static int g_block = 0, g_part = 0, g_nparts = 1;
static int take_block(void){ return (g_block++ % g_nparts) == g_part; }

/* ---- score distributions (K3 K4 K5 K8): all tie-free and finite ---- */
enum { SC_NORM, SC_ULP, SC_ULPNEG, SC_ULPBIG, SC_SPAN, SC_TINY, SC_HUGE, SC_OFFS, SC_OFFSFRAC, SC_DEC, SC_THIRD, SC_DENORM, SC_NEGONLY, SC_N };
static const char *SC_NAME[SC_N] = { "norm", "ulp1", "ulp1-neg", "ulp1-1e300", "span1e-300..1e300", "tiny1e-300", "huge1e300", "offset1e15", "offset1e8+frac", "dec0.1k", "third", "denormal", "negative" };
static const char *SC_CLS[SC_N] = { "K8:scores-normal", "K8:scores-1ulp-apart", "K8:scores-1ulp-apart-negative", "K8:scores-1ulp-apart-at-1e300", "K4:scores-span-1e-300..1e300",
                                    "K4:scores-all-below-1e-297", "K4:scores-all-above-1e300", "K3:scores-offset-1e15", "K3:scores-offset-1e8-spacing-2^-10", "K5:scores-0.1*k",
                                    "K5:scores-k/3", "K4:scores-denormal", "K8:scores-all-negative" };
static void shuffle(vrng *R, long *v, int n){ for(int i = n - 1; i > 0; i--){ long j = vr_int(R, 0, i), x = v[i]; v[i] = v[j]; v[j] = x; } }
/* distinct integers k[0..n-1] from lo..hi in random order */
static void distinct_ints(vrng *R, int n, long lo, long hi, long *k){
  long span = hi - lo + 1; long *all = malloc(sizeof(long) * span);
  for(long i = 0; i < span; i++) all[i] = lo + i;
  shuffle(R, all, (int)span); memcpy(k, all, sizeof(long) * n); free(all);
}
static void gen_scores(vrng *R, int cls, int n, long *y, double *s){
  long *k = malloc(sizeof(long) * n), *tmp = malloc(sizeof(long) * n);
  for(int attempt = 0; attempt < 50; attempt++){
    double sep = 2.5 * vr_unif(R) - 0.5;
    switch(cls){
      case SC_NORM: for(int i = 0; i < n; i++) s[i] = vr_norm(R) + (y[i] == 1 ? sep : 0.0); break;
      case SC_ULP: case SC_ULPNEG: case SC_ULPBIG: {            /* a chain of consecutive doubles, dealt to the objects in random order */
        double v = cls == SC_ULP ? 1.0 + vr_unif(R) : (cls == SC_ULPNEG ? -(1e5 + 1e4 * vr_unif(R)) : 1e300 * (1.0 + vr_unif(R)));
        distinct_ints(R, n, 0, n - 1, k);
        double *chain = malloc(sizeof(double) * n); for(int i = 0; i < n; i++){ chain[i] = v; v = nextafter(v, INFINITY); }
        for(int i = 0; i < n; i++) s[i] = chain[k[i]];
        free(chain); break; }
      case SC_SPAN: distinct_ints(R, n, -300, 300, k); for(int i = 0; i < n; i++) s[i] = (vr_unif(R) < 0.4 ? -1.0 : 1.0) * pow(10.0, (double)k[i]) * (1.0 + 0.5 * vr_unif(R)); break;
      case SC_TINY: distinct_ints(R, n, 1, 4 * n, k); for(int i = 0; i < n; i++) s[i] = 1e-300 * ((double)k[i] / (4.0 * n)); break;
      case SC_HUGE: distinct_ints(R, n, 0, 4 * n, k); for(int i = 0; i < n; i++) s[i] = 1e300 * (1.0 + (double)k[i] / (4.0 * n)); break;
      case SC_OFFS: distinct_ints(R, n, 0, 4 * n, k); for(int i = 0; i < n; i++) s[i] = 1e15 + (double)k[i]; break;
      case SC_OFFSFRAC: distinct_ints(R, n, 0, 4 * n, k); for(int i = 0; i < n; i++) s[i] = 1e8 + (double)k[i] / 1024.0; break;
      case SC_DEC: distinct_ints(R, n, -2 * n, 2 * n, k); for(int i = 0; i < n; i++) s[i] = 0.1 * (double)k[i]; break;
      case SC_THIRD: distinct_ints(R, n, -2 * n, 2 * n, k); for(int i = 0; i < n; i++) s[i] = (double)k[i] / 3.0; break;
      case SC_DENORM: distinct_ints(R, n, 1, 4 * n, k); for(int i = 0; i < n; i++) s[i] = (double)k[i] * 4.9406564584124654e-324; break;
      default: for(int i = 0; i < n; i++) s[i] = -exp(vr_norm(R) + (y[i] == 1 ? -sep : 0.0)); break;
    }
    if(order_of(s, n, tmp)){ free(k); free(tmp); return; }
  }
  fprintf(stderr, "internal: could not draw tie-free scores of class %d\n", cls); exit(2);
}
/* truth compositions */
enum { CP_RAND, CP_ONEPOS, CP_ONENEG, CP_ALT, CP_N };
static const char *CP_CLS[CP_N] = { "K8:truths-random", "K8:all-but-one-negative", "K8:all-but-one-positive", "K8:truths-alternating" };
enum { MS_NONE, MS_FIRST, MS_LAST, MS_BOTH, MS_20, MS_ROWPERRESP, MS_N };
static const char *MS_CLS[MS_N] = { "K9:no-missing", "K9:missing-first", "K9:missing-last", "K9:missing-first-and-last", "K9:missing-20pct", "K9:missing-other-row-per-response" };
/* the missing pattern that fits the quantifier (at most 20 % missing-coded truths) at length n */
static int eff_miss(int n, int miss){ if(n < 5) return MS_NONE; if(miss == MS_BOTH && n < 10) return MS_FIRST; return miss; }
static void gen_truths(vrng *R, int comp, int miss, int n, long *y){
  for(;;){
    double pp = 0.15 + 0.7 * vr_unif(R);
    long one = vr_int(R, 0, n - 1);
    for(int i = 0; i < n; i++) y[i] = comp == CP_ONEPOS ? (i == one) : (comp == CP_ONENEG ? (i != one) : (comp == CP_ALT ? (i & 1) : (vr_unif(R) < pp)));
    if(n >= 5){
      if(miss == MS_FIRST || miss == MS_BOTH) y[0] = 2;
      if(miss == MS_LAST || miss == MS_BOTH) y[n - 1] = 2;
      if(miss == MS_20){ long *k = malloc(sizeof(long) * n); distinct_ints(R, n / 5, 0, n - 1, k); for(int q = 0; q < n / 5; q++) y[k[q]] = 2; free(k); }
    }
    long p = 0, nn = 0; for(int i = 0; i < n; i++){ if(y[i] == 1) p++; else if(y[i] == 0) nn++; }
    if(p >= 1 && nn >= 1) return;
  }
}
static void reset_line(int n, int ntag, const char **tags){
  jp = 0; J("{\"e\":\"Reset\",\"n\":%d,\"cls\":[", n);
  for(int i = 0; i < ntag; i++) J("%s\"%s\"", i ? "," : "", tags[i]);
  J("]}"); VRT_EMIT("%s", jb);
}
static const char *size_cls(int n){
  static char b[8][40]; static int w = 0; char *o = b[w++ & 7];
  if(n <= 3) snprintf(o, 40, "K1:n=%d", n);
  else if(n >= 199) snprintf(o, 40, "K1:n=%d", n);
  else if(n % 32 == 0) snprintf(o, 40, "K2:n=%d(k*32)", n);
  else if(n % 32 == 1 || n % 32 == 31) snprintf(o, 40, "K2:n=%d(k*32+-1)", n);
  else if(n % 4 == 0) snprintf(o, 40, "K2:n=k*4");
  else snprintf(o, 40, "K2:n=k*4+-r");
  return o;
}
/* one ROC block: base / monotone map / permutation / negation on one (truths, scores) */
static void roc_block(vrng *R, int n, int comp, int miss, int sc, const char *extra){
  long *y = malloc(sizeof(long) * n), *y2 = malloc(sizeof(long) * n), *tmp = malloc(sizeof(long) * n); double *s = malloc(sizeof(double) * n), *t = malloc(sizeof(double) * n);
  miss = eff_miss(n, miss);
  gen_truths(R, comp, miss, n, y); gen_scores(R, sc, n, y, s);
  const char *tags[6]; int nt = 0; tags[nt++] = size_cls(n); tags[nt++] = CP_CLS[comp]; tags[nt++] = SC_CLS[sc]; if(n >= 5) tags[nt++] = MS_CLS[miss]; if(extra) tags[nt++] = extra;
  reset_line(n, nt, tags);
  g_sc = SC_NAME[sc];
  emit_roc("base", n, y, s);
  int save_again = g_again; g_again = 0;
  double lo = s[0], hi = s[0]; for(int i = 1; i < n; i++){ if(s[i] < lo) lo = s[i]; if(s[i] > hi) hi = s[i]; }
  int w0 = (int)vr_int(R, 0, 8), done = 0;
  for(int k = 0; k < 9 && !done; k++){                 /* a strictly increasing map that keeps the order in double precision (checked) */
    int w = (w0 + k) % 9;
    for(int i = 0; i < n; i++) t[i] = w < 6 ? mono(w, s[i], lo, hi) : (w == 6 ? 2.0 * s[i] : (w == 7 ? 0.5 * s[i] : cbrt(s[i])));
    if(strictly_same_order(s, t, n)){ emit_roc("mono", n, y, t); done = 1; }
  }
  for(int i = 0; i < n; i++) tmp[i] = i;
  shuffle(R, tmp, n);
  for(int i = 0; i < n; i++){ y2[i] = y[tmp[i]]; t[i] = s[tmp[i]]; }
  emit_roc("perm", n, y2, t);
  for(int i = 0; i < n; i++) t[i] = -s[i];
  emit_roc("neg", n, y, t);
  g_again = save_again; g_sc = "rand";
  free(y); free(y2); free(tmp); free(s); free(t);
}

/* ---- regression vectors ---- */
static void gen_regvec(vrng *R, int rn, int amp, int miss, int perfect, long *a, long *c){
  for(;;){
    for(int i = 0; i < rn; i++){ a[i] = vr_int(R, -amp, amp); c[i] = (perfect || vr_unif(R) < 0.3) ? a[i] : a[i] + vr_int(R, -amp, amp); if(c[i] > 5) c[i] = 5; if(c[i] < -5) c[i] = -5; }
    if(rn >= 5){
      if(miss == MS_FIRST || miss == MS_BOTH) a[0] = MISSCODE;
      if(miss == MS_LAST || miss == MS_BOTH) a[rn - 1] = MISSCODE;
      if(miss == MS_20){ long *k = malloc(sizeof(long) * rn); distinct_ints(R, rn / 5, 0, rn - 1, k); for(int q = 0; q < rn / 5; q++) a[k[q]] = MISSCODE; free(k); }
    }
    int first = 1, varies = 0, cnt = 0; long v0 = 0;
    for(int i = 0; i < rn; i++) if(a[i] != MISSCODE){ cnt++; if(first){ v0 = a[i]; first = 0; } else if(a[i] != v0) varies = 1; }
    if(varies && cnt >= 2) return;
  }
}
static const char *scale_cls(int ex, int dx, long off){
  static char b[8][48]; static int w = 0; char *o = b[w++ & 7];
  if(off != 0) snprintf(o, 48, "K3:offset-%s", labs(off) >= 1000000000L ? "1e9" : (labs(off) >= 100000000L ? "1e8" : (labs(off) >= 1000000L ? "1e6..1e8" : "<1e6")));
  else if(dx != 0) snprintf(o, 48, "K5:scale-1e%d", dx);
  else snprintf(o, 48, "K4:scale-2^%d", ex);
  return o;
}
static void reg_block(vrng *R, int rn, int amp, int miss, int perfect, int ex, int dx, long off){
  long a[200], c[200];
  miss = eff_miss(rn, miss);
  gen_regvec(R, rn, amp, miss, perfect, a, c);
  const char *tags[6]; int nt = 0; tags[nt++] = size_cls(rn); tags[nt++] = scale_cls(ex, dx, off); if(off != 0 && ex != 0) tags[nt++] = scale_cls(ex, 0, 0);
  if(rn >= 5) tags[nt++] = MS_CLS[miss]; if(perfect) tags[nt++] = "K8:perfect-prediction";
  reset_line(rn, nt, tags);
  emit_reg(rn, a, c, ex, off, dx);
}

/* ---- PLS / MLR regression tables ---- */
typedef struct { int n, ny, nlv, ex; long off; long *mt, *mp; } tabdata;
static void tab_alloc(tabdata *t, int n, int ny, int nlv){ t->n = n; t->ny = ny; t->nlv = nlv; t->ex = 0; t->off = 0; t->mt = malloc(sizeof(long) * n * ny); t->mp = malloc(sizeof(long) * n * ny * nlv); }
static void tab_free(tabdata *t){ free(t->mt); free(t->mp); }
static void tab_fill(vrng *R, tabdata *t, int miss, int amp){
  int n = t->n, ny = t->ny, nc = t->ny * t->nlv;
  for(int j = 0; j < ny; j++){
    for(;;){
      for(int i = 0; i < n; i++) t->mt[i * ny + j] = vr_int(R, -amp, amp);
      if(n >= 5){
        if(miss == MS_FIRST || miss == MS_BOTH) t->mt[j] = MISSCODE;
        if(miss == MS_LAST || miss == MS_BOTH) t->mt[(n - 1) * ny + j] = MISSCODE;
        if(miss == MS_20){ long *k = malloc(sizeof(long) * n); distinct_ints(R, n / 5, 0, n - 1, k); for(int q = 0; q < n / 5; q++) t->mt[k[q] * ny + j] = MISSCODE; free(k); }
        if(miss == MS_ROWPERRESP) t->mt[((j + 1) % n) * ny + j] = MISSCODE;          /* response j misses row j+1: a filter keyed on another response's column is exposed */
      }
      int first = 1, varies = 0, cnt = 0; long v0 = 0;
      for(int i = 0; i < n; i++){ long v = t->mt[i * ny + j]; if(v != MISSCODE){ cnt++; if(first){ v0 = v; first = 0; } else if(v != v0) varies = 1; } }
      if(varies && cnt >= 2) break;
    }
  }
  for(int i = 0; i < n; i++) for(int c = 0; c < nc; c++){
    long tv = t->mt[i * ny + c % ny]; if(tv == MISSCODE) tv = 0;
    long v = (vr_unif(R) < 0.25) ? tv : tv + vr_int(R, -amp, amp); if(v > 5) v = 5; if(v < -5) v = -5;
    t->mp[i * nc + c] = v;
  }
}
static matrix *tab_matrix(tabdata *t, int truth){
  int cols = truth ? t->ny : t->ny * t->nlv; long *src = truth ? t->mt : t->mp;
  matrix *m; NewMatrix(&m, t->n, cols);
  for(int i = 0; i < t->n; i++) for(int j = 0; j < cols; j++){
    long v = src[i * cols + j];
    m->data[i][j] = (truth && v == MISSCODE) ? (double)MISSING : fed(v, t->off, t->ex, 0);
    if(truth && v != MISSCODE && near_missing(m->data[i][j])){ fprintf(stderr, "internal: a present truth equals the missing code\n"); exit(2); }
  }
  return m;
}
static void jmat(const char *key, long *v, int rows, int cols){
  J(",\"%s\":[", key);
  for(int i = 0; i < rows; i++){ J("%s[", i ? "," : ""); for(int j = 0; j < cols; j++) J("%s%ld", j ? "," : "", v[i * cols + j]); J("]"); }
  J("]");
}
enum { H_FRESH, H_PRESIZED, H_RESIZED, H_SECOND, H_SHAPE, H_N };
static const char *H_NAME[H_N] = { "fresh", "presized", "resized", "second", "shape" };
static const char *H_CLS[H_N] = { "K7:outputs-fresh", "K7:outputs-presized-New(n)", "K7:outputs-other-size-with-data", "K7:outputs-from-previous-call-same-shape", "K7:outputs-from-previous-call-other-shape" };
typedef struct { matrix *m[3]; dvector *v[3]; } tabout;
static void call_tab(int mlr, matrix *mt, matrix *mp, tabout *o){
  if(mlr) MLRRegressionStatistics(mt, mp, o->v[0], o->v[1], o->v[2]);
  else PLSRegressionStatistics(mt, mp, o->m[0], o->m[1], o->m[2]);
}
static void tab_block(vrng *R, int mlr, int n, int ny, int nlv, int miss, int hist, int mask, int ex, long off, int amp){
  if(mlr) nlv = 1;
  miss = eff_miss(n, miss);
  tabdata t; tab_alloc(&t, n, ny, nlv); t.ex = ex; t.off = off; tab_fill(R, &t, miss, amp);
  tabout o; memset(&o, 0, sizeof(o));
  for(int k = 0; k < 3; k++) if(mask & (1 << k)){
    if(hist == H_PRESIZED){ if(mlr){ NewDVector(&o.v[k], ny); DVectorSet(o.v[k], 777.25); } else { NewMatrix(&o.m[k], nlv, ny); MatrixSet(o.m[k], 777.25); } }
    else if(hist == H_RESIZED){ if(mlr){ NewDVector(&o.v[k], ny + 3); DVectorSet(o.v[k], -5.5); } else { NewMatrix(&o.m[k], nlv + 2, ny + 1); MatrixSet(o.m[k], -5.5); } }
    else { if(mlr) initDVector(&o.v[k]); else initMatrix(&o.m[k]); }
  }
  if(hist == H_SECOND || hist == H_SHAPE){           /* a previous call with OTHER data into the same outputs */
    tabdata u; tab_alloc(&u, hist == H_SHAPE ? n + 3 : n, hist == H_SHAPE ? ny + 1 : ny, (hist == H_SHAPE && !mlr) ? nlv + 1 : nlv); u.ex = ex; u.off = 0; tab_fill(R, &u, MS_NONE, amp);
    matrix *ut = tab_matrix(&u, 1), *up = tab_matrix(&u, 0);
    call_tab(mlr, ut, up, &o);
    DelMatrix(&ut); DelMatrix(&up); tab_free(&u);
  }
  long pre[3] = { -1, -1, -1 };
  for(int k = 0; k < 3; k++) if(mask & (1 << k)) pre[k] = mlr ? (long)o.v[k]->size : (long)(o.m[k]->row * o.m[k]->col);
  matrix *mt = tab_matrix(&t, 1), *mp = tab_matrix(&t, 0);
  call_tab(mlr, mt, mp, &o);
  const char *tags[8]; int nt = 0; char shp[48], msk[24];
  snprintf(shp, sizeof(shp), "K1:table-%s", n < ny * nlv ? "wide(n<ny*nlv)" : (ny == 1 && nlv == 1 ? "ny=1,nlv=1" : (ny == 1 ? "ny=1,nlv>1" : (nlv == 1 ? "ny>1,nlv=1" : "ny>1,nlv>1"))));
  snprintf(msk, sizeof(msk), "K7:outputs-mask-%d", mask);
  tags[nt++] = size_cls(n); tags[nt++] = shp; tags[nt++] = H_CLS[hist]; tags[nt++] = scale_cls(ex, 0, off); if(n >= 5) tags[nt++] = MS_CLS[miss]; if(mask != 7) tags[nt++] = msk;
  tags[nt++] = mlr ? "fam:MLRRegressionStatistics" : "fam:PLSRegressionStatistics";
  reset_line(n, nt, tags);
  jp = 0; J("{\"e\":\"TabIn\",\"fam\":\"%s\",\"n\":%d,\"ny\":%d,\"nlv\":%d,\"exp\":%d,\"off\":%ld,\"mask\":%d,\"hist\":\"%s\",\"pre\":[%ld,%ld,%ld]", mlr ? "Mlr" : "PlsReg", n, ny, nlv, ex, off, mask, H_NAME[hist], pre[0], pre[1], pre[2]);
  jmat("mt", t.mt, n, ny); jmat("mp", t.mp, n, ny * nlv); J("}"); VRT_EMIT("%s", jb);
  long dims[3][2]; int shape_ok = 1;
  for(int k = 0; k < 3; k++){
    if(!(mask & (1 << k))){ dims[k][0] = dims[k][1] = -1; continue; }
    dims[k][0] = mlr ? 1 : (long)o.m[k]->row; dims[k][1] = mlr ? (long)o.v[k]->size : (long)o.m[k]->col;
    if(dims[k][0] != nlv || dims[k][1] != ny) shape_ok = 0;
  }
  jp = 0; J("{\"e\":\"TabOut\",\"dims\":[[%ld,%ld],[%ld,%ld],[%ld,%ld]],\"ent\":[", dims[0][0], dims[0][1], dims[1][0], dims[1][1], dims[2][0], dims[2][1]);
  double s2 = ldexp(1.0, -2 * ex);
  if(shape_ok) for(int lv = 0; lv < nlv; lv++) for(int j = 0; j < ny; j++){
    long m, d; int_moments(n, t.mt + j, ny, &m, &d);
    long ssen = -1, msres = -1, r2n = -1, r2r = -1, bn = -1, br = -1;
    if(mask & 2){ double g = mlr ? o.v[1]->data[j] : o.m[1]->data[lv][j]; double ms = g * g * s2;
                  if(!vfinite(ms) || !(g >= 0.0) || ms * (double)m >= 1.9e9){ ssen = VQ_MAX; msres = VQ_MAX; } else { ssen = (long)llround(ms * (double)m); msres = vq12(fabs(ms - (double)ssen / (double)m) / (ms > 1.0 ? ms : 1.0)); } }
    if(mask & 1) frac_of(mlr ? o.v[0]->data[j] : o.m[0]->data[lv][j], d, &r2n, &r2r);
    if(mask & 4) frac_of(mlr ? o.v[2]->data[j] : o.m[2]->data[lv][j], d, &bn, &br);
    J("%s[%ld,%ld,%ld,%ld,%ld,%ld,%ld,%ld]", (lv || j) ? "," : "", m, ssen, msres, d, r2n, r2r, bn, br);
  }
  J("]}"); VRT_EMIT("%s", jb);
  DelMatrix(&mt); DelMatrix(&mp);
  for(int k = 0; k < 3; k++) if(mask & (1 << k)){ if(mlr) DelDVector(&o.v[k]); else DelMatrix(&o.m[k]); }
  tab_free(&t);
}

/* ---- PLS-DA classification tables ---- */
static void da_block(vrng *R, int n, int ny, int nlv, int sc, int twice){
  int nc = ny * nlv;
  long *mt = malloc(sizeof(long) * n * ny), *col = malloc(sizeof(long) * n), *ords = malloc(sizeof(long) * n * nc); double *s = malloc(sizeof(double) * n);
  matrix *t, *sm; NewMatrix(&t, n, ny); NewMatrix(&sm, n, nc);
  tensor *roc, *pr; matrix *auc, *ap; initTensor(&roc); initTensor(&pr); initMatrix(&auc); initMatrix(&ap);
  long pre[4] = { 0, 0, 0, 0 };
  for(int pass = 0; pass <= twice; pass++){          /* pass 0 of a `twice` block: other data into the same inputs (in place) and outputs */
    for(int j = 0; j < ny; j++){ gen_truths(R, j % 2 ? CP_ALT : CP_RAND, MS_NONE, n, col); for(int i = 0; i < n; i++){ mt[i * ny + j] = col[i]; t->data[i][j] = (double)col[i]; } }
    for(int c = 0; c < nc; c++){
      for(int i = 0; i < n; i++) col[i] = mt[i * ny + c % ny];
      gen_scores(R, (sc + c) % SC_N, n, col, s); order_of(s, n, ords + c * n);
      for(int i = 0; i < n; i++) sm->data[i][c] = s[i];
    }
    pre[0] = (long)auc->row; pre[1] = (long)ap->row; pre[2] = (long)roc->order; pre[3] = (long)pr->order;
    PLSDiscriminantAnalysisStatistics(t, sm, roc, auc, pr, ap);
  }
  const char *tags[6]; int nt = 0; char shp[48];
  snprintf(shp, sizeof(shp), "K1:table-%s", n < nc ? "wide(n<ny*nlv)" : (ny == 1 && nlv == 1 ? "ny=1,nlv=1" : (ny == 1 ? "ny=1,nlv>1" : (nlv == 1 ? "ny>1,nlv=1" : "ny>1,nlv>1"))));
  tags[nt++] = size_cls(n); tags[nt++] = shp; tags[nt++] = SC_CLS[sc]; tags[nt++] = twice ? "K7:outputs-from-previous-call-same-shape" : "K7:outputs-fresh"; tags[nt++] = "fam:PLSDiscriminantAnalysisStatistics";
  reset_line(n, nt, tags);
  jp = 0; J("{\"e\":\"DaIn\",\"n\":%d,\"ny\":%d,\"nlv\":%d,\"hist\":\"%s\",\"pre\":[%ld,%ld,%ld,%ld]", n, ny, nlv, twice ? "second" : "fresh", pre[0], pre[1], pre[2], pre[3]);
  jmat("mt", mt, n, ny); jmat("ords", ords, nc, n); J("}"); VRT_EMIT("%s", jb);
  /* the part this call produced: the last nlv rows / slices (the whole output when it was empty on entry) */
  int ok = (long)auc->row >= nlv && (long)ap->row >= nlv && (long)roc->order >= nlv && (long)pr->order >= nlv && (long)auc->col == ny && (long)ap->col == ny;
  size_t ba = ok ? auc->row - nlv : 0, bp = ok ? ap->row - nlv : 0, br = ok ? roc->order - nlv : 0, bq = ok ? pr->order - nlv : 0;
  for(int lv = 0; ok && lv < nlv; lv++) if((int)roc->m[br + lv]->row != n || (int)roc->m[br + lv]->col != 2 * ny || (int)pr->m[bq + lv]->row != n || (int)pr->m[bq + lv]->col != 2 * ny) ok = 0;
  /* tables (and, for fresh outputs, the curve slices) in DaOut; the curve slices of a USED tensor go into their own event DaSlices */
  for(int evk = 0; evk <= twice; evk++){
    jp = 0;
    if(evk == 0){
      J("{\"e\":\"DaOut\",\"dims\":[%zu,%zu,%zu,%zu,%zu,%zu],\"ok\":%d,\"ent\":[", auc->row, auc->col, ap->row, ap->col, roc->order, pr->order, ok);
      if(ok) for(int lv = 0; lv < nlv; lv++) for(int j = 0; j < ny; j++){
        long p = 0, nn = 0; for(int i = 0; i < n; i++){ if(mt[i * ny + j] == 1) p++; else nn++; }
        double d2 = 2.0 * (double)p * (double)nn, a = auc->data[ba + lv][j];
        long a2 = vfinite(a) ? (long)llround(a * d2) : VQ_MAX;
        J("%s[%ld,%ld,%ld]", (lv || j) ? "," : "", a2, vfinite(a) ? vq12(fabs(a - (double)a2 / d2)) : VQ_MAX, vqs_unit(ap->data[bp + lv][j], 1e-9));
      }
      J("]");
    }
    else J("{\"e\":\"DaSlices\",\"at\":[%zu,%zu]", br, bq);
    double res = 0; int with = ok && (evk == 1 || !twice);
    J(",\"rocs\":[");
    if(with) for(int lv = 0; lv < nlv; lv++) for(int j = 0; j < ny; j++){
      long p = 0, nn = 0; for(int i = 0; i < n; i++){ if(mt[i * ny + j] == 1) p++; else nn++; }
      J("%s[", (lv || j) ? "," : "");
      for(int i = 0; i < n; i++){
        double x = roc->m[br + lv]->data[i][2 * j], yv = roc->m[br + lv]->data[i][2 * j + 1];
        long fp = (long)llround(x * (double)nn), tp = (long)llround(yv * (double)p);
        double r1 = fabs(x - (double)fp / (double)nn), r2 = fabs(yv - (double)tp / (double)p); if(!(r1 <= res)) res = r1; if(!(r2 <= res)) res = r2;
        J("%s[%ld,%ld]", i ? "," : "", fp, tp);
      }
      J("]");
    }
    J("],\"prs\":[");
    if(with) for(int lv = 0; lv < nlv; lv++) for(int j = 0; j < ny; j++){
      long p = 0; for(int i = 0; i < n; i++) if(mt[i * ny + j] == 1) p++;
      J("%s[", (lv || j) ? "," : "");
      { double a = fabs(pr->m[bq + lv]->data[0][2 * j]), b = fabs(pr->m[bq + lv]->data[0][2 * j + 1] - 1.0); if(!(a <= res)) res = a; if(!(b <= res)) res = b; }
      for(int i = 1; i < n; i++){
        double x = pr->m[bq + lv]->data[i][2 * j], yv = pr->m[bq + lv]->data[i][2 * j + 1];
        long tp = (long)llround(x * (double)p);
        double r1 = fabs(x - (double)tp / (double)p), r2 = fabs(yv - (double)tp / (double)i); if(!(r1 <= res)) res = r1; if(!(r2 <= res)) res = r2;
        J("%s[%ld,%d]", i > 1 ? "," : "", tp, i);
      }
      J("]");
    }
    J("],\"res\":%ld}", vq12(res)); VRT_EMIT("%s", jb);
  }
  DelMatrix(&t); DelMatrix(&sm); DelTensor(&roc); DelTensor(&pr); DelMatrix(&auc); DelMatrix(&ap);
  free(mt); free(col); free(ords); free(s);
}

/* ---- curve_area on an arbitrary polyline (EXTRA: outside the statement) ---- */
static void poly_block(vrng *R, int n, int ex){
  long *pts = malloc(sizeof(long) * 2 * n); matrix *xy; NewMatrix(&xy, n, 2);
  for(int i = 0; i < n; i++){ pts[2 * i] = vr_int(R, -20, 20); pts[2 * i + 1] = vr_int(R, -20, 20); xy->data[i][0] = ldexp((double)pts[2 * i], ex); xy->data[i][1] = ldexp((double)pts[2 * i + 1], ex); }
  double a = curve_area(xy, 0) * ldexp(1.0, -2 * ex);
  const char *tags[2] = { size_cls(n), "fam:curve_area" }; reset_line(n, 2, tags);
  long a2 = vfinite(a) && fabs(a) < 9e8 ? (long)llround(2.0 * a) : VQ_MAX;
  jp = 0; J("{\"e\":\"Poly\",\"n\":%d,\"exp\":%d", n, ex); jmat("pts", pts, n, 2); J(",\"a2\":%ld,\"res\":%ld}", a2, vfinite(a) ? vq12(fabs(2.0 * a - (double)a2)) : VQ_MAX); VRT_EMIT("%s", jb);
  DelMatrix(&xy); free(pts);
}

static int do_cls(const char *out, long seed, int level, int part, int nparts){
  vrt_open(out); install_crash(); cur_fam = "cls"; g_part = part; g_nparts = nparts; g_block = 0;
  vrng R0 = { (uint64_t)seed * 0x9E3779B97F4A7C15ULL + 777 };
  /* every block draws from its own generator (seed, block index): a block is reproducible whatever the partition */
#define BLOCK(stmt) do{ vrng R = { R0.s + 0x632BE59BD9B4E019ULL * (uint64_t)(g_block + 1) }; cur_i = g_block; if(take_block()){ stmt; } }while(0)
  static const int SIZES[15] = { 2, 3, 4, 5, 31, 32, 33, 63, 64, 65, 127, 128, 129, 199, 200 };
  static const int EXS[7] = { -30, -20, -7, 0, 9, 20, 30 };
  static const int DXS[8] = { -9, -6, -3, -1, 1, 3, 6, 9 };
  static const long OFFS[10] = { 1000, 1048576, 1000000, -1000000, 30000000, 100000007, 250000000, 1000000000, 1073741824, -1073741824 };
  int rep = level >= 2 ? 6 : 1;
  for(int r = 0; r < rep; r++){
    /* ROC: every size x rotating composition / score class */
    for(int i = 0; i < 15; i++) BLOCK(roc_block(&R, SIZES[i], (i + r) % CP_N, MS_NONE, (i + 3 * r) % SC_N, NULL));
    /* every score class at n = 2, 3, 17, 200 */
    static const int NS4[4] = { 2, 3, 17, 200 };
    for(int c = 0; c < SC_N; c++) for(int k = 0; k < 4; k++) BLOCK(roc_block(&R, NS4[k], CP_RAND, MS_NONE, c, NULL));
    /* all-but-one compositions at the extreme sizes */
    static const int NS5[5] = { 2, 3, 64, 199, 200 };
    for(int k = 0; k < 5; k++) for(int cp = CP_ONEPOS; cp <= CP_ONENEG; cp++) BLOCK(roc_block(&R, NS5[k], cp, MS_NONE, (k + cp + r) % SC_N, NULL));
    /* missing-coded truths first / last / both / 20 % */
    static const int NS3[3] = { 5, 64, 200 };
    for(int k = 0; k < 3; k++) for(int ms = MS_FIRST; ms <= MS_20; ms++) BLOCK(roc_block(&R, NS3[k], CP_RAND, ms, (k + ms + r) % SC_N, NULL));
    /* K7: the same input vectors reused in place: same shape other data, other shape, the first shape again */
    { dvector *pyt, *pys; NewDVector(&pyt, 17); NewDVector(&pys, 17); static const int SEQ[5] = { 17, 17, 9, 17, 64 };
      BLOCK(g_yt = pyt; g_ys = pys; for(int k = 0; k < 5; k++) roc_block(&R, SEQ[k], CP_RAND, MS_NONE, (k + r) % 3 == 0 ? SC_NORM : SC_ULP, "K7:inputs-reused-in-place"); g_yt = g_ys = NULL);
      DelDVector(&pyt); DelDVector(&pys); }
    /* K7 (implementation layer): ROC / PrecisionRecall into non-empty outputs */
    static const int NSA[3] = { 6, 65, 198 };
    for(int v = 1; v <= 2; v++) for(int k = 0; k < 3; k++) BLOCK(g_again = v; roc_block(&R, NSA[k], CP_RAND, MS_NONE, SC_NORM, v == 1 ? "K7:curve-output-presized-New(n)" : "K7:curve-output-from-previous-call"); g_again = 0);

    /* regression: every size x rotating scale / offset / missing pattern */
    for(int i = 0; i < 15; i++) for(int v = 0; v < 3; v++){
      int q = i * 3 + v + r;
      if(v == 0) BLOCK(reg_block(&R, SIZES[i], 1 + q % 5, q % MS_ROWPERRESP, 0, EXS[q % 7], 0, 0));
      else if(v == 1) BLOCK(reg_block(&R, SIZES[i], 1 + q % 5, q % MS_ROWPERRESP, 0, 0, DXS[q % 8], 0));
      else BLOCK(reg_block(&R, SIZES[i], 1 + q % 5, q % MS_ROWPERRESP, 0, EXS[q % 7], 0, OFFS[q % 10]));
    }
    static const int NS2[2] = { 3, 30 };
    for(int k = 0; k < 2; k++){
      for(int e = 0; e < 7; e++) BLOCK(reg_block(&R, NS2[k], 3, MS_NONE, 0, EXS[e], 0, 0));
      for(int e = 0; e < 8; e++) BLOCK(reg_block(&R, NS2[k], 3, MS_NONE, 0, 0, DXS[e], 0));
    }
    static const int NS6[3] = { 2, 30, 200 };
    for(int k = 0; k < 3; k++) for(int o = 0; o < 10; o++) BLOCK(reg_block(&R, NS6[k], 1 + (o + k) % 5, (k && o % 2) ? MS_20 : MS_NONE, 0, (o % 3 == 0) ? EXS[(o + k) % 7] : 0, 0, OFFS[o]));
    for(int k = 0; k < 3; k++) for(int ms = MS_FIRST; ms <= MS_20; ms++) BLOCK(reg_block(&R, NS3[k], 2 + k, ms, 0, EXS[(k + ms) % 7], 0, ms % 2 ? OFFS[(k + ms) % 10] : 0));
    for(int k = 0; k < 4; k++) BLOCK(reg_block(&R, k == 0 ? 2 : (k == 1 ? 33 : (k == 2 ? 200 : 12)), 4, k == 3 ? MS_20 : MS_NONE, 1, EXS[(2 * k + 1) % 7], 0, k == 2 ? OFFS[7] : 0));

    /* regression tables: shapes x histories x masks x missing patterns x unit systems */
    static const int SH[9][3] = { {2,1,1}, {3,2,2}, {3,4,3}, {5,2,2}, {9,3,3}, {32,2,3}, {33,3,1}, {65,1,3}, {200,2,2} };
    for(int mlr = 0; mlr <= 1; mlr++){
      for(int sidx = 0; sidx < 9; sidx++) for(int h = 0; h < H_N; h++){
        int q = sidx * H_N + h + r;
        if(SH[sidx][0] == 200 && h > 1 && level < 2) continue;
        BLOCK(tab_block(&R, mlr, SH[sidx][0], SH[sidx][1], SH[sidx][2], q % MS_N, h, 7, (q % 4 == 0) ? EXS[q % 7] : 0, (q % 3 == 0) ? OFFS[q % 10] : 0, 1 + q % 4));
      }
      for(int ms = MS_FIRST; ms < MS_N; ms++) for(int sidx = 3; sidx < 6; sidx++) BLOCK(tab_block(&R, mlr, SH[sidx][0], SH[sidx][1] + (mlr ? 1 : 0), SH[sidx][2], ms, (ms + sidx) % H_N, 7, 0, 0, 3));
      for(int mask = 1; mask < 7; mask++) BLOCK(tab_block(&R, mlr, 9, 2, 2, mask % MS_N, mask % H_N, mask, 0, 0, 3));
      for(int o = 0; o < 10; o++) BLOCK(tab_block(&R, mlr, o % 2 ? 33 : 8, 2, 2, o % 3 ? MS_20 : MS_NONE, o % H_N, 7, (o % 2) ? EXS[o % 7] : 0, OFFS[o], 2));
      for(int e = 0; e < 7; e++) BLOCK(tab_block(&R, mlr, 6, 2, 3, e % MS_N, e % H_N, 7, EXS[e], 0, 4));
      /* many responses x many latent variables (35 columns: index arithmetic beyond the 3 x 3 of the enumerated cases) */
      BLOCK(tab_block(&R, mlr, 12, 5, 7, MS_ROWPERRESP, (r + 1) % H_N, 7, 0, 0, 3));
      BLOCK(tab_block(&R, mlr, 40, 7, 5, MS_20, (r + 3) % H_N, 7, EXS[(r + 2) % 7], OFFS[(r + 4) % 10], 2));
    }
    /* classification tables */
    static const int DSH[8][3] = { {2,1,1}, {3,2,2}, {5,3,3}, {17,2,2}, {64,2,3}, {65,3,1}, {200,2,2}, {30,4,4} };
    for(int sidx = 0; sidx < 8; sidx++) for(int tw = 0; tw <= 1; tw++){ if(tw && sidx % 2 && level < 2) continue; BLOCK(da_block(&R, DSH[sidx][0], DSH[sidx][1], DSH[sidx][2], (3 * sidx + r + tw) % SC_N, tw)); }
    /* curve_area on general polylines */
    for(int k = 0; k < 6; k++) BLOCK(poly_block(&R, k < 2 ? 2 + k : (k == 5 ? 200 : 5 + 14 * k), EXS[(k + r) % 7]));
  }
#undef BLOCK
  cur_i = -1;
  vrt_close();
  return 0;
}

/* given inputs (replay of a reported case): Roc -> one base event per score map, Reg -> one event per scale */
static int do_one(const char *cases, const char *out){
  FILE *f = fopen(cases, "r"); if(!f){ perror(cases); return 2; }
  vrt_open(out); install_crash(); cur_fam = "one";
  scase q; long idx = -1;
  while(read_case(f, &q)){
    idx++; cur_i = idx;
    int n = (int)q.sc[0];
    if(!strcmp(q.fam, "Roc")){
      double *s = malloc(sizeof(double) * n);
      for(int v = 0; v < 4; v++){
        for(int r = 0; r < n; r++) s[q.a[1].v[r] - 1] = gmap(v, (double)(n - 1 - r));
        VRT_EMIT("{\"e\":\"Reset\",\"n\":%d}", n);
        emit_roc("base", n, q.a[0].v, s);
      }
      free(s);
    }
    else if(!strcmp(q.fam, "Reg")){
      VRT_EMIT("{\"e\":\"Reset\",\"n\":%d}", n);
      for(int x = 0; x < 3; x++) emit_reg(n, q.a[0].v, q.a[1].v, EXPS[x], 0, 0);
      emit_reg(n, q.a[0].v, q.a[1].v, 0, 1048576, 0); emit_reg(n, q.a[0].v, q.a[1].v, 0, 1073741824, 0); emit_reg(n, q.a[0].v, q.a[1].v, 7, -33554432, 0);
    }
    free_case(&q);
  }
  cur_i = -1; vrt_close(); fclose(f);
  return 0;
}

int main(int argc, char **argv){
  vrt_force_nproc(1);
  if(argc >= 5 && !strcmp(argv[1], "replay")) return do_replay(argv[2], argv[3], argv[4]);
  if(argc >= 6 && !strcmp(argv[1], "trace")) return do_trace(argv[2], atol(argv[3]), atoi(argv[4]), atoi(argv[5]));
  if(argc >= 4 && !strcmp(argv[1], "one")) return do_one(argv[2], argv[3]);
  if(argc >= 7 && !strcmp(argv[1], "cls")) return do_cls(argv[2], atol(argv[3]), atoi(argv[4]), atoi(argv[5]), atoi(argv[6]));
  fprintf(stderr, "usage: c15_replay replay cases out family | trace out seed blocks maxn | one cases out | cls out seed level part nparts\n");
  return 2;
}
