/* c15_replay.c - conformance driver for C15 (figures of merit equal their definitions).
 *
 *   c15_replay replay <cases.txt> <out.ndjson> <family>         replay TLC-generated cases (spec/Stats.tla) of one family
 *   c15_replay trace  <out.ndjson> <seed> <blocks> <maxn>       validate direction: random long inputs, results logged for TLC
 *   c15_replay one    <cases.txt> <out.ndjson>                  validate direction on given inputs (replay of a reported case)
 *
 * cases.txt (written by the check from TLC's output):  <family> <nscalars> <narrays> / scalars / one line "<len> v.." per array
 *   Roc    scalars n p nn auc2 apn apd          arrays y ord roc(2 per point) pr(2 per point)
 *   Reg    scalars n                            arrays yt yp q(msen msed maen maed r2n r2d biasn biasd)      99 = missing-coded truth
 *   PlsReg scalars n ny nlv   (also Mlr)        arrays mt mp q(8 per (lv, j))
 *   PlsDa  scalars n ny nlv                     arrays mt mp ent(auc2 p nn apn apd per (lv, j)) roc pr
 * replay output:  Res{fam,i,ok[,fails[{fn,shifted,what,got,want}]]}  one per case (first mismatch per library function);  Done{cases};  Crash{fam,i}
 * trace output (integers only, read by TLC against spec/TraceStats.tla):
 *   Reset{n}
 *   Roc{kind,n,y,ord,p,nn,pts,res,auc2,aucres}  Area{ca2,cares}  Pr{pr,prres,ap9}     kind: base | mono | perm | neg
 *       pts = round(x*N), round(y*P) of every returned point, res = largest distance of a coordinate from that fraction (1e-12 units),
 *       auc2 = round(auc*2PN) (+ residual), ca2 the same for curve_area() called on the returned points, pr = [round(recall*P), index]
 *   RegIn{n,exp,off,yt,yp,m}  Mse{ssen,res}  Mae{saen,res}  Rmse{res}  R2{q}  Bias{q}           q in units of 1e-4
 */
#include "scientific.h"
#include "verif_rt.h"
#include <float.h>
#include <stdarg.h>

#define MISSCODE 99
typedef struct { int len; long *v; } arr;
typedef struct { char fam[16]; int nsc, narr; long sc[16]; arr a[8]; } scase;

static const char *cur_fam = ""; static long cur_i = -1;
static void crash_line(void){ if(vrt_out && cur_i >= 0){ fprintf(vrt_out, "{\"e\":\"Crash\",\"fam\":\"%s\",\"i\":%ld}\n", cur_fam, cur_i); fflush(vrt_out); } }
static void on_signal(int sig){ crash_line(); _exit(128 + sig); }
#if defined(__has_feature)
#if __has_feature(address_sanitizer)
void __sanitizer_set_death_callback(void (*cb)(void));
#define HAVE_DEATH_CB 1
#endif
#endif
static void install_crash(void){
  signal(SIGABRT, on_signal); signal(SIGFPE, on_signal);
#ifdef HAVE_DEATH_CB
  __sanitizer_set_death_callback(crash_line);
#else
  signal(SIGSEGV, on_signal); signal(SIGBUS, on_signal);
#endif
}

static int read_case(FILE *f, scase *q){
  if(fscanf(f, "%15s %d %d", q->fam, &q->nsc, &q->narr) != 3) return 0;
  if(q->nsc > 16 || q->narr > 8){ fprintf(stderr, "case header too large\n"); exit(2); }
  for(int i = 0; i < q->nsc; i++) if(fscanf(f, "%ld", &q->sc[i]) != 1){ fprintf(stderr, "truncated case\n"); exit(2); }
  for(int i = 0; i < q->narr; i++){
    if(fscanf(f, "%d", &q->a[i].len) != 1){ fprintf(stderr, "truncated case\n"); exit(2); }
    q->a[i].v = malloc(sizeof(long) * (q->a[i].len + 1));
    for(int j = 0; j < q->a[i].len; j++) if(fscanf(f, "%ld", &q->a[i].v[j]) != 1){ fprintf(stderr, "truncated case\n"); exit(2); }
  }
  return 1;
}
static void free_case(scase *q){ for(int i = 0; i < q->narr; i++) free(q->a[i].v); }
static void need(arr *a, int n){ if(a->len != n){ fprintf(stderr, "array has %d cells, expected %d\n", a->len, n); exit(2); } }

static char jb[1 << 17]; static int jp;
#define J(...) do{ jp += snprintf(jb + jp, sizeof(jb) - jp, __VA_ARGS__); if(jp >= (int)sizeof(jb) - 64){ fprintf(stderr, "event too long\n"); exit(2); } }while(0)
static void jints(const char *key, long *v, int n){ J(",\"%s\":[", key); for(int i = 0; i < n; i++) J("%s%ld", i ? "," : "", v[i]); J("]"); }

/* ---- mismatch bookkeeping ---- */
static double cur_off = 0.0;                     /* common offset of the variant being evaluated (0 = unshifted) */
/* first mismatch per library function (so that one failing function does not hide another in the same case) */
#define MAXMM 8
static struct { int bad, shifted; const char *fn; char what[160]; double got, want; } mmv[MAXMM];
static int nmm = 0;
static void miss(const char *fn, double got, double want, const char *fmt, ...){
  for(int i = 0; i < nmm; i++) if(!strcmp(mmv[i].fn, fn)) return;
  if(nmm >= MAXMM) return;
  mmv[nmm].bad = 1; mmv[nmm].shifted = cur_off != 0.0; mmv[nmm].fn = fn; mmv[nmm].got = got; mmv[nmm].want = want;
  va_list ap; va_start(ap, fmt); vsnprintf(mmv[nmm].what, sizeof(mmv[nmm].what), fmt, ap); va_end(ap);
  nmm++;
}
static int near_(double got, double want, double rel, double floor_){
  if(got == want) return 1;
  if(!vfinite(got)) return 0;
  double s = fabs(want) > floor_ ? fabs(want) : floor_;
  return fabs(got - want) <= rel * s;
}
#define TOL 1e-12

/* strictly increasing score maps: arbitrary distributions behind one and the same order */
static double gmap(int v, double x){
  switch(v){ case 0: return x; case 1: return exp(0.37 * x) - 5.0; case 2: return -1.0 / (1.0 + x); default: return 1e6 * x - 3e6; }
}

/* ---- Roc family: ROC, PrecisionRecall, curve_area ---- */
static void replay_roc(scase *q){
  int n = (int)q->sc[0]; long p = q->sc[1], nn = q->sc[2], auc2 = q->sc[3], apn = q->sc[4], apd = q->sc[5];
  arr *y = &q->a[0], *ord = &q->a[1], *roc = &q->a[2], *pr = &q->a[3];
  need(y, n); need(ord, n);
  int m = 0; for(int i = 0; i < n; i++) if(y->v[i] != 2) m++;
  need(roc, 2 * (m + 1)); need(pr, 2 * m);
  double wauc = (double)auc2 / (2.0 * (double)p * (double)nn), wap = (double)apn / (double)apd;
  for(int v = 0; v < 4; v++){
    dvector *yt, *ys; NewDVector(&yt, n); NewDVector(&ys, n);
    for(int i = 0; i < n; i++) yt->data[i] = y->v[i] == 2 ? (double)MISSING : (double)y->v[i];
    for(int r = 0; r < n; r++) ys->data[ord->v[r] - 1] = gmap(v, (double)(n - 1 - r));
    matrix *rc; initMatrix(&rc); double auc = -1;
    ROC(yt, ys, rc, &auc);
    if((int)rc->row != m + 1 || rc->col != 2) miss("ROC", (double)rc->row, (double)(m + 1), "curve has %d points, the definition %d (one per non-missing object after (0,0))", (int)rc->row, m + 1);
    else for(int i = 0; i <= m; i++){
      double wx = (double)roc->v[2 * i] / (double)nn, wy = (double)roc->v[2 * i + 1] / (double)p;
      if(!near_(rc->data[i][0], wx, TOL, 1.0)) miss("ROC", rc->data[i][0], wx, "point %d: false-positive rate (map %d)", i, v);
      if(!near_(rc->data[i][1], wy, TOL, 1.0)) miss("ROC", rc->data[i][1], wy, "point %d: true-positive rate (map %d)", i, v);
    }
    if(!near_(auc, wauc, TOL, 1.0)) miss("ROC", auc, wauc, "AUC (map %d) vs trapezoid area %ld/(2*%ld*%ld)", v, auc2, p, nn);
    if((int)rc->row == m + 1){ double ca = curve_area(rc, 0); if(!near_(ca, wauc, TOL, 1.0)) miss("curve_area", ca, wauc, "trapezoid area of the ROC points"); }
    matrix *pc; initMatrix(&pc); double ap = -1;
    PrecisionRecall(yt, ys, pc, &ap);
    if((int)pc->row != m + 1 || pc->col != 2) miss("PrecisionRecall", (double)pc->row, (double)(m + 1), "curve has %d points, the definition %d", (int)pc->row, m + 1);
    else{
      if(!near_(pc->data[0][0], 0.0, TOL, 1.0) || !near_(pc->data[0][1], 1.0, TOL, 1.0)) miss("PrecisionRecall", pc->data[0][1], 1.0, "first point must be (recall 0, precision 1)");
      for(int i = 1; i <= m; i++){
        double wr = (double)pr->v[2 * (i - 1)] / (double)p, wp = (double)pr->v[2 * (i - 1)] / (double)pr->v[2 * (i - 1) + 1];
        if(!near_(pc->data[i][0], wr, TOL, 1.0)) miss("PrecisionRecall", pc->data[i][0], wr, "point %d: recall", i);
        if(!near_(pc->data[i][1], wp, TOL, 1.0)) miss("PrecisionRecall", pc->data[i][1], wp, "point %d: precision", i);
      }
      if(m >= 1 && !near_(pc->data[m][0], 1.0, TOL, 1.0)) miss("PrecisionRecall", pc->data[m][0], 1.0, "recall must end at 1");
    }
    if(!near_(ap, wap, TOL, 1.0)) miss("PrecisionRecall", ap, wap, "area (map %d) vs exact %ld/%ld", v, apn, apd);
    if(!(ap >= -TOL && ap <= 1.0 + TOL)) miss("PrecisionRecall", ap, wap, "area outside [0,1]");
    DelMatrix(&rc); DelMatrix(&pc); DelDVector(&yt); DelDVector(&ys);
  }
}

/* ---- Reg family: R2 MSE RMSE MAE BIAS at three dyadic scales ---- */
static void check_reg(double tol, dvector *yt, dvector *yp, long *e8, int ex){
  double s1 = ldexp(1.0, ex), s2 = ldexp(1.0, 2 * ex);
#undef TOL
#define TOL tol
  if(e8[1] > 0){
    double wmse = (double)e8[0] * s2 / (double)e8[1], wmae = (double)e8[2] * s1 / (double)e8[3];
    double g = MSE(yt, yp); if(!near_(g, wmse, TOL, s2)) miss("MSE", g, wmse, "offset %g scale 2^%d: sum of squared errors %ld over %ld present truths", cur_off, ex, e8[0], e8[1]);
    g = MAE(yt, yp); if(!near_(g, wmae, TOL, s1)) miss("MAE", g, wmae, "offset %g scale 2^%d: sum of absolute errors %ld over %ld present truths", cur_off, ex, e8[2], e8[3]);
    g = RMSE(yt, yp); if(!(g >= 0.0) || !near_(g * g, wmse, TOL, s2)) miss("RMSE", g * g, wmse, "offset %g scale 2^%d: RMSE^2 must equal MSE", cur_off, ex);
    if(!(MAE(yt, yp) <= RMSE(yt, yp) * (1.0 + 1e-12))) miss("MAE", MAE(yt, yp), RMSE(yt, yp), "offset %g scale 2^%d: MAE <= RMSE", cur_off, ex);
  }
  if(e8[5] > 0){
    double w = (double)e8[4] / (double)e8[5], g = R2(yt, yp);
    if(!near_(g, w, TOL, 1.0)) miss("R2", g, w, "offset %g scale 2^%d: R2 = %ld/%ld", cur_off, ex, e8[4], e8[5]);
    if(!(g <= 1.0 + TOL)) miss("R2", g, 1.0, "R2 <= 1");
    w = (double)e8[6] / (double)e8[7]; g = BIAS(yt, yp);
    if(!near_(g, w, TOL, 1.0)) miss("BIAS", g, w, "offset %g scale 2^%d: |1 - slope| = %ld/%ld", cur_off, ex, e8[6], e8[7]);
  }
#undef TOL
#define TOL 1e-12
}
static const int EXPS[3] = { -20, 0, 20 };
/* variants: unshifted at three dyadic scales first, then truths and predictions moved by a common offset of 2^20 / 2^30 units
 * (exactly representable).  By Stats!ThShiftInvariant / ThScaleLaw the SAME exact values apply; the tolerance at an offset (1e-8)
 * reflects only the conditioning of a computation on deviations (mean rounded to 1 ulp: relative effect ~ 1e-13 at 2^30). */
static const struct { double off; int ex; } VAR[9] = { {0, -20}, {0, 0}, {0, 20}, {1048576.0, 0}, {1073741824.0, 0}, {-1073741824.0, 0},
                                                       {1048576.0, -20}, {1073741824.0, 20}, {33554432.0, 7} };
static void replay_reg(scase *q){
  int n = (int)q->sc[0]; arr *a = &q->a[0], *b = &q->a[1], *e = &q->a[2];
  need(a, n); need(b, n); need(e, 8);
  for(int x = 0; x < 9; x++){
    dvector *yt, *yp; NewDVector(&yt, n); NewDVector(&yp, n);
    cur_off = VAR[x].off;
    for(int i = 0; i < n; i++){
      yt->data[i] = a->v[i] == MISSCODE ? (double)MISSING : ldexp((double)a->v[i] + VAR[x].off, VAR[x].ex);
      yp->data[i] = ldexp((double)b->v[i] + VAR[x].off, VAR[x].ex);
    }
    check_reg(cur_off == 0.0 ? 1e-12 : 1e-8, yt, yp, e->v, VAR[x].ex);
    DelDVector(&yt); DelDVector(&yp);
  }
  cur_off = 0.0;
}

/* ---- table builders ---- */
static matrix *tab_of(arr *a, int rows, int cols, int ex, int truth){
  need(a, rows * cols);
  matrix *m; NewMatrix(&m, rows, cols);
  for(int i = 0; i < rows; i++) for(int j = 0; j < cols; j++){ long v = a->v[i * cols + j]; m->data[i][j] = (truth && v == MISSCODE) ? (double)MISSING : ldexp((double)v, ex); }
  return m;
}
static void replay_regtab(scase *q, int mlr){
  int n = (int)q->sc[0], ny = (int)q->sc[1], nlv = (int)q->sc[2];
  need(&q->a[2], nlv * ny * 8);
  const char *fn = mlr ? "MLRRegressionStatistics" : "PLSRegressionStatistics";
  for(int x = 0; x < 3; x++){
    int ex = EXPS[x]; double s2 = ldexp(1.0, 2 * ex);
    matrix *mt = tab_of(&q->a[0], n, ny, ex, 1), *mp = tab_of(&q->a[1], n, ny * nlv, ex, 0);
    matrix *r2 = NULL, *rm = NULL, *bi = NULL; dvector *vr2 = NULL, *vrm = NULL, *vbi = NULL;
    if(mlr){ initDVector(&vr2); initDVector(&vrm); initDVector(&vbi); MLRRegressionStatistics(mt, mp, vr2, vrm, vbi); }
    else { initMatrix(&r2); initMatrix(&rm); initMatrix(&bi); PLSRegressionStatistics(mt, mp, r2, rm, bi); }
    if(mlr ? ((int)vr2->size != ny || (int)vrm->size != ny || (int)vbi->size != ny)
           : ((int)r2->row != nlv || (int)r2->col != ny || (int)rm->row != nlv || (int)rm->col != ny || (int)bi->row != nlv || (int)bi->col != ny))
      miss(fn, 0, 0, "result tables do not have one entry per (latent variable, response): nlv=%d ny=%d", nlv, ny);
    else for(int lv = 0; lv < nlv; lv++) for(int j = 0; j < ny; j++){
      long *e8 = &q->a[2].v[(lv * ny + j) * 8];
      double gr2 = mlr ? vr2->data[j] : r2->data[lv][j], grm = mlr ? vrm->data[j] : rm->data[lv][j], gbi = mlr ? vbi->data[j] : bi->data[lv][j];
      if(e8[5] > 0 && !near_(gr2, (double)e8[4] / (double)e8[5], TOL, 1.0)) miss(fn, gr2, (double)e8[4] / (double)e8[5], "R2 entry (lv %d, response %d) must be R2 of prediction column ny*lv+j = %d (scale 2^%d)", lv, j, ny * lv + j, ex);
      if(e8[1] > 0 && !near_(grm * grm, (double)e8[0] * s2 / (double)e8[1], TOL, s2)) miss(fn, grm * grm, (double)e8[0] * s2 / (double)e8[1], "RMSE^2 entry (lv %d, response %d) must be MSE of prediction column %d (scale 2^%d)", lv, j, ny * lv + j, ex);
      if(e8[7] > 0 && !near_(gbi, (double)e8[6] / (double)e8[7], TOL, 1.0)) miss(fn, gbi, (double)e8[6] / (double)e8[7], "BIAS entry (lv %d, response %d) must be BIAS of prediction column %d (scale 2^%d)", lv, j, ny * lv + j, ex);
    }
    DelMatrix(&mt); DelMatrix(&mp);
    if(mlr){ DelDVector(&vr2); DelDVector(&vrm); DelDVector(&vbi); } else { DelMatrix(&r2); DelMatrix(&rm); DelMatrix(&bi); }
  }
}
static void replay_da(scase *q){
  int n = (int)q->sc[0], ny = (int)q->sc[1], nlv = (int)q->sc[2];
  const char *fn = "PLSDiscriminantAnalysisStatistics";
  need(&q->a[2], nlv * ny * 5); need(&q->a[3], nlv * ny * 2 * (n + 1)); need(&q->a[4], nlv * ny * 2 * n);
  matrix *mt = tab_of(&q->a[0], n, ny, 0, 0), *ms = tab_of(&q->a[1], n, ny * nlv, 0, 0);
  for(int i = 0; i < n; i++) for(int j = 0; j < ny * nlv; j++) ms->data[i][j] = exp(0.21 * ms->data[i][j]) - 2.0;      /* any strictly increasing map */
  tensor *roc, *pr; matrix *auc, *ap; initTensor(&roc); initTensor(&pr); initMatrix(&auc); initMatrix(&ap);
  PLSDiscriminantAnalysisStatistics(mt, ms, roc, auc, pr, ap);
  if((int)auc->row != nlv || (int)auc->col != ny || (int)ap->row != nlv || (int)ap->col != ny || (int)roc->order != nlv || (int)pr->order != nlv)
    miss(fn, (double)auc->row, (double)nlv, "result tables do not have one entry per (latent variable, response)");
  else for(int lv = 0; lv < nlv; lv++) for(int j = 0; j < ny; j++){
    long *e5 = &q->a[2].v[(lv * ny + j) * 5];
    double wauc = (double)e5[0] / (2.0 * (double)e5[1] * (double)e5[2]), wap = (double)e5[3] / (double)e5[4];
    if(!near_(auc->data[lv][j], wauc, TOL, 1.0)) miss(fn, auc->data[lv][j], wauc, "AUC entry (lv %d, response %d) must be the AUC of score column ny*lv+j = %d", lv, j, ny * lv + j);
    if(!near_(ap->data[lv][j], wap, TOL, 1.0)) miss(fn, ap->data[lv][j], wap, "PR-area entry (lv %d, response %d) must be that of score column %d", lv, j, ny * lv + j);
    /* curve slices: as many leading points of each curve as the slice has rows */
    long *rp = &q->a[3].v[(lv * ny + j) * 2 * (n + 1)], *pp = &q->a[4].v[(lv * ny + j) * 2 * n];
    if((int)roc->m[lv]->col == 2 * ny) for(int i = 0; i < (int)roc->m[lv]->row && i <= n; i++){
      if(!near_(roc->m[lv]->data[i][2 * j], (double)rp[2 * i] / (double)e5[2], TOL, 1.0) || !near_(roc->m[lv]->data[i][2 * j + 1], (double)rp[2 * i + 1] / (double)e5[1], TOL, 1.0))
        miss(fn, roc->m[lv]->data[i][2 * j], (double)rp[2 * i] / (double)e5[2], "ROC slice lv %d columns %d,%d point %d is not the curve of score column %d", lv, 2 * j, 2 * j + 1, i, ny * lv + j);
    }
    if((int)pr->m[lv]->col == 2 * ny) for(int i = 1; i < (int)pr->m[lv]->row && i <= n; i++){
      if(!near_(pr->m[lv]->data[i][2 * j], (double)pp[2 * (i - 1)] / (double)e5[1], TOL, 1.0) || !near_(pr->m[lv]->data[i][2 * j + 1], (double)pp[2 * (i - 1)] / (double)pp[2 * (i - 1) + 1], TOL, 1.0))
        miss(fn, pr->m[lv]->data[i][2 * j], (double)pp[2 * (i - 1)] / (double)e5[1], "PR slice lv %d columns %d,%d point %d is not the curve of score column %d", lv, 2 * j, 2 * j + 1, i, ny * lv + j);
    }
  }
  DelMatrix(&mt); DelMatrix(&ms); DelTensor(&roc); DelTensor(&pr); DelMatrix(&auc); DelMatrix(&ap);
}

static int do_replay(const char *cases, const char *out, const char *fam){
  FILE *f = fopen(cases, "r"); if(!f){ perror(cases); return 2; }
  vrt_open(out); install_crash(); cur_fam = fam;
  scase q; long idx = -1, ran = 0;
  while(read_case(f, &q)){
    idx++;
    if(!strcmp(q.fam, fam)){
      cur_i = idx; nmm = 0; cur_off = 0.0; ran++;
      if(!strcmp(fam, "Roc")) replay_roc(&q);
      else if(!strcmp(fam, "Reg")) replay_reg(&q);
      else if(!strcmp(fam, "PlsReg")) replay_regtab(&q, 0);
      else if(!strcmp(fam, "Mlr")) replay_regtab(&q, 1);
      else if(!strcmp(fam, "PlsDa")) replay_da(&q);
      else { fprintf(stderr, "unknown family %s\n", fam); return 2; }
      cur_i = -1;
      if(nmm){
        jp = 0; J("{\"e\":\"Res\",\"fam\":\"%s\",\"i\":%ld,\"ok\":0,\"fails\":[", fam, idx);
        for(int k = 0; k < nmm; k++) J("%s{\"fn\":\"%s\",\"shifted\":%d,\"what\":\"%s\",\"got\":\"%.17g\",\"want\":\"%.17g\"}", k ? "," : "", mmv[k].fn, mmv[k].shifted, mmv[k].what, mmv[k].got, mmv[k].want);
        J("]}"); VRT_EMIT("%s", jb);
      }
      else VRT_EMIT("{\"e\":\"Res\",\"fam\":\"%s\",\"i\":%ld,\"ok\":1}", fam, idx);
    }
    free_case(&q);
  }
  VRT_EMIT("{\"e\":\"Done\",\"fam\":\"%s\",\"cases\":%ld}", fam, ran);
  vrt_close(); fclose(f);
  return 0;
}

/* ================= validate direction ================= */
static int cmp_desc(const void *a, const void *b){ double x = ((const double *)a)[0], y = ((const double *)b)[0]; return x < y ? 1 : (x > y ? -1 : 0); }
/* rank order of tie-free scores: ord[r] = 1-based object at rank r, descending.  Returns 0 when two scores are equal. */
static int order_of(double *s, int n, long *ord){
  double *t = malloc(sizeof(double) * 2 * n);
  for(int i = 0; i < n; i++){ t[2 * i] = s[i]; t[2 * i + 1] = (double)(i + 1); }
  qsort(t, n, 2 * sizeof(double), cmp_desc);
  int ok = 1;
  for(int r = 0; r < n; r++){ ord[r] = (long)t[2 * r + 1]; if(r && t[2 * r] == t[2 * (r - 1)]) ok = 0; if(!vfinite(t[2 * r])) ok = 0; }
  free(t);
  return ok;
}

/* run ROC / curve_area / PrecisionRecall on (y, s) and log what came back, as integers over the known denominators */
static void emit_roc(const char *kind, int n, long *y, double *s){
  long *ord = malloc(sizeof(long) * n);
  if(!order_of(s, n, ord)){ fprintf(stderr, "internal: tied scores reached emit_roc\n"); exit(2); }
  long p = 0, nn = 0; for(int i = 0; i < n; i++){ if(y[i] == 1) p++; else if(y[i] == 0) nn++; }
  dvector *yt, *ys; NewDVector(&yt, n); NewDVector(&ys, n);
  for(int i = 0; i < n; i++){ yt->data[i] = y[i] == 2 ? (double)MISSING : (double)y[i]; ys->data[i] = s[i]; }
  matrix *rc, *pc; initMatrix(&rc); initMatrix(&pc); double auc = -1, ap = -1;
  ROC(yt, ys, rc, &auc);
  PrecisionRecall(yt, ys, pc, &ap);
  double ca = curve_area(rc, 0);
  jp = 0; J("{\"e\":\"Roc\",\"kind\":\"%s\",\"n\":%d", kind, n);
  jints("y", y, n); jints("ord", ord, n);
  J(",\"p\":%ld,\"nn\":%ld,\"pts\":[", p, nn);
  double res = 0;
  for(size_t i = 0; i < rc->row; i++){
    long fp = (long)llround(rc->data[i][0] * (double)nn), tp = (long)llround(rc->data[i][1] * (double)p);
    double r1 = fabs(rc->data[i][0] - (double)fp / (double)nn), r2 = fabs(rc->data[i][1] - (double)tp / (double)p);
    if(!(r1 <= res)) res = r1; if(!(r2 <= res)) res = r2;
    J("%s[%ld,%ld]", i ? "," : "", fp, tp);
  }
  double d2 = 2.0 * (double)p * (double)nn;
  long auc2 = (long)llround(auc * d2), ca2 = (long)llround(ca * d2);
  J("],\"res\":%ld,\"auc2\":%ld,\"aucres\":%ld}", vq12(res), auc2, vq12(fabs(auc - (double)auc2 / d2)));
  VRT_EMIT("%s", jb);
  VRT_EMIT("{\"e\":\"Area\",\"ca2\":%ld,\"cares\":%ld}", ca2, vq12(fabs(ca - (double)ca2 / d2)));
  jp = 0; J("{\"e\":\"Pr\",\"pr\":[");
  double pres = 0;
  if(pc->row >= 1){ double a = fabs(pc->data[0][0]), b = fabs(pc->data[0][1] - 1.0); pres = a > b ? a : b; } else pres = 1.0;
  for(size_t i = 1; i < pc->row; i++){
    long tp = (long)llround(pc->data[i][0] * (double)p);
    double r1 = fabs(pc->data[i][0] - (double)tp / (double)p), r2 = fabs(pc->data[i][1] - (double)tp / (double)i);
    if(!(r1 <= pres)) pres = r1; if(!(r2 <= pres)) pres = r2;
    J("%s[%ld,%zu]", i > 1 ? "," : "", tp, i);
  }
  J("],\"prres\":%ld,\"ap9\":%ld}", vq12(pres), vqs_unit(ap, 1e-9));
  VRT_EMIT("%s", jb);
  DelMatrix(&rc); DelMatrix(&pc); DelDVector(&yt); DelDVector(&ys); free(ord);
}

static double mono(int which, double x, double lo, double hi){
  double u = (x - lo) / (hi - lo + 1e-300);           /* 0..1 */
  switch(which){
    case 0: return 3.25 * x + 17.0;
    case 1: return exp(3.0 * u);
    case 2: return u * u * u + 0.001 * u;
    case 3: return atan(8.0 * (u - 0.5));
    case 4: return log(1e-3 + u);
    default: return 1e9 * u - 5e8;
  }
}
static int strictly_same_order(double *a, double *b, int n){       /* b must order the objects exactly as a does */
  long *oa = malloc(sizeof(long) * n), *ob = malloc(sizeof(long) * n);
  int ok = order_of(a, n, oa) && order_of(b, n, ob);
  for(int i = 0; ok && i < n; i++) if(oa[i] != ob[i]) ok = 0;
  free(oa); free(ob); return ok;
}

static void emit_reg(int n, long *a, long *b, int ex, long off){
  dvector *yt, *yp; NewDVector(&yt, n); NewDVector(&yp, n);
  int m = 0;
  for(int i = 0; i < n; i++){ if(a[i] != MISSCODE) m++; yt->data[i] = a[i] == MISSCODE ? (double)MISSING : ldexp((double)a[i] + (double)off, ex); yp->data[i] = ldexp((double)b[i] + (double)off, ex); }
  double mse = MSE(yt, yp), mae = MAE(yt, yp), rmse = RMSE(yt, yp), r2 = R2(yt, yp), bias = BIAS(yt, yp);
  double s1 = ldexp(1.0, -ex), s2 = ldexp(1.0, -2 * ex);
  long ssen = (long)llround(mse * s2 * m), saen = (long)llround(mae * s1 * m);
  jp = 0; J("{\"e\":\"RegIn\",\"n\":%d,\"exp\":%d,\"off\":%ld", n, ex, off); jints("yt", a, n); jints("yp", b, n); J(",\"m\":%d}", m);
  VRT_EMIT("%s", jb);
  VRT_EMIT("{\"e\":\"Mse\",\"ssen\":%ld,\"res\":%ld}", ssen, vq12(fabs(mse * s2 - (double)ssen / m)));
  VRT_EMIT("{\"e\":\"Mae\",\"saen\":%ld,\"res\":%ld}", saen, vq12(fabs(mae * s1 - (double)saen / m)));
  VRT_EMIT("{\"e\":\"Rmse\",\"res\":%ld}", vq12(fabs(rmse * rmse - mse) * s2 / (mse * s2 > 1.0 ? mse * s2 : 1.0)));
  VRT_EMIT("{\"e\":\"R2\",\"q\":%ld}", vqs_unit(r2, 1e-4));
  VRT_EMIT("{\"e\":\"Bias\",\"q\":%ld}", vqs_unit(bias, 1e-4));
  DelDVector(&yt); DelDVector(&yp);
}

static int do_trace(const char *out, long seed, int blocks, int maxn){
  vrt_open(out); install_crash(); cur_fam = "trace";
  vrng R = { (uint64_t)seed * 0x9E3779B97F4A7C15ULL + 12345 };
  for(int b = 0; b < blocks; b++){
    cur_i = b;
    int n = (b % 7 == 0) ? (int)vr_int(&R, maxn > 20 ? maxn - 20 : 2, maxn) : (b % 7 == 1 ? (int)vr_int(&R, 2, 6) : (int)vr_int(&R, 2, maxn));
    long *y = malloc(sizeof(long) * n), *y2 = malloc(sizeof(long) * n); double *s = malloc(sizeof(double) * n), *t = malloc(sizeof(double) * n);
    /* truths: both classes present, up to 20 % missing-coded */
    for(;;){
      int nm = (b % 3 == 0) ? 0 : (int)vr_int(&R, 0, n / 5);
      double pp = 0.15 + 0.7 * vr_unif(&R);
      for(int i = 0; i < n; i++) y[i] = vr_unif(&R) < pp ? 1 : 0;
      for(int k = 0; k < nm; k++) y[vr_int(&R, 0, n - 1)] = 2;
      long p = 0, nn = 0; for(int i = 0; i < n; i++){ if(y[i] == 1) p++; else if(y[i] == 0) nn++; }
      if(p >= 1 && nn >= 1) break;
    }
    /* scores: arbitrary tie-free distributions, correlated with the truth to a random degree */
    long *tmp = malloc(sizeof(long) * n);
    for(;;){
      int dist = (int)vr_int(&R, 0, 5); double sep = 2.5 * vr_unif(&R) - 0.5;
      for(int i = 0; i < n; i++){
        double z = vr_norm(&R) + (y[i] == 1 ? sep : 0.0);
        switch(dist){ case 0: s[i] = z; break; case 1: s[i] = exp(2.0 * z); break; case 2: s[i] = 1.0 / (1.0 + exp(-z)); break;
                      case 3: s[i] = 1e-6 * z; break; case 4: s[i] = 1e6 * z + 3e5; break; default: s[i] = floor(z * 1000.0) / 1000.0 + 1e-7 * vr_unif(&R); }
      }
      if(order_of(s, n, tmp)) break;
    }
    VRT_EMIT("{\"e\":\"Reset\",\"n\":%d}", n);
    emit_roc("base", n, y, s);
    /* strictly increasing map: must leave the order untouched (checked, else the next map is tried) */
    double lo = s[0], hi = s[0]; for(int i = 1; i < n; i++){ if(s[i] < lo) lo = s[i]; if(s[i] > hi) hi = s[i]; }
    int w0 = (int)vr_int(&R, 0, 5), done = 0;
    for(int k = 0; k < 6 && !done; k++){
      int w = (w0 + k) % 6;
      for(int i = 0; i < n; i++) t[i] = mono(w, s[i], lo, hi);
      if(strictly_same_order(s, t, n)){ emit_roc("mono", n, y, t); done = 1; }
    }
    if(!done){ for(int i = 0; i < n; i++) t[i] = 2.0 * s[i]; emit_roc("mono", n, y, t); }
    /* object reordering (Fisher-Yates) */
    for(int i = 0; i < n; i++) tmp[i] = i;
    for(int i = n - 1; i > 0; i--){ long j = vr_int(&R, 0, i), x = tmp[i]; tmp[i] = tmp[j]; tmp[j] = x; }
    for(int i = 0; i < n; i++){ y2[i] = y[tmp[i]]; t[i] = s[tmp[i]]; }
    emit_roc("perm", n, y2, t);
    for(int i = 0; i < n; i++) t[i] = -s[i];
    emit_roc("neg", n, y, t);
    /* regression vectors: small integers at a dyadic scale, up to 20 % missing-coded truths, non-constant truths */
    if(b % 2 == 0){
      int rn = (int)vr_int(&R, 2, 30); long a[30], c[30];
      for(;;){
        int nm = (int)vr_int(&R, 0, rn / 5), amp = (int)vr_int(&R, 1, 5);
        for(int i = 0; i < rn; i++){ a[i] = vr_int(&R, -amp, amp); c[i] = (vr_unif(&R) < 0.3) ? a[i] : a[i] + vr_int(&R, -amp, amp); if(c[i] > 5) c[i] = 5; if(c[i] < -5) c[i] = -5; }
        for(int k = 0; k < nm; k++) a[vr_int(&R, 0, rn - 1)] = MISSCODE;
        int first = 1, varies = 0, cnt = 0; long v0 = 0;
        for(int i = 0; i < rn; i++) if(a[i] != MISSCODE){ cnt++; if(first){ v0 = a[i]; first = 0; } else if(a[i] != v0) varies = 1; }
        if(varies && cnt >= 2) break;
      }
      static const int EX[5] = { -20, -7, 0, 9, 20 };
      /* common offset: |mean| / spread up to 1e9 (TLC recomputes from the integer deviations; Stats!ThShiftInvariant) */
      static const long OFF[8] = { 0, 0, 1000, 1000000, -1000000, 30000000, 250000000, 1000000000 };
      emit_reg(rn, a, c, EX[vr_int(&R, 0, 4)], OFF[vr_int(&R, 0, 7)]);
    }
    free(y); free(y2); free(s); free(t); free(tmp);
  }
  cur_i = -1;
  vrt_close();
  return 0;
}

/* given inputs (replay of a reported case): Roc -> one base event per score map, Reg -> one event per scale */
static int do_one(const char *cases, const char *out){
  FILE *f = fopen(cases, "r"); if(!f){ perror(cases); return 2; }
  vrt_open(out); install_crash(); cur_fam = "one";
  scase q; long idx = -1;
  while(read_case(f, &q)){
    idx++; cur_i = idx;
    int n = (int)q.sc[0];
    if(!strcmp(q.fam, "Roc")){
      double *s = malloc(sizeof(double) * n);
      for(int v = 0; v < 4; v++){
        for(int r = 0; r < n; r++) s[q.a[1].v[r] - 1] = gmap(v, (double)(n - 1 - r));
        VRT_EMIT("{\"e\":\"Reset\",\"n\":%d}", n);
        emit_roc("base", n, q.a[0].v, s);
      }
      free(s);
    }
    else if(!strcmp(q.fam, "Reg")){
      VRT_EMIT("{\"e\":\"Reset\",\"n\":%d}", n);
      for(int x = 0; x < 3; x++) emit_reg(n, q.a[0].v, q.a[1].v, EXPS[x], 0);
      emit_reg(n, q.a[0].v, q.a[1].v, 0, 1048576); emit_reg(n, q.a[0].v, q.a[1].v, 0, 1073741824); emit_reg(n, q.a[0].v, q.a[1].v, 7, -33554432);
    }
    free_case(&q);
  }
  cur_i = -1; vrt_close(); fclose(f);
  return 0;
}

int main(int argc, char **argv){
  vrt_force_nproc(1);
  if(argc >= 5 && !strcmp(argv[1], "replay")) return do_replay(argv[2], argv[3], argv[4]);
  if(argc >= 6 && !strcmp(argv[1], "trace")) return do_trace(argv[2], atol(argv[3]), atoi(argv[4]), atoi(argv[5]));
  if(argc >= 4 && !strcmp(argv[1], "one")) return do_one(argv[2], argv[3]);
  fprintf(stderr, "usage: c15_replay replay cases out family | trace out seed blocks maxn | one cases out\n");
  return 2;
}
