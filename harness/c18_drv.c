/* c18_drv.c - conformance driver for C18 (model fitting terminates with finite leading components on degenerate data).
 * usage: c18_drv <cases.txt> <out.ndjson> <iter budget> <child timeout s> <max diverging cases per (site,kind)>
 *
 * One case per input line (all integers except the two names):
 *   id site kind scaling npc_req npc rank rlo noise cblk ex nr nc <nr*nc numerators> ny <nr*ny response numerators> nb <nb block widths>
 *   value of a cell = numerator / 2^ex (dyadic, exact in binary floating point)
 *   site: PCA | PLS | CPCA (NIPALS loops, hook H4)  |  MLRLOO | KMEANS | NM (run under the wall-clock watchdog only)
 * Every case runs in a forked child with the iteration hook H4 installed.  Events (one JSON object per line):
 *   Reset{id,site,kind,rank,rlo,npc,noise,cblk}      start of a case (exact rank etc. as computed by TLC, passed through)
 *   Start{site,pc,tcls}                              first pass of component pc: class of the start vector
 *   Iter{site,pc,it,a,b,conv}                        pass `it` of component pc: classes of t't (u'u), of the normaliser, of the convergence value
 *                                                     (passes 1..3 and the last pass of every component are logged)
 *   Null{site,pc}                                    component pc was returned without a single pass (null-component guard)
 *   Done{site,evals[],fin,ortho,recon,vsum,vgap,bvar} the fit returned: per component "pos"|"zero"|"nan", ledger residuals (1e-12 / 1e-9 units, -1 = not applicable)
 *   Diverge{site,pc,it}                              iteration budget exhausted (the child is terminated)
 *   Returned{site,n}                                 a counter-bounded routine returned (n = objective evaluations for NM, else 0)
 *   Hang{site} / Crash{site,rc}                      watchdog fired / child died
 */
#include "scientific.h"
#include "verif_rt.h"

#define MAXCELL 64
typedef struct {
  long id; char site[16]; char kind[32];
  int scaling, npc_req, npc, rank, rlo, noise, cblk, ex, nr, nc, ny, nb;
  long x[MAXCELL], y[MAXCELL]; int bw[8];
} kase;

static long budget = 1000000;
static double VAR_ZERO = 1e-9;      /* explained variance (percent) at or below this is "zero": rounding noise is ~1e-28 */

/* ---------- hook H4: own callback (LVCalc reports the pass index, not the latent variable, in `comp`) ---------- */
static const char *h_site = ""; static long h_pc = -1, h_it = 0, h_lv = -1;
static struct { int valid; long it; char a[8], b[8], c[8]; } pend;
static void flush_pending(void){
  if(pend.valid){ VRT_EMIT("{\"e\":\"Iter\",\"site\":\"%s\",\"pc\":%ld,\"it\":%ld,\"a\":\"%s\",\"b\":\"%s\",\"conv\":\"%s\"}", h_site, h_pc, pend.it, pend.a, pend.b, pend.c); pend.valid = 0; }
}
static void fill_gap(const char *site, long from, long to){   /* components from..to-1 were returned without a pass */
  for(long k = from; k < to; k++){
    VRT_EMIT("{\"e\":\"Start\",\"site\":\"%s\",\"pc\":%ld,\"tcls\":\"Zero\"}", site, k);
    VRT_EMIT("{\"e\":\"Null\",\"site\":\"%s\",\"pc\":%ld}", site, k);
  }
}
static void iter_cb(const char *site, size_t comp, double a, double b, double conv){
  const char *s = !strcmp(site, "LVCalc") ? "PLS" : site;
  long c;
  if(!strcmp(s, "PLS")){ if(comp == 0) h_lv++; c = h_lv; } else c = (long)comp;
  if(c != h_pc || strcmp(s, h_site)){
    flush_pending();
    fill_gap(s, h_pc + 1, c);
    h_site = s; h_pc = c; h_it = 0;
    const char *t;
    if(!strcmp(s, "PLS")) t = (vfinite(a) && a != 0 && vfinite(b) && b != 0) ? "Fin" : (a == 0) ? "Zero" : (vfinite(a) && !(b == b)) ? "XZero" : "NaN";
    else t = vcls(a);
    VRT_EMIT("{\"e\":\"Start\",\"site\":\"%s\",\"pc\":%ld,\"tcls\":\"%s\"}", s, c, t);
  }
  h_it++;
  if(h_it <= 3 || h_it >= budget){
    VRT_EMIT("{\"e\":\"Iter\",\"site\":\"%s\",\"pc\":%ld,\"it\":%ld,\"a\":\"%s\",\"b\":\"%s\",\"conv\":\"%s\"}", s, c, h_it, vcls(a), vcls(b), vcls(conv));
    pend.valid = 0;
  }
  else{ pend.valid = 1; pend.it = h_it; strcpy(pend.a, vcls(a)); strcpy(pend.b, vcls(b)); strcpy(pend.c, vcls(conv)); }
  if(h_it >= budget){
    VRT_EMIT("{\"e\":\"Diverge\",\"site\":\"%s\",\"pc\":%ld,\"it\":%ld}", s, c, h_it);
    fflush(NULL);
    _exit(97);
  }
}

static double cell(const kase *k, int i, int j){ return ldexp((double)k->x[i * k->nc + j], -k->ex); }
static double ycell(const kase *k, int i, int j){ return (double)k->y[i * k->ny + j]; }
static int allfinite_col(matrix *m, size_t c){ for(size_t i = 0; i < m->row; i++) if(!vfinite(m->data[i][c])) return 0; return 1; }
static int allfinite_m(matrix *m){ for(size_t i = 0; i < m->row; i++) for(size_t j = 0; j < m->col; j++) if(!vfinite(m->data[i][j])) return 0; return 1; }

static void emit_done(const char *site, int n, const char **cls, int fin, long ortho, long recon, long vsum, long vgap, const char *bvar){
  char buf[1024]; int p = 0;
  p += snprintf(buf + p, sizeof(buf) - p, "{\"e\":\"Done\",\"site\":\"%s\",\"evals\":[", site);
  for(int i = 0; i < n; i++) p += snprintf(buf + p, sizeof(buf) - p, "%s\"%s\"", i ? "," : "", cls[i]);
  p += snprintf(buf + p, sizeof(buf) - p, "],\"fin\":%d,\"ortho\":%ld,\"recon\":%ld,\"vsum\":%ld,\"vgap\":%ld,\"bvar\":\"%s\"}", fin, ortho, recon, vsum, vgap, bvar);
  VRT_EMIT("%s", buf);
}

/* residual of X_c - sum_{k<m} t_k p_k' relative to max(1, max|X_c|) */
static double recon_err(matrix *Xc, matrix *T, matrix *P, int m){
  double mx = 1.0, err = 0.0;
  for(size_t i = 0; i < Xc->row; i++) for(size_t j = 0; j < Xc->col; j++){
    double v = Xc->data[i][j]; if(fabs(v) > mx) mx = fabs(v);
    for(int k = 0; k < m; k++) v -= T->data[i][k] * P->data[j][k];
    if(!(fabs(v) <= err)) err = fabs(v);
  }
  return err / mx;
}
static void centre(const kase *k, dvector *avg, dvector *scal, matrix *Xc){
  for(int i = 0; i < k->nr; i++) for(int j = 0; j < k->nc; j++){
    double v = cell(k, i, j) - avg->data[j];
    if(scal && scal->size == (size_t)k->nc){ if(FLOAT_EQ(scal->data[j], 0, EPSILON)) v = 0; else v /= scal->data[j]; }
    Xc->data[i][j] = v;
  }
}

static int run_pca(const kase *k){
  matrix *X; NewMatrix(&X, k->nr, k->nc);
  for(int i = 0; i < k->nr; i++) for(int j = 0; j < k->nc; j++) X->data[i][j] = cell(k, i, j);
  PCAMODEL *m; NewPCAModel(&m);
  PCA(X, k->scaling, (size_t)k->npc_req, m, NULL);
  flush_pending();
  int n = (int)m->scores->col;
  fill_gap("PCA", h_pc + 1, n);
  const char *cls[16]; int fin = 1, npos = 0, prefix = 1;
  if((int)m->varexp->size != n || (int)m->loadings->col != n){ VRT_EMIT("{\"e\":\"Done\",\"site\":\"PCA\",\"evals\":[],\"fin\":0,\"ortho\":-1,\"recon\":-1,\"vsum\":-1,\"vgap\":-1,\"bvar\":\"shape\"}"); return 0; }
  double vs = 0;
  for(int c = 0; c < n && c < 16; c++){
    double ve = m->varexp->data[c];
    int f = vfinite(ve) && allfinite_col(m->scores, c) && allfinite_col(m->loadings, c) && allfinite_col(m->dmodx, c);
    if(!f){ cls[c] = "nan"; fin = 0; }
    else if(ve <= VAR_ZERO){ cls[c] = "zero"; }
    else{ cls[c] = "pos"; if(npos != c) prefix = 0; npos++; }
    if(f) vs += ve;
  }
  long ortho = -1, recon = -1, vsum = -1, vgap = -1;
  if(fin){
    double o = 0;
    for(int a = 0; a < npos && prefix; a++) for(int b = a; b < npos; b++){
      double d = 0; for(size_t j = 0; j < m->loadings->row; j++) d += m->loadings->data[j][a] * m->loadings->data[j][b];
      d = fabs(d - (a == b ? 1.0 : 0.0)); if(d > o) o = d;
    }
    ortho = vq12(o);
    vsum = vq9(vs > 100.0 ? (vs - 100.0) / 100.0 : 0.0);
    if(prefix && npos == k->rank && k->rank > 0){
      matrix *Xc; NewMatrix(&Xc, k->nr, k->nc); centre(k, m->colaverage, m->colscaling, Xc);
      recon = vq12(recon_err(Xc, m->scores, m->loadings, npos));
      vgap = vq9(fabs(vs - 100.0) / 100.0);
    }
  }
  emit_done("PCA", n, cls, fin, ortho, recon, vsum, vgap, "fin");
  return 0;
}

static int run_pls(const kase *k){
  matrix *X, *Y; NewMatrix(&X, k->nr, k->nc); NewMatrix(&Y, k->nr, k->ny);
  for(int i = 0; i < k->nr; i++){ for(int j = 0; j < k->nc; j++) X->data[i][j] = cell(k, i, j); for(int j = 0; j < k->ny; j++) Y->data[i][j] = ycell(k, i, j); }
  PLSMODEL *m; NewPLSModel(&m);
  PLS(X, Y, (size_t)k->npc_req, k->scaling, 0, m, NULL);
  flush_pending();
  int n = (int)m->xscores->col;
  fill_gap("PLS", h_pc + 1, n);
  const char *cls[16]; int fin = 1, npos = 0, prefix = 1;
  if((int)m->xvarexp->size != n || (int)m->b->size != n){ VRT_EMIT("{\"e\":\"Done\",\"site\":\"PLS\",\"evals\":[],\"fin\":0,\"ortho\":-1,\"recon\":-1,\"vsum\":-1,\"vgap\":-1,\"bvar\":\"shape\"}"); return 0; }
  double vs = 0;
  for(int c = 0; c < n && c < 16; c++){
    double ve = m->xvarexp->data[c];
    int f = vfinite(ve) && vfinite(m->b->data[c]) && allfinite_col(m->xscores, c) && allfinite_col(m->xloadings, c) && allfinite_col(m->xweights, c)
            && allfinite_col(m->yscores, c) && allfinite_col(m->yloadings, c);
    if(!f){ cls[c] = "nan"; fin = 0; }
    else if(ve <= VAR_ZERO){ cls[c] = "zero"; }
    else{ cls[c] = "pos"; if(npos != c) prefix = 0; npos++; }
    if(f) vs += ve;
  }
  if(!allfinite_m(m->recalculated_y) || !allfinite_m(m->recalc_residuals)) fin = 0;
  long ortho = -1, recon = -1, vsum = -1, vgap = -1;
  if(fin){
    double o = 0;   /* score orthogonality of the latent variables that exist mathematically (the first k->rank) */
    int ndef = k->rank < npos ? k->rank : npos;
    for(int a = 0; a < ndef && prefix; a++) for(int b = a + 1; b < ndef; b++){
      double d = 0, na = 0, nb = 0;
      for(size_t i = 0; i < m->xscores->row; i++){ d += m->xscores->data[i][a] * m->xscores->data[i][b]; na += m->xscores->data[i][a] * m->xscores->data[i][a]; nb += m->xscores->data[i][b] * m->xscores->data[i][b]; }
      d = fabs(d) / sqrt(na * nb); if(d > o) o = d;
    }
    ortho = vq12(o);
    vs = 0; for(int c = 0; c < ndef; c++) vs += m->xvarexp->data[c];   /* orthogonal scores: their variances add up to at most 100 % */
    vsum = vq9(vs > 100.0 ? (vs - 100.0) / 100.0 : 0.0);
  }
  emit_done("PLS", n, cls, fin, ortho, recon, vsum, vgap, "fin");
  return 0;
}

static int run_cpca(const kase *k){
  tensor *t; NewTensor(&t, k->nb);
  int c0 = 0;
  for(int b = 0; b < k->nb; b++){
    NewTensorMatrix(t, b, k->nr, k->bw[b]);
    for(int i = 0; i < k->nr; i++) for(int j = 0; j < k->bw[b]; j++) t->m[b]->data[i][j] = cell(k, i, c0 + j);
    c0 += k->bw[b];
  }
  CPCAMODEL *m; NewCPCAModel(&m);
  CPCA(t, k->scaling, (size_t)k->npc_req, m);
  flush_pending();
  int n = (int)m->super_scores->col;
  fill_gap("CPCA", h_pc + 1, n);
  const char *cls[16]; int fin = 1, npos = 0, prefix = 1; const char *bvar = "fin";
  if((int)m->total_expvar->size != n || (int)m->block_expvar->size != n || (int)m->block_scores->order != n){
    VRT_EMIT("{\"e\":\"Done\",\"site\":\"CPCA\",\"evals\":[],\"fin\":0,\"ortho\":-1,\"recon\":-1,\"vsum\":-1,\"vgap\":-1,\"bvar\":\"shape\"}"); return 0; }
  double vs = 0;
  for(int c = 0; c < n && c < 16; c++){
    double ve = m->total_expvar->data[c];
    int f = vfinite(ve) && allfinite_col(m->super_scores, c) && allfinite_col(m->super_weights, c) && allfinite_m(m->block_scores->m[c]);
    for(size_t b = 0; b < m->block_loadings->order; b++) f = f && allfinite_col(m->block_loadings->m[b], c);
    for(size_t b = 0; b < m->block_expvar->d[c]->size; b++){
      double bv = m->block_expvar->d[c]->data[b];
      if(!vfinite(bv)) bvar = "NaN"; else if(bv > 100.0 + 1e-6 || bv < -1e-6) bvar = "range";
    }
    if(!f){ cls[c] = "nan"; fin = 0; }
    else if(ve <= VAR_ZERO){ cls[c] = "zero"; }
    else{ cls[c] = "pos"; if(npos != c) prefix = 0; npos++; }
    if(f) vs += ve;
  }
  long ortho = -1, recon = -1, vsum = -1, vgap = -1;
  if(fin){
    double o = 0;   /* super weights of an extracted component have unit length */
    for(int a = 0; a < npos && prefix; a++){
      double d = 0; for(size_t j = 0; j < m->super_weights->row; j++) d += m->super_weights->data[j][a] * m->super_weights->data[j][a];
      d = fabs(d - 1.0); if(d > o) o = d;
    }
    ortho = vq12(o);
    vsum = vq9(vs > 100.0 ? (vs - 100.0) / 100.0 : 0.0);
    if(prefix && npos == k->rank && k->rank > 0) vgap = vq9(fabs(vs - 100.0) / 100.0);
  }
  emit_done("CPCA", n, cls, fin, ortho, recon, vsum, vgap, bvar);
  return 0;
}

/* ---- routines without a NIPALS hook: watchdog only ---- */
static int run_mlrloo(const kase *k){
  matrix *X, *Y, *py, *pr; NewMatrix(&X, k->nr, k->nc); NewMatrix(&Y, k->nr, k->ny);
  for(int i = 0; i < k->nr; i++){ for(int j = 0; j < k->nc; j++) X->data[i][j] = cell(k, i, j); for(int j = 0; j < k->ny; j++) Y->data[i][j] = ycell(k, i, j); }
  MLRMODEL *m; NewMLRModel(&m);
  MLR(X, Y, m, NULL);
  MODELINPUT in = initModelInput(); in.mx = X; in.my = Y; in.nlv = 0; in.xautoscaling = 0; in.yautoscaling = 0;
  initMatrix(&py); initMatrix(&pr);
  LeaveOneOut(&in, _MLR_, py, pr, 1, NULL, 0);
  VRT_EMIT("{\"e\":\"Returned\",\"site\":\"MLRLOO\",\"n\":0}");
  return 0;
}
static int run_kmeans(const kase *k){
  matrix *X; NewMatrix(&X, k->nr, k->nc);
  for(int i = 0; i < k->nr; i++) for(int j = 0; j < k->nc; j++) X->data[i][j] = cell(k, i, j);
  for(int init = 0; init <= 3; init++){
    uivector *lab; initUIVector(&lab);
    matrix *cen; initMatrix(&cen);
    srand_(12345 + (unsigned)k->id);
    KMeans(X, (size_t)k->npc_req, init, lab, cen, 1);
    if(lab->size != (size_t)k->nr){ VRT_EMIT("{\"e\":\"Returned\",\"site\":\"KMEANS\",\"n\":-1}"); return 0; }
    for(size_t i = 0; i < lab->size; i++) if(lab->data[i] >= (size_t)k->npc_req){ VRT_EMIT("{\"e\":\"Returned\",\"site\":\"KMEANS\",\"n\":-1}"); return 0; }
  }
  VRT_EMIT("{\"e\":\"Returned\",\"site\":\"KMEANS\",\"n\":0}");
  return 0;
}
static const kase *nm_case; static long nm_evals;
static double nm_obj(dvector *x){   /* |M x - y|^2 : a quadratic that is flat along the null space of a rank-deficient M */
  const kase *k = nm_case; double s = 0; nm_evals++;
  for(int i = 0; i < k->nr; i++){ double r = -(k->ny ? ycell(k, i, 0) : 1.0); for(int j = 0; j < k->nc; j++) r += cell(k, i, j) * x->data[j]; s += r * r; }
  return s;
}
static int run_nm(const kase *k){
  dvector *x0, *best; NewDVector(&x0, k->nc); initDVector(&best);
  nm_case = k; nm_evals = 0;
  size_t iter = (size_t)k->npc_req;
  double res = NelderMeadSimplex(nm_obj, x0, NULL, 1e-10, iter, best);
  long cap = (k->nc + 1) + (long)iter * (k->nc + 3);
  (void)res;
  VRT_EMIT("{\"e\":\"Returned\",\"site\":\"NM\",\"n\":%ld,\"cap\":%ld}", nm_evals, cap);
  return 0;
}

static int child(void *arg){
  const kase *k = (const kase *)arg;
  vrt_force_nproc(1);
  libsci_verif_iter = iter_cb; h_site = ""; h_pc = -1; h_it = 0; h_lv = -1; pend.valid = 0;
  if(!strcmp(k->site, "PCA")) return run_pca(k);
  if(!strcmp(k->site, "PLS")) return run_pls(k);
  if(!strcmp(k->site, "CPCA")) return run_cpca(k);
  if(!strcmp(k->site, "MLRLOO")) return run_mlrloo(k);
  if(!strcmp(k->site, "KMEANS")) return run_kmeans(k);
  if(!strcmp(k->site, "NM")) return run_nm(k);
  return 3;
}

int main(int argc, char **argv){
  if(argc < 6){ fprintf(stderr, "usage: c18_drv cases out budget timeout maxdiv\n"); return 2; }
  FILE *in = fopen(argv[1], "r"); if(!in){ perror(argv[1]); return 2; }
  vrt_open(argv[2]);
  budget = atol(argv[3]); int tmo = atoi(argv[4]); int maxdiv = atoi(argv[5]);
  struct { char key[64]; int n; } div[64]; int ndiv = 0;
  long ncases = 0, nrun = 0, nskip = 0, ndiverged = 0;
  static kase k;
  while(fscanf(in, "%ld %15s %31s %d %d %d %d %d %d %d %d %d %d", &k.id, k.site, k.kind, &k.scaling, &k.npc_req, &k.npc, &k.rank, &k.rlo, &k.noise, &k.cblk, &k.ex, &k.nr, &k.nc) == 13){
    if(k.nr * k.nc > MAXCELL){ fprintf(stderr, "case too large\n"); return 2; }
    for(int i = 0; i < k.nr * k.nc; i++) if(fscanf(in, "%ld", &k.x[i]) != 1) return 2;
    if(fscanf(in, "%d", &k.ny) != 1 || k.nr * k.ny > MAXCELL) return 2;
    for(int i = 0; i < k.nr * k.ny; i++) if(fscanf(in, "%ld", &k.y[i]) != 1) return 2;
    if(fscanf(in, "%d", &k.nb) != 1 || k.nb > 8) return 2;
    for(int i = 0; i < k.nb; i++) if(fscanf(in, "%d", &k.bw[i]) != 1) return 2;
    ncases++;
    char key[64]; snprintf(key, sizeof key, "%s:%s", k.site, k.kind);
    int di = -1; for(int i = 0; i < ndiv; i++) if(!strcmp(div[i].key, key)) di = i;
    if(di >= 0 && div[di].n >= maxdiv){ nskip++; continue; }
    VRT_EMIT("{\"e\":\"Reset\",\"id\":%ld,\"site\":\"%s\",\"kind\":\"%s\",\"rank\":%d,\"rlo\":%d,\"npc\":%d,\"noise\":%d,\"cblk\":%d}", k.id, k.site, k.kind, k.rank, k.rlo, k.npc, k.noise, k.cblk);
    int rc = vrt_run_child(child, &k, tmo);
    nrun++;
    if(rc == 124) VRT_EMIT("{\"e\":\"Hang\",\"site\":\"%s\"}", k.site);
    else if(rc != 0 && rc != 97) VRT_EMIT("{\"e\":\"Crash\",\"site\":\"%s\",\"rc\":%d}", k.site, rc);
    if(rc == 97 || rc == 124){
      ndiverged++;
      if(di < 0 && ndiv < 64){ di = ndiv++; strcpy(div[di].key, key); div[di].n = 0; }
      if(di >= 0) div[di].n++;
    }
  }
  vrt_close();
  printf("SUMMARY cases=%ld run=%ld skipped=%ld diverged=%ld\n", ncases, nrun, nskip, ndiverged);
  return 0;
}
