/* c18_drv.c - conformance driver for C18 (model fitting terminates with finite leading components on degenerate data).
 * usage: c18_drv <cases.txt> <out.ndjson> <iter budget> <child timeout s> <max diverging cases per (site,kind)>
 *
 * One case per input line (all integers except the two names):
 *   id site kind scaling npc_req npc rank rlo noise cblk ex nr nc <nr*nc numerators> ny <nr*ny response numerators> nb <nb block widths>
 *      nproc den sc offl yex yden yoffl hist pred
 *   value of a cell = numerator / den / 2^ex + 2^offl * (1 + column mod 3)   (den = 1: dyadic, exact in binary floating point; den in
 *      {3, 10, 1000}: the nearest double of a non-representable constant, class K5; offl = 0: no offset; ex may be negative = scale up;
 *      sc = the part of ex that is a whole-input scale, class K4: residuals are taken relative to max(2^-sc, max|X_c|))
 *   response cell = numerator / yden / 2^yex + (yoffl ? 2^yoffl : 0)
 *   nproc = processor count forced through hook H2 (and passed as `nthreads` to KMeans / LeaveOneOut), class K6
 *   hist  = 1: two other fits of the same routine (other data of the same shape, then another shape) run first IN THE SAME PROCESS, class K7;
 *           `hdev` of the Done line = number of output doubles that differ (bitwise) from the same fit made by a fresh process (grandchild)
 *   site: PCA | PLS | CPCA (NIPALS loops, hook H4)  |  MLRLOO | KMEANS | NM (run under the wall-clock watchdog only)
 * Every case runs in a forked child with the iteration hook H4 installed.  Events (one JSON object per line):
 *   Reset{id,site,kind,rank,rlo,npc,noise,cblk,nproc,offl,sc,den,hist,nr,nc}   start of a case (exact rank etc. as computed by TLC, passed through)
 *   Start{site,pc,tcls}                              first pass of component pc: class of the start vector
 *   Iter{site,pc,it,a,b,conv,cq[3],cqp[3]}           pass `it` of component pc: classes of t't (u'u), of the normaliser, of the convergence value; cq / cqp =
 *                                                     3-limb codes (vcode3) of the convergence value of this pass and of the pass before it
 *                                                     (passes 1..3 and the last pass of every component are logged)
 *   Null{site,pc}                                    component pc was returned without a single pass (null-component guard)
 *   Done{site,evals[],vx[],nf[],fin,ortho,recon,vsum,vgap,bvar} the fit returned: per component explained variance vx (1e-12 percent units, saturating) and
 *                                                     non-finite flag nf - TLC classifies them ("pos"|"zero"|"nan") with the threshold of the spec; `evals` is the
 *                                                     harness's own reading (fixed 1e-9 %) used for routing only; ledger residuals over the components up to the exact
 *                                                     rank (1e-12 / 1e-9 units, -1 = not applicable)
 *   Diverge{site,pc,it}                              iteration budget exhausted (the child is terminated)
 *   Returned{site,n,nc,iter}                         a counter-bounded routine returned (NM: n = objective evaluations, nc = dimension, iter = iteration cap passed;
 *                                                     KMEANS: n = largest number of Lloyd iterations of the four initialisers seen through hook H6; MLRLOO: n = 0)
 *   Hang{site} / Crash{site,rc}                      watchdog fired / child died
 *   Warm{site,n,passes}                              hist = 1: the n warm-up fits made `passes` NIPALS passes (counted against the budget, not logged)
 *   Done also carries  bgap (CPCA: |cumulative block variance after the last defined component - 100 %| over the non-constant blocks, resp. |..| of a
 *                      constant block, 1e-9 units)  and  hdev (hist = 1: output doubles differing from the fresh-process fit, else -1)
 *   pred = 1 (outside the statement of C18): after Done the score predictor of the site is applied to the training data:
 *   PredStart{site}                                  everything after this line is judged apart (EXTRA-FINDING only)
 *   Pred{site,shape,nfw,nfb,dev}                     predicted scores: shape agrees, non-finite entries within / beyond the defined components, largest deviation
 *                                                     from the model's own scores over the defined components (1e-12 units, relative to max(2^-sc, max|score|))
 */
#include "scientific.h"
#include "verif_rt.h"
#include <time.h>

#define MAXCELL 1024
#define MAXPC 16
typedef struct {
  long id; char site[16]; char kind[32];
  int scaling, npc_req, npc, rank, rlo, noise, cblk, ex, nr, nc, ny, nb;
  int nproc, den, sc, offl, yex, yden, yoffl, hist, pred;
  long x[MAXCELL], y[MAXCELL]; int bw[8];
} kase;

static long budget = 1000000;
static double VAR_ZERO = 1e-9;      /* routing only (field `evals`): the verdict on a component's variance is TLC's (VarZeroQ in TraceNipals.tla, from `vx`) */

/* ---------- hook H4: own callback (LVCalc reports the pass index, not the latent variable, in `comp`) ---------- */
static const char *h_site = ""; static long h_pc = -1, h_it = 0, h_lv = -1;
static int h_mute = 0; static long h_mute_it = 0;      /* warm-up fits of an in-process history: counted against the budget, not logged */
static struct { int valid; long it; char a[8], b[8], c[8]; long cq[3], cqp[3]; } pend;
static double h_conv = 0.0;         /* convergence value of the previous pass of the current component */
/* every Iter line carries the convergence value of the pass (cq) and of the pass before it (cqp) as order-preserving 3-limb codes of the doubles */
static void emit_iter(const char *site, long pc, long it, const char *a, const char *b, const char *c, const long *cq, const long *cqp){
  VRT_EMIT("{\"e\":\"Iter\",\"site\":\"%s\",\"pc\":%ld,\"it\":%ld,\"a\":\"%s\",\"b\":\"%s\",\"conv\":\"%s\",\"cq\":[%ld,%ld,%ld],\"cqp\":[%ld,%ld,%ld]}",
           site, pc, it, a, b, c, cq[0], cq[1], cq[2], cqp[0], cqp[1], cqp[2]);
}
static void flush_pending(void){
  if(pend.valid){ emit_iter(h_site, h_pc, pend.it, pend.a, pend.b, pend.c, pend.cq, pend.cqp); pend.valid = 0; }
}
static void fill_gap(const char *site, long from, long to){   /* components from..to-1 were returned without a pass */
  for(long k = from; k < to; k++){
    VRT_EMIT("{\"e\":\"Start\",\"site\":\"%s\",\"pc\":%ld,\"tcls\":\"Zero\"}", site, k);
    VRT_EMIT("{\"e\":\"Null\",\"site\":\"%s\",\"pc\":%ld}", site, k);
  }
}
static void iter_cb(const char *site, size_t comp, double a, double b, double conv){
  const char *s = !strcmp(site, "LVCalc") ? "PLS" : site;
  long c;
  if(h_mute){
    if(++h_mute_it >= budget){
      VRT_EMIT("{\"e\":\"Diverge\",\"site\":\"%s\",\"pc\":-1,\"it\":%ld}", s, h_mute_it);
      fflush(NULL);
      _exit(97);
    }
    return;
  }
  if(!strcmp(s, "PLS")){ if(comp == 0) h_lv++; c = h_lv; } else c = (long)comp;
  if(c != h_pc || strcmp(s, h_site)){
    flush_pending();
    fill_gap(s, h_pc + 1, c);
    h_site = s; h_pc = c; h_it = 0;
    const char *t;
    if(!strcmp(s, "PLS")) t = (vfinite(a) && a != 0 && vfinite(b) && b != 0) ? "Fin" : (a == 0) ? "Zero" : (vfinite(a) && !(b == b)) ? "XZero" : "NaN";
    else t = vcls(a);
    VRT_EMIT("{\"e\":\"Start\",\"site\":\"%s\",\"pc\":%ld,\"tcls\":\"%s\"}", s, c, t);
  }
  h_it++;
  long cq[3], cqp[3]; vcode3(conv, cq); vcode3(h_it == 1 ? conv : h_conv, cqp); h_conv = conv;
  if(h_it <= 3 || h_it >= budget){
    emit_iter(s, c, h_it, vcls(a), vcls(b), vcls(conv), cq, cqp);
    pend.valid = 0;
  }
  else{ pend.valid = 1; pend.it = h_it; strcpy(pend.a, vcls(a)); strcpy(pend.b, vcls(b)); strcpy(pend.c, vcls(conv)); memcpy(pend.cq, cq, sizeof cq); memcpy(pend.cqp, cqp, sizeof cqp); }
  if(h_it >= budget){
    VRT_EMIT("{\"e\":\"Diverge\",\"site\":\"%s\",\"pc\":%ld,\"it\":%ld}", s, c, h_it);
    fflush(NULL);
    _exit(97);
  }
}
/* ---------- hook H6: number of Lloyd iterations of KMeans() ---------- */
static long km_maxit = 0;
static void km_state(const char *site, size_t step, const void *a, const void *b, const void *c){
  (void)a; (void)b; (void)c;
  if(!strcmp(site, "KMeans") && (long)step > km_maxit) km_maxit = (long)step;
}

/* ---------- K7: the outputs of a fit as one flat array, to compare a fit made after other fits with the same fit made by a fresh process ---------- */
static double *snap = NULL; static size_t nsnap = 0, capsnap = 0;
static double *ref = NULL; static long nref = -1;          /* reference from the fresh grandchild; nref = -1: none */
static void snap_push(double v){ if(nsnap == capsnap){ capsnap = capsnap ? 2 * capsnap : 4096; snap = realloc(snap, capsnap * sizeof(double)); if(!snap) _exit(3); } snap[nsnap++] = v; }
static void snap_m(matrix *m){ snap_push((double)m->row); snap_push((double)m->col); for(size_t i = 0; i < m->row; i++) for(size_t j = 0; j < m->col; j++) snap_push(m->data[i][j]); }
static void snap_v(dvector *v){ snap_push((double)v->size); for(size_t i = 0; i < v->size; i++) snap_push(v->data[i]); }
static long snap_diff(void){      /* number of doubles whose bit patterns differ from the reference; -1: no reference asked for; -2: reference missing */
  if(nref == -1) return -1;
  if(nref < 0) return -2;
  long d = (long)nsnap > nref ? (long)nsnap - nref : nref - (long)nsnap;
  size_t n = (long)nsnap < nref ? nsnap : (size_t)nref;
  for(size_t i = 0; i < n; i++) if(memcmp(&snap[i], &ref[i], sizeof(double))) d++;
  return d;
}

static double cell(const kase *k, int i, int j){
  double v = (double)k->x[i * k->nc + j];
  if(k->den > 1) v /= (double)k->den;                 /* correctly rounded quotient of two small integers: the nearest double of num/den */
  v = ldexp(v, -k->ex);
  if(k->offl > 0) v += ldexp(1.0, k->offl) * (double)(1 + j % 3);   /* exact: |cell| < 2^21, offset <= 3 * 2^36 */
  return v;
}
static double ycell(const kase *k, int i, int j){
  double v = (double)k->y[i * k->ny + j];
  if(k->yden > 1) v /= (double)k->yden;
  v = ldexp(v, -k->yex);
  if(k->yoffl > 0) v += ldexp(1.0, k->yoffl);
  return v;
}
static int allfinite_col(matrix *m, size_t c){ for(size_t i = 0; i < m->row; i++) if(!vfinite(m->data[i][c])) return 0; return 1; }
static int allfinite_m(matrix *m){ for(size_t i = 0; i < m->row; i++) for(size_t j = 0; j < m->col; j++) if(!vfinite(m->data[i][j])) return 0; return 1; }

static long d_bgap = -1;      /* CPCA: |cumulative block variance after the last defined component - 100 %| over the non-constant blocks (1e-9 units) */
static void emit_done(const char *site, int n, const char **cls, const long *vx, const int *nf, int fin, long ortho, long recon, long vsum, long vgap, const char *bvar){
  char buf[2048]; int p = 0;
  p += snprintf(buf + p, sizeof(buf) - p, "{\"e\":\"Done\",\"site\":\"%s\",\"evals\":[", site);
  for(int i = 0; i < n; i++) p += snprintf(buf + p, sizeof(buf) - p, "%s\"%s\"", i ? "," : "", cls[i]);
  p += snprintf(buf + p, sizeof(buf) - p, "],\"vx\":[");
  for(int i = 0; i < n; i++) p += snprintf(buf + p, sizeof(buf) - p, "%s%ld", i ? "," : "", vx[i]);
  p += snprintf(buf + p, sizeof(buf) - p, "],\"nf\":[");
  for(int i = 0; i < n; i++) p += snprintf(buf + p, sizeof(buf) - p, "%s%d", i ? "," : "", nf[i]);
  p += snprintf(buf + p, sizeof(buf) - p, "],\"fin\":%d,\"ortho\":%ld,\"recon\":%ld,\"vsum\":%ld,\"vgap\":%ld,\"bgap\":%ld,\"hdev\":%ld,\"bvar\":\"%s\"}", fin, ortho, recon, vsum, vgap, d_bgap, snap_diff(), bvar);
  VRT_EMIT("%s", buf);
}
static void emit_shape(const char *site){
  VRT_EMIT("{\"e\":\"Done\",\"site\":\"%s\",\"evals\":[],\"vx\":[],\"nf\":[],\"fin\":0,\"ortho\":-1,\"recon\":-1,\"vsum\":-1,\"vgap\":-1,\"bgap\":-1,\"hdev\":-1,\"bvar\":\"shape\"}", site);
}
/* classification of one returned component: vx / nf go to TLC, cls is the harness's own reading (routing) */
static void classify(double ve, int finite, int c, const char **cls, long *vx, int *nf){
  nf[c] = finite ? 0 : 1;
  vx[c] = finite ? vq_unit(ve, 1e-12) : VQ_MAX;
  cls[c] = !finite ? "nan" : (ve <= VAR_ZERO ? "zero" : "pos");
}

/* residual of X_c - sum_{k<m} t_k p_k' relative to max(2^-sc, max|X_c|) */
static double recon_err(const kase *kc, matrix *Xc, matrix *T, matrix *P, int m){
  double mx = ldexp(1.0, -kc->sc), err = 0.0;
  for(size_t i = 0; i < Xc->row; i++) for(size_t j = 0; j < Xc->col; j++){
    double v = Xc->data[i][j]; if(fabs(v) > mx) mx = fabs(v);
    for(int k = 0; k < m; k++) v -= T->data[i][k] * P->data[j][k];
    if(!(fabs(v) <= err)) err = fabs(v);
  }
  return err / mx;
}
static void centre(const kase *k, dvector *avg, dvector *scal, matrix *Xc){
  for(int i = 0; i < k->nr; i++) for(int j = 0; j < k->nc; j++){
    double v = cell(k, i, j) - avg->data[j];
    if(scal && scal->size == (size_t)k->nc){ if(FLOAT_EQ(scal->data[j], 0, EPSILON)) v = 0; else v /= scal->data[j]; }
    Xc->data[i][j] = v;
  }
}

/* ---- outside the statement of C18 (reported as EXTRA-FINDING, never a verdict): the score predictors applied to the training data.
 * PredStart marks where the in-statement part of the block ends: whatever follows (Pred, or the Crash / Hang of the child) is judged apart. */
static int want_pred = 0;
static void emit_pred(const kase *k, const char *site, matrix *ps, matrix *sc, int ndef){
  long nfw = 0, nfb = 0; double dev = 0, mx = ldexp(1.0, -k->sc);
  int shape = (ps->row == sc->row && ps->col == sc->col);
  if(shape){
    for(size_t c = 0; c < sc->col && (int)c < ndef; c++) for(size_t i = 0; i < sc->row; i++) if(vfinite(sc->data[i][c]) && fabs(sc->data[i][c]) > mx) mx = fabs(sc->data[i][c]);
    for(size_t c = 0; c < ps->col; c++) for(size_t i = 0; i < ps->row; i++){
      double v = ps->data[i][c];
      if(!vfinite(v)){ if((int)c < ndef) nfw++; else nfb++; }
      else if((int)c < ndef){ double d = fabs(v - sc->data[i][c]); if(!(d <= dev)) dev = d; }
    }
  }
  VRT_EMIT("{\"e\":\"Pred\",\"site\":\"%s\",\"shape\":%d,\"nfw\":%ld,\"nfb\":%ld,\"dev\":%ld}", site, shape, nfw, nfb, vq12(dev / mx));
}

static int run_pca(const kase *k, int mute){
  matrix *X; NewMatrix(&X, k->nr, k->nc);
  for(int i = 0; i < k->nr; i++) for(int j = 0; j < k->nc; j++) X->data[i][j] = cell(k, i, j);
  PCAMODEL *m; NewPCAModel(&m);
  PCA(X, k->scaling, (size_t)k->npc_req, m, NULL);
  if(mute == 1){ DelPCAModel(&m); DelMatrix(&X); return 0; }
  nsnap = 0; snap_m(m->scores); snap_m(m->loadings); snap_m(m->dmodx); snap_v(m->varexp); snap_v(m->colaverage); snap_v(m->colscaling);
  if(mute == 2) return 0;
  flush_pending();
  int n = (int)m->scores->col;
  fill_gap("PCA", h_pc + 1, n);
  const char *cls[MAXPC]; long vx[MAXPC]; int nf[MAXPC]; int fin = 1;
  if((int)m->varexp->size != n || (int)m->loadings->col != n || n > MAXPC){ emit_shape("PCA"); return 0; }
  double vs = 0;
  for(int c = 0; c < n; c++){
    double ve = m->varexp->data[c];
    int f = vfinite(ve) && allfinite_col(m->scores, c) && allfinite_col(m->loadings, c) && allfinite_col(m->dmodx, c);
    classify(ve, f, c, cls, vx, nf);
    if(!f) fin = 0; else vs += ve;
  }
  long ortho = -1, recon = -1, vsum = -1, vgap = -1;
  if(fin){
    /* identities of the regular case on the components that exist mathematically: the first k->rank (exact rank from TLC) */
    int nd = k->rank < n ? k->rank : n;
    double o = 0;
    for(int a = 0; a < nd; a++) for(int b = a; b < nd; b++){
      double d = 0; for(size_t j = 0; j < m->loadings->row; j++) d += m->loadings->data[j][a] * m->loadings->data[j][b];
      d = fabs(d - (a == b ? 1.0 : 0.0)); if(!(d <= o)) o = d;
    }
    ortho = vq12(o);
    vsum = vq9(vs > 100.0 ? (vs - 100.0) / 100.0 : 0.0);
    if(n >= k->rank && k->rank > 0){
      matrix *Xc; NewMatrix(&Xc, k->nr, k->nc); centre(k, m->colaverage, m->colscaling, Xc);
      recon = vq12(recon_err(k, Xc, m->scores, m->loadings, k->rank));
      vgap = vq9(fabs(vs - 100.0) / 100.0);
    }
  }
  emit_done("PCA", n, cls, vx, nf, fin, ortho, recon, vsum, vgap, "fin");
  if(want_pred && fin && n > 0){
    VRT_EMIT("{\"e\":\"PredStart\",\"site\":\"PCA\"}");
    matrix *ps; initMatrix(&ps);
    PCAScorePredictor(X, m, (size_t)n, ps);
    emit_pred(k, "PCA", ps, m->scores, k->rank < n ? k->rank : n);
  }
  return 0;
}

static int run_pls(const kase *k, int mute){
  matrix *X, *Y; NewMatrix(&X, k->nr, k->nc); NewMatrix(&Y, k->nr, k->ny);
  for(int i = 0; i < k->nr; i++){ for(int j = 0; j < k->nc; j++) X->data[i][j] = cell(k, i, j); for(int j = 0; j < k->ny; j++) Y->data[i][j] = ycell(k, i, j); }
  PLSMODEL *m; NewPLSModel(&m);
  PLS(X, Y, (size_t)k->npc_req, k->scaling, 0, m, NULL);
  if(mute == 1){ DelPLSModel(&m); DelMatrix(&X); DelMatrix(&Y); return 0; }
  nsnap = 0; snap_m(m->xscores); snap_m(m->xloadings); snap_m(m->xweights); snap_m(m->yscores); snap_m(m->yloadings); snap_v(m->b); snap_v(m->xvarexp);
  snap_m(m->recalculated_y); snap_m(m->recalc_residuals);
  if(mute == 2) return 0;
  flush_pending();
  int n = (int)m->xscores->col;
  fill_gap("PLS", h_pc + 1, n);
  const char *cls[MAXPC]; long vx[MAXPC]; int nf[MAXPC]; int fin = 1;
  if((int)m->xvarexp->size != n || (int)m->b->size != n || n > MAXPC){ emit_shape("PLS"); return 0; }
  for(int c = 0; c < n; c++){
    double ve = m->xvarexp->data[c];
    int f = vfinite(ve) && vfinite(m->b->data[c]) && allfinite_col(m->xscores, c) && allfinite_col(m->xloadings, c) && allfinite_col(m->xweights, c)
            && allfinite_col(m->yscores, c) && allfinite_col(m->yloadings, c);
    classify(ve, f, c, cls, vx, nf);
    if(!f) fin = 0;
  }
  if(!allfinite_m(m->recalculated_y) || !allfinite_m(m->recalc_residuals)) fin = 0;
  long ortho = -1, recon = -1, vsum = -1, vgap = -1;
  if(fin){
    double o = 0;   /* score orthogonality of the latent variables that exist mathematically (the first k->rlo: exact count resp. lower bound from TLC) */
    int ndef = k->rlo < n ? k->rlo : n;
    for(int a = 0; a < ndef; a++) for(int b = a + 1; b < ndef; b++){
      double d = 0, na = 0, nb = 0;
      for(size_t i = 0; i < m->xscores->row; i++){ d += m->xscores->data[i][a] * m->xscores->data[i][b]; na += m->xscores->data[i][a] * m->xscores->data[i][a]; nb += m->xscores->data[i][b] * m->xscores->data[i][b]; }
      d = fabs(d) / sqrt(na * nb); if(!(d <= o)) o = d;
    }
    ortho = vq12(o);
    double vs = 0; for(int c = 0; c < ndef; c++) vs += m->xvarexp->data[c];   /* orthogonal scores: their variances add up to at most 100 % */
    vsum = vq9(vs > 100.0 ? (vs - 100.0) / 100.0 : 0.0);
  }
  emit_done("PLS", n, cls, vx, nf, fin, ortho, recon, vsum, vgap, "fin");
  if(want_pred && fin && n > 0){
    VRT_EMIT("{\"e\":\"PredStart\",\"site\":\"PLS\"}");
    matrix *ps; initMatrix(&ps);
    PLSScorePredictor(X, m, (size_t)n, ps);
    emit_pred(k, "PLS", ps, m->xscores, k->rlo < n ? k->rlo : n);
  }
  return 0;
}

static int run_cpca(const kase *k, int mute){
  tensor *t; NewTensor(&t, k->nb);
  int c0 = 0;
  for(int b = 0; b < k->nb; b++){
    NewTensorMatrix(t, b, k->nr, k->bw[b]);
    for(int i = 0; i < k->nr; i++) for(int j = 0; j < k->bw[b]; j++) t->m[b]->data[i][j] = cell(k, i, c0 + j);
    c0 += k->bw[b];
  }
  CPCAMODEL *m; NewCPCAModel(&m);
  CPCA(t, k->scaling, (size_t)k->npc_req, m);
  if(mute == 1){ DelCPCAModel(&m); DelTensor(&t); return 0; }
  nsnap = 0; snap_m(m->super_scores); snap_m(m->super_weights); snap_v(m->total_expvar);
  for(size_t b = 0; b < m->block_scores->order; b++) snap_m(m->block_scores->m[b]);
  for(size_t b = 0; b < m->block_loadings->order; b++) snap_m(m->block_loadings->m[b]);
  for(size_t b = 0; b < m->block_expvar->size; b++) snap_v(m->block_expvar->d[b]);
  if(mute == 2) return 0;
  flush_pending();
  int n = (int)m->super_scores->col;
  fill_gap("CPCA", h_pc + 1, n);
  const char *cls[MAXPC]; long vx[MAXPC]; int nf[MAXPC]; int fin = 1; const char *bvar = "fin";
  if((int)m->total_expvar->size != n || (int)m->block_expvar->size != n || (int)m->block_scores->order != n || n > MAXPC){ emit_shape("CPCA"); return 0; }
  double vs = 0;
  for(int c = 0; c < n; c++){
    double ve = m->total_expvar->data[c];
    int f = vfinite(ve) && allfinite_col(m->super_scores, c) && allfinite_col(m->super_weights, c) && allfinite_m(m->block_scores->m[c]);
    for(size_t b = 0; b < m->block_loadings->order; b++) f = f && allfinite_col(m->block_loadings->m[b], c);
    for(size_t b = 0; b < m->block_expvar->d[c]->size; b++){
      double bv = m->block_expvar->d[c]->data[b];
      if(!vfinite(bv)) bvar = "NaN"; else if(bv > 100.0 + 1e-6 || bv < -1e-6) bvar = "range";
    }
    classify(ve, f, c, cls, vx, nf);
    if(!f) fin = 0; else vs += ve;
  }
  long ortho = -1, recon = -1, vsum = -1, vgap = -1;
  if(fin){
    double o = 0;   /* super weights of a component that exists mathematically have unit length */
    int nd = k->rank < n ? k->rank : n;
    for(int a = 0; a < nd; a++){
      double d = 0; for(size_t j = 0; j < m->super_weights->row; j++) d += m->super_weights->data[j][a] * m->super_weights->data[j][a];
      d = fabs(d - 1.0); if(!(d <= o)) o = d;
    }
    ortho = vq12(o);
    vsum = vq9(vs > 100.0 ? (vs - 100.0) / 100.0 : 0.0);
    if(n >= k->rank && k->rank > 0){
      vgap = vq9(fabs(vs - 100.0) / 100.0);
      /* once every defined component is out, each block that is not constant is explained completely (its residual is rounding residue) */
      double g = 0; int c0b = 0;
      for(int b = 0; b < k->nb; b++){
        int cst = 1;
        for(int j = 0; j < k->bw[b] && cst; j++) for(int i = 1; i < k->nr; i++) if(cell(k, i, c0b + j) != cell(k, 0, c0b + j)){ cst = 0; break; }
        double bv = m->block_expvar->d[k->rank - 1]->data[b];
        double d = cst ? fabs(bv) / 100.0 : fabs(bv - 100.0) / 100.0;
        if(!(d <= g)) g = d;
        c0b += k->bw[b];
      }
      d_bgap = vq9(g);
    }
  }
  emit_done("CPCA", n, cls, vx, nf, fin, ortho, recon, vsum, vgap, bvar);
  if(want_pred && fin && n > 0){
    VRT_EMIT("{\"e\":\"PredStart\",\"site\":\"CPCA\"}");
    matrix *ps; initMatrix(&ps); tensor *pbs; initTensor(&pbs);
    CPCAScorePredictor(t, m, (size_t)n, ps, pbs);
    emit_pred(k, "CPCA", ps, m->super_scores, k->rank < n ? k->rank : n);
  }
  return 0;
}

/* ---- routines without a NIPALS hook: watchdog (+ hook H6 for k-means) ---- */
static int run_mlrloo(const kase *k){
  matrix *X, *Y, *py, *pr; NewMatrix(&X, k->nr, k->nc); NewMatrix(&Y, k->nr, k->ny);
  for(int i = 0; i < k->nr; i++){ for(int j = 0; j < k->nc; j++) X->data[i][j] = cell(k, i, j); for(int j = 0; j < k->ny; j++) Y->data[i][j] = ycell(k, i, j); }
  MLRMODEL *m; NewMLRModel(&m);
  MLR(X, Y, m, NULL);
  MODELINPUT in = initModelInput(); in.mx = X; in.my = Y; in.nlv = 0; in.xautoscaling = 0; in.yautoscaling = 0;
  initMatrix(&py); initMatrix(&pr);
  LeaveOneOut(&in, _MLR_, py, pr, (size_t)k->nproc, NULL, 0);
  VRT_EMIT("{\"e\":\"Returned\",\"site\":\"MLRLOO\",\"n\":%d,\"nc\":%d,\"iter\":0}", (py->row == (size_t)k->nr) ? 0 : -1, k->nc);
  return 0;
}
static int run_kmeans(const kase *k){
  matrix *X; NewMatrix(&X, k->nr, k->nc);
  for(int i = 0; i < k->nr; i++) for(int j = 0; j < k->nc; j++) X->data[i][j] = cell(k, i, j);
  libsci_verif_state = km_state; km_maxit = 0;
  for(int init = 0; init <= 3; init++){
    uivector *lab; initUIVector(&lab);
    matrix *cen; initMatrix(&cen);
    srand_(12345 + (unsigned)k->id);
    KMeans(X, (size_t)k->npc_req, init, lab, cen, (size_t)k->nproc);
    if(lab->size != (size_t)k->nr){ VRT_EMIT("{\"e\":\"Returned\",\"site\":\"KMEANS\",\"n\":-1,\"nc\":%d,\"iter\":0}", k->nc); return 0; }
    for(size_t i = 0; i < lab->size; i++) if(lab->data[i] >= (size_t)k->npc_req){ VRT_EMIT("{\"e\":\"Returned\",\"site\":\"KMEANS\",\"n\":-1,\"nc\":%d,\"iter\":0}", k->nc); return 0; }
  }
  VRT_EMIT("{\"e\":\"Returned\",\"site\":\"KMEANS\",\"n\":%ld,\"nc\":%d,\"iter\":0}", km_maxit, k->nc);
  return 0;
}
static const kase *nm_case; static long nm_evals;
static double nm_obj(dvector *x){   /* |M x - y|^2 : a quadratic that is flat along the null space of a rank-deficient M */
  const kase *k = nm_case; double s = 0; nm_evals++;
  for(int i = 0; i < k->nr; i++){ double r = -(k->ny ? ycell(k, i, 0) : 1.0); for(int j = 0; j < k->nc; j++) r += cell(k, i, j) * x->data[j]; s += r * r; }
  return s;
}
static int run_nm(const kase *k){
  dvector *x0, *best; NewDVector(&x0, k->nc); initDVector(&best);
  nm_case = k; nm_evals = 0;
  size_t iter = (size_t)k->npc_req;
  double res = NelderMeadSimplex(nm_obj, x0, NULL, 1e-10, iter, best);
  (void)res;
  VRT_EMIT("{\"e\":\"Returned\",\"site\":\"NM\",\"n\":%ld,\"nc\":%d,\"iter\":%ld}", nm_evals, k->nc, (long)iter);
  return 0;
}

/* K7: the same routine on other data of the same shape, then on another shape, in this very process, before the case itself */
static kase warm;
static void warm_fill(const kase *k, int dr, int dc){
  memcpy(&warm, k, sizeof(kase));
  warm.nr = k->nr + dr; warm.nc = k->nc + dc; warm.ex = 0; warm.den = 1; warm.sc = 0; warm.offl = 0; warm.yex = 0; warm.yden = 1; warm.yoffl = 0;
  warm.npc_req = 2;                     /* a dominant direction plus a little structure: few passes, so that the history costs little at nproc > 1 */
  if(warm.nb > 0) warm.bw[warm.nb - 1] += dc;
  for(int i = 0; i < warm.nr; i++) for(int j = 0; j < warm.nc; j++) warm.x[i * warm.nc + j] = (i + 1) * (j + 2) + ((i + 2 * j) % 3 == 0 ? 1 : 0);
  for(int i = 0; i < warm.nr; i++) for(int j = 0; j < warm.ny; j++) warm.y[i * warm.ny + j] = (i + j) % 2;
}
static int run_site(const kase *k, int mute){
  if(!strcmp(k->site, "PCA")) return run_pca(k, mute);
  if(!strcmp(k->site, "PLS")) return run_pls(k, mute);
  if(!strcmp(k->site, "CPCA")) return run_cpca(k, mute);
  return 3;
}

static int child(void *arg){
  const kase *k = (const kase *)arg;
  vrt_force_nproc((size_t)k->nproc);
  want_pred = k->pred;
  libsci_verif_iter = iter_cb; h_site = ""; h_pc = -1; h_it = 0; h_lv = -1; pend.valid = 0; h_mute = 0; h_mute_it = 0;
  if(!strcmp(k->site, "PCA") || !strcmp(k->site, "PLS") || !strcmp(k->site, "CPCA")){
    if(k->hist == 1 && (k->nr + 1) * (k->nc + 1) <= MAXCELL){
      /* reference: the same fit in a process that has computed nothing before (grandchild, results through a pipe) */
      int fd[2]; nref = -2;
      if(pipe(fd) == 0){
        fflush(NULL);
        pid_t g = fork();
        if(g == 0){
          close(fd[0]); h_mute = 1; run_site(k, 2);
          long n = (long)nsnap; if(write(fd[1], &n, sizeof n) != (ssize_t)sizeof n) _exit(4);
          size_t off = 0, tot = nsnap * sizeof(double);
          while(off < tot){ ssize_t w = write(fd[1], (char *)snap + off, tot - off); if(w <= 0) _exit(4); off += (size_t)w; }
          _exit(0);
        }
        close(fd[1]);
        if(g > 0){
          long n = -2; size_t off = 0;
          if(read(fd[0], &n, sizeof n) == (ssize_t)sizeof n && n >= 0){
            ref = malloc((size_t)n * sizeof(double) + 8); size_t tot = (size_t)n * sizeof(double);
            while(off < tot){ ssize_t r = read(fd[0], (char *)ref + off, tot - off); if(r <= 0) break; off += (size_t)r; }
            nref = (off == tot) ? n : -2;
          }
          int st; waitpid(g, &st, 0);
        }
        close(fd[0]);
      }
      h_mute = 1;
      warm_fill(k, 0, 0); run_site(&warm, 1);
      warm_fill(k, 1, 1); run_site(&warm, 1);
      h_mute = 0;
      VRT_EMIT("{\"e\":\"Warm\",\"site\":\"%s\",\"n\":2,\"passes\":%ld}", k->site, h_mute_it);
    }
    return run_site(k, 0);
  }
  if(!strcmp(k->site, "MLRLOO")) return run_mlrloo(k);
  if(!strcmp(k->site, "KMEANS")) return run_kmeans(k);
  if(!strcmp(k->site, "NM")) return run_nm(k);
  return 3;
}

/* fork + watchdog with a fine-grained poll (a fit on <= 3x3 data takes well under a millisecond; vrt_run_child polls every 5 ms) */
static double now_s(void){ struct timespec ts; clock_gettime(CLOCK_MONOTONIC, &ts); return (double)ts.tv_sec + 1e-9 * (double)ts.tv_nsec; }
static int run_child_fast(vrt_child_fn fn, void *arg, int timeout_s){
  fflush(NULL);
  pid_t pid = fork();
  if(pid < 0){ perror("fork"); exit(2); }
  if(pid == 0){ int rc = fn(arg); fflush(NULL); _exit(rc); }
  int status = 0; double t0 = now_s();
  for(;;){
    pid_t r = waitpid(pid, &status, WNOHANG);
    if(r == pid) break;
    double el = now_s() - t0;
    if(el > (double)timeout_s){ kill(pid, SIGKILL); waitpid(pid, &status, 0); return 124; }
    usleep(el < 0.02 ? 100 : 2000);
  }
  if(WIFSIGNALED(status)) return 1000 + WTERMSIG(status);
  return WEXITSTATUS(status);
}

int main(int argc, char **argv){
  if(argc < 6){ fprintf(stderr, "usage: c18_drv cases out budget timeout maxdiv\n"); return 2; }
  FILE *in = fopen(argv[1], "r"); if(!in){ perror(argv[1]); return 2; }
  vrt_open(argv[2]);
  budget = atol(argv[3]); int tmo = atoi(argv[4]); int maxdiv = atoi(argv[5]);
  struct { char key[64]; int n; } div[64]; int ndiv = 0;
  long ncases = 0, nrun = 0, nskip = 0, ndiverged = 0;
  static kase k;
  while(fscanf(in, "%ld %15s %31s %d %d %d %d %d %d %d %d %d %d", &k.id, k.site, k.kind, &k.scaling, &k.npc_req, &k.npc, &k.rank, &k.rlo, &k.noise, &k.cblk, &k.ex, &k.nr, &k.nc) == 13){
    if(k.nr * k.nc > MAXCELL){ fprintf(stderr, "case too large\n"); return 2; }
    for(int i = 0; i < k.nr * k.nc; i++) if(fscanf(in, "%ld", &k.x[i]) != 1) return 2;
    if(fscanf(in, "%d", &k.ny) != 1 || k.nr * k.ny > MAXCELL) return 2;
    for(int i = 0; i < k.nr * k.ny; i++) if(fscanf(in, "%ld", &k.y[i]) != 1) return 2;
    if(fscanf(in, "%d", &k.nb) != 1 || k.nb > 8) return 2;
    for(int i = 0; i < k.nb; i++) if(fscanf(in, "%d", &k.bw[i]) != 1) return 2;
    if(fscanf(in, "%d %d %d %d %d %d %d %d %d", &k.nproc, &k.den, &k.sc, &k.offl, &k.yex, &k.yden, &k.yoffl, &k.hist, &k.pred) != 9) return 2;
    if(k.nproc < 1 || k.den < 1 || k.yden < 1 || k.offl > 36 || k.yoffl > 36){ fprintf(stderr, "bad case tail\n"); return 2; }
    ncases++;
    char key[64]; snprintf(key, sizeof key, "%s:%s:%d", k.site, k.kind, k.nproc > 1);
    int di = -1; for(int i = 0; i < ndiv; i++) if(!strcmp(div[i].key, key)) di = i;
    if(di >= 0 && div[di].n >= maxdiv){ nskip++; continue; }
    VRT_EMIT("{\"e\":\"Reset\",\"id\":%ld,\"site\":\"%s\",\"kind\":\"%s\",\"rank\":%d,\"rlo\":%d,\"npc\":%d,\"noise\":%d,\"cblk\":%d,\"nproc\":%d,\"offl\":%d,\"sc\":%d,\"den\":%d,\"hist\":%d,\"nr\":%d,\"nc\":%d}",
             k.id, k.site, k.kind, k.rank, k.rlo, k.npc, k.noise, k.cblk, k.nproc, k.offl > k.yoffl ? k.offl : k.yoffl, k.sc, k.den > k.yden ? k.den : k.yden, k.hist, k.nr, k.nc);
    int rc = run_child_fast(child, &k, k.nproc > 1 ? 4 * tmo : tmo);   /* nproc threads per kernel call */
    nrun++;
    if(rc == 124) VRT_EMIT("{\"e\":\"Hang\",\"site\":\"%s\"}", k.site);
    else if(rc != 0 && rc != 97) VRT_EMIT("{\"e\":\"Crash\",\"site\":\"%s\",\"rc\":%d}", k.site, rc);
    if(rc == 97 || rc == 124){
      ndiverged++;
      if(di < 0 && ndiv < 64){ di = ndiv++; strcpy(div[di].key, key); div[di].n = 0; }
      if(di >= 0) div[di].n++;
    }
  }
  vrt_close();
  printf("SUMMARY cases=%ld run=%ld skipped=%ld diverged=%ld\n", ncases, nrun, nskip, ndiverged);
  return 0;
}
