/* c05_drv.c - conformance driver for C05 (cross-validation is out-of-sample and covers every object once).
 * usage: c05_drv <out.ndjson> <mode> <seed> <ncases> [labels-file]
 *   mode helpers : random_kfold_group_generator + kfold_group_train_test_split called directly, x[i] = i
 *   mode cv      : BootstrapRandomGroupsCV / LeaveOneOut / KFoldCV for PLS, MLR, LDA on random data
 *   mode labels  : KFoldCV on TLC-generated label vectors (one per line: n l1 .. ln)
 *   mode cases   : TLC-generated case chains (spec/CvCases.tla), one case per line:
 *                  id chain scheme algo n p ny nlv xs ys k groups iters nth dcls sens nproc dseed nlab l1 .. l_nlab
 *                  chain = 0 starts a new PROCESS; chain = 1 runs in the process of the previous line INTO THE SAME, ALREADY SIZED
 *                  output matrices (class K7).  dcls = data class (K3/K4/K5/K8), sens = 1: own-response test for EVERY object.
 * One block per run:  Reset ; Run{...} ; Create/Join/Merge* ; (Groups ; Split*)* ; Pred* ; Resid* ; End
 * Every run executes in a forked child (watchdog + iteration budget): a hang or crash is a reported case.
 */
#include "scientific.h"
#include "verif_rt.h"
#if defined(__has_feature)
#  if __has_feature(address_sanitizer)
#    include <sanitizer/asan_interface.h>
#    define OBJ_FREED(p) (__asan_address_is_poisoned((const void*)(p)) ? 1 : 0)
#  endif
#endif
#ifndef OBJ_FREED
#  define OBJ_FREED(p) 0      /* without the sanitizer a freed output object cannot be told from a live one */
#endif

/* ---------------- hook H5 recorder ---------------- */
#define MAXW 64
#define MAXG 40
#define MAXN 64
typedef struct {
  pthread_t tid; int used; long seed;
  int g, w, n; int gid[MAXG][MAXN];              /* last fold matrix seen by this thread */
  int ntrain[MAXG], ntest[MAXG], train[MAXG][MAXN], test[MAXG][MAXN], split_seen[MAXG];
  int have_groups;
} wrec;
static wrec W[MAXW]; static int nW = 0;
static pthread_mutex_t hmu = PTHREAD_MUTEX_INITIALIZER;
static int kf_mode = 0;       /* KFoldCV: groups + splits all come from the calling thread */

static wrec *slot_for(pthread_t t, int create_new){
  for(int i = 0; i < nW; i++) if(W[i].used && pthread_equal(W[i].tid, t) && !create_new) return &W[i];
  if(nW >= MAXW) return NULL;
  wrec *w = &W[nW++]; memset(w, 0, sizeof(*w)); w->tid = t; w->used = 1; return w;
}
static void copy_gid(wrec *w, const matrix *gid, int nobj){
  w->g = (int)gid->row; w->w = (int)gid->col; w->n = nobj; w->have_groups = 1;
  for(int i = 0; i < w->g && i < MAXG; i++) for(int j = 0; j < w->w && j < MAXN; j++) w->gid[i][j] = (int)gid->data[i][j];
  memset(w->ntrain, 0, sizeof(w->ntrain)); memset(w->ntest, 0, sizeof(w->ntest)); memset(w->split_seen, 0, sizeof(w->split_seen));
}
static void emit_intlist(char *buf, int *p, size_t cap, const int *v, int n);
/* LeaveOneOut row routing (hooks loo_train / loo_test, orchestrator thread) and the bootstrap's own visit counter (boot_counter) */
static int loo_ntr[MAXN], loo_tr[MAXN][MAXN], loo_pos[MAXN][MAXN], loo_nte[MAXN], loo_te[MAXN][4], loo_any = 0;
static long bc_cnt[MAXN], bc_iters[MAXN]; static int bc_seen[MAXN], bc_any = 0;
static void rec_reset(void){ memset(loo_ntr, 0, sizeof loo_ntr); memset(loo_nte, 0, sizeof loo_nte); loo_any = 0; memset(bc_seen, 0, sizeof bc_seen); bc_any = 0; }
/* lock-step (stress mode): the workers of a batch meet at the LAST row-copy event of every group, i.e. as late as the hooks allow before the fit and
 * the accumulation of that group's predictions - a legal schedule that makes unsynchronised shared accumulators collide far more often */
static int lockstep = 0, bar_n = 0; static volatile int bar_count = 0, bar_gen = 0;
static void bar_wait(void){
  int gen = __atomic_load_n(&bar_gen, __ATOMIC_SEQ_CST);
  if(__atomic_add_fetch(&bar_count, 1, __ATOMIC_SEQ_CST) >= bar_n){ __atomic_store_n(&bar_count, 0, __ATOMIC_SEQ_CST); __atomic_add_fetch(&bar_gen, 1, __ATOMIC_SEQ_CST); }
  else { long spins = 0; while(__atomic_load_n(&bar_gen, __ATOMIC_SEQ_CST) == gen){ if(++spins > 4000000L) break; if((spins & 255) == 0) sched_yield(); } }
}
static void cv_cb(const char *ev, size_t a, size_t b, size_t c, const void *data){
  int arrive = 0;
  pthread_mutex_lock(&hmu);
  if(!strcmp(ev, "loo_train")){         /* a = model (left-out object), b = row id copied, c = position in the training part */
    if(a < MAXN && loo_ntr[a] < MAXN){ loo_tr[a][loo_ntr[a]] = (int)b; loo_pos[a][loo_ntr[a]] = (int)c; loo_ntr[a]++; loo_any = 1; }
  }
  else if(!strcmp(ev, "loo_test")){     /* a = model, b = row id routed to the test part */
    if(a < MAXN && loo_nte[a] < 4){ loo_te[a][loo_nte[a]++] = (int)b; loo_any = 1; }
  }
  else if(!strcmp(ev, "boot_counter")){ /* a = object, b = the routine's own visit counter, c = requested iterations */
    if(a < MAXN){ bc_cnt[a] = b > 2000000000UL ? 2000000000L : (long)b; bc_iters[a] = (long)c; bc_seen[a]++; bc_any = 1; }
  }
  else if(!strcmp(ev, "groups")){            /* a = seed, b = ngroups, c = nobj, data = gid : a NEW worker pass */
    wrec *w = slot_for(pthread_self(), 1);
    if(w){ w->seed = (long)a; copy_gid(w, (const matrix*)data, (int)c); }
  }
  else if(!strcmp(ev, "kf_groups")){    /* a = gmax, b = objgmax, c = nobj */
    wrec *w = slot_for(pthread_self(), 1);
    if(w){ w->seed = -1; copy_gid(w, (const matrix*)data, (int)c); }
  }
  else if(!strcmp(ev, "train") || !strcmp(ev, "test")){   /* a = group id, b = object id, c = position */
    wrec *w = NULL;
    for(int i = nW - 1; i >= 0; i--) if(W[i].used && pthread_equal(W[i].tid, pthread_self())){ w = &W[i]; break; }
    if(w && a < MAXG){
      w->split_seen[a] = 1;
      if(ev[1] == 'r'){ if(w->ntrain[a] < MAXN) w->train[a][w->ntrain[a]++] = (int)b; }
      else { if(w->ntest[a] < MAXN) w->test[a][w->ntest[a]++] = (int)b; }
      if(lockstep && w->seed >= 0 && w->ntrain[a] + w->ntest[a] == w->n) arrive = 1;
    }
  }
  else if(!strcmp(ev, "create") || !strcmp(ev, "loo_create") || !strcmp(ev, "kf_create")){
    if(lockstep && a == 0){ __atomic_store_n(&bar_count, 0, __ATOMIC_SEQ_CST); }
    VRT_EMIT("{\"e\":\"Create\",\"th\":%zu,\"base\":%zu}", a, b);
  }
  else if(!strcmp(ev, "join") || !strcmp(ev, "loo_join") || !strcmp(ev, "kf_join")){
    VRT_EMIT("{\"e\":\"Join\",\"th\":%zu,\"base\":%zu}", a, b);
  }
  else if(!strcmp(ev, "merge") || !strcmp(ev, "loo_merge") || !strcmp(ev, "kf_merge")){
    VRT_EMIT("{\"e\":\"Merge\",\"th\":%zu,\"base\":%zu}", a, b);
  }
  pthread_mutex_unlock(&hmu);
  if(arrive) bar_wait();
}
static void emit_loo_and_counter(int n){
  static char buf[16384];
  if(loo_any) for(int m = 0; m < n && m < MAXN; m++){ int p = 0;
    p += snprintf(buf + p, sizeof(buf) - p, "{\"e\":\"LooSplit\",\"m\":%d,\"train\":", m); emit_intlist(buf, &p, sizeof(buf), loo_tr[m], loo_ntr[m]);
    p += snprintf(buf + p, sizeof(buf) - p, ",\"pos\":"); emit_intlist(buf, &p, sizeof(buf), loo_pos[m], loo_ntr[m]);
    p += snprintf(buf + p, sizeof(buf) - p, ",\"test\":"); emit_intlist(buf, &p, sizeof(buf), loo_te[m], loo_nte[m]);
    p += snprintf(buf + p, sizeof(buf) - p, "}"); VRT_EMIT("%s", buf); }
  if(bc_any) for(int i = 0; i < n && i < MAXN; i++)
    VRT_EMIT("{\"e\":\"Counter\",\"i\":%d,\"cnt\":%ld,\"iters\":%ld,\"fired\":%d}", i, bc_seen[i] ? bc_cnt[i] : -1L, bc_seen[i] ? bc_iters[i] : -1L, bc_seen[i]);
}

static void emit_intlist(char *buf, int *p, size_t cap, const int *v, int n){
  *p += snprintf(buf + *p, cap - *p, "[");
  for(int i = 0; i < n; i++) *p += snprintf(buf + *p, cap - *p, "%s%d", i ? "," : "", v[i]);
  *p += snprintf(buf + *p, cap - *p, "]");
}
static void emit_groups_and_splits(wrec *w){
  static char buf[65536]; int p = 0;
  p += snprintf(buf + p, sizeof(buf) - p, "{\"e\":\"Groups\",\"w\":%ld,\"g\":%d,\"n\":%d,\"gid\":[", w->seed, w->g, w->n);
  for(int i = 0; i < w->g; i++){ if(i) p += snprintf(buf + p, sizeof(buf) - p, ","); emit_intlist(buf, &p, sizeof(buf), w->gid[i], w->w); }
  p += snprintf(buf + p, sizeof(buf) - p, "]}");
  VRT_EMIT("%s", buf);
  for(int g = 0; g < w->g; g++){
    if(!w->split_seen[g] && w->ntrain[g] == 0 && w->ntest[g] == 0){
      /* a split that copied no row fires no hook (empty group AND empty rest cannot both happen for n >= 1) */
      int any = 0; for(int j = 0; j < w->w; j++) if(w->gid[g][j] != -1) any = 1;
      (void)any;
    }
    p = 0;
    p += snprintf(buf + p, sizeof(buf) - p, "{\"e\":\"Split\",\"w\":%ld,\"grp\":%d,\"seen\":%d,\"train\":", w->seed, g, w->split_seen[g]);
    emit_intlist(buf, &p, sizeof(buf), w->train[g], w->ntrain[g]);
    p += snprintf(buf + p, sizeof(buf) - p, ",\"test\":");
    emit_intlist(buf, &p, sizeof(buf), w->test[g], w->ntest[g]);
    p += snprintf(buf + p, sizeof(buf) - p, "}");
    VRT_EMIT("%s", buf);
  }
}

/* ---------------- learners through the public API ---------------- */
enum { A_PLS = 0, A_MLR = 1, A_LDA = 2 };
static const char *ANAME[3] = {"PLS", "MLR", "LDA"};
static AlgorithmType ATYPE[3] = {_PLS_, _MLR_, _LDA_};
typedef struct { int algo, n, p, ny, nlv, xs, ys, k, dcls, mag; matrix *x, *y; } prob;
typedef struct { int id, hist, reuse, sensall, nproc, lost, lockstep; matrix *pred, *res; } copts;   /* pred/res != NULL: outputs supplied by the caller (history) */

static void rows_of(matrix *src, const int *ids, int n, matrix *dst){
  ResizeMatrix(dst, n, src->col);
  for(int i = 0; i < n; i++) for(size_t j = 0; j < src->col; j++) dst->data[i][j] = src->data[ids[i]][j];
}
/* fit on train ids, predict test ids; out: ntest x scol */
static void fit_predict(prob *P, matrix *y, const int *train, int ntr, const int *test, int nte, matrix *out){
  matrix *xt, *yt, *xs; initMatrix(&xt); initMatrix(&yt); initMatrix(&xs);
  rows_of(P->x, train, ntr, xt); rows_of(y, train, ntr, yt); rows_of(P->x, test, nte, xs);
  if(P->algo == A_PLS){ PLSMODEL *m; NewPLSModel(&m); PLS(xt, yt, P->nlv, P->xs, P->ys, m, NULL); PLSYPredictorAllLV(xs, m, NULL, out); DelPLSModel(&m); }
  else if(P->algo == A_MLR){ MLRMODEL *m; NewMLRModel(&m); MLR(xt, yt, m, NULL); MLRPredictY(xs, NULL, m, out, NULL, NULL, NULL); DelMLRModel(&m); }
  else { LDAMODEL *m; matrix *pf, *pr, *mn; NewLDAModel(&m); LDA(xt, yt, m); initMatrix(&pf); initMatrix(&pr); initMatrix(&mn);
         LDAPrediction(xs, m, pf, pr, mn, out); DelMatrix(&pf); DelMatrix(&pr); DelMatrix(&mn); DelLDAModel(&m); }
  DelMatrix(&xt); DelMatrix(&yt); DelMatrix(&xs);
}
static double relfloor = 1.0;   /* 1 for data of magnitude >= 1 (as always), 10^mag for the small-magnitude class K4 (never looser) */
static double relerr(double a, double b){ double d = fabs(a - b), s = fabs(a) > fabs(b) ? fabs(a) : fabs(b); if(!vfinite(a) || !vfinite(b)) return 1e9; return d / (s > relfloor ? s : relfloor); }

typedef struct { int scheme; /* 0 boot 1 loo 2 kfold */ int groups, iters, nth; int lab[MAXN]; int has_lab; } cvcfg;
static const char *SNAME[3] = {"boot", "loo", "kfold"};

static void run_cv(prob *P, matrix *y, cvcfg *C, matrix *pred, matrix *res){
  MODELINPUT in = initModelInput(); in.mx = P->x; in.my = y; in.nlv = P->algo == A_PLS ? P->nlv : 0; in.xautoscaling = P->xs; in.yautoscaling = P->ys;
  if(C->scheme == 0) BootstrapRandomGroupsCV(&in, C->groups, C->iters, ATYPE[P->algo], pred, res, C->nth, NULL, 0);
  else if(C->scheme == 1) LeaveOneOut(&in, ATYPE[P->algo], pred, res, C->nth, NULL, 0);
  else { uivector *g; NewUIVector(&g, P->n); for(int i = 0; i < P->n; i++) g->data[i] = C->lab[i]; KFoldCV(&in, g, ATYPE[P->algo], pred, res, C->nth, NULL, 0); DelUIVector(&g); }
}

typedef struct { prob *P; cvcfg *C; vrng *R; copts *O; } childarg;

/* one recorded run: Run ; Create/Join/Merge* ; (Groups ; Split*)* ; Pred* ; Resid* ; ResOnly? ; End   (the Reset was written by the caller) */
static void do_case(prob *P, cvcfg *C, vrng *R, copts *O){
  vrt_install_iter_budget(200000, 0);
  vrt_force_nproc(O->nproc > 0 ? O->nproc : 1);
  libsci_verif_cv = cv_cb; nW = 0; rec_reset();
  lockstep = O->lockstep; bar_n = C->nth; bar_count = 0;
  relfloor = P->mag < 0 ? pow(10.0, P->mag) : 1.0;
  double yscale = pow(10.0, P->mag);
  int scol = P->algo == A_PLS ? P->ny * P->nlv : P->ny;
  int total = C->scheme == 0 ? C->iters : (C->scheme == 1 ? P->n : 0);
  if(C->scheme == 2){ int mx = 0; for(int i = 0; i < P->n; i++) if(C->lab[i] > mx) mx = C->lab[i]; total = mx + 1; }
  { static char buf[4096]; int p = 0;
    p += snprintf(buf + p, sizeof(buf) - p, "{\"e\":\"Run\",\"scheme\":\"%s\",\"algo\":\"%s\",\"n\":%d,\"p\":%d,\"ny\":%d,\"nlv\":%d,\"xs\":%d,\"ys\":%d,\"groups\":%d,\"nth\":%d,\"total\":%d,\"scol\":%d,"
                  "\"iters\":%d,\"k\":%d,\"dcls\":%d,\"mag\":%d,\"sensall\":%d,\"hist\":%d,\"reuse\":%d,\"nproc\":%d,\"case\":%d,\"lockstep\":%d,\"lab\":",
                  SNAME[C->scheme], ANAME[P->algo], P->n, P->p, P->ny, P->algo == A_PLS ? P->nlv : 1, P->xs, P->ys, C->groups, C->nth, total, scol,
                  C->scheme == 0 ? C->iters : 1, P->algo == A_LDA ? P->k : 0, P->dcls, P->mag, O->sensall, O->hist, O->reuse, O->nproc > 0 ? O->nproc : 1, O->id, O->lockstep);
    emit_intlist(buf, &p, sizeof(buf), C->lab, C->scheme == 2 ? P->n : 0);
    p += snprintf(buf + p, sizeof(buf) - p, "}"); VRT_EMIT("%s", buf); }
  matrix *pred, *res; int own = O->pred == NULL;
  if(own){ initMatrix(&pred); initMatrix(&res); } else { pred = O->pred; res = O->res; }
  run_cv(P, P->y, C, pred, res);
  libsci_verif_cv = NULL; lockstep = 0;
  /* the caller's output objects must have survived the call (an output sized for ANOTHER shape has to be resized in place) */
  { int pf = OBJ_FREED(pred), rf = OBJ_FREED(res);
    VRT_EMIT("{\"e\":\"Out\",\"pred_freed\":%d,\"res_freed\":%d}", pf, rf);
    if(pf || rf){ VRT_EMIT("{\"e\":\"End\",\"workers\":%d,\"shape\":0}", nW); O->lost = 1; return; } }
  /* folds as the code really made them */
  int nworkers = nW;
  for(int i = 0; i < nworkers; i++) if(W[i].have_groups) emit_groups_and_splits(&W[i]);
  emit_loo_and_counter(P->n);
  /* expected prediction: refit through the public API on exactly the logged training ids */
  matrix *expct; NewMatrix(&expct, P->n, scol); int cnt[MAXN]; memset(cnt, 0, sizeof(cnt));
  if(C->scheme == 1){
    for(int i = 0; i < P->n; i++){ int tr[MAXN], k = 0; for(int j = 0; j < P->n; j++) if(j != i) tr[k++] = j; int te[1] = {i};
      matrix *o; initMatrix(&o); fit_predict(P, P->y, tr, k, te, 1, o);
      for(int c = 0; c < scol && c < (int)o->col; c++) expct->data[i][c] += o->data[0][c]; cnt[i]++; DelMatrix(&o); }
  } else {
    for(int w = 0; w < nworkers; w++){ if(!W[w].have_groups) continue;
      for(int g = 0; g < W[w].g; g++){ if(W[w].ntest[g] == 0) continue;
        matrix *o; initMatrix(&o); fit_predict(P, P->y, W[w].train[g], W[w].ntrain[g], W[w].test[g], W[w].ntest[g], o);
        for(int t = 0; t < W[w].ntest[g]; t++){ int id = W[w].test[g][t]; for(int c = 0; c < scol && c < (int)o->col; c++) expct->data[id][c] += o->data[t][c]; cnt[id]++; }
        DelMatrix(&o); } }
  }
  int passes = C->scheme == 0 ? nworkers : 1;
  int shape_ok = ((int)pred->row == P->n && (int)pred->col == scol) ? 1 : 0;
  /* out-of-sample test: change only y[i], re-run with the same configuration.  Bootstrap: single thread only (same RNG streams; with more
   * threads the workers share the generator word - property C06); LeaveOneOut / KFoldCV draw nothing, so every thread count qualifies.
   * sens[i]: -1 not measured, -2 LDA label change not admissible for this object, else the change of object i's prediction in 1e-12 units */
  long sens[MAXN]; for(int i = 0; i < MAXN; i++) sens[i] = -1;
  int eligible = (C->nth == 1 || C->scheme != 0);
  if(eligible){
    int ntests = O->sensall ? P->n : (P->n < 3 ? P->n : 3);
    for(int t = 0; t < ntests; t++){ int i = O->sensall ? t : (int)vr_int(R, 0, P->n - 1);
      matrix *y2; initMatrix(&y2); MatrixCopy(P->y, &y2);
      if(P->algo == A_LDA){ /* another label that still leaves >= 3 members in i's class */
        int li = (int)P->y->data[i][0], members = 0, mx = 0; for(int j = 0; j < P->n; j++){ if((int)P->y->data[j][0] == li) members++; if((int)P->y->data[j][0] > mx) mx = (int)P->y->data[j][0]; }
        if(members < 5 || mx < 1){ DelMatrix(&y2); if(sens[i] == -1) sens[i] = -2; continue; }
        y2->data[i][0] = (double)((li + 1) % (mx + 1)); }
      else for(int c = 0; c < P->ny; c++) y2->data[i][c] += (1.0 + c) * yscale;
      matrix *p2; initMatrix(&p2);
      libsci_verif_cv = NULL; run_cv(P, y2, C, p2, NULL);
      long worst = 0; for(int c = 0; c < scol && c < (int)p2->col && c < (int)pred->col; c++){ long q = vq12(relerr(pred->data[i][c], p2->data[i][c])); if(q > worst) worst = q; }
      if(p2->row != pred->row || p2->col != pred->col) worst = VQ_MAX;
      if(sens[i] < 0 || worst > sens[i]) sens[i] = worst;
      DelMatrix(&p2); DelMatrix(&y2); }
  }
  for(int i = 0; i < P->n; i++){
    long worst = 0; int fin = 1;
    for(int c = 0; c < scol; c++){
      double got = (shape_ok ? pred->data[i][c] : NAN), want = cnt[i] ? expct->data[i][c] / cnt[i] : NAN;
      if(!vfinite(got)) fin = 0;
      long q = vq12(relerr(got, want)); if(q > worst) worst = q; }
    VRT_EMIT("{\"e\":\"Pred\",\"i\":%d,\"refit\":%ld,\"sens\":%ld,\"finite\":%d,\"cnt\":%d,\"passes\":%d}", i, worst, sens[i], fin, cnt[i], passes);
  }
  /* residuals = prediction - matching response column (column c <-> response c %% ny, LV-major layout) */
  int rshape = ((int)res->row == P->n && (int)res->col == scol) ? 1 : 0;
  for(int c = 0; c < scol; c++){
    long worst = 0;
    for(int i = 0; i < P->n; i++){ double want = (shape_ok ? pred->data[i][c] : NAN) - P->y->data[i][c % P->ny]; double got = rshape ? res->data[i][c] : NAN;
      double d = fabs(got - want), s = fabs(want) > relfloor ? fabs(want) : relfloor; long q = vfinite(got) && vfinite(want) ? vq12(d / s) : VQ_MAX; if(q > worst) worst = q; }
    VRT_EMIT("{\"e\":\"Resid\",\"col\":%d,\"resp\":%d,\"lv\":%d,\"err\":%ld}", c, c % P->ny, c / P->ny + 1, worst);
  }
  /* the residual-only call (predicted_y = NULL): the residuals must still be prediction minus the matching response column */
  if(eligible){
    matrix *r2; initMatrix(&r2); run_cv(P, P->y, C, NULL, r2);
    int r2shape = ((int)r2->row == P->n && (int)r2->col == scol) ? 1 : 0; long worst = 0;
    for(int c = 0; c < scol; c++) for(int i = 0; i < P->n; i++){ double want = (shape_ok ? pred->data[i][c] : NAN) - P->y->data[i][c % P->ny]; double got = r2shape ? r2->data[i][c] : NAN;
      double d = fabs(got - want), s = fabs(want) > relfloor ? fabs(want) : relfloor; long q = vfinite(got) && vfinite(want) ? vq12(d / s) : VQ_MAX; if(q > worst) worst = q; }
    VRT_EMIT("{\"e\":\"ResOnly\",\"err\":%ld,\"shape\":%d}", worst, r2shape);
    DelMatrix(&r2);
  }
  VRT_EMIT("{\"e\":\"End\",\"workers\":%d,\"shape\":%d}", nworkers, shape_ok);
  DelMatrix(&expct); if(own){ DelMatrix(&pred); DelMatrix(&res); }
}
static int child_cv(void *a_){ childarg *A = (childarg*)a_; do_case(A->P, A->C, A->R, A->O); return 0; }

/* xs_ / k_ < 0: drawn (the random "cv" mode); dcls: 0 plain, 1 K3 common offset 1e6, 2 K4 whole input x 1e-6, 3 K4 x 1e6, 4 K8 duplicate rows,
 * 5 K5/K8 a constant column 0.1 among informative ones, 6 K8 a column that is constant inside the training set of object 0's fold, 7 K8 constant response */
static void gen_problem_ex(prob *P, vrng *R, int algo, int n, int p, int ny, int nlv, int xs_, int ys_, int k_, int dcls){
  P->algo = algo; P->n = n; P->p = p; P->ny = ny; P->nlv = nlv; P->xs = xs_ >= 0 ? xs_ : (int)vr_int(R, 0, 1); P->ys = algo == A_PLS ? ys_ : 0; P->k = 0; P->dcls = dcls; P->mag = 0;
  NewMatrix(&P->x, n, p); NewMatrix(&P->y, n, ny);
  if(algo == A_LDA){
    int k = k_ >= 2 ? k_ : 2 + (int)vr_int(R, 0, 1); if(k_ < 2 && n < 18) k = 2;
    P->k = k;
    for(int i = 0; i < n; i++){ int c = i % k; P->y->data[i][0] = c; for(int j = 0; j < p; j++) P->x->data[i][j] = vr_norm(R) + 6.0 * c * ((j % 2) ? 1 : -1) + 3.0 * c; }
    /* shuffle rows so that classes are not contiguous */
    for(int i = n - 1; i > 0; i--){ int j = (int)vr_int(R, 0, i); double *t = P->x->data[i]; P->x->data[i] = P->x->data[j]; P->x->data[j] = t; t = P->y->data[i]; P->y->data[i] = P->y->data[j]; P->y->data[j] = t; }
    P->xs = 0; return;
  }
  double B[8][4];
  for(int j = 0; j < p; j++) for(int c = 0; c < ny; c++) B[j][c] = vr_norm(R) * (1 + c);
  for(int i = 0; i < n; i++){
    for(int j = 0; j < p; j++) P->x->data[i][j] = vr_norm(R) * (1.0 + j) + 2.0 * j;
    for(int c = 0; c < ny; c++){ double s = 5.0 * c; for(int j = 0; j < p; j++) s += P->x->data[i][j] * B[j][c]; P->y->data[i][c] = s + 0.3 * vr_norm(R); }
  }
  if(dcls == 1){ for(int i = 0; i < n; i++){ for(int j = 0; j < p; j++) P->x->data[i][j] += 1e6; for(int c = 0; c < ny; c++) P->y->data[i][c] += 1e6; } }
  if(dcls == 2 || dcls == 3){ double f = dcls == 2 ? 1e-6 : 1e6; P->mag = dcls == 2 ? -6 : 6;
    for(int i = 0; i < n; i++){ for(int j = 0; j < p; j++) P->x->data[i][j] *= f; for(int c = 0; c < ny; c++) P->y->data[i][c] *= f; } }
  if(dcls == 4){ for(int i = 1; i < n && i < 4; i += 2){ for(int j = 0; j < p; j++) P->x->data[i][j] = P->x->data[i - 1][j]; for(int c = 0; c < ny; c++) P->y->data[i][c] = P->y->data[i - 1][c]; } }
  if(dcls == 5 && p >= 2){ for(int i = 0; i < n; i++) P->x->data[i][p - 1] = 0.1; }
  if(dcls == 6 && p >= 2){ for(int i = 0; i < n; i++) P->x->data[i][p - 1] = i == 0 ? 1.0 : 0.0; }
  if(dcls == 7 && ny >= 2){ for(int i = 0; i < n; i++) P->y->data[i][ny - 1] = 1.0 / 3.0; }
}
static void gen_problem(prob *P, vrng *R, int algo, int n, int p, int ny, int nlv){ gen_problem_ex(P, R, algo, n, p, ny, nlv, -1, 0, -1, 0); }
static void free_problem(prob *P){ DelMatrix(&P->x); DelMatrix(&P->y); }

static void emit_crash(int rc, prob *P, cvcfg *C){
  VRT_EMIT("{\"e\":\"Crash\",\"rc\":%d,\"scheme\":\"%s\",\"algo\":\"%s\",\"n\":%d,\"p\":%d,\"ny\":%d,\"nlv\":%d,\"groups\":%d,\"iters\":%d,\"nth\":%d}", rc, SNAME[C->scheme], ANAME[P->algo], P->n, P->p, P->ny, P->nlv, C->groups, C->iters, C->nth);
}
static void run_block(prob *P, cvcfg *C, vrng *R){
  VRT_EMIT("{\"e\":\"Reset\"}");
  copts O; memset(&O, 0, sizeof(O)); O.id = -1; O.nproc = 1;
  childarg A = {P, C, R, &O};
  int rc = vrt_run_child(child_cv, &A, 120);
  if(rc != 0) emit_crash(rc, P, C);
}

/* ---------------- cases mode: TLC-generated chains ---------------- */
typedef struct { int id, chain, scheme, algo, n, p, ny, nlv, xs, ys, k, groups, iters, nth, dcls, sens, nproc, dseed, nlab; int lab[MAXN]; } ccase;
typedef struct { ccase *cs; int m; long seed; } chainarg;
static void case_setup(ccase *c, long seed, prob *P, cvcfg *C, vrng *R){
  R->s = ((uint64_t)seed * 0x9E3779B97F4A7C15ULL) ^ ((uint64_t)c->dseed * 0xD1B54A32D192ED03ULL + 777);
  gen_problem_ex(P, R, c->algo, c->n, c->p, c->ny, c->nlv, c->xs, c->ys, c->k, c->dcls);
  memset(C, 0, sizeof(*C)); C->scheme = c->scheme; C->groups = c->groups; C->iters = c->iters; C->nth = c->nth;
  if(c->scheme == 2){ C->has_lab = 1; for(int i = 0; i < c->nlab && i < MAXN; i++) C->lab[i] = c->lab[i]; }
}
static int child_chain(void *a_){
  chainarg *A = (chainarg*)a_;
  matrix *pred, *res; initMatrix(&pred); initMatrix(&res);
  for(int k = 0; k < A->m; k++){
    prob P; cvcfg C; vrng R; case_setup(&A->cs[k], A->seed, &P, &C, &R);
    copts O; memset(&O, 0, sizeof(O)); O.id = A->cs[k].id; O.hist = k; O.reuse = k > 0; O.sensall = A->cs[k].sens; O.nproc = A->cs[k].nproc;
    if(A->m > 1){ O.pred = pred; O.res = res; }
    VRT_EMIT("{\"e\":\"Reset\"}");
    do_case(&P, &C, &R, &O);
    free_problem(&P);
    if(O.lost){ initMatrix(&pred); initMatrix(&res); }    /* the library freed the caller's objects: go on with new ones */
  }
  DelMatrix(&pred); DelMatrix(&res);
  return 0;
}

/* ---------------- helpers mode ---------------- */
static int child_helpers(void *a_){
  int *a = (int*)a_; int n = a[0], g = a[1]; unsigned int seed = (unsigned int)a[2]; int reuse = a[3];
  matrix *x, *y, *gid; NewMatrix(&x, n, 2); NewMatrix(&y, n, 1); initMatrix(&gid);
  matrix *sxt, *syt, *sxs, *sys; initMatrix(&sxt); initMatrix(&syt); initMatrix(&sxs); initMatrix(&sys);
  if(reuse){ /* history (K7): the fold matrix and the split outputs were sized by an earlier use with another (n, groups) */
    unsigned int s0 = seed + 1000; matrix *x0, *y0; NewMatrix(&x0, n + 3, 2); NewMatrix(&y0, n + 3, 1);
    for(int i = 0; i < n + 3; i++){ x0->data[i][0] = 500 + i; x0->data[i][1] = 700 + i; y0->data[i][0] = 900 + i; }
    random_kfold_group_generator(gid, (size_t)(g + 1), (size_t)(n + 3), &s0);
    kfold_group_train_test_split(x0, y0, gid, 0, sxt, syt, sxs, sys);
    DelMatrix(&x0); DelMatrix(&y0); }
  libsci_verif_cv = cv_cb; nW = 0;
  for(int i = 0; i < n; i++){ x->data[i][0] = i; x->data[i][1] = 1000 + i; y->data[i][0] = -i; }
  VRT_EMIT("{\"e\":\"Run\",\"scheme\":\"helpers\",\"algo\":\"none\",\"n\":%d,\"p\":2,\"ny\":1,\"nlv\":1,\"xs\":0,\"ys\":0,\"groups\":%d,\"nth\":1,\"total\":0,\"scol\":1,\"iters\":1,\"k\":0,\"dcls\":0,\"mag\":0,\"sensall\":0,\"hist\":%d,\"reuse\":%d,\"nproc\":1,\"case\":-1,\"lockstep\":0,\"lab\":[]}", n, g, reuse, reuse);
  random_kfold_group_generator(gid, g, n, &seed);
  int rows_ok = 1;
  for(int q = 0; q < g; q++){
    matrix *xt, *yt, *xs, *ys;
    if(reuse){ xt = sxt; yt = syt; xs = sxs; ys = sys; } else { initMatrix(&xt); initMatrix(&yt); initMatrix(&xs); initMatrix(&ys); }
    kfold_group_train_test_split(x, y, gid, q, xt, yt, xs, ys);
    /* the copied rows must be the rows of the logged ids */
    wrec *w = &W[nW - 1];
    if((int)xt->row != w->ntrain[q] || (int)xs->row != w->ntest[q] || yt->row != xt->row || ys->row != xs->row) rows_ok = 0;
    for(int k = 0; rows_ok && k < w->ntrain[q]; k++) if(xt->data[k][0] != w->train[q][k] || xt->data[k][1] != 1000 + w->train[q][k] || yt->data[k][0] != -w->train[q][k]) rows_ok = 0;
    for(int k = 0; rows_ok && k < w->ntest[q]; k++) if(xs->data[k][0] != w->test[q][k] || ys->data[k][0] != -w->test[q][k]) rows_ok = 0;
    if(!reuse){ DelMatrix(&xt); DelMatrix(&yt); DelMatrix(&xs); DelMatrix(&ys); }
  }
  DelMatrix(&sxt); DelMatrix(&syt); DelMatrix(&sxs); DelMatrix(&sys);
  libsci_verif_cv = NULL;
  for(int i = 0; i < nW; i++) if(W[i].have_groups) emit_groups_and_splits(&W[i]);
  VRT_EMIT("{\"e\":\"Rows\",\"ok\":%d}", rows_ok);
  VRT_EMIT("{\"e\":\"End\",\"workers\":%d,\"shape\":1}", nW);
  DelMatrix(&x); DelMatrix(&y); DelMatrix(&gid);
  return 0;
}

/* ---------------- tts mode: the public train_test_split(), x[i] = i ---------------- */
static int child_tts(void *a_){
  int *a = (int*)a_; int n = a[0], num = a[1], den = a[2]; unsigned int seed = (unsigned int)a[3];
  matrix *x, *y, *xt, *yt, *xs, *ys; uivector *ids;
  NewMatrix(&x, n, 2); NewMatrix(&y, n, 2); initMatrix(&xt); initMatrix(&yt); initMatrix(&xs); initMatrix(&ys); initUIVector(&ids);
  for(int i = 0; i < n; i++){ x->data[i][0] = i; x->data[i][1] = 1000 + i; y->data[i][0] = -i; y->data[i][1] = 7 * i + 1; }
  double ts = (double)num / (double)den;     /* den is a power of two: the fraction is exact in double */
  int reuse = a[4];
  if(reuse){ /* history (K7): outputs sized by an earlier split of another data set (the id vector is the caller's to clear: a new one) */
    unsigned int s0 = seed + 77; matrix *x0, *y0; uivector *id0; NewMatrix(&x0, n + 5, 2); NewMatrix(&y0, n + 5, 2); initUIVector(&id0);
    for(int i = 0; i < n + 5; i++){ x0->data[i][0] = 300 + i; x0->data[i][1] = 1; y0->data[i][0] = 2; y0->data[i][1] = 3; }
    train_test_split(x0, y0, 0.5, xt, yt, xs, ys, id0, &s0);
    DelMatrix(&x0); DelMatrix(&y0); DelUIVector(&id0); }
  train_test_split(x, y, ts, xt, yt, xs, ys, ids, &seed);
  /* projection: ids as returned, ids read back from the copied rows (column 0), row consistency flag */
  int rows_ok = (yt->row == xt->row && ys->row == xs->row && xt->col == 2 && xs->col == 2 && yt->col == 2 && ys->col == 2 && ids->size == xs->row);
  static char buf[8192]; int q = 0;
  q += snprintf(buf + q, sizeof buf - q, "{\"e\":\"Tts\",\"n\":%d,\"num\":%d,\"den\":%d,\"ids\":[", n, num, den);
  for(size_t i = 0; i < ids->size; i++) q += snprintf(buf + q, sizeof buf - q, "%s%ld", i ? "," : "", ids->data[i] < 2000000000UL ? (long)ids->data[i] : -2L);
  q += snprintf(buf + q, sizeof buf - q, "],\"test\":[");
  for(size_t i = 0; i < xs->row; i++){ double v = xs->data[i][0]; long id = (v == floor(v) && v >= 0 && v < n) ? (long)v : -2L;
    if(id >= 0 && rows_ok && (xs->data[i][1] != 1000 + id || ys->data[i][0] != -id || ys->data[i][1] != 7 * id + 1)) rows_ok = 0;
    q += snprintf(buf + q, sizeof buf - q, "%s%ld", i ? "," : "", id); }
  q += snprintf(buf + q, sizeof buf - q, "],\"train\":[");
  for(size_t i = 0; i < xt->row; i++){ double v = xt->data[i][0]; long id = (v == floor(v) && v >= 0 && v < n) ? (long)v : -2L;
    if(id >= 0 && rows_ok && (xt->data[i][1] != 1000 + id || yt->data[i][0] != -id || yt->data[i][1] != 7 * id + 1)) rows_ok = 0;
    q += snprintf(buf + q, sizeof buf - q, "%s%ld", i ? "," : "", id); }
  snprintf(buf + q, sizeof buf - q, "],\"rows\":%d,\"reuse\":%d}", rows_ok, reuse);
  VRT_EMIT("%s", buf);
  DelMatrix(&x); DelMatrix(&y); DelMatrix(&xt); DelMatrix(&yt); DelMatrix(&xs); DelMatrix(&ys); DelUIVector(&ids);
  return 0;
}

/* ---------------- stress mode: lock-step bootstrap calls, several per process ---------------- */
typedef struct { int from, to; long seed; } stressarg;
static void stress_case(int t, prob *P, cvcfg *C, vrng *R){
  int algo = t % 3 == 2 ? A_MLR : A_PLS, n = 6 + (t % 2), groups = algo == A_MLR ? 3 : 2 + (t % 2);
  memset(C, 0, sizeof(*C)); C->scheme = 0; C->nth = 8 - (t % 4 == 3); C->iters = 12; C->groups = groups;
  if(algo == A_MLR) n = 7 + (t % 2);          /* MLR: p = 1 <= smallest training set - 3 */
  gen_problem_ex(P, R, algo, n, 1, 1 + t % 2, 1, t % 2, 0, -1, 0);
}
static int child_stress(void *a_){
  stressarg *A = (stressarg*)a_;
  for(int t = A->from; t < A->to; t++){
    vrng R = { ((uint64_t)A->seed * 0x9E3779B97F4A7C15ULL) ^ ((uint64_t)(t + 1) * 0xD1B54A32D192ED03ULL) };
    prob P; cvcfg C; stress_case(t, &P, &C, &R);
    VRT_EMIT("{\"e\":\"Reset\"}");
    copts O; memset(&O, 0, sizeof(O)); O.id = -1; O.nproc = 1; O.lockstep = 1;
    do_case(&P, &C, &R, &O);
    free_problem(&P);
  }
  return 0;
}

int main(int argc, char **argv){
  if(argc < 5){ fprintf(stderr, "usage\n"); return 2; }
  vrt_open(argv[1]);
  const char *mode = argv[2]; long seed = atol(argv[3]); int ncases = atoi(argv[4]);
  vrng R = { (uint64_t)seed * 0x9E3779B97F4A7C15ULL + 12345 };
  if(!strcmp(mode, "helpers")){
    /* ncases = max n; all (n, groups) with n 1..ncases, groups 1..n, a few seeds (arg 5 = first n) */
    int nlo = argc > 5 ? atoi(argv[5]) : 1;
    for(int n = nlo; n <= ncases; n++) for(int g = 1; g <= n; g++) for(int s = 0; s < 2; s++){
      int a[4] = {n, g, (int)(seed % 100000) + 31 * n + 7 * g + s, s};
      VRT_EMIT("{\"e\":\"Reset\"}");
      int rc = vrt_run_child(child_helpers, a, 60);
      if(rc != 0) VRT_EMIT("{\"e\":\"Crash\",\"rc\":%d,\"scheme\":\"helpers\",\"algo\":\"none\",\"n\":%d,\"p\":2,\"ny\":1,\"nlv\":1,\"groups\":%d,\"iters\":1,\"nth\":1}", rc, n, g);
    }
  }
  else if(!strcmp(mode, "cv")){
    for(int t = 0; t < ncases; t++){
      int algo = t % 3, n = (int)vr_int(&R, 6, 30), p = (int)vr_int(&R, 1, 6), ny = algo == A_LDA ? 1 : (int)vr_int(&R, 1, 3);
      cvcfg C; memset(&C, 0, sizeof(C)); C.scheme = (t / 3) % 3; C.nth = (int)vr_int(&R, 1, 8);
      if(t % 4 == 0) C.nth = 1;
      if(algo == A_LDA){ if(n < 12) n += 12; p = (int)vr_int(&R, 2, 4); if(C.scheme == 2) C.scheme = 0; /* KFoldCV does not support LDA */ }
      /* fold sizes: the smallest training set must keep the fit inside each learner's own quantifier */
      int gmin = 2; if(algo == A_LDA) gmin = 4;
      C.groups = (int)vr_int(&R, gmin, n); C.iters = (int)vr_int(&R, 1, 12);
      if(C.scheme == 0 && vr_int(&R, 0, 1)) { /* prefer thread counts that divide the iteration count half of the time */ while(C.iters % C.nth) C.nth--; }
      int mintrain = n - (n + C.groups - 1) / C.groups;
      if(C.scheme == 1) mintrain = n - 1;
      if(C.scheme == 2){ /* user labels: unbalanced, with gaps, non contiguous */
        int k = (int)vr_int(&R, 2, 5), gap = (int)vr_int(&R, 0, 1); int cntl[8] = {0};
        for(int i = 0; i < n; i++){ int l = (int)vr_int(&R, 0, k - 1); if(vr_int(&R, 0, 2) == 0) l = 0; C.lab[i] = l; }
        C.lab[0] = 0; C.lab[1] = k - 1;
        if(gap) for(int i = 0; i < n; i++) if(C.lab[i] >= 1) C.lab[i] += 1;   /* label 1 unused */
        int big = 0; for(int i = 0; i < n; i++){ cntl[C.lab[i]]++; } for(int l = 0; l < 8; l++) if(cntl[l] > big) big = cntl[l];
        mintrain = n - big; C.has_lab = 1; C.groups = 0;
      }
      if(algo == A_LDA){ /* each class keeps >= 3 training members: class size >= n/k, removed <= ceil(n/groups) */
        int k = n < 18 ? 2 : 3; if(n / k - (n + C.groups - 1) / C.groups < 3 && C.scheme == 0){ C.groups = n; } }
      if(mintrain < 4) continue;
      if(algo == A_MLR && p > mintrain - 3) p = mintrain - 3 > 0 ? mintrain - 3 : 1;
      if(p > mintrain - 2) p = mintrain - 2;
      if(p < 1) p = 1; if(algo == A_LDA && p < 2) p = 2;
      int nlv = algo == A_PLS ? (int)vr_int(&R, 1, p < mintrain - 2 ? p : mintrain - 2) : 1; if(nlv < 1) nlv = 1;
      prob P; gen_problem(&P, &R, algo, n, p, ny, nlv);
      run_block(&P, &C, &R);
      free_problem(&P);
    }
  }
  else if(!strcmp(mode, "tts")){
    /* ncases = max n; every n 2..ncases x test fractions k/8 (k = 0..7: the test part never takes every object, 0 = empty test part), two seeds */
    for(int n = 2; n <= ncases; n++) for(int k = 0; k <= 7; k++) for(int sd = 0; sd < 2; sd++){
      if(ceil((double)k / 8.0 * n) >= n) continue;        /* an empty training part is outside the property's domain */
      int a[5] = {n, k, 8, (int)(seed % 100000) + 17 * n + 3 * k + sd, sd};
      VRT_EMIT("{\"e\":\"Reset\"}");
      VRT_EMIT("{\"e\":\"Run\",\"scheme\":\"tts\",\"algo\":\"none\",\"n\":%d,\"p\":2,\"ny\":2,\"nlv\":1,\"xs\":0,\"ys\":0,\"groups\":0,\"nth\":1,\"total\":0,\"scol\":1,\"iters\":1,\"k\":0,\"dcls\":0,\"mag\":0,\"sensall\":0,\"hist\":%d,\"reuse\":%d,\"nproc\":1,\"case\":-1,\"lockstep\":0,\"lab\":[]}", n, sd, sd);
      int rc = vrt_run_child(child_tts, a, 60);
      if(rc != 0) VRT_EMIT("{\"e\":\"Crash\",\"rc\":%d,\"scheme\":\"tts\",\"algo\":\"none\",\"n\":%d,\"p\":2,\"ny\":2,\"nlv\":1,\"groups\":%d,\"iters\":1,\"nth\":1}", rc, n, k);
      else VRT_EMIT("{\"e\":\"End\",\"workers\":0,\"shape\":1}");
    }
  }
  else if(!strcmp(mode, "cases")){
    /* argv[5] = case file; ncases = number of lines to run at most */
    FILE *f = fopen(argv[5], "r"); if(!f){ perror("cases"); return 2; }
    static ccase cs[4096]; int m = 0;
    while(m < 4096 && m < ncases){ ccase *c = &cs[m];
      if(fscanf(f, "%d %d %d %d %d %d %d %d %d %d %d %d %d %d %d %d %d %d %d", &c->id, &c->chain, &c->scheme, &c->algo, &c->n, &c->p, &c->ny, &c->nlv, &c->xs, &c->ys, &c->k,
                &c->groups, &c->iters, &c->nth, &c->dcls, &c->sens, &c->nproc, &c->dseed, &c->nlab) != 19) break;
      if(c->nlab > MAXN || c->n > MAXN - 2 || c->n < 2){ fprintf(stderr, "bad case line %d\n", m); return 2; }
      for(int i = 0; i < c->nlab; i++) if(fscanf(f, "%d", &c->lab[i]) != 1){ fprintf(stderr, "bad labels in case line %d\n", m); return 2; }
      m++; }
    fclose(f);
    for(int i = 0; i < m; ){
      int j = i + 1; while(j < m && cs[j].chain == 1) j++;
      chainarg A = { &cs[i], j - i, seed };
      int rc = vrt_run_child(child_chain, &A, 240);
      if(rc != 0){ /* the failing case is the one whose block is open: report the first of the chain (its Run line is in the trace) */
        prob P; cvcfg C; vrng R2; case_setup(&cs[i], seed, &P, &C, &R2); emit_crash(rc, &P, &C); free_problem(&P); }
      i = j;
    }
  }
  else if(!strcmp(mode, "stress")){
    /* ncases repeated bootstrap calls with 8 workers in lock-step on the smallest problems of the quantifier: accumulators that the workers share
       without synchronisation lose an update sooner or later; the routine's own visit counter (hook boot_counter) then differs from the number of
       passes in which the object sat in a test fold (known from the logged fold matrices), whatever the predicted values are */
    for(int t0 = 0; t0 < ncases; t0 += 12){
      stressarg A = { t0, t0 + 12 < ncases ? t0 + 12 : ncases, seed };
      int rc = vrt_run_child(child_stress, &A, 240);
      if(rc != 0){ prob P; cvcfg C; vrng R2 = R; stress_case(t0, &P, &C, &R2); emit_crash(rc, &P, &C); free_problem(&P); }
    }
  }
  else if(!strcmp(mode, "labels")){
    FILE *f = fopen(argv[5], "r"); if(!f){ perror("labels"); return 2; }
    int n, t = 0;
    while(fscanf(f, "%d", &n) == 1 && t < ncases){
      cvcfg C; memset(&C, 0, sizeof(C)); C.scheme = 2; C.nth = 1 + t % 4; C.has_lab = 1;
      for(int i = 0; i < n; i++) fscanf(f, "%d", &C.lab[i]);
      /* pad the data set so that every training set is large enough: objects n..n+7 get the labels of a cycle over the used labels */
      int used[8] = {0}, nu = 0, ul[8]; for(int i = 0; i < n; i++) if(!used[C.lab[i]]){ used[C.lab[i]] = 1; ul[nu++] = C.lab[i]; }
      int N = n; for(int r = 0; r < 10; r++) C.lab[N++] = ul[r % nu];
      /* with a single label every training set is empty: outside the routine's domain, skipped */
      if(nu < 2){ continue; }
      int algo = t % 2;   /* PLS, MLR */
      prob P; gen_problem(&P, &R, algo, N, 2, 1 + t % 2, algo == A_PLS ? 1 + t % 2 : 1);
      /* smallest training set */
      int cntl[8] = {0}, big = 0; for(int i = 0; i < N; i++) cntl[C.lab[i]]++; for(int l = 0; l < 8; l++) if(cntl[l] > big) big = cntl[l];
      if(N - big >= 5) run_block(&P, &C, &R);
      free_problem(&P); t++;
    }
    fclose(f);
  }
  vrt_close();
  return 0;
}
