/* c10_replay.c - replay driver for C10 (centring/scaling): every case enumerated by TLC (spec/Preprocess.tla, operator
 * CaseRec) is run through the real MatrixPreprocess / TensorPreprocess and compared with the exact result TLC computed.
 *
 * usage: c10_replay <cases.txt> <out.ndjson>
 * cases.txt, one case per line, integers separated by blanks:
 *   id r c v type p  X[r*c]  (avg_n avg_d)[c]  (sp_n sp_d)[c]  N[c]  cn[r*c]  ny[2*c]  ncn[2*c]
 *   X: integer cells of the matrix (99999999 = MISSING), already the affine image v computed by TLC
 *   avg = column mean, sp = scale^p, cn = N*x - S1 (centred numerator), ny = two new rows, ncn their centred numerators
 * The library is fed X * 2^-e / q for every unit (e, q) of the variant, the expectations scale with it: q = 1 dyadic units
 * (exact in double) and, class K5 of INPUT-CLASSES.md, q = 10, 3, 7 at e = 0 (cells NOT representable: a constant column's
 * sum/n is an ulp off the constant, and its transform must still be exactly 0 for the spread-based options).
 * Output: one Fail{...} line per failed comparison (at most a few per case) and a final Done{cases,runs,fails} line.
 * Comparison: stored average and scaling through the rational power (s^p vs sp), transformed cells through
 * t * scale = centred; relative 1e-9 plus the cancellation slack 1e-13 * max|column| (x - mean is formed in double);
 * expected zeros (zero-scale columns) must be exactly 0; nothing may be NaN/Inf.
 */
#include "scientific.h"
#include "verif_rt.h"

#define MISS 99999999L
#define MAXR 8
#define MAXC 4
typedef struct {
  long id; int r, c, v, type, p;
  long X[MAXR][MAXC], an[MAXC], ad[MAXC], sn[MAXC], sd[MAXC], N[MAXC], cn[MAXR][MAXC], ny[2][MAXC], ncn[2][MAXC];
} kase;

static long nfail = 0, nruns = 0;
static long cur_den = 1;
static int failures_this_case = 0;
static void fail(const kase *k, int e, const char *kind, int i, int j, double got, double want, const char *what){
  nfail++;
  if(failures_this_case++ >= 4) return;
  VRT_EMIT("{\"e\":\"Fail\",\"id\":%ld,\"type\":%d,\"v\":%d,\"exp\":%d,\"den\":%ld,\"kind\":\"%s\",\"i\":%d,\"j\":%d,\"got\":\"%.17g\",\"want\":\"%.17g\",\"what\":\"%s\"}",
           k->id, k->type, k->v, e, cur_den, kind, i, j, got, want, what);
}
static int close_to(double got, double want, double slack){
  if(!vfinite(got)) return 0;
  return fabs(got - want) <= 1e-9 * fabs(want) + slack;
}
static int is_missing(double x){ return fabs(x - (double)MISS) < 0.1; }

/* expectation for column j at unit u: mean, scale^p, scale (root), zero flag */
typedef struct { double mean, sp, scale; int zero; double maxabs; } colexp;
static colexp col_expect(const kase *k, int j, double u){
  colexp c; c.mean = (double)k->an[j] / (double)k->ad[j] * u;
  /* power of the unit carried by scale^p: sdev^2, rms^2 ~ u^2; Pareto scale^4 = Var ~ u^2; range, mean ~ u */
  double up = (k->type == 1 || k->type == 2 || k->type == 3) ? u * u : u;
  if(k->type == 0 || k->type == -1){ c.sp = 1.0; c.scale = 1.0; c.zero = 0; }
  else{
    c.sp = (double)k->sn[j] / (double)k->sd[j] * up;
    c.zero = k->sn[j] == 0;
    c.scale = k->p == 1 ? c.sp : (k->p == 2 ? sqrt(c.sp) : sqrt(sqrt(c.sp)));
  }
  c.maxabs = 0;
  for(int i = 0; i < k->r; i++) if(k->X[i][j] != MISS && fabs((double)k->X[i][j] * u) > c.maxabs) c.maxabs = fabs((double)k->X[i][j] * u);
  return c;
}

/* compare one fitted column (library outputs avg, sc, t) with the expectation; rows given by index list so that the same
 * routine serves the matrix with a row deleted.  returns number of failed comparisons; reports only if report != 0 */
static int check_fit_col(const kase *k, int e, double u, int j, int nrow, const int *rowidx, dvector *avg, dvector *sc, matrix *t, int tj, int report, const char *pfx){
  int bad = 0; char what[96];
  colexp c = col_expect(k, j, u);
  double slack = 1e-13 * c.maxabs;
  if(avg->size <= (size_t)tj || sc->size <= (size_t)tj){ if(report) fail(k, e, "avg", -1, j, (double)avg->size, (double)k->c, "stored vectors have the wrong length"); return 1; }
  if(!close_to(avg->data[tj], c.mean, slack)){ bad++; if(report){ snprintf(what, sizeof what, "%sstored column average differs from S1/N", pfx); fail(k, e, "avg", -1, j, avg->data[tj], c.mean, what); } }
  double s = sc->data[tj], spow = s;
  for(int q = 1; q < k->p; q++) spow *= s;
  int sc_ok;
  if(k->type == 0) sc_ok = s == 1.0;
  /* zero statistic: on a dyadic grid the sums are exact and the stored value must be within the slack of 0; on a non-dyadic
   * grid (K5) the sdev of a constant column is rounding noise <= slack and Pareto scaling stores its square root */
  else if(c.zero) sc_ok = vfinite(s) && ((cur_den != 1 && k->p == 4) ? s * s : fabs(s)) <= slack;
  else sc_ok = vfinite(s) && fabs(spow - c.sp) <= k->p * 1e-9 * fabs(c.sp) + (k->p == 1 ? slack : 0.0) && (k->p == 1 || s > 0);
  if(!sc_ok){ bad++; if(report){ snprintf(what, sizeof what, "%sstored scaling^%d differs from the exact statistic", pfx, k->p); fail(k, e, "scale", -1, j, spow, c.sp, what); } }
  for(int a = 0; a < nrow; a++){
    int i = rowidx[a];
    if(k->X[i][j] == MISS) continue;
    double got = t->data[a][tj];
    if(c.zero){
      if(!(got == 0.0)){ bad++; if(report){ snprintf(what, sizeof what, "%scolumn without scale must become exactly 0", pfx); fail(k, e, "cell", i, j, got, 0.0, what); } }
      continue;
    }
    double cen = (double)k->cn[i][j] / (double)k->N[j] * u;
    if(!vfinite(got) || fabs(got * c.scale - cen) > 1e-9 * fabs(cen) + slack){
      bad++; if(report){ snprintf(what, sizeof what, "%stransformed cell * scale differs from x - mean", pfx); fail(k, e, "cell", i, j, got * c.scale, cen, what); }
    }
  }
  return bad;
}

/* keep the last matrices of the same type for the tensor comparison */
#define KEEP 4
static matrix *keep_m[KEEP], *keep_t[KEEP]; static dvector *keep_a[KEEP], *keep_s[KEEP]; static int keep_type[KEEP], nkeep = 0;
static void keep_clear(void){ for(int q = 0; q < nkeep; q++){ DelMatrix(&keep_m[q]); DelMatrix(&keep_t[q]); DelDVector(&keep_a[q]); DelDVector(&keep_s[q]); } nkeep = 0; }
static int bits_eq(double a, double b){ return memcmp(&a, &b, 8) == 0 || (a == b); }

static void run_case(const kase *k, int e, long q){
  double u = ldexp(1.0, -e) / (double)q; cur_den = q;
  int r = k->r, c = k->c; nruns++;
  matrix *m, *t; dvector *avg, *sc;
  NewMatrix(&m, r, c); NewMatrix(&t, r, c); initDVector(&avg); initDVector(&sc);
  int rowidx[MAXR]; for(int i = 0; i < r; i++) rowidx[i] = i;
  int colbad[MAXC] = {0};
  for(int i = 0; i < r; i++) for(int j = 0; j < c; j++) m->data[i][j] = k->X[i][j] == MISS ? (double)MISS : (q == 1 ? (double)k->X[i][j] * u : (double)k->X[i][j] / (double)q);
  /* 1. fit */
  MatrixPreprocess(m, k->type, avg, sc, t);
  if(k->type < 0){
    for(int i = 0; i < r; i++) for(int j = 0; j < c; j++) if(!bits_eq(t->data[i][j], m->data[i][j])) fail(k, e, "cell", i, j, t->data[i][j], m->data[i][j], "option -1 must copy the matrix");
  }
  else{
    for(int j = 0; j < c; j++){
      int bad = check_fit_col(k, e, u, j, r, rowidx, avg, sc, t, j, 0, "");
      if(!bad) continue;
      colbad[j] = 1;
      /* attribute: if the column holds a MISSING cell and the same column with that row deleted is transformed correctly,
       * the failure is an influence of the missing-coded cell (theorem ThMissing: the exact result is the same) */
      int mi = -1; for(int i = 0; i < r; i++) if(k->X[i][j] == MISS) mi = i;
      int attributed = 0;
      if(mi >= 0){
        matrix *m1, *t1; dvector *a1, *s1; int idx[MAXR], n1 = 0;
        for(int i = 0; i < r; i++) if(i != mi) idx[n1++] = i;
        NewMatrix(&m1, n1, 1); NewMatrix(&t1, n1, 1); initDVector(&a1); initDVector(&s1);
        for(int a = 0; a < n1; a++) m1->data[a][0] = m->data[idx[a]][j];
        MatrixPreprocess(m1, k->type, a1, s1, t1);
        if(check_fit_col(k, e, u, j, n1, idx, a1, s1, t1, 0, 0, "") == 0){
          attributed = 1;
          fail(k, e, "missing", mi, j, avg->data[j], col_expect(k, j, u).mean, "a missing-coded cell changes the statistics or the other cells of its column (same column without that row is right)");
        }
        DelMatrix(&m1); DelMatrix(&t1); DelDVector(&a1); DelDVector(&s1);
      }
      if(!attributed) check_fit_col(k, e, u, j, r, rowidx, avg, sc, t, j, 1, "");
    }
  }
  /* 2. apply the stored transform to the same matrix: must reproduce the training transform */
  {
    matrix *t2; NewMatrix(&t2, r, c);
    MatrixPreprocess(m, k->type, avg, sc, t2);
    for(int i = 0; i < r; i++) for(int j = 0; j < c; j++){
      if(k->X[i][j] == MISS) continue;
      double a = t->data[i][j], b = t2->data[i][j];
      if(!vfinite(b) || fabs(a - b) > 1e-12 * fabs(a)){ fail(k, e, "apply", i, j, b, a, "applying the stored average/scaling to the training matrix does not reproduce the training transform"); j = c; i = r; }
    }
    DelMatrix(&t2);
  }
  /* 3. apply to new rows: the same affine map (y - stored average) / stored scaling; the stored vectors themselves were
   *    compared with the exact statistics in step 1, so a wrong fit is not reported a second time here */
  if(k->type >= 0 && avg->size == (size_t)c && sc->size == (size_t)c){
    matrix *y, *t3; NewMatrix(&y, 2, c); initMatrix(&t3);
    for(int a = 0; a < 2; a++) for(int j = 0; j < c; j++) y->data[a][j] = q == 1 ? (double)k->ny[a][j] * u : (double)k->ny[a][j] / (double)q;
    MatrixPreprocess(y, k->type, avg, sc, t3);
    if(t3->row != 2 || t3->col != (size_t)c) fail(k, e, "apply", -1, -1, (double)t3->row, 2.0, "apply path returns a matrix of the wrong shape for new rows");
    else for(int a = 0; a < 2; a++) for(int j = 0; j < c; j++){
      if(colbad[j]) continue;                   /* the fit of this column was already reported */
      colexp ce = col_expect(k, j, u);
      double got = t3->data[a][j];
      double slack = 1e-13 * (ce.maxabs + fabs(y->data[a][j]));
      if(ce.zero){ if(!(got == 0.0)) fail(k, e, "apply", a, j, got, 0.0, "new row: column without scale must map to exactly 0"); continue; }
      if(sc->data[j] == 0.0 || !vfinite(sc->data[j]) || !vfinite(avg->data[j])) continue;   /* already a fit failure */
      double cen = y->data[a][j] - avg->data[j];
      if(!vfinite(got) || fabs(got * sc->data[j] - cen) > 1e-9 * fabs(cen) + slack)
        fail(k, e, "apply", a, j, got * sc->data[j], cen, "new row is not mapped by the affine map (y - stored average)/stored scaling");
    }
    DelMatrix(&y); DelMatrix(&t3);
  }
  /* 4. tensor = per-block matrix: blocks are this matrix and up to three earlier ones of the same option */
  if(nkeep > 0 && keep_type[0] != k->type) keep_clear();
  if(nkeep == KEEP){ DelMatrix(&keep_m[0]); DelMatrix(&keep_t[0]); DelDVector(&keep_a[0]); DelDVector(&keep_s[0]);
    for(int q = 1; q < KEEP; q++){ keep_m[q-1] = keep_m[q]; keep_t[q-1] = keep_t[q]; keep_a[q-1] = keep_a[q]; keep_s[q-1] = keep_s[q]; keep_type[q-1] = keep_type[q]; } nkeep--; }
  keep_m[nkeep] = m; keep_t[nkeep] = t; keep_a[nkeep] = avg; keep_s[nkeep] = sc; keep_type[nkeep] = k->type; nkeep++;
  {
    int nb = 1 + (int)(nruns % KEEP); if(nb > nkeep) nb = nkeep;
    tensor *T, *Tt; dvectorlist *la, *ls;
    NewTensor(&T, nb); NewTensor(&Tt, nb); initDVectorList(&la); initDVectorList(&ls);
    for(int b = 0; b < nb; b++){
      matrix *src = keep_m[nkeep - nb + b];
      NewTensorMatrix(T, b, src->row, src->col); NewTensorMatrix(Tt, b, src->row, src->col);
      for(size_t i = 0; i < src->row; i++) for(size_t j = 0; j < src->col; j++) T->m[b]->data[i][j] = src->data[i][j];
    }
    TensorPreprocess(T, k->type, la, ls, Tt);
    int ok = la->size == (size_t)nb && ls->size == (size_t)nb;
    for(int b = 0; ok && b < nb; b++){
      matrix *tt = keep_t[nkeep - nb + b]; dvector *a = keep_a[nkeep - nb + b], *s = keep_s[nkeep - nb + b];
      if(la->d[b]->size != a->size || ls->d[b]->size != s->size){ ok = 0; break; }
      for(size_t j = 0; j < a->size; j++) if(!bits_eq(la->d[b]->data[j], a->data[j]) || !bits_eq(ls->d[b]->data[j], s->data[j])) ok = 0;
      for(size_t i = 0; i < tt->row; i++) for(size_t j = 0; j < tt->col; j++) if(!bits_eq(Tt->m[b]->data[i][j], tt->data[i][j])) ok = 0;
    }
    if(!ok) fail(k, e, "tensor", nb, -1, 0, 0, "TensorPreprocess differs from MatrixPreprocess applied block by block");
    DelTensor(&T); DelTensor(&Tt); DelDVectorList(&la); DelDVectorList(&ls);
  }
}

static int read_case(FILE *f, kase *k){
  long hdr[6];
  for(int q = 0; q < 6; q++) if(fscanf(f, "%ld", &hdr[q]) != 1) return 0;
  k->id = hdr[0]; k->r = (int)hdr[1]; k->c = (int)hdr[2]; k->v = (int)hdr[3]; k->type = (int)hdr[4]; k->p = (int)hdr[5];
  if(k->r > MAXR || k->c > MAXC || k->r < 1 || k->c < 1){ fprintf(stderr, "case %ld: shape out of range\n", k->id); exit(2); }
#define RD(x) if(fscanf(f, "%ld", &(x)) != 1){ fprintf(stderr, "case %ld truncated\n", k->id); exit(2); }
  for(int i = 0; i < k->r; i++) for(int j = 0; j < k->c; j++) RD(k->X[i][j]);
  for(int j = 0; j < k->c; j++){ RD(k->an[j]); RD(k->ad[j]); }
  for(int j = 0; j < k->c; j++){ RD(k->sn[j]); RD(k->sd[j]); }
  for(int j = 0; j < k->c; j++) RD(k->N[j]);
  for(int i = 0; i < k->r; i++) for(int j = 0; j < k->c; j++) RD(k->cn[i][j]);
  for(int a = 0; a < 2; a++) for(int j = 0; j < k->c; j++) RD(k->ny[a][j]);
  for(int a = 0; a < 2; a++) for(int j = 0; j < k->c; j++) RD(k->ncn[a][j]);
  return 1;
}

int main(int argc, char **argv){
  if(argc < 3){ fprintf(stderr, "usage: c10_replay cases.txt out.ndjson\n"); return 2; }
  FILE *f = fopen(argv[1], "r"); if(!f){ perror(argv[1]); return 2; }
  vrt_open(argv[2]);
  kase k; long ncases = 0;
  /* exponents per variant: the fed matrix is X * 2^-e.  v = 1, 3 (mean between the thresholds) only make sense at e = 10 */
  static const int E0[] = {0, 4, -20, 0, 0}, E1[] = {10}, E2[] = {0, 3, 0, 0};
  static const long Q0[] = {1, 1, 1, 10, 3}, Q1[] = {1}, Q2[] = {1, 1, 10, 7};
  while(read_case(f, &k)){
    ncases++; failures_this_case = 0;
    const int *E = k.v == 0 ? E0 : (k.v == 2 ? E2 : E1); const long *Q = k.v == 0 ? Q0 : (k.v == 2 ? Q2 : Q1); int ne = k.v == 0 ? 5 : (k.v == 2 ? 4 : 1);
    for(int q = 0; q < ne; q++) run_case(&k, E[q], Q[q]);
  }
  keep_clear();
  VRT_EMIT("{\"e\":\"Done\",\"cases\":%ld,\"runs\":%ld,\"fails\":%ld}", ncases, nruns, nfail);
  vrt_close(); fclose(f);
  return 0;
}
