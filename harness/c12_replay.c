/* c12_replay.c - replay driver for C12: every matrix enumerated by TLC (spec/LinAlg.tla, operator CaseRec) is run through
 * MatrixDeterminant, MatrixInversion, MatrixLUInversion, SolveLSE, OrdinaryLeastSquares, MatrixMoorePenrosePseudoinverse
 * and compared with the exact rational result TLC computed.
 *
 * usage: c12_replay <cases.txt> <out.ndjson>
 * cases.txt, one case per line, integers:
 *   id n ns det A[n*n]   and, if ns = 1 (non-singular):
 *   inv[(num den) n*n]  b[n]  x[(num den) n]  X[(n+1)*n]  y[n+1]  beta[(num den) n]  pinv[(num den) n*(n+1)]
 * Each case is run on A * 2^-e for e = 0 and e = 14, every third case also for e = 34 and e = -30 (same conditioning; exact in double) and every
 * third case at one of the non-dyadic units 0.1, 1/3, 1e-6, 1e6 (exp codes 1000..1003); the expectations scale.
 * Tolerance: 1e-9 * cond (cond = |A|_F |A^-1|_F from the exact inverse) relative to the largest expected entry.
 * Output: Fail{id,routine,exp,i,j,got,want} lines and a final Done line; if the process is killed by a sanitizer or a
 * signal, a Crash{id,routine,exp} line is written first (death callback / signal handler).
 */
#include "scientific.h"
#include "verif_rt.h"

#define MAXN 5
typedef struct { long n, d; } rat;
typedef struct {
  long id; int n, ns; long det; long A[MAXN][MAXN];
  rat inv[MAXN][MAXN]; long b[MAXN]; rat x[MAXN]; long X[MAXN + 1][MAXN]; long y[MAXN + 1]; rat beta[MAXN]; rat pinv[MAXN][MAXN + 1];
} kase;
static double rv(rat r){ return (double)r.n / (double)r.d; }

static long cur_id = -1; static const char *cur_routine = ""; static int cur_exp = 0;
static void death(void){
  if(vrt_out){ fprintf(vrt_out, "{\"e\":\"Crash\",\"id\":%ld,\"routine\":\"%s\",\"exp\":%d}\n", cur_id, cur_routine, cur_exp); fflush(vrt_out); }
}
static void on_signal(int s){ death(); _exit(100 + s); }
extern void __sanitizer_set_death_callback(void (*)(void)) __attribute__((weak));

static long nfail = 0, nruns = 0;
static void fail(const kase *k, int i, int j, double got, double want){
  nfail++;
  VRT_EMIT("{\"e\":\"Fail\",\"id\":%ld,\"routine\":\"%s\",\"exp\":%d,\"i\":%d,\"j\":%d,\"got\":\"%.17g\",\"want\":\"%.17g\"}", k->id, cur_routine, cur_exp, i, j, got, want);
}
/* compare a matrix with the expectation; report the worst cell only */
static void cmp_mat(const kase *k, matrix *got, int r, int c, double want[MAXN + 1][MAXN + 1], double tol){
  if(got->row != (size_t)r || got->col != (size_t)c){ fail(k, -1, -1, (double)got->row * 100 + got->col, (double)r * 100 + c); return; }
  double mx = 0; for(int i = 0; i < r; i++) for(int j = 0; j < c; j++) if(fabs(want[i][j]) > mx) mx = fabs(want[i][j]);
  double worst = -1; int wi = 0, wj = 0;
  for(int i = 0; i < r; i++) for(int j = 0; j < c; j++){
    double d = fabs(got->data[i][j] - want[i][j]); if(!vfinite(got->data[i][j])) d = INFINITY;
    if(d > worst){ worst = d; wi = i; wj = j; }
  }
  if(!(worst <= tol * mx)) fail(k, wi, wj, got->data[wi][wj], want[wi][wj]);
}
static void cmp_vec(const kase *k, dvector *got, int n, double want[MAXN + 1], double tol){
  if(got->size != (size_t)n){ fail(k, -1, -1, (double)got->size, (double)n); return; }
  double mx = 0; for(int i = 0; i < n; i++) if(fabs(want[i]) > mx) mx = fabs(want[i]);
  if(mx == 0) mx = 1;
  double worst = -1; int wi = 0;
  for(int i = 0; i < n; i++){ double d = fabs(got->data[i] - want[i]); if(!vfinite(got->data[i])) d = INFINITY; if(d > worst){ worst = d; wi = i; } }
  if(!(worst <= tol * mx)) fail(k, wi, -1, got->data[wi], want[wi]);
}

static void run_case(const kase *k, int e){
  int n = k->n; double u = ldexp(1.0, -e), iu = ldexp(1.0, e);
  /* codes >= 1000: units that are not powers of two (K5 / K4): the entries k * u are rounded, a relative perturbation of one ulp whose effect
     (eps * cond) is far inside the tolerance 1e-9 * cond */
  if(e >= 1000){ static const double U[] = {0.1, 1.0 / 3.0, 1e-6, 1e6}; u = U[(e - 1000) % 4]; iu = 1.0 / u; }
  cur_id = k->id; cur_exp = e; nruns++;
  matrix *A; NewMatrix(&A, n, n);
  for(int i = 0; i < n; i++) for(int j = 0; j < n; j++) A->data[i][j] = (double)k->A[i][j] * u;
  /* determinant (Laplace expansion in the library) against the exact integer */
  cur_routine = "MatrixDeterminant";
  { double want = (double)k->det; for(int q = 0; q < n; q++) want *= u;
    double unit = 1; for(int q = 0; q < n; q++) unit *= u;
    double got = MatrixDeterminant(A);
    if(!vfinite(got) || fabs(got - want) > 1e-9 * fabs(want) + 1e-12 * unit) fail(k, -1, -1, got, want); }
  if(!k->ns){ DelMatrix(&A); return; }
  double W[MAXN + 1][MAXN + 1], w[MAXN + 1];
  double na = 0, ni = 0;
  for(int i = 0; i < n; i++) for(int j = 0; j < n; j++){ na += (double)k->A[i][j] * k->A[i][j]; ni += rv(k->inv[i][j]) * rv(k->inv[i][j]); W[i][j] = rv(k->inv[i][j]) * iu; }
  double cond = sqrt(na) * sqrt(ni), tol = 1e-9 * cond;
  matrix *I1, *I2;
  cur_routine = "MatrixInversion"; initMatrix(&I1); MatrixInversion(A, I1); cmp_mat(k, I1, n, n, W, tol); DelMatrix(&I1);
  cur_routine = "MatrixLUInversion"; initMatrix(&I2); MatrixLUInversion(A, I2); cmp_mat(k, I2, n, n, W, tol); DelMatrix(&I2);
  /* the same calls into outputs that already have the right shape and hold stale numbers (a reused result object) */
  cur_routine = "MatrixInversion"; NewMatrix(&I1, n, n); MatrixSet(I1, 7.25); MatrixInversion(A, I1); cmp_mat(k, I1, n, n, W, tol); DelMatrix(&I1);
  cur_routine = "MatrixLUInversion"; NewMatrix(&I2, n, n); MatrixSet(I2, -3.5); MatrixLUInversion(A, I2); cmp_mat(k, I2, n, n, W, tol); DelMatrix(&I2);
  /* linear system [A | b] */
  cur_routine = "SolveLSE";
  { matrix *G; dvector *s; NewMatrix(&G, n, n + 1); initDVector(&s);
    for(int i = 0; i < n; i++){ for(int j = 0; j < n; j++) G->data[i][j] = A->data[i][j]; G->data[i][n] = (double)k->b[i]; }
    SolveLSE(G, s);
    for(int i = 0; i < n; i++) w[i] = rv(k->x[i]) * iu;
    cmp_vec(k, s, n, w, tol);
    /* second solve of the same system into the already sized, non-zero result vector */
    for(int i = 0; i < n; i++){ for(int j = 0; j < n; j++) G->data[i][j] = A->data[i][j]; G->data[i][n] = (double)k->b[i]; }
    for(size_t i = 0; i < s->size; i++) s->data[i] = 11.0 + (double)i;
    SolveLSE(G, s);
    cmp_vec(k, s, n, w, tol); DelMatrix(&G); DelDVector(&s); }
  /* least squares and pseudo-inverse on the tall (n+1) x n matrix X */
  { matrix *X; dvector *y, *bta; NewMatrix(&X, n + 1, n); NewDVector(&y, n + 1); initDVector(&bta);
    double nx = 0, np = 0;
    for(int i = 0; i <= n; i++){ for(int j = 0; j < n; j++){ X->data[i][j] = (double)k->X[i][j] * u; nx += (double)k->X[i][j] * k->X[i][j]; } y->data[i] = (double)k->y[i]; }
    for(int i = 0; i < n; i++) for(int j = 0; j <= n; j++){ W[i][j] = rv(k->pinv[i][j]) * iu; np += rv(k->pinv[i][j]) * rv(k->pinv[i][j]); }
    double condx = sqrt(nx) * sqrt(np);          /* the normal equations square it */
    cur_routine = "OrdinaryLeastSquares";
    OrdinaryLeastSquares(X, y, bta);
    for(int i = 0; i < n; i++) w[i] = rv(k->beta[i]) * iu;
    cmp_vec(k, bta, n, w, 1e-9 * condx * condx);
    for(size_t i = 0; i < bta->size; i++) bta->data[i] = -5.0 - (double)i;      /* reused, non-zero result vector */
    OrdinaryLeastSquares(X, y, bta);
    cmp_vec(k, bta, n, w, 1e-9 * condx * condx);
    cur_routine = "MatrixMoorePenrosePseudoinverse";
    matrix *P; initMatrix(&P); MatrixMoorePenrosePseudoinverse(X, P); cmp_mat(k, P, n, n + 1, W, 1e-9 * condx * condx);
    /* second call into the output of the first (right shape, holding the previous result) and into a sized output holding stale numbers */
    MatrixMoorePenrosePseudoinverse(X, P); cmp_mat(k, P, n, n + 1, W, 1e-9 * condx * condx);
    DelMatrix(&P); NewMatrix(&P, n, n + 1); MatrixSet(P, 2.75); MatrixMoorePenrosePseudoinverse(X, P); cmp_mat(k, P, n, n + 1, W, 1e-9 * condx * condx);
    DelMatrix(&P); DelMatrix(&X); DelDVector(&y); DelDVector(&bta); }
  DelMatrix(&A);
}

static int rd(FILE *f, long *x){ return fscanf(f, "%ld", x) == 1; }
static int read_case(FILE *f, kase *k){
  long h[4]; for(int q = 0; q < 4; q++) if(!rd(f, &h[q])) return 0;
  k->id = h[0]; k->n = (int)h[1]; k->ns = (int)h[2]; k->det = h[3];
  int n = k->n; if(n < 1 || n > MAXN){ fprintf(stderr, "case %ld: bad n\n", k->id); exit(2); }
#define RD(x) if(!rd(f, &(x))){ fprintf(stderr, "case %ld truncated\n", k->id); exit(2); }
  for(int i = 0; i < n; i++) for(int j = 0; j < n; j++) RD(k->A[i][j]);
  if(!k->ns) return 1;
  for(int i = 0; i < n; i++) for(int j = 0; j < n; j++){ RD(k->inv[i][j].n); RD(k->inv[i][j].d); }
  for(int i = 0; i < n; i++) RD(k->b[i]);
  for(int i = 0; i < n; i++){ RD(k->x[i].n); RD(k->x[i].d); }
  for(int i = 0; i <= n; i++) for(int j = 0; j < n; j++) RD(k->X[i][j]);
  for(int i = 0; i <= n; i++) RD(k->y[i]);
  for(int i = 0; i < n; i++){ RD(k->beta[i].n); RD(k->beta[i].d); }
  for(int i = 0; i < n; i++) for(int j = 0; j <= n; j++){ RD(k->pinv[i][j].n); RD(k->pinv[i][j].d); }
  return 1;
}

int main(int argc, char **argv){
  if(argc < 3){ fprintf(stderr, "usage: c12_replay cases.txt out.ndjson [start_id]\n"); return 2; }
  FILE *f = fopen(argv[1], "r"); if(!f){ perror(argv[1]); return 2; }
  vrt_open(argv[2]);
  long start = argc > 3 ? atol(argv[3]) : 0;
  if(__sanitizer_set_death_callback) __sanitizer_set_death_callback(death);
  signal(SIGSEGV, on_signal); signal(SIGABRT, on_signal); signal(SIGFPE, on_signal); signal(SIGBUS, on_signal);
  kase k; long ncases = 0;
  while(read_case(f, &k)){
    if(k.id < start) continue;
    ncases++;
    run_case(&k, 0); run_case(&k, 14);
    /* the routines are claimed for every well-conditioned matrix whatever its units: far smaller and far larger units
       (2^-34 ~ 6e-11, 2^30 ~ 1e9; still exact in double) on every third case */
    if(k.id % 3 == 0){ run_case(&k, 34); run_case(&k, -30); }
    if(k.id % 3 == 1) run_case(&k, 1000 + (int)((k.id / 3) % 4));
  }
  VRT_EMIT("{\"e\":\"Done\",\"cases\":%ld,\"runs\":%ld,\"fails\":%ld}", ncases, nruns, nfail);
  vrt_close(); fclose(f);
  return 0;
}
