/* c13_val.c - value-class, history and user driver for C13 (multithreaded kernels = sequential definition).
 * usage: c13_val <out.ndjson> <mode> <part> <nparts> <seed> <tier>
 *   mode classes : every threaded kernel on the input classes K1..K9 of INPUT-CLASSES.md (stratified; tier 1 = all)
 *        hist    : K7 in-process histories - every routine that sizes its own output is called with descending and
 *                  ascending row counts and thread counts into ONE output object; integer points, exact tables
 *        users   : selection / clustering algorithms built on the kernels: results independent of the thread count
 * Events (one JSON object per line; judged by TLC against spec/TraceSlicing.tla):
 *   Cmp{site,what,cls,shp,rows,cols,len,th,tol,shape,ndiff,err}   two results compared cell by cell: shape equal, cells not
 *        bit-identical, largest error in units of 2^-53*scale (scale: dot = sum|terms|, dist = exact distance, cos = 1)
 *   Tab{site,kind,form,th,cls,pre,post,n,nb,A,B,self,sq|cv,exact,rep}  a distance table on integer points (cells as integers;
 *        euclidean/cosine in units of 1e-3) with the shape the output object had before and has after the call
 *   Lab{site,th,cls,n,k,P,C,lab,rep}                                labels of integer points against integer centroids
 */
#include "scientific.h"
#include "verif_rt.h"

extern void getLabels_(matrix *m, matrix *centroids, uivector *labels, int nthreads);
extern void getLabels(matrix *m, matrix *centroids, uivector *labels);

static const long double UR = 1.1102230246251565404e-16L;   /* 2^-53 */
typedef struct { int shape; long ndiff, err; } cmp_t;
static void cmp_init(cmp_t *c){ c->shape = 1; c->ndiff = 0; c->err = 0; }
static long units(long double diff, long double scale){
  if(diff == 0) return 0;
  if(!(scale > 0)) return VQ_MAX;
  long double x = diff / (UR * scale);
  if(!(x == x) || x >= (long double)VQ_MAX) return VQ_MAX;
  return (long)ceill(x);
}
static void cmp_dd(cmp_t *c, double a, double b, long double scale){
  long e;
  if(memcmp(&a, &b, 8)) c->ndiff++;
  if(a != a || b != b) e = (a != a && b != b) ? 0 : VQ_MAX;
  else if(isinf(a) || isinf(b)) e = (a == b) ? 0 : VQ_MAX;
  else e = units(fabsl((long double)a - (long double)b), fabsl(scale));
  if(e > c->err) c->err = e;
}
static void cmp_dl(cmp_t *c, double a, long double ref, long double scale){
  long e; double rd = (double)ref;
  if(!(a == rd) && !(a != a && rd != rd)) c->ndiff++;
  if(a != a || ref != ref) e = (a != a && ref != ref) ? 0 : VQ_MAX;
  else if(isinf(a) || isinf(rd)) e = (a == rd) ? 0 : VQ_MAX;
  else e = units(fabsl((long double)a - ref), fabsl(scale));
  if(e > c->err) c->err = e;
}
#define CMP(site, what, cls, shp, rows, cols, len, th, tol, c) \
  VRT_EMIT("{\"e\":\"Cmp\",\"site\":\"%s\",\"what\":\"%s\",\"cls\":\"%s\",\"shp\":\"%s\",\"rows\":%zu,\"cols\":%zu,\"len\":%zu,\"th\":%zu,\"tol\":\"%s\",\"shape\":%d,\"ndiff\":%ld,\"err\":%ld}", \
           site, what, cls, shp, (size_t)(rows), (size_t)(cols), (size_t)(len), (size_t)(th), tol, (c).shape, (c).ndiff, (c).err)

/* ------------------------------------------------------------------ input families */
enum { F_NORMAL, F_INT, F_OFF6, F_OFF8, F_SC_LO, F_SC_HI, F_COLUNITS, F_NONREP, F_DUP, F_GRID, F_MISS_FIRST, F_MISS_LAST, F_MISS_COL, F_OVERFLOW, NFAM };
static const char *FAMTAG[NFAM] = {"K0:normal", "K0:int", "K3:offset1e6", "K3:offset1e8", "K4:scale1e-6", "K4:scale1e6", "K4:colunits-2^-30..2^30",
  "K5:nonrepresentable", "K8:dup-rows-cols-const", "K8:grid-ties", "K9:missing-first-row", "K9:missing-last-row", "K9:missing-column", "K4:overflowing-products"};
static int fam_defok(int f){ return f < F_MISS_FIRST; }           /* the plain definition is unambiguous */
static int fam_exact(int f){ return f == F_INT || f == F_GRID; }  /* sums of small integers: every order is exact */
static const double NONREP[8] = {0.1, 0.2, 0.3, 1.0 / 3.0, 2.0 / 3.0, 0.7, 1e-3, 7e-3};
static double fam_val(int fam, size_t i, size_t j, size_t rows, size_t cols, vrng *r){
  switch(fam){
    case F_INT: return (double)vr_int(r, 1, 9);
    case F_OFF6: return 1e6 + vr_norm(r);
    case F_OFF8: return 1e8 + vr_norm(r);
    case F_SC_LO: return 1e-6 * (vr_norm(r) * 3.0 + 0.5);
    case F_SC_HI: return 1e6 * (vr_norm(r) * 3.0 + 0.5);
    case F_COLUNITS: return ldexp(vr_norm(r) * 3.0 + 0.5, -30 + (int)((60 * j) / (cols > 1 ? cols - 1 : 1)));
    case F_NONREP: return NONREP[vr_int(r, 0, 7)] * (double)(1 + (i + j) % 3);
    case F_GRID: return (double)(1 + (i * (j + 1) + j) % 3);
    default: return vr_norm(r) * 3.0 + 0.5;
  }
}
static void fill_fam(matrix *m, int fam, vrng *r){
  size_t rows = m->row, cols = m->col;
  for(size_t i = 0; i < rows; i++) for(size_t j = 0; j < cols; j++) m->data[i][j] = fam_val(fam, i, j, rows, cols, r);
  if(fam == F_DUP){
    size_t nb = (rows + 1) / 2; if(nb == 0) nb = 1;
    for(size_t i = nb; i < rows; i++) for(size_t j = 0; j < cols; j++) m->data[i][j] = m->data[i % nb][j];
    if(cols >= 3) for(size_t i = 0; i < rows; i++) m->data[i][1] = 2.5;
    if(cols >= 2) for(size_t i = 0; i < rows; i++) m->data[i][cols - 1] = m->data[i][0];
  }
  if(rows && cols){
    if(fam == F_MISS_FIRST) m->data[0][0] = MISSING;
    if(fam == F_MISS_LAST) m->data[rows - 1][cols - 1] = MISSING;
    if(fam == F_MISS_COL) for(size_t i = 0; i < rows; i++) m->data[i][cols - 1] = MISSING;
    if(fam == F_OVERFLOW) for(size_t i = 0; i < rows; i++){ if(i % 3 == 1) m->data[i][1 % cols] = 1e200; if(i % 4 == 2) m->data[i][0] = MISSING; }
  }
}
static void fill_vec(dvector *v, int fam, vrng *r, int which){
  for(size_t j = 0; j < v->size; j++){
    if(fam_exact(fam)) v->data[j] = (double)vr_int(r, 1, 9);
    else if(fam == F_OFF6 || fam == F_OFF8) v->data[j] = 1.0 + 0.25 * vr_norm(r);      /* same sign: sum|terms| = |sum| */
    else if(fam == F_SC_LO) v->data[j] = 1e-6 * (vr_norm(r) + 2.0);
    else if(fam == F_SC_HI) v->data[j] = 1e6 * (vr_norm(r) + 2.0);
    else if(fam == F_NONREP) v->data[j] = NONREP[vr_int(r, 0, 7)];
    else v->data[j] = vr_norm(r) + 2.0;
  }
  if(v->size){
    if(fam == F_MISS_FIRST && which == 1) v->data[0] = MISSING;
    if(fam == F_MISS_LAST && which == 0) v->data[v->size - 1] = MISSING;
    if(fam == F_OVERFLOW) v->data[1 % v->size] = 1e200;
  }
}

/* ------------------------------------------------------------------ definitions, written independently of the library */
static int is_missing(double x){ return (MISSING - 1e-1) < x && x < (MISSING + 1e-1); }
/* one term of the library's products: skipped when an operand carries the missing code or the product is not finite */
static int term(double a, double b, long double *t){ if(is_missing(a) || is_missing(b)) return 0; double p = a * b; if(p != p || isinf(p)) return 0; *t = (long double)a * (long double)b; return 1; }
static long double def_dist(matrix *a, size_t i, matrix *b, size_t k, int kind){
  long double s = 0, da = 0, db = 0;
  for(size_t j = 0; j < a->col; j++){
    long double x = a->data[i][j], y = b->data[k][j];
    if(kind == 0 || kind == 1) s += (x - y) * (x - y); else if(kind == 2) s += fabsl(x - y); else { s += x * y; da += x * x; db += y * y; }
  }
  if(kind == 0) return sqrtl(s); if(kind == 3) return s / (sqrtl(da) * sqrtl(db)); return s;
}
/* the documented condensed index map, written independently of square_to_condensed_index() */
static size_t idx_doc(size_t i, size_t j, size_t n){ size_t a = i < j ? i : j, b = i < j ? j : i; return n * a - a * (a + 1) / 2 + b - 1 - a; }
static enum cmethod CM[4] = {EUCLIDEAN, SQUARE_EUCLIDEAN, MANHATTAN, COSINE};
static const char *CMN[4] = {"euclidean", "sqeuclidean", "manhattan", "cosine"};
typedef void (*condfn)(matrix *, dvector *, size_t);
typedef void (*stfn)(matrix *, matrix *, matrix *);
static condfn CF[4]; static stfn SF[4];
static const char *dist_tol(int kind, int exact){ if(kind == 3) return "cos"; if(exact && (kind == 1 || kind == 2)) return "exact"; return "dist"; }
static long double dist_scale(int kind, long double ref){ return kind == 3 ? 1.0L : ref; }

/* persistent output objects: every call after the first finds them sized and filled by an earlier case (K7 reuse) */
static matrix *PD[4]; static dvector *PC[4]; static uivector *PL; static matrix *PCEN;

static void mat_cmp_dd(cmp_t *c, matrix *a, matrix *b, matrix *A, matrix *B, int kind){
  if(a->row != b->row || a->col != b->col){ c->shape = 0; return; }
  for(size_t k = 0; k < a->row; k++) for(size_t i = 0; i < a->col; i++)
    cmp_dd(c, a->data[k][i], b->data[k][i], A ? dist_scale(kind, def_dist(A, i, B, k, kind)) : 1.0L);
}
static void vec_cmp_dd(cmp_t *c, dvector *a, dvector *b){
  if(a->size != b->size){ c->shape = 0; return; }
  for(size_t i = 0; i < a->size; i++) cmp_dd(c, a->data[i], b->data[i], 1.0L);
}

/* ---- the two MT products */
static void run_products(int fam, const char *shp, matrix *m, size_t th, vrng *R){
  const char *cls = FAMTAG[fam];
  for(int which = 0; which < 2; which++){
    /* which 0: p = m v (slices over rows, reduction over columns); which 1: p = v' m (slices over columns, reduction over rows) */
    size_t nout = which == 0 ? m->row : m->col, len = which == 0 ? m->col : m->row;
    const char *site = which == 0 ? "MT_MatrixDVectorDotProduct" : "MT_DVectorMatrixDotProduct";
    dvector *v, *p[3], *q; NewDVector(&v, len); fill_vec(v, fam, R, which);
    for(int k = 0; k < 3; k++){ NewDVector(&p[k], nout); vrt_force_nproc(th); if(which == 0) MT_MatrixDVectorDotProduct(m, v, p[k]); else MT_DVectorMatrixDotProduct(m, v, p[k]); vrt_force_nproc(1); }
    NewDVector(&q, nout); if(which == 0) MatrixDVectorDotProduct(m, v, q); else DVectorMatrixDotProduct(m, v, q);
    cmp_t cd, cs, cr; cmp_init(&cd); cmp_init(&cs); cmp_init(&cr);
    for(size_t o = 0; o < nout; o++){
      long double s = 0, S = 0, t;
      for(size_t r = 0; r < len; r++){ double a = which == 0 ? m->data[o][r] : v->data[r], b = which == 0 ? v->data[r] : m->data[r][o]; if(term(a, b, &t)){ s += t; S += fabsl(t); } }
      cmp_dl(&cd, p[0]->data[o], s, S);
      cmp_dd(&cs, p[0]->data[o], q->data[o], S);
    }
    vec_cmp_dd(&cr, p[0], p[1]); vec_cmp_dd(&cr, p[0], p[2]);
    const char *tol = fam_exact(fam) ? "exact" : "dot";
    if(fam_defok(fam)) CMP(site, "mt-vs-def", cls, shp, nout, len, len, th, tol, cd);
    CMP(site, "mt-vs-st", cls, shp, nout, len, len, th, tol, cs);
    CMP(site, "repeat", cls, shp, nout, len, len, th, "exact", cr);
    for(int k = 0; k < 3; k++) DelDVector(&p[k]);
    DelDVector(&q); DelDVector(&v);
  }
}

/* ---- CalculateDistance (4 kinds), *_ST, the four condensed forms */
static void run_dist(int fam, const char *shp, matrix *a, matrix *b, size_t th){
  const char *cls = FAMTAG[fam]; size_t rows = a->row, cols = a->col; char site[64];
  for(int kind = 0; kind < 4; kind++){
    matrix *D1, *S; initMatrix(&D1); initMatrix(&S);
    CalculateDistance(a, b, D1, th, CM[kind]);
    cmp_t cd, cs, cr; cmp_init(&cd); cmp_init(&cs); cmp_init(&cr);
    CalculateDistance(a, b, PD[kind], th, CM[kind]); mat_cmp_dd(&cr, D1, PD[kind], NULL, NULL, kind);   /* into an object of another shape */
    CalculateDistance(a, b, PD[kind], th, CM[kind]); mat_cmp_dd(&cr, D1, PD[kind], NULL, NULL, kind);   /* into the same shape */
    SF[kind](a, b, S);
    if(D1->row != b->row || D1->col != rows) cd.shape = 0;
    else for(size_t k = 0; k < b->row; k++) for(size_t i = 0; i < rows; i++){ long double ref = def_dist(a, i, b, k, kind); cmp_dl(&cd, D1->data[k][i], ref, dist_scale(kind, ref)); }
    mat_cmp_dd(&cs, D1, S, a, b, kind);
    snprintf(site, 64, "CalculateDistance:%s", CMN[kind]);
    const char *tol = dist_tol(kind, fam_exact(fam));
    if(fam_defok(fam)) CMP(site, "mt-vs-def", cls, shp, rows, cols, cols, th, tol, cd);
    CMP(site, "mt-vs-st", cls, shp, rows, cols, cols, th, tol, cs);
    CMP(site, "repeat", cls, shp, rows, cols, cols, th, "exact", cr);
    DelMatrix(&D1); DelMatrix(&S);
  }
  for(int kind = 0; kind < 4; kind++){
    dvector *c1; matrix *Sq; initDVector(&c1); initMatrix(&Sq);
    CF[kind](a, c1, th);
    cmp_t cd, cq, cr; cmp_init(&cd); cmp_init(&cq); cmp_init(&cr);
    CF[kind](a, PC[kind], th); vec_cmp_dd(&cr, c1, PC[kind]);
    CF[kind](a, PC[kind], th); vec_cmp_dd(&cr, c1, PC[kind]);
    SF[kind](a, a, Sq);
    { matrix *Sm; initMatrix(&Sm); CalculateDistance(a, a, Sm, th, CM[kind]);        /* m1 and m2 are the SAME object */
      cmp_t cself; cmp_init(&cself); mat_cmp_dd(&cself, Sm, Sq, a, a, kind);
      snprintf(site, 64, "CalculateDistance:%s", CMN[kind]);
      CMP(site, "mt-vs-st", cls, "K7:self-same-object", rows, cols, cols, th, dist_tol(kind, fam_exact(fam)), cself);
      DelMatrix(&Sm); }
    if(c1->size != (rows * rows - rows) / 2 || Sq->row != rows || Sq->col != rows){ cd.shape = 0; cq.shape = 0; }
    else for(size_t i = 0; i < rows; i++) for(size_t j = i + 1; j < rows; j++){
      size_t ix = idx_doc(i, j, rows);
      if(ix >= c1->size || square_to_condensed_index(i, j, rows) != ix || square_to_condensed_index(j, i, rows) != ix){ cq.shape = 0; cd.shape = 0; continue; }
      long double ref = def_dist(a, i, a, j, kind);
      cmp_dl(&cd, c1->data[ix], ref, dist_scale(kind, ref));
      cmp_dd(&cq, c1->data[ix], Sq->data[j][i], dist_scale(kind, ref));
    }
    snprintf(site, 64, "DistanceCondensed:%s", CMN[kind]);
    const char *tol = dist_tol(kind, fam_exact(fam));
    if(fam_defok(fam)) CMP(site, "mt-vs-def", cls, shp, rows, cols, cols, th, tol, cd);
    CMP(site, "cond-vs-square", cls, shp, rows, cols, cols, th, tol, cq);
    CMP(site, "repeat", cls, shp, rows, cols, cols, th, "exact", cr);
    DelDVector(&c1); DelMatrix(&Sq);
  }
}

/* ---- getLabels_ against the sequential getLabels */
static void run_labels(int fam, const char *shp, matrix *a, size_t th){
  size_t rows = a->row, cols = a->col; if(rows == 0) return;
  size_t k = rows < 4 ? rows : 4; matrix *cen; NewMatrix(&cen, k, cols);
  for(size_t i = 0; i < k; i++) for(size_t j = 0; j < cols; j++) cen->data[i][j] = a->data[(i * 7) % rows][j];
  if(k >= 3) for(size_t j = 0; j < cols; j++) cen->data[2][j] = cen->data[1][j];       /* a duplicated centroid: exact ties */
  uivector *l[3], *ls; NewUIVector(&ls, rows); getLabels(a, cen, ls);
  cmp_t cs, cr; cmp_init(&cs); cmp_init(&cr);
  for(int r = 0; r < 3; r++){ NewUIVector(&l[r], rows); for(size_t i = 0; i < rows; i++) l[r]->data[i] = 777 + r; getLabels_(a, cen, l[r], (int)th); }
  for(size_t i = 0; i < rows; i++){ if(l[0]->data[i] != ls->data[i]) cs.ndiff++; if(l[0]->data[i] != l[1]->data[i] || l[0]->data[i] != l[2]->data[i]) cr.ndiff++; }
  CMP("getLabels_", "mt-vs-st", FAMTAG[fam], shp, rows, cols, cols, th, "exact", cs);
  CMP("getLabels_", "repeat", FAMTAG[fam], shp, rows, cols, cols, th, "exact", cr);
  for(int r = 0; r < 3; r++) DelUIVector(&l[r]);
  DelUIVector(&ls); DelMatrix(&cen);
}

/* ------------------------------------------------------------------ mode classes */
typedef struct { int fam; size_t rows, cols, th; const char *shp; } vcase;
static vcase *cases = NULL; static size_t ncases = 0, capcases = 0;
static void add_case(int fam, size_t rows, size_t cols, size_t th, const char *shp){
  if(ncases == capcases){ capcases = capcases ? 2 * capcases : 1024; cases = realloc(cases, capcases * sizeof(vcase)); }
  cases[ncases].fam = fam; cases[ncases].rows = rows; cases[ncases].cols = cols; cases[ncases].th = th; cases[ncases].shp = shp; ncases++;
}
static const size_t TH7[7] = {1, 2, 3, 5, 8, 16, 24};
static void build_cases(int tier, vrng *R){
  static const struct { size_t r, c; const char *t; } K1[7] = {{7, 3, "K1:tall"}, {5, 5, "K1:square"}, {3, 10, "K1:wide"}, {6, 1, "K1:single-col"}, {1, 4, "K1:single-row"}, {4, 5, "K1:n=p-1"}, {6, 5, "K1:n=p+1"}};
  for(int f = 0; f < NFAM; f++) for(int s = 0; s < 7; s++){
    if(tier){ for(int t = 0; t < 7; t++) add_case(f, K1[s].r, K1[s].c, TH7[t], K1[s].t); }
    else { add_case(f, K1[s].r, K1[s].c, TH7[(f + s) % 7], K1[s].t); add_case(f, K1[s].r, K1[s].c, TH7[(f + 2 * s + 3) % 7], K1[s].t); }
  }
  /* K2: slice boundaries rows = k th, k th +- 1 (value comparisons), column blocks of 4 / 8 and +-1 */
  static const size_t C2[6] = {4, 3, 5, 8, 7, 9};
  for(int t = 1; t < 7; t++) for(int k = 1; k <= 2; k++) for(int d = -1; d <= 1; d++){
    size_t th = TH7[t], rows = k * th + d; if(rows > 60) continue;
    int idx = (t * 6 + k * 3 + d + 1);
    add_case(idx % 2 ? F_NORMAL : F_INT, rows, C2[idx % 6], th, d == 0 ? "K2:rows=k*th" : (d < 0 ? "K2:rows=k*th-1" : "K2:rows=k*th+1"));
    if(tier) add_case(idx % 2 ? F_INT : F_NORMAL, rows, C2[(idx + 1) % 6], th, d == 0 ? "K2:rows=k*th" : (d < 0 ? "K2:rows=k*th-1" : "K2:rows=k*th+1"));
  }
  static const size_t R2[5] = {31, 32, 33, 59, 60};
  for(int i = 0; i < 5; i++){ add_case(i % 2 ? F_INT : F_NORMAL, R2[i], 4 + i % 2 * 4, 4, "K2:rows-32-60-boundary"); add_case(i % 2 ? F_NORMAL : F_INT, R2[i], 10, 32, "K2:rows-32-60-boundary"); }
  /* thread counts around every power of two a clamp could sit at (the code has none today; MAXTHREADS 256 is defined in matrix.c) */
  static const size_t THC[12] = {33, 65, 129, 257, 32, 64, 128, 256, 31, 63, 127, 255};
  for(int i = 0; i < (tier ? 12 : 4); i++) add_case(i % 3 == 2 ? F_INT : F_NORMAL, i % 2 ? 40 : 60, 3, THC[i], "K6:clamp-straddle");
  /* thorough: random shapes up to 60 x 10, random families and thread counts */
  for(int i = 0; tier && i < 1500; i++) add_case((int)vr_int(R, 0, NFAM - 1), (size_t)vr_int(R, 0, 60), (size_t)vr_int(R, 1, 10), (size_t)vr_int(R, 1, 30), "K1:random-shape");
}
static void mode_classes(int part, int nparts, uint64_t seed, int tier){
  vrng R0 = { seed * 2654435761ULL + 99 }; build_cases(tier, &R0);
  for(size_t ci = 0; ci < ncases; ci++){
    if((int)(ci % (size_t)nparts) != part) continue;
    vcase *c = &cases[ci]; vrng R = { seed * 2654435761ULL + 17 + ci * 7919 };
    VRT_EMIT("{\"e\":\"Reset\",\"rows\":%zu,\"th\":%zu}", c->rows, c->th);
    matrix *a, *b; NewMatrix(&a, c->rows, c->cols); fill_fam(a, c->fam, &R);
    size_t nb = 1 + ci % 3; NewMatrix(&b, nb, c->cols); fill_fam(b, c->fam == F_OVERFLOW ? F_NORMAL : c->fam, &R);
    run_products(c->fam, c->shp, a, c->th, &R);
    if(c->fam != F_OVERFLOW){ run_dist(c->fam, c->shp, a, b, c->th); run_labels(c->fam, c->shp, a, c->th); }
    DelMatrix(&a); DelMatrix(&b);
  }
}

/* ------------------------------------------------------------------ mode hist: integer points, exact tables, one output object */
static char TB[1 << 18];
static int put_pts(char *buf, int p, int cap, const char *name, matrix *m){
  p += snprintf(buf + p, cap - p, "\"%s\":[", name);
  for(size_t i = 0; i < m->row; i++){ p += snprintf(buf + p, cap - p, "%s[", i ? "," : ""); for(size_t j = 0; j < m->col; j++) p += snprintf(buf + p, cap - p, "%s%ld", j ? "," : "", (long)m->data[i][j]); p += snprintf(buf + p, cap - p, "]"); }
  p += snprintf(buf + p, cap - p, "],");
  return p;
}
static long qcell(double v, int kind, int *exact){
  if(v != v || isinf(v)){ *exact = 0; return VQ_MAX; }
  if(kind == 1 || kind == 2){ if(v != floor(v) || fabs(v) > 1e9){ *exact = 0; return VQ_MAX; } return (long)v; }
  if(fabs(v) > 1e6){ *exact = 0; return VQ_MAX; }
  return vqs_unit(v, 1e-3);
}
static const char *k7_class(long pre, long post, int same_shape){
  if(pre == 0) return "K7:fresh"; if(post == 0) return "K7:stale-to-empty"; if(pre > post) return "K7:stale-larger"; if(pre < post) return "K7:stale-smaller";
  return same_shape ? "K7:same-shape" : "K7:reshape";
}
static void int_points(matrix *m, int kind, vrng *R){
  long lim = kind == 3 ? 2 : 6;
  for(size_t i = 0; i < m->row; i++){
    int nz = 0; for(size_t j = 0; j < m->col; j++){ m->data[i][j] = (double)vr_int(R, -lim, lim); if(m->data[i][j] != 0) nz = 1; }
    if(kind == 3 && !nz) m->data[i][i % m->col] = 1.0;                     /* the cosine of a zero vector is undefined */
    if(i >= 2 && i % 3 == 2) for(size_t j = 0; j < m->col; j++) m->data[i][j] = m->data[i - 2][j];   /* duplicate points: zero distances, ties */
  }
}
/* form 0: CalculateDistance; form 1: condensed; form 2: the *_ST routine.  out = the persistent object, called three times */
static void hist_call(int form, int kind, matrix *A, matrix *B, int self, size_t th, matrix *OM, dvector *OV, const char *extra_cls){
  int cap = (int)sizeof(TB), p = 0, exact = 1; long rep = 0;
  long pre0 = form == 1 ? (long)OV->size : (long)OM->row, pre1 = form == 1 ? -1 : (long)OM->col;
  size_t n = A->row, nb = form == 1 ? n : B->row;
  long post_cells = form == 1 ? (long)((n * n - n) / 2) : (long)(nb * n), pre_cells = form == 1 ? pre0 : pre0 * pre1;
  const char *cls = extra_cls ? extra_cls : k7_class(pre_cells, post_cells, form == 1 ? 1 : (pre0 == (long)nb && pre1 == (long)n));
  matrix *keepM = NULL; dvector *keepV = NULL;
  for(int r = 0; r < 3; r++){
    if(form == 0) CalculateDistance(A, B, OM, th, CM[kind]); else if(form == 1) CF[kind](A, OV, th); else SF[kind](A, B, OM);
    if(r == 0){ if(form == 1){ NewDVector(&keepV, OV->size); for(size_t i = 0; i < OV->size; i++) keepV->data[i] = OV->data[i]; }
                else { NewMatrix(&keepM, OM->row, OM->col); for(size_t i = 0; i < OM->row; i++) for(size_t j = 0; j < OM->col; j++) keepM->data[i][j] = OM->data[i][j]; } }
    else if(form == 1){ if(keepV->size != OV->size) rep += 1 + (long)OV->size; else for(size_t i = 0; i < OV->size; i++) if(memcmp(&keepV->data[i], &OV->data[i], 8)) rep++; }
    else { if(keepM->row != OM->row || keepM->col != OM->col) rep += 1 + (long)(OM->row * OM->col); else for(size_t i = 0; i < OM->row; i++) for(size_t j = 0; j < OM->col; j++) if(memcmp(&keepM->data[i][j], &OM->data[i][j], 8)) rep++; }
  }
  p += snprintf(TB + p, cap - p, "{\"e\":\"Tab\",\"site\":\"%s\",\"kind\":\"%s\",\"form\":\"%s\",\"th\":%zu,\"cls\":\"%s\",", form == 0 ? "CalculateDistance" : (form == 1 ? "DistanceCondensed" : "Distance_ST"), CMN[kind], form == 1 ? "condensed" : "square", th, cls);
  if(form == 1) p += snprintf(TB + p, cap - p, "\"pre\":[%ld],\"post\":[%zu],", pre0, keepV->size); else p += snprintf(TB + p, cap - p, "\"pre\":[%ld,%ld],\"post\":[%zu,%zu],", pre0, pre1, keepM->row, keepM->col);
  p += snprintf(TB + p, cap - p, "\"n\":%zu,\"nb\":%zu,\"d\":%zu,\"self\":%d,", n, nb, A->col, self);
  p = put_pts(TB, p, cap, "A", A); if(form != 1) p = put_pts(TB, p, cap, "B", B);
  if(form == 1){ p += snprintf(TB + p, cap - p, "\"cv\":["); for(size_t i = 0; i < keepV->size; i++) p += snprintf(TB + p, cap - p, "%s%ld", i ? "," : "", qcell(keepV->data[i], kind, &exact)); p += snprintf(TB + p, cap - p, "],"); }
  else { p += snprintf(TB + p, cap - p, "\"sq\":["); for(size_t k = 0; k < keepM->row; k++){ p += snprintf(TB + p, cap - p, "%s[", k ? "," : ""); for(size_t i = 0; i < keepM->col; i++) p += snprintf(TB + p, cap - p, "%s%ld", i ? "," : "", qcell(keepM->data[k][i], kind, &exact)); p += snprintf(TB + p, cap - p, "]"); } p += snprintf(TB + p, cap - p, "],"); }
  p += snprintf(TB + p, cap - p, "\"exact\":%d,\"rep\":%ld}", exact, rep);
  if(p >= cap - 8){ fprintf(stderr, "c13_val: Tab buffer overflow\n"); exit(3); }
  VRT_EMIT("%s", TB);
  if(keepM) DelMatrix(&keepM); if(keepV) DelDVector(&keepV);
}
static void emit_lab(const char *site, size_t th, const char *cls, matrix *P, matrix *C, uivector *lab, long rep){
  int cap = (int)sizeof(TB), p = 0;
  p += snprintf(TB + p, cap - p, "{\"e\":\"Lab\",\"site\":\"%s\",\"th\":%zu,\"cls\":\"%s\",\"n\":%zu,\"k\":%zu,", site, th, cls, P->row, C->row);
  p = put_pts(TB, p, cap, "P", P); p = put_pts(TB, p, cap, "C", C);
  p += snprintf(TB + p, cap - p, "\"lab\":["); for(size_t i = 0; i < lab->size; i++) p += snprintf(TB + p, cap - p, "%s%ld", i ? "," : "", lab->data[i] > 1000000 ? 1000000L : (long)lab->data[i]);
  p += snprintf(TB + p, cap - p, "],\"rep\":%ld}", rep);
  VRT_EMIT("%s", TB);
}
static void mode_hist(uint64_t seed, int tier){
  vrng R = { seed * 2654435761ULL + 4242 };
  static const size_t NSEQ[16] = {6, 6, 5, 4, 3, 2, 1, 1, 0, 0, 1, 2, 3, 4, 5, 6};
  enum { NS = 16 };
  static const size_t NCYC[7] = {5, 0, 4, 1, 3, 2, 6};
  int rounds = tier ? 8 : 1;
  for(int round = 0; round < rounds; round++)
  for(int form = 0; form < 3; form++) for(int kind = 0; kind < 4; kind++){
    matrix *OM; dvector *OV; initMatrix(&OM); initDVector(&OV);
    VRT_EMIT("{\"e\":\"Reset\",\"rows\":6,\"th\":1}");
    int ncalls = form == 2 ? NS : NS + 14;
    for(int s = 0; s < ncalls; s++){
      size_t n, th, nb; int self;
      if(s < NS){ n = NSEQ[s] + (size_t)round; if(NSEQ[s] == 0 || NSEQ[s] == 1) n = NSEQ[s]; th = TH7[(s + kind) % 7]; nb = n; self = 1; }
      else { int t = s - NS; th = t < 7 ? TH7[t] : TH7[13 - t]; n = NCYC[(t + kind) % 7]; nb = (n + 2 + (size_t)round) % 4; self = 0; }
      if(form == 2) th = 1;
      size_t d = 1 + (size_t)((s + kind + round) % 4);
      matrix *A, *B; NewMatrix(&A, n, d); int_points(A, kind, &R);
      if(self || form == 1){ NewMatrix(&B, n, d); for(size_t i = 0; i < n; i++) for(size_t j = 0; j < d; j++) B->data[i][j] = A->data[i][j]; }
      else { NewMatrix(&B, nb, d); int_points(B, kind, &R); }
      hist_call(form, kind, A, (self && s % 2 == 0) ? A : B, (self || form == 1) ? 1 : 0, th, OM, OV, NULL);
      if(s % 3 == 0 && n > 0){
        /* the same input objects (addresses, shapes) refilled in place with other points: a result remembered by address is stale now */
        int_points(A, kind, &R);
        if(self || form == 1){ for(size_t i = 0; i < n; i++) for(size_t j = 0; j < d; j++) B->data[i][j] = A->data[i][j]; } else int_points(B, kind, &R);
        hist_call(form, kind, A, (self && s % 2 == 0) ? A : B, (self || form == 1) ? 1 : 0, th, OM, OV, "K7:inplace-refill");
      }
      DelMatrix(&A); DelMatrix(&B);
    }
    DelMatrix(&OM); DelDVector(&OV);
  }
  /* K2 on exact tables: rows = k th, k th +- 1 for small thread counts, fresh and reused objects */
  { matrix *OM; dvector *OV; initMatrix(&OM); initDVector(&OV);
    static const size_t T2[4] = {2, 3, 5, 8};
    for(int t = 0; t < (tier ? 4 : 3); t++) for(int k = 1; k <= 2; k++) for(int dd = -1; dd <= 1; dd++){
      size_t th = T2[t], n = k * th + dd; int kind = (t + k + dd + 4) % 4;
      matrix *A, *B; NewMatrix(&A, n, 2 + (size_t)k); int_points(A, kind, &R); NewMatrix(&B, n, 2 + (size_t)k); for(size_t i = 0; i < n; i++) for(size_t j = 0; j < A->col; j++) B->data[i][j] = A->data[i][j];
      hist_call(0, kind, A, B, 1, th, OM, OV, dd == 0 ? "K2:rows=k*th" : (dd < 0 ? "K2:rows=k*th-1" : "K2:rows=k*th+1"));
      hist_call(1, kind, A, B, 1, th, OM, OV, dd == 0 ? "K2:rows=k*th" : (dd < 0 ? "K2:rows=k*th-1" : "K2:rows=k*th+1"));
      DelMatrix(&A); DelMatrix(&B);
    }
    DelMatrix(&OM); DelDVector(&OV); }
  /* the MT products through the same history of shapes and processor counts; the matrix object is refilled IN PLACE
     (same address, same shape, other data) between two calls, outputs are fresh zero-initialised vectors */
  VRT_EMIT("{\"e\":\"Reset\",\"rows\":6,\"th\":1}");
  for(int s = 0; s < NS + 14; s++){
    size_t n, th; if(s < NS){ n = NSEQ[s]; th = TH7[s % 7]; } else { int t = s - NS; th = t < 7 ? TH7[t] : TH7[13 - t]; n = NCYC[t % 7]; }
    size_t cols = 1 + (size_t)(s % 4);
    matrix *m; NewMatrix(&m, n, cols);
    dvector *vv[2]; NewDVector(&vv[0], cols); NewDVector(&vv[1], n);
    for(int which = 0; which < 2; which++) for(size_t j = 0; j < vv[which]->size; j++) vv[which]->data[j] = (double)vr_int(&R, -9, 9);
    for(int refill = 0; refill < 2; refill++){
      for(size_t i = 0; i < n; i++) for(size_t j = 0; j < cols; j++) m->data[i][j] = (double)vr_int(&R, -9, 9);
      for(int which = 0; which < 2; which++){
        size_t nout = which == 0 ? n : cols, len = which == 0 ? cols : n;
        dvector *v = vv[which], *p;
        cmp_t cd, cr; cmp_init(&cd); cmp_init(&cr); dvector *first = NULL;
        for(int r = 0; r < 3; r++){
          NewDVector(&p, nout); vrt_force_nproc(th); if(which == 0) MT_MatrixDVectorDotProduct(m, v, p); else MT_DVectorMatrixDotProduct(m, v, p); vrt_force_nproc(1);
          if(r == 0){ first = p; for(size_t o = 0; o < nout; o++){ long double sdef = 0; for(size_t q = 0; q < len; q++) sdef += which == 0 ? (long double)m->data[o][q] * v->data[q] : (long double)v->data[q] * m->data[q][o]; cmp_dl(&cd, p->data[o], sdef, 1.0L); } }
          else { vec_cmp_dd(&cr, first, p); DelDVector(&p); }
        }
        const char *site = which == 0 ? "MT_MatrixDVectorDotProduct" : "MT_DVectorMatrixDotProduct";
        CMP(site, "mt-vs-def", refill ? "K7:inplace-refill" : "K7:shape-history", "K7:hist", nout, len, len, th, "exact", cd);
        CMP(site, "repeat", refill ? "K7:inplace-refill" : "K7:shape-history", "K7:hist", nout, len, len, th, "exact", cr);
        DelDVector(&first);
      }
    }
    DelDVector(&vv[0]); DelDVector(&vv[1]);
    DelMatrix(&m);
  }
  /* labels of integer points (exact ties: duplicated centroids, points on bisectors) through the thread history */
  for(int s = 0; s < 14 * (tier ? 3 : 1); s++){
    size_t th = (s % 14) < 7 ? TH7[s % 14] : TH7[13 - s % 14], n = 1 + (size_t)((s * 5) % 9), k = 1 + (size_t)(s % 4), d = 1 + (size_t)(s % 3);
    matrix *P, *C; NewMatrix(&P, n, d); NewMatrix(&C, k, d);
    for(size_t i = 0; i < n; i++) for(size_t j = 0; j < d; j++) P->data[i][j] = (double)vr_int(&R, -4, 4);
    for(size_t i = 0; i < k; i++) for(size_t j = 0; j < d; j++) C->data[i][j] = (double)(2 * vr_int(&R, -2, 2));
    if(k >= 3) for(size_t j = 0; j < d; j++) C->data[k - 1][j] = C->data[0][j];
    uivector *l[3]; long rep = 0;
    for(int r = 0; r < 3; r++){ NewUIVector(&l[r], n); for(size_t i = 0; i < n; i++) l[r]->data[i] = 777 + r; getLabels_(P, C, l[r], (int)th); }
    for(size_t i = 0; i < n; i++) if(l[0]->data[i] != l[1]->data[i] || l[0]->data[i] != l[2]->data[i]) rep++;
    emit_lab("getLabels_", th, "K8:label-ties", P, C, l[0], rep);
    uivector *ls; NewUIVector(&ls, n); getLabels(P, C, ls); emit_lab("getLabels", 1, "K8:label-ties", P, C, ls, 0); DelUIVector(&ls);
    for(int r = 0; r < 3; r++) DelUIVector(&l[r]);
    DelMatrix(&P); DelMatrix(&C);
  }
}

/* ------------------------------------------------------------------ mode users */
static void uiv_cmp(cmp_t *c, uivector *a, uivector *b){ if(a->size != b->size){ c->shape = 0; return; } for(size_t i = 0; i < a->size; i++) if(a->data[i] != b->data[i]) c->ndiff++; }
static void mat_cmp(cmp_t *c, matrix *a, matrix *b){ if(a->row != b->row || a->col != b->col){ c->shape = 0; return; } for(size_t i = 0; i < a->row; i++) for(size_t j = 0; j < a->col; j++) if(memcmp(&a->data[i][j], &b->data[i][j], 8)) c->ndiff++; }
typedef void (*selfn)(matrix *, size_t, int, uivector *, size_t);
static void mode_users(int part, int nparts, uint64_t seed, int tier){
  static const int FAMS[6] = {F_NORMAL, F_GRID, F_DUP, F_NONREP, F_OFF6, F_INT};
  static const struct { size_t r, c; const char *t; } SH[5] = {{9, 3, "K1:tall"}, {4, 6, "K1:wide"}, {12, 2, "K1:tall"}, {7, 1, "K1:single-col"}, {16, 4, "K2:rows=k*th"}};
  static const size_t THU[8] = {2, 3, 5, 8, 16, 24, 33, 64};
  selfn SEL[3] = {MDC, MaxDis, MaxDis_Fast}; const char *SELN[3] = {"MDC", "MaxDis", "MaxDis_Fast"};
  size_t ci = 0;
  for(int f = 0; f < 6; f++) for(int s = 0; s < 5; s++) for(int t = 0; t < 8; t++, ci++){
    if(!tier && ((f + s + t) % 6 != 0 || THU[t] > 33)) continue;
    if((int)(ci % (size_t)nparts) != part) continue;
    int fam = FAMS[f]; size_t rows = SH[s].r, cols = SH[s].c, th = THU[t];
    vrng R = { seed * 2654435761ULL + 31337 + ci * 104729 };
    VRT_EMIT("{\"e\":\"Reset\",\"rows\":%zu,\"th\":%zu}", rows, th);
    matrix *a; NewMatrix(&a, rows, cols); fill_fam(a, fam, &R);
    size_t nsel = 1 + rows / 3; char site[64];
    for(int alg = 0; alg < 3; alg++) for(int metric = 0; metric < 3; metric++){
      uivector *s1, *st, *st2; initUIVector(&s1); initUIVector(&st); initUIVector(&st2);
      SEL[alg](a, nsel, metric, s1, 1); SEL[alg](a, nsel, metric, st, th); SEL[alg](a, nsel, metric, st2, th);
      cmp_t c1, cr; cmp_init(&c1); cmp_init(&cr); uiv_cmp(&c1, s1, st); uiv_cmp(&cr, st, st2);
      if(st->size != nsel) c1.shape = 0;
      snprintf(site, 64, "%s:%s", SELN[alg], metric == 0 ? "euclidean" : (metric == 1 ? "manhattan" : "cosine"));
      CMP(site, "vs-1thread", FAMTAG[fam], SH[s].t, rows, cols, cols, th, "exact", c1);
      CMP(site, "repeat", FAMTAG[fam], SH[s].t, rows, cols, cols, th, "exact", cr);
      DelUIVector(&s1); DelUIVector(&st); DelUIVector(&st2);
    }
    { uivector *s1, *st; initUIVector(&s1); initUIVector(&st);
      srand_(12345 + (uint32_t)ci); KMeansppCenters(a, nsel, s1, 1);
      srand_(12345 + (uint32_t)ci); KMeansppCenters(a, nsel, st, (int)th);
      cmp_t c1; cmp_init(&c1); uiv_cmp(&c1, s1, st);
      CMP("KMeansppCenters", "vs-1thread", FAMTAG[fam], SH[s].t, rows, cols, cols, th, "exact", c1);
      DelUIVector(&s1); DelUIVector(&st); }
    for(int init = 1; init <= 3; init++){
      /* the threaded run writes into the persistent label vector / centroid matrix (sized and filled by earlier cases) */
      uivector *l1; matrix *c1m; initUIVector(&l1); initMatrix(&c1m);
      size_t k = rows < 4 ? 2 : 3;
      srand_(777 + (uint32_t)ci); KMeans(a, k, init, l1, c1m, 1);
      srand_(777 + (uint32_t)ci); KMeans(a, k, init, PL, PCEN, th);
      cmp_t c1; cmp_init(&c1); uiv_cmp(&c1, l1, PL); { cmp_t cm; cmp_init(&cm); mat_cmp(&cm, c1m, PCEN); c1.ndiff += cm.ndiff; if(!cm.shape) c1.shape = 0; }
      if(PL->size != rows || PCEN->row != k || PCEN->col != cols) c1.shape = 0;
      CMP(init == 1 ? "KMeans:kmeans++" : (init == 2 ? "KMeans:mdc" : "KMeans:maxdis"), "vs-1thread", FAMTAG[fam], SH[s].t, rows, cols, cols, th, "exact", c1);
      DelUIVector(&l1); DelMatrix(&c1m);
    }
    /* PruneResults (nearest / farthest members of each cluster, CalculateDistance inside): clusters from a one-thread k-means */
    if(rows >= 6){
      uivector *lab; matrix *cen; initUIVector(&lab); initMatrix(&cen);
      srand_(4242 + (uint32_t)ci); KMeans(a, 2, 3, lab, cen, 1);
      size_t cnt[2] = {0, 0}; for(size_t i = 0; i < lab->size; i++) if(lab->data[i] < 2) cnt[lab->data[i]]++;
      if(lab->size == rows && cnt[0] > 0 && cnt[1] > 0) for(int type = 0; type < 2; type++){
        uivector *c1, *ct; NewUIVector(&c1, rows); NewUIVector(&ct, rows);
        for(size_t i = 0; i < rows; i++){ c1->data[i] = lab->data[i] + 1; ct->data[i] = lab->data[i] + 1; }
        PruneResults(a, cen, 2, type, c1, 1); PruneResults(a, cen, 2, type, ct, th);
        cmp_t cc; cmp_init(&cc); uiv_cmp(&cc, c1, ct);
        CMP(type == 0 ? "PruneResults:near" : "PruneResults:far", "vs-1thread", FAMTAG[fam], SH[s].t, rows, cols, cols, th, "exact", cc);
        DelUIVector(&c1); DelUIVector(&ct);
      }
      DelUIVector(&lab); DelMatrix(&cen);
    }
    /* hierarchical clustering (not named by the property: reported as an extra finding only) */
    if(rows >= 7 && (fam == F_NORMAL || fam == F_OFF6)){
      for(int link = 0; link < 4; link++){
        uivector *c1, *ct; initUIVector(&c1); initUIVector(&ct);
        HierarchicalClustering(a, 2, c1, NULL, (enum LinkageType)link, 1); HierarchicalClustering(a, 2, ct, NULL, (enum LinkageType)link, th);
        cmp_t cc; cmp_init(&cc); uiv_cmp(&cc, c1, ct);
        VRT_EMIT("{\"e\":\"Cmp\",\"site\":\"HierarchicalClustering:link%d\",\"what\":\"vs-1thread\",\"cls\":\"%s\",\"shp\":\"%s\",\"rows\":%zu,\"cols\":%zu,\"len\":%zu,\"th\":%zu,\"tol\":\"exact\",\"shape\":%d,\"ndiff\":%ld,\"err\":0,\"xt\":1}",
                 link, FAMTAG[fam], SH[s].t, rows, cols, cols, th, cc.shape, cc.ndiff);
        DelUIVector(&c1); DelUIVector(&ct);
      }
    }
    DelMatrix(&a);
  }
}

int main(int argc, char **argv){
  if(argc < 7){ fprintf(stderr, "usage: c13_val out mode part nparts seed tier\n"); return 2; }
  vrt_open(argv[1]);
  int part = atoi(argv[3]), nparts = atoi(argv[4]); uint64_t seed = (uint64_t)atoll(argv[5]); int tier = atoi(argv[6]);
  CF[0] = EuclideanDistanceCondensed; CF[1] = SquaredEuclideanDistanceCondensed; CF[2] = ManhattanDistanceCondensed; CF[3] = CosineDistanceCondensed;
  SF[0] = EuclideanDistance_ST; SF[1] = SquaredEuclideanDistance_ST; SF[2] = ManhattanDistance_ST; SF[3] = CosineDistance_ST;
  for(int k = 0; k < 4; k++){ initMatrix(&PD[k]); initDVector(&PC[k]); }
  initUIVector(&PL); initMatrix(&PCEN);
  vrt_force_nproc(1);
  if(!strcmp(argv[2], "classes")) mode_classes(part, nparts, seed, tier);
  else if(!strcmp(argv[2], "hist")) mode_hist(seed, tier);
  else if(!strcmp(argv[2], "users")) mode_users(part, nparts, seed, tier);
  else { fprintf(stderr, "unknown mode %s\n", argv[2]); return 2; }
  VRT_EMIT("{\"e\":\"Reset\",\"rows\":0,\"th\":1}");
  vrt_close();
  return 0;
}
