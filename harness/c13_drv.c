/* c13_drv.c - conformance driver for C13 (multithreaded kernels = sequential definition).
 * usage: c13_drv <out.ndjson> <rowlo> <rowhi> <maxth> <seed> <mode>      mode: full | slices
 * Events (one JSON object per line):
 *   Slices{site,variant,rows,th,sl[[from,to]..]}  ranges actually handed to workers (hook H3), one per distinct batch
 *   Value{site,rows,th,kind,equal}               MT result vs sequential definition / repeat / thread independence
 *   Idx{n,tab[[i,j,idx]..]}                      square_to_condensed_index as exported
 *   Cond{kind,n,th,pos[[i,j,p]..]}               where the condensed routine really stored d(i,j) (found by value)
 *   Dist{kind,pts[[..]..],d[[..]..]}             integer distance tables of the real CalculateDistance
 */
#include "scientific.h"
#include "verif_rt.h"

extern void getLabels_(matrix *m, matrix *centroids, uivector *labels, int nthreads);
extern void getLabels(matrix *m, matrix *centroids, uivector *labels);

#define MAXB 4096
typedef struct { char site[40]; size_t th, from, to, n; } sl_ev;
static sl_ev slbuf[MAXB]; static int nsl = 0;
static pthread_mutex_t slmu = PTHREAD_MUTEX_INITIALIZER;
static void slice_cb(const char *site, size_t th, size_t from, size_t to, size_t n){
  pthread_mutex_lock(&slmu);
  if(nsl < MAXB){ strncpy(slbuf[nsl].site, site, 39); slbuf[nsl].site[39] = 0; slbuf[nsl].th = th; slbuf[nsl].from = from; slbuf[nsl].to = to; slbuf[nsl].n = n; nsl++; }
  pthread_mutex_unlock(&slmu);
}

static const char *variant_of(const char *site){
  if(!strcmp(site, "KMeansppCenters") || !strcmp(site, "getLabels_")) return "B";
  return "A";
}

/* emit the distinct batches recorded since the last reset; a batch starts at th == 0 */
static char lastkey[65536];
static void emit_batches(const char *only_site, size_t th_expected){
  static char buf[65536];
  char seen[8][4096]; int nseen = 0;
  int i = 0;
  while(i < nsl){
    int j = i + 1;
    while(j < nsl && slbuf[j].th != 0) j++;
    /* batch i..j-1 */
    int p = 0;
    p += snprintf(buf + p, sizeof(buf) - p, "{\"e\":\"Slices\",\"site\":\"%s\",\"variant\":\"%s\",\"rows\":%zu,\"th\":%d,\"sl\":[", slbuf[i].site, variant_of(slbuf[i].site), slbuf[i].n, j - i);
    for(int k = i; k < j; k++) p += snprintf(buf + p, sizeof(buf) - p, "%s[%zu,%zu]", k > i ? "," : "", slbuf[k].from, slbuf[k].to);
    p += snprintf(buf + p, sizeof(buf) - p, "]}");
    int dup = 0;
    for(int s = 0; s < nseen; s++) if(!strcmp(seen[s], buf)) dup = 1;
    if(!dup && (!only_site || !strcmp(only_site, slbuf[i].site) || 1)){
      if(nseen < 8 && p < 4096){ strcpy(seen[nseen++], buf); }
      VRT_EMIT("%s", buf);
    }
    i = j;
  }
  (void)th_expected; (void)lastkey;
  nsl = 0;
}

static void fill_int(matrix *m, vrng *r){ for(size_t i = 0; i < m->row; i++) for(size_t j = 0; j < m->col; j++) m->data[i][j] = (double)vr_int(r, 1, 9); }
static void fill_rand(matrix *m, vrng *r){ for(size_t i = 0; i < m->row; i++) for(size_t j = 0; j < m->col; j++) m->data[i][j] = vr_norm(r) * 3.0 + 0.5; }
static int vec_eq(dvector *a, dvector *b){ if(a->size != b->size) return 0; for(size_t i = 0; i < a->size; i++) if(memcmp(&a->data[i], &b->data[i], 8)) return 0; return 1; }
static int vec_close(dvector *a, dvector *b, double rel){ if(a->size != b->size) return 0; for(size_t i = 0; i < a->size; i++){ double d = fabs(a->data[i] - b->data[i]); double s = fabs(a->data[i]) + fabs(b->data[i]) + 1e-300; if(!(d <= rel * s) && d != 0) return 0; } return 1; }
static int mat_eq(matrix *a, matrix *b){ if(a->row != b->row || a->col != b->col) return 0; for(size_t i = 0; i < a->row; i++) for(size_t j = 0; j < a->col; j++) if(memcmp(&a->data[i][j], &b->data[i][j], 8)) return 0; return 1; }
static int mat_close(matrix *a, matrix *b, double rel){ if(a->row != b->row || a->col != b->col) return 0; for(size_t i = 0; i < a->row; i++) for(size_t j = 0; j < a->col; j++){ double d = fabs(a->data[i][j] - b->data[i][j]); double s = fabs(a->data[i][j]) + fabs(b->data[i][j]) + 1e-300; if(!(d <= rel * s) && d != 0) return 0; } return 1; }
static int uiv_eq(uivector *a, uivector *b){ if(a->size != b->size) return 0; for(size_t i = 0; i < a->size; i++) if(a->data[i] != b->data[i]) return 0; return 1; }

#define VALUE(site, rows, th, kind, eq) VRT_EMIT("{\"e\":\"Value\",\"site\":\"%s\",\"rows\":%zu,\"th\":%zu,\"kind\":\"%s\",\"equal\":%d}", site, (size_t)(rows), (size_t)(th), kind, (eq) ? 1 : 0)

/* definitions, written independently of the library */
static void def_mxv(matrix *m, dvector *v, dvector *p){ for(size_t i = 0; i < m->row; i++){ double s = 0; for(size_t j = 0; j < m->col; j++) s += m->data[i][j] * v->data[j]; p->data[i] = s; } }
static void def_vxm(matrix *m, dvector *v, dvector *p){ for(size_t j = 0; j < m->col; j++){ double s = 0; for(size_t i = 0; i < m->row; i++) s += v->data[i] * m->data[i][j]; p->data[j] = s; } }
static double def_dist(matrix *a, size_t i, matrix *b, size_t k, int kind){
  double s = 0, da = 0, db = 0;
  for(size_t j = 0; j < a->col; j++){
    double x = a->data[i][j], y = b->data[k][j];
    if(kind == 0 || kind == 1) s += (x - y) * (x - y); else if(kind == 2) s += fabs(x - y); else { s += x * y; da += x * x; db += y * y; }
  }
  if(kind == 0) return sqrt(s); if(kind == 1) return s; if(kind == 2) return s; return s / (sqrt(da) * sqrt(db));
}
static enum cmethod CM[4] = {EUCLIDEAN, SQUARE_EUCLIDEAN, MANHATTAN, COSINE};
static const char *CMN[4] = {"euclidean", "sqeuclidean", "manhattan", "cosine"};
typedef void (*condfn)(matrix *, dvector *, size_t);

int main(int argc, char **argv){
  if(argc < 7){ fprintf(stderr, "usage\n"); return 2; }
  vrt_open(argv[1]);
  size_t rowlo = atoi(argv[2]), maxrows = atoi(argv[3]), maxth = atoi(argv[4]);
  vrng R = { (uint64_t)atoll(argv[5]) * 2654435761ULL + 17 + rowlo * 7919 };
  int full = !strcmp(argv[6], "full");
  libsci_verif_slice = slice_cb;
  condfn CF[4] = {EuclideanDistanceCondensed, SquaredEuclideanDistanceCondensed, ManhattanDistanceCondensed, CosineDistanceCondensed};

  /* exported index map */
  for(size_t n = 0; rowlo == 0 && n <= 101; n++){
    static char buf[1 << 18]; int p = 0;
    if(n == 41) n = 60; else if(n == 62) n = 100; else if(n == 101) break;   /* every n of the quantifier, then 60, 61, 100 */
    p += snprintf(buf + p, sizeof(buf) - p, "{\"e\":\"Idx\",\"n\":%zu,\"tab\":[", n);
    int first = 1;
    for(size_t i = 0; i < n; i++) for(size_t j = 0; j < n; j++) if(i != j){ p += snprintf(buf + p, sizeof(buf) - p, "%s[%zu,%zu,%zu]", first ? "" : ",", i, j, square_to_condensed_index(i, j, n)); first = 0; }
    snprintf(buf + p, sizeof(buf) - p, "]}");
    VRT_EMIT("%s", buf);
  }

  for(size_t rows = rowlo; rows <= maxrows; rows++){
    size_t cols = 1 + rows % 5;
    for(size_t th = 1; th <= maxth; th++){
      VRT_EMIT("{\"e\":\"Reset\",\"rows\":%zu,\"th\":%zu}", rows, th);
      /* ---- site 1/2: the two MT products; thread count = processor count (H2) */
      for(int pass = 0; pass < (full ? 2 : 1); pass++){
        matrix *m; dvector *v, *p, *q, *d, *w;
        NewMatrix(&m, rows, cols); if(pass == 0) fill_int(m, &R); else fill_rand(m, &R);
        NewDVector(&v, cols); for(size_t j = 0; j < cols; j++) v->data[j] = pass == 0 ? (double)vr_int(&R, 1, 9) : vr_norm(&R) + 2.0;
        NewDVector(&p, rows); NewDVector(&q, rows); NewDVector(&d, rows);
        vrt_force_nproc(th); nsl = 0;
        MT_MatrixDVectorDotProduct(m, v, p);
        emit_batches(NULL, th);
        MT_MatrixDVectorDotProduct(m, v, q); nsl = 0;
        def_mxv(m, v, d);
        VALUE("MT_MatrixDVectorDotProduct", rows, th, pass == 0 ? "int" : "rand", pass == 0 ? vec_eq(p, d) : vec_close(p, d, 1e-12));
        VALUE("MT_MatrixDVectorDotProduct", rows, th, "repeat", vec_eq(p, q));
        DelDVector(&p); DelDVector(&q); DelDVector(&d);
        /* v' * m : slices over columns; use the transposed problem so that the sliced dimension is `rows` */
        matrix *mt; NewMatrix(&mt, cols, rows); MatrixTranspose(m, mt);
        NewDVector(&w, cols); for(size_t j = 0; j < cols; j++) w->data[j] = v->data[j];
        NewDVector(&p, rows); NewDVector(&q, rows); NewDVector(&d, rows);
        MT_DVectorMatrixDotProduct(mt, w, p);
        emit_batches(NULL, th);
        MT_DVectorMatrixDotProduct(mt, w, q); nsl = 0;
        def_vxm(mt, w, d);
        VALUE("MT_DVectorMatrixDotProduct", rows, th, pass == 0 ? "int" : "rand", pass == 0 ? vec_eq(p, d) : vec_close(p, d, 1e-12));
        VALUE("MT_DVectorMatrixDotProduct", rows, th, "repeat", vec_eq(p, q));
        DelDVector(&p); DelDVector(&q); DelDVector(&d); DelDVector(&w); DelDVector(&v); DelMatrix(&mt); DelMatrix(&m);
        vrt_force_nproc(1);
      }
      /* ---- site 3: CalculateDistance, all four kinds */
      for(int kind = 0; kind < 4; kind++){
        if(!full && kind != 1) continue;
        matrix *a, *b, *D, *D2, *Dd;
        NewMatrix(&a, rows, cols); NewMatrix(&b, 3, cols); fill_int(a, &R); fill_int(b, &R);
        initMatrix(&D); initMatrix(&D2); NewMatrix(&Dd, 3, rows);
        nsl = 0; CalculateDistance(a, b, D, th, CM[kind]); emit_batches(NULL, th);
        CalculateDistance(a, b, D2, th, CM[kind]); nsl = 0;
        for(size_t i = 0; i < rows; i++) for(size_t k = 0; k < 3; k++) Dd->data[k][i] = def_dist(a, i, b, k, kind);
        char site[64]; snprintf(site, 64, "CalculateDistance:%s", CMN[kind]);
        VALUE(site, rows, th, "int", (kind == 1 || kind == 2) ? mat_eq(D, Dd) : mat_close(D, Dd, 1e-13));
        VALUE(site, rows, th, "repeat", mat_eq(D, D2));
        DelMatrix(&a); DelMatrix(&b); DelMatrix(&D); DelMatrix(&D2); DelMatrix(&Dd);
      }
      /* ---- sites 4-7: condensed tables; position of every pair found by value (1-D points 2^i: all distances distinct) */
      for(int kind = 0; kind < 4; kind++){
        if(!full && kind != 1) continue;
        matrix *a, *S; dvector *c, *c2;
        NewMatrix(&a, rows, cols); fill_rand(a, &R);
        initDVector(&c); initDVector(&c2); initMatrix(&S);
        nsl = 0; CF[kind](a, c, th); emit_batches(NULL, th);
        CF[kind](a, c2, th); nsl = 0;
        CalculateDistance(a, a, S, 1, CM[kind]); nsl = 0;
        int ok = (c->size == rows * (rows - 1) / 2) || rows == 0;
        if(rows == 0) ok = (c->size == 0);
        for(size_t i = 0; ok && i < rows; i++) for(size_t j = i + 1; j < rows; j++){
          size_t ix = square_to_condensed_index(i, j, rows);
          if(ix >= c->size){ ok = 0; break; }
          double x = c->data[ix], y = S->data[j][i];
          if(memcmp(&x, &y, 8)){ ok = 0; break; }
        }
        char site[64]; snprintf(site, 64, "DistanceCondensed:%s", CMN[kind]);
        VALUE(site, rows, th, "vs-square", ok);
        VALUE(site, rows, th, "repeat", vec_eq(c, c2));
        DelMatrix(&a); DelMatrix(&S); DelDVector(&c); DelDVector(&c2);
      }
      /* where did each pair really go?  1-D points 2^i -> all |2^i-2^j| distinct (every tier) */
      if(rows <= 10 && (th == 1 || th == 3 || th == rows + 1)){
        int kind = 2;
        matrix *g; dvector *cg; NewMatrix(&g, rows, 1); for(size_t i = 0; i < rows; i++) g->data[i][0] = ldexp(1.0, (int)i);
        initDVector(&cg); CF[kind](g, cg, th); nsl = 0;
        static char buf[32768]; int p = 0, first = 1;
        p += snprintf(buf + p, sizeof(buf) - p, "{\"e\":\"Cond\",\"n\":%zu,\"th\":%zu,\"size\":%zu,\"pos\":[", rows, th, cg->size);
        for(size_t i = 0; i < rows; i++) for(size_t j = i + 1; j < rows; j++){
          double want = ldexp(1.0, (int)j) - ldexp(1.0, (int)i); long pos = -1;
          for(size_t q = 0; q < cg->size; q++) if(cg->data[q] == want){ pos = (long)q; break; }
          p += snprintf(buf + p, sizeof(buf) - p, "%s[%zu,%zu,%ld]", first ? "" : ",", i, j, pos); first = 0;
        }
        snprintf(buf + p, sizeof(buf) - p, "]}");
        VRT_EMIT("%s", buf);
        DelMatrix(&g); DelDVector(&cg);
      }
      /* ---- site 10: getLabels_ vs single-thread getLabels */
      if(rows >= 1){
        matrix *a, *cen; uivector *l1, *l2;
        NewMatrix(&a, rows, cols); fill_rand(a, &R);
        size_t k = rows < 3 ? rows : 3; NewMatrix(&cen, k, cols); for(size_t i = 0; i < k; i++) for(size_t j = 0; j < cols; j++) cen->data[i][j] = a->data[(i * 7) % rows][j] + 0.25 * i;
        NewUIVector(&l1, rows); NewUIVector(&l2, rows);
        for(size_t i = 0; i < rows; i++) l1->data[i] = 777;   /* poison: an unprocessed row keeps it */
        nsl = 0; getLabels_(a, cen, l1, (int)th); emit_batches(NULL, th);
        getLabels(a, cen, l2);
        VALUE("getLabels_", rows, th, "vs-seq", uiv_eq(l1, l2));
        DelMatrix(&a); DelMatrix(&cen); DelUIVector(&l1); DelUIVector(&l2);
      }
      /* exact distance ties: grid-valued data, duplicated centroids and points on a bisector - the label must be the
         one the sequential definition gives (first nearest centroid), for every thread count */
      if(rows >= 2 && (th <= 4 || th == rows || th == maxth)){
        matrix *a, *cen; uivector *l1, *l2;
        NewMatrix(&a, rows, 2); for(size_t i = 0; i < rows; i++){ a->data[i][0] = (double)(i % 5); a->data[i][1] = (double)((i / 5) % 3); }
        NewMatrix(&cen, 4, 2); cen->data[0][0] = 0; cen->data[0][1] = 0; cen->data[1][0] = 4; cen->data[1][1] = 0; cen->data[2][0] = 4; cen->data[2][1] = 0; cen->data[3][0] = 0; cen->data[3][1] = 2;
        NewUIVector(&l1, rows); NewUIVector(&l2, rows); for(size_t i = 0; i < rows; i++) l1->data[i] = 777;
        getLabels_(a, cen, l1, (int)th); nsl = 0; getLabels(a, cen, l2);
        VALUE("getLabels_", rows, th, "ties", uiv_eq(l1, l2));
        DelMatrix(&a); DelMatrix(&cen); DelUIVector(&l1); DelUIVector(&l2);
      }
      /* finite operands whose products overflow, and missing-coded cells: the MT products must still equal the library's
         own sequential products bit for bit (both skip such terms) */
      if(rows >= 1 && (th <= 3 || th == maxth)){
        matrix *m; dvector *v, *p, *q;
        NewMatrix(&m, rows, 3); for(size_t i = 0; i < rows; i++){ m->data[i][0] = 1.0 + i; m->data[i][1] = (i % 3 == 1) ? 1e200 : -2.0; m->data[i][2] = (i % 4 == 2) ? MISSING : 0.5; }
        NewDVector(&v, 3); v->data[0] = 2.0; v->data[1] = 1e200; v->data[2] = 3.0;
        NewDVector(&p, rows); NewDVector(&q, rows);
        vrt_force_nproc(th); MT_MatrixDVectorDotProduct(m, v, p); nsl = 0; vrt_force_nproc(1);
        MatrixDVectorDotProduct(m, v, q);
        VALUE("MT_MatrixDVectorDotProduct", rows, th, "overflow-missing", vec_eq(p, q));
        DelDVector(&p); DelDVector(&q); DelDVector(&v);
        matrix *mt; NewMatrix(&mt, 3, rows); MatrixTranspose(m, mt);
        NewDVector(&v, 3); v->data[0] = 2.0; v->data[1] = 1e200; v->data[2] = 3.0;
        NewDVector(&p, rows); NewDVector(&q, rows);
        vrt_force_nproc(th); MT_DVectorMatrixDotProduct(mt, v, p); nsl = 0; vrt_force_nproc(1);
        DVectorMatrixDotProduct(mt, v, q);
        VALUE("MT_DVectorMatrixDotProduct", rows, th, "overflow-missing", vec_eq(p, q));
        DelDVector(&p); DelDVector(&q); DelDVector(&v); DelMatrix(&mt); DelMatrix(&m);
      }
      /* ---- sites 8-9 and users: MDC, KMeans++ (seeded), MaxDis, KMeans: results independent of the thread count */
      if(rows >= 3 && rows <= 30 && (full || rows % 4 == 3) && th <= 8){
        matrix *a; NewMatrix(&a, rows, cols); fill_rand(a, &R);
        size_t nsel = 1 + rows / 3;
        for(int metric = 0; metric < 3; metric++){
          uivector *s1, *st; initUIVector(&s1); initUIVector(&st);
          nsl = 0; MDC(a, nsel, metric, s1, 1); nsl = 0;
          MDC(a, nsel, metric, st, th); emit_batches(NULL, th);
          VALUE("MDC", rows, th, "vs-1thread", uiv_eq(s1, st));
          DelUIVector(&s1); DelUIVector(&st);
          initUIVector(&s1); initUIVector(&st);
          MaxDis(a, nsel, metric, s1, 1); nsl = 0; MaxDis(a, nsel, metric, st, th); nsl = 0;
          VALUE("MaxDis", rows, th, "vs-1thread", uiv_eq(s1, st));
          DelUIVector(&s1); DelUIVector(&st);
          initUIVector(&s1); initUIVector(&st);
          MaxDis_Fast(a, nsel, metric, s1, 1); nsl = 0; MaxDis_Fast(a, nsel, metric, st, th); nsl = 0;
          VALUE("MaxDis_Fast", rows, th, "vs-1thread", uiv_eq(s1, st));
          DelUIVector(&s1); DelUIVector(&st);
        }
        { uivector *s1, *st; initUIVector(&s1); initUIVector(&st);
          srand_(12345 + (uint32_t)rows); KMeansppCenters(a, nsel, s1, 1); nsl = 0;
          srand_(12345 + (uint32_t)rows); KMeansppCenters(a, nsel, st, (int)th); emit_batches(NULL, th);
          VALUE("KMeansppCenters", rows, th, "vs-1thread", uiv_eq(s1, st));
          DelUIVector(&s1); DelUIVector(&st); }
        for(int init = 2; init <= 3; init++){
          uivector *l1, *lt; matrix *c1, *ct; initUIVector(&l1); initUIVector(&lt); initMatrix(&c1); initMatrix(&ct);
          size_t k = rows < 4 ? 2 : 3;
          KMeans(a, k, init, l1, c1, 1); nsl = 0; KMeans(a, k, init, lt, ct, th); nsl = 0;
          VALUE(init == 2 ? "KMeans:mdc" : "KMeans:maxdis", rows, th, "vs-1thread", uiv_eq(l1, lt) && mat_eq(c1, ct));
          DelUIVector(&l1); DelUIVector(&lt); DelMatrix(&c1); DelMatrix(&ct);
        }
        DelMatrix(&a);
      }
    }
  }
  /* ---- integer distance tables for TLC to recompute (mode 2) */
  for(int t = 0; rowlo == 0 && t < (full ? 40 : 12); t++){
    size_t n = 2 + t % 4, d = 1 + t % 3;
    matrix *a, *D1, *D2; NewMatrix(&a, n, d); for(size_t i = 0; i < n; i++) for(size_t j = 0; j < d; j++) a->data[i][j] = (double)vr_int(&R, -4, 4);
    initMatrix(&D1); initMatrix(&D2);
    CalculateDistance(a, a, D1, 1 + t % 3, SQUARE_EUCLIDEAN); CalculateDistance(a, a, D2, 1 + t % 5, MANHATTAN); nsl = 0;
    static char buf[16384]; int p = 0;
    p += snprintf(buf + p, sizeof(buf) - p, "{\"e\":\"Dist\",\"n\":%zu,\"d\":%zu,\"pts\":[", n, d);
    for(size_t i = 0; i < n; i++){ p += snprintf(buf + p, sizeof(buf) - p, "%s[", i ? "," : ""); for(size_t j = 0; j < d; j++) p += snprintf(buf + p, sizeof(buf) - p, "%s%ld", j ? "," : "", (long)a->data[i][j]); p += snprintf(buf + p, sizeof(buf) - p, "]"); }
    p += snprintf(buf + p, sizeof(buf) - p, "],\"sq\":[");
    for(size_t i = 0; i < n; i++){ p += snprintf(buf + p, sizeof(buf) - p, "%s[", i ? "," : ""); for(size_t j = 0; j < n; j++) p += snprintf(buf + p, sizeof(buf) - p, "%s%ld", j ? "," : "", (long)D1->data[i][j]); p += snprintf(buf + p, sizeof(buf) - p, "]"); }
    p += snprintf(buf + p, sizeof(buf) - p, "],\"man\":[");
    for(size_t i = 0; i < n; i++){ p += snprintf(buf + p, sizeof(buf) - p, "%s[", i ? "," : ""); for(size_t j = 0; j < n; j++) p += snprintf(buf + p, sizeof(buf) - p, "%s%ld", j ? "," : "", (long)D2->data[i][j]); p += snprintf(buf + p, sizeof(buf) - p, "]"); }
    /* were the doubles exact integers? */
    int exact = 1; for(size_t i = 0; i < n; i++) for(size_t j = 0; j < n; j++) if(D1->data[i][j] != floor(D1->data[i][j]) || D2->data[i][j] != floor(D2->data[i][j])) exact = 0;
    snprintf(buf + p, sizeof(buf) - p, "],\"exact\":%d}", exact);
    VRT_EMIT("%s", buf);
    DelMatrix(&a); DelMatrix(&D1); DelMatrix(&D2);
  }
  vrt_close();
  return 0;
}
