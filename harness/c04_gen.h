/* c04_gen.h - input / history classes of C04 (include after pls_common.h).
 * Generators for the cross-cutting classes of INPUT-CLASSES.md that lie inside the quantifier of C04
 * ("all full-column-rank X (6..40 x 1..10), Y with 1..3 columns, noise 0..dominant, all scaling pairs, nlv 1..rank, unseen objects"):
 *   K1 shape relations inside "full column rank": n = p+1, n = p+2, square X used uncentred (rank = p = n), single predictor,
 *      one / two unseen objects, nlv = 1 / inside / = rank, ny = 1 / > 1
 *   K2 block-size boundaries: n around 8 / 16 / 32 / 40, p and nlv around 4 and 8 (the unrolled inner product of PLSBetasCoeff)
 *   K3 location: centred predictors / centred responses 1e2 .. 1e8 spreads away from the origin; affine maps with a large d
 *   K4 magnitude: whole blocks in units 1e-6 .. 1e5; per-column unit systems 2^-8 .. 2^18 under a scaling option
 *   K5 tied, non-representable values (grids of 0.1, 1/3, 1e-3)
 *   K7 several fits in one process, outputs that already hold other data (driver)
 *   K8 responses that are exact linear functions of X with an exact fit before nlv = rank (orthogonal predictor groups; a response
 *      proportional to one predictor of an orthogonal two-level design: the residual becomes exactly zero; the same design in other units:
 *      the residual is rounding residue; a response with an interaction that is not a predictor: a large residual exactly orthogonal to X),
 *      duplicated / mirrored /
 *      linearly dependent responses, duplicate objects
 * Everything here is computed from the input alone; what the numbers mean (tolerances, class tags) is decided in spec/PlsLs.tla.
 */
#ifndef C04_GEN_H
#define C04_GEN_H

static long c4_cap9(double x){ return !(x == x) ? 2000000000L : x >= 2e9 ? 2000000000L : (long)ceil(x); }

static void c4_col_stats(matrix *M, size_t j, double *mean, double *sd){
  long double m = 0, ss = 0; for(size_t i = 0; i < M->row; i++) m += M->data[i][j]; m /= M->row;
  for(size_t i = 0; i < M->row; i++){ long double d = M->data[i][j] - m; ss += d * d; }
  *mean = (double)m; *sd = (double)sqrtl(ss / (M->row - 1));
}
/* |largest entry| / rms spread about the mean, worst column (but `skip`): how many spreads the block sits away from the origin */
static double c4_offset(matrix *M, long skip){
  double worst = 0;
  for(size_t j = 0; j < M->col; j++){
    if((long)j == skip) continue;
    long double mean = 0, ss = 0; double amax = 0;
    for(size_t i = 0; i < M->row; i++){ mean += M->data[i][j]; if(fabs(M->data[i][j]) > amax) amax = fabs(M->data[i][j]); }
    mean /= M->row;
    for(size_t i = 0; i < M->row; i++){ long double d = M->data[i][j] - mean; ss += d * d; }
    double o = amax / (double)sqrtl(ss / M->row);
    if(!(o <= worst)) worst = o;
  }
  return worst;
}
/* K3: bring every column to sd 0.06 .. 0.1 (so that 1e8 spreads stay below 1e7, far from the MISSING code) and move it 10^U(lglo,lghi)
 * spreads away from the origin; rows of the training block and of the unseen block move together */
static void c4_relocate(matrix *M, matrix *Mn, vrng *r, double lglo, double lghi){
  for(size_t j = 0; j < M->col; j++){
    double mean, sd; c4_col_stats(M, j, &mean, &sd);
    double f = (0.06 + 0.04 * vr_unif(r)) / sd;
    double o = (0.06 + 0.04 * vr_unif(r)) * pow(10.0, lglo + (lghi - lglo) * vr_unif(r));
    if(o > 8e6) o = 8e6;
    if(vr_int(r, 0, 1)) o = -o;
    for(size_t i = 0; i < M->row; i++) M->data[i][j] = (M->data[i][j] - mean) * f + o;
    if(Mn) for(size_t i = 0; i < Mn->row; i++) Mn->data[i][j] = (Mn->data[i][j] - mean) * f + o;
  }
}
static void c4_scale(matrix *M, double g){ for(size_t i = 0; i < M->row; i++) for(size_t j = 0; j < M->col; j++) M->data[i][j] *= g; }
static void c4_scale_col(matrix *M, size_t j, double g){ for(size_t i = 0; i < M->row; i++) M->data[i][j] *= g; }
/* K5: snap to a grid of non-representable steps: exact ties, sums one ulp off */
static void c4_snap(matrix *M, matrix *Mn, double step, double spread){
  for(size_t j = 0; j < M->col; j++){
    double mean, sd; c4_col_stats(M, j, &mean, &sd);
    for(size_t i = 0; i < M->row; i++) M->data[i][j] = nearbyint((M->data[i][j] - mean) / sd * spread) * step;
    if(Mn) for(size_t i = 0; i < Mn->row; i++) Mn->data[i][j] = nearbyint((Mn->data[i][j] - mean) / sd * spread) * step;
  }
}

/* admission of a block that is only centred or used as it is (scaled blocks: pc_admit_block_skip keeps the distance to the zero-scale guards) */
static int c4_admit_block(matrix *M, int scaling){
  if(scaling >= 1) return pc_admit_block_skip(M, scaling, -1);
  for(size_t j = 0; j < M->col; j++){
    double mn = M->data[0][j], mx = mn, amax = 0;
    for(size_t i = 0; i < M->row; i++){ double v = M->data[i][j]; if(!vfinite(v)) return 0; if(v < mn) mn = v; if(v > mx) mx = v; if(fabs(v) > amax) amax = fabs(v); }
    if(amax > 1e7) return 0;
    if(!(mx - mn > 1e-9 * amax) || !(mx - mn > 1e-12)) return 0;
  }
  return 1;
}
/* full column rank with sigma_1/sigma_p <= maxcond after preprocessing (objects >= variables) */
static int c4_admit(pc_case *c, double maxcond, double *cond){
  if(!c4_admit_block(c->X, c->xs) || !c4_admit_block(c->Y, c->ys)) return 0;
  if(c->p > c->n) return 0;
  matrix *X0; dvector *a, *s; NewMatrix(&X0, c->n, c->p); initDVector(&a); initDVector(&s);
  MatrixPreprocess(c->X, c->xs, a, s, X0);
  double *sv = malloc(sizeof(double) * (size_t)c->p);
  int info = pc_svals(X0->data, c->n, c->p, sv), ok = 0;
  if(info == 0 && sv[c->p - 1] > 0 && sv[0] / sv[c->p - 1] <= maxcond){ ok = 1; *cond = sv[0] / sv[c->p - 1]; }
  free(sv); DelMatrix(&X0); DelDVector(&a); DelDVector(&s);
  return ok;
}

/* K8: predictors whose centred columns are mutually orthogonal, in `groups` groups of equal norm (ratios 1 : 3 : 9): the cross-product
 * matrix of the centred X has `groups` distinct eigenvalues, so a noise-free response is fitted exactly by `groups` latent variables
 * (by one under a scaling option that equalises the column norms).  Gram-Schmidt twice, in extended precision. */
static void c4_orthogonal_groups(pc_case *c, vrng *r, int groups){
  int n = c->n, p = c->p, m = c->nnew, N = n + m;
  long double **Q = malloc(sizeof(long double *) * p);
  for(int j = 0; j < p; j++){
    Q[j] = malloc(sizeof(long double) * n);
    for(int pass = 0; pass < 1; pass++){
      long double mean = 0;
      for(int i = 0; i < n; i++){ Q[j][i] = vr_norm(r); mean += Q[j][i]; }
      mean /= n; for(int i = 0; i < n; i++) Q[j][i] -= mean;
    }
    for(int rep = 0; rep < 2; rep++) for(int k = 0; k < j; k++){
      long double d = 0; for(int i = 0; i < n; i++) d += Q[j][i] * Q[k][i];
      for(int i = 0; i < n; i++) Q[j][i] -= d * Q[k][i];
    }
    long double nn = 0; for(int i = 0; i < n; i++) nn += Q[j][i] * Q[j][i];
    nn = sqrtl(nn); for(int i = 0; i < n; i++) Q[j][i] /= nn;
  }
  for(int j = 0; j < p; j++){
    double g = (double[]){1.0, 3.0, 9.0}[j % groups] * sqrt((double)n);
    double o = 2.0 * (2 * vr_unif(r) - 1);
    for(int i = 0; i < n; i++) c->X->data[i][j] = (double)(o + g * Q[j][i]);
    for(int i = 0; i < m; i++) c->Xn->data[i][j] = o + g / sqrt((double)n) * vr_norm(r);
  }
  /* responses: exact linear functions of the predictors (every group takes part), own offset */
  for(int k = 0; k < c->ny; k++){
    double o = 3.0 * (2 * vr_unif(r) - 1);
    double *b = malloc(sizeof(double) * p);
    for(int j = 0; j < p; j++){ b[j] = (vr_int(r, 0, 1) ? 1.0 : -1.0) * (0.5 + vr_unif(r)) / ((double[]){1.0, 3.0, 9.0}[j % groups]); }
    for(int i = 0; i < N; i++){
      double v = o; for(int j = 0; j < p; j++) v += b[j] * ((i < n ? c->X->data[i][j] : c->Xn->data[i - n][j]));
      if(i < n) c->Y->data[i][k] = v; else c->Yn->data[i - n][k] = v;
    }
    free(b);
  }
  for(int j = 0; j < p; j++) free(Q[j]);
  free(Q);
}

/* K8: two-level orthogonal design (columns of a Hadamard matrix of order 8 / 16 without the constant one: +-1, centred, mutually
 * orthogonal) and a response proportional to ONE predictor with small integer coefficients: every step of the first latent variable
 * is exact in binary floating point, the residual of the response is exactly zero after it */
static void c4_two_level(pc_case *c, vrng *r, int lack_of_fit){
  int n = c->n, p = c->p, m = c->nnew, N = n + m;
  int j1 = (int)vr_int(r, 0, p - 1), j2 = -1;
  if(lack_of_fit){
    /* an interaction x_j1 * x_j2 that is not a predictor: column index (j1+1) xor (j2+1) lies beyond the p predictors (and below n), so it is
     * orthogonal to every predictor and to the constant */
    for(int att = 0; att < 200 && j2 < 0; att++){
      int a = (int)vr_int(r, 0, p - 1), b = (int)vr_int(r, 0, p - 1), z = (a + 1) ^ (b + 1);
      if(a != b && z > p && z < n){ j1 = a; j2 = b; }
    }
  }
  double slope = (double)(vr_int(r, 0, 1) ? 1 : -1) * (double)(1 << vr_int(r, 0, 2)), icpt = (double)vr_int(r, -4, 4);
  for(int i = 0; i < N; i++){
    for(int j = 0; j < p; j++){
      int row = i < n ? i : (int)vr_int(r, 0, n - 1), bits = row & (j + 1), par = 0;
      while(bits){ par ^= bits & 1; bits >>= 1; }
      double v = par ? -1.0 : 1.0;
      if(i < n) c->X->data[i][j] = v; else c->Xn->data[i - n][j] = v;
    }
    double x1 = i < n ? c->X->data[i][j1] : c->Xn->data[i - n][j1];
    double x2 = j2 < 0 ? 0.0 : (i < n ? c->X->data[i][j2] : c->Xn->data[i - n][j2]);
    for(int k = 0; k < c->ny; k++){
      double v = icpt + (k == 0 ? slope : -2.0 * slope) * x1 + 1.5 * slope * x1 * x2;
      /* lack_of_fit 2 (two responses): the response with the LARGEST variance is the pure interaction (no covariance with any predictor: the
       * start vector of the NIPALS iteration), the other one is proportional to a predictor */
      if(lack_of_fit == 2) v = icpt + (k == 0 ? 3.0 * slope * x1 * x2 : slope * x1);
      if(i < n) c->Y->data[i][k] = v; else c->Yn->data[i - n][k] = v;
    }
  }
}
#endif
