/* c06_tsan.c - ThreadSanitizer block of C06: the real cross-validation routines (and the threaded drawing routines) run with ALL verification
 * hooks off except the processor-count override (a hook callback under a mutex would order the accesses and hide the race), linked against a
 * -fsanitize=thread build of the library.  One case per process; ThreadSanitizer's reports go to stderr, where the check reads them, attributes
 * every report to a state class of spec/RngState.tla and hands it to TLC as a Race event of the trace (TraceRng.tla TRace).
 * usage: c06_tsan <out.ndjson> cv <idx> <seed>        idx -> learner x scheme x thread count x inner processor count x disturber
 *        c06_tsan <out.ndjson> direct <idx> <seed>    threaded drawing routines (KMeans ...) next to a disturber
 *        c06_tsan <out.ndjson> selftest 0 0           positive control: two threads race on a variable of this file (ThreadSanitizer must report it)
 * Trace: Reset ; Run{mode:"tsan:..."} ; Seq{h} ; [Race events inserted by the check] ; Result{h} ; End      (the call runs twice: repeated runs are bit-identical)
 */
#include "scientific.h"
#include "verif_rt.h"
#include <sched.h>
#include <fcntl.h>

static uint64_t HACC;
static void hb(const void *p, size_t n){ const unsigned char *c = p; for(size_t i = 0; i < n; i++){ HACC ^= c[i]; HACC *= 1099511628211ULL; } }
static void hz(size_t v){ uint64_t u = v; hb(&u, 8); }
static void h_matrix(matrix *m){ hz(m->row); hz(m->col); for(size_t i = 0; i < m->row; i++) hb(m->data[i], 8 * m->col); }
static void h_dvector(dvector *v){ hz(v->size); hb(v->data, 8 * v->size); }
static void h_uivector(uivector *v){ hz(v->size); for(size_t i = 0; i < v->size; i++) hz(v->data[i]); }
#define H3(h) (long)((h) >> 43), (long)(((h) >> 22) & 0x1FFFFF), (long)((h) & 0x3FFFFF)

/* the disturber: another thread of the application using the generator while the library call runs */
static int dstop = 0;
static void *disturber(void *a){
  uint32_t seed = (uint32_t)(uintptr_t)a; srand_(seed);
  for(int r = 0; r < 200000 && !__atomic_load_n(&dstop, __ATOMIC_ACQUIRE); r++){
    if(r % 8 == 7) srand_(seed + r);
    if(r % 3 == 0) (void)randInt(0, 1000); else if(r % 3 == 1) (void)randDouble(0.0, 1.0); else (void)rand_();
    if(r % 4 == 0) sched_yield();
  }
  return NULL;
}

static int racy_cell = 0;
static void *racer(void *a){ (void)a; for(int i = 0; i < 1000; i++) racy_cell++; return NULL; }

int main(int argc, char **argv){
  if(argc < 5){ fprintf(stderr, "usage\n"); return 2; }
  vrt_open(argv[1]);
  const char *kind = argv[2]; int idx = atoi(argv[3]); long seed = atol(argv[4]);
  vrng R = { (uint64_t)seed * 0x9E3779B97F4A7C15ULL + 4711 + (uint64_t)idx };
  VRT_EMIT("{\"e\":\"Reset\"}");
  if(!strcmp(kind, "selftest")){
    VRT_EMIT("{\"e\":\"Run\",\"mode\":\"tsan:selftest\",\"algo\":\"harness\",\"n\":0,\"p\":0,\"ny\":0,\"nlv\":0,\"groups\":0,\"nw\":2,\"k\":0,\"word\":[],\"cls\":[]}");
    VRT_EMIT("{\"e\":\"Seq\",\"h\":[1,2,3],\"fin\":1,\"num\":1}");
    pthread_t a, b; pthread_create(&a, NULL, racer, NULL); pthread_create(&b, NULL, racer, NULL); pthread_join(a, NULL); pthread_join(b, NULL);
    VRT_EMIT("{\"e\":\"Result\",\"h\":[1,2,3],\"forced\":0,\"addrs\":0}");
    VRT_EMIT("{\"e\":\"End\"}");
    vrt_close(); return 0;
  }
  if(!strcmp(kind, "cv")){
    static const char *AN[3] = {"PLS", "MLR", "LDA"}; static const AlgorithmType AT[3] = {_PLS_, _MLR_, _LDA_};
    static const char *SN[5] = {"boot", "loo", "kfold", "yscr-boot", "yscr-loo"};
    int algo = idx % 3, scheme = (idx / 3) % 5, nth = 2 + (idx / 15) % 3, nproc = 1 + (idx / 45) % 2, dist = (idx / 90) % 2;
    if(algo == 2 && scheme == 2){ scheme = 0; dist = 1; }      /* KFoldCV has no LDA branch on this tree (it joins threads it never created): the LDA slot runs the bootstrap next to a disturber */
    int n = 12 + idx % 4, p = algo == 2 ? 2 : 2 + idx % 2, ny = algo == 2 ? 1 : 1 + idx % 2;
    if(scheme >= 3){ n = 9 + idx % 3; ny = 1; }
    vrt_force_nproc(nproc);
    matrix *x, *y; NewMatrix(&x, n, p); NewMatrix(&y, n, ny);
    for(int i = 0; i < n; i++){
      int c = i % 2;
      for(int j = 0; j < p; j++) x->data[i][j] = vr_norm(&R) * (1 + j) + (algo == 2 ? 5.0 * c : 0);
      if(algo == 2) y->data[i][0] = c;
      else for(int q = 0; q < ny; q++){ double s = 0; for(int j = 0; j < p; j++) s += x->data[i][j] * (j + 1 + q); y->data[i][q] = s + 0.5 * vr_norm(&R); }
    }
    MODELINPUT in = initModelInput(); in.mx = x; in.my = y; in.nlv = algo == 0 ? 2 : 0; in.xautoscaling = 1; in.yautoscaling = 0;
    int iters = scheme == 0 ? 2 * nth : 2;
    VRT_EMIT("{\"e\":\"Run\",\"mode\":\"tsan:%s\",\"algo\":\"%s\",\"n\":%d,\"p\":%d,\"ny\":%d,\"nlv\":%d,\"groups\":3,\"nw\":%d,\"k\":0,\"word\":[],\"nth\":%d,\"nproc\":%d,\"dist\":%d,\"cls\":[\"K6:tsan-threads-%d\",\"K6:tsan-nproc%d\"%s]}",
             SN[scheme], AN[algo], n, p, ny, (int)in.nlv, iters, nth, nproc, dist, nth, nproc, dist ? ",\"K6:tsan-disturber\"" : "");
    uint64_t h[2];
    int so = dup(1), dn = open("/dev/null", 1);
    for(int rep = 0; rep < 2; rep++){
      pthread_t dth; __atomic_store_n(&dstop, 0, __ATOMIC_RELEASE);
      if(dist) pthread_create(&dth, NULL, disturber, (void*)(uintptr_t)(3 + n + ny + iters));
      matrix *pred, *res; initMatrix(&pred); initMatrix(&res);
      HACC = 1469598103934665603ULL;
      if(scheme == 0) BootstrapRandomGroupsCV(&in, 3, iters, AT[algo], pred, algo == 2 ? NULL : res, nth, NULL, 0);
      else if(scheme == 1) LeaveOneOut(&in, AT[algo], pred, algo == 2 ? NULL : res, nth, NULL, 0);
      else if(scheme == 2){ uivector *g; NewUIVector(&g, n); for(int i = 0; i < n; i++) g->data[i] = (i * 7 + idx) % 4; KFoldCV(&in, g, AT[algo], pred, res, nth, NULL, 0); DelUIVector(&g); }
      else { ValidationArg va = initValidationArg(); va.vtype = scheme == 3 ? BootstrapRGCV : LOO;
             fflush(stdout); dup2(dn, 1); YScrambling(&in, AT[algo], va, iters, pred, nth, NULL); fflush(stdout); dup2(so, 1); }
      h_matrix(pred); h_matrix(res); h[rep] = HACC;
      DelMatrix(&pred); DelMatrix(&res);
      if(dist){ __atomic_store_n(&dstop, 1, __ATOMIC_RELEASE); pthread_join(dth, NULL); }
      if(rep == 0) VRT_EMIT("{\"e\":\"Seq\",\"h\":[%ld,%ld,%ld],\"fin\":1,\"num\":1,\"nth\":%d}", H3(h[0]), nth);
      else VRT_EMIT("{\"e\":\"Result\",\"h\":[%ld,%ld,%ld],\"forced\":0,\"addrs\":0,\"nth\":%d,\"rep\":1}", H3(h[1]), nth);
    }
    VRT_EMIT("{\"e\":\"End\"}");
    vrt_close(); return 0;
  }
  if(!strcmp(kind, "direct")){
    static const char *RN[7] = {"KMeans-random", "KMeans-pp", "KMeansppCenters", "KMeansRandomGroupsCV-pp", "KMeansJumpMethod", "EPLS-bagging-subspace", "PCARankValidation"};
    int r = idx % 7, nth = 2 + (idx / 7) % 3, nproc = 1 + (idx / 21) % 2;
    if(r == 6) nproc = 2 + (idx / 21) % 2;      /* PCARankValidation reaches the MT_* kernels: always more than one processor */
    vrt_force_nproc(nproc);
    int n = 16 + idx % 5, p = 3, k = 3;
    matrix *x, *y; NewMatrix(&x, n, p); NewMatrix(&y, n, 1);
    for(int i = 0; i < n; i++){ for(int j = 0; j < p; j++) x->data[i][j] = vr_norm(&R) + 6.0 * ((i + j) % k); y->data[i][0] = x->data[i][0] - x->data[i][1] + 0.3 * vr_norm(&R); }
    VRT_EMIT("{\"e\":\"Run\",\"mode\":\"tsan:direct\",\"algo\":\"%s\",\"n\":%d,\"p\":%d,\"ny\":1,\"nlv\":0,\"groups\":3,\"nw\":2,\"k\":%d,\"word\":[],\"nth\":%d,\"nproc\":%d,\"dist\":1,\"cls\":[\"K6:tsan-direct-disturber\"]}", RN[r], n, p, k, nth, nproc);
    uint64_t h[2];
    for(int rep = 0; rep < 2; rep++){
      pthread_t dth; __atomic_store_n(&dstop, 0, __ATOMIC_RELEASE);
      pthread_create(&dth, NULL, disturber, (void*)(uintptr_t)77);
      HACC = 1469598103934665603ULL;
      srand_(77);
      if(r == 0 || r == 1){ uivector *lab; matrix *cen; initUIVector(&lab); initMatrix(&cen); KMeans(x, k, r, lab, cen, nth); h_uivector(lab); h_matrix(cen); DelUIVector(&lab); DelMatrix(&cen); }
      else if(r == 2){ uivector *sel; initUIVector(&sel); KMeansppCenters(x, k, sel, nth); h_uivector(sel); DelUIVector(&sel); }
      else if(r == 3){ dvector *ss; initDVector(&ss); KMeansRandomGroupsCV(x, k, 1, 3, 2, ss, nth); h_dvector(ss); DelDVector(&ss); }
      else if(r == 4){ dvector *j; initDVector(&j); KMeansJumpMethod(x, k, 0, j, nth); h_dvector(j); DelDVector(&j); }
      else if(r == 6){ dvector *r2; initDVector(&r2); PCARankValidation(x, 2, 1, 3, 2, r2, NULL); h_dvector(r2); DelDVector(&r2); }
      else { EPLSMODEL *m; NewEPLSModel(&m); ELearningParameters ep = initElearningParameters(); ep.n_models = 3; ep.trainsize = 0.7; ep.r_fix = 2; ep.algorithm = BaggingRandomSubspaceMethod;
             EPLS(x, y, 2, 1, 0, m, ep, NULL); hz(m->n_models); for(size_t i = 0; i < m->n_models; i++){ h_matrix(m->models[i]->xscores); h_dvector(m->models[i]->b); } DelEPLSModel(&m); }
      h[rep] = HACC;
      __atomic_store_n(&dstop, 1, __ATOMIC_RELEASE); pthread_join(dth, NULL);
      if(rep == 0) VRT_EMIT("{\"e\":\"Seq\",\"h\":[%ld,%ld,%ld],\"fin\":1,\"num\":1,\"nth\":%d}", H3(h[0]), nth);
      else VRT_EMIT("{\"e\":\"Result\",\"h\":[%ld,%ld,%ld],\"forced\":0,\"addrs\":0,\"nth\":%d,\"rep\":1}", H3(h[1]), nth);
    }
    VRT_EMIT("{\"e\":\"End\"}");
    vrt_close(); return 0;
  }
  fprintf(stderr, "unknown kind\n");
  return 2;
}
