/* c02_drv.c - conformance driver for C02 (PCA components are the principal axes; equivariance).
 *
 * usage: c02_drv <out.ndjson> cases <casefile>
 *        c02_drv <out.ndjson> one <n> <c> <scaling> <dec> <tail> <mseed> <nproc> <loc> <deg> <hist> <L> s2_1 .. s2_L
 * casefile: one case per line  "<n> <c> <scaling> <dec> <tail> <mseed> <nproc> <loc> <deg> <hist> <L> s2_1 .. s2_L"
 *   (spectra, shapes and processor counts come out of TLC: Pca.tla section Spectral; the other parameters are drawn by the check)
 *
 *   nproc  forced processor count (hook H2): 1 = the sequential redirect, > 1 = the MT_* kernels really run with that many workers
 *   loc    location class: 0 = offsets 0.1 .. 100 x the data magnitude (the original class); 3..8 = |offset_j| / sdev_j of (most) columns
 *          drawn log-uniformly in [10^(loc-1), 10^loc]
 *   deg    degenerate-but-admissible factor: 0 none, 1 two identical objects (rows), 2 two identical variables (columns),
 *          3 a constant column among informative ones (value 0.1 / 1/3 / 0.7 x magnitude: not representable), 4 every offset such a constant
 *   hist   1 = in-process history: a fit of a different shape and one of the same shape on other data precede the fit under test (models
 *          deleted, so that their addresses are handed out again), the fit under test is repeated at the end (Hist event), and finally
 *          the data are fitted into a model that already holds another fit (Reuse event: outside the statement, reported as extra)
 *
 * Data magnitude: dec runs over -8..6 for scalings 0 / -1 (which do not normalise the magnitude; with the 1e+-3 paired run 1e-11..1e9)
 * and over 0..6 for scalings 1..5 (smaller magnitudes fall under the library's zero-scale guard: C10/C18 territory).
 * For each case the data are X = U diag(sigma) V' + 1 offset' with sigma_k = sqrt(s2_k) * 10^dec (plus an optional
 * closely spaced tail below 0.1 sigma_L), U (n x r) orthonormal and orthogonal to the ones vector, V (c x r)
 * orthonormal, both from seeded Gaussian matrices by Gram-Schmidt QR with re-orthogonalisation in long double:
 * the centred matrix has exactly that SVD.
 * Truth: the preprocessed matrix E is ALWAYS computed here, in long double, from the documented definition of the option (two-pass
 * mean with correction, two-pass sample sdev, rms of the raw column, sqrt(sdev), range, mean) - never taken from the library.
 * Scaling 0 / -1 with ordinary offsets: the construction itself is the truth; otherwise a cyclic Jacobi eigen-solver in long double
 * on E'E, cross-checked against LAPACK dsyev (prototype declared here).  The fit runs in a forked child under the H4 iteration budget.
 *
 * Events (integers; errors in 1e-9 units unless stated, saturating at 2e9):
 *   Reset{}
 *   Case{seed,n,c,scaling,dec,tail,L,nproc,loc,deg,hist,src}   src = "svd" (constructed truth) | "jacobi"
 *   Spectrum{sig2[]}                                      true eigenvalues relative to the largest, 1e-9 units, leading npc+1
 *   Loc{loc12,ratio}                                      only when loc > 0 (or un-centred offsets): one ulp of the column locations, as a
 *                                                         perturbation of E relative to its leading singular value:
 *                                                         2^-53 sqrt(n SUM_j (m_j/scale_j)^2) / sigma_1, 1e-12 units (m_j = |mean_j|, or the
 *                                                         column rms when the option does not centre); ratio = max_j |mean_j|/sdev_j (rounded)
 *   Oracle{err}                                           Jacobi vs dsyev (and vs the construction), relative to lambda_1, 1e-12 units
 *   Kern{site,len,np,from[],to[],calls}                   nproc > 1 only: the slices handed out by the first call of the MT kernel
 *                                                         (site "vm" = t'E over columns, "mv" = E p over rows) in the fit under test (hook H3)
 *   Stop{k,its,conv,prev,start}                           component k of the fit under test: iterations, the criterion value at the stop and
 *                                                         the one before (1e-13 units; hook H4); k = 1: t't of the start vector against the
 *                                                         largest column sum of squares of the reference E (relative, 1e-9)
 *   Axis{k,match,purity,terr,perr,evalErr,vErr}           component k: matched true axis, 1-|<p,v>| (1e-12), score / loading error,
 *                                                         |t't - lambda_k|/lambda_k, explained variance vs lambda_k/trace (relative)
 *   Pair{kind,terr[],perr[]}                              rowperm | colperm | rot: paired run vs transformed original, per component
 *   Scale{cexp,terr[],perr[],verr[]}                      PCA(10^cexp X) vs PCA(X): normalised scores, loadings, explained variances
 *   Hist{terr[],perr[],same}                              hist = 1: the fit under test repeated after the other fits; same = 1 if bit-identical
 *   Prep{avgErr,sclErr}                                   model->colaverage / colscaling against the long-double statistics (relative, 1e-9;
 *                                                         outside the statement: extra)
 *   Reuse{terr[],perr[],vlen}                             hist = 1: fit into a model that already holds a fit of other data; vlen = length of its
 *                                                         explained-variance vector afterwards (extra)
 *   Abort{rc,why}   Dropped{why}
 */
#include "scientific.h"
#include "verif_rt.h"

extern void dsyev_(char *jobz, char *uplo, int *n, double *a, int *lda, double *w, double *work, int *lwork, int *info);

typedef long double ld;
#define MAXL 8
#define MAXNP 64
#define F9_HI 1.2e-2
#define MISSING_LO 99999990.0
#define MISSING_HI 100000008.0

typedef struct { int n, c, scaling, dec, tail, L, nproc, loc, deg, hist; long mseed; double s2[MAXL]; } ccase;

/* ---------------------------------------------------------------- orthonormal bases */
/* Q: rows x cols (row-major, ld); columns orthonormal and orthogonal to the ncon constraint vectors con[q*rows + i] (made orthonormal
 * here); returns 0 if the space is too small */
static int rand_orth_c(vrng *r, int rows, int cols, int ncon, ld *con, ld *Q)
{
  int nc = 0;
  for(int q = 0; q < ncon; q++){ /* orthonormalise the constraints among themselves */
    ld *v = con + (size_t)q * rows;
    for(int pass = 0; pass < 2; pass++) for(int p = 0; p < nc; p++){ ld d = 0; for(int i = 0; i < rows; i++) d += v[i] * con[(size_t)p * rows + i]; for(int i = 0; i < rows; i++) v[i] -= d * con[(size_t)p * rows + i]; }
    ld nn = 0; for(int i = 0; i < rows; i++) nn += v[i] * v[i];
    if(nn > 1e-20L){ nn = sqrtl(nn); for(int i = 0; i < rows; i++) con[(size_t)nc * rows + i] = v[i] / nn; nc++; }
  }
  if(rows - nc < cols) return 0;
  for(int j = 0; j < cols; j++){
    int done = 0;
    for(int attempt = 0; attempt < 20 && !done; attempt++){
      for(int i = 0; i < rows; i++) Q[i * cols + j] = vr_norm(r);
      for(int pass = 0; pass < 3; pass++){
        for(int p = 0; p < nc; p++){ ld d = 0; for(int i = 0; i < rows; i++) d += Q[i * cols + j] * con[(size_t)p * rows + i]; for(int i = 0; i < rows; i++) Q[i * cols + j] -= d * con[(size_t)p * rows + i]; }
        for(int q = 0; q < j; q++){ ld d = 0; for(int i = 0; i < rows; i++) d += Q[i * cols + j] * Q[i * cols + q]; for(int i = 0; i < rows; i++) Q[i * cols + j] -= d * Q[i * cols + q]; }
      }
      ld nn = 0; for(int i = 0; i < rows; i++) nn += Q[i * cols + j] * Q[i * cols + j];
      if(nn > 1e-6L){ nn = sqrtl(nn); for(int i = 0; i < rows; i++) Q[i * cols + j] /= nn; done = 1; }
    }
    if(!done) return 0;
  }
  return 1;
}
static void rand_orth(vrng *r, int rows, int cols, int ones, ld *Q)
{
  ld *con = malloc(sizeof(ld) * rows);
  for(int i = 0; i < rows; i++) con[i] = 1;
  rand_orth_c(r, rows, cols, ones ? 1 : 0, con, Q);
  free(con);
}

/* ---------------------------------------------------------------- oracle: cyclic Jacobi in long double */
/* A (c x c symmetric, row-major) is destroyed; eigenvalues descending in w, eigenvectors in columns of Vv */
static void jacobi_eig(int c, ld *A, ld *w, ld *Vv)
{
  for(int i = 0; i < c; i++) for(int j = 0; j < c; j++) Vv[i * c + j] = (i == j);
  ld tot = 0; for(int i = 0; i < c * c; i++) tot += A[i] * A[i];
  for(int sweep = 0; sweep < 200; sweep++){
    ld off = 0; for(int i = 0; i < c; i++) for(int j = i + 1; j < c; j++) off += A[i * c + j] * A[i * c + j];
    if(off <= tot * 1e-38L || off == 0) break;
    for(int p = 0; p < c; p++) for(int q = p + 1; q < c; q++){
      ld apq = A[p * c + q]; if(apq == 0) continue;
      ld theta = (A[q * c + q] - A[p * c + p]) / (2 * apq);
      ld t = (theta >= 0 ? 1 : -1) / (fabsl(theta) + sqrtl(theta * theta + 1));
      ld cs = 1 / sqrtl(t * t + 1), sn = t * cs;
      for(int k = 0; k < c; k++){ ld akp = A[k * c + p], akq = A[k * c + q]; A[k * c + p] = cs * akp - sn * akq; A[k * c + q] = sn * akp + cs * akq; }
      for(int k = 0; k < c; k++){ ld apk = A[p * c + k], aqk = A[q * c + k]; A[p * c + k] = cs * apk - sn * aqk; A[q * c + k] = sn * apk + cs * aqk; }
      for(int k = 0; k < c; k++){ ld vkp = Vv[k * c + p], vkq = Vv[k * c + q]; Vv[k * c + p] = cs * vkp - sn * vkq; Vv[k * c + q] = sn * vkp + cs * vkq; }
    }
  }
  for(int i = 0; i < c; i++) w[i] = A[i * c + i];
  for(int i = 0; i < c; i++){ int b = i; for(int j = i + 1; j < c; j++) if(w[j] > w[b]) b = j;
    if(b != i){ ld tw = w[i]; w[i] = w[b]; w[b] = tw; for(int k = 0; k < c; k++){ ld tv = Vv[k * c + i]; Vv[k * c + i] = Vv[k * c + b]; Vv[k * c + b] = tv; } } }
}

static int lapack_eigvals(int c, const ld *G, double *w)
{
  int n = c, lda = c, info = 0, lwork = -1; double wk; char jobz = 'N', uplo = 'U';
  double *a = malloc(sizeof(double) * c * c);
  ld mx = 0; for(int i = 0; i < c * c; i++) if(fabsl(G[i]) > mx) mx = fabsl(G[i]);
  if(!(mx > 0)) mx = 1;
  for(int i = 0; i < c * c; i++) a[i] = (double)(G[i] / mx);          /* normalised: tiny cross-products must not underflow inside LAPACK */
  dsyev_(&jobz, &uplo, &n, a, &lda, w, &wk, &lwork, &info);
  lwork = (int)wk + 32; double *work = malloc(sizeof(double) * lwork);
  dsyev_(&jobz, &uplo, &n, a, &lda, w, work, &lwork, &info);      /* ascending */
  for(int i = 0; i < c; i++) w[i] = (double)(w[i] * mx);
  free(work); free(a);
  return info;
}

/* ---------------------------------------------------------------- reference preprocessing (long double, two-pass) */
/* E (n x c, row-major), mean[c], scale[c] as the option is documented (preprocessing.h); a scale of exactly 0 (constant column) gives a
 * zero column; returns the number of columns whose scale lies in the library's guard zone 0 < |scale| < F9_HI (C10 territory) */
static int ref_preprocess(matrix *x, int scaling, ld *E, ld *mean, ld *scale, ld *sdev)
{
  int n = (int)x->row, c = (int)x->col, guard = 0;
  for(int j = 0; j < c; j++){
    ld m = 0; for(int i = 0; i < n; i++) m += (ld)x->data[i][j]; m /= n;
    ld corr = 0; for(int i = 0; i < n; i++) corr += (ld)x->data[i][j] - m; m += corr / n;
    ld ss = 0, s2 = 0, mn = x->data[0][j], mxv = x->data[0][j];
    for(int i = 0; i < n; i++){ ld v = x->data[i][j]; ss += (v - m) * (v - m); s2 += v * v; if(v < mn) mn = v; if(v > mxv) mxv = v; }
    ld sd = n > 1 ? sqrtl(ss / (n - 1)) : 0;
    sdev[j] = sd;
    ld sc = 1;
    switch(scaling){
      case 1: sc = sd; break;
      case 2: sc = sqrtl(s2 / n); break;
      case 3: sc = sqrtl(sd); break;
      case 4: sc = mxv - mn; break;
      case 5: sc = m; break;
      default: sc = 1;
    }
    mean[j] = (scaling >= 0) ? m : 0;
    scale[j] = sc;
    if(scaling >= 1 && sc != 0 && fabsl(sc) < F9_HI) guard++;
    for(int i = 0; i < n; i++){
      ld v = (ld)x->data[i][j] - mean[j];
      E[(size_t)i * c + j] = (scaling >= 1) ? (sc == 0 ? 0 : v / sc) : v;
    }
  }
  return guard;
}

/* ---------------------------------------------------------------- comparisons */
static double col_err(matrix *A, int ka, const ld *ref, int stride, int kr, int rows, int normalise)
{ /* min over sign of |A[:,ka]/na -+ ref[:,kr]/nr| (normalise) or |A[:,ka] -+ ref[:,kr]| / |ref[:,kr]| */
  ld na = 0, nr = 0;
  for(int i = 0; i < rows; i++){ na += (ld)A->data[i][ka] * A->data[i][ka]; nr += ref[i * stride + kr] * ref[i * stride + kr]; }
  na = sqrtl(na); nr = sqrtl(nr);
  if(!(na > 0) || !(nr > 0)) return 2.0;
  ld dp = 0, dm = 0;
  for(int i = 0; i < rows; i++){
    ld a = normalise ? A->data[i][ka] / na : A->data[i][ka] / nr, b = ref[i * stride + kr] / nr;
    dp += (a - b) * (a - b); dm += (a + b) * (a + b);
  }
  return sqrt((double)(dp < dm ? dp : dm));
}

static void emit_arr(char *buf, int *p, int cap, const char *name, const double *v, int m)
{
  *p += snprintf(buf + *p, cap - *p, "\"%s\":[", name);
  for(int k = 0; k < m; k++) *p += snprintf(buf + *p, cap - *p, "%s%ld", k ? "," : "", vq9(v[k]));
  *p += snprintf(buf + *p, cap - *p, "]");
}

static PCAMODEL *fit(matrix *x, int scaling, int npc)
{
  PCAMODEL *m; NewPCAModel(&m);
  PCA(x, scaling, (size_t)npc, m, NULL);
  return m;
}

/* ---------------------------------------------------------------- observation of the fit under test (hooks H3, H4) */
static int rec_on = 0;
static struct { int got, open, np, len; long calls; long from[MAXNP], to[MAXNP]; } kern[2];
static long st_its[MAXL]; static double st_conv[MAXL], st_prev[MAXL], st_first[MAXL];

static void slice_cb(const char *site, size_t th, size_t from, size_t to, size_t len)
{
  if(!rec_on) return;
  int s = !strcmp(site, "MT_DVectorMatrixDotProduct") ? 0 : !strcmp(site, "MT_MatrixDVectorDotProduct") ? 1 : -1;
  if(s < 0) return;
  if(th == 0){ kern[s].calls++; kern[s].open = !kern[s].got; if(kern[s].open){ kern[s].got = 1; kern[s].np = 0; kern[s].len = (int)len; } }
  if(kern[s].open && th < MAXNP){ kern[s].from[th] = (long)from; kern[s].to[th] = (long)to; kern[s].np = (int)th + 1; }
}
static void iter_cb(const char *site, size_t comp, double a, double b, double conv)
{
  if(rec_on && !strcmp(site, "PCA") && comp < MAXL){ if(st_its[comp] == 0) st_first[comp] = a; st_its[comp]++; st_prev[comp] = st_conv[comp]; st_conv[comp] = conv; }
  vrt_iter_cb(site, comp, a, b, conv);
}
static void emit_kern(int s, const char *name)
{
  static char buf[4096]; int p = 0;
  p += snprintf(buf + p, sizeof(buf) - p, "{\"e\":\"Kern\",\"site\":\"%s\",\"len\":%d,\"np\":%d,\"from\":[", name, kern[s].len, kern[s].np);
  for(int t = 0; t < kern[s].np; t++) p += snprintf(buf + p, sizeof(buf) - p, "%s%ld", t ? "," : "", kern[s].from[t]);
  p += snprintf(buf + p, sizeof(buf) - p, "],\"to\":[");
  for(int t = 0; t < kern[s].np; t++) p += snprintf(buf + p, sizeof(buf) - p, "%s%ld", t ? "," : "", kern[s].to[t]);
  p += snprintf(buf + p, sizeof(buf) - p, "],\"calls\":%ld}", kern[s].calls > VQ_MAX ? VQ_MAX : kern[s].calls);
  VRT_EMIT("%s", buf);
}

static void emit_pair(const char *head, const double *te, const double *pe, const double *ve, int npc, const char *tailjson)
{
  static char buf[4096]; int p = 0;
  p += snprintf(buf + p, sizeof(buf) - p, "%s", head);
  emit_arr(buf, &p, sizeof(buf), "terr", te, npc); p += snprintf(buf + p, sizeof(buf) - p, ",");
  emit_arr(buf, &p, sizeof(buf), "perr", pe, npc);
  if(ve){ p += snprintf(buf + p, sizeof(buf) - p, ","); emit_arr(buf, &p, sizeof(buf), "verr", ve, npc); }
  p += snprintf(buf + p, sizeof(buf) - p, "%s}", tailjson ? tailjson : "");
  VRT_EMIT("%s", buf);
}

/* ---------------------------------------------------------------- one case (child) */
static int child(void *arg)
{
  ccase *cs = (ccase *)arg;
  int n = cs->n, c = cs->c, L = cs->L, r = L + cs->tail, npc = L, scaling = cs->scaling, deg = cs->deg, loc = cs->loc;
  vrt_force_nproc((size_t)cs->nproc);
  vrt_install_iter_budget(3000000, 0);
  libsci_verif_iter = iter_cb;
  libsci_verif_slice = slice_cb;
  vrng rg; rg.s = (uint64_t)cs->mseed * 0x9E3779B97F4A7C15ULL + 777u; for(int i = 0; i < 4; i++) vr_next(&rg);

  ld *U = malloc(sizeof(ld) * n * r), *V = malloc(sizeof(ld) * c * r), *sig = malloc(sizeof(ld) * r);
  int da = 0, db = 0;           /* the two identical rows / columns, or the constant column (da) */
  if(deg == 0 || deg == 4){
    rand_orth(&rg, n, r, 1, U);
    rand_orth(&rg, c, r, 0, V);
  }
  else {
    ld *cu = calloc((size_t)2 * n, sizeof(ld)), *cv = calloc((size_t)c, sizeof(ld));
    int ncu = 1, ncv = 0;
    for(int i = 0; i < n; i++) cu[i] = 1;
    if(deg == 1){ da = (int)vr_int(&rg, 0, n - 1); do { db = (int)vr_int(&rg, 0, n - 1); } while(db == da); cu[n + da] = 1; cu[n + db] = -1; ncu = 2; }
    if(deg == 2){ da = (int)vr_int(&rg, 0, c - 1); do { db = (int)vr_int(&rg, 0, c - 1); } while(db == da); cv[da] = 1; cv[db] = -1; ncv = 1; }
    if(deg == 3){ da = (int)vr_int(&rg, 0, c - 1); cv[da] = 1; ncv = 1; }
    if(!rand_orth_c(&rg, n, r, ncu, cu, U) || !rand_orth_c(&rg, c, r, ncv, cv, V)){ VRT_EMIT("{\"e\":\"Dropped\",\"why\":\"shape-too-small-for-degenerate-factor\"}"); return 0; }
    if(deg == 1) for(int k = 0; k < r; k++) U[db * r + k] = U[da * r + k];
    if(deg == 2) for(int k = 0; k < r; k++) V[db * r + k] = V[da * r + k];
    if(deg == 3) for(int k = 0; k < r; k++) V[da * r + k] = 0;
    free(cu); free(cv);
  }
  ld scale = powl(10.0L, (ld)cs->dec);
  for(int k = 0; k < L; k++) sig[k] = sqrtl((ld)cs->s2[k]) * scale;
  for(int k = L; k < r; k++) sig[k] = 0.1L * sig[L - 1] * powl(0.95L, (ld)(k - L));      /* unseparated tail, never requested */
  matrix *x; NewMatrix(&x, n, c);
  double *off = calloc(c, sizeof(double));
  static const double k5[3] = {0.1, 1.0 / 3.0, 0.7};
  int uncentred_off = (scaling == -1 && (loc > 0 || deg == 4));
  for(int j = 0; j < c; j++){
    double mag = pow(10.0, -1.0 + 3.0 * vr_unif(&rg)) * (double)scale, sg = vr_int(&rg, 0, 1) ? 1.0 : -1.0;
    double u1 = vr_unif(&rg), u2 = vr_unif(&rg); long kk = vr_int(&rg, 0, 2);
    off[j] = sg * mag;
    if(loc > 0 && u1 < 0.75){ /* |offset| = ratio x column sdev of the structured part */
      ld var = 0; for(int k = 0; k < r; k++) var += sig[k] * sig[k] * V[j * r + k] * V[j * r + k];
      double sd = (double)sqrtl(var / (n - 1));
      if(sd > 0) off[j] = sg * pow(10.0, (double)loc - 1.0 + u2) * sd;
    }
    if(deg == 4 || (deg == 3 && j == da)) off[j] = sg * k5[kk] * (double)scale;
    if(scaling == -1 && !uncentred_off) off[j] = 0.0;
  }
  if(deg == 2) off[db] = off[da];
  for(int i = 0; i < n; i++) for(int j = 0; j < c; j++){ ld v = off[j]; for(int k = 0; k < r; k++) v += U[i * r + k] * sig[k] * V[j * r + k]; x->data[i][j] = (double)v; }
  /* the reserved missing-value code (99999999 +- 0.1) is not data: outside the quantifier */
  for(int i = 0; i < n; i++) for(int j = 0; j < c; j++) if(fabs(x->data[i][j]) > MISSING_LO && fabs(x->data[i][j]) < MISSING_HI){
    VRT_EMIT("{\"e\":\"Dropped\",\"why\":\"entry-at-missing-code\"}");
    return 0;
  }

  /* preprocessed matrix by the documented definition, in long double; the guard-zone exclusion (F9 is C10's finding) */
  ld *E = malloc(sizeof(ld) * n * c), *avg = malloc(sizeof(ld) * c), *scl = malloc(sizeof(ld) * c), *sdv = malloc(sizeof(ld) * c);
  if(ref_preprocess(x, scaling, E, avg, scl, sdv) > 0){
    VRT_EMIT("{\"e\":\"Dropped\",\"why\":\"scale-in-guard-zone\"}");
    return 0;
  }
  /* oracle spectrum / axes */
  int m = c;                                  /* number of eigenpairs of E'E */
  ld *G = malloc(sizeof(ld) * c * c), *Gw = malloc(sizeof(ld) * c * c), *lam = malloc(sizeof(ld) * c), *W = malloc(sizeof(ld) * c * c);
  for(int a = 0; a < c; a++) for(int b = 0; b < c; b++){ ld s = 0; for(int i = 0; i < n; i++) s += E[(size_t)i * c + a] * E[(size_t)i * c + b]; G[a * c + b] = s; Gw[a * c + b] = s; }
  jacobi_eig(c, Gw, lam, W);
  if(!(lam[0] > 0)){ VRT_EMIT("{\"e\":\"Dropped\",\"why\":\"null-matrix\"}"); return 0; }
  double *lw = malloc(sizeof(double) * c);
  int info = lapack_eigvals(c, G, lw);
  double oerr = 0;
  for(int k = 0; k < c; k++){ double d = fabs((double)(lam[k] - (ld)lw[c - 1 - k])) / (double)lam[0]; if(!(d <= oerr)) oerr = d; }
  if(info) oerr = 1.0;
  int use_svd = ((scaling == 0 || scaling == -1) && loc == 0 && !uncentred_off);
  if(use_svd){ /* the construction must agree with the oracle too */
    for(int k = 0; k < r && k < c; k++){ double d = fabs((double)(lam[k] - sig[k] * sig[k])) / (double)lam[0]; if(!(d <= oerr)) oerr = d; }
  }
  /* truth: eigenvalues tl[k], loadings tv[:,k] (c x m), scores ts[:,k] (n x m) */
  ld *tl = malloc(sizeof(ld) * m), *tv = malloc(sizeof(ld) * c * m), *ts = malloc(sizeof(ld) * n * m);
  ld trace = 0;
  for(int k = 0; k < m; k++){
    if(use_svd && k < r){ tl[k] = sig[k] * sig[k]; for(int j = 0; j < c; j++) tv[j * m + k] = V[j * r + k]; for(int i = 0; i < n; i++) ts[i * m + k] = U[i * r + k] * sig[k]; }
    else if(use_svd){ tl[k] = 0; for(int j = 0; j < c; j++) tv[j * m + k] = W[j * c + k]; for(int i = 0; i < n; i++) ts[i * m + k] = 0; }
    else { tl[k] = lam[k] > 0 ? lam[k] : 0; for(int j = 0; j < c; j++) tv[j * m + k] = W[j * c + k];
           for(int i = 0; i < n; i++){ ld s = 0; for(int j = 0; j < c; j++) s += E[(size_t)i * c + j] * W[j * c + k]; ts[i * m + k] = s; } }
    trace += tl[k];
  }
  {
    static char buf[2048]; int p = 0; int cnt = npc + 1 < m ? npc + 1 : m;
    p += snprintf(buf + p, sizeof(buf) - p, "{\"e\":\"Spectrum\",\"sig2\":[");
    for(int k = 0; k < cnt; k++) p += snprintf(buf + p, sizeof(buf) - p, "%s%ld", k ? "," : "", vqs_unit((double)(tl[k] / tl[0]), 1e-9));
    p += snprintf(buf + p, sizeof(buf) - p, "]}");
    VRT_EMIT("%s", buf);
  }
  if(loc > 0 || uncentred_off){
    /* what one ulp of the column locations means for E (from the input alone): the centred entries of column j cannot be known better
     * than 2^-53 |mean_j| / scale_j each */
    ld s = 0, ratio = 0;
    for(int j = 0; j < c; j++){
      ld mj = fabsl(avg[j]);
      if(scaling == -1){ ld q = 0; for(int i = 0; i < n; i++) q += (ld)x->data[i][j] * x->data[i][j]; mj = sqrtl(q / n); }
      ld sc = (scaling >= 1) ? fabsl(scl[j]) : 1;
      if(sc > 0) s += (mj / sc) * (mj / sc);
      if(sdv[j] > 0 && fabsl(avg[j]) / sdv[j] > ratio) ratio = fabsl(avg[j]) / sdv[j];
    }
    double locv = (double)(ldexpl(1.0L, -53) * sqrtl((ld)n * s) / sqrtl(tl[0]));
    VRT_EMIT("{\"e\":\"Loc\",\"loc12\":%ld,\"ratio\":%ld}", vq12(locv), vq_unit((double)ratio, 1.0));
  }
  VRT_EMIT("{\"e\":\"Oracle\",\"err\":%ld}", vq12(oerr));

  /* in-process history: other fits first, their models released */
  PCAMODEL *held = NULL;
  if(cs->hist){
    int n2 = n + 1, c2 = c + 2;
    matrix *y; NewMatrix(&y, n2, c2); for(int i = 0; i < n2; i++) for(int j = 0; j < c2; j++) y->data[i][j] = vr_norm(&rg) * (double)scale + 3.0 * j * (double)scale;
    PCAMODEL *h1 = fit(y, scaling == -1 ? 0 : scaling, npc < c2 ? npc : c2); DelPCAModel(&h1); DelMatrix(&y);
    matrix *z; NewMatrix(&z, n, c); for(int i = 0; i < n; i++) for(int j = 0; j < c; j++) z->data[i][j] = vr_norm(&rg) * (double)scale * (1 + j) - 2.0 * (double)scale;
    held = fit(z, scaling, npc); DelMatrix(&z);
    PCAMODEL *h3 = fit(x, scaling == 0 ? 1 : 0, 1); DelPCAModel(&h3);            /* the same data under another option */
  }

  /* the fit under test */
  memset(kern, 0, sizeof(kern)); memset(st_its, 0, sizeof(st_its));
  rec_on = 1;
  PCAMODEL *md = fit(x, scaling, npc);
  rec_on = 0;
  if((int)md->scores->col != npc || (int)md->loadings->col != npc || (int)md->varexp->size != npc){ VRT_EMIT("{\"e\":\"Abort\",\"rc\":0,\"why\":\"model-shape\"}"); return 0; }
  if(cs->nproc > 1){
    if(kern[0].got) emit_kern(0, "vm");
    if(kern[1].got) emit_kern(1, "mv");
  }
  /* start vector of component 1: t't of the first iteration against the largest column sum of squares of the reference E */
  double start_err = 2.0;
  { ld best = 0; for(int j = 0; j < c; j++) if(G[j * c + j] > best) best = G[j * c + j];
    if(st_its[0] >= 1 && best > 0) start_err = fabs((double)(((ld)st_first[0] - best) / best)); }
  for(int k = 0; k < npc; k++)
    VRT_EMIT("{\"e\":\"Stop\",\"k\":%d,\"its\":%ld,\"conv\":%ld,\"prev\":%ld,\"start\":%ld}", k + 1, st_its[k] > VQ_MAX ? VQ_MAX : st_its[k],
             st_its[k] >= 1 ? vq_unit(st_conv[k], 1e-13) : VQ_MAX, st_its[k] >= 2 ? vq_unit(st_prev[k], 1e-13) : VQ_MAX, k == 0 ? vq9(start_err) : 0L);
  for(int k = 0; k < npc; k++){
    int best = 0; ld bestv = -1;
    for(int j = 0; j < m; j++){ ld d = 0; for(int q = 0; q < c; q++) d += (ld)md->loadings->data[q][k] * tv[q * m + j]; d = fabsl(d); if(d > bestv){ bestv = d; best = j; } }
    ld tt = 0; for(int i = 0; i < n; i++) tt += (ld)md->scores->data[i][k] * md->scores->data[i][k];
    double terr = col_err(md->scores, k, ts, m, k, n, 0), perr = col_err(md->loadings, k, tv, m, k, c, 0);
    double everr = tl[k] > 0 ? fabs((double)((tt - tl[k]) / tl[k])) : 2.0;
    double frac = (double)(tl[k] / trace), verr = frac > 0 ? fabs(md->varexp->data[k] / 100.0 - frac) / frac : 2.0;
    VRT_EMIT("{\"e\":\"Axis\",\"k\":%d,\"match\":%d,\"purity\":%ld,\"terr\":%ld,\"perr\":%ld,\"evalErr\":%ld,\"vErr\":%ld}",
             k + 1, best + 1, vq12((double)(1 - bestv)), vq9(terr), vq9(perr), vq9(everr), vq9(verr));
  }
  /* equivariance: paired runs */
  double te[MAXL], pe[MAXL], ve[MAXL];
  ld *rt = malloc(sizeof(ld) * n * npc), *rp = malloc(sizeof(ld) * c * npc);
  { /* row permutation */
    int *pi = malloc(sizeof(int) * n); for(int i = 0; i < n; i++) pi[i] = i;
    for(int i = n - 1; i > 0; i--){ int j = (int)vr_int(&rg, 0, i); int t = pi[i]; pi[i] = pi[j]; pi[j] = t; }
    matrix *x2; NewMatrix(&x2, n, c); for(int i = 0; i < n; i++) for(int j = 0; j < c; j++) x2->data[i][j] = x->data[pi[i]][j];
    PCAMODEL *m2 = fit(x2, scaling, npc);
    for(int k = 0; k < npc; k++){ for(int i = 0; i < n; i++) rt[i * npc + k] = md->scores->data[pi[i]][k]; for(int j = 0; j < c; j++) rp[j * npc + k] = md->loadings->data[j][k]; }
    for(int k = 0; k < npc; k++){ te[k] = col_err(m2->scores, k, rt, npc, k, n, 0); pe[k] = col_err(m2->loadings, k, rp, npc, k, c, 0); }
    emit_pair("{\"e\":\"Pair\",\"kind\":\"rowperm\",", te, pe, NULL, npc, NULL);
    DelPCAModel(&m2); DelMatrix(&x2); free(pi);
  }
  { /* column permutation */
    int *pi = malloc(sizeof(int) * c); for(int j = 0; j < c; j++) pi[j] = j;
    for(int j = c - 1; j > 0; j--){ int q = (int)vr_int(&rg, 0, j); int t = pi[j]; pi[j] = pi[q]; pi[q] = t; }
    matrix *x2; NewMatrix(&x2, n, c); for(int i = 0; i < n; i++) for(int j = 0; j < c; j++) x2->data[i][j] = x->data[i][pi[j]];
    PCAMODEL *m2 = fit(x2, scaling, npc);
    for(int k = 0; k < npc; k++){ for(int i = 0; i < n; i++) rt[i * npc + k] = md->scores->data[i][k]; for(int j = 0; j < c; j++) rp[j * npc + k] = md->loadings->data[pi[j]][k]; }
    for(int k = 0; k < npc; k++){ te[k] = col_err(m2->scores, k, rt, npc, k, n, 0); pe[k] = col_err(m2->loadings, k, rp, npc, k, c, 0); }
    emit_pair("{\"e\":\"Pair\",\"kind\":\"colperm\",", te, pe, NULL, npc, NULL);
    DelPCAModel(&m2); DelMatrix(&x2); free(pi);
  }
  if(scaling == 0 || scaling == -1){ /* orthogonal rotation of unscaled data: loadings rotate, scores stay */
    ld *Q = malloc(sizeof(ld) * c * c); rand_orth(&rg, c, c, 0, Q);
    matrix *x2; NewMatrix(&x2, n, c);
    int collide = 0;
    for(int i = 0; i < n; i++) for(int j = 0; j < c; j++){ ld s = 0; for(int q = 0; q < c; q++) s += (ld)x->data[i][q] * Q[q * c + j]; x2->data[i][j] = (double)s;
      if(fabs(x2->data[i][j]) > MISSING_LO && fabs(x2->data[i][j]) < MISSING_HI) collide = 1; }
    if(!collide){
      PCAMODEL *m2 = fit(x2, scaling, npc);
      for(int k = 0; k < npc; k++){ for(int i = 0; i < n; i++) rt[i * npc + k] = md->scores->data[i][k];
        for(int j = 0; j < c; j++){ ld s = 0; for(int q = 0; q < c; q++) s += Q[q * c + j] * md->loadings->data[q][k]; rp[j * npc + k] = s; } }
      for(int k = 0; k < npc; k++){ te[k] = col_err(m2->scores, k, rt, npc, k, n, 0); pe[k] = col_err(m2->loadings, k, rp, npc, k, c, 0); }
      emit_pair("{\"e\":\"Pair\",\"kind\":\"rot\",", te, pe, NULL, npc, NULL);
      DelPCAModel(&m2);
    }
    DelMatrix(&x2); free(Q);
  }
  { /* PCA(cX) against PCA(X): same loadings, same explained variances, scores in the same directions */
    /* shrinking is only in-quantifier where no scale guard applies: scalings 0 and -1 (the options that do not normalise the magnitude) */
    int cexps[2] = {3, -3}; int nce = (scaling == -1 || scaling == 0) ? 2 : 1;
    for(int ci = 0; ci < nce; ci++){
      double cf = pow(10.0, cexps[ci]);
      matrix *x2; NewMatrix(&x2, n, c);
      int collide = 0;
      for(int i = 0; i < n; i++) for(int j = 0; j < c; j++){ x2->data[i][j] = cf * x->data[i][j]; if(fabs(x2->data[i][j]) > MISSING_LO && fabs(x2->data[i][j]) < MISSING_HI) collide = 1; }
      if(!collide){
        PCAMODEL *m2 = fit(x2, scaling, npc);
        for(int k = 0; k < npc; k++){ for(int i = 0; i < n; i++) rt[i * npc + k] = md->scores->data[i][k]; for(int j = 0; j < c; j++) rp[j * npc + k] = md->loadings->data[j][k]; }
        for(int k = 0; k < npc; k++){ te[k] = col_err(m2->scores, k, rt, npc, k, n, 1); pe[k] = col_err(m2->loadings, k, rp, npc, k, c, 0);
          ve[k] = md->varexp->data[k] > 0 ? fabs(m2->varexp->data[k] - md->varexp->data[k]) / md->varexp->data[k] : 2.0; }
        char head[64]; snprintf(head, sizeof(head), "{\"e\":\"Scale\",\"cexp\":%d,", cexps[ci]);
        emit_pair(head, te, pe, ve, npc, NULL);
        DelPCAModel(&m2);
      }
      DelMatrix(&x2);
    }
  }
  if(cs->hist){ /* the first fit again, after everything else */
    PCAMODEL *m2 = fit(x, scaling, npc);
    int same = 1;
    for(int k = 0; k < npc; k++){
      for(int i = 0; i < n; i++){ rt[i * npc + k] = md->scores->data[i][k]; if(memcmp(&m2->scores->data[i][k], &md->scores->data[i][k], sizeof(double))) same = 0; }
      for(int j = 0; j < c; j++){ rp[j * npc + k] = md->loadings->data[j][k]; if(memcmp(&m2->loadings->data[j][k], &md->loadings->data[j][k], sizeof(double))) same = 0; }
      if(memcmp(&m2->varexp->data[k], &md->varexp->data[k], sizeof(double))) same = 0;
    }
    for(int k = 0; k < npc; k++){ te[k] = col_err(m2->scores, k, rt, npc, k, n, 0); pe[k] = col_err(m2->loadings, k, rp, npc, k, c, 0); }
    char tailj[32]; snprintf(tailj, sizeof(tailj), ",\"same\":%d", same);
    emit_pair("{\"e\":\"Hist\",", te, pe, NULL, npc, tailj);
    DelPCAModel(&m2);
  }
  { /* the statistics the model stores against the reference ones (outside the statement of C02: extra) */
    double ae = 0, se = 0;
    if(scaling >= 0 && (int)md->colaverage->size == c) for(int j = 0; j < c; j++){
      ld den = fabsl(avg[j]) > sdv[j] ? fabsl(avg[j]) : sdv[j];
      double d = den > 0 ? (double)(fabsl((ld)md->colaverage->data[j] - avg[j]) / den) : 0; if(!(d <= ae)) ae = d; }
    else if(scaling >= 0) ae = 2.0;
    if(scaling >= 1 && (int)md->colscaling->size == c) for(int j = 0; j < c; j++){
      if(scl[j] == 0) continue;
      double d = (double)(fabsl((ld)md->colscaling->data[j] - scl[j]) / fabsl(scl[j])); if(!(d <= se)) se = d; }
    else if(scaling >= 1) se = 2.0;
    VRT_EMIT("{\"e\":\"Prep\",\"avgErr\":%ld,\"sclErr\":%ld}", vq9(ae), vq9(se));
  }
  if(cs->hist && held){ /* fit into a model that already holds a fit of other data of the same shape (extra) */
    PCA(x, scaling, (size_t)npc, held, NULL);
    if((int)held->scores->col == npc && (int)held->scores->row == n && (int)held->loadings->row == c && (int)held->loadings->col == npc){
      for(int k = 0; k < npc; k++){ for(int i = 0; i < n; i++) rt[i * npc + k] = md->scores->data[i][k]; for(int j = 0; j < c; j++) rp[j * npc + k] = md->loadings->data[j][k]; }
      for(int k = 0; k < npc; k++){ te[k] = col_err(held->scores, k, rt, npc, k, n, 0); pe[k] = col_err(held->loadings, k, rp, npc, k, c, 0); }
    }
    else for(int k = 0; k < npc; k++) te[k] = pe[k] = 2.0;
    char tailv[48]; snprintf(tailv, sizeof(tailv), ",\"vlen\":%d", (int)held->varexp->size);
    emit_pair("{\"e\":\"Reuse\",", te, pe, NULL, npc, tailv);
    DelPCAModel(&held);
  }
  DelPCAModel(&md);
  return 0;
}

static long n_ok = 0, n_abort = 0;
static void run_case(ccase *cs)
{
  int mx = (cs->n - 1 < cs->c ? cs->n - 1 : cs->c);
  VRT_EMIT("{\"e\":\"Reset\"}");
  if(cs->L < 1 || cs->L > MAXL || cs->L > mx){ VRT_EMIT("{\"e\":\"Dropped\",\"why\":\"shape-too-small\"}"); return; }
  if(cs->L + cs->tail > mx) cs->tail = mx - cs->L;
  if(cs->nproc < 1 || cs->nproc > MAXNP){ fprintf(stderr, "bad nproc\n"); exit(2); }
  /* degenerate factors need room: rows n - 2 >= r, columns c - 1 >= r; otherwise the plain case is run (and recorded as such) */
  if(cs->deg == 1 && cs->n - 2 < cs->L + cs->tail) cs->deg = 0;
  if((cs->deg == 2 || cs->deg == 3) && cs->c - 1 < cs->L + cs->tail) cs->deg = 0;
  if(cs->loc > 0 && cs->deg != 0) cs->deg = 0;
  int uoff = (cs->scaling == -1 && (cs->loc > 0 || cs->deg == 4));
  VRT_EMIT("{\"e\":\"Case\",\"seed\":%ld,\"n\":%d,\"c\":%d,\"scaling\":%d,\"dec\":%d,\"tail\":%d,\"L\":%d,\"nproc\":%d,\"loc\":%d,\"deg\":%d,\"hist\":%d,\"src\":\"%s\"}",
           cs->mseed, cs->n, cs->c, cs->scaling, cs->dec, cs->tail, cs->L, cs->nproc, cs->loc, cs->deg, cs->hist,
           ((cs->scaling == 0 || cs->scaling == -1) && cs->loc == 0 && !uoff) ? "svd" : "jacobi");
  int rc = vrt_run_child(child, cs, 900);
  fseek(vrt_out, 0, SEEK_END);
  if(rc != 0){ VRT_EMIT("{\"e\":\"Abort\",\"rc\":%d,\"why\":\"%s\"}", rc, rc == 97 ? "iteration-budget" : rc == 124 ? "watchdog" : rc >= 1000 ? "signal" : "exit"); n_abort++; }
  else n_ok++;
}

int main(int argc, char **argv)
{
  if(argc < 4){ fprintf(stderr, "usage\n"); return 2; }
  vrt_open(argv[1]);
  ccase cs;
  if(!strcmp(argv[2], "one") && argc >= 14){
    cs.n = atoi(argv[3]); cs.c = atoi(argv[4]); cs.scaling = atoi(argv[5]); cs.dec = atoi(argv[6]); cs.tail = atoi(argv[7]); cs.mseed = atol(argv[8]); cs.nproc = atoi(argv[9]);
    cs.loc = atoi(argv[10]); cs.deg = atoi(argv[11]); cs.hist = atoi(argv[12]); cs.L = atoi(argv[13]);
    if(cs.L < 1 || cs.L > MAXL || argc < 14 + cs.L){ fprintf(stderr, "bad spectrum\n"); return 2; }
    for(int k = 0; k < cs.L; k++) cs.s2[k] = atof(argv[14 + k]);
    run_case(&cs);
  }
  else if(!strcmp(argv[2], "cases")){
    FILE *f = fopen(argv[3], "r"); if(!f){ perror("casefile"); return 2; }
    while(fscanf(f, "%d %d %d %d %d %ld %d %d %d %d %d", &cs.n, &cs.c, &cs.scaling, &cs.dec, &cs.tail, &cs.mseed, &cs.nproc, &cs.loc, &cs.deg, &cs.hist, &cs.L) == 11){
      if(cs.L < 1 || cs.L > MAXL){ fprintf(stderr, "bad L\n"); return 2; }
      for(int k = 0; k < cs.L; k++) if(fscanf(f, "%lf", &cs.s2[k]) != 1){ fprintf(stderr, "bad spectrum\n"); return 2; }
      run_case(&cs);
    }
    fclose(f);
  }
  else { fprintf(stderr, "bad arguments\n"); return 2; }
  VRT_EMIT("{\"e\":\"Summary\",\"ok\":%ld,\"aborted\":%ld}", n_ok, n_abort);
  vrt_close();
  return 0;
}
