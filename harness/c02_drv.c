/* c02_drv.c - conformance driver for C02 (PCA components are the principal axes; equivariance).
 *
 * usage: c02_drv <out.ndjson> cases <casefile> <nproc>
 *        c02_drv <out.ndjson> one <n> <c> <scaling> <dec> <tail> <mseed> <nproc> <L> s2_1 .. s2_L
 * casefile: one case per line  "<n> <c> <scaling> <dec> <tail> <mseed> <L> s2_1 .. s2_L"
 *   (spectra and shapes come out of TLC: Pca.tla section Spectral; scaling/decade/tail/seed are drawn by the check)
 *
 * Data magnitude: dec runs over -8..6 for scalings 0 / -1 (which do not normalise the magnitude; with the 1e+-3 paired run 1e-11..1e9)
 * and over 0..3 for scalings 1..5 (smaller magnitudes fall under the library's zero-scale guard: C10/C18 territory).
 * For each case the data are X = U diag(sigma) V' + 1 offset' with sigma_k = sqrt(s2_k) * 10^dec (plus an optional
 * closely spaced tail below 0.1 sigma_L), U (n x r) orthonormal and orthogonal to the ones vector, V (c x r)
 * orthonormal, both from seeded Gaussian matrices by Gram-Schmidt QR with re-orthogonalisation in long double:
 * the centred matrix has exactly that SVD.  Truth: scaling 0 / -1 the construction itself; scalings 1..5 a cyclic
 * Jacobi eigen-solver in long double on E'E (E = MatrixPreprocess(X)), cross-checked against LAPACK dsyev
 * (prototype declared here).  The fit runs in a forked child under the H4 iteration budget.
 *
 * Events (integers; errors in 1e-9 units unless stated, saturating at 2e9):
 *   Reset{}
 *   Case{seed,n,c,scaling,dec,tail,L,nproc,src}           src = "svd" (constructed truth) | "jacobi"
 *   Spectrum{sig2[]}                                      true eigenvalues relative to the largest, 1e-9 units, leading npc+1
 *   Oracle{err}                                           Jacobi vs dsyev (and vs the construction), relative to lambda_1, 1e-12 units
 *   Axis{k,match,purity,terr,perr,evalErr,vErr}           component k: matched true axis, 1-|<p,v>| (1e-12), score / loading error,
 *                                                         |t't - lambda_k|/lambda_k, explained variance vs lambda_k/trace (relative)
 *   Pair{kind,terr[],perr[]}                              rowperm | colperm | rot: paired run vs transformed original, per component
 *   Scale{cexp,terr[],perr[],verr[]}                      PCA(10^cexp X) vs PCA(X): normalised scores, loadings, explained variances
 *   Abort{rc,why}   Dropped{why}
 */
#include "scientific.h"
#include "verif_rt.h"

extern void dsyev_(char *jobz, char *uplo, int *n, double *a, int *lda, double *w, double *work, int *lwork, int *info);

typedef long double ld;
#define MAXL 8
#define F9_HI 1.2e-2

typedef struct { int n, c, scaling, dec, tail, L, nproc; long mseed; double s2[MAXL]; } ccase;

/* ---------------------------------------------------------------- orthonormal bases */
/* Q: rows x cols (row-major, ld); columns orthonormal; if ones != 0 every column is also orthogonal to (1,..,1) */
static void rand_orth(vrng *r, int rows, int cols, int ones, ld *Q)
{
  for(int j = 0; j < cols; j++){
    for(int attempt = 0; attempt < 20; attempt++){
      for(int i = 0; i < rows; i++) Q[i * cols + j] = vr_norm(r);
      for(int pass = 0; pass < 3; pass++){
        if(ones){ ld m = 0; for(int i = 0; i < rows; i++) m += Q[i * cols + j]; m /= rows; for(int i = 0; i < rows; i++) Q[i * cols + j] -= m; }
        for(int q = 0; q < j; q++){ ld d = 0; for(int i = 0; i < rows; i++) d += Q[i * cols + j] * Q[i * cols + q]; for(int i = 0; i < rows; i++) Q[i * cols + j] -= d * Q[i * cols + q]; }
      }
      ld nn = 0; for(int i = 0; i < rows; i++) nn += Q[i * cols + j] * Q[i * cols + j];
      if(nn > 1e-6L){ nn = sqrtl(nn); for(int i = 0; i < rows; i++) Q[i * cols + j] /= nn; break; }
    }
  }
}

/* ---------------------------------------------------------------- oracle: cyclic Jacobi in long double */
/* A (c x c symmetric, row-major) is destroyed; eigenvalues descending in w, eigenvectors in columns of Vv */
static void jacobi_eig(int c, ld *A, ld *w, ld *Vv)
{
  for(int i = 0; i < c; i++) for(int j = 0; j < c; j++) Vv[i * c + j] = (i == j);
  ld tot = 0; for(int i = 0; i < c * c; i++) tot += A[i] * A[i];
  for(int sweep = 0; sweep < 200; sweep++){
    ld off = 0; for(int i = 0; i < c; i++) for(int j = i + 1; j < c; j++) off += A[i * c + j] * A[i * c + j];
    if(off <= tot * 1e-38L || off == 0) break;
    for(int p = 0; p < c; p++) for(int q = p + 1; q < c; q++){
      ld apq = A[p * c + q]; if(apq == 0) continue;
      ld theta = (A[q * c + q] - A[p * c + p]) / (2 * apq);
      ld t = (theta >= 0 ? 1 : -1) / (fabsl(theta) + sqrtl(theta * theta + 1));
      ld cs = 1 / sqrtl(t * t + 1), sn = t * cs;
      for(int k = 0; k < c; k++){ ld akp = A[k * c + p], akq = A[k * c + q]; A[k * c + p] = cs * akp - sn * akq; A[k * c + q] = sn * akp + cs * akq; }
      for(int k = 0; k < c; k++){ ld apk = A[p * c + k], aqk = A[q * c + k]; A[p * c + k] = cs * apk - sn * aqk; A[q * c + k] = sn * apk + cs * aqk; }
      for(int k = 0; k < c; k++){ ld vkp = Vv[k * c + p], vkq = Vv[k * c + q]; Vv[k * c + p] = cs * vkp - sn * vkq; Vv[k * c + q] = sn * vkp + cs * vkq; }
    }
  }
  for(int i = 0; i < c; i++) w[i] = A[i * c + i];
  for(int i = 0; i < c; i++){ int b = i; for(int j = i + 1; j < c; j++) if(w[j] > w[b]) b = j;
    if(b != i){ ld tw = w[i]; w[i] = w[b]; w[b] = tw; for(int k = 0; k < c; k++){ ld tv = Vv[k * c + i]; Vv[k * c + i] = Vv[k * c + b]; Vv[k * c + b] = tv; } } }
}

static int lapack_eigvals(int c, const ld *G, double *w)
{
  int n = c, lda = c, info = 0, lwork = -1; double wk; char jobz = 'N', uplo = 'U';
  double *a = malloc(sizeof(double) * c * c);
  for(int i = 0; i < c * c; i++) a[i] = (double)G[i];
  dsyev_(&jobz, &uplo, &n, a, &lda, w, &wk, &lwork, &info);
  lwork = (int)wk + 32; double *work = malloc(sizeof(double) * lwork);
  dsyev_(&jobz, &uplo, &n, a, &lda, w, work, &lwork, &info);      /* ascending */
  free(work); free(a);
  return info;
}

/* ---------------------------------------------------------------- comparisons */
static double col_err(matrix *A, int ka, const ld *ref, int stride, int kr, int rows, int normalise)
{ /* min over sign of |A[:,ka]/na -+ ref[:,kr]/nr| (normalise) or |A[:,ka] -+ ref[:,kr]| / |ref[:,kr]| */
  ld na = 0, nr = 0;
  for(int i = 0; i < rows; i++){ na += (ld)A->data[i][ka] * A->data[i][ka]; nr += ref[i * stride + kr] * ref[i * stride + kr]; }
  na = sqrtl(na); nr = sqrtl(nr);
  if(!(na > 0) || !(nr > 0)) return 2.0;
  ld dp = 0, dm = 0;
  for(int i = 0; i < rows; i++){
    ld a = normalise ? A->data[i][ka] / na : A->data[i][ka] / nr, b = ref[i * stride + kr] / nr;
    dp += (a - b) * (a - b); dm += (a + b) * (a + b);
  }
  return sqrt((double)(dp < dm ? dp : dm));
}

static void emit_arr(char *buf, int *p, int cap, const char *name, const double *v, int m)
{
  *p += snprintf(buf + *p, cap - *p, "\"%s\":[", name);
  for(int k = 0; k < m; k++) *p += snprintf(buf + *p, cap - *p, "%s%ld", k ? "," : "", vq9(v[k]));
  *p += snprintf(buf + *p, cap - *p, "]");
}

static PCAMODEL *fit(matrix *x, int scaling, int npc)
{
  PCAMODEL *m; NewPCAModel(&m);
  PCA(x, scaling, (size_t)npc, m, NULL);
  return m;
}

/* ---------------------------------------------------------------- one case (child) */
static int child(void *arg)
{
  ccase *cs = (ccase *)arg;
  int n = cs->n, c = cs->c, L = cs->L, r = L + cs->tail, npc = L, scaling = cs->scaling;
  vrt_force_nproc((size_t)cs->nproc);
  vrt_install_iter_budget(3000000, 0);
  vrng rg; rg.s = (uint64_t)cs->mseed * 0x9E3779B97F4A7C15ULL + 777u; for(int i = 0; i < 4; i++) vr_next(&rg);

  ld *U = malloc(sizeof(ld) * n * r), *V = malloc(sizeof(ld) * c * r), *sig = malloc(sizeof(ld) * r);
  rand_orth(&rg, n, r, 1, U);
  rand_orth(&rg, c, r, 0, V);
  ld scale = powl(10.0L, (ld)cs->dec);
  for(int k = 0; k < L; k++) sig[k] = sqrtl((ld)cs->s2[k]) * scale;
  for(int k = L; k < r; k++) sig[k] = 0.1L * sig[L - 1] * powl(0.95L, (ld)(k - L));      /* unseparated tail, never requested */
  matrix *x; NewMatrix(&x, n, c);
  double *off = calloc(c, sizeof(double));
  for(int j = 0; j < c; j++){
    double mag = pow(10.0, -1.0 + 3.0 * vr_unif(&rg)) * (double)scale, sg = vr_int(&rg, 0, 1) ? 1.0 : -1.0;
    off[j] = (scaling == -1) ? 0.0 : sg * mag;
  }
  for(int i = 0; i < n; i++) for(int j = 0; j < c; j++){ ld v = off[j]; for(int k = 0; k < r; k++) v += U[i * r + k] * sig[k] * V[j * r + k]; x->data[i][j] = (double)v; }

  /* preprocessed matrix as the library defines it, and the guard-zone exclusion (F9 is C10's finding) */
  matrix *E; NewMatrix(&E, n, c); dvector *avg, *scl; initDVector(&avg); initDVector(&scl);
  MatrixPreprocess(x, scaling, avg, scl, E);
  if(scaling >= 1) for(int j = 0; j < c; j++) if(fabs(scl->data[j]) < F9_HI){
    VRT_EMIT("{\"e\":\"Dropped\",\"why\":\"scale-in-guard-zone\"}");
    return 0;
  }
  /* oracle spectrum / axes */
  int m = c;                                  /* number of eigenpairs of E'E */
  ld *G = malloc(sizeof(ld) * c * c), *Gw = malloc(sizeof(ld) * c * c), *lam = malloc(sizeof(ld) * c), *W = malloc(sizeof(ld) * c * c);
  for(int a = 0; a < c; a++) for(int b = 0; b < c; b++){ ld s = 0; for(int i = 0; i < n; i++) s += (ld)E->data[i][a] * E->data[i][b]; G[a * c + b] = s; Gw[a * c + b] = s; }
  jacobi_eig(c, Gw, lam, W);
  double *lw = malloc(sizeof(double) * c);
  int info = lapack_eigvals(c, G, lw);
  double oerr = 0;
  for(int k = 0; k < c; k++){ double d = fabs((double)(lam[k] - (ld)lw[c - 1 - k])) / (double)lam[0]; if(!(d <= oerr)) oerr = d; }
  if(info) oerr = 1.0;
  int use_svd = (scaling == 0 || scaling == -1);
  if(use_svd){ /* the construction must agree with the oracle too */
    for(int k = 0; k < r && k < c; k++){ double d = fabs((double)(lam[k] - sig[k] * sig[k])) / (double)lam[0]; if(!(d <= oerr)) oerr = d; }
  }
  /* truth: eigenvalues tl[k], loadings tv[:,k] (c x m), scores ts[:,k] (n x m) */
  ld *tl = malloc(sizeof(ld) * m), *tv = malloc(sizeof(ld) * c * m), *ts = malloc(sizeof(ld) * n * m);
  ld trace = 0;
  for(int k = 0; k < m; k++){
    if(use_svd && k < r){ tl[k] = sig[k] * sig[k]; for(int j = 0; j < c; j++) tv[j * m + k] = V[j * r + k]; for(int i = 0; i < n; i++) ts[i * m + k] = U[i * r + k] * sig[k]; }
    else if(use_svd){ tl[k] = 0; for(int j = 0; j < c; j++) tv[j * m + k] = W[j * c + k]; for(int i = 0; i < n; i++) ts[i * m + k] = 0; }
    else { tl[k] = lam[k] > 0 ? lam[k] : 0; for(int j = 0; j < c; j++) tv[j * m + k] = W[j * c + k];
           for(int i = 0; i < n; i++){ ld s = 0; for(int j = 0; j < c; j++) s += (ld)E->data[i][j] * W[j * c + k]; ts[i * m + k] = s; } }
    trace += tl[k];
  }
  {
    static char buf[2048]; int p = 0; int cnt = npc + 1 < m ? npc + 1 : m;
    p += snprintf(buf + p, sizeof(buf) - p, "{\"e\":\"Spectrum\",\"sig2\":[");
    for(int k = 0; k < cnt; k++) p += snprintf(buf + p, sizeof(buf) - p, "%s%ld", k ? "," : "", vqs_unit((double)(tl[k] / tl[0]), 1e-9));
    p += snprintf(buf + p, sizeof(buf) - p, "]}");
    VRT_EMIT("%s", buf);
  }
  VRT_EMIT("{\"e\":\"Oracle\",\"err\":%ld}", vq12(oerr));

  /* the fit under test */
  PCAMODEL *md = fit(x, scaling, npc);
  if((int)md->scores->col != npc || (int)md->loadings->col != npc || (int)md->varexp->size != npc){ VRT_EMIT("{\"e\":\"Abort\",\"rc\":0,\"why\":\"model-shape\"}"); return 0; }
  for(int k = 0; k < npc; k++){
    int best = 0; ld bestv = -1;
    for(int j = 0; j < m; j++){ ld d = 0; for(int q = 0; q < c; q++) d += (ld)md->loadings->data[q][k] * tv[q * m + j]; d = fabsl(d); if(d > bestv){ bestv = d; best = j; } }
    ld tt = 0; for(int i = 0; i < n; i++) tt += (ld)md->scores->data[i][k] * md->scores->data[i][k];
    double terr = col_err(md->scores, k, ts, m, k, n, 0), perr = col_err(md->loadings, k, tv, m, k, c, 0);
    double everr = tl[k] > 0 ? fabs((double)((tt - tl[k]) / tl[k])) : 2.0;
    double frac = (double)(tl[k] / trace), verr = frac > 0 ? fabs(md->varexp->data[k] / 100.0 - frac) / frac : 2.0;
    VRT_EMIT("{\"e\":\"Axis\",\"k\":%d,\"match\":%d,\"purity\":%ld,\"terr\":%ld,\"perr\":%ld,\"evalErr\":%ld,\"vErr\":%ld}",
             k + 1, best + 1, vq12((double)(1 - bestv)), vq9(terr), vq9(perr), vq9(everr), vq9(verr));
  }
  /* equivariance: paired runs */
  double te[MAXL], pe[MAXL], ve[MAXL];
  static char buf[4096];
  ld *rt = malloc(sizeof(ld) * n * npc), *rp = malloc(sizeof(ld) * c * npc);
  { /* row permutation */
    int *pi = malloc(sizeof(int) * n); for(int i = 0; i < n; i++) pi[i] = i;
    for(int i = n - 1; i > 0; i--){ int j = (int)vr_int(&rg, 0, i); int t = pi[i]; pi[i] = pi[j]; pi[j] = t; }
    matrix *x2; NewMatrix(&x2, n, c); for(int i = 0; i < n; i++) for(int j = 0; j < c; j++) x2->data[i][j] = x->data[pi[i]][j];
    PCAMODEL *m2 = fit(x2, scaling, npc);
    for(int k = 0; k < npc; k++){ for(int i = 0; i < n; i++) rt[i * npc + k] = md->scores->data[pi[i]][k]; for(int j = 0; j < c; j++) rp[j * npc + k] = md->loadings->data[j][k]; }
    for(int k = 0; k < npc; k++){ te[k] = col_err(m2->scores, k, rt, npc, k, n, 0); pe[k] = col_err(m2->loadings, k, rp, npc, k, c, 0); }
    int p = 0; p += snprintf(buf + p, sizeof(buf) - p, "{\"e\":\"Pair\",\"kind\":\"rowperm\","); emit_arr(buf, &p, sizeof(buf), "terr", te, npc); p += snprintf(buf + p, sizeof(buf) - p, ","); emit_arr(buf, &p, sizeof(buf), "perr", pe, npc); p += snprintf(buf + p, sizeof(buf) - p, "}");
    VRT_EMIT("%s", buf);
    DelPCAModel(&m2); DelMatrix(&x2); free(pi);
  }
  { /* column permutation */
    int *pi = malloc(sizeof(int) * c); for(int j = 0; j < c; j++) pi[j] = j;
    for(int j = c - 1; j > 0; j--){ int q = (int)vr_int(&rg, 0, j); int t = pi[j]; pi[j] = pi[q]; pi[q] = t; }
    matrix *x2; NewMatrix(&x2, n, c); for(int i = 0; i < n; i++) for(int j = 0; j < c; j++) x2->data[i][j] = x->data[i][pi[j]];
    PCAMODEL *m2 = fit(x2, scaling, npc);
    for(int k = 0; k < npc; k++){ for(int i = 0; i < n; i++) rt[i * npc + k] = md->scores->data[i][k]; for(int j = 0; j < c; j++) rp[j * npc + k] = md->loadings->data[pi[j]][k]; }
    for(int k = 0; k < npc; k++){ te[k] = col_err(m2->scores, k, rt, npc, k, n, 0); pe[k] = col_err(m2->loadings, k, rp, npc, k, c, 0); }
    int p = 0; p += snprintf(buf + p, sizeof(buf) - p, "{\"e\":\"Pair\",\"kind\":\"colperm\","); emit_arr(buf, &p, sizeof(buf), "terr", te, npc); p += snprintf(buf + p, sizeof(buf) - p, ","); emit_arr(buf, &p, sizeof(buf), "perr", pe, npc); p += snprintf(buf + p, sizeof(buf) - p, "}");
    VRT_EMIT("%s", buf);
    DelPCAModel(&m2); DelMatrix(&x2); free(pi);
  }
  if(scaling == 0 || scaling == -1){ /* orthogonal rotation of unscaled data: loadings rotate, scores stay */
    ld *Q = malloc(sizeof(ld) * c * c); rand_orth(&rg, c, c, 0, Q);
    matrix *x2; NewMatrix(&x2, n, c);
    for(int i = 0; i < n; i++) for(int j = 0; j < c; j++){ ld s = 0; for(int q = 0; q < c; q++) s += (ld)x->data[i][q] * Q[q * c + j]; x2->data[i][j] = (double)s; }
    PCAMODEL *m2 = fit(x2, scaling, npc);
    for(int k = 0; k < npc; k++){ for(int i = 0; i < n; i++) rt[i * npc + k] = md->scores->data[i][k];
      for(int j = 0; j < c; j++){ ld s = 0; for(int q = 0; q < c; q++) s += Q[q * c + j] * md->loadings->data[q][k]; rp[j * npc + k] = s; } }
    for(int k = 0; k < npc; k++){ te[k] = col_err(m2->scores, k, rt, npc, k, n, 0); pe[k] = col_err(m2->loadings, k, rp, npc, k, c, 0); }
    int p = 0; p += snprintf(buf + p, sizeof(buf) - p, "{\"e\":\"Pair\",\"kind\":\"rot\","); emit_arr(buf, &p, sizeof(buf), "terr", te, npc); p += snprintf(buf + p, sizeof(buf) - p, ","); emit_arr(buf, &p, sizeof(buf), "perr", pe, npc); p += snprintf(buf + p, sizeof(buf) - p, "}");
    VRT_EMIT("%s", buf);
    DelPCAModel(&m2); DelMatrix(&x2); free(Q);
  }
  { /* PCA(cX) against PCA(X): same loadings, same explained variances, scores in the same directions */
    /* shrinking is only in-quantifier where no scale guard applies: scalings 0 and -1 (the options that do not normalise the magnitude) */
    int cexps[2] = {3, -3}; int nce = (scaling == -1 || scaling == 0) ? 2 : 1;
    for(int ci = 0; ci < nce; ci++){
      double cf = pow(10.0, cexps[ci]);
      matrix *x2; NewMatrix(&x2, n, c); for(int i = 0; i < n; i++) for(int j = 0; j < c; j++) x2->data[i][j] = cf * x->data[i][j];
      PCAMODEL *m2 = fit(x2, scaling, npc);
      for(int k = 0; k < npc; k++){ for(int i = 0; i < n; i++) rt[i * npc + k] = md->scores->data[i][k]; for(int j = 0; j < c; j++) rp[j * npc + k] = md->loadings->data[j][k]; }
      for(int k = 0; k < npc; k++){ te[k] = col_err(m2->scores, k, rt, npc, k, n, 1); pe[k] = col_err(m2->loadings, k, rp, npc, k, c, 0);
        ve[k] = md->varexp->data[k] > 0 ? fabs(m2->varexp->data[k] - md->varexp->data[k]) / md->varexp->data[k] : 2.0; }
      int p = 0; p += snprintf(buf + p, sizeof(buf) - p, "{\"e\":\"Scale\",\"cexp\":%d,", cexps[ci]); emit_arr(buf, &p, sizeof(buf), "terr", te, npc); p += snprintf(buf + p, sizeof(buf) - p, ","); emit_arr(buf, &p, sizeof(buf), "perr", pe, npc);
      p += snprintf(buf + p, sizeof(buf) - p, ","); emit_arr(buf, &p, sizeof(buf), "verr", ve, npc); p += snprintf(buf + p, sizeof(buf) - p, "}");
      VRT_EMIT("%s", buf);
      DelPCAModel(&m2); DelMatrix(&x2);
    }
  }
  DelPCAModel(&md);
  return 0;
}

static long n_ok = 0, n_abort = 0;
static void run_case(ccase *cs)
{
  int mx = (cs->n - 1 < cs->c ? cs->n - 1 : cs->c);
  VRT_EMIT("{\"e\":\"Reset\"}");
  if(cs->L < 1 || cs->L > MAXL || cs->L > mx){ VRT_EMIT("{\"e\":\"Dropped\",\"why\":\"shape-too-small\"}"); return; }
  if(cs->L + cs->tail > mx) cs->tail = mx - cs->L;
  VRT_EMIT("{\"e\":\"Case\",\"seed\":%ld,\"n\":%d,\"c\":%d,\"scaling\":%d,\"dec\":%d,\"tail\":%d,\"L\":%d,\"nproc\":%d,\"src\":\"%s\"}",
           cs->mseed, cs->n, cs->c, cs->scaling, cs->dec, cs->tail, cs->L, cs->nproc, (cs->scaling == 0 || cs->scaling == -1) ? "svd" : "jacobi");
  int rc = vrt_run_child(child, cs, 900);
  fseek(vrt_out, 0, SEEK_END);
  if(rc != 0){ VRT_EMIT("{\"e\":\"Abort\",\"rc\":%d,\"why\":\"%s\"}", rc, rc == 97 ? "iteration-budget" : rc == 124 ? "watchdog" : rc >= 1000 ? "signal" : "exit"); n_abort++; }
  else n_ok++;
}

int main(int argc, char **argv)
{
  if(argc < 4){ fprintf(stderr, "usage\n"); return 2; }
  vrt_open(argv[1]);
  ccase cs;
  if(!strcmp(argv[2], "one") && argc >= 11){
    cs.n = atoi(argv[3]); cs.c = atoi(argv[4]); cs.scaling = atoi(argv[5]); cs.dec = atoi(argv[6]); cs.tail = atoi(argv[7]); cs.mseed = atol(argv[8]); cs.nproc = atoi(argv[9]); cs.L = atoi(argv[10]);
    if(cs.L < 1 || cs.L > MAXL || argc < 11 + cs.L){ fprintf(stderr, "bad spectrum\n"); return 2; }
    for(int k = 0; k < cs.L; k++) cs.s2[k] = atof(argv[11 + k]);
    run_case(&cs);
  }
  else if(!strcmp(argv[2], "cases") && argc >= 5){
    FILE *f = fopen(argv[3], "r"); if(!f){ perror("casefile"); return 2; }
    cs.nproc = atoi(argv[4]);
    while(fscanf(f, "%d %d %d %d %d %ld %d", &cs.n, &cs.c, &cs.scaling, &cs.dec, &cs.tail, &cs.mseed, &cs.L) == 7){
      if(cs.L < 1 || cs.L > MAXL){ fprintf(stderr, "bad L\n"); return 2; }
      for(int k = 0; k < cs.L; k++) if(fscanf(f, "%lf", &cs.s2[k]) != 1){ fprintf(stderr, "bad spectrum\n"); return 2; }
      run_case(&cs);
    }
    fclose(f);
  }
  else { fprintf(stderr, "bad arguments\n"); return 2; }
  VRT_EMIT("{\"e\":\"Summary\",\"ok\":%ld,\"aborted\":%ld}", n_ok, n_abort);
  vrt_close();
  return 0;
}
