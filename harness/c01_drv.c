/* c01_drv.c - conformance driver for C01 (PCA is an exact orthogonal decomposition accounting for all variance).
 *
 * usage: c01_drv <out.ndjson> sweep <seed> <count> <nproc> [shapeclass]
 *        c01_drv <out.ndjson> one   <mseed> <n> <c> <scaling> <npc> <nproc>      (npc 0 = rank)
 *
 * Every model is determined by (mseed, n, c, scaling, npc, nproc); the sweep draws those from <seed>.
 * The parent generates the matrix, preprocesses it with MatrixPreprocess, takes the singular values of the
 * PREPROCESSED matrix from LAPACK dgesdd (declared here, independent of the library's wrappers) to decide
 * the admissible number of components, emits Fit, and runs the fit + projection of residuals in a forked
 * child under the H4 iteration budget and a wall-clock watchdog.
 *
 * Events (integers only; fractions of ss0 in 1e-9 units, residuals in 1e-12 units, saturating at 2e9):
 *   Reset{}                                                           separates models
 *   Fit{seed,n,c,scaling,npc,rank,tail,nproc,shape,ss0e,srel}         rank = admissible rank of the preprocessed matrix (singular values >= 1e-6 sigma_1),
 *                                                                     tail = number of further singular values that are not numerically zero
 *   Extract{k,eval,resid,ortho,proj,recon,rorth,dmodx,it}             after component k (it = NIPALS iterations, informative)
 *   Finish{varexp[]}                                                  explained variances / 100
 *   Project{err,gr}                                                   PCAScorePredictor(training matrix) vs training scores; gr: GetResidualMatrix vs E0 - T P' (|E0| units)
 *   Back{err,repr}                                                    PCAIndVarPredictor vs X - scale*residual, in units of |E0|; repr = one ulp of X in the same units
 *   Abort{rc,why}                                                     child died / iteration budget / watchdog
 *   Dropped{why}                                                      generated input outside the quantifier (not judged)
 */
#include "scientific.h"
#include "verif_rt.h"

extern void dgesdd_(char *jobz, int *m, int *n, double *a, int *lda, double *s, double *u, int *ldu,
                    double *vt, int *ldvt, double *work, int *lwork, int *iwork, int *info);

typedef long double ld;

#define RANK_REL   1e-6     /* components requested only among singular values >= RANK_REL * sigma_1 */
#define CLEAN_REL  1e-11    /* singular values <= CLEAN_REL * sigma_1 are numerically zero */
#define F9_LO 0.5e-3        /* |scale| in [F9_LO, F9_HI): fit keeps the column (guard 1e-3) but apply zeroes it (guard 1e-2): */
#define F9_HI 1.2e-2        /*   C10's finding F9, not C01's business -> such inputs are regenerated or dropped */

typedef struct { long mseed; int n, c, scaling, npc, nproc; matrix *x, *E0; int rank, full; } job;

/* ---------------------------------------------------------------- data generation */
static double logunif(vrng *r, double lo, double hi){ return pow(10.0, log10(lo) + vr_unif(r) * (log10(hi) - log10(lo))); }

static void fill_column(vrng *r, matrix *x, int j, double loc, double spread, int kind, double *lat, int nlat)
{
  int n = (int)x->row;
  double *z = malloc(sizeof(double) * n);
  ld mean = 0, var = 0;
  for(int i = 0; i < n; i++){
    double v = (kind == 0) ? (vr_unif(r) - 0.5) : vr_norm(r);
    if(nlat > 0){ /* latent structure: a few common factors + noise */
      double w = 0.25 * v;
      for(int a = 0; a < nlat; a++) w += lat[a * n + i] * lat[nlat * n + a * 64 + (j % 64)];
      v = w;
    }
    z[i] = v; mean += v;
  }
  mean /= n;
  for(int i = 0; i < n; i++){ z[i] -= (double)mean; var += (ld)z[i] * z[i]; }
  double sd = sqrt((double)(var / (n > 1 ? n - 1 : 1)));
  if(!(sd > 0)){   /* degenerate draw: fall back to an arithmetic progression */
    mean = 0; var = 0;
    for(int i = 0; i < n; i++){ z[i] = (double)i; mean += z[i]; }
    mean /= n;
    for(int i = 0; i < n; i++){ z[i] -= (double)mean; var += (ld)z[i] * z[i]; }
    sd = sqrt((double)(var / (n > 1 ? n - 1 : 1)));
  }
  for(int i = 0; i < n; i++) x->data[i][j] = loc + spread * (z[i] / sd);   /* sample standard deviation = spread */
  free(z);
}

/* returns 0 ok, 1 = dropped */
static int gen_matrix(long mseed, int n, int c, int scaling, matrix *x, char *why)
{
  vrng r; r.s = (uint64_t)mseed * 0x9E3779B97F4A7C15ULL + 12345u;
  for(int i = 0; i < 4; i++) vr_next(&r);
  double base = logunif(&r, 0.02, 1e6);
  int widthsel = (int)vr_int(&r, 0, 9);
  double w = widthsel < 4 ? 0.0 : widthsel < 7 ? 1.0 : widthsel < 9 ? 2.0 : 4.0;   /* decades of spread variation inside one matrix */
  int kind = (int)vr_int(&r, 0, 1);
  int nlat = (vr_int(&r, 0, 1) == 0) ? 0 : (int)vr_int(&r, 1, 3);
  double *lat = NULL;
  if(nlat){
    lat = malloc(sizeof(double) * (nlat * n + nlat * 64));
    for(int a = 0; a < nlat; a++){ for(int i = 0; i < n; i++) lat[a * n + i] = vr_norm(&r) * (3.0 / (1 + a)); for(int q = 0; q < 64; q++) lat[nlat * n + a * 64 + q] = vr_norm(&r); }
  }
  int nconst = 0;
  for(int j = 0; j < c; j++){
    int is_const = (c > 1 && vr_int(&r, 0, 11) == 0 && nconst < c - 1);
    int tries = 0;
  again:
    if(is_const){
      double v = (double)vr_int(&r, -1000000, 1000000);     /* spread exactly 0; integer location so that centring is exact */
      for(int i = 0; i < n; i++) x->data[i][j] = v;
      nconst++;
    }
    else{
      double spread = base * pow(10.0, (vr_unif(&r) * 2 - 1) * w);
      if(spread < 0.02) spread = 0.02; if(spread > 1e6) spread = 1e6;
      int ls = (int)vr_int(&r, 0, 9);
      double loc = (ls == 0) ? 0.0 : ((vr_int(&r, 0, 1) ? 1.0 : -1.0) * logunif(&r, 0.1, 1e6));
      fill_column(&r, x, j, loc, spread, kind, lat, nlat);
      /* exact duplicate (x2) of an earlier column now and then: lowers the rank exactly */
      if(j > 0 && vr_int(&r, 0, 24) == 0){ int src = (int)vr_int(&r, 0, j - 1); for(int i = 0; i < n; i++) x->data[i][j] = 2.0 * x->data[i][src]; }
      /* stay clear of the fit/apply zero-scale discrepancy F9 (owned by C10) */
      if(scaling >= 1){
        ld m = 0, q = 0, mn = x->data[0][j], mx = x->data[0][j];
        for(int i = 0; i < n; i++){ m += x->data[i][j]; q += (ld)x->data[i][j] * x->data[i][j]; if(x->data[i][j] < mn) mn = x->data[i][j]; if(x->data[i][j] > mx) mx = x->data[i][j]; }
        m /= n; ld v = 0; for(int i = 0; i < n; i++) v += (x->data[i][j] - m) * (x->data[i][j] - m);
        double sd = sqrt((double)(v / (n > 1 ? n - 1 : 1)));
        double sc = scaling == 1 ? sd : scaling == 2 ? sqrt((double)(q / n)) : scaling == 3 ? sqrt(sd) : scaling == 4 ? (double)(mx - mn) : fabs((double)m);
        if(n == 1) sc = 1.0;
        if(sc < F9_HI){   /* incl. level scaling with mean exactly 0: the guard drops a non-constant column, nothing can reproduce it */
          if(++tries < 30) goto again;
          free(lat); sprintf(why, "scale-in-guard-zone"); return 1;
        }
      }
    }
  }
  free(lat);
  return 0;
}

/* singular values of an n x c libscientific matrix through dgesdd (jobz = N) */
static int svals(matrix *E, double *s)
{
  int m = (int)E->row, n = (int)E->col, lda = m, ldu = 1, ldvt = 1, info = 0, lwork = -1;
  int mn = m < n ? m : n;
  double *a = malloc(sizeof(double) * m * n), wk;
  int *iwork = malloc(sizeof(int) * 8 * (mn > 0 ? mn : 1));
  for(int i = 0; i < m; i++) for(int j = 0; j < n; j++) a[(size_t)j * m + i] = E->data[i][j];
  char jobz = 'N';
  dgesdd_(&jobz, &m, &n, a, &lda, s, NULL, &ldu, NULL, &ldvt, &wk, &lwork, iwork, &info);
  lwork = (int)wk + 64; double *work = malloc(sizeof(double) * lwork);
  dgesdd_(&jobz, &m, &n, a, &lda, s, NULL, &ldu, NULL, &ldvt, work, &lwork, iwork, &info);
  free(work); free(iwork); free(a);
  return info;
}

static const char *shape_of(int n, int c){ return n > c ? "tall" : (n < c ? "wide" : "square"); }

/* ---------------------------------------------------------------- the fit and its residuals (child process) */
static long comp_iters[64];
static void count_iter_cb(const char *site, size_t comp, double a, double b, double conv)
{
  if(comp < 64) comp_iters[comp]++;
  vrt_iter_cb(site, comp, a, b, conv);          /* H4 budget: emits Diverge and leaves the child on overrun */
}

static int child(void *arg)
{
  job *jb = (job *)arg;
  int n = jb->n, c = jb->c, npc = jb->npc;
  matrix *x = jb->x, *E0 = jb->E0;
  vrt_force_nproc((size_t)jb->nproc);
  /* iteration budget (deterministic verdict, unlike the wall-clock watchdog): conforming fits of this sweep need < 2e5 iterations per component */
  vrt_install_iter_budget(jb->nproc > 1 ? 400000 : 3000000, 0);
  libsci_verif_iter = count_iter_cb;

  PCAMODEL *m; NewPCAModel(&m);
  PCA(x, jb->scaling, (size_t)npc, m, NULL);
  if((int)m->scores->col != npc || (int)m->loadings->col != npc || (int)m->scores->row != n || (int)m->loadings->row != c || (int)m->varexp->size != npc){
    VRT_EMIT("{\"e\":\"Abort\",\"rc\":0,\"why\":\"model-shape\"}");
    return 0;
  }
  ld ss0 = 0; for(int i = 0; i < n; i++) for(int j = 0; j < c; j++) ss0 += (ld)E0->data[i][j] * E0->data[i][j];
  double nE0 = sqrt((double)ss0);
  /* Erec: deflated by the harness with the model's t, p (successive); Edir: E0 - T_k P_k' summed directly */
  ld *Erec = malloc(sizeof(ld) * n * c), *Edir = malloc(sizeof(ld) * n * c);
  for(int i = 0; i < n; i++) for(int j = 0; j < c; j++) Erec[i * c + j] = E0->data[i][j];
  for(int k = 0; k < npc; k++){
    ld tt = 0; for(int i = 0; i < n; i++) tt += (ld)m->scores->data[i][k] * m->scores->data[i][k];
    /* proj: t_k = E_{k-1} p_k, relative to |t_k| */
    ld pe = 0;
    for(int i = 0; i < n; i++){ ld v = 0; for(int j = 0; j < c; j++) v += Erec[i * c + j] * m->loadings->data[j][k]; v -= m->scores->data[i][k]; pe += v * v; }
    double proj = sqrt((double)(pe / (tt > 0 ? tt : 1)));
    if(!(tt > 0)) proj = 1.0;
    for(int i = 0; i < n; i++) for(int j = 0; j < c; j++) Erec[i * c + j] -= (ld)m->scores->data[i][k] * m->loadings->data[j][k];
    /* direct residual */
    ld res = 0, rdiff = 0;
    for(int i = 0; i < n; i++) for(int j = 0; j < c; j++){
      ld v = E0->data[i][j];
      for(int q = 0; q <= k; q++) v -= (ld)m->scores->data[i][q] * m->loadings->data[j][q];
      Edir[i * c + j] = v; res += v * v; ld d = v - Erec[i * c + j]; rdiff += d * d;
    }
    double recon = sqrt((double)(rdiff / ss0));
    /* orthonormality of loadings */
    double ortho = 0;
    for(int q = 0; q <= k; q++){ ld d = 0; for(int j = 0; j < c; j++) d += (ld)m->loadings->data[j][k] * m->loadings->data[j][q]; double e = fabs((double)d - (q == k ? 1.0 : 0.0)); if(!(e <= ortho)) ortho = e; }
    /* residual orthogonal to every extracted loading */
    double rorth = 0;
    for(int q = 0; q <= k; q++){ ld nn = 0; for(int i = 0; i < n; i++){ ld v = 0; for(int j = 0; j < c; j++) v += Edir[i * c + j] * m->loadings->data[j][q]; nn += v * v; } double e = sqrt((double)nn) / nE0; if(!(e <= rorth)) rorth = e; }
    /* Impl layer: the model's dmodx column k holds the row norms of the library's own residual */
    ld dm = 0;
    for(int i = 0; i < n; i++){ ld rn = 0; for(int j = 0; j < c; j++) rn += Edir[i * c + j] * Edir[i * c + j]; ld d = sqrtl(rn) - m->dmodx->data[i][k]; dm += d * d; }
    double dmodx = sqrt((double)dm) / nE0;
    VRT_EMIT("{\"e\":\"Extract\",\"k\":%d,\"eval\":%ld,\"resid\":%ld,\"ortho\":%ld,\"proj\":%ld,\"recon\":%ld,\"rorth\":%ld,\"dmodx\":%ld,\"it\":%ld}",
             k + 1, vqs_unit((double)(tt / ss0), 1e-9), vqs_unit((double)(res / ss0), 1e-9), vq12(ortho), vq12(proj), vq12(recon), vq12(rorth), vq12(dmodx), k < 64 ? comp_iters[k] : 0);
  }
  {
    static char buf[4096]; int p = 0;
    p += snprintf(buf + p, sizeof(buf) - p, "{\"e\":\"Finish\",\"varexp\":[");
    for(int k = 0; k < npc; k++) p += snprintf(buf + p, sizeof(buf) - p, "%s%ld", k ? "," : "", vqs_unit(m->varexp->data[k] / 100.0, 1e-9));
    p += snprintf(buf + p, sizeof(buf) - p, "]}");
    VRT_EMIT("%s", buf);
  }
  /* projection of the training matrix reproduces the training scores (per component, relative) */
  {
    matrix *ps; initMatrix(&ps);
    PCAScorePredictor(x, m, (size_t)npc, ps);
    double worst = 0;
    if((int)ps->row != n || (int)ps->col != npc) worst = 1.0;
    else for(int k = 0; k < npc; k++){
      ld d = 0, t2 = 0; for(int i = 0; i < n; i++){ ld e = (ld)ps->data[i][k] - m->scores->data[i][k]; d += e * e; t2 += (ld)m->scores->data[i][k] * m->scores->data[i][k]; }
      double e = (t2 > 0) ? sqrt((double)(d / t2)) : 1.0; if(!(e <= worst)) worst = e;
    }
    /* GetResidualMatrix(training matrix, model, a) = preprocessed data - T_a P_a' for a = npc and a = 1, written into an
       already sized, non-zero output; compared with the harness's own direct residual in units of |E0| */
    double gr = 0;
    for(int pass = 0; pass < 2; pass++){
      int a = pass == 0 ? npc : 1;
      matrix *rm; NewMatrix(&rm, 2, 3); for(int i = 0; i < 2; i++) for(int j = 0; j < 3; j++) rm->data[i][j] = 777.0;
      GetResidualMatrix(x, m, (size_t)a, rm);
      if((int)rm->row != n || (int)rm->col != c) gr = 1.0;
      else{
        ld d2 = 0;
        for(int i = 0; i < n; i++) for(int j = 0; j < c; j++){
          ld v = E0->data[i][j]; for(int q = 0; q < a; q++) v -= (ld)m->scores->data[i][q] * m->loadings->data[j][q];
          ld e = v - rm->data[i][j]; d2 += e * e;
        }
        double e = sqrt((double)(d2 / ss0)); if(!(e <= gr)) gr = e;
      }
      DelMatrix(&rm);
    }
    VRT_EMIT("{\"e\":\"Project\",\"err\":%ld,\"gr\":%ld}", vq12(worst), vq12(gr));
    DelMatrix(&ps);
  }
  /* back-transformation: (X - back)/scale = E0 - T P'  (= 0 when all components are taken), in units of |E0| */
  {
    matrix *bx; initMatrix(&bx);
    PCAIndVarPredictor(m->scores, m->loadings, m->colaverage, m->colscaling, (size_t)npc, bx);
    ld be = 0, rp = 0;            /* rp: how well double precision can represent X relative to its preprocessed content (input property, not model output) */
    if((int)bx->row != n || (int)bx->col != c) be = ss0;
    else for(int j = 0; j < c; j++){
      double sc = (m->colscaling->size > (size_t)j) ? m->colscaling->data[j] : 1.0;
      int zeroed = (jb->scaling >= 0) && (fabs(sc) < 1e-3);
      for(int i = 0; i < n; i++){
        ld lhs = (ld)x->data[i][j] - bx->data[i][j];
        ld e = zeroed ? (lhs - Edir[i * c + j] * sc) : (lhs / sc - Edir[i * c + j]);
        be += e * e;
        ld u = 2.220446049250313e-16L * fabsl((ld)x->data[i][j]) / (zeroed ? 1.0L : fabsl((ld)sc));
        rp += u * u;
      }
    }
    VRT_EMIT("{\"e\":\"Back\",\"err\":%ld,\"repr\":%ld}", vq12(sqrt((double)(be / ss0))), vq12(sqrt((double)(rp / ss0))));
    DelMatrix(&bx);
  }
  free(Erec); free(Edir);
  DelPCAModel(&m);
  return 0;
}

/* ---------------------------------------------------------------- one model */
static long n_ok = 0, n_drop = 0, n_abort = 0;

static void run_model(long mseed, int n, int c, int scaling, int npc_req, double npc_frac, int nproc)
{
  char why[64] = "";
  matrix *x, *E0; dvector *avg, *scl;
  NewMatrix(&x, n, c);
  VRT_EMIT("{\"e\":\"Reset\"}");
  if(gen_matrix(mseed, n, c, scaling, x, why)){
    VRT_EMIT("{\"e\":\"Dropped\",\"seed\":%ld,\"n\":%d,\"c\":%d,\"scaling\":%d,\"why\":\"%s\"}", mseed, n, c, scaling, why);
    n_drop++; DelMatrix(&x); return;
  }
  NewMatrix(&E0, n, c); initDVector(&avg); initDVector(&scl);
  MatrixPreprocess(x, scaling, avg, scl, E0);
  int mn = n < c ? n : c;
  double *s = calloc(mn + 1, sizeof(double));
  int info = svals(E0, s);
  int rank = 0, grey = 0;
  if(info == 0 && s[0] > 0){
    for(int i = 0; i < mn; i++){ if(s[i] >= RANK_REL * s[0]) rank++; else if(s[i] > CLEAN_REL * s[0]) grey++; }
  }
  if(info != 0 || rank < 1){
    VRT_EMIT("{\"e\":\"Dropped\",\"seed\":%ld,\"n\":%d,\"c\":%d,\"scaling\":%d,\"why\":\"%s\"}", mseed, n, c, scaling, info ? "dgesdd-failed" : "rank-0");
    n_drop++; free(s); DelMatrix(&x); DelMatrix(&E0); DelDVector(&avg); DelDVector(&scl); return;
  }
  int npc = npc_req > 0 ? npc_req : (npc_frac >= 1.0 ? rank : 1 + (int)(npc_frac * rank));
  if(npc > rank) npc = rank;          /* never more than the admissible rank: that is C18's territory */
  if(npc < 1) npc = 1;
  int full = (npc == rank && grey == 0);
  ld ss0 = 0; for(int i = 0; i < n; i++) for(int j = 0; j < c; j++) ss0 += (ld)E0->data[i][j] * E0->data[i][j];
  /* sigma_npc/sigma_1 in 1e-9 units (how well conditioned the requested part is), ss0 as decade */
  VRT_EMIT("{\"e\":\"Fit\",\"seed\":%ld,\"n\":%d,\"c\":%d,\"scaling\":%d,\"npc\":%d,\"rank\":%d,\"nproc\":%d,\"tail\":%d,\"shape\":\"%s\",\"ss0e\":%d,\"srel\":%ld}",
           mseed, n, c, scaling, npc, rank, nproc, grey, shape_of(n, c), (int)floor(log10((double)ss0)), vqs_unit(s[npc - 1] / s[0], 1e-9));
  job jb; jb.mseed = mseed; jb.n = n; jb.c = c; jb.scaling = scaling; jb.npc = npc; jb.nproc = nproc; jb.x = x; jb.E0 = E0; jb.rank = rank; jb.full = full;
  int rc = vrt_run_child(child, &jb, 900);
  if(rc != 0){
    fseek(vrt_out, 0, SEEK_END);
    VRT_EMIT("{\"e\":\"Abort\",\"rc\":%d,\"why\":\"%s\"}", rc, rc == 97 ? "iteration-budget" : rc == 124 ? "watchdog" : rc >= 1000 ? "signal" : "exit");
    n_abort++;
  }
  else { fseek(vrt_out, 0, SEEK_END); n_ok++; }
  free(s); DelMatrix(&x); DelMatrix(&E0); DelDVector(&avg); DelDVector(&scl);
}

int main(int argc, char **argv)
{
  if(argc < 3){ fprintf(stderr, "usage\n"); return 2; }
  vrt_open(argv[1]);
  if(!strcmp(argv[2], "one") && argc >= 9){
    run_model(atol(argv[3]), atoi(argv[4]), atoi(argv[5]), atoi(argv[6]), atoi(argv[7]), 1.0, atoi(argv[8]));
  }
  else if(!strcmp(argv[2], "sweep") && argc >= 6){
    vrng r; r.s = (uint64_t)atol(argv[3]) * 2654435761u + 99;
    long count = atol(argv[4]); int nproc = atoi(argv[5]);
    const char *only = argc >= 7 ? argv[6] : "all";
    for(long it = 0; it < count; it++){
      int cls = (int)vr_int(&r, 0, 19), n, c;
      if(!strcmp(only, "small")) { n = (int)vr_int(&r, 2, 12); c = (int)vr_int(&r, 1, 8); }
      else if(cls < 8){ c = (int)vr_int(&r, 1, 25); n = (int)vr_int(&r, c + 1 > 2 ? c + 1 : 2, 60); }                 /* tall */
      else if(cls < 15){ n = (int)vr_int(&r, 2, 24); c = (int)vr_int(&r, n + 1, 25); }                                 /* wide */
      else { n = (int)vr_int(&r, 2, 25); c = n; }                                                                     /* square */
      int scaling = (int)vr_int(&r, -1, 5);
      int fsel = (int)vr_int(&r, 0, 9);
      double frac = fsel < 3 ? 1.0 : vr_unif(&r);
      long mseed = (long)(vr_next(&r) & 0x3FFFFFFF);
      run_model(mseed, n, c, scaling, 0, frac, nproc);
    }
  }
  else { fprintf(stderr, "bad arguments\n"); return 2; }
  VRT_EMIT("{\"e\":\"Summary\",\"ok\":%ld,\"dropped\":%ld,\"aborted\":%ld}", n_ok, n_drop, n_abort);
  vrt_close();
  return 0;
}
