/* c01_drv.c - conformance driver for C01 (PCA is an exact orthogonal decomposition accounting for all variance).
 *
 * usage: c01_drv <out.ndjson> sweep <seed> <count> <nproc> [shapeclass]
 *        c01_drv <out.ndjson> one   <mseed> <n> <c> <scaling> <npc> <nproc>                 (npc 0 = rank; generator class "rnd")
 *        c01_drv <out.ndjson> case  <gen> <gp> <mseed> <n> <c> <scaling> <npc> <nproc>      (npc 0 = rank, -1 = a fraction drawn from mseed)
 *        c01_drv <out.ndjson> cases <file>                                                   (one "case"/"hist" argument list per line)
 *        c01_drv <out.ndjson> hist  <hseed> <nproc>                                          (four fits in ONE process + a refit into a used model)
 *
 * Every model is determined by (gen, gp, mseed, n, c, scaling, npc, nproc); the sweep draws those from <seed>.
 * Generator classes (INPUT-CLASSES.md): rnd = random in-quantifier matrix (spreads 0.02..1e6, locations up to +-1e6, constant and
 * duplicated columns); loc = K3 (every column offset by 10^gp x its spread); mag = K4 (all spreads at the floor 0.02 / at 1e6 / per-column
 * units 2^-5..2^19, with ill-conditioned minor components); k5 = K5 (tied decimal values 0.1 k, k/3, 1e-3 k, constant columns at 0.1, 1/3,
 * 0.7, ..); design = K8 deterministic exactly-orthogonal designs (2^k factorials, contrasts; see design_shape); dup = K8 duplicate rows /
 * columns / ties over a small integer alphabet; sent = a rank-one matrix whose first score equals the missing-value code.
 * The parent generates the matrix, preprocesses it with MatrixPreprocess, takes the singular values of the PREPROCESSED matrix from
 * LAPACK dgesdd (declared here, independent of the library's wrappers) to decide the admissible number of components, emits Fit, and
 * runs the fit + the residuals in a forked child under the H4 iteration budget and a wall-clock watchdog.
 *
 * Events (integers only; fractions of ss0 in 1e-9 units, residuals in 1e-12 units, saturating at 2e9):
 *   Reset{}                                                           separates models
 *   Fit{seed,n,c,scaling,npc,rank,tail,nproc,shape,ss0e,srel,         rank = admissible rank of the preprocessed matrix (singular values >= 1e-6 sigma_1),
 *       gen,gp,rmode,h,hs,loc,sdlo,sdhi,nconst}                        tail = number of further singular values that are not numerically zero; rmode = how the outputs
 *                                                                     of the predictors are handed over (0 empty, 1 other shape + non-zero, 2 EQUAL shape + non-zero);
 *                                                                     h = position in an in-process history (0 = own process); loc = decade of max |mean|/sdev
 *   Extract{k,eval,resid,ortho,proj,recon,rorth,dmodx,it,             after component k (it = NIPALS iterations, informative).  sc12/sc9 = cos^2 (1e-12 / 1e-9 units) between
 *           sc12,sc9,r9,tm,fs}                                        the column of the deflated matrix with the largest sum of squares (the documented NIPALS start) and the
 *                                                                     dominant eigenspace of that deflated matrix (harness's own dgesdd); r9 = eval_k / dominant eigenvalue;
 *                                                                     tm = number of stored scores of the component within 0.1 of the missing-value code 99999999
 *   Finish{varexp[]}                                                  explained variances / 100
 *   Project{err,part,gr}                                              PCAScorePredictor(training matrix) vs training scores for a = npc and then a < npc INTO THE SAME output;
 *                                                                     gr: GetResidualMatrix vs E0 - T_a P_a' for a = npc and a = 1 into the same output (|E0| units)
 *   Back{err,repr,scan}                                               PCAIndVarPredictor vs X - scale*residual for a = 1.. (scan) and finally a = npc (err) INTO THE SAME output,
 *                                                                     in units of |E0|; repr = one ulp of X in the same units
 *   Refit{fs,terr,perr,vlen,npc,died}                                 PCA() into a model object that already holds another fit vs the fit into a fresh model (outside the statement)
 *   RSq{fs,err,repr,len,npc,scaling,died}                             PCARSquared() vs 1 - |X - back-transformation(a)|^2 / |X - means|^2, a = 1..npc (outside the statement; own child)
 *   Abort{rc,why}                                                     child died / iteration budget / watchdog
 *   Dropped{why}                                                      generated input outside the quantifier (not judged)
 */
#include "scientific.h"
#include "verif_rt.h"

extern void dgesdd_(char *jobz, int *m, int *n, double *a, int *lda, double *s, double *u, int *ldu,
                    double *vt, int *ldvt, double *work, int *lwork, int *iwork, int *info);

typedef long double ld;

#define RANK_REL   1e-6     /* components requested only among singular values >= RANK_REL * sigma_1 */
#define CLEAN_REL  1e-11    /* singular values <= CLEAN_REL * sigma_1 are numerically zero */
#define F9_LO 0.5e-3        /* |scale| in [F9_LO, F9_HI): fit keeps the column (guard 1e-3) but apply zeroes it (guard 1e-2): */
#define F9_HI 1.2e-2        /*   C10's finding F9, not C01's business -> such inputs are regenerated or dropped */

enum { G_RND = 0, G_LOC = 1, G_MAG = 2, G_K5 = 3, G_DESIGN = 4, G_DUP = 5, G_SENT = 6, G_NGEN = 7 };
static const char *gen_name[G_NGEN] = {"rnd", "loc", "mag", "k5", "design", "dup", "sent"};

typedef struct {
  long mseed; int n, c, scaling, npc_req, nproc, gen, gp; double npc_frac;
  /* filled by prepare() */
  matrix *x, *E0; int rank, grey, npc, full, locd, sdlo, sdhi, nconst; double srel; ld ss0;
  int hpos, rmode; long hseed;
} job;

typedef struct { matrix *ps, *bx, *rm; } outputs;       /* the predictors' output objects (kept across the fits of a history) */

/* ---------------------------------------------------------------- data generation */
static double logunif(vrng *r, double lo, double hi){ return pow(10.0, log10(lo) + vr_unif(r) * (log10(hi) - log10(lo))); }

static void fill_column_n(vrng *r, matrix *x, int j, double loc, double spread, int kind, double *lat, int nlat, double noise)
{
  int n = (int)x->row;
  double *z = malloc(sizeof(double) * n);
  ld mean = 0, var = 0;
  for(int i = 0; i < n; i++){
    double v = (kind == 0) ? (vr_unif(r) - 0.5) : vr_norm(r);
    if(nlat > 0){ /* latent structure: a few common factors + noise */
      double w = noise * v;
      for(int a = 0; a < nlat; a++) w += lat[a * n + i] * lat[nlat * n + a * 64 + (j % 64)];
      v = w;
    }
    z[i] = v; mean += v;
  }
  mean /= n;
  for(int i = 0; i < n; i++){ z[i] -= (double)mean; var += (ld)z[i] * z[i]; }
  double sd = sqrt((double)(var / (n > 1 ? n - 1 : 1)));
  if(!(sd > 0)){   /* degenerate draw: fall back to an arithmetic progression */
    mean = 0; var = 0;
    for(int i = 0; i < n; i++){ z[i] = (double)i; mean += z[i]; }
    mean /= n;
    for(int i = 0; i < n; i++){ z[i] -= (double)mean; var += (ld)z[i] * z[i]; }
    sd = sqrt((double)(var / (n > 1 ? n - 1 : 1)));
  }
  for(int i = 0; i < n; i++) x->data[i][j] = loc + spread * (z[i] / sd);   /* sample standard deviation = spread */
  free(z);
}
static void fill_column(vrng *r, matrix *x, int j, double loc, double spread, int kind, double *lat, int nlat)
{ fill_column_n(r, x, j, loc, spread, kind, lat, nlat, 0.25); }

static double *new_latent(vrng *r, int n, int nlat)
{
  double *lat = malloc(sizeof(double) * (nlat * n + nlat * 64));
  for(int a = 0; a < nlat; a++){ for(int i = 0; i < n; i++) lat[a * n + i] = vr_norm(r) * (3.0 / (1 + a)); for(int q = 0; q < 64; q++) lat[nlat * n + a * 64 + q] = vr_norm(r); }
  return lat;
}

/* the scale MatrixPreprocess will divide column j by (mean, sample sdev of the column as generated) */
static void col_stats(matrix *x, int j, double *mean, double *sdev, double *scale, int scaling)
{
  int n = (int)x->row;
  ld m = 0, q = 0, mn = x->data[0][j], mx = x->data[0][j];
  for(int i = 0; i < n; i++){ m += x->data[i][j]; q += (ld)x->data[i][j] * x->data[i][j]; if(x->data[i][j] < mn) mn = x->data[i][j]; if(x->data[i][j] > mx) mx = x->data[i][j]; }
  m /= n; ld v = 0; for(int i = 0; i < n; i++) v += (x->data[i][j] - m) * (x->data[i][j] - m);
  double sd = sqrt((double)(v / (n > 1 ? n - 1 : 1)));
  double sc = scaling == 1 ? sd : scaling == 2 ? sqrt((double)(q / n)) : scaling == 3 ? sqrt(sd) : scaling == 4 ? (double)(mx - mn) : scaling == 5 ? fabs((double)m) : 1.0;
  if(n == 1) sc = 1.0;
  *mean = (double)m; *sdev = sd; *scale = sc;
}
static int col_is_const(matrix *x, int j){ for(size_t i = 1; i < x->row; i++) if(x->data[i][j] != x->data[0][j]) return 0; return 1; }

/* gen "rnd": returns 0 ok, 1 = dropped (unchanged since round 1: recorded seeds keep their meaning) */
static int gen_matrix(long mseed, int n, int c, int scaling, matrix *x, char *why)
{
  vrng r; r.s = (uint64_t)mseed * 0x9E3779B97F4A7C15ULL + 12345u;
  for(int i = 0; i < 4; i++) vr_next(&r);
  double base = logunif(&r, 0.02, 1e6);
  int widthsel = (int)vr_int(&r, 0, 9);
  double w = widthsel < 4 ? 0.0 : widthsel < 7 ? 1.0 : widthsel < 9 ? 2.0 : 4.0;   /* decades of spread variation inside one matrix */
  int kind = (int)vr_int(&r, 0, 1);
  int nlat = (vr_int(&r, 0, 1) == 0) ? 0 : (int)vr_int(&r, 1, 3);
  double *lat = NULL;
  if(nlat) lat = new_latent(&r, n, nlat);
  int nconst = 0;
  for(int j = 0; j < c; j++){
    int is_const = (c > 1 && vr_int(&r, 0, 11) == 0 && nconst < c - 1);
    int tries = 0;
  again:
    if(is_const){
      double v = (double)vr_int(&r, -1000000, 1000000);     /* spread exactly 0; integer location so that centring is exact */
      for(int i = 0; i < n; i++) x->data[i][j] = v;
      nconst++;
    }
    else{
      double spread = base * pow(10.0, (vr_unif(&r) * 2 - 1) * w);
      if(spread < 0.02) spread = 0.02; if(spread > 1e6) spread = 1e6;
      int ls = (int)vr_int(&r, 0, 9);
      double loc = (ls == 0) ? 0.0 : ((vr_int(&r, 0, 1) ? 1.0 : -1.0) * logunif(&r, 0.1, 1e6));
      fill_column(&r, x, j, loc, spread, kind, lat, nlat);
      /* exact duplicate (x2) of an earlier column now and then: lowers the rank exactly */
      if(j > 0 && vr_int(&r, 0, 24) == 0){ int src = (int)vr_int(&r, 0, j - 1); for(int i = 0; i < n; i++) x->data[i][j] = 2.0 * x->data[i][src]; }
      /* stay clear of the fit/apply zero-scale discrepancy F9 (owned by C10) */
      if(scaling >= 1){
        double m, sd, sc; col_stats(x, j, &m, &sd, &sc, scaling);
        if(sc < F9_HI){   /* incl. level scaling with mean exactly 0: the guard drops a non-constant column, nothing can reproduce it */
          if(++tries < 30) goto again;
          free(lat); sprintf(why, "scale-in-guard-zone"); return 1;
        }
      }
    }
  }
  free(lat);
  return 0;
}

/* gen "loc" (K3): every informative column sits at +-10^gp x (1..2) x its spread; spreads 0.02..5 */
static int gen_loc(job *jb, char *why)
{
  vrng r; r.s = (uint64_t)jb->mseed * 0x9E3779B97F4A7C15ULL + 777u;
  for(int i = 0; i < 4; i++) vr_next(&r);
  int n = jb->n, c = jb->c;
  double ratio = pow(10.0, (double)jb->gp);
  int kind = (int)vr_int(&r, 0, 1);
  int nlat = (vr_int(&r, 0, 1) == 0) ? 0 : (int)vr_int(&r, 1, 3);
  double *lat = nlat ? new_latent(&r, n, nlat) : NULL;
  for(int j = 0; j < c; j++){
    int is_const = (c > 1 && j > 0 && vr_int(&r, 0, 15) == 0);
    for(int tries = 0; ; tries++){
      double spread = logunif(&r, 0.02, 5.0);
      double loc = (vr_int(&r, 0, 1) ? 1.0 : -1.0) * ratio * spread * (1.0 + vr_unif(&r));
      if(is_const){ double v = floor(loc); for(int i = 0; i < n; i++) jb->x->data[i][j] = v; break; }
      fill_column(&r, jb->x, j, loc, spread, kind, lat, nlat);
      double m, sd, sc; col_stats(jb->x, j, &m, &sd, &sc, jb->scaling);
      if(jb->scaling < 1 || sc >= F9_HI) break;
      if(tries > 30){ free(lat); sprintf(why, "scale-in-guard-zone"); return 1; }
    }
  }
  free(lat);
  return 0;
}

/* gen "mag" (K4): gp 0: every spread at the floor of the quantifier (0.02); gp 1: every spread 1e6; gp 2: per-column unit systems 2^-5..2^19.
 * Always with latent structure and SMALL noise (2e-4 / 1e-3 / 0.25 of a factor), so that the admissible minor components have tiny
 * eigenvalues: an absolute guard on t't or p'p shows here and nowhere else */
static int gen_mag(job *jb, char *why)
{
  vrng r; r.s = (uint64_t)jb->mseed * 0x9E3779B97F4A7C15ULL + 4242u;
  for(int i = 0; i < 4; i++) vr_next(&r);
  int n = jb->n, c = jb->c;
  int kind = (int)vr_int(&r, 0, 1);
  int nlat = (int)vr_int(&r, 1, 3);
  int ns = (int)vr_int(&r, 0, 2);
  double noise = ns == 0 ? 2e-4 : ns == 1 ? 1e-3 : 0.25;
  double *lat = new_latent(&r, n, nlat);
  for(int j = 0; j < c; j++){
    for(int tries = 0; ; tries++){
      double spread = jb->gp == 0 ? 0.02000001 : jb->gp == 1 ? 1e6 : ldexp(1.0, (int)vr_int(&r, -5, 19));
      double loc = (jb->scaling == 5) ? spread * (1.0 + vr_unif(&r)) * (vr_int(&r, 0, 1) ? 1 : -1) : (vr_int(&r, 0, 2) == 0 ? spread * vr_norm(&r) : 0.0);
      fill_column_n(&r, jb->x, j, loc, spread, kind, lat, nlat, noise);
      double m, sd, sc; col_stats(jb->x, j, &m, &sd, &sc, jb->scaling);
      if(jb->scaling < 1 || sc >= F9_HI) break;
      if(tries > 30){ free(lat); sprintf(why, "scale-in-guard-zone"); return 1; }
    }
  }
  free(lat);
  return 0;
}

/* gen "k5" (K5): values that are not representable in binary - tied decimals 0.1 k, thirds k/3, 1e-3 k, shifted by 0.1 / 1/3 / 0.7 / 100.1;
 * constant columns AT such values (sum/n is one ulp off the value for some n: the centred column is then +-1 ulp instead of 0) */
static int gen_k5(job *jb, char *why)
{
  vrng r; r.s = (uint64_t)jb->mseed * 0x9E3779B97F4A7C15ULL + 555u;
  for(int i = 0; i < 4; i++) vr_next(&r);
  static const double offs[6] = {0.0, 0.1, 1.0 / 3.0, 0.7, 100.1, -0.3};
  int n = jb->n, c = jb->c, nconst = 0;
  for(int j = 0; j < c; j++){
    int is_const = (c > 1 && nconst < c - 1 && ((jb->gp & 1) ? (j == 1 || vr_int(&r, 0, 5) == 0) : 0));
    if(is_const){
      int w = (int)vr_int(&r, 0, 5);
      double v = w == 0 ? 0.1 : w == 1 ? 1.0 / 3.0 : w == 2 ? 0.7 : w == 3 ? 1e-3 * (double)vr_int(&r, 1, 999) : w == 4 ? 1000.1 : -0.3;
      for(int i = 0; i < n; i++) jb->x->data[i][j] = v;
      nconst++; continue;
    }
    for(int tries = 0; ; tries++){
      int w = (int)vr_int(&r, 0, 2);
      double o = offs[vr_int(&r, 0, 5)];
      if(jb->scaling == 5 && o == 0.0) o = 0.7;
      for(int i = 0; i < n; i++){
        double v = w == 0 ? 0.1 * (double)vr_int(&r, -9, 9) : w == 1 ? (double)vr_int(&r, -9, 9) / 3.0 : 1e-3 * (double)vr_int(&r, -2000, 2000);
        jb->x->data[i][j] = v + o;
      }
      double m, sd, sc; col_stats(jb->x, j, &m, &sd, &sc, jb->scaling);
      if(!col_is_const(jb->x, j) && sd >= 0.02 && (jb->scaling < 1 || sc >= F9_HI)) break;      /* spread >= 0.02 (the quantifier) */
      if(tries > 60){ sprintf(why, "k5-no-admissible-column"); return 1; }
    }
  }
  return 0;
}

/* gen "dup" (K8): small integer alphabet (exact ties), duplicated objects, duplicated / doubled / negated variables */
static int gen_dup(job *jb, char *why)
{
  vrng r; r.s = (uint64_t)jb->mseed * 0x9E3779B97F4A7C15ULL + 888u;
  for(int i = 0; i < 4; i++) vr_next(&r);
  int n = jb->n, c = jb->c;
  (void)why;
  for(int j = 0; j < c; j++){
    for(int tries = 0; ; tries++){
      double unit = (double)vr_int(&r, 1, 12), off = (jb->scaling == 5) ? unit * (double)vr_int(&r, 5, 40) : (double)vr_int(&r, -50, 50);
      for(int i = 0; i < n; i++) jb->x->data[i][j] = off + unit * (double)vr_int(&r, -3, 3);
      if((jb->gp & 2) && j > 0 && vr_int(&r, 0, 2) == 0){       /* duplicate variable: copy, double or negate an earlier one */
        int src = (int)vr_int(&r, 0, j - 1), how = (int)vr_int(&r, 0, 2);
        for(int i = 0; i < n; i++) jb->x->data[i][j] = how == 0 ? jb->x->data[i][src] : how == 1 ? 2.0 * jb->x->data[i][src] : -jb->x->data[i][src];
        if(jb->scaling == 5 && how == 2) continue;
      }
      double m, sd, sc; col_stats(jb->x, j, &m, &sd, &sc, jb->scaling);
      if(col_is_const(jb->x, j) || jb->scaling < 1 || sc >= F9_HI) break;
      if(tries > 60){ sprintf(why, "scale-in-guard-zone"); return 1; }
    }
  }
  if(jb->gp & 1) for(int i = 1; i < n; i++) if(vr_int(&r, 0, 2) == 0){ int src = (int)vr_int(&r, 0, i - 1); for(int j = 0; j < c; j++) jb->x->data[i][j] = jb->x->data[src][j]; }
  /* copying objects may have changed a column's scale: re-check the guard zone */
  for(int j = 0; j < c; j++){ double m, sd, sc; col_stats(jb->x, j, &m, &sd, &sc, jb->scaling); if(!col_is_const(jb->x, j) && jb->scaling >= 1 && sc < F9_HI){ sprintf(why, "scale-in-guard-zone"); return 1; } }
  return 0;
}

/* gen "design" (K8): exactly orthogonal designs.  Entries are integers or dyadic fractions, so centring is exact and the columns stay EXACTLY
 * orthogonal in double precision: a component coincides with a column, deflation zeroes that column exactly.
 *   0  8 x 3  the coordinator's witness: x1 = u2, x2 = x3 = 0.75 u1 (the column with the largest sum of squares is an eigenvector, not the dominant one)
 *   1  8 x 4  2^3 plan variant: A, 0.75 B, 0.75 B, 0.5 C
 *   2  8 x 3  2^3 factorial in physical units (60/80, 2/4, 1/2 and variants)
 *   3 12 x 4  2 x 2 x 3 factorial, third factor as linear + quadratic contrast
 *   4 16 x 4  2^4 factorial in physical units
 *   5  8 x 7  saturated 2^3 design: main effects and all interactions, distinct integer units (n = p + 1)
 *   6  8 x 4  2^(4-1) fractional factorial, D = ABC
 *   7 16 x 5  A, B, 0.75 C, 0.75 C, 0.5 D
 *   8 16 x 6  A, 0.625 B three times (3 x 6.25 > 16), 0.5 C, 0.25 D
 * mseed = 0 gives the literal design; other seeds multiply by integer units and add integer offsets (orthogonality after centring is kept). */
#define N_DESIGN 9
static int design_shape(int id, int *n, int *c)
{
  static const int nn[N_DESIGN] = {8, 8, 8, 12, 16, 8, 8, 16, 16}, cc[N_DESIGN] = {3, 4, 3, 4, 4, 7, 4, 5, 6};
  if(id < 0 || id >= N_DESIGN) return 1;
  *n = nn[id]; *c = cc[id]; return 0;
}
static double fsign(int i, int f){ return ((i >> f) & 1) ? -1.0 : 1.0; }
static int gen_design(job *jb, char *why)
{
  vrng r; r.s = (uint64_t)jb->mseed * 0x9E3779B97F4A7C15ULL + 999u;
  for(int i = 0; i < 4; i++) vr_next(&r);
  static const double units[7] = {1, 2, 3, 5, 10, 20, 60}, offsv[6] = {0, 1, 7, 40, 70, 1000};
  int n = jb->n, c = jb->c, lit = (jb->mseed == 0);
  matrix *x = jb->x;
  double U = lit ? 1.0 : units[vr_int(&r, 0, 6)];
  (void)why;
  for(int i = 0; i < n; i++){
    double A = fsign(i, 0), B = fsign(i, 1), C = fsign(i, 2), D = fsign(i, 3);
    switch(jb->gp){
      case 0: { double u1 = fsign(i, 2), u2 = fsign(i, 1); x->data[i][0] = u2; x->data[i][1] = 0.75 * u1; x->data[i][2] = 0.75 * u1; } break;
      case 1: x->data[i][0] = A; x->data[i][1] = 0.75 * B; x->data[i][2] = 0.75 * B; x->data[i][3] = 0.5 * C; break;
      case 2: x->data[i][0] = 10 * A; x->data[i][1] = B; x->data[i][2] = 0.5 * C; break;
      case 3: { double a = (i & 1) ? -1.0 : 1.0, b = ((i >> 1) & 1) ? -1.0 : 1.0; int l = i / 4; x->data[i][0] = a; x->data[i][1] = b; x->data[i][2] = (double)(l - 1); x->data[i][3] = l == 1 ? -2.0 : 1.0; } break;
      case 4: x->data[i][0] = 10 * A; x->data[i][1] = B; x->data[i][2] = 0.5 * C; x->data[i][3] = 4 * D; break;
      case 5: x->data[i][0] = A; x->data[i][1] = B; x->data[i][2] = C; x->data[i][3] = A * B; x->data[i][4] = A * C; x->data[i][5] = B * C; x->data[i][6] = A * B * C; break;
      case 6: x->data[i][0] = A; x->data[i][1] = B; x->data[i][2] = C; x->data[i][3] = A * B * C; break;
      case 7: x->data[i][0] = A; x->data[i][1] = B; x->data[i][2] = 0.75 * C; x->data[i][3] = 0.75 * C; x->data[i][4] = 0.5 * D; break;
      default: x->data[i][0] = A; x->data[i][1] = 0.625 * B; x->data[i][2] = 0.625 * B; x->data[i][3] = 0.625 * B; x->data[i][4] = 0.5 * C; x->data[i][5] = 0.25 * D; break;
    }
  }
  for(int j = 0; j < c; j++){
    /* designs 2, 4, 5, 6 get a unit of their own per column (physical units), the others a common unit (the relative sums of squares ARE the design) */
    double u = lit ? 1.0 : ((jb->gp == 2 || jb->gp == 4 || jb->gp == 5 || jb->gp == 6) ? units[vr_int(&r, 0, 6)] : U);
    double o = lit ? ((jb->gp == 2 || jb->gp == 4) ? (j == 0 ? 70.0 : j == 1 ? 3.0 : j == 2 ? 1.5 : 20.0) : 0.0) : offsv[vr_int(&r, 0, 5)];
    if(jb->scaling == 5 && o == 0.0) o = 40.0 * u;            /* level scaling divides by the mean */
    for(int i = 0; i < n; i++) x->data[i][j] = x->data[i][j] * u + o;
  }
  return 0;
}

/* gen "sent": a rank-one matrix k a_i (3, 4) (scaling -1: no centring) whose first score 5 k a_1 equals the missing-value code 99999999 although no
 * CELL is anywhere near it (59999999.4 and 79999999.2): the kernels that skip "missing" terms then drop a computed quantity */
static int gen_sent(job *jb, char *why)
{
  (void)why;
  vrng r; r.s = (uint64_t)jb->mseed * 0x9E3779B97F4A7C15ULL + 31u;
  for(int i = 0; i < 4; i++) vr_next(&r);
  for(int i = 0; i < jb->n; i++){
    double a = i == 0 ? 1.0 : (double)vr_int(&r, 1, 40) / 64.0;
    double t = 99999999.0 * a;
    for(int j = 0; j < jb->c; j++) jb->x->data[i][j] = t * (j % 2 == 0 ? 0.6 : 0.8) / sqrt((double)((jb->c + 1) / 2) * 0.36 + (double)(jb->c / 2) * 0.64);
  }
  return 0;
}

/* singular values (and, when vt != NULL, the right singular vectors, row k of vt = v_k, ldvt = min(m, n)) of an m x n matrix given as ld array */
static int svd_ld(const ld *E, int m, int n, double *s, double *vt)
{
  int lda = m, ldu = m, mn = m < n ? m : n, ldvt = mn, info = 0, lwork = -1;
  double *a = malloc(sizeof(double) * m * n), wk, *u = NULL;
  int *iwork = malloc(sizeof(int) * 8 * (mn > 0 ? mn : 1));
  for(int i = 0; i < m; i++) for(int j = 0; j < n; j++) a[(size_t)j * m + i] = (double)E[(size_t)i * n + j];
  char jobz = vt ? 'S' : 'N';
  if(vt) u = malloc(sizeof(double) * m * mn); else { ldu = 1; ldvt = 1; }
  dgesdd_(&jobz, &m, &n, a, &lda, s, u, &ldu, vt, &ldvt, &wk, &lwork, iwork, &info);
  lwork = (int)wk + 64; double *work = malloc(sizeof(double) * lwork);
  dgesdd_(&jobz, &m, &n, a, &lda, s, u, &ldu, vt, &ldvt, work, &lwork, iwork, &info);
  free(work); free(iwork); free(a); free(u);
  return info;
}
static int svals(matrix *E, double *s)
{
  int m = (int)E->row, n = (int)E->col;
  ld *a = malloc(sizeof(ld) * m * n);
  for(int i = 0; i < m; i++) for(int j = 0; j < n; j++) a[(size_t)i * n + j] = E->data[i][j];
  int info = svd_ld(a, m, n, s, NULL);
  free(a);
  return info;
}

static const char *shape_of(int n, int c){ return n > c ? "tall" : (n < c ? "wide" : "square"); }

/* ---------------------------------------------------------------- preparing one model (parent) */
static long n_ok = 0, n_drop = 0, n_abort = 0;

static void free_job(job *jb){ if(jb->x) DelMatrix(&jb->x); if(jb->E0) DelMatrix(&jb->E0); jb->x = jb->E0 = NULL; }

/* returns 0 ok, 1 dropped (Reset + Dropped emitted) */
static int prepare(job *jb)
{
  char why[64] = "";
  jb->x = jb->E0 = NULL;
  if(jb->gen == G_DESIGN && design_shape(jb->gp, &jb->n, &jb->c)){ fprintf(stderr, "unknown design %d\n", jb->gp); exit(2); }
  int n = jb->n, c = jb->c, bad;
  NewMatrix(&jb->x, n, c);
  switch(jb->gen){
    case G_RND: bad = gen_matrix(jb->mseed, n, c, jb->scaling, jb->x, why); break;
    case G_LOC: bad = gen_loc(jb, why); break;
    case G_MAG: bad = gen_mag(jb, why); break;
    case G_K5: bad = gen_k5(jb, why); break;
    case G_DESIGN: bad = gen_design(jb, why); break;
    case G_DUP: bad = gen_dup(jb, why); break;
    case G_SENT: bad = gen_sent(jb, why); break;
    default: fprintf(stderr, "unknown generator %d\n", jb->gen); exit(2);
  }
  /* a CELL within 2 of the missing-value code is missing data by the library's convention: outside "finite matrices" as C01 reads it */
  if(!bad) for(int i = 0; i < n && !bad; i++) for(int j = 0; j < c; j++){ double v = jb->x->data[i][j]; if(!vfinite(v) || fabs(v - 99999999.0) < 2.0 || fabs(v) > 1e12){ bad = 1; sprintf(why, "cell-near-missing-code"); break; } }
  if(bad){
    VRT_EMIT("{\"e\":\"Reset\"}");
    VRT_EMIT("{\"e\":\"Dropped\",\"seed\":%ld,\"n\":%d,\"c\":%d,\"scaling\":%d,\"gen\":\"%s\",\"why\":\"%s\"}", jb->mseed, n, c, jb->scaling, gen_name[jb->gen], why);
    n_drop++; free_job(jb); return 1;
  }
  dvector *avg, *scl;
  NewMatrix(&jb->E0, n, c); initDVector(&avg); initDVector(&scl);
  MatrixPreprocess(jb->x, jb->scaling, avg, scl, jb->E0);
  DelDVector(&avg); DelDVector(&scl);
  int mn = n < c ? n : c;
  double *s = calloc(mn + 1, sizeof(double));
  int info = svals(jb->E0, s);
  int rank = 0, grey = 0;
  if(info == 0 && s[0] > 0){
    for(int i = 0; i < mn; i++){ if(s[i] >= RANK_REL * s[0]) rank++; else if(s[i] > CLEAN_REL * s[0]) grey++; }
  }
  if(info != 0 || rank < 1){
    VRT_EMIT("{\"e\":\"Reset\"}");
    VRT_EMIT("{\"e\":\"Dropped\",\"seed\":%ld,\"n\":%d,\"c\":%d,\"scaling\":%d,\"gen\":\"%s\",\"why\":\"%s\"}", jb->mseed, n, c, jb->scaling, gen_name[jb->gen], info ? "dgesdd-failed" : "rank-0");
    n_drop++; free(s); free_job(jb); return 1;
  }
  int npc = jb->npc_req > 0 ? jb->npc_req : (jb->npc_frac >= 1.0 ? rank : 1 + (int)(jb->npc_frac * rank));
  if(npc > rank) npc = rank;          /* never more than the admissible rank: that is C18's territory */
  if(npc < 1) npc = 1;
  jb->npc = npc; jb->rank = rank; jb->grey = grey; jb->full = (npc == rank && grey == 0);
  jb->srel = s[npc - 1] / s[0];
  jb->ss0 = 0; for(int i = 0; i < n; i++) for(int j = 0; j < c; j++) jb->ss0 += (ld)jb->E0->data[i][j] * jb->E0->data[i][j];
  /* input classes measured on the matrix itself: decade of max |mean|/sdev (K3), decades of the smallest / largest non-zero column sdev (K4), constant columns */
  double rmax = 0, lo = 0, hi = 0; int nconst = 0;
  for(int j = 0; j < c; j++){
    double m, sd, sc; col_stats(jb->x, j, &m, &sd, &sc, 0);
    if(col_is_const(jb->x, j)){ nconst++; continue; }
    if(sd > 0){ if(fabs(m) / sd > rmax) rmax = fabs(m) / sd; if(lo == 0 || sd < lo) lo = sd; if(sd > hi) hi = sd; }
  }
  jb->locd = rmax >= 1 ? (int)floor(log10(rmax) + 1e-9) : 0;
  jb->sdlo = lo > 0 ? (int)floor(log10(lo) + 1e-6) : 0; jb->sdhi = hi > 0 ? (int)floor(log10(hi) + 1e-6) : 0; jb->nconst = nconst;
  jb->rmode = (int)(jb->mseed % 3);
  free(s);
  return 0;
}

static void emit_fit(job *jb)
{
  VRT_EMIT("{\"e\":\"Reset\"}");
  /* sigma_npc/sigma_1 in 1e-9 units (how well conditioned the requested part is), ss0 as decade */
  VRT_EMIT("{\"e\":\"Fit\",\"seed\":%ld,\"n\":%d,\"c\":%d,\"scaling\":%d,\"npc\":%d,\"rank\":%d,\"nproc\":%d,\"tail\":%d,\"shape\":\"%s\",\"ss0e\":%d,\"srel\":%ld,"
           "\"gen\":\"%s\",\"gp\":%d,\"rmode\":%d,\"h\":%d,\"hs\":%ld,\"loc\":%d,\"sdlo\":%d,\"sdhi\":%d,\"nconst\":%d}",
           jb->mseed, jb->n, jb->c, jb->scaling, jb->npc, jb->rank, jb->nproc, jb->grey, shape_of(jb->n, jb->c), (int)floor(log10((double)jb->ss0)), vqs_unit(jb->srel, 1e-9),
           gen_name[jb->gen], jb->gp, jb->hpos ? 2 : jb->rmode, jb->hpos, jb->hseed, jb->locd, jb->sdlo, jb->sdhi, jb->nconst);
}

/* ---------------------------------------------------------------- the fit and its residuals (child process) */
static long comp_iters[64];
static void count_iter_cb(const char *site, size_t comp, double a, double b, double conv)
{
  if(comp < 64) comp_iters[comp]++;
  vrt_iter_cb(site, comp, a, b, conv);          /* H4 budget: emits Diverge and leaves the child on overrun */
}

/* hand an output object over in the state `rmode` asks for: 0 empty, 1 another shape holding data, 2 the shape the routine will produce, holding data */
static void stage_output(matrix **o, int rmode, int row, int col)
{
  if(*o == NULL) initMatrix(o);
  if(rmode == 3) return;                       /* history: whatever the previous fit left there */
  if(rmode == 0){ DelMatrix(o); initMatrix(o); return; }
  if(rmode == 1) ResizeMatrix(*o, (size_t)row + 1, (size_t)col + 2); else ResizeMatrix(*o, (size_t)row, (size_t)col);
  for(size_t i = 0; i < (*o)->row; i++) for(size_t j = 0; j < (*o)->col; j++) (*o)->data[i][j] = 777.0 + (double)i - 3.0 * (double)j;
}

/* cos^2 between the documented NIPALS start (the column of the deflated matrix with the largest sum of squares) and the dominant eigenspace of the
 * deflated matrix; lam1 = its dominant eigenvalue.  Columns whose sum of squares ties with the largest one (to 1e-9) are all candidates (rounding decides
 * between them inside the library): the smallest cos^2 among them is reported */
static void start_vs_dominant(const ld *E, int n, int c, double *cos2, double *lam1)
{
  int mn = n < c ? n : c;
  double *s = calloc(mn + 1, sizeof(double)), *vt = calloc((size_t)mn * c + 1, sizeof(double));
  *cos2 = 1.0; *lam1 = 0.0;
  if(svd_ld(E, n, c, s, vt) != 0 || !(s[0] > 0)){ free(s); free(vt); return; }
  *lam1 = s[0] * s[0];
  ld *css = calloc(c, sizeof(ld)), cmax = 0;
  for(int i = 0; i < n; i++) for(int j = 0; j < c; j++) css[j] += E[(size_t)i * c + j] * E[(size_t)i * c + j];
  for(int j = 0; j < c; j++) if(css[j] > cmax) cmax = css[j];
  double best = 1.0;
  for(int j = 0; j < c; j++){
    if(!(css[j] >= cmax * (1.0L - 1e-9L)) || !(css[j] > 0)) continue;
    ld part = 0;
    for(int k = 0; k < mn; k++){ if(!(s[k] * s[k] >= *lam1 * (1.0 - 1e-9))) break; part += (ld)s[k] * s[k] * (ld)vt[(size_t)j * mn + k] * vt[(size_t)j * mn + k]; }
    double cs = (double)(part / css[j]);
    if(cs < best) best = cs;
  }
  *cos2 = best < 0 ? 0 : best;
  free(css); free(s); free(vt);
}

/* fits jb into the fresh model *m and emits Extract.., Finish, Project, Back; returns 1 when the model has the wrong shape */
static int fit_and_measure(job *jb, matrix *x, PCAMODEL *m, outputs *o, int rmode)
{
  int n = jb->n, c = jb->c, npc = jb->npc;
  matrix *E0 = jb->E0;
  memset(comp_iters, 0, sizeof(comp_iters));
  PCA(x, jb->scaling, (size_t)npc, m, NULL);
  if((int)m->scores->col != npc || (int)m->loadings->col != npc || (int)m->scores->row != n || (int)m->loadings->row != c || (int)m->varexp->size != npc){
    VRT_EMIT("{\"e\":\"Abort\",\"rc\":0,\"why\":\"model-shape\"}");
    return 1;
  }
  ld ss0 = jb->ss0;
  double nE0 = sqrt((double)ss0);
  /* Erec: deflated by the harness with the model's t, p (successive); Edir: E0 - T_k P_k' summed directly */
  ld *Erec = malloc(sizeof(ld) * n * c), *Edir = malloc(sizeof(ld) * n * c);
  for(int i = 0; i < n; i++) for(int j = 0; j < c; j++) Erec[i * c + j] = E0->data[i][j];
  for(int k = 0; k < npc; k++){
    ld tt = 0; for(int i = 0; i < n; i++) tt += (ld)m->scores->data[i][k] * m->scores->data[i][k];
    /* where did this component start, and what was the dominant eigenvalue of the matrix it was extracted from */
    double cos2, lam1; start_vs_dominant(Erec, n, c, &cos2, &lam1);
    double r = lam1 > 0 ? (double)tt / lam1 : 2.0;
    /* proj: t_k = E_{k-1} p_k, relative to |t_k| */
    ld pe = 0;
    for(int i = 0; i < n; i++){ ld v = 0; for(int j = 0; j < c; j++) v += Erec[i * c + j] * m->loadings->data[j][k]; v -= m->scores->data[i][k]; pe += v * v; }
    double proj = sqrt((double)(pe / (tt > 0 ? tt : 1)));
    if(!(tt > 0)) proj = 1.0;
    for(int i = 0; i < n; i++) for(int j = 0; j < c; j++) Erec[i * c + j] -= (ld)m->scores->data[i][k] * m->loadings->data[j][k];
    /* direct residual */
    ld res = 0, rdiff = 0;
    for(int i = 0; i < n; i++) for(int j = 0; j < c; j++){
      ld v = E0->data[i][j];
      for(int q = 0; q <= k; q++) v -= (ld)m->scores->data[i][q] * m->loadings->data[j][q];
      Edir[i * c + j] = v; res += v * v; ld d = v - Erec[i * c + j]; rdiff += d * d;
    }
    double recon = sqrt((double)(rdiff / ss0));
    /* orthonormality of loadings */
    double ortho = 0;
    for(int q = 0; q <= k; q++){ ld d = 0; for(int j = 0; j < c; j++) d += (ld)m->loadings->data[j][k] * m->loadings->data[j][q]; double e = fabs((double)d - (q == k ? 1.0 : 0.0)); if(!(e <= ortho)) ortho = e; }
    /* residual orthogonal to every extracted loading */
    double rorth = 0;
    for(int q = 0; q <= k; q++){ ld nn = 0; for(int i = 0; i < n; i++){ ld v = 0; for(int j = 0; j < c; j++) v += Edir[i * c + j] * m->loadings->data[j][q]; nn += v * v; } double e = sqrt((double)nn) / nE0; if(!(e <= rorth)) rorth = e; }
    /* Impl layer: the model's dmodx column k holds the row norms of the library's own residual */
    ld dm = 0;
    for(int i = 0; i < n; i++){ ld rn = 0; for(int j = 0; j < c; j++) rn += Edir[i * c + j] * Edir[i * c + j]; ld d = sqrtl(rn) - m->dmodx->data[i][k]; dm += d * d; }
    double dmodx = sqrt((double)dm) / nE0;
    /* how many STORED scores of this component coincide with the in-band missing-value code (the library's kernels skip every term within 0.1 of it) */
    int tm = 0; for(int i = 0; i < n; i++) if(fabs(m->scores->data[i][k] - 99999999.0) < 0.1) tm++;
    VRT_EMIT("{\"e\":\"Extract\",\"k\":%d,\"eval\":%ld,\"resid\":%ld,\"ortho\":%ld,\"proj\":%ld,\"recon\":%ld,\"rorth\":%ld,\"dmodx\":%ld,\"it\":%ld,\"sc12\":%ld,\"sc9\":%ld,\"r9\":%ld,\"tm\":%d,\"fs\":%ld}",
             k + 1, vqs_unit((double)(tt / ss0), 1e-9), vqs_unit((double)(res / ss0), 1e-9), vq12(ortho), vq12(proj), vq12(recon), vq12(rorth), vq12(dmodx), k < 64 ? comp_iters[k] : 0,
             vq12(cos2), vq_unit(cos2, 1e-9), vqs_unit(r > 2.0 ? 2.0 : r, 1e-9), tm, jb->mseed);
  }
  {
    static char buf[4096]; int p = 0;
    p += snprintf(buf + p, sizeof(buf) - p, "{\"e\":\"Finish\",\"varexp\":[");
    for(int k = 0; k < npc; k++) p += snprintf(buf + p, sizeof(buf) - p, "%s%ld", k ? "," : "", vqs_unit(m->varexp->data[k] / 100.0, 1e-9));
    p += snprintf(buf + p, sizeof(buf) - p, "]}");
    VRT_EMIT("%s", buf);
  }
  /* projection of the training matrix reproduces the training scores (per component, relative): first all components, then fewer INTO THE SAME output */
  {
    double worst = 0, part = 0;
    for(int pass = 0; pass < 2; pass++){
      int a = pass == 0 ? npc : (npc > 1 ? npc - 1 : 1);
      if(pass == 0) stage_output(&o->ps, rmode, n, npc);
      PCAScorePredictor(x, m, (size_t)a, o->ps);
      double w = 0;
      if((int)o->ps->row != n || (int)o->ps->col != a) w = 1.0;
      else for(int k = 0; k < a; k++){
        ld d = 0, t2 = 0; for(int i = 0; i < n; i++){ ld e = (ld)o->ps->data[i][k] - m->scores->data[i][k]; d += e * e; t2 += (ld)m->scores->data[i][k] * m->scores->data[i][k]; }
        double e = (t2 > 0) ? sqrt((double)(d / t2)) : 1.0; if(!(e <= w)) w = e;
      }
      if(pass == 0) worst = w; else part = w;
    }
    /* GetResidualMatrix(training matrix, model, a) = preprocessed data - T_a P_a' for a = npc and then a = 1 into the SAME output (the second call finds an
       equally shaped output holding the first residual); compared with the harness's own direct residual in units of |E0| */
    double gr = 0;
    for(int pass = 0; pass < 2; pass++){
      int a = pass == 0 ? npc : 1;
      if(pass == 0) stage_output(&o->rm, rmode, n, c);
      GetResidualMatrix(x, m, (size_t)a, o->rm);
      if((int)o->rm->row != n || (int)o->rm->col != c) gr = 1.0;
      else{
        ld d2 = 0;
        for(int i = 0; i < n; i++) for(int j = 0; j < c; j++){
          ld v = E0->data[i][j]; for(int q = 0; q < a; q++) v -= (ld)m->scores->data[i][q] * m->loadings->data[j][q];
          ld e = v - o->rm->data[i][j]; d2 += e * e;
        }
        double e = sqrt((double)(d2 / ss0)); if(!(e <= gr)) gr = e;
      }
    }
    VRT_EMIT("{\"e\":\"Project\",\"err\":%ld,\"part\":%ld,\"gr\":%ld}", vq12(worst), vq12(part), vq12(gr));
  }
  /* back-transformation: (X - back_a)/scale = E0 - T_a P_a'  (= 0 when all components are taken), in units of |E0|: a = 1, .., then a = npc, all into the
     SAME output object (scanning the number of components: from the second call on the output has the final shape and holds the previous answer) */
  {
    ld rp = 0;            /* rp: how well double precision can represent X relative to its preprocessed content (input property, not model output) */
    double err = 0, scan = 0;
    int alist[4], na = 0;
    if(npc > 1) alist[na++] = 1;
    if(npc > 3) alist[na++] = npc / 2;
    if(npc > 2) alist[na++] = npc - 1;
    alist[na++] = npc;
    stage_output(&o->bx, rmode, n, c);
    for(int q = 0; q < na; q++){
      int a = alist[q];
      PCAIndVarPredictor(m->scores, m->loadings, m->colaverage, m->colscaling, (size_t)a, o->bx);
      ld be = 0; rp = 0;
      if((int)o->bx->row != n || (int)o->bx->col != c) be = ss0;
      else for(int j = 0; j < c; j++){
        double sc = (m->colscaling->size > (size_t)j) ? m->colscaling->data[j] : 1.0;
        int zeroed = (jb->scaling >= 0) && (fabs(sc) < 1e-3);
        for(int i = 0; i < n; i++){
          ld ea = E0->data[i][j]; for(int w = 0; w < a; w++) ea -= (ld)m->scores->data[i][w] * m->loadings->data[j][w];
          ld lhs = (ld)x->data[i][j] - o->bx->data[i][j];
          ld e = zeroed ? (lhs - ea * sc) : (lhs / sc - ea);
          be += e * e;
          ld u = 2.220446049250313e-16L * fabsl((ld)x->data[i][j]) / (zeroed ? 1.0L : fabsl((ld)sc));
          rp += u * u;
        }
      }
      double e = sqrt((double)(be / ss0));
      if(a == npc) err = e; else if(!(e <= scan)) scan = e;
    }
    VRT_EMIT("{\"e\":\"Back\",\"err\":%ld,\"repr\":%ld,\"scan\":%ld}", vq12(err), vq12(sqrt((double)(rp / ss0))), vq12(scan));
  }
  free(Erec); free(Edir);
  return 0;
}

static int child(void *arg)
{
  job *jb = (job *)arg;
  outputs o = {NULL, NULL, NULL};
  vrt_force_nproc((size_t)jb->nproc);
  /* iteration budget (deterministic verdict, unlike the wall-clock watchdog): conforming fits of this sweep need < 2e5 iterations per component */
  vrt_install_iter_budget(jb->nproc > 1 ? 400000 : 3000000, 0);
  libsci_verif_iter = count_iter_cb;
  PCAMODEL *m; NewPCAModel(&m);
  fit_and_measure(jb, jb->x, m, &o, jb->rmode);
  DelPCAModel(&m);
  return 0;
}

/* PCARSquared(x, model, npc, r2) (outside the statement of C01): r2[a-1] = 1 - |X - back-transformation with a components|^2 / |X - column means|^2,
 * against the harness's own back-transformation from the model's scores, loadings, means and scales (long double) */
static int rsq_child(void *arg)
{
  job *jb = (job *)arg;
  int n = jb->n, c = jb->c, npc = jb->npc;
  vrt_force_nproc((size_t)jb->nproc);
  vrt_install_iter_budget(jb->nproc > 1 ? 400000 : 3000000, 0);
  PCAMODEL *m; NewPCAModel(&m);
  PCA(jb->x, jb->scaling, (size_t)npc, m, NULL);
  dvector *r2; initDVector(&r2);
  PCARSquared(jb->x, m, (size_t)npc, r2);
  double err = 0; ld rp = 0, d = 0;
  for(int i = 0; i < n; i++) for(int j = 0; j < c; j++){ ld v = (ld)jb->x->data[i][j] - (m->colaverage->size > (size_t)j ? (ld)m->colaverage->data[j] : 0.0L); d += v * v; }
  if((int)r2->size != npc) err = 1.0;
  else for(int a = 1; a <= npc; a++){
    ld num = 0;
    for(int i = 0; i < n; i++) for(int j = 0; j < c; j++){
      ld v = 0; for(int w = 0; w < a; w++) v += (ld)m->scores->data[i][w] * m->loadings->data[j][w];
      if(m->colscaling->size > (size_t)j) v *= m->colscaling->data[j];
      if(m->colaverage->size > (size_t)j) v += m->colaverage->data[j];
      v -= jb->x->data[i][j]; num += v * v;
    }
    double e = fabs((double)(1.0L - num / d) - r2->data[a - 1]);
    if(!(e <= err)) err = e;
  }
  /* what the location of X costs: the residual X - back is formed from numbers of the size of X */
  for(int i = 0; i < n; i++) for(int j = 0; j < c; j++){ ld u = 2.220446049250313e-16L * fabsl((ld)jb->x->data[i][j]); rp += u * u; }
  VRT_EMIT("{\"e\":\"RSq\",\"fs\":%ld,\"err\":%ld,\"repr\":%ld,\"len\":%d,\"npc\":%d,\"scaling\":%d,\"died\":0}", jb->mseed, vq12(err), vq12(sqrt((double)(rp / (d > 0 ? d : 1)))), (int)r2->size, npc, jb->scaling);
  DelDVector(&r2); DelPCAModel(&m);
  return 0;
}

/* ---------------------------------------------------------------- one model in its own process */
static void run_job(job *jb)
{
  jb->hpos = 0;
  if(prepare(jb)) return;
  emit_fit(jb);
  int rc = vrt_run_child(child, jb, 900);
  fseek(vrt_out, 0, SEEK_END);
  if(rc != 0){
    VRT_EMIT("{\"e\":\"Abort\",\"rc\":%d,\"why\":\"%s\"}", rc, rc == 97 ? "iteration-budget" : rc == 124 ? "watchdog" : rc >= 1000 ? "signal" : "exit");
    n_abort++;
  }
  else{
    n_ok++;
    if(jb->mseed % 4 == 1 || jb->gen == G_DESIGN){      /* a quarter of the fits: PCARSquared, in a child of its own (it may abort) */
      int rr = vrt_run_child(rsq_child, jb, 300);
      fseek(vrt_out, 0, SEEK_END);
      if(rr != 0) VRT_EMIT("{\"e\":\"RSq\",\"fs\":%ld,\"err\":%ld,\"repr\":0,\"len\":0,\"npc\":%d,\"scaling\":%d,\"died\":%d}", jb->mseed, (long)VQ_MAX, jb->npc, jb->scaling, rr);
    }
  }
  free_job(jb);
}

static void run_model(int gen, int gp, long mseed, int n, int c, int scaling, int npc_req, double npc_frac, int nproc)
{
  job jb; memset(&jb, 0, sizeof(jb));
  jb.gen = gen; jb.gp = gp; jb.mseed = mseed; jb.n = n; jb.c = c; jb.scaling = scaling; jb.npc_req = npc_req; jb.npc_frac = npc_frac; jb.nproc = nproc;
  if(npc_req < 0){ vrng r; r.s = (uint64_t)mseed * 77u + 5; vr_next(&r); jb.npc_req = 0; jb.npc_frac = vr_unif(&r); }
  run_job(&jb);
}

/* ---------------------------------------------------------------- an in-process history (K7) */
#define NHIST 4
typedef struct { job j[NHIST]; int nj, nproc; } history;

static void copy_into(matrix **w, matrix *src)
{
  /* the working matrix keeps its OBJECT (address, row pointers) whenever the shape allows it */
  if(*w == NULL || (*w)->row != src->row || (*w)->col != src->col){ if(*w) DelMatrix(w); NewMatrix(w, src->row, src->col); }
  for(size_t i = 0; i < src->row; i++) for(size_t j = 0; j < src->col; j++) (*w)->data[i][j] = src->data[i][j];
}

static int hist_child(void *arg)
{
  history *h = (history *)arg;
  outputs o = {NULL, NULL, NULL};
  matrix *xw = NULL;
  vrt_force_nproc((size_t)h->nproc);
  vrt_install_iter_budget(h->nproc > 1 ? 400000 : 3000000, 0);
  libsci_verif_iter = count_iter_cb;
  for(int q = 0; q < h->nj; q++){
    job *jb = &h->j[q];
    emit_fit(jb);
    copy_into(&xw, jb->x);                 /* same object, same shape, other data (fits 1, 2, 4); another shape (fit 3) */
    PCAMODEL *m; NewPCAModel(&m);           /* allocated where the previous model was freed */
    /* the outputs persist: the first fit finds them empty, the later ones find them holding the previous fit's answers (equal shape for fits 2 and 4) */
    int bad = fit_and_measure(jb, xw, m, &o, q == 0 ? 0 : 3);
    DelPCAModel(&m);
    if(bad) return 0;
  }
  return 0;
}

/* PCA() into a model object that already holds a fit of OTHER data of the same shape, against the fit into a fresh model */
static int refit_child(void *arg)
{
  history *h = (history *)arg;
  job *ja = &h->j[0], *jb = &h->j[1];
  vrt_force_nproc((size_t)h->nproc);
  vrt_install_iter_budget(h->nproc > 1 ? 400000 : 3000000, 0);
  PCAMODEL *used, *fresh; NewPCAModel(&used); NewPCAModel(&fresh);
  PCA(jb->x, jb->scaling, (size_t)jb->npc, used, NULL);
  PCA(ja->x, ja->scaling, (size_t)ja->npc, used, NULL);
  PCA(ja->x, ja->scaling, (size_t)ja->npc, fresh, NULL);
  int npc = ja->npc, n = ja->n, c = ja->c;
  double terr = 0, perr = 0;
  if((int)used->scores->col != npc || (int)used->scores->row != n || (int)used->loadings->row != c || (int)used->loadings->col != npc) terr = perr = 1.0;
  else for(int k = 0; k < npc; k++){
    ld d = 0, t2 = 0, e = 0; for(int i = 0; i < n; i++){ ld v = (ld)used->scores->data[i][k] - fresh->scores->data[i][k]; d += v * v; t2 += (ld)fresh->scores->data[i][k] * fresh->scores->data[i][k]; }
    for(int j = 0; j < c; j++){ ld v = (ld)used->loadings->data[j][k] - fresh->loadings->data[j][k]; e += v * v; }
    double a = t2 > 0 ? sqrt((double)(d / t2)) : 1.0, b = sqrt((double)e);
    if(!(a <= terr)) terr = a; if(!(b <= perr)) perr = b;
  }
  VRT_EMIT("{\"e\":\"Refit\",\"fs\":%ld,\"terr\":%ld,\"perr\":%ld,\"vlen\":%d,\"npc\":%d,\"died\":0}", ja->mseed, vq12(terr), vq12(perr), (int)used->varexp->size, npc);
  DelPCAModel(&used); DelPCAModel(&fresh);
  return 0;
}

static void run_history(long hseed, int nproc)
{
  static history h; memset(&h, 0, sizeof(h));
  vrng r; r.s = (uint64_t)hseed * 0x9E3779B97F4A7C15ULL + 2024u;
  for(int i = 0; i < 4; i++) vr_next(&r);
  int sh = (int)vr_int(&r, 0, 2), n, c;
  if(sh == 0){ c = (int)vr_int(&r, 2, 9); n = (int)vr_int(&r, c + 1, 20); } else if(sh == 1){ n = (int)vr_int(&r, 3, 9); c = (int)vr_int(&r, n + 1, 14); } else { n = c = (int)vr_int(&r, 3, 9); }
  int scaling = (int)vr_int(&r, -1, 5);
  int n2 = n + (int)vr_int(&r, 1, 4), c2 = c > 2 && vr_int(&r, 0, 1) ? c - 1 : c + (int)vr_int(&r, 1, 3);
  long sa = (long)(vr_next(&r) & 0x3FFFFFFF), sb = (long)(vr_next(&r) & 0x3FFFFFFF), sc3 = (long)(vr_next(&r) & 0x3FFFFFFF);
  int full = (int)vr_int(&r, 0, 1);
  h.nproc = nproc; h.nj = NHIST;
  for(int q = 0; q < NHIST; q++){
    job *jb = &h.j[q]; memset(jb, 0, sizeof(*jb));
    jb->gen = G_RND; jb->gp = 0; jb->nproc = nproc; jb->hpos = q + 1; jb->hseed = hseed;
    jb->mseed = (q == 0 || q == 3) ? sa : q == 1 ? sb : sc3;
    jb->n = q == 2 ? n2 : n; jb->c = q == 2 ? c2 : c;
    jb->scaling = q == 2 ? (int)((scaling + 2) % 7) - 1 : scaling;
    jb->npc_req = 0; jb->npc_frac = full ? 1.0 : 0.5;
    int hp = jb->hpos;
    if(prepare(jb)){ for(int w = 0; w < q; w++) free_job(&h.j[w]); return; }      /* a dropped member drops the history (Reset + Dropped already emitted) */
    jb->hpos = hp;
  }
  int rc = vrt_run_child(hist_child, &h, 900);
  fseek(vrt_out, 0, SEEK_END);
  if(rc != 0){
    VRT_EMIT("{\"e\":\"Abort\",\"rc\":%d,\"why\":\"%s\"}", rc, rc == 97 ? "iteration-budget" : rc == 124 ? "watchdog" : rc >= 1000 ? "signal" : "exit");
    n_abort++;
  }
  else{
    n_ok += NHIST;
    /* outside the statement of C01 (the history of the MODEL object): judged by TLC as an extra, in its own child so that it cannot disturb the ledgers */
    int rr = vrt_run_child(refit_child, &h, 300);
    fseek(vrt_out, 0, SEEK_END);
    if(rr != 0) VRT_EMIT("{\"e\":\"Refit\",\"fs\":%ld,\"terr\":%ld,\"perr\":%ld,\"vlen\":0,\"npc\":%d,\"died\":%d}", h.j[0].mseed, (long)VQ_MAX, (long)VQ_MAX, h.j[0].npc, rr);
  }
  for(int q = 0; q < NHIST; q++) free_job(&h.j[q]);
}

/* ---------------------------------------------------------------- command line */
static int gen_id(const char *s){ for(int g = 0; g < G_NGEN; g++) if(!strcmp(s, gen_name[g])) return g; fprintf(stderr, "unknown generator %s\n", s); exit(2); }

static int dispatch(int argc, char **argv)
{
  if(!strcmp(argv[0], "one") && argc >= 7){
    run_model(G_RND, 0, atol(argv[1]), atoi(argv[2]), atoi(argv[3]), atoi(argv[4]), atoi(argv[5]), 1.0, atoi(argv[6]));
  }
  else if(!strcmp(argv[0], "case") && argc >= 9){
    run_model(gen_id(argv[1]), atoi(argv[2]), atol(argv[3]), atoi(argv[4]), atoi(argv[5]), atoi(argv[6]), atoi(argv[7]), 1.0, atoi(argv[8]));
  }
  else if(!strcmp(argv[0], "hist") && argc >= 3){
    run_history(atol(argv[1]), atoi(argv[2]));
  }
  else if(!strcmp(argv[0], "sweep") && argc >= 4){
    vrng r; r.s = (uint64_t)atol(argv[1]) * 2654435761u + 99;
    long count = atol(argv[2]); int nproc = atoi(argv[3]);
    const char *only = argc >= 5 ? argv[4] : "all";
    for(long it = 0; it < count; it++){
      int cls = (int)vr_int(&r, 0, 19), n, c;
      if(!strcmp(only, "small")) { n = (int)vr_int(&r, 2, 12); c = (int)vr_int(&r, 1, 8); }
      else if(cls < 8){ c = (int)vr_int(&r, 1, 25); n = (int)vr_int(&r, c + 1 > 2 ? c + 1 : 2, 60); }                 /* tall */
      else if(cls < 15){ n = (int)vr_int(&r, 2, 24); c = (int)vr_int(&r, n + 1, 25); }                                 /* wide */
      else { n = (int)vr_int(&r, 2, 25); c = n; }                                                                     /* square */
      int scaling = (int)vr_int(&r, -1, 5);
      int fsel = (int)vr_int(&r, 0, 9);
      double frac = fsel < 3 ? 1.0 : vr_unif(&r);
      long mseed = (long)(vr_next(&r) & 0x3FFFFFFF);
      run_model(G_RND, 0, mseed, n, c, scaling, 0, frac, nproc);
    }
  }
  else return 1;
  return 0;
}

int main(int argc, char **argv)
{
  if(argc < 3){ fprintf(stderr, "usage\n"); return 2; }
  vrt_open(argv[1]);
  if(!strcmp(argv[2], "cases") && argc >= 4){
    FILE *f = fopen(argv[3], "r");
    if(!f){ perror(argv[3]); return 2; }
    static char line[512];
    while(fgets(line, sizeof(line), f)){
      char *av[16]; int ac = 0;
      for(char *t = strtok(line, " \t\r\n"); t && ac < 16; t = strtok(NULL, " \t\r\n")) av[ac++] = t;
      if(ac == 0 || av[0][0] == '#') continue;
      if(dispatch(ac, av)){ fprintf(stderr, "bad case line: %s ...\n", av[0]); return 2; }
    }
    fclose(f);
  }
  else if(dispatch(argc - 2, argv + 2)){ fprintf(stderr, "bad arguments\n"); return 2; }
  VRT_EMIT("{\"e\":\"Summary\",\"ok\":%ld,\"dropped\":%ld,\"aborted\":%ld}", n_ok, n_drop, n_abort);
  vrt_close();
  return 0;
}
